------------------------------ MODULE Trace_Match ------------------------------
(* Validation of order books matched by the REAL engine (recorded by `vh amm match`) against the C05   *)
(* laws. Every log node = one book + the engine's result = one TLC state.                              *)
(*   mode "amm"    : amm.OrderBook / FindMatchPrice / MatchAtSinglePrice / Match with the keeper glue   *)
(*                   mirrored so that pool orders are fill-counting orders too;                         *)
(*   mode "kmatch" : the keeper's own Match glue (pool orders are the keeper's PoolOrder: fills = -1);  *)
(*   mode "kfull"  : real limit orders + liquidity EndBlocker; per order paid / open from the stored     *)
(*                   order records, received from real balance deltas (fills = -1).                      *)
(* Small nodes carry TLC integers, big nodes (st.big) limb numbers; the laws are the same formulas.      *)
EXTENDS Match, LimbsX, TLC, Json, FiniteSets
CONSTANT LogFile
Log == ndJsonDeserialize(LogFile)
NLog == Len(Log)

VARIABLE cur
Init == cur \in 1..NLog
Next == UNCHANGED cur
Spec == Init /\ [][Next]_cur

BigLaws == INSTANCE MatchLaws WITH Plus <- LAdd, Times <- LMul, Leq <- LLe, Num <- LOfInt

St(i) == Log[i].st
Os(i) == St(i).orders
Judged(i) == ~St(i).panic

(* ---------------- C05 ---------------- *)
C05Base(i)    == Judged(i) => IF St(i).big THEN BigLaws!BaseConserved(Os(i)) ELSE Laws!BaseConserved(Os(i))
C05DustPos(i) == Judged(i) => IF St(i).big THEN BigLaws!DustNonNegative(Os(i)) ELSE Laws!DustNonNegative(Os(i))
C05DustMax(i) == Judged(i) => IF St(i).big THEN BigLaws!DustBelowFills(Os(i)) ELSE Laws!DustBelowFills(Os(i))
C05Offer(i)   == Judged(i) => IF St(i).big THEN BigLaws!PaidWithinOffer(Os(i)) ELSE Laws!PaidWithinOffer(Os(i))
C05Amount(i)  == Judged(i) => IF St(i).big THEN BigLaws!FilledWithinAmount(Os(i)) ELSE Laws!FilledWithinAmount(Os(i))
C05Limit(i)   == Judged(i) => IF St(i).big THEN BigLaws!PriceWithinLimit(Os(i), St(i).pd) ELSE Laws!PriceWithinLimit(Os(i), St(i).pd)
C05Receive(i) == Judged(i) => IF St(i).big THEN BigLaws!MatchedReceives(Os(i)) ELSE Laws!MatchedReceives(Os(i))

(* ---------------- conformance (engine arithmetic; never an alarm) ---------------- *)
ConfNoPanic(i) == ~St(i).panic
ConfUnmatched(i) ==
  Judged(i) /\ ~St(i).matched =>
     \A k \in 1..Len(Os(i)) : IF St(i).big THEN BigLaws!Untouched(Os(i)[k]) ELSE Laws!Untouched(Os(i)[k])
ConfDust(i) ==
  Judged(i) /\ St(i).matched /\ St(i).mode # "kfull" =>
     IF St(i).big THEN (IF St(i).diffNeg THEN LEq(LAdd(BigLaws!QuotePaid(Os(i)), St(i).diff), BigLaws!QuoteRecv(Os(i)))
                        ELSE LEq(BigLaws!QuotePaid(Os(i)), LAdd(BigLaws!QuoteRecv(Os(i)), St(i).diff)))
     ELSE Laws!QuotePaid(Os(i)) = Laws!QuoteRecv(Os(i)) + (IF St(i).diffNeg THEN 0 - St(i).diff ELSE St(i).diff)
(* single-price batches (no last price): an order filled once was filled at the match price *)
ConfFill(i) ==
  Judged(i) /\ St(i).matched /\ ~St(i).hasLast /\ St(i).mode # "kfull" =>
     \A k \in 1..Len(Os(i)) :
        Os(i)[k].fills = 1 =>
          IF St(i).big THEN BigLaws!OneFillAt(Os(i)[k], St(i).mp, St(i).pd) ELSE Laws!OneFillAt(Os(i)[k], St(i).mp, St(i).pd)
ConfOffer(i) ==
  St(i).mode # "kfull" =>
     \A k \in 1..Len(Os(i)) :
        IF St(i).big THEN BigLaws!OfferIsMinimal(Os(i)[k], St(i).pd) ELSE Laws!OfferIsMinimal(Os(i)[k], St(i).pd)
(* fills are counted faithfully: an order has fills iff it was matched *)
ConfCount(i) ==
  Judged(i) => \A k \in 1..Len(Os(i)) :
     LET o == Os(i)[k] IN o.fills >= 0 => ((o.fills > 0) <=> (IF St(i).big THEN BigLaws!Matched(o) ELSE Laws!Matched(o)))

(* keeper level: an order that names a pair / app / coin it does not belong to is rejected at the message *)
ConfForeignOrder(i) == St(i).foreignAccepted = 0

Formulas == <<"C05_BaseConserved", "C05_DustNonNegative", "C05_DustBelowFills", "C05_PaidWithinOffer", "C05_FilledWithinAmount",
              "C05_PriceWithinLimit", "C05_MatchedReceives",
              "Conf_NoPanic", "Conf_Unmatched", "Conf_DustReturned", "Conf_FillArithmetic", "Conf_OfferAmount", "Conf_FillCount", "Conf_ForeignOrderRejected">>
Holds(f, i) ==
  CASE f = "C05_BaseConserved" -> C05Base(i)
    [] f = "C05_DustNonNegative" -> C05DustPos(i)
    [] f = "C05_DustBelowFills" -> C05DustMax(i)
    [] f = "C05_PaidWithinOffer" -> C05Offer(i)
    [] f = "C05_FilledWithinAmount" -> C05Amount(i)
    [] f = "C05_PriceWithinLimit" -> C05Limit(i)
    [] f = "C05_MatchedReceives" -> C05Receive(i)
    [] f = "Conf_NoPanic" -> ConfNoPanic(i)
    [] f = "Conf_Unmatched" -> ConfUnmatched(i)
    [] f = "Conf_DustReturned" -> ConfDust(i)
    [] f = "Conf_FillArithmetic" -> ConfFill(i)
    [] f = "Conf_OfferAmount" -> ConfOffer(i)
    [] f = "Conf_FillCount" -> ConfCount(i)
    [] f = "Conf_ForeignOrderRejected" -> ConfForeignOrder(i)

Judge == \A k \in 1..Len(Formulas) : Holds(Formulas[k], cur) \/ PrintT(<<"FAIL", Formulas[k], cur>>)

Count(P(_)) == Cardinality({i \in 1..NLog : P(i)})
IsMatched(i) == St(i).matched
IsBig(i) == St(i).big
WithLast(i) == St(i).matched /\ St(i).hasLast
PoolMatched(i) == St(i).matched /\ \E k \in 1..Len(Os(i)) : Os(i)[k].pool /\ Os(i)[k].fills # 0 /\ Os(i)[k].open # Os(i)[k].amt
MultiFill(i) == \E k \in 1..Len(Os(i)) : Os(i)[k].fills > 1
Partial(i) == St(i).matched /\ ~St(i).big /\ \E k \in 1..Len(Os(i)) : Os(i)[k].open > 0 /\ Os(i)[k].open < Os(i)[k].amt
MixedAges(i) == St(i).matched /\ \E k, m \in 1..Len(Os(i)) : Os(i)[k].d = Os(i)[m].d /\ Os(i)[k].old /\ ~Os(i)[m].old
KMatch(i) == St(i).mode = "kmatch" /\ St(i).matched
KFull(i) == St(i).mode = "kfull" /\ St(i).matched
Ranged(i) == St(i).pool = "ranged" /\ St(i).matched
Excess(i) == St(i).excessSide # "none"
KSkewed(i) == KFull(i) /\ St(i).appId # St(i).pairId /\ St(i).appId # 1
KSide(i) == KFull(i) /\ St(i).pairId = 1
KPoolNePair(i) == KFull(i) /\ \E k \in 1..Len(St(i).poolIds) : St(i).poolIds[k] # St(i).pairId
ForeignOrders(i) == St(i).foreignAttempts > 0
Stats == PrintT(<<"STATS", [nodes |-> NLog, matched |-> Count(IsMatched), big |-> Count(IsBig), withLast |-> Count(WithLast),
                             poolMatched |-> Count(PoolMatched), multiFill |-> Count(MultiFill), partial |-> Count(Partial),
                             mixedAges |-> Count(MixedAges), kmatch |-> Count(KMatch), kfull |-> Count(KFull), ranged |-> Count(Ranged),
                             baseExcess |-> Count(Excess), kfullIdsDistinct |-> Count(KSkewed), kfullSecondPair |-> Count(KSide),
                             kfullPoolIdNePairId |-> Count(KPoolNePair), foreignOrderAttempts |-> Count(ForeignOrders)]>>)
AllSeen == Stats /\ TLCGet("stats").distinct = NLog
=============================================================================
