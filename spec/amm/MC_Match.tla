------------------------------- MODULE MC_Match -------------------------------
(* Bounded model for C05.                                                                              *)
(*  (1) generator: every order book of the box (up to MaxBuys x MaxSells orders, prices on a tick grid,  *)
(*      small amounts, batch age old/new, with/without last price, optional pool) is an initial state and *)
(*      is printed as one "T" line = one input executed on the real matching engine;                      *)
(*  (2) design check (Explore = TRUE): from every book all sequences of abstract pairwise trades are      *)
(*      explored and the C05 laws are invariants — the laws are consistent with, and implied by, the      *)
(*      engine's fill arithmetic (ceil for buyers, floor for sellers, zero-quote fills refused).          *)
EXTENDS Match, TLC, Json, FiniteSets
CONSTANTS TP,        \* tick precision of the book
          PD,        \* price denominator
          Prices,    \* tick grid (numerators over PD)
          Amounts, MaxBuys, MaxSells,
          Lasts,     \* last prices (numerators), 0 = no last price
          PoolKinds, \* subset of {"none", "basic", "ranged"}
          PoolRx, PoolRy,    \* reserves (quote, base) of the optional pool
          PoolMn, PoolMx,    \* ranged pool price range (numerators over PD)
          Emit, Explore

VARIABLES bk, src      \* src: the generated input (kept in the state so that distinct states = distinct books)
NoPool == [kind |-> "none", rx |-> 0, ry |-> 0, mn |-> 0, mx |-> 0]
Pools == (IF "none" \in PoolKinds THEN {NoPool} ELSE {})
         \cup (IF "basic" \in PoolKinds THEN {[kind |-> "basic", rx |-> x, ry |-> y, mn |-> 0, mx |-> 0] : x \in PoolRx, y \in PoolRy} ELSE {})
         \cup (IF "ranged" \in PoolKinds THEN {[kind |-> "ranged", rx |-> x, ry |-> y, mn |-> PoolMn, mx |-> PoolMx] : x \in PoolRx, y \in PoolRy} ELSE {})

OrderOpts == [p : Prices, a : Amounts, old : BOOLEAN]
Key(o) == (o.p * 64 + o.a) * 2 + (IF o.old THEN 0 ELSE 1)
Sorted(s) == \A i \in 1..(Len(s) - 1) : Key(s[i]) <= Key(s[i + 1])
Side(n) == UNION {{s \in [1..k -> OrderOpts] : Sorted(s)} : k \in 0..n}
Crosses(bs, ss) == \E i \in 1..Len(bs), j \in 1..Len(ss) : bs[i].p >= ss[j].p

Books == {[tp |-> TP, pd |-> PD, last |-> l, buys |-> bs, sells |-> ss, pool |-> pl] :
            bs \in Side(MaxBuys), ss \in Side(MaxSells), l \in Lasts, pl \in Pools}
Useful(b) == IF b.pool.kind = "none" THEN Crosses(b.buys, b.sells) ELSE Len(b.buys) + Len(b.sells) > 0

InitBook(b) ==
  [orders |-> [i \in 1..Len(b.buys) |-> NewOrder("b", b.buys[i].p, b.buys[i].a, PD)]
              \o [j \in 1..Len(b.sells) |-> NewOrder("s", b.sells[j].p, b.sells[j].a, PD)],
   dust |-> 0]

UsefulBooks == {b \in Books : Useful(b)}      \* (a set filter: an \E inside Init would make TLC branch per witness)
Init == \E b \in UsefulBooks :
          /\ bk = InitBook(b) /\ src = b
          /\ (IF Emit THEN PrintT(<<"T", ToJson(b)>>) ELSE TRUE)

Next == /\ Explore
        /\ \E i, j \in 1..Len(bk.orders), p \in Prices :
             \E a \in 1..Min2(bk.orders[i].open, bk.orders[j].open) :
               /\ CanTrade(bk, i, j, a, p, PD)
               /\ bk' = Trade(bk, i, j, a, p, PD)
               /\ UNCHANGED src
Spec == Init /\ [][Next]_<<bk, src>>

InvBase    == BaseConserved(bk)
InvDust    == DustNonNegative(bk) /\ DustBelowFills(bk) /\ DustIsDifference(bk)
InvOffer   == PaidWithinOffer(bk)
InvAmount  == FilledWithinAmount(bk)
InvLimit   == PriceWithinLimit(bk, PD)
InvReceive == MatchedReceives(bk)
=============================================================================
