-------------------------------- MODULE Match --------------------------------
(* x/liquidity/amm batch matching, as far as C05 needs it.                                            *)
(*   - the order record and the engine's arithmetic primitives are transcribed from the code:          *)
(*       OfferCoinAmount, MatchableAmount (util.go), FillOrder (match.go:32-52);                       *)
(*   - the matching *strategy* (FindMatchPrice, MatchAtSinglePrice, the two-sided loop, pro-rata       *)
(*     distribution, pool order generation) is deliberately NOT transcribed: it is abstracted as       *)
(*     "any sequence of pairwise trades built from FillOrder" (action Trade below). The bounded model   *)
(*     MC_Match shows that every such sequence satisfies the C05 laws (MatchLaws.tla); what the real    *)
(*     engine does with a book is taken from the log and judged by the same laws (Trace_Match).         *)
(* Prices are rationals pn/pd with pd a power of ten (ticks), compared by cross-multiplication.        *)
EXTENDS Integers, Sequences

IPlus(a, b)  == a + b
ITimes(a, b) == a * b
ILeq(a, b)   == a <= b
INum(n)      == n
Laws == INSTANCE MatchLaws WITH Plus <- IPlus, Times <- ITimes, Leq <- ILeq, Num <- INum

Min2(a, b) == IF a <= b THEN a ELSE b
CeilDiv(a, b)  == (a + b - 1) \div b
FloorDiv(a, b) == a \div b

(* amm.OfferCoinAmount *)
OfferCoinAmount(d, pn, amt, pd) == IF d = "b" THEN CeilDiv(pn * amt, pd) ELSE amt

NewOrder(d, pn, amt, pd) ==
  [d |-> d, pn |-> pn, amt |-> amt, offer |-> OfferCoinAmount(d, pn, amt, pd), paid |-> 0, recv |-> 0, open |-> amt,
   fills |-> 0, neg |-> FALSE]

(* amm.MatchableAmount(order, price p/pd): bounded by the remaining offer coin for a buy; zero when the   *)
(* quote value of the amount truncates to zero                                                            *)
MatchableAmount(o, p, pd) ==
  LET m == IF o.d = "b" THEN Min2(o.open, FloorDiv((o.offer - o.paid) * pd, p)) ELSE o.open
  IN IF FloorDiv(p * m, pd) = 0 THEN 0 ELSE m

(* amm.FillOrder(order, a, price p/pd): buyers pay the ceiling, sellers receive the floor.               *)
(* result: [o |-> order', diff |-> quoteCoinDiff]                                                          *)
FillOrder(o, a, p, pd) ==
  IF o.d = "b"
  THEN LET q == CeilDiv(p * a, pd) IN
       [o |-> [o EXCEPT !.paid = @ + q, !.recv = @ + a, !.open = @ - a, !.fills = @ + 1], diff |-> q]
  ELSE LET q == FloorDiv(p * a, pd) IN
       [o |-> [o EXCEPT !.paid = @ + a, !.recv = @ + q, !.open = @ - a, !.fills = @ + 1], diff |-> 0 - q]

(* A book under matching: the orders and the accumulated quoteCoinDiff (dust).                            *)
(* One abstract matching step: buy order i and sell order j trade a base units at a price p/pd that        *)
(* neither side's limit forbids. Guard = what the engine guarantees before it calls FillOrder:              *)
(* a within both matchable amounts, and the seller's quote proceeds of this fill do not truncate to zero.   *)
CanTrade(bk, i, j, a, p, pd) ==
  LET b == bk.orders[i]  s == bk.orders[j] IN
  /\ b.d = "b" /\ s.d = "s"
  /\ s.pn <= p /\ p <= b.pn
  /\ a >= 1 /\ a <= MatchableAmount(b, p, pd) /\ a <= MatchableAmount(s, p, pd)
  /\ FloorDiv(p * a, pd) > 0
Trade(bk, i, j, a, p, pd) ==
  LET fb == FillOrder(bk.orders[i], a, p, pd)
      fs == FillOrder(bk.orders[j], a, p, pd)
  IN [orders |-> [bk.orders EXCEPT ![i] = fb.o, ![j] = fs.o], dust |-> bk.dust + fb.diff + fs.diff]

(* ---- C05 over a book --------------------------------------------------------------------------------- *)
BaseConserved(bk)      == Laws!BaseConserved(bk.orders)
DustNonNegative(bk)    == Laws!DustNonNegative(bk.orders)
DustBelowFills(bk)     == Laws!DustBelowFills(bk.orders)
PaidWithinOffer(bk)    == Laws!PaidWithinOffer(bk.orders)
FilledWithinAmount(bk) == Laws!FilledWithinAmount(bk.orders)
PriceWithinLimit(bk, pd) == Laws!PriceWithinLimit(bk.orders, pd)
MatchedReceives(bk)    == Laws!MatchedReceives(bk.orders)
DustIsDifference(bk)   == bk.dust = Laws!QuotePaid(bk.orders) - Laws!QuoteRecv(bk.orders)
=============================================================================
