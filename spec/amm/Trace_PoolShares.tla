--------------------------- MODULE Trace_PoolShares ---------------------------
(* Validation of deposits / withdrawals / ranged-pool steps executed by the REAL code (recorded by       *)
(* `vh amm shares`) against the C06 laws (ShareLaws.tla) and, for the small box, against the             *)
(* transcription PoolShares.tla (value for value).                                                       *)
(*   level "amm"    : amm.Deposit / amm.Withdraw / amm.CreateRangedPool / pool orders of a ranged pool    *)
(*   level "keeper" : deposit / withdraw / create-ranged-pool requests through the real liquidity keeper, *)
(*                    every amount taken from real bank balances and supplies before / after the batch    *)
(* Small nodes carry TLC integers, big nodes (st.big) limb numbers (amounts up to 10^40).                 *)
EXTENDS PoolShares, LimbsX, TLC, Json, FiniteSets
CONSTANT LogFile
Log == ndJsonDeserialize(LogFile)
NLog == Len(Log)

VARIABLE cur
Init == cur \in 1..NLog
Next == UNCHANGED cur
Spec == Init /\ [][Next]_cur

(* the statement's tolerance: a relative rounding error below 10^-17 *)
T17 == LPow10(17)
LLeTolOf(a, b, ref) == LLe(LMul(a, T17), LAdd(LMul(b, T17), ref))
BigLaws == INSTANCE ShareLaws WITH Plus <- LAdd, Times <- LMul, Leq <- LLe, Num <- LOfInt, LeqTolOf <- LLeTolOf

St(i) == Log[i].st
IsDeposit(i)  == St(i).op = "deposit"
IsWithdraw(i) == St(i).op = "withdraw"
IsCreate(i)   == St(i).op = "create"

(* ---------------- C06 ---------------- *)
(* (st.neg: some recorded movement had the wrong sign, e.g. reserves shrinking on a deposit; amounts are logged as magnitudes) *)
C06Offer(i)    == IsDeposit(i) \/ IsCreate(i) => ~St(i).neg /\ (IF St(i).big THEN BigLaws!DepositWithinOffer(St(i)) ELSE Laws!DepositWithinOffer(St(i)))
C06Rate(i)     == IsDeposit(i) => IF St(i).big THEN BigLaws!DepositRateFair(St(i)) ELSE Laws!DepositRateFair(St(i))
C06Share(i)    == IsWithdraw(i) => ~St(i).neg /\ (IF St(i).big THEN BigLaws!WithdrawWithinShare(St(i)) ELSE Laws!WithdrawWithinShare(St(i)))
C06Last(i)     == IsWithdraw(i) => IF St(i).big THEN BigLaws!LastShareTakesAll(St(i)) ELSE Laws!LastShareTakesAll(St(i))
C06PerShare(i) == IsDeposit(i) \/ IsWithdraw(i) => IF St(i).big THEN BigLaws!PerShareNotDecreasing(St(i)) ELSE Laws!PerShareNotDecreasing(St(i))
C06Range(i)    == St(i).hasPrice => LLe(St(i).mn, St(i).price) /\ LLe(St(i).price, St(i).mx)

(* ---------------- conformance: code result = PoolShares.tla result, inside the box of the precision argument ------- *)
InBox(i) == /\ ~St(i).big /\ St(i).feeMilli >= 0
            /\ St(i).rx <= 16 /\ St(i).ry <= 16 /\ St(i).ps <= 16 /\ St(i).ps >= 1 /\ St(i).rx + St(i).ry > 0
ConfDeposit(i) ==
  IsDeposit(i) /\ St(i).accepted /\ InBox(i) /\ St(i).inX <= 16 /\ St(i).inY <= 16 =>
     LET d == Deposit(St(i).rx, St(i).ry, St(i).ps, St(i).inX, St(i).inY, 6) IN
     St(i).ax = d.ax /\ St(i).ay = d.ay /\ St(i).pc = d.pc
ConfWithdraw(i) ==
  IsWithdraw(i) /\ St(i).accepted /\ InBox(i) /\ St(i).reqPc <= St(i).ps /\ St(i).reqPc >= 1 =>
     LET w == Withdraw(St(i).rx, St(i).ry, St(i).ps, St(i).reqPc, St(i).feeMilli, 6) IN
     IF St(i).level = "keeper" /\ w.x = 0 /\ w.y = 0
     THEN St(i).outX = 0 /\ St(i).outY = 0 /\ St(i).pc = 0          \* the keeper refuses an empty withdrawal: nothing burned
     ELSE St(i).outX = w.x /\ St(i).outY = w.y /\ St(i).pc = St(i).reqPc
ConfBooked(i) ==
  IF IsDeposit(i) THEN (IF St(i).big THEN BigLaws!DepositBooked(St(i)) ELSE Laws!DepositBooked(St(i)))
  ELSE IF IsWithdraw(i) THEN (IF St(i).big THEN BigLaws!WithdrawBooked(St(i)) ELSE Laws!WithdrawBooked(St(i)))
  ELSE TRUE
(* keeper level: the real balance / supply movements are exactly what the amm function returns for the pre-state *)
ConfKeeper(i) ==
  St(i).level = "keeper" =>
     IF IsDeposit(i) THEN (IF St(i).big THEN BigLaws!DepositAsFn(St(i)) ELSE Laws!DepositAsFn(St(i)))
     ELSE IF IsWithdraw(i) THEN (IF St(i).big THEN BigLaws!WithdrawAsFn(St(i)) ELSE Laws!WithdrawAsFn(St(i)))
     ELSE TRUE
(* amm.CreateRangedPool divides by zero when sqrt(initial) equals sqrt(min) or sqrt(max) at 18 decimals although    *)
(* initial differs from them; the keeper only admits prices on ticks, where neighbouring prices differ by >= 10^-5   *)
(* relative and this cannot happen. Off-tick triples are generated on purpose; their panics are counted, not hidden. *)
(* a request that names a coin which is not the pool's (share coin of another pool or of the same pool id in another app, *)
(* deposit coin outside the pair) is rejected at the message; a rejected request moves nothing.                          *)
(* (If such a request is executed, the C06 laws above judge what it did: pc is what was burned of the pool's OWN shares.)  *)
ConfForeign(i)  == St(i).foreign # "none" => ~St(i).accepted
ConfRejected(i) == ~St(i).accepted => IF St(i).big THEN BigLaws!NothingMoved(St(i)) ELSE Laws!NothingMoved(St(i))
ConfNoPanic(i) == St(i).panic => IsCreate(i) /\ St(i).offTicks

Formulas == <<"C06_DepositWithinOffer", "C06_DepositRateFair", "C06_WithdrawWithinShare", "C06_LastShareTakesAll",
              "C06_PerShareNotDecreasing", "C06_PriceInRange",
              "Conf_Deposit", "Conf_Withdraw", "Conf_Booked", "Conf_KeeperIsAmm", "Conf_NoPanic", "Conf_ForeignCoinRejected", "Conf_RejectedMovesNothing">>
Holds(f, i) ==
  CASE f = "C06_DepositWithinOffer" -> C06Offer(i)
    [] f = "C06_DepositRateFair" -> C06Rate(i)
    [] f = "C06_WithdrawWithinShare" -> C06Share(i)
    [] f = "C06_LastShareTakesAll" -> C06Last(i)
    [] f = "C06_PerShareNotDecreasing" -> C06PerShare(i)
    [] f = "C06_PriceInRange" -> C06Range(i)
    [] f = "Conf_Deposit" -> ConfDeposit(i)
    [] f = "Conf_Withdraw" -> ConfWithdraw(i)
    [] f = "Conf_Booked" -> ConfBooked(i)
    [] f = "Conf_KeeperIsAmm" -> ConfKeeper(i)
    [] f = "Conf_NoPanic" -> ConfNoPanic(i)
    [] f = "Conf_ForeignCoinRejected" -> ConfForeign(i)
    [] f = "Conf_RejectedMovesNothing" -> ConfRejected(i)

Judge == \A k \in 1..Len(Formulas) : Holds(Formulas[k], cur) \/ PrintT(<<"FAIL", Formulas[k], cur>>)

Count(P(_)) == Cardinality({i \in 1..NLog : P(i)})
IsBig(i) == St(i).big
Keeper(i) == St(i).level = "keeper"
KeeperDep(i) == Keeper(i) /\ IsDeposit(i) /\ St(i).pc # (IF St(i).big THEN <<>> ELSE 0)
KeeperWd(i) == Keeper(i) /\ IsWithdraw(i) /\ St(i).pc # (IF St(i).big THEN <<>> ELSE 0)
Minted(i) == IsDeposit(i) /\ St(i).pc # (IF St(i).big THEN <<>> ELSE 0)
LastShare(i) == IsWithdraw(i) /\ St(i).pc = St(i).ps
Priced(i) == St(i).hasPrice
Ranged(i) == St(i).kind = "ranged"
ConfDep(i) == IsDeposit(i) /\ InBox(i) /\ St(i).inX <= 16 /\ St(i).inY <= 16
ConfWd(i) == IsWithdraw(i) /\ InBox(i) /\ St(i).reqPc <= St(i).ps /\ St(i).reqPc >= 1
Fee(i) == IsWithdraw(i) /\ St(i).feeK # St(i).feeD
CreatePanic(i) == IsCreate(i) /\ St(i).panic
Swap(i) == St(i).op = "swap" /\ St(i).hasPrice
RangeMiss(i) == St(i).rangeMiss # "none"
ForeignShare(i) == IsWithdraw(i) /\ St(i).foreign \in {"otherApp", "otherPool"}
ForeignApp(i) == IsWithdraw(i) /\ St(i).foreign = "otherApp"
ForeignDep(i) == IsDeposit(i) /\ St(i).foreign = "notInPair"
PoolNePair(i) == Keeper(i) /\ St(i).poolId # St(i).pairId /\ (KeeperDep(i) \/ KeeperWd(i))
IdsDistinct(i) == Keeper(i) /\ St(i).poolId # St(i).pairId /\ St(i).poolId # St(i).appId /\ St(i).appId # St(i).pairId /\ St(i).appId # 1
                  /\ (KeeperDep(i) \/ KeeperWd(i))
RangedPoolNePair(i) == PoolNePair(i) /\ Ranged(i) /\ KeeperDep(i)
Stats == PrintT(<<"STATS", [nodes |-> NLog, big |-> Count(IsBig), deposits |-> Count(IsDeposit), withdraws |-> Count(IsWithdraw),
                             creates |-> Count(IsCreate), minted |-> Count(Minted), lastShare |-> Count(LastShare),
                             keeperDeposits |-> Count(KeeperDep), keeperWithdraws |-> Count(KeeperWd), priced |-> Count(Priced),
                             ranged |-> Count(Ranged), confDeposit |-> Count(ConfDep), confWithdraw |-> Count(ConfWd), withFee |-> Count(Fee),
                             createPanicsOffTick |-> Count(CreatePanic), swaps |-> Count(Swap), rangeMiss |-> Count(RangeMiss),
                             foreignCoinAttempts |-> Count(ForeignShare), foreignAppCoinAttempts |-> Count(ForeignApp),
                             foreignDepositAttempts |-> Count(ForeignDep), poolIdNePairId |-> Count(PoolNePair),
                             idsPairwiseDistinct |-> Count(IdsDistinct), rangedDepositPoolIdNePairId |-> Count(RangedPoolNePair)]>>)
AllSeen == Stats /\ TLCGet("stats").distinct = NLog
=============================================================================
