------------------------------ MODULE MatchLaws ------------------------------
(* C05 — the laws of batch matching, stated over the result of matching one order book, independent  *)
(* of how the matching engine works. Written once over an abstract number algebra so that the very   *)
(* same formulas are evaluated with TLC integers (small books, the bounded model) and with limb      *)
(* numbers (real-size amounts up to 10^40).                                                           *)
(*                                                                                                    *)
(* An order result is a record                                                                        *)
(*   [d |-> "b" | "s", pn, amt, offer, paid, recv, open, fills, neg]                                   *)
(* price = pn / pd (pd: the book's price denominator, a power of ten); amt = ordered base amount;     *)
(* offer = offer coin available (quote for a buy, base for a sell); paid / recv = offer coin paid /   *)
(* demand coin received; open = base amount still open; fills = number of individual fills the order  *)
(* took part in (an Int, -1 = not observable); neg = some recorded amount was negative.               *)
(* Subtraction is avoided throughout (filled = amt - open is moved to the other side).                *)
EXTENDS Integers, Sequences
CONSTANTS Plus(_, _), Times(_, _), Leq(_, _), Num(_)

Lt(a, b) == ~Leq(b, a)
Eq(a, b) == Leq(a, b) /\ Leq(b, a)

RECURSIVE SumSeq(_)
SumSeq(s) == IF s = <<>> THEN Num(0) ELSE Plus(Head(s), SumSeq(Tail(s)))
RECURSIVE SumInt(_)
SumInt(s) == IF s = <<>> THEN 0 ELSE Head(s) + SumInt(Tail(s))

IsBuy(o)  == o.d = "b"
IsSell(o) == o.d = "s"
Pick(os, Sel(_), F(_)) == SumSeq([i \in 1..Len(os) |-> IF Sel(os[i]) THEN F(os[i]) ELSE Num(0)])
FRecv(o) == o.recv
FPaid(o) == o.paid

BaseBought(os) == Pick(os, IsBuy, FRecv)    \* base coin received by buyers
BaseSold(os)   == Pick(os, IsSell, FPaid)   \* base coin paid by sellers
QuotePaid(os)  == Pick(os, IsBuy, FPaid)    \* quote coin paid by buyers
QuoteRecv(os)  == Pick(os, IsSell, FRecv)   \* quote coin received by sellers
Matched(o)     == Lt(o.open, o.amt)
FillsKnown(os) == \A i \in 1..Len(os) : os[i].fills >= 0
TotalFills(os) == SumInt([i \in 1..Len(os) |-> os[i].fills])

(* 1. matching exchanges exactly as much base coin as buyers receive and sellers pay *)
BaseConserved(os) == Eq(BaseBought(os), BaseSold(os))
(* 2. buyers never pay less quote than sellers receive ... *)
DustNonNegative(os) == Leq(QuoteRecv(os), QuotePaid(os))
(*    ... and the difference (rounding dust) is smaller than the number of individual fills *)
DustBelowFills(os) == FillsKnown(os) /\ TotalFills(os) > 0 => Lt(QuotePaid(os), Plus(QuoteRecv(os), Num(TotalFills(os))))
(* 3. no order pays more than its offer coin *)
PaidWithinOffer(os) == \A i \in 1..Len(os) : Leq(os[i].paid, os[i].offer)
(* 4. no order is filled beyond its amount (and nothing recorded is negative) *)
FilledWithinAmount(os) == \A i \in 1..Len(os) : ~os[i].neg /\ Leq(os[i].open, os[i].amt)
(* 5. no order trades at a price worse than its own limit by more than one smallest quote unit per fill:     *)
(*    buy : paid <= price*filled + fills      sell : recv + fills >= price*filled     (x pd, filled = amt-open) *)
PriceWithinLimit(os, pd) ==
  \A i \in 1..Len(os) :
    LET o == os[i] IN
    o.fills >= 0 =>
      IF IsBuy(o)
      THEN Leq(Plus(Times(o.paid, pd), Times(o.pn, o.open)), Plus(Times(o.pn, o.amt), Times(Num(o.fills), pd)))
      ELSE Leq(Times(o.pn, o.amt), Plus(Plus(Times(o.recv, pd), Times(Num(o.fills), pd)), Times(o.pn, o.open)))
(* 6. an order that is matched receives a strictly positive amount *)
MatchedReceives(os) == \A i \in 1..Len(os) : Matched(os[i]) => Lt(Num(0), os[i].recv)

(* ---- conformance-level facts about the engine's arithmetic (not part of the property) -------------------- *)
Untouched(o) == Eq(o.open, o.amt) /\ Eq(o.paid, Num(0)) /\ Eq(o.recv, Num(0))
(* one fill at price mp/pd: buyers pay ceil(price*filled), sellers receive floor(price*filled); the base leg is exact *)
OneFillAt(o, mp, pd) ==
  IF IsBuy(o)
  THEN /\ Eq(Plus(o.recv, o.open), o.amt)
       /\ Leq(Times(mp, o.amt), Plus(Times(o.paid, pd), Times(mp, o.open)))
       /\ Lt(Plus(Times(o.paid, pd), Times(mp, o.open)), Plus(Times(mp, o.amt), pd))
  ELSE /\ Eq(Plus(o.paid, o.open), o.amt)
       /\ Leq(Plus(Times(o.recv, pd), Times(mp, o.open)), Times(mp, o.amt))
       /\ Lt(Times(mp, o.amt), Plus(Plus(Times(o.recv, pd), pd), Times(mp, o.open)))
(* amm.OfferCoinAmount: ceil(price*amt) quote for a buy, amt base for a sell *)
OfferIsMinimal(o, pd) ==
  IF IsBuy(o) THEN Leq(Times(o.pn, o.amt), Times(o.offer, pd)) /\ Lt(Times(o.offer, pd), Plus(Times(o.pn, o.amt), pd))
  ELSE Eq(o.offer, o.amt)
=============================================================================
