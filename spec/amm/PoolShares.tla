------------------------------ MODULE PoolShares ------------------------------
(* amm.Deposit and amm.Withdraw (x/liquidity/amm/pool.go:477-532) transcribed at a parametric decimal   *)
(* precision: a LegacyDec is modelled as an integer scaled by P = 10^K (the code uses K = 18).          *)
(*                                                                                                      *)
(* Choice of K for the bounded model. The integers returned by the code depend on K only through the    *)
(* digits of quotients a/b beyond position K (truncation in QuoTruncate, half-even rounding in Quo).     *)
(* For denominators b <= 16 the decimal expansion of a/b has a pre-period of at most 4 digits and a      *)
(* period dividing 6 (b = 7, 13, 14) or 2 or 1; with K = 6 (>= pre-period, and 18 - 6 = 12 a multiple of *)
(* every period) the digits after position 6 are the same sequence as the digits after position 18, so   *)
(* every truncation / rounding goes the same way, and the integer boundaries are at distance >= 1/(1000*b)*)
(* which both 16*10^-6 and 16*10^-18 are far below. Hence for rx, ry, ps <= 16 the model at K = 6        *)
(* returns exactly the integers of the code at K = 18. This is not taken on faith: every case of the     *)
(* model is executed on the real functions and compared (Conf_Deposit / Conf_Withdraw).                  *)
(* The withdrawal fee is a multiple of 1/1000 (feeMilli).                                                *)
EXTENDS Integers, Sequences, Limbs

IPlus(a, b)  == a + b
ITimes(a, b) == a * b
ILeq(a, b)   == a <= b
INum(n)      == n
(* on TLC integers (all products < 2^31 << 10^17) the tolerance ref*10^-17 is below one unit: the comparison is exact *)
ILeqTolOf(a, b, ref) == a <= b
Laws == INSTANCE ShareLaws WITH Plus <- IPlus, Times <- ITimes, Leq <- ILeq, Num <- INum, LeqTolOf <- ILeqTolOf

Min2(a, b) == IF a <= b THEN a ELSE b
Pow10(k) == IF k = 0 THEN 1 ELSE IF k = 1 THEN 10 ELSE IF k = 2 THEN 100 ELSE IF k = 3 THEN 1000 ELSE IF k = 4 THEN 10000
            ELSE IF k = 5 THEN 100000 ELSE 1000000

(* Int.ToLegacyDec().QuoTruncate(Int.ToLegacyDec()) : floor(a/b) at precision P *)
QuoTrunc(a, b, P) == (a * P) \div b
(* Int.ToLegacyDec().Quo(Int.ToLegacyDec()) : a/b rounded half-even at precision P *)
QuoHalfEven(a, b, P) ==
  LET q == (a * P) \div b   r == (a * P) % b IN
  IF 2 * r < b THEN q ELSE IF 2 * r > b THEN q + 1 ELSE IF q % 2 = 0 THEN q ELSE q + 1
CeilDiv(a, b) == (a + b - 1) \div b

(* ---- amm.Deposit(rx, ry, ps, x, y) -> [ax, ay, pc] -------------------------------------------------------- *)
Deposit(rx, ry, ps, x, y, K) ==
  LET P     == Pow10(K)
      ratio == IF rx = 0 THEN QuoTrunc(y, ry, P)
               ELSE IF ry = 0 THEN QuoTrunc(x, rx, P)
               ELSE Min2(QuoTrunc(x, rx, P), QuoTrunc(y, ry, P))
      pc    == (ps * ratio) \div P                  \* ps.MulTruncate(ratio).TruncateInt()
      mp    == QuoHalfEven(pc, ps, P)               \* mintProportion = pc / ps
  IN [ax |-> CeilDiv(rx * mp, P),                   \* rx.Mul(mintProportion).Ceil()
      ay |-> CeilDiv(ry * mp, P), pc |-> pc]

(* ---- amm.Withdraw(rx, ry, ps, pc, feeRate) -> [x, y] ------------------------------------------------------ *)
(* floor(r * proportion * (1 - fee)) with proportion = floor(pc/ps) at precision P; the triple product        *)
(* exceeds 2^31, so it is formed with limb arithmetic: (r*prop) * (1000 - feeMilli) / 1000 / P                 *)
RECURSIVE DivPow1000(_, _)
DivPow1000(a, n) == IF n = 0 THEN a ELSE DivPow1000(LDivSmall(a, 1000), n - 1)
WithdrawOne(r, prop, feeMilli, K) ==
  LToInt(DivPow1000(LMulSmall(LOfInt(r * prop), 1000 - feeMilli), 1 + K \div 3))
Withdraw(rx, ry, ps, pc, feeMilli, K) ==
  IF pc = ps THEN [x |-> rx, y |-> ry]              \* redeeming the last pool coin: everything
  ELSE LET prop == QuoTrunc(pc, ps, Pow10(K)) IN
       [x |-> WithdrawOne(rx, prop, feeMilli, K), y |-> WithdrawOne(ry, prop, feeMilli, K)]

(* ---- step records for the laws ------------------------------------------------------------------------ *)
DepositStep(rx, ry, ps, x, y, K) ==
  LET d == Deposit(rx, ry, ps, x, y, K) IN
  [rx |-> rx, ry |-> ry, ps |-> ps, inX |-> x, inY |-> y, ax |-> d.ax, ay |-> d.ay, pc |-> d.pc,
   rx2 |-> rx + d.ax, ry2 |-> ry + d.ay, ps2 |-> ps + d.pc, hasPrice |-> FALSE]
WithdrawStep(rx, ry, ps, pc, feeMilli, K) ==
  LET w == Withdraw(rx, ry, ps, pc, feeMilli, K) IN
  [rx |-> rx, ry |-> ry, ps |-> ps, pc |-> pc, outX |-> w.x, outY |-> w.y, feeD |-> 1000, feeK |-> 1000 - feeMilli,
   rx2 |-> rx - w.x, ry2 |-> ry - w.y, ps2 |-> ps - pc, hasPrice |-> FALSE]
=============================================================================
