------------------------------- MODULE LimbsX -------------------------------
(* Extension of spec/common/Limbs.tla used by the amm family: product of two limb numbers            *)
(* (schoolbook, one LMulSmall per limb of the second factor; every limb is < 2^15 so all              *)
(* intermediate values stay below 2^31), and decimal powers as limb numbers.                          *)
EXTENDS Limbs

LShift(s, k) == IF s = <<>> \/ k = 0 THEN s ELSE [j \in 1..k |-> 0] \o s

RECURSIVE LMulAt(_, _, _)
LMulAt(a, b, i) == IF i > Len(b) THEN <<>>
                   ELSE LAdd(LShift(LMulSmall(a, b[i]), i - 1), LMulAt(a, b, i + 1))
LMul(a, b) == IF a = <<>> \/ b = <<>> THEN <<>> ELSE LNorm(LMulAt(LNorm(a), LNorm(b), 1))

RECURSIVE LPow10(_)
LPow10(k) == IF k = 0 THEN <<1>> ELSE LMulSmall(LPow10(k - 1), 10)
=============================================================================
