---------------------------- MODULE MC_PoolShares ----------------------------
(* Bounded exhaustive model for C06: every pool state (rx, ry, ps) of a small box, every deposit (x, y)  *)
(* and every withdrawal (pc, fee) from it. TLC checks the fairness laws on every transition (design      *)
(* level) and prints each transition as one "T" line = one vector executed on the real amm.Deposit /     *)
(* amm.Withdraw and through deposit / withdraw requests on the real keeper.                              *)
EXTENDS PoolShares, TLC, Json
CONSTANTS R,         \* reserves 0..R
          S,         \* share supply 1..S
          X,         \* offered amounts 0..X
          Fees,      \* withdraw fees in 1/1000
          K,         \* decimal precision of the model
          Emit

VARIABLES pool, last
vars == <<pool, last>>
None == [op |-> "none"]

Init == /\ pool \in [rx : 0..R, ry : 0..R, ps : 1..S]
        /\ pool.rx + pool.ry > 0
        /\ last = None

Out(a, args, post) ==
  IF Emit THEN PrintT(<<"T", ToJson([a |-> a, pre |-> pool, args |-> args, post |-> post, k |-> K])>>) ELSE TRUE

DoDeposit(x, y) ==
  LET s == DepositStep(pool.rx, pool.ry, pool.ps, x, y, K) IN
  /\ last = None
  /\ last' = [op |-> "deposit", s |-> s]
  /\ pool' = [rx |-> s.rx2, ry |-> s.ry2, ps |-> s.ps2]
  /\ Out("Deposit", [x |-> x, y |-> y, pc |-> 0, fee |-> 0], [ax |-> s.ax, ay |-> s.ay, pc |-> s.pc, x |-> 0, y |-> 0])

DoWithdraw(pc, f) ==
  LET s == WithdrawStep(pool.rx, pool.ry, pool.ps, pc, f, K) IN
  /\ last = None
  /\ last' = [op |-> "withdraw", s |-> s]
  /\ pool' = [rx |-> s.rx2, ry |-> s.ry2, ps |-> s.ps2]
  /\ Out("Withdraw", [x |-> 0, y |-> 0, pc |-> pc, fee |-> f], [ax |-> 0, ay |-> 0, pc |-> 0, x |-> s.outX, y |-> s.outY])

Next == \/ \E x, y \in 0..X : DoDeposit(x, y)
        \/ \E pc \in 1..pool.ps, f \in Fees : DoWithdraw(pc, f)
Spec == Init /\ [][Next]_vars

(* C06 on the model *)
IsDep == last.op = "deposit"
IsWd  == last.op = "withdraw"
InvDepositWithinOffer == IsDep => Laws!DepositWithinOffer(last.s)
InvDepositRateFair    == IsDep => Laws!DepositRateFair(last.s)
InvWithdrawWithinShare == IsWd => Laws!WithdrawWithinShare(last.s)
InvLastShare          == IsWd => Laws!LastShareTakesAll(last.s)
InvPerShare           == IsDep \/ IsWd => Laws!PerShareNotDecreasing(last.s)
InvNonNegative        == pool.rx >= 0 /\ pool.ry >= 0 /\ pool.ps >= 0
=============================================================================
