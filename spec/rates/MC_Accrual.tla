----------------------------- MODULE MC_Accrual -----------------------------
(* Bounded model that generates the evaluation chains of the accrual functions: the state is a point  *)
(* (function, principal, rate, elapsed time) of the argument grid; a transition raises exactly one    *)
(* argument to its next grid value (a monotonicity pair) or splits the elapsed time t1 + t2 (a        *)
(* sub-additivity triple). Every transition is printed as one JSON line and evaluated on the real     *)
(* functions by `vh rates --mode accrual`. On the model TLC checks the laws for the ideal             *)
(* simple-interest function (the sdk.Dec paths' specification) and the tracker's carry arithmetic.    *)
EXTENDS Accrual, AccrualGrid, TLC, Json
CONSTANTS Fns, Emit, TrackD, TrackAcc, TrackMaxDebt

VARIABLES fn, pi, ri, ti, pos
vars == <<fn, pi, ri, ti, pos>>

Pos0 == [debt |-> 0, frac |-> 0]
Init == fn \in Fns /\ pi = 1 /\ ri = 1 /\ ti = 1 /\ pos = Pos0

Pt(p, r, t) == [P |-> PS[p], r |-> RS[r].s, rn |-> RS[r].n, rd |-> RS[r].d, t |-> TS[t]]
OutMono(kind, lo, hi) == IF Emit THEN PrintT(<<"T", ToJson([a |-> "Mono", fn |-> fn, kind |-> kind, lo |-> lo, hi |-> hi])>>) ELSE TRUE
OutSplit(p, t1, t2)   == IF Emit THEN PrintT(<<"T", ToJson([a |-> "SubAdd", fn |-> fn, pt |-> p, t1 |-> t1, t2 |-> t2])>>) ELSE TRUE

UpP == pos = Pos0 /\ pi < Len(PS) /\ pi' = pi + 1 /\ UNCHANGED <<fn, ri, ti, pos>> /\ OutMono("P", Pt(pi, ri, ti), Pt(pi + 1, ri, ti))
UpR == pos = Pos0 /\ ri < Len(RS) /\ ri' = ri + 1 /\ UNCHANGED <<fn, pi, ti, pos>> /\ OutMono("r", Pt(pi, ri, ti), Pt(pi, ri + 1, ti))
UpT == pos = Pos0 /\ ti < Len(TS) /\ ti' = ti + 1 /\ UNCHANGED <<fn, pi, ri, pos>> /\ OutMono("t", Pt(pi, ri, ti), Pt(pi, ri, ti + 1))
Split == \E tj \in 1..Len(TS) : /\ pos = Pos0 /\ tj <= ti /\ TS[tj] <= TMax - TS[ti]
                                /\ UNCHANGED vars /\ OutSplit(Pt(pi, ri, ti), TS[ti], TS[tj])
(* tracker: at the grid origin only, so the two state spaces add instead of multiplying *)
Track == /\ pi = 1 /\ ri = 1 /\ ti = 1 /\ pos.debt < TrackMaxDebt
         /\ \E acc \in TrackAcc : pos' = TrackerStep(pos, acc, TrackD)
         /\ UNCHANGED <<fn, pi, ri, ti>>
Next == UpP \/ UpR \/ UpT \/ Split \/ Track
Spec == Init /\ [][Next]_vars

(* ---- design-level checks ---- *)
PLTab == << <<>>, <<1>>, <<7>>, <<1000>> >>        \* only the small principals are used on the model
SmallP == pi <= Len(PLTab)
Lin(p, r, t) == Linear(PLTab[p], RS[r].n, RS[r].d, TS[t])
IdealMonotone == SmallP =>
   /\ (pi > 1 => RLe(Lin(pi - 1, ri, ti), Lin(pi, ri, ti)))
   /\ (ri > 1 => RLe(Lin(pi, ri - 1, ti), Lin(pi, ri, ti)))
   /\ (ti > 1 => RLe(Lin(pi, ri, ti - 1), Lin(pi, ri, ti)))
IdealZero == SmallP /\ ti = 1 => Lin(pi, ri, ti).n = <<>>
IdealAdditive == SmallP => \A tj \in 1..ti : TS[tj] <= TMax - TS[ti] =>
   REq(RAdd(Linear(PLTab[pi], RS[ri].n, RS[ri].d, TS[ti]), Linear(PLTab[pi], RS[ri].n, RS[ri].d, TS[tj])),
       Linear(PLTab[pi], RS[ri].n, RS[ri].d, TS[ti] + TS[tj]))
TrackerInv == TrackerOk(pos, TrackD)
=============================================================================
