------------------------------- MODULE Accrual -------------------------------
(* Accrual of stability fees (vaults), savings (lockers), lending rewards and borrow interest.       *)
(*                                                                                                   *)
(* The code computes one accrual as a function  f(principal, yearly rate, elapsed seconds):          *)
(*   CalculationOfRewards      x/rewards/keeper/iter.go  compound, P*((1+r)^(t/Y) - 1), via float64 math.Pow *)
(*   CalculateLendReward       x/lend/keeper/iter.go     index path, P*(idx*(1 + r*t/Y)/idx - 1) in sdk.Dec *)
(*   CalculateBorrowInterest   x/lend/keeper/iter.go     same, plus the reserve share at the reserve rate *)
(*   CalculateStableInterest   x/lend/keeper/iter.go     P*r*t/Y in sdk.Dec                           *)
(* and books it through a tracker: whole units are paid / added to the debt, the fraction < 1 is     *)
(* carried (rewards.go CalculateVaultInterest / CalculateLockerRewards, lend IterateLends).          *)
(*                                                                                                   *)
(* A float power cannot be computed in TLA+: the value the code returned is an environment choice    *)
(* taken from the log and constrained by the laws below. For the sdk.Dec paths the ideal value is    *)
(* the rational P*r*t/Y and the code must be within the rounding budget of its five 18-decimal       *)
(* operations (conformance). Recorded values: [neg, vL, err, panic], vL = limbs of |v| * 10^18.      *)
EXTENDS RatesNum

YearFactors == <<1461, 21600>>            \* types.SecondsPerYear = 31557600 = 1461 * 21600

Ok(v)     == ~v.err /\ ~v.panic
IsZero(v) == LNorm(v.vL) = <<>>
NonNeg(v) == ~v.neg \/ IsZero(v)
ValLe(a, b) == IF a.neg THEN (IF b.neg THEN LLe(b.vL, a.vL) ELSE TRUE) ELSE (~b.neg /\ LLe(a.vL, b.vL))

(* an argument point x = [PL |-> principal limbs, rL |-> rate * 10^18 limbs, t |-> seconds] *)
ArgLe(x, y) == LLe(x.PL, y.PL) /\ LLe(x.rL, y.rL) /\ x.t <= y.t
Differ(x, y) == (IF LEq(x.PL, y.PL) THEN 0 ELSE 1) + (IF LEq(x.rL, y.rL) THEN 0 ELSE 1) + (IF x.t = y.t THEN 0 ELSE 1)
OneArgUp(x, y) == ArgLe(x, y) /\ Differ(x, y) <= 1

(* ---------------- the laws of C18 ---------------- *)
LawNonNegative(v)       == Ok(v) => NonNeg(v)
LawZeroAtZero(x, v)     == Ok(v) /\ x.t = 0 => IsZero(v)
LawMonotone(x, y, vx, vy) == OneArgUp(x, y) /\ Ok(vx) /\ Ok(vy) => ValLe(vx, vy)
(* "beyond rounding in the last stored decimal place": one unit of 10^-18 in each of the (at most four)  *)
(* stored per-unit factors, scaled by the principal, plus one for the result itself (DESIGN section 5)   *)
RoundTol(PL) == LAdd(LMulSmall(PL, 4), <<1>>)
AllGood(f1, f2, f12) == Ok(f1) /\ Ok(f2) /\ Ok(f12) /\ NonNeg(f1) /\ NonNeg(f2) /\ NonNeg(f12)
LawSubAdditive(PL, f1, f2, f12) ==
  AllGood(f1, f2, f12) => LLe(LAdd(f1.vL, f2.vL), LAdd(f12.vL, RoundTol(PL)))
(* the same with a relative allowance of 10^-6 of the combined accrual (bounds the float-path finding) *)
LawSubAdditiveWithin(PL, f1, f2, f12) ==
  AllGood(f1, f2, f12) =>
     LLe(LMulSeq(LAdd(f1.vL, f2.vL), E6), LAdd(LMulSeq(f12.vL, <<101, 9901>>), LMulSeq(RoundTol(PL), E6)))

(* ---------------- ideal values ---------------- *)
(* simple interest P * (rn/rd) * t / Y *)
Linear(PL, rn, rd, t) == Rat(LMul(LMulSmall(PL, rn), LOfInt(t)), <<rd>> \o YearFactors)
(* budget of the index path: t/Y truncated (1), r*(t/Y) (r + 1/2), idx*(1+e) and /idx (1), times P, rounded *)
LinearTolUnits(PL, rn, rd) == LAdd(LMulSmall(PL, (rn + rd - 1) \div rd + 2), <<1>>)
NearLinear(v, PL, rn, rd, t) ==
  LET r == Linear(PL, rn, rd, t)
      lhs == LMulSeq(v.vL, r.fs)
      rhs == LMulSeq(r.n, E18)
      slack == LMul(RDen(r), LinearTolUnits(PL, rn, rd))
  IN ~v.neg /\ LLe(lhs, LAdd(rhs, slack)) /\ LLe(rhs, LAdd(lhs, slack))
(* compound interest over whole years: P * ((rd+rn)^k - rd^k) / rd^k *)
RECURSIVE Rep(_, _)
Rep(x, k) == IF k = 0 THEN <<>> ELSE <<x>> \o Rep(x, k - 1)
RECURSIVE LSubtract(_, _, _, _)       \* a - b for a >= b, limb-wise with borrow
LSubtract(a, b, i, br) == IF i > Len(a) THEN <<>>
                          ELSE LET d == a[i] - LAt(b, i) - br IN
                               IF d < 0 THEN <<d + B>> \o LSubtract(a, b, i + 1, 1) ELSE <<d>> \o LSubtract(a, b, i + 1, 0)
LSub(a, b) == LNorm(LSubtract(LNorm(a), LNorm(b), 1, 0))
Compound(PL, rn, rd, k) == Rat(LMul(PL, LSub(LMulSeq(LOne, Rep(rd + rn, k)), LMulSeq(LOne, Rep(rd, k)))), Rep(rd, k))
(* float64: 53-bit mantissa; allow 10^-12 relative + 10^-18 absolute per unit of principal *)
NearCompound(v, PL, rn, rd, k) ==
  LET r == Compound(PL, rn, rd, k)
      lhs == LMulSeq(LMulSeq(v.vL, r.fs), <<1000, 1000, 1000, 1000>>)
      rhs == LMulSeq(LMulSeq(r.n, E18), <<1000, 1000, 1000, 1000>>)
      slack == LAdd(LMulSeq(r.n, E18), LMulSeq(LMul(RDen(r), RoundTol(PL)), <<1000, 1000, 1000, 1000>>))
  IN ~v.neg /\ LLe(lhs, LAdd(rhs, slack)) /\ LLe(rhs, LAdd(lhs, slack))

(* ---------------- the tracker: whole units booked, fraction carried ---------------- *)
(* amounts in units of 1/D; a position is [debt |-> whole units, frac |-> carried numerator, 0 <= frac < D] *)
TrackerStep(pos, accrued, D) ==
  LET tot == pos.frac + accrued IN
  IF tot >= D THEN [debt |-> pos.debt + tot \div D, frac |-> tot % D] ELSE [debt |-> pos.debt, frac |-> tot]
TrackerOk(pos, D) == pos.frac >= 0 /\ pos.frac < D /\ pos.debt >= 0
=============================================================================
