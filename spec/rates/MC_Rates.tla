------------------------------ MODULE MC_Rates ------------------------------
(* Bounded model of the rate curve: for every parameter set of the grid one chain of utilisation     *)
(* values un/UD in increasing order. TLC checks the C18 rate laws on the specification's rationals   *)
(* and prints one JSON line per transition; every line is one vector executed on the real keeper     *)
(* (GetUtilisationRatio / GetBorrowAPR(variable, stable) / GetLendAPR) by `vh rates --mode curve`.   *)
EXTENDS Rates, TLC, Json, FiniteSets
CONSTANTS UOpts, Bases, S1s, S2s, SBases, SS1s, SS2s, RFs,   \* parameter grids (permille)
          UD, UNs,                                            \* utilisation grid: un \in UNs, U = un/UD
          Emit

VARIABLES p, u          \* u = -1: parameters chosen, nothing evaluated yet
vars == <<p, u>>

Params == [uopt : UOpts, base : Bases, s1 : S1s, s2 : S2s, sbase : SBases, ss1 : SS1s, ss2 : SS2s, rf : RFs]
Init == p \in Params /\ u = -1

(* next / previous grid value (dense grids: the neighbour is x+1 / x-1; sparse grids are small) *)
NextU(x) == IF x + 1 \in UNs THEN x + 1
            ELSE LET up == {y \in UNs : y > x} IN IF up = {} THEN -1 ELSE CHOOSE y \in up : \A z \in up : y <= z
PrevU(x) == IF x - 1 \in UNs THEN x - 1
            ELSE LET dn == {y \in UNs : y < x} IN IF dn = {} THEN -1 ELSE CHOOSE y \in dn : \A z \in dn : y >= z

Out(un) == IF Emit THEN PrintT(<<"T", ToJson([a |-> "Rate", p |-> p, un |-> un, ud |-> UD, adm |-> Admissible(p)])>>) ELSE TRUE

Step == /\ NextU(u) >= 0
        /\ u' = NextU(u)
        /\ p' = p
        /\ Out(NextU(u))
Next == Step
Spec == Init /\ [][Next]_vars

(* the laws on the specification's own rationals (design-level result) *)
Adm == Admissible(p)
Mono      == Adm /\ u >= 0 /\ PrevU(u) >= 0 => RateNonDecreasing(p, PrevU(u), u, UD)
Base      == Adm /\ u = 0 => BaseAtZero(p, UD)
Kink      == Adm => KinkAgrees(p)
LendLe    == Adm /\ u >= 0 => LendAtMostBorrow(p, u, UD)
Defined   == Adm /\ u >= 0 => DefinedBelowOne(p, u, UD)
(* the hole the transcription inherits from the code: Uopt = 1 and U = 1 has no value *)
HoleIsOnlyAtOne == Adm /\ u >= 0 /\ ~BorrowAPR(p, u, UD).def => p.uopt = 1000 /\ u = UD
(* the Lipschitz bound is exact on the specification: rate(u) - rate(v) = RiseBound *)
RiseExact == Adm /\ u >= 0 /\ PrevU(u) >= 0 /\ BorrowAPR(p, u, UD).def =>
               REq(BorrowAPR(p, u, UD), RAdd(BorrowAPR(p, PrevU(u), UD), RiseBound(PrevU(u), u, UD, p.uopt, p.s1, p.s2)))
=============================================================================
