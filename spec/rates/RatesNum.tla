------------------------------ MODULE RatesNum ------------------------------
(* Exact arithmetic for the C18 specifications on top of spec/common/Limbs.tla:                      *)
(*  - products of a limb number with a sequence of small factors, full limb x limb multiplication,   *)
(*  - non-negative rationals  [n |-> limbs, fs |-> <<small factors of the denominator>>]             *)
(*    compared by cross-multiplication (never divided, never rounded),                               *)
(*  - "a recorded 18-decimal value is within tol units of the last place of a rational".             *)
(* Every small factor must be < 2^15 (Limbs.LMulSmall).                                              *)
EXTENDS Integers, Sequences, Limbs

RECURSIVE LMulSeq(_, _)
LMulSeq(a, fs) == IF fs = <<>> THEN LNorm(a) ELSE LMulSeq(LMulSmall(a, Head(fs)), Tail(fs))

LShift(x, k) == IF LNorm(x) = <<>> THEN <<>> ELSE [j \in 1..k |-> 0] \o LNorm(x)
RECURSIVE LMulAt(_, _, _)
LMulAt(a, b, i) == IF i > Len(b) THEN <<>> ELSE LAdd(LShift(LMulSmall(a, b[i]), i - 1), LMulAt(a, b, i + 1))
LMul(a, b) == LMulAt(LNorm(a), LNorm(b), 1)

LOne == <<1>>
E18  == <<10000, 10000, 10000, 10000, 100>>       \* 10^18 as small factors
E6   == <<1000, 1000>>
LE18 == LMulSeq(LOne, E18)

(* rationals *)
Rat(n, fs)  == [n |-> LNorm(n), fs |-> fs]
RDen(r)     == LMulSeq(LOne, r.fs)
RLe(a, b)   == LLe(LMulSeq(a.n, b.fs), LMulSeq(b.n, a.fs))
REq(a, b)   == LEq(LMulSeq(a.n, b.fs), LMulSeq(b.n, a.fs))
RAdd(a, b)  == Rat(LAdd(LMulSeq(a.n, b.fs), LMulSeq(b.n, a.fs)), a.fs \o b.fs)
RScale(a, ks, ds) == Rat(LMulSeq(a.n, ks), a.fs \o ds)        \* a * prod(ks) / prod(ds)

(* c = recorded value * 10^18 (limbs); |c / 10^18 - r| <= tol * 10^-18  with tol a small natural *)
Near(c, r, tol) ==
  LET lhs   == LMulSeq(c, r.fs)
      rhs   == LMulSeq(r.n, E18)
      slack == LMulSmall(RDen(r), tol)
  IN LLe(lhs, LAdd(rhs, slack)) /\ LLe(rhs, LAdd(lhs, slack))
(* c2 <= c1 + r + tol*10^-18  (c1, c2 recorded values * 10^18) *)
StepAtMost(c1, c2, r, tol) ==
  LLe(LMulSeq(c2, r.fs), LAdd(LAdd(LMulSeq(c1, r.fs), LMulSeq(r.n, E18)), LMulSmall(RDen(r), tol)))
=============================================================================
