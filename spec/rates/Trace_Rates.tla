----------------------------- MODULE Trace_Rates -----------------------------
(* Validation of executions of the REAL x/lend rate functions (recorded by `vh rates --mode curve`)  *)
(* against Rates.tla. Every log node is one TLC state. A "Params" node is the admission of one       *)
(* parameter set through the governance path; the "Rate" nodes below it are the keeper's answers at   *)
(* increasing utilisation un/ud (parent = the previous, smaller utilisation of the same chain).      *)
(*   Conf_* : the recorded value is the specification's rational within the rounding budget          *)
(*   C18_*  : the property, stated on the recorded values only                                       *)
EXTENDS Rates, TLC, Json, FiniteSets
CONSTANT LogFile
Log == ndJsonDeserialize(LogFile)
NLog == Len(Log)

VARIABLE cur
Init == cur \in 1..NLog
Next == UNCHANGED cur
Spec == Init /\ [][Next]_cur

Nd(i) == Log[i]
IsRate(nd) == nd.a = "Rate"
Ok(v) == ~v.err /\ ~v.panic
P(nd) == nd.args.p
Adm(nd) == nd.st.admitted
PrevRate(nd) == nd.parent > 0 /\ IsRate(Nd(nd.parent)) /\ Nd(nd.parent).run = nd.run /\ Nd(nd.parent).args.ud = nd.args.ud
                /\ Nd(nd.parent).args.un <= nd.args.un

(* ---------------- conformance ---------------- *)
ConfAdmit(nd) == nd.a = "Params" => (nd.st.admitted <=> Admissible(nd.args.p))
ConfOne(v, r, tol) == IF r.def THEN Ok(v) /\ ~v.neg /\ Near(v.vL, r, tol) ELSE v.panic
ConfUtil(nd)   == IsRate(nd) => ConfOne(nd.st.util, Util(nd.args.un, nd.args.ud), 1)
ConfBorrow(nd) == IsRate(nd) /\ Adm(nd) => ConfOne(nd.st.borrow, BorrowAPR(P(nd), nd.args.un, nd.args.ud), TolBorrow(P(nd)))
ConfStable(nd) == IsRate(nd) /\ Adm(nd) => ConfOne(nd.st.stable, StableAPR(P(nd), nd.args.un, nd.args.ud), TolStable(P(nd)))
ConfLend(nd)   == IsRate(nd) /\ Adm(nd) => ConfOne(nd.st.lend, LendAPR(P(nd), nd.args.un, nd.args.ud), TolLend(P(nd)))

(* ---------------- C18: shape of the rate model, on the recorded values ---------------- *)
(* for admissible parameters every rate has a value at every utilisation in [0, 1] *)
C18RateDefined(nd) == IsRate(nd) /\ Adm(nd) => Ok(nd.st.borrow) /\ Ok(nd.st.stable) /\ Ok(nd.st.lend) /\ Ok(nd.st.util)
(* = base rate at zero utilisation *)
C18BaseAtZero(nd) == IsRate(nd) /\ Adm(nd) /\ nd.args.un = 0 =>
   /\ (Ok(nd.st.borrow) => ~nd.st.borrow.neg /\ LEq(nd.st.borrow.vL, LMulSeq(LOfInt(P(nd).base), <<1000, 1000, 1000, 1000, 1000>>)))
   /\ (Ok(nd.st.stable) => ~nd.st.stable.neg /\ LEq(nd.st.stable.vL, LMulSeq(LOfInt(P(nd).sbase), <<1000, 1000, 1000, 1000, 1000>>)))
(* non-decreasing in utilisation (variable and stable) *)
ValLe(a, b) == IF a.neg THEN (IF b.neg THEN LLe(b.vL, a.vL) ELSE TRUE) ELSE (~b.neg /\ LLe(a.vL, b.vL))
C18MonotoneU(nd) == IsRate(nd) /\ Adm(nd) /\ PrevRate(nd) =>
   LET pr == Nd(nd.parent) IN
   /\ (Ok(pr.st.borrow) /\ Ok(nd.st.borrow) => ValLe(pr.st.borrow, nd.st.borrow))
   /\ (Ok(pr.st.stable) /\ Ok(nd.st.stable) => ValLe(pr.st.stable, nd.st.stable))
(* continuous at the kink: for two neighbouring utilisations around the kink (U_prev < Uopt <= U_cur) the rate   *)
(* rises by no more than the two linear pieces allow over that distance (exact Lipschitz bound) plus last-place   *)
(* rounding; a jump at the kink exceeds it as soon as the grid points are close (the chains contain Uopt -+ 1/ud) *)
AroundKink(nd) == PrevRate(nd) /\ Nd(nd.parent).args.un * 1000 < P(nd).uopt * nd.args.ud /\ nd.args.un * 1000 >= P(nd).uopt * nd.args.ud
C18Continuous(nd) == IsRate(nd) /\ Adm(nd) /\ AroundKink(nd) /\ P(nd).uopt <= 1000 =>
   LET pr == Nd(nd.parent) p == P(nd) IN
   /\ (Ok(pr.st.borrow) /\ Ok(nd.st.borrow) /\ ~pr.st.borrow.neg /\ ~nd.st.borrow.neg =>
         StepAtMost(pr.st.borrow.vL, nd.st.borrow.vL, RiseBound(pr.args.un, nd.args.un, nd.args.ud, p.uopt, p.s1, p.s2), 2 * TolBorrow(p)))
   /\ (Ok(pr.st.stable) /\ Ok(nd.st.stable) /\ ~pr.st.stable.neg /\ ~nd.st.stable.neg =>
         StepAtMost(pr.st.stable.vL, nd.st.stable.vL, RiseBound(pr.args.un, nd.args.un, nd.args.ud, p.uopt, p.ss1, p.ss2), 2 * TolStable(p)))
(* the same bound on every other neighbouring pair is conformance (the slopes are the configured ones), not C18 *)
ConfRise(nd) == IsRate(nd) /\ Adm(nd) /\ PrevRate(nd) /\ ~AroundKink(nd) /\ P(nd).uopt <= 1000 =>
   LET pr == Nd(nd.parent) p == P(nd) IN
   /\ (Ok(pr.st.borrow) /\ Ok(nd.st.borrow) /\ ~pr.st.borrow.neg /\ ~nd.st.borrow.neg =>
         StepAtMost(pr.st.borrow.vL, nd.st.borrow.vL, RiseBound(pr.args.un, nd.args.un, nd.args.ud, p.uopt, p.s1, p.s2), 2 * TolBorrow(p)))
   /\ (Ok(pr.st.stable) /\ Ok(nd.st.stable) /\ ~pr.st.stable.neg /\ ~nd.st.stable.neg =>
         StepAtMost(pr.st.stable.vL, nd.st.stable.vL, RiseBound(pr.args.un, nd.args.un, nd.args.ud, p.uopt, p.ss1, p.ss2), 2 * TolStable(p)))
(* lend rate never exceeds the borrow rate *)
C18LendLeBorrow(nd) == IsRate(nd) /\ Adm(nd) /\ Ok(nd.st.lend) /\ Ok(nd.st.borrow) => ValLe(nd.st.lend, nd.st.borrow)

Formulas == <<"Conf_Admit", "Conf_Util", "Conf_Borrow", "Conf_Stable", "Conf_Lend", "Conf_Rise",
              "C18_RateDefined", "C18_BaseAtZero", "C18_MonotoneU", "C18_Continuous", "C18_LendLeBorrow">>
Holds(f, i) ==
  LET nd == Nd(i) IN
  CASE f = "Conf_Admit" -> ConfAdmit(nd)
    [] f = "Conf_Util" -> ConfUtil(nd)
    [] f = "Conf_Borrow" -> ConfBorrow(nd)
    [] f = "Conf_Stable" -> ConfStable(nd)
    [] f = "Conf_Lend" -> ConfLend(nd)
    [] f = "Conf_Rise" -> ConfRise(nd)
    [] f = "C18_RateDefined" -> C18RateDefined(nd)
    [] f = "C18_BaseAtZero" -> C18BaseAtZero(nd)
    [] f = "C18_MonotoneU" -> C18MonotoneU(nd)
    [] f = "C18_Continuous" -> C18Continuous(nd)
    [] f = "C18_LendLeBorrow" -> C18LendLeBorrow(nd)

Judge == \A k \in 1..Len(Formulas) : Holds(Formulas[k], cur) \/ PrintT(<<"FAIL", Formulas[k], cur>>)
Count(Pred(_)) == Cardinality({i \in 1..NLog : Pred(Nd(i))})
IsAdmRate(nd)  == IsRate(nd) /\ Adm(nd)
IsPair(nd)     == IsAdmRate(nd) /\ PrevRate(nd) /\ Ok(nd.st.borrow) /\ Ok(Nd(nd.parent).st.borrow)
IsKinkPair(nd) == IsPair(nd) /\ AroundKink(nd)
IsZeroU(nd)    == IsAdmRate(nd) /\ nd.args.un = 0
IsRejected(nd) == nd.a = "Params" /\ ~nd.st.admitted
IsUndefined(nd) == IsAdmRate(nd) /\ ~Ok(nd.st.borrow)
Stats == PrintT(<<"STATS", [nodes |-> NLog, rates |-> Count(IsAdmRate), pairs |-> Count(IsPair), kinkPairs |-> Count(IsKinkPair),
                           zeroU |-> Count(IsZeroU), rejectedParams |-> Count(IsRejected), undefinedRates |-> Count(IsUndefined)]>>)
AllSeen == Stats /\ TLCGet("stats").distinct = NLog
=============================================================================
