-------------------------------- MODULE Rates --------------------------------
(* The kinked utilisation model of x/lend (keeper/maths.go: GetUtilisationRatioByPoolIDAndAssetID,   *)
(* GetBorrowAPRByAssetID, GetLendAPRByAssetIDAndPoolID) in exact rational arithmetic, shaped like   *)
(* the code: one operator per keeper function, the same branch structure, the same division that     *)
(* is undefined for UOptimal = 1 at U = 1.                                                           *)
(*                                                                                                   *)
(* Parameters are naturals in permille (1/1000): p = [uopt, base, s1, s2, sbase, ss1, ss2, rf].      *)
(* Utilisation is the fraction un/ud (borrowed = un*k, idle pool balance = (ud-un)*k).               *)
(* Domain of this specification: uopt <= 1000, rf <= 1000, every parameter and ud < 2^15.            *)
EXTENDS RatesNum

(* types.AssetRatesParams.Validate, restricted to the fields of the rate model *)
Admissible(p) == /\ p.uopt > 0 /\ p.base > 0 /\ p.s1 > 0 /\ p.s2 > 0
                 /\ p.sbase >= 0 /\ p.ss1 >= 0 /\ p.ss2 >= 0 /\ p.rf > 0

Undefined == [def |-> FALSE, n |-> <<>>, fs |-> <<>>]
Def(r)    == [def |-> TRUE, n |-> r.n, fs |-> r.fs]

(* GetUtilisationRatioByPoolIDAndAssetID: borrowed / (balance + borrowed), 0 when both are 0 *)
Util(un, ud) == IF ud = 0 THEN Def(Rat(<<>>, <<>>)) ELSE Def(Rat(LOfInt(un), <<ud>>))

(* the two branches of GetBorrowAPRByAssetID, for base b and slopes s1, s2 *)
BelowKink(un, ud, uopt) == un * 1000 <= uopt * ud                     \* U <= UOptimal (first branch at the kink)
LeftBranch(un, ud, uopt, b, s1) ==                                     \* base + (U / Uopt) * slope1
  Def(Rat(LAdd(LMulSeq(LOfInt(b), <<ud, uopt>>), LMulSeq(LOfInt(un), <<1000, s1>>)), <<1000, ud, uopt>>))
RightBranch(un, ud, uopt, b, s1, s2) ==                                \* base + slope1 + ((U - Uopt) / (1 - Uopt)) * slope2
  IF uopt = 1000 THEN Undefined                                        \* 1 - UOptimal = 0: sdk.Dec.Quo panics
  ELSE Def(Rat(LAdd(LMulSeq(LOfInt(b + s1), <<ud, 1000 - uopt>>), LMulSeq(LOfInt(un * 1000 - uopt * ud), <<s2>>)),
               <<1000, ud, 1000 - uopt>>))
Kinked(un, ud, uopt, b, s1, s2) ==
  IF ud = 0 THEN (IF 0 < uopt THEN Def(Rat(LOfInt(b), <<1000>>)) ELSE RightBranch(0, 1, uopt, b, s1, s2))
  ELSE IF BelowKink(un, ud, uopt) THEN LeftBranch(un, ud, uopt, b, s1) ELSE RightBranch(un, ud, uopt, b, s1, s2)

BorrowAPR(p, un, ud) == Kinked(un, ud, p.uopt, p.base, p.s1, p.s2)
StableAPR(p, un, ud) == Kinked(un, ud, p.uopt, p.sbase, p.ss1, p.ss2)
(* GetLendAPRByAssetIDAndPoolID: borrowAPR * U * (1 - reserveFactor) *)
LendAPR(p, un, ud) ==
  LET b == BorrowAPR(p, un, ud) IN
  IF ~b.def THEN Undefined
  ELSE IF ud = 0 THEN Def(Rat(<<>>, <<>>))
  ELSE Def(RScale(b, <<un, 1000 - p.rf>>, <<ud, 1000>>))

BaseRate(p)       == Rat(LOfInt(p.base), <<1000>>)
StableBaseRate(p) == Rat(LOfInt(p.sbase), <<1000>>)

(* ---- the C18 rate-model laws on the specification's own values (checked by TLC on MC_Rates) ---- *)
RateNonDecreasing(p, ua, ub, ud) ==       \* ua <= ub
  LET a == BorrowAPR(p, ua, ud) b == BorrowAPR(p, ub, ud) sa == StableAPR(p, ua, ud) sb == StableAPR(p, ub, ud) IN
  (a.def /\ b.def => RLe(a, b)) /\ (sa.def /\ sb.def => RLe(sa, sb))
BaseAtZero(p, ud) == REq(BorrowAPR(p, 0, ud), BaseRate(p)) /\ REq(StableAPR(p, 0, ud), StableBaseRate(p))
(* continuity at the kink: both branch formulas agree at U = UOptimal = uopt/1000 *)
KinkAgrees(p) == p.uopt < 1000 =>
  /\ REq(LeftBranch(p.uopt, 1000, p.uopt, p.base, p.s1), RightBranch(p.uopt, 1000, p.uopt, p.base, p.s1, p.s2))
  /\ REq(LeftBranch(p.uopt, 1000, p.uopt, p.sbase, p.ss1), RightBranch(p.uopt, 1000, p.uopt, p.sbase, p.ss1, p.ss2))
LendAtMostBorrow(p, un, ud) == LET l == LendAPR(p, un, ud) b == BorrowAPR(p, un, ud) IN l.def /\ b.def => RLe(l, b)
DefinedBelowOne(p, un, ud)  == (p.uopt < 1000 \/ un < ud) => BorrowAPR(p, un, ud).def /\ StableAPR(p, un, ud).def /\ LendAPR(p, un, ud).def

(* ---- Lipschitz bound of the kinked curve between two utilisations ua <= ub (same ud) ---- *)
(* rate(ub) - rate(ua) = s1/uopt * (part of [ua,ub] below the kink) + s2/(1-uopt) * (part above it)  *)
Min2(a, b) == IF a <= b THEN a ELSE b
RiseBound(ua, ub, ud, uopt, s1, s2) ==
  LET xo == uopt * ud
      d1 == Min2(ub * 1000, xo) - Min2(ua * 1000, xo)
      d2 == Max2(ub * 1000, xo) - Max2(ua * 1000, xo)
  IN IF uopt = 1000 \/ d2 = 0 THEN Rat(LMulSeq(LOfInt(d1), <<s1>>), <<1000, ud, uopt>>)
     ELSE Rat(LAdd(LMulSeq(LOfInt(d1), <<s1, 1000 - uopt>>), LMulSeq(LOfInt(d2), <<s2, uopt>>)), <<1000, ud, uopt, 1000 - uopt>>)

(* ---- rounding budget of the 18-decimal implementation, in units of 10^-18 ---- *)
(* U carries <= 1/2; U/k (k = Uopt or 1-Uopt) <= 1/(2k) + 1/2; times slope s, rounded: s*(1/(2k)+1/2) + 1/2 *)
CeilDiv(a, b) == (a + b - 1) \div b
TolBranch(s, kk) == 1 + CeilDiv(s * (1000 + kk), 2 * kk * 1000)         \* s, kk in permille, kk > 0
TolKinked(uopt, s1, s2) == Max2(TolBranch(s1, uopt), IF uopt < 1000 THEN TolBranch(s2, 1000 - uopt) ELSE 0)
TolBorrow(p) == TolKinked(p.uopt, p.s1, p.s2)
TolStable(p) == TolKinked(p.uopt, p.ss1, p.ss2)
TolLend(p)   == TolBorrow(p) + CeilDiv(p.base + p.s1 + p.s2, 2000) + 2
=============================================================================
