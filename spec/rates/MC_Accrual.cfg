SPECIFICATION Spec
CONSTANTS
  Fns = {"CalculationOfRewards", "CalculateLendReward", "CalculateBorrowInterest", "CalculateBorrowInterest.rp", "CalculateStableInterest"}
  Emit = TRUE
  TrackD = 4  TrackAcc = {0, 1, 3, 4, 9}  TrackMaxDebt = 6
INVARIANTS IdealMonotone IdealZero IdealAdditive TrackerInv
CHECK_DEADLOCK FALSE
