---------------------------- MODULE Trace_Accrual ----------------------------
(* Validation of evaluations of the REAL accrual functions and of accrual steps of real positions     *)
(* (recorded by `vh rates --mode accrual`) against Accrual.tla. Every log node is one TLC state.      *)
(*   "Mono"   : f at two argument points lo <= hi that differ in one argument                         *)
(*   "SubAdd" : f over t1, then over t2 (with the index stored after t1), and over t1 + t2            *)
(*   "Open" / "Accrue" : a real vault / locker / lend / borrow position and one interest-calculation  *)
(*              message on it after dt seconds (parent = previous step of the same position)          *)
(*   Conf_* : the recorded value is the specification's ideal value within the rounding budget        *)
(*   C18_*  : the property, stated on the recorded values only                                        *)
EXTENDS Accrual, TLC, Json, FiniteSets
CONSTANT LogFile
Log == ndJsonDeserialize(LogFile)
NLog == Len(Log)

VARIABLE cur
Init == cur \in 1..NLog
Next == UNCHANGED cur
Spec == Init /\ [][Next]_cur

Nd(i) == Log[i]
IsMono(nd)  == nd.a = "Mono"
IsSplit(nd) == nd.a = "SubAdd"
IsStep(nd)  == nd.a = "Accrue"
FloatPath(fn) == fn = "CalculationOfRewards"
Pt(x) == [PL |-> x.PL, rL |-> x.rL, t |-> x.t]

(* ---------------- conformance ---------------- *)
HasFrac(x) == x.rd > 0
WholeYears(t) == t % 31557600 = 0 /\ t \div 31557600 <= 3
ConfPoint(fn, x, v) ==
  Ok(v) /\ HasFrac(x) =>
    IF FloatPath(fn) THEN (WholeYears(x.t) /\ x.rn + x.rd < 32768 => NearCompound(v, x.PL, x.rn, x.rd, x.t \div 31557600))
    ELSE NearLinear(v, x.PL, x.rn, x.rd, x.t)
ConfMono(nd)  == IsMono(nd) => ConfPoint(nd.args.fn, nd.args.lo, nd.st.lo) /\ ConfPoint(nd.args.fn, nd.args.hi, nd.st.hi)
ConfSplit(nd) == IsSplit(nd) /\ ~FloatPath(nd.args.fn) /\ HasFrac(nd.args) /\ Ok(nd.st.f12) =>
                   NearLinear(nd.st.f12, nd.args.PL, nd.args.rn, nd.args.rd, nd.args.t1 + nd.args.t2)
(* tracker: whole units booked to the position, fraction in [0, 1) carried, never negative *)
FracOk(f) == Ok(f) /\ NonNeg(f) /\ LLt(f.vL, LE18)
ConfTracker(nd) == IsStep(nd) \/ nd.a = "Open" => FracOk(nd.st.frac)

(* ---------------- C18 on function evaluations ---------------- *)
C18NonNegative(nd) ==
  /\ (IsMono(nd) => LawNonNegative(nd.st.lo) /\ LawNonNegative(nd.st.hi))
  /\ (IsSplit(nd) => LawNonNegative(nd.st.f1) /\ LawNonNegative(nd.st.f2) /\ LawNonNegative(nd.st.f12))
C18ZeroAtZeroTime(nd) ==
  /\ (IsMono(nd) => LawZeroAtZero(nd.args.lo, nd.st.lo) /\ LawZeroAtZero(nd.args.hi, nd.st.hi))
  /\ (IsSplit(nd) => (nd.args.t1 = 0 /\ Ok(nd.st.f1) => IsZero(nd.st.f1)) /\ (nd.args.t2 = 0 /\ Ok(nd.st.f2) => IsZero(nd.st.f2)))
C18Monotone(nd) == IsMono(nd) => LawMonotone(Pt(nd.args.lo), Pt(nd.args.hi), nd.st.lo, nd.st.hi)
C18SubAdditiveExact(nd) == IsSplit(nd) => LawSubAdditive(nd.args.PL, nd.st.f1, nd.st.f2, nd.st.f12)
C18SubAdditiveBound(nd) == IsSplit(nd) => LawSubAdditiveWithin(nd.args.PL, nd.st.f1, nd.st.f2, nd.st.f12)

(* ---------------- C18 on real positions ---------------- *)
(* owed = whole units booked on the position + carried fraction, * 10^18; an accrual step never lowers it, *)
(* and leaves it unchanged when no time has elapsed                                                          *)
Owed(st) == LAdd(LMulSeq(st.debtL, E18), st.frac.vL)
PrevStep(nd) == nd.parent > 0 /\ Nd(nd.parent).run = nd.run
StepOk(nd) == IsStep(nd) /\ PrevStep(nd) /\ nd.res.ok
C18KeeperNonNegative(nd) == StepOk(nd) => LLe(Owed(Nd(nd.parent).st), Owed(nd.st)) /\ LLe(Nd(nd.parent).st.debtL, nd.st.debtL)
C18KeeperZeroTime(nd)    == StepOk(nd) /\ nd.args.dt = 0 => LEq(Owed(Nd(nd.parent).st), Owed(nd.st))

(* ---- frequent triggering: the triggers of one epoch against ONE accrual over the whole epoch ---- *)
(* An epoch is a maximal sequence of consecutive triggers on one position that accrue through the same function  *)
(* on the same principal at the same rate (args.fn / P / r are read from the real state before each trigger).     *)
(* st.single is the REAL accrual function evaluated once for (P, r, elapsed time of the epoch). The statement:     *)
(* "accruing over consecutive intervals on the same principal never yields more in total than a single accrual     *)
(* over the combined interval beyond rounding in the last stored decimal place, so triggering interest            *)
(* calculation more often cannot make a position owe more" - owed = booked units + carried fraction.              *)
EpochMax == 1800000000
RECURSIVE EpT(_), EpK(_), EpBase(_), EpIv(_)
SameAccrual(nd) == /\ IsStep(nd) /\ PrevStep(nd) /\ IsStep(Nd(nd.parent))
                   /\ Nd(nd.parent).args.fn = nd.args.fn /\ Nd(nd.parent).args.P = nd.args.P /\ Nd(nd.parent).args.r = nd.args.r
(* The first trigger that sees a (function, principal, rate) settles whatever was pending before; the state AFTER it is  *)
(* the base line. T = time elapsed since the base line, k = triggers since then (one evaluation of the parent per level). *)
EpT(i) == LET nd == Nd(i) IN
          IF ~SameAccrual(nd) THEN 0
          ELSE LET tp == EpT(nd.parent) IN IF tp <= EpochMax - nd.args.dt THEN tp + nd.args.dt ELSE 0
Cont(i)    == SameAccrual(Nd(i)) /\ EpT(Nd(i).parent) <= EpochMax - Nd(i).args.dt
EpK(i)     == IF Cont(i) THEN EpK(Nd(i).parent) + 1 ELSE 0
EpBase(i)  == IF Cont(i) THEN EpBase(Nd(i).parent) ELSE i
(* largest weight ceil(1/index) among the triggers since the base line *)
LMax(a, b) == IF LLe(a, b) THEN b ELSE a
EpIv(i)    == IF Cont(i) THEN (IF EpK(i) = 1 THEN Nd(i).args.ivL ELSE LMax(EpIv(Nd(i).parent), Nd(i).args.ivL)) ELSE <<1>>
ConfEpoch(i) == IsStep(Nd(i)) /\ PrevStep(Nd(i)) =>
   /\ Nd(i).args.T = EpT(i) /\ Nd(i).args.k = EpK(i)
   /\ LLe(LE18, LMul(Nd(i).args.idxL, Nd(i).args.ivL))                 \* iv * index >= 1
EpochOk(i) == LET nd == Nd(i) IN IsStep(nd) /\ PrevStep(nd) /\ EpK(i) >= 1 /\ nd.args.T = EpT(i) /\ nd.args.k = EpK(i)
                                 /\ LLe(LE18, LMul(nd.args.idxL, nd.args.ivL)) /\ Ok(nd.st.single) /\ NonNeg(nd.st.single)
(* per trigger: one unit in the last stored place of each stored per-unit factor (4P+1, DESIGN section 5); on the index   *)
(* path the stored index is divided by, so its last place weighs ceil(1/index) in the factor that multiplies P             *)
EpSlack(i) == LMulSmall(LAdd(LMulSmall(LMul(Nd(i).args.PL, EpIv(i)), 4), <<1>>), EpK(i))
C18KeeperSubAdditiveExact(i) == EpochOk(i) =>
   LET nd == Nd(i) IN LLe(Owed(nd.st), LAdd(LAdd(Owed(Nd(EpBase(i)).st), nd.st.single.vL), EpSlack(i)))
(* the same with 10^-6 of the single accrual allowed (bounds the float-path finding; a re-charged interval is far outside) *)
C18KeeperSubAdditiveBound(i) == EpochOk(i) =>
   LET nd == Nd(i) IN LLe(LMulSeq(Owed(nd.st), E6),
                          LAdd(LAdd(LMulSeq(Owed(Nd(EpBase(i)).st), E6), LMulSeq(nd.st.single.vL, <<101, 9901>>)), LMulSeq(EpSlack(i), E6)))

(* one trigger books no more than ONE accrual of the function over the time elapsed since the previous trigger on the    *)
(* position (st.single0 = the real function at (P, r, dt)); with dt = 0 this is "zero when no time has elapsed"          *)
PrevSettled(nd) == PrevStep(nd) /\ (Nd(nd.parent).a = "Open" \/ (IsStep(Nd(nd.parent)) /\ Nd(nd.parent).res.ok))
ElapsedOk(nd) == StepOk(nd) /\ PrevSettled(nd) /\ Ok(nd.st.single0) /\ NonNeg(nd.st.single0) /\ LLe(LE18, LMul(nd.args.idxL, nd.args.ivL))
C18KeeperElapsed(nd) == ElapsedOk(nd) =>
   LLe(Owed(nd.st), LAdd(LAdd(Owed(Nd(nd.parent).st), nd.st.single0.vL), LAdd(LMulSmall(LMul(nd.args.PL, nd.args.ivL), 4), <<1>>)))

Formulas == <<"Conf_Mono", "Conf_Split", "Conf_Tracker", "C18_NonNegative", "C18_ZeroAtZeroTime", "C18_Monotone",
              "C18_SubAdditiveExact", "C18_SubAdditiveBound", "C18_KeeperNonNegative", "C18_KeeperZeroTime",
              "Conf_Epoch", "C18_KeeperSubAdditiveExact", "C18_KeeperSubAdditiveBound", "C18_KeeperElapsed">>
Holds(f, i) ==
  LET nd == Nd(i) IN
  CASE f = "Conf_Mono" -> ConfMono(nd)
    [] f = "Conf_Split" -> ConfSplit(nd)
    [] f = "Conf_Tracker" -> ConfTracker(nd)
    [] f = "C18_NonNegative" -> C18NonNegative(nd)
    [] f = "C18_ZeroAtZeroTime" -> C18ZeroAtZeroTime(nd)
    [] f = "C18_Monotone" -> C18Monotone(nd)
    [] f = "C18_SubAdditiveExact" -> C18SubAdditiveExact(nd)
    [] f = "C18_SubAdditiveBound" -> C18SubAdditiveBound(nd)
    [] f = "C18_KeeperNonNegative" -> C18KeeperNonNegative(nd)
    [] f = "C18_KeeperZeroTime" -> C18KeeperZeroTime(nd)
    [] f = "Conf_Epoch" -> ConfEpoch(i)
    [] f = "C18_KeeperElapsed" -> C18KeeperElapsed(nd)
    [] f = "C18_KeeperSubAdditiveExact" -> C18KeeperSubAdditiveExact(i)
    [] f = "C18_KeeperSubAdditiveBound" -> C18KeeperSubAdditiveBound(i)

Judge == \A k \in 1..Len(Formulas) : Holds(Formulas[k], cur) \/ PrintT(<<"FAIL", Formulas[k], cur>>)
Count(Pred(_)) == Cardinality({i \in 1..NLog : Pred(Nd(i))})
MonoChecked(nd)  == IsMono(nd) /\ OneArgUp(Pt(nd.args.lo), Pt(nd.args.hi)) /\ Ok(nd.st.lo) /\ Ok(nd.st.hi)
MonoStrict(nd)   == MonoChecked(nd) /\ ~LEq(nd.st.lo.vL, nd.st.hi.vL)
SplitChecked(nd) == IsSplit(nd) /\ AllGood(nd.st.f1, nd.st.f2, nd.st.f12)
SplitFloat(nd)   == SplitChecked(nd) /\ FloatPath(nd.args.fn)
ZeroTime(nd)     == IsMono(nd) /\ nd.args.lo.t = 0 /\ Ok(nd.st.lo)
Failed(nd)       == (IsMono(nd) /\ (~Ok(nd.st.lo) \/ ~Ok(nd.st.hi))) \/ (IsSplit(nd) /\ ~Ok(nd.st.f12))
KeeperZero(nd)   == StepOk(nd) /\ nd.args.dt = 0
KeeperGrew(nd)   == StepOk(nd) /\ ~LEq(Owed(Nd(nd.parent).st), Owed(nd.st))
(* consecutive sub-unit accruals: two triggers in a row, time elapsed, nothing booked, only the carried fraction moved *)
SubUnitStep(nd) == StepOk(nd) /\ nd.args.dt > 0 /\ LEq(Nd(nd.parent).st.debtL, nd.st.debtL) /\ ~LEq(Nd(nd.parent).st.frac.vL, nd.st.frac.vL)
SubUnitPair(nd) == SubUnitStep(nd) /\ IsStep(Nd(nd.parent)) /\ SubUnitStep(Nd(nd.parent))
SubUnitOf(kind) == Cardinality({i \in 1..NLog : SubUnitPair(Nd(i)) /\ Nd(i).args.kind = kind /\ EpochOk(i)})
EpochLong == Cardinality({i \in 1..NLog : EpochOk(i) /\ EpK(i) >= 2})
ViaCount(v) == Cardinality({i \in 1..NLog : StepOk(Nd(i)) /\ Nd(i).args.via = v})
(* a trigger at the creation time of a position (dt = 0 since it exists) whose product / pool / owner state is older *)
BornTrigger(nd, v) == StepOk(nd) /\ ElapsedOk(nd) /\ Nd(nd.parent).a = "Open" /\ nd.args.dt = 0 /\ nd.args.variant = v /\ Nd(nd.parent).args.age > 0
Born(v) == Cardinality({i \in 1..NLog : BornTrigger(Nd(i), v)})
BornVia(v, denom) == Cardinality({i \in 1..NLog : BornTrigger(Nd(i), v) /\ Nd(Nd(i).parent).args.bridged = denom})
Stats == PrintT(<<"STATS", [nodes |-> NLog, bornVault |-> Born("vault"), bornLocker |-> Born("locker"), bornLend |-> Born("lend"),
                           bornBorrowSame |-> Born("same"), bornBorrowAlt |-> Born("alt"),
                           bornBorrowTransit1 |-> BornVia("x1", "ulendb"), bornBorrowTransit2 |-> BornVia("x2", "ulendc"), epochs2 |-> EpochLong, subUnitVault |-> SubUnitOf("vault"), subUnitLocker |-> SubUnitOf("locker"),
                           subUnitLend |-> SubUnitOf("lend"), subUnitBorrow |-> SubUnitOf("borrow"),
                           elapsedChecked |-> Count(ElapsedOk), viaRateUpdate |-> ViaCount("rate-update"), viaDeposit |-> ViaCount("deposit"), mono |-> Count(MonoChecked), monoStrict |-> Count(MonoStrict), splits |-> Count(SplitChecked),
                           splitsFloat |-> Count(SplitFloat), zeroTime |-> Count(ZeroTime), fnErrors |-> Count(Failed),
                           keeperSteps |-> Count(StepOk), keeperZeroDt |-> Count(KeeperZero), keeperGrew |-> Count(KeeperGrew)]>>)
AllSeen == Stats /\ TLCGet("stats").distinct = NLog
=============================================================================
