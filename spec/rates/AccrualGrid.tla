----------------------------- MODULE AccrualGrid -----------------------------
(* The argument grid of MC_Accrual (quick tier). bin/check regenerates this module for the thorough  *)
(* tier. Principals as decimal strings (up to int64 max), rates as reduced fractions n/d with their  *)
(* decimal string, elapsed seconds from 0 to 60 years.                                               *)
PS == <<"0", "1", "7", "1000", "123456789", "1000000000000", "9000000000000000000", "9223372036854775807">>
RS == <<[s |-> "0", n |-> 0, d |-> 1], [s |-> "0.001", n |-> 1, d |-> 1000], [s |-> "0.0025", n |-> 1, d |-> 400],
        [s |-> "0.01", n |-> 1, d |-> 100], [s |-> "0.05", n |-> 1, d |-> 20], [s |-> "0.25", n |-> 1, d |-> 4],
        [s |-> "1", n |-> 1, d |-> 1], [s |-> "2", n |-> 2, d |-> 1], [s |-> "10", n |-> 10, d |-> 1]>>
TS == <<0, 1, 2, 6, 60, 3600, 86400, 2629800, 31557600, 63115200, 315576000, 946728000, 1893456000>>
TMax == 1893456000
=============================================================================
