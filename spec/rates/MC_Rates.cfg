SPECIFICATION Spec
CONSTANTS
  UOpts = {500, 800, 1000}  Bases = {0, 2, 20}  S1s = {60, 100}  S2s = {600, 2000}
  SBases = {0, 40}  SS1s = {40}  SS2s = {60}  RFs = {100, 1000}
  UD = 1000
  UNs = {0, 1, 100, 250, 400, 499, 500, 501, 650, 799, 800, 801, 900, 999, 1000}
  Emit = TRUE
INVARIANTS Mono Base Kink LendLe Defined HoleIsOnlyAtOne RiseExact
CHECK_DEADLOCK FALSE
