------------------------------ MODULE MC_Sweep ------------------------------
(* Bounded model of sweeps interleaved with an adversary who creates and closes OTHER positions.            *)
(* C09 liveness as a bounded-response invariant: an unsafe position is seized within 2*ceil(maxLen/B) blocks *)
(* Every behaviour (with -simulate / on counterexample) is replayed on real vaults by `vh harbor --sweep`.   *)
EXTENDS Sweep, TLC, Json
CONSTANTS B, N0, MaxCreate, MaxClose, Risky0, Emit, Depth

VARIABLES list, offset, next, dropped, risky, age, maxLen, nCreate, nClose, hist
vars == <<list, offset, next, dropped, risky, age, maxLen, nCreate, nClose, hist>>

Unsafe == IF dropped THEN risky \cap {list[k] : k \in 1..Len(list)} ELSE {}

Init == /\ list = [k \in 1..N0 |-> k] /\ offset = 0 /\ next = N0 + 1 /\ dropped = FALSE
        /\ risky = Risky0 /\ age = [i \in {} |-> 0] /\ maxLen = N0 /\ nCreate = 0 /\ nClose = 0 /\ hist = <<>>

Drop == /\ ~dropped /\ dropped' = TRUE
        /\ age' = [i \in (risky \cap {list[k] : k \in 1..Len(list)}) |-> 0]
        /\ hist' = Append(hist, [a |-> "Drop", id |-> 0])
        /\ UNCHANGED <<list, offset, next, risky, maxLen, nCreate, nClose>>

Block == LET r == SweepStep(list, offset, B, Unsafe) IN
         /\ list' = r.list /\ offset' = r.offset
         /\ age' = [i \in (DOMAIN age) \ r.seized |-> age[i] + 1]
         /\ hist' = Append(hist, [a |-> "Block", id |-> 0])
         /\ UNCHANGED <<next, dropped, risky, maxLen, nCreate, nClose>>

Create == /\ nCreate < MaxCreate /\ nCreate' = nCreate + 1
          /\ list' = Append(list, next) /\ next' = next + 1
          /\ maxLen' = IF Len(list) + 1 > maxLen THEN Len(list) + 1 ELSE maxLen
          /\ hist' = Append(hist, [a |-> "Create", id |-> next])
          /\ UNCHANGED <<offset, dropped, risky, age, nClose>>

(* the adversary closes a position that is not unsafe (an unsafe vault's owner cannot simply walk away: close repays the debt, which is fine too, but then it is no longer "unseized") *)
Close(i) == /\ nClose < MaxClose /\ nClose' = nClose + 1
            /\ i \in {list[k] : k \in 1..Len(list)} /\ i \notin risky
            /\ list' = SelectSeq(list, LAMBDA x : x # i)
            /\ hist' = Append(hist, [a |-> "Close", id |-> i])
            /\ UNCHANGED <<offset, next, dropped, risky, age, maxLen, nCreate>>

Next == Drop \/ Block \/ Create \/ \E i \in 1..(N0 + MaxCreate) : Close(i)
Spec == Init /\ [][Next]_vars

Bound == 2 * CeilDiv(maxLen, B)
Doc(kind) == ToJson([kind |-> kind, hist |-> hist, b |-> B, n0 |-> N0, risky |-> Risky0])
Live == \A i \in DOMAIN age : age[i] <= Bound
(* state constraint: stop a behaviour a little after the bound *)
Short == \A i \in DOMAIN age : age[i] <= Bound + 1
(* emission of behaviours for replay on the real code: violating ones ("adv"), and - in simulation mode - whole random ones ("sim") *)
LiveOrEmit == Live \/ PrintT(<<"T", Doc("adv")>>)
EmitAtDepth == Len(hist) < Depth \/ PrintT(<<"T", Doc("sim")>>)
DepthBound == Len(hist) <= Depth
View == <<list, offset, dropped, risky, age, maxLen, nCreate, nClose>>
=============================================================================
