------------------------------- MODULE Sweep -------------------------------
(* The per-block liquidation sweep of x/liquidationsV2 (LiquidateVaults; the V1 sweep and the borrow sweep  *)
(* share the arithmetic), isolated from prices: a position is "risky" (becomes unsafe when the price drops) *)
(* or not. Implementation-shaped: the slice bounds come from the vault COUNTER and the stored OFFSET, the    *)
(* list is read once per block, every item of the slice is one atomic unit, the offset is set to the slice   *)
(* end computed BEFORE the seizures of this block shrink the list.                                           *)
EXTENDS Integers, Sequences, FiniteSets

Slice(len, off, b) == IF off >= len \/ off < 0 \/ b < 0 THEN <<len, len>>
                      ELSE IF off + b >= len THEN <<off, len>> ELSE <<off, off + b>>

(* one sweep over `list` (sequence of ids), unsafe set U: [list', offset', seized] *)
SweepStep(list, offset, B, U) ==
  LET n  == Len(list)
      s0 == Slice(n, offset, B)
      s  == IF s0[1] = s0[2] THEN Slice(n, 0, B) ELSE s0
      window == {list[k] : k \in (s[1] + 1)..s[2]}
      seized == window \cap U
  IN [list |-> SelectSeq(list, LAMBDA x : x \notin seized), offset |-> s[2], seized |-> seized, start |-> s[1], end |-> s[2]]

CeilDiv(a, b) == (a + b - 1) \div b
=============================================================================
