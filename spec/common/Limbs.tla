------------------------------- MODULE Limbs -------------------------------
(* Naturals beyond TLC's 32-bit integers, as little-endian sequences of base-2^15 limbs.            *)
(* Only what the monitors need: normalise, add, compare, multiply by / divide by a small natural.    *)
(* All intermediate values stay below 2^31 as long as the small operands are < 2^15.                 *)
EXTENDS Integers, Sequences
B == 32768

RECURSIVE LNorm(_)
LNorm(s) == IF Len(s) > 0 /\ s[Len(s)] = 0 THEN LNorm(SubSeq(s, 1, Len(s) - 1)) ELSE s

LAt(s, i) == IF i <= Len(s) THEN s[i] ELSE 0
Max2(a, b) == IF a >= b THEN a ELSE b

RECURSIVE LAddC(_, _, _, _)
LAddC(a, b, i, c) ==
  IF i > Max2(Len(a), Len(b)) THEN (IF c = 0 THEN <<>> ELSE <<c>>)
  ELSE LET t == LAt(a, i) + LAt(b, i) + c IN <<t % B>> \o LAddC(a, b, i + 1, t \div B)
LAdd(a, b) == LNorm(LAddC(a, b, 1, 0))

RECURSIVE LSumSeq(_)
LSumSeq(xs) == IF xs = <<>> THEN <<>> ELSE LAdd(Head(xs), LSumSeq(Tail(xs)))

(* compare from the top limb: -1, 0, 1 *)
RECURSIVE LCmpAt(_, _, _)
LCmpAt(a, b, i) == IF i = 0 THEN 0
                   ELSE IF LAt(a, i) < LAt(b, i) THEN -1
                   ELSE IF LAt(a, i) > LAt(b, i) THEN 1 ELSE LCmpAt(a, b, i - 1)
LCmp(a, b) == LCmpAt(a, b, Max2(Len(a), Len(b)))
LLe(a, b) == LCmp(a, b) <= 0
LLt(a, b) == LCmp(a, b) < 0
LEq(a, b) == LNorm(a) = LNorm(b)

(* multiply by a small natural k < 2^15 *)
RECURSIVE LMulC(_, _, _, _)
LMulC(a, k, i, c) == IF i > Len(a) THEN (IF c = 0 THEN <<>> ELSE <<c % B>> \o (IF c \div B = 0 THEN <<>> ELSE <<c \div B>>))
                     ELSE LET t == a[i] * k + c IN <<t % B>> \o LMulC(a, k, i + 1, t \div B)
LMulSmall(a, k) == LNorm(LMulC(a, k, 1, 0))

(* floor division by a small natural k, 0 < k < 2^15: quotient limbs, processed from the top *)
RECURSIVE LDivAt(_, _, _, _)
LDivAt(a, k, i, r) == IF i = 0 THEN <<>>
                      ELSE LET t == r * B + a[i] IN LDivAt(a, k, i - 1, t % k) \o <<t \div k>>
LDivSmall(a, k) == LNorm(LDivAt(a, k, Len(a), 0))

RECURSIVE LOfInt(_)
LOfInt(n) == IF n = 0 THEN <<>> ELSE <<n % B>> \o LOfInt(n \div B)
LIsSmall(a) == Len(LNorm(a)) <= 2 /\ (Len(LNorm(a)) < 2 \/ LNorm(a)[2] < 16384)  \* < 2^29
LToInt(a) == LET n == LNorm(a) IN LAt(n, 1) + B * LAt(n, 2)
=============================================================================
