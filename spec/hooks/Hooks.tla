------------------------------- MODULE Hooks -------------------------------
(* Begin-/end-block processing as a sequence of units of work (C15), implementation-shaped.          *)
(*                                                                                                   *)
(* types/utils.go ApplyFuncIfNoError(ctx, f):  cacheCtx, write := ctx.CacheContext();                *)
(*     err = f(cacheCtx) under defer/recover;  err = nil -> write()  else nothing; the callers in    *)
(*     the block hooks ignore the returned error and go on with the next unit.                       *)
(*                                                                                                   *)
(* A store is a function Key -> Int (plain values and coin balances alike). A body is a sequence of  *)
(* items; an item is a primitive effect (ONE store access = one crash point) or a nested unit:       *)
(*     [t |-> "set", k, v]            write                                                          *)
(*     [t |-> "mv", from, to, amt]    coin movement; reports failure when the balance is too small   *)
(*     [t |-> "fail"]                 the body reports failure (returns an error) here               *)
(*     [t |-> "panic"]                the body panics here                                           *)
(*     [t |-> "unit", id, wrapped, body]   nested unit; wrapped = run through ApplyFuncIfNoError     *)
(* A unit that is NOT wrapped (the deliberately wrong variant, and the shape of the V2 borrow sweep  *)
(* before the repair) writes straight into the enclosing store and its failure ends the enclosing    *)
(* body.                                                                                             *)
(*                                                                                                   *)
(* Fault plan [u, k]: the context of unit u carries a meter that panics at its k-th store access;    *)
(* nested units inherit the meter through the context (single shot). [u |-> 0] = no fault.           *)
EXTENDS Integers, Sequences, FiniteSets

Set(k, v)      == [t |-> "set", k |-> k, v |-> v]
Mv(f, to, n)   == [t |-> "mv", from |-> f, to |-> to, amt |-> n]
Fail           == [t |-> "fail"]
Panic          == [t |-> "panic"]
Unit(id, body) == [t |-> "unit", id |-> id, wrapped |-> TRUE, body |-> body]
Bare(id, body) == [t |-> "unit", id |-> id, wrapped |-> FALSE, body |-> body]

NoPlan  == [u |-> 0, k |-> 0]
NoMeter == [on |-> FALSE, n |-> 0, at |-> 0, fired |-> FALSE]
Meter(k) == [on |-> TRUE, n |-> 0, at |-> k, fired |-> FALSE]
Tick(m)  == IF m.on THEN [m EXCEPT !.n = m.n + 1, !.fired = m.fired \/ (m.n + 1 = m.at)] ELSE m
Fires(m) == m.on /\ ~m.fired /\ m.n + 1 = m.at

(* run state: store, status of the body so far, meter of the current context, ghosts *)
Start(st0) == [st |-> st0, status |-> "ok", m |-> NoMeter, entered |-> {}, aborted |-> {}]

RECURSIVE Run(_, _, _)
Run(items, r, plan) ==
  IF items = <<>> \/ r.status # "ok" THEN r
  ELSE
    LET it == Head(items)
        rest == Tail(items)
        Boom == [r EXCEPT !.status = "panic", !.m = Tick(r.m)]
    IN
    CASE it.t = "set" ->
           IF Fires(r.m) THEN Boom
           ELSE Run(rest, [r EXCEPT !.st = [r.st EXCEPT ![it.k] = it.v], !.m = Tick(r.m)], plan)
      [] it.t = "mv" ->
           IF Fires(r.m) THEN Boom
           ELSE IF r.st[it.from] < it.amt THEN [r EXCEPT !.status = "err", !.m = Tick(r.m)]
           ELSE Run(rest, [r EXCEPT !.st = [r.st EXCEPT ![it.from] = @ - it.amt, ![it.to] = @ + it.amt],
                                    !.m = Tick(r.m)], plan)
      [] it.t = "fail"  -> [r EXCEPT !.status = "err"]
      [] it.t = "panic" -> [r EXCEPT !.status = "panic"]
      [] it.t = "unit"  ->
           LET target == plan.u = it.id /\ it.wrapped
               mIn    == IF target THEN Meter(plan.k) ELSE r.m
               inner  == Run(it.body, [r EXCEPT !.m = mIn, !.entered = @ \cup {it.id}], plan)
               mOut   == IF target THEN r.m ELSE inner.m
           IN IF inner.status = "ok"
              THEN Run(rest, [inner EXCEPT !.m = mOut], plan)            \* wrapped: write-back; bare: already written
              ELSE IF it.wrapped
                   THEN \* recover + discard the cache context, caller goes on
                        Run(rest, [r EXCEPT !.m = mOut, !.entered = inner.entered,
                                            !.aborted = inner.aborted \cup {it.id}], plan)
                   ELSE \* partial writes stay, the failure ends the enclosing body
                        [inner EXCEPT !.m = mOut, !.aborted = @ \cup {it.id}]

RunHook(hook, st0, plan) == Run(hook, Start(st0), plan)

(* ---- structure helpers ---------------------------------------------------------------------- *)
RECURSIVE Size(_)
Size(items) == IF items = <<>> THEN 0
               ELSE LET it == Head(items) IN
                    (IF it.t = "unit" THEN Size(it.body) ELSE IF it.t \in {"set", "mv"} THEN 1 ELSE 0) + Size(Tail(items))

RECURSIVE Units(_)
Units(items) == IF items = <<>> THEN {}
                ELSE LET it == Head(items) IN
                     (IF it.t = "unit" THEN {[id |-> it.id, size |-> Size(it.body), wrapped |-> it.wrapped]} \cup Units(it.body) ELSE {})
                     \cup Units(Tail(items))

(* every crash point of a hook: each wrapped unit, each access under its context (nested units included) *)
Plans(hook) == UNION {{[u |-> x.id, k |-> k] : k \in 1..x.size} : x \in {y \in Units(hook) : y.wrapped}}

RECURSIVE Prune(_, _)
Prune(items, A) ==
  IF items = <<>> THEN <<>>
  ELSE LET it == Head(items) IN
       IF it.t = "unit"
       THEN IF it.id \in A THEN Prune(Tail(items), A)
            ELSE <<[it EXCEPT !.body = Prune(it.body, A)]>> \o Prune(Tail(items), A)
       ELSE <<it>> \o Prune(Tail(items), A)

(* ---- C15, stated independently of the mechanics ----------------------------------------------- *)
(* reference: the same hook in which the units that failed never existed *)
Ideal(hook, st0, res) == RunHook(Prune(hook, res.aborted), st0, NoPlan)

NoHalt(res)              == res.status # "panic"
Atomic(hook, st0, res)   == res.st = Ideal(hook, st0, res).st                       \* nothing of a failed unit is visible
Continues(hook, st0, res) == Ideal(hook, st0, res).entered \subseteq res.entered     \* the remaining units are still processed

(* ---- the victim of an injected fault: innermost unit whose context is active at access k of u ---- *)
(* shape = sequence of unit descriptors of a real hook run, pre-order: [i, parent, n, start]         *)
(* (start = accesses of the parent's context already consumed when the unit was entered)             *)
RECURSIVE VictimIn(_, _, _)
VictimIn(shape, u, k) ==
  LET kids == {c \in 1..Len(shape) : shape[c].parent = u /\ shape[c].start < k /\ k <= shape[c].start + shape[c].n}
  IN IF kids = {} THEN u
     ELSE LET c == CHOOSE c \in kids : TRUE IN VictimIn(shape, c, k - shape[c].start)

WellFormed(shape) ==
  \A i \in 1..Len(shape) :
     /\ shape[i].i = i
     /\ shape[i].parent < i /\ shape[i].parent >= 0
     /\ shape[i].n >= 0 /\ shape[i].start >= 0
     /\ shape[i].parent > 0 => shape[i].start + shape[i].n <= shape[shape[i].parent].n
=============================================================================
