SPECIFICATION Spec
CONSTANTS MaxUnits = 2  BodyLen = 2  Bal = {0, 5}  Wrapped = FALSE  Nested = FALSE  Emit = FALSE
INVARIANTS InvAtomic
CHECK_DEADLOCK FALSE
