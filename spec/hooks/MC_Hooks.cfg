SPECIFICATION Spec
CONSTANTS MaxUnits = 2  BodyLen = 2  Bal = {0, 5}  Wrapped = TRUE  Nested = TRUE  Emit = FALSE
INVARIANTS InvNoHalt InvAtomic InvContinues InvGoesOn
CHECK_DEADLOCK FALSE
