------------------------------ MODULE MC_Hooks ------------------------------
(* Bounded exhaustive model of hook runs: every hook of a small hook space (flat hooks of up to      *)
(* MaxUnits units with bodies of up to BodyLen primitive effects, plus hand-written nested hooks),   *)
(* every initial balance in Bal, every crash point (u, k) and the fault-free run. One TLC step =     *)
(* one top-level item of the hook. With Emit, the last step of every behaviour prints the whole run  *)
(* as a JSON line; each line is executed on the real ApplyFuncIfNoError / cache contexts / bank      *)
(* keeper (vh hooks --vectors) and judged by Trace_Hooks.                                            *)
(* Wrapped = FALSE builds the deliberately wrong variant (units not run through the wrapper): the    *)
(* check runs it as a sanity step and requires TLC to report the invariants violated.                *)
EXTENDS Hooks, TLC, Json
CONSTANTS MaxUnits, BodyLen, Bal, Wrapped, Nested, Emit

EffSet == {Set("a", 1), Set("a", 2), Set("b", 1), Mv("x", "y", 3), Fail, Panic}
Bodies == UNION {[1..n -> EffSet] : n \in 0..BodyLen}
Mk(bs) == [i \in 1..Len(bs) |-> IF Wrapped THEN Unit(i, bs[i]) ELSE Bare(i, bs[i])]
Flat   == {Mk(bs) : bs \in UNION {[1..n -> Bodies] : n \in 1..MaxUnits}}

U(id, body) == IF Wrapped THEN Unit(id, body) ELSE Bare(id, body)
NestedHooks == {
  <<U(1, <<Set("a", 1), U(2, <<Set("b", 1), Set("b", 2)>>), Set("a", 2)>>), U(3, <<Mv("x", "y", 3)>>)>>,
  <<U(1, <<U(2, <<Set("a", 1), Fail>>), U(3, <<Set("b", 1)>>), Mv("x", "y", 3)>>), U(4, <<Set("a", 2)>>)>>,
  <<U(1, <<Set("a", 1), U(2, <<Mv("x", "y", 3), Panic>>), Fail>>), U(3, <<U(4, <<Set("b", 1)>>)>>)>>,
  <<U(1, <<U(2, <<Mv("x", "y", 3)>>), U(3, <<Mv("x", "y", 3)>>), U(4, <<Mv("x", "y", 3), Set("a", 2)>>)>>), U(5, <<Set("b", 1)>>)>>,
  <<Set("b", 2), U(1, <<Set("a", 1), Mv("x", "y", 3)>>), Set("b", 1), U(2, <<Panic>>), Set("a", 2)>>,
  <<U(1, <<Set("a", 1), U(2, <<Set("a", 2), U(3, <<Set("b", 1), Mv("x", "y", 3)>>), Fail>>), Set("b", 2)>>), U(4, <<Set("a", 2)>>)>> }

AllHooks == Flat \cup (IF Nested THEN NestedHooks ELSE {})

VARIABLES hook, st0, plan, pc, r
vars == <<hook, st0, plan, pc, r>>

Init == /\ hook \in AllHooks
        /\ st0 \in {[a |-> 0, b |-> 0, x |-> bx, y |-> 0] : bx \in Bal}
        /\ plan \in Plans(hook) \cup {NoPlan}
        /\ pc = 1
        /\ r = Start(st0)

Finished(p, res) == p > Len(hook) \/ res.status # "ok"

Out(res) == IF Emit
            THEN PrintT(<<"T", ToJson([hook |-> hook, pre |-> st0, plan |-> plan, post |-> res.st, status |-> res.status,
                                       aborted |-> res.aborted, entered |-> res.entered])>>)
            ELSE TRUE

Step == /\ ~Finished(pc, r)
        /\ r' = Run(<<hook[pc]>>, r, plan)
        /\ pc' = pc + 1
        /\ UNCHANGED <<hook, st0, plan>>
        /\ (Finished(pc + 1, r') => Out(r'))

Next == Step
Spec == Init /\ [][Next]_vars

(* C15 on the model: after every prefix of the hook *)
(* what should have been processed so far: the items taken up to now - or, when the hook body has ended early, the whole hook *)
Prefix == IF r.status # "ok" THEN hook ELSE SubSeq(hook, 1, pc - 1)
InvNoHalt    == NoHalt(r)
InvAtomic    == Atomic(Prefix, st0, r)
InvContinues == Continues(Prefix, st0, r)
(* a failure inside a wrapped unit never ends the hook body *)
InvGoesOn    == Wrapped => r.status = "ok"
=============================================================================
