SPECIFICATION Spec
CONSTANTS MApp = 1  MUsers = {"u1", "u2"}  Scope = "orders"  MaxOid = 2  MMMax = 4  MaxReq = 1  MaxH = 3  Swapped = FALSE  Emit = TRUE
CONSTANTS Accts <- MCAccts  Denoms <- MCDenoms
INVARIANTS InvC04 InvC07 InvCancellable
CHECK_DEADLOCK FALSE
