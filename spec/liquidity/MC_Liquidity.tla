---------------------------- MODULE MC_Liquidity ----------------------------
(* Bounded model over the operators of Liquidity.tla: one app (MApp) / pair 1, users MUsers, a finite        *)
(* alphabet of message instances (Scope "orders": limit / market / MM orders, cancels; Scope "pools": pool,  *)
(* deposit, withdraw, farm) plus EndBlock / BeginBlock.  The environment choices are resolved by small      *)
(* nondeterministic families: the end-of-batch matching fills nothing or crosses one buy with one sell       *)
(* order (full or half quantity, conserving, dust = rounding difference) - an over-simplification of the    *)
(* amm, sufficient to reach partially filled / completed / expired / cancelled orders in every order.       *)
(* TLC checks the C04 / C07 formulas on every reachable state / step of the model (design-level result)     *)
(* and prints the alphabet; the harness explores the same alphabet exhaustively (bounded) on the real code. *)
EXTENDS Liquidity, TLC, Json
CONSTANTS MApp, MUsers, Scope, MaxOid, MMMax, MaxReq, MaxH, Swapped, Emit

VARIABLES st, ph          \* ph = "tx": messages or EndBlock may follow; ph = "end": only BeginBlock (a block ends once)
vars == <<st, ph>>

ParT == << [fn |-> 3, fd |-> 1000, prec |-> 3, maxTicks |-> 3, pairFee |-> 50, poolFee |-> 70, minDep |-> 1000, maxLife |-> 86400, batch |-> 1, maxPools |-> 2],
           [fn |-> 1, fd |-> 10, prec |-> 3, maxTicks |-> 4, pairFee |-> 30, poolFee |-> 40, minDep |-> 500, maxLife |-> 3600, batch |-> 2, maxPools |-> 3] >>
St0 == [h |-> 2, t |-> 6,
        bal |-> [a \in Accts |-> [d \in Denoms |-> IF a \in MUsers /\ d \in Assets THEN 100000 ELSE 0]],
        pairs |-> {[app |-> MApp, id |-> 1, base |-> "uaa", quote |-> "ubb", batch |-> 1, lastOid |-> 0, lp |-> 0]}
                  \cup (IF Scope = "pairs" THEN {[app |-> MApp, id |-> 2, base |-> "ubb", quote |-> "ucc", batch |-> 1, lastOid |-> 0, lp |-> 0]} ELSE {}),
        pools |-> {}, reqs |-> {}, orders |-> {}, qf |-> {}, af |-> {}, mmx |-> {},
        lastPair |-> [i \in 1..2 |-> IF i = MApp THEN (IF Scope = "pairs" THEN 2 ELSE 1) ELSE 0], lastPool |-> <<0, 0>>, par |-> ParT]

(* the model's account / denom universe (overrides Accts / Denoms of Liquidity.tla in the cfg: smaller states) *)
MCAccts  == MUsers \cup {Gesc, Mod, DustT[MApp], FcT[MApp], EscT[MApp][1], FeeT[MApp][1], ResT[MApp][1]}
            \cup (IF Scope = "pairs" THEN {EscT[MApp][2], FeeT[MApp][2]} ELSE {})
MCDenoms == {"uaa", "ubb", FeeDenom, PcdT[MApp][1]} \cup (IF Scope = "pairs" THEN {"ucc"} ELSE {})

A(an, args) == [a |-> an, args |-> args]
OrderActs ==
  {A("LimitOrder", [u |-> u, app |-> MApp, pair |-> 1, dir |-> d, price |-> p, amt |-> 150, offer |-> 200, life |-> l]) :
      u \in MUsers, d \in {"B", "S"}, p \in {9900, 10100}, l \in {0, 3600}}
  \cup {A("MarketOrder", [u |-> u, app |-> MApp, pair |-> 1, dir |-> d, amt |-> 150, offer |-> 250, life |-> 3600]) : u \in MUsers, d \in {"B", "S"}}
  \* coins that do not belong to the pair (a third coin as offer coin, the right demand coin): never enabled in the model,
  \* explored on the real code with the rest of the alphabet
  \cup {A("LimitOrder", [u |-> "u2", app |-> MApp, pair |-> 1, dir |-> d, price |-> 10100, amt |-> 150, offer |-> 200, life |-> 3600,
                          od |-> FeeDenom, dd |-> IF d = "B" THEN "uaa" ELSE "ubb"]) : d \in {"B", "S"}}
  \cup {A("MMOrder", [u |-> u, app |-> MApp, pair |-> 1, sellAmt |-> 300, minSell |-> 10000, maxSell |-> 10200,
                      buyAmt |-> 300, minBuy |-> 9800, maxBuy |-> 10000, life |-> 3600]) : u \in MUsers}
  \cup {A("CancelOrder", [u |-> u, app |-> MApp, pair |-> 1, id |-> i]) : u \in MUsers, i \in 1..MaxOid}
  \cup {A("CancelAll", [u |-> u, app |-> MApp, pairs |-> <<>>]) : u \in MUsers}
  \cup {A("CancelMM", [u |-> u, app |-> MApp, pair |-> 1]) : u \in MUsers}
PoolActs ==
  {A("CreatePool", [u |-> u, app |-> MApp, pair |-> 1, x |-> 2000, y |-> 2000]) : u \in MUsers}
  \cup {A("Deposit", [u |-> u, app |-> MApp, pool |-> 1, x |-> 1000, y |-> 1000]) : u \in MUsers}
  \cup {A("Withdraw", [u |-> u, app |-> MApp, pool |-> 1, pc |-> c]) : u \in MUsers, c \in {500, 10000}}
  \cup {A("Farm", [u |-> u, app |-> MApp, pool |-> 1, amt |-> 400]) : u \in MUsers}
  \cup {A("Unfarm", [u |-> u, app |-> MApp, pool |-> 1, amt |-> 300]) : u \in MUsers}
  \cup {A("DepositAndFarm", [u |-> u, app |-> MApp, pool |-> 1, x |-> 1000, y |-> 1000]) : u \in MUsers}
  \cup {A("UnfarmAndWithdraw", [u |-> u, app |-> MApp, pool |-> 1, amt |-> 400]) : u \in MUsers}
(* Scope "pairs": two pairs of one app, orders of mixed batch ages, cancel / cancel-all over named and all pairs *)
PairActs ==
  {A("LimitOrder", [u |-> u, app |-> MApp, pair |-> p, dir |-> d, price |-> IF p = 1 THEN 10100 ELSE 20200, amt |-> 150,
                    offer |-> IF d = "B" THEN 400 ELSE 200, life |-> 3600]) : u \in MUsers, p \in {1, 2}, d \in {"S", "B"}}
  \cup {A("CancelAll", [u |-> u, app |-> MApp, pairs |-> ps]) : u \in MUsers, ps \in {<<>>, <<1>>, <<2>>, <<2, 1>>}}
  \cup {A("CancelOrder", [u |-> u, app |-> MApp, pair |-> p, id |-> 1]) : u \in MUsers, p \in {1, 2}}
BlockActs == {A("EndBlock", [dt |-> 0])} \cup {A("BeginBlock", [dt |-> d]) : d \in (IF Scope = "pools" THEN {6, 90000} ELSE {6, 4000})}
Alphabet == (IF Scope = "pools" THEN PoolActs ELSE IF Scope = "pairs" THEN PairActs ELSE OrderActs) \cup BlockActs

ASSUME Emit => PrintT(<<"T", ToJson([app |-> MApp, scope |-> Scope, acts |-> Alphabet])>>)

(* ---- the model's environment ---- *)
MTicks(a) ==
  (IF a.buyAmt = 0 THEN <<>> ELSE IF a.minBuy = a.maxBuy THEN <<[dir |-> "B", price |-> a.minBuy, amt |-> a.buyAmt]>>
   ELSE <<[dir |-> "B", price |-> a.minBuy, amt |-> a.buyAmt \div 2], [dir |-> "B", price |-> a.maxBuy, amt |-> a.buyAmt - a.buyAmt \div 2]>>)
  \o (IF a.sellAmt = 0 THEN <<>> ELSE IF a.minSell = a.maxSell THEN <<[dir |-> "S", price |-> a.minSell, amt |-> a.sellAmt]>>
      ELSE <<[dir |-> "S", price |-> a.maxSell, amt |-> a.sellAmt \div 2], [dir |-> "S", price |-> a.minSell, amt |-> a.sellAmt - a.sellAmt \div 2]>>)
MOutcome(s, r) ==
  LET pl == PoolOf(s, r.app, r.pool) pr == PairOfPool(s, pl) res == ResT[r.app][r.pool]
      none == [status |-> "F", ax |-> 0, ay |-> 0, mint |-> 0, wx |-> 0, wy |-> 0, dis |-> pl.disabled] IN
  IF pl.disabled \/ pl.ps = 0 THEN none
  ELSE IF r.kind = "D" THEN (IF r.x = 0 THEN none ELSE [none EXCEPT !.status = "S", !.ax = r.x, !.ay = r.y, !.mint = r.x])
  ELSE LET wx == (s.bal[res][pr.quote] * r.pc) \div pl.ps wy == (s.bal[res][pr.base] * r.pc) \div pl.ps IN
       IF wx + wy = 0 \/ r.pc > pl.ps THEN none ELSE [none EXCEPT !.status = "S", !.wx = wx, !.wy = wy, !.dis = (r.pc = pl.ps)]
PendReq(s, a, kind) == [kind |-> kind, app |-> a.app, pool |-> a.pool, id |-> 0, owner |-> a.u,
                        x |-> IF kind = "D" THEN a.x ELSE 0, y |-> IF kind = "D" THEN a.y ELSE 0, pc |-> IF kind = "W" THEN a.amt ELSE 0]

Crossings(s, app) ==
  {<<b, sl, q>> \in {o \in s.orders : o.app = app /\ o.dir = "B" /\ InBook(s, o)} \X {o \in s.orders : o.app = app /\ o.dir = "S" /\ InBook(s, o)} \X (1..2) : TRUE}
MEnv(s, app, c) ==                                            \* c = <<>> (no match) or <<buy, sell, k>> with quantity min(open)/k
  LET O == {o \in s.orders : o.app = app}
      R == {r \in s.reqs : r.app = app /\ r.status = "N"}
      PL == {p \in s.pools : p.app = app}
      P == {p \in s.pairs : p.app = app}
      hit == c # <<>>
      q  == IF hit THEN Min2(c[1].open, c[2].open) \div c[3] ELSE 0
      px == IF hit THEN c[2].price ELSE 0
      paid == BuyOffer(px, q)
      rs == (px * q) \div PS
      out == [k \in {RKey(r) : r \in R} |-> MOutcome(s, CHOOSE r \in R : RKey(r) = k)]
      dps(pl) == SumF([r \in R |-> IF r.pool = pl.id THEN SupplyDelta(r, out[RKey(r)]) ELSE 0], R)
  IN [fill |-> [k \in {OKey(o) : o \in O} |->
                  IF hit /\ k = OKey(c[1]) THEN [paid |-> paid, recv |-> q, m |-> q]
                  ELSE IF hit /\ k = OKey(c[2]) THEN [paid |-> q, recv |-> rs, m |-> q] ELSE NoFill],
      lp |-> [k \in {p.id : p \in P} |-> IF hit /\ k = c[1].pair THEN px ELSE PairOf(s, app, k).lp],
      dust |-> [k \in {p.id : p \in P} |-> IF hit /\ k = c[1].pair THEN paid - rs ELSE 0],
      pnet |-> [k \in {p.id : p \in PL} |-> [q |-> 0, b |-> 0]],
      dis |-> [k \in {p.id : p \in PL} |-> LET pl == PoolOf(s, app, k) IN pl.disabled \/ (pl.ps > 0 /\ pl.ps + dps(pl) = 0)],
      out |-> out]
GoodCross(c) == c[1].pair = c[2].pair /\ c[1].price >= c[2].price
                /\ LET q == Min2(c[1].open, c[2].open) \div c[3] IN q > 0 /\ BuyOffer(c[2].price, q) <= c[1].rem /\ (c[2].price * q) \div PS > 0
MChoices(s, app) == {<<>>} \cup {c \in Crossings(s, app) : GoodCross(c)}

Step(s, act, c) ==                                            \* c: matching choice, used by EndBlock only
  LET a == act.args IN
  CASE act.a = "LimitOrder"  -> LimitOrder(s, a)
    [] act.a = "MarketOrder" -> MarketOrder(s, a)
    [] act.a = "MMOrder"     -> MMOrder(s, a, MTicks(a), Swapped)
    [] act.a = "CancelOrder" -> CancelOrder(s, a)
    [] act.a = "CancelAll"   -> CancelAll(s, a)
    [] act.a = "CancelMM"    -> CancelMM(s, a, Swapped)
    [] act.a = "CreatePool"  -> CreatePool(s, a, [ps |-> 10000])
    [] act.a = "Deposit"     -> Deposit(s, a)
    [] act.a = "Withdraw"    -> Withdraw(s, a, a.pc)
    [] act.a = "Farm"        -> Farm(s, a, a.amt)
    [] act.a = "Unfarm"      -> Unfarm(s, a)
    [] act.a = "DepositAndFarm" -> IF PoolUsable(s, a) THEN DepositAndFarm(s, a, MOutcome(s, PendReq(s, a, "D"))) ELSE Fail(s)
    [] act.a = "UnfarmAndWithdraw" -> IF PoolUsable(s, a) THEN UnfarmAndWithdraw(s, a, MOutcome(s, PendReq(s, a, "W"))) ELSE Fail(s)
    [] act.a = "EndBlock"    -> IF BatchDue(s, MApp) THEN EndApp(s, MApp, MEnv(s, MApp, c)) ELSE Ok(s)
    [] act.a = "BeginBlock"  -> IF s.h < MaxH THEN Ok(BeginBlock(s, a.dt)) ELSE Fail(s)

StepOK(s, s2, act) ==
  /\ C04SupplyStep(s, s2)
  /\ \A u \in MUsers : \A d \in {"uaa", "ubb", "ucc"} \cap Denoms :
        ~ReqTouched(s, s2, u) /\ ~PoolAct(act.a, act.args, u) => s2.bal[u][d] - s.bal[u][d] = C07OwnerFlow(s, s2, u, d)
  /\ (act.a = "CancelAll" => C07CancelAllEnds(s, s2, act.args))
  /\ (act.a \in {"CancelMM", "MMOrder"} =>
        \A o \in s.orders : o.app = act.args.app /\ o.pair = act.args.pair /\ o.owner = act.args.u /\ o.typ = "MM" /\ Live(o)
                            => OrderOf(s2, o.app, o.pair, o.id).status = "X")

Init == st = St0 /\ ph = "tx"
Next == \E act \in Alphabet :
          \E c \in (IF act.a = "EndBlock" /\ BatchDue(st, MApp) THEN MChoices(st, MApp) ELSE {<<>>}) :
             LET r == Step(st, act, c) IN
             /\ r.ok
             /\ (ph = "end" <=> act.a = "BeginBlock")
             /\ (act.a \in {"LimitOrder", "MarketOrder"} => PairOf(st, MApp, act.args.pair).lastOid < MaxOid)
             /\ (act.a = "MMOrder" => MMMax > 0 /\ PairOf(st, MApp, 1).lastOid <= MMMax /\ Cardinality({o \in st.orders : o.typ = "MM"}) <= 4)
             /\ (act.a \in {"Deposit", "DepositAndFarm"} => ~HasPool(st, MApp, 1) \/ PoolOf(st, MApp, 1).lastDep < MaxReq)
             /\ (act.a \in {"Withdraw", "UnfarmAndWithdraw"} => ~HasPool(st, MApp, 1) \/ PoolOf(st, MApp, 1).lastWd < MaxReq)
             /\ (act.a = "CreatePool" => st.lastPool[MApp] = 0)
             /\ (act.a = "Farm" => \A q \in st.qf : Len(q.q) < MaxReq)
             /\ Assert(StepOK(st, r.st, act), <<"C04/C07 step property violated by the model", act>>)   \* every generated transition
             /\ st' = r.st /\ ph' = (IF act.a = "EndBlock" THEN "end" ELSE "tx")
Spec == Init /\ [][Next]_vars

(* ---- C04 / C07 on the model ---- *)
InvC04 == C04GlobalEscrow(st) /\ C04PairEscrow(st) /\ C04FarmBacked(st) /\ C04ZeroDisabled(st)
InvC07 == C07EscrowCovers(st) /\ C07NothingRemains(st)
InvCancellable ==                                             \* an order outside its placement batch can be cancelled by its owner
  \A o \in st.orders : Live(o) /\ o.batch # PairOf(st, o.app, o.pair).batch =>
     LET r == CancelOrder(st, [u |-> o.owner, app |-> o.app, pair |-> o.pair, id |-> o.id]) IN
     r.ok /\ OrderOf(r.st, o.app, o.pair, o.id).status = "X"
=============================================================================
