SPECIFICATION Spec
CONSTANTS MApp = 1  MUsers = {"u1", "u2"}  Scope = "pools"  MaxOid = 0  MMMax = 4  MaxReq = 1  MaxH = 3  Swapped = FALSE  Emit = TRUE
CONSTANTS Accts <- MCAccts  Denoms <- MCDenoms
INVARIANTS InvC04 InvC07
CHECK_DEADLOCK FALSE
