------------------------------ MODULE Liquidity ------------------------------
(* x/liquidity, implementation-shaped: one operator per message handler (keeper/msg_server.go, swap.go,  *)
(* pool.go, rewards.go) and per block-hook unit (abci.go, batch.go).  Every operator is a function        *)
(*        Act(s, a, e) = [ok |-> BOOLEAN, st |-> s']                                                      *)
(* of the state record s, the message arguments a and - where the code computes something this spec       *)
(* deliberately does not (batch matching, pool share arithmetic, market-making tick split: the `amm`      *)
(* family) - a record e of ENVIRONMENT CHOICES constrained only by what C04/C07 need (Adm* operators).    *)
(*                                                                                                        *)
(* State record                                                                                           *)
(*   h, t      block height, block time (seconds since genesis)                                           *)
(*   bal       [account -> [denom -> Int]] : users, pair escrows esc_a_p, pair swap-fee collectors        *)
(*             fee_a_p, pool reserves res_a_k, global escrow gesc, module account mod, dust_a, fc_a       *)
(*   pairs     {[app,id,base,quote,batch,lastOid,lp]}            lp = last price * 1e4, 0 = none           *)
(*   pools     {[app,id,pair,ranged,disabled,ps,lastDep,lastWd]}  ps = bank supply of the pool coin        *)
(*   reqs      {[kind,app,pool,id,owner,x,y,pc,ax,ay,mint,wx,wy,status]}  kind D/W, status N/S/F           *)
(*   orders    {[app,pair,id,owner,typ,dir,od,dd,offer,rem,recv,amt,open,price,batch,exp,status]}          *)
(*             od / dd = denom of the offer coin / of the demand coin as recorded in the order                *)
(*             typ L/M/MM, dir B/S, status NE NM PM (live) C X E (terminated, deleted at next block)       *)
(*   qf, af    queued / active farm records;  mmx  market-making order index                              *)
(*   lastPair, lastPool, par   per app (sequence indexed by app id)                                        *)
EXTENDS Integers, Sequences, FiniteSets

PS      == 10000          \* price scale
MinCoin == 100            \* amm.MinCoinAmount
QueueD  == 86400          \* farming queue duration (gauge trigger duration = default = 24h)

Range(f) == {f[i] : i \in DOMAIN f}
Min2(a, b) == IF a <= b THEN a ELSE b
Max2(a, b) == IF a >= b THEN a ELSE b

RECURSIVE SumF(_, _)
SumF(f, S) == IF S = {} THEN 0 ELSE LET x == CHOOSE y \in S : TRUE IN f[x] + SumF(f, S \ {x})

(* ------------------------------------------------------------------------------------------------------ *)
(* fixture universe (harness/fam/liquidity/world.go)                                                       *)
AppIds == {1, 2}
EscT  == << <<"esc_1_1", "esc_1_2">>, <<"esc_2_1", "esc_2_2">> >>
FeeT  == << <<"fee_1_1", "fee_1_2">>, <<"fee_2_1", "fee_2_2">> >>
ResT  == << <<"res_1_1", "res_1_2", "res_1_3">>, <<"res_2_1", "res_2_2", "res_2_3">> >>
PcdT  == << <<"pool1-1", "pool1-2", "pool1-3">>, <<"pool2-1", "pool2-2", "pool2-3">> >>
DustT == <<"dust_1", "dust_2">>
FcT   == <<"fc_1", "fc_2">>
Gesc  == "gesc"
Mod   == "mod"
FeeDenom == "ucmdx"
Users == {"u1", "u2", "u3", "u4"}
Accts == Users \cup {Gesc, Mod} \cup Range(DustT) \cup Range(FcT)
         \cup UNION {Range(EscT[a]) \cup Range(FeeT[a]) \cup Range(ResT[a]) : a \in AppIds}
Denoms == {"uaa", "ubb", "ucc", FeeDenom} \cup UNION {Range(PcdT[a]) : a \in AppIds}
Assets == {"uaa", "ubb", "ucc", FeeDenom}

Esc(o)  == EscT[o.app][o.pair]
FeeC(o) == FeeT[o.app][o.pair]

(* dense balance function from a (possibly sparse) logged record *)
Dense(b) == [a \in Accts |-> [d \in Denoms |-> IF a \in DOMAIN b THEN (IF d \in DOMAIN b[a] THEN b[a][d] ELSE 0) ELSE 0]]

(* A transfer is [from, to, d, n, tag]; "MINT" / "BURN" are the bank's supply side. Tags keep equal        *)
(* transfers of different origin apart in a set.                                                           *)
X(from, to, d, n, tag) == [from |-> from, to |-> to, d |-> d, n |-> n, tag |-> tag]
Apply(bal, XS) ==
  LET touched == {x.from : x \in XS} \cup {x.to : x \in XS} IN
  [a \in Accts |-> IF a \notin touched THEN bal[a] ELSE
     [d \in Denoms |-> bal[a][d] + SumF([x \in XS |-> IF x.d # d THEN 0
                                                       ELSE (IF x.to = a THEN x.n ELSE 0) - (IF x.from = a THEN x.n ELSE 0)], XS)]]
NonNeg(bal) == \A a \in Accts : \A d \in Denoms : bal[a][d] >= 0

Ok(s)   == [ok |-> TRUE, st |-> s]
Fail(s) == [ok |-> FALSE, st |-> s]

(* ------------------------------------------------------------------------------------------------------ *)
(* lookups                                                                                                 *)
HasPair(s, app, id) == \E p \in s.pairs : p.app = app /\ p.id = id
PairOf(s, app, id)  == CHOOSE p \in s.pairs : p.app = app /\ p.id = id
HasPool(s, app, id) == \E p \in s.pools : p.app = app /\ p.id = id
PoolOf(s, app, id)  == CHOOSE p \in s.pools : p.app = app /\ p.id = id
HasOrder(s, app, pair, id) == \E o \in s.orders : o.app = app /\ o.pair = pair /\ o.id = id
OrderOf(s, app, pair, id)  == CHOOSE o \in s.orders : o.app = app /\ o.pair = pair /\ o.id = id
PairOfPool(s, pl) == PairOf(s, pl.app, pl.pair)
Live(o) == o.status \in {"NE", "NM", "PM"}
OfferDenom(s, o)  == o.od            \* the coins an order really holds / wants are the ones recorded in it
DemandDenom(s, o) == o.dd
(* a message may name any coins; the handlers must reject an order whose coins are not the pair's (swap.go:70-101) *)
CoinsOfPair(a, pr) ==
  /\ ("od" \in DOMAIN a => a.od = (IF a.dir = "B" THEN pr.quote ELSE pr.base))
  /\ ("dd" \in DOMAIN a => a.dd = (IF a.dir = "B" THEN pr.base ELSE pr.quote))
Pcd(app, pool) == PcdT[app][pool]

(* ------------------------------------------------------------------------------------------------------ *)
(* arithmetic of swap.go / amm/tick.go at price scale 1e4                                                  *)
Fee(par, n) == (n * par.fn) \div par.fd                    \* CalculateSwapFeeAmount: floor(n * rate)
BuyOffer(P, amt) == (P * amt + PS - 1) \div PS             \* amm.OfferCoinAmount(Buy): ceil(price * amt)
OfferFor(dir, P, amt) == IF dir = "B" THEN BuyOffer(P, amt) ELSE amt
TooSmall(amt, P) == amt < MinCoin \/ P * amt < MinCoin * PS \* types.IsTooSmallOrderAmount
Reserve(par, o) == IF o.typ = "MM" THEN 0 ELSE Fee(par, o.offer)   \* swap-fee reserve escrowed with the offer

RECURSIVE Digits(_)
Digits(n) == IF n < 10 THEN 1 ELSE 1 + Digits(n \div 10)
RECURSIVE Pow10(_)
Pow10(k) == IF k <= 0 THEN 1 ELSE 10 * Pow10(k - 1)
TickUnit(P, prec) == Pow10(Digits(P) - 1 - prec)          \* a tick has prec+1 significant digits (any scale)
TickDown(P, prec) == (P \div TickUnit(P, prec)) * TickUnit(P, prec)
TickUp(P, prec)   == LET d == TickDown(P, prec) IN IF d = P THEN P ELSE d + TickUnit(d, prec)
OnTick(P, prec)   == TickDown(P, prec) = P
(* types.PriceLimits with MaxPriceLimitRatio = 1/10, evaluated at scale 1e5 *)
LimLo(L, prec) == TickUp(9 * L, prec) \div 10
LimHi(L, prec) == TickDown(11 * L, prec) \div 10

(* ------------------------------------------------------------------------------------------------------ *)
(* FinishOrder / FinishMMOrder (swap.go:825-927): what leaves the pair escrow when order o ends            *)
FinOwner(par, o) ==                                         \* to the orderer (offer denom)
  IF ~Live(o) THEN 0
  ELSE IF o.typ = "MM" THEN o.rem
  ELSE IF o.rem = 0 THEN 0
  ELSE IF o.rem = o.offer THEN o.rem + Fee(par, o.offer)
  ELSE o.rem + (Fee(par, o.offer) - Fee(par, o.offer - o.rem))
FinFee(par, o) ==                                           \* to the pair's swap-fee collector
  IF ~Live(o) \/ o.typ = "MM" THEN 0
  ELSE IF o.rem = 0 THEN Fee(par, o.offer)
  ELSE IF o.rem = o.offer THEN 0
  ELSE Fee(par, o.offer - o.rem)
FinXfers(s, o) ==
  LET par == s.par[o.app] d == OfferDenom(s, o) IN
  {x \in {X(Esc(o), o.owner, d, FinOwner(par, o), <<"fin", o.app, o.pair, o.id>>),
          X(Esc(o), FeeC(o), d, FinFee(par, o), <<"fee", o.app, o.pair, o.id>>)} : x.n > 0}
Finished(o, status) == IF Live(o) THEN [o EXCEPT !.status = status] ELSE o

(* finish a set O of current order records with `status` (cancel paths): atomic, fails when the escrow     *)
(* cannot pay                                                                                              *)
FinishSet(s, O, status) ==
  LET xs  == UNION {FinXfers(s, o) : o \in O}
      b   == Apply(s.bal, xs)
  IN IF ~NonNeg(b) THEN Fail(s)
     ELSE Ok([s EXCEPT !.bal = b, !.orders = (s.orders \ O) \cup {Finished(o, status) : o \in O}])

(* ------------------------------------------------------------------------------------------------------ *)
(* pair.go                                                                                                 *)
CreatePair(s, a) ==
  IF a.base = a.quote \/ a.app \notin AppIds \/ a.base \notin Assets \/ a.quote \notin Assets THEN Fail(s)
  ELSE IF \E p \in s.pairs : p.app = a.app /\ p.base = a.base /\ p.quote = a.quote THEN Fail(s)
  ELSE LET par == s.par[a.app]
           b   == Apply(s.bal, {X(a.u, FcT[a.app], FeeDenom, par.pairFee, "pairfee")})
           id  == s.lastPair[a.app] + 1
       IN IF ~NonNeg(b) THEN Fail(s)
          ELSE Ok([s EXCEPT !.bal = b, !.lastPair[a.app] = id,
                            !.pairs = @ \cup {[app |-> a.app, id |-> id, base |-> a.base, quote |-> a.quote,
                                               batch |-> 1, lastOid |-> 0, lp |-> 0]}])

(* ------------------------------------------------------------------------------------------------------ *)
(* swap.go: limit / market orders                                                                          *)
PlaceOrder(s, a, typ, P, offer) ==                          \* common tail of LimitOrder / MarketOrder
  LET par  == s.par[a.app]
      pr   == PairOf(s, a.app, a.pair)
      fee  == Fee(par, offer)
      od   == IF a.dir = "B" THEN pr.quote ELSE pr.base
      id   == pr.lastOid + 1
      o    == [app |-> a.app, pair |-> a.pair, id |-> id, owner |-> a.u, typ |-> typ, dir |-> a.dir,
               od |-> od, dd |-> (IF a.dir = "B" THEN pr.base ELSE pr.quote), offer |-> offer, rem |-> offer, recv |-> 0, amt |-> a.amt, open |-> a.amt, price |-> P,
               batch |-> pr.batch, exp |-> s.t + a.life, status |-> "NE"]
      b    == Apply(s.bal, {X(a.u, EscT[a.app][a.pair], od, offer + fee, "place")})
  IN IF a.offer < offer + fee \/ TooSmall(a.amt, P) \/ ~NonNeg(b) THEN Fail(s)
     ELSE Ok([s EXCEPT !.bal = b, !.orders = @ \cup {o},
                       !.pairs = (@ \ {pr}) \cup {[pr EXCEPT !.lastOid = id]}])

LimitOrder(s, a) ==
  IF a.price <= 0 \/ a.offer < MinCoin \/ a.amt < MinCoin \/ a.life < 0
     \/ a.offer < OfferFor(a.dir, a.price, a.amt) THEN Fail(s)                    \* ValidateBasic
  ELSE IF a.app \notin AppIds \/ ~HasPair(s, a.app, a.pair) THEN Fail(s)
  ELSE IF ~CoinsOfPair(a, PairOf(s, a.app, a.pair)) THEN Fail(s)
  ELSE LET par == s.par[a.app]
           pr  == PairOf(s, a.app, a.pair)
           od  == IF a.dir = "B" THEN pr.quote ELSE pr.base
           P   == IF a.dir = "B" THEN TickDown(a.price, par.prec) ELSE TickUp(a.price, par.prec)
       IN IF s.bal[a.u][od] < a.offer \/ a.life > par.maxLife THEN Fail(s)
          ELSE IF pr.lp > 0 /\ (a.price > LimHi(pr.lp, par.prec) \/ a.price < LimLo(pr.lp, par.prec)) THEN Fail(s)
          ELSE PlaceOrder(s, a, "L", P, OfferFor(a.dir, P, a.amt))

MarketOrder(s, a) ==
  IF a.offer < MinCoin \/ a.amt < MinCoin \/ a.life < 0 THEN Fail(s)
  ELSE IF a.app \notin AppIds \/ ~HasPair(s, a.app, a.pair) THEN Fail(s)
  ELSE IF ~CoinsOfPair(a, PairOf(s, a.app, a.pair)) THEN Fail(s)
  ELSE LET par == s.par[a.app]
           pr  == PairOf(s, a.app, a.pair)
           od  == IF a.dir = "B" THEN pr.quote ELSE pr.base
           P   == IF a.dir = "B" THEN LimHi(pr.lp, par.prec) ELSE LimLo(pr.lp, par.prec)
       IN IF s.bal[a.u][od] < a.offer \/ a.life > par.maxLife \/ pr.lp = 0 THEN Fail(s)
          ELSE PlaceOrder(s, a, "M", P, OfferFor(a.dir, P, a.amt))

CancelOrder(s, a) ==
  IF a.pair = 0 \/ a.id = 0 \/ a.app \notin AppIds \/ ~HasOrder(s, a.app, a.pair, a.id) THEN Fail(s)
  ELSE LET o == OrderOf(s, a.app, a.pair, a.id) IN
       IF o.owner # a.u \/ o.status = "X" \/ o.batch = PairOf(s, a.app, a.pair).batch THEN Fail(s)
       ELSE FinishSet(s, {o}, "X")

CancelAll(s, a) ==
  IF 0 \in Range(a.pairs) \/ Cardinality(Range(a.pairs)) # Len(a.pairs) \/ a.app \notin AppIds THEN Fail(s)
  ELSE IF \E p \in Range(a.pairs) : ~HasPair(s, a.app, p) THEN Fail(s)
  ELSE FinishSet(s, {o \in s.orders : /\ o.app = a.app /\ o.owner = a.u
                                      /\ (a.pairs = <<>> \/ o.pair \in Range(a.pairs))
                                      /\ o.status # "X" /\ o.batch < PairOf(s, o.app, o.pair).batch}, "X")

(* cancelMMOrder (swap.go:555-579).  The code looks every indexed id up with GetOrder(ctx, pair.Id, appID, id), *)
(* i.e. with app id and pair id exchanged (swapped = TRUE); the intended lookup is swapped = FALSE.           *)
MMFound(s, app, pair, ids, swapped) ==
  {o \in s.orders : /\ o.id \in Range(ids)
                    /\ o.app = (IF swapped THEN pair ELSE app) /\ o.pair = (IF swapped THEN app ELSE pair)}
HasMMX(s, app, pair, u) == \E i \in s.mmx : i.app = app /\ i.pair = pair /\ i.owner = u
MMXOf(s, app, pair, u)  == CHOOSE i \in s.mmx : i.app = app /\ i.pair = pair /\ i.owner = u
CancelMMCore(s, app, pair, u, swapped) ==                    \* precondition: index exists
  LET ix == MMXOf(s, app, pair, u)
      F  == MMFound(s, app, pair, ix.ids, swapped)
      pr == PairOf(s, app, pair)
  IN IF \E o \in F : o.batch = pr.batch THEN Fail(s)
     ELSE LET r == FinishSet(s, {o \in F : Live(o)}, "X") IN
          IF ~r.ok THEN Fail(s) ELSE Ok([r.st EXCEPT !.mmx = @ \ {ix}])
CancelMM(s, a, swapped) ==
  IF a.pair = 0 \/ ~HasPair(s, a.app, a.pair) \/ ~HasMMX(s, a.app, a.pair, a.u) THEN Fail(s)
  ELSE CancelMMCore(s, a.app, a.pair, a.u, swapped)

(* MMOrder (swap.go:272-440).  e.ticks = set of [dir, price, amt] chosen by types.MMOrderTicks (environment). *)
MMBasic(a) ==
  /\ a.pair # 0 /\ ~(a.sellAmt = 0 /\ a.buyAmt = 0) /\ a.life >= 0
  /\ (a.sellAmt # 0 => a.sellAmt >= MinCoin /\ a.maxSell > 0 /\ a.minSell > 0 /\ a.minSell <= a.maxSell)
  /\ (a.buyAmt # 0 => a.buyAmt >= MinCoin /\ a.maxBuy > 0 /\ a.minBuy > 0 /\ a.minBuy <= a.maxBuy)
MMValid(s, a) ==                                             \* everything checked before the tick split
  /\ MMBasic(a) /\ a.app \in AppIds /\ HasPair(s, a.app, a.pair)
  /\ LET par == s.par[a.app] pr == PairOf(s, a.app, a.pair)
         inr(p) == pr.lp = 0 \/ (p >= LimLo(pr.lp, par.prec) /\ p <= LimHi(pr.lp, par.prec))
     IN /\ (a.sellAmt > 0 => OnTick(a.minSell, par.prec) /\ OnTick(a.maxSell, par.prec) /\ inr(a.minSell) /\ inr(a.maxSell))
        /\ (a.buyAmt > 0 => OnTick(a.minBuy, par.prec) /\ OnTick(a.maxBuy, par.prec) /\ inr(a.minBuy) /\ inr(a.maxBuy))
        /\ a.life <= par.maxLife
AdmTicks(s, a, T) ==                                         \* what C07 needs from the tick split
  LET par == s.par[a.app] B == {k \in T : k.dir = "B"} S == {k \in T : k.dir = "S"} IN
  /\ SumF([k \in B |-> k.amt], B) = a.buyAmt /\ SumF([k \in S |-> k.amt], S) = a.sellAmt
  /\ Cardinality(B) <= par.maxTicks /\ Cardinality(S) <= par.maxTicks
  /\ \A k \in B : k.price >= a.minBuy /\ k.price <= a.maxBuy /\ k.amt >= 0
  /\ \A k \in S : k.price >= a.minSell /\ k.price <= a.maxSell /\ k.amt >= 0
(* ticks as a sequence (buy ticks first, then sell ticks, in id order) *)
MMOrder(s, a, ticks, swapped) ==
  IF ~MMValid(s, a) \/ ~AdmTicks(s, a, Range(ticks)) THEN Fail(s)
  ELSE LET par == s.par[a.app]
           pr  == PairOf(s, a.app, a.pair)
           offB == SumF([i \in DOMAIN ticks |-> IF ticks[i].dir = "B" THEN BuyOffer(ticks[i].price, ticks[i].amt) ELSE 0], DOMAIN ticks)
           offS == SumF([i \in DOMAIN ticks |-> IF ticks[i].dir = "S" THEN ticks[i].amt ELSE 0], DOMAIN ticks)
       IN IF s.bal[a.u][pr.base] < offS \/ s.bal[a.u][pr.quote] < offB THEN Fail(s)
          ELSE LET r1 == IF HasMMX(s, a.app, a.pair, a.u) THEN CancelMMCore(s, a.app, a.pair, a.u, swapped) ELSE Ok(s) IN
               IF ~r1.ok THEN Fail(s)
               ELSE LET s1 == r1.st
                        b  == Apply(s1.bal, {x \in {X(a.u, EscT[a.app][a.pair], pr.base, offS, "mmS"),
                                                    X(a.u, EscT[a.app][a.pair], pr.quote, offB, "mmB")} : x.n > 0})
                        new == {[app |-> a.app, pair |-> a.pair, id |-> pr.lastOid + i, owner |-> a.u, typ |-> "MM",
                                 dir |-> ticks[i].dir, od |-> (IF ticks[i].dir = "B" THEN pr.quote ELSE pr.base),
                                 dd |-> (IF ticks[i].dir = "B" THEN pr.base ELSE pr.quote), offer |-> OfferFor(ticks[i].dir, ticks[i].price, ticks[i].amt),
                                 rem |-> OfferFor(ticks[i].dir, ticks[i].price, ticks[i].amt), recv |-> 0,
                                 amt |-> ticks[i].amt, open |-> ticks[i].amt, price |-> ticks[i].price,
                                 batch |-> pr.batch, exp |-> s.t + a.life, status |-> "NE"] : i \in DOMAIN ticks}
                        pr1 == PairOf(s1, a.app, a.pair)
                    IN IF ~NonNeg(b) THEN Fail(s)
                       ELSE Ok([s1 EXCEPT !.bal = b, !.orders = @ \cup new,
                                          !.pairs = (@ \ {pr1}) \cup {[pr1 EXCEPT !.lastOid = pr.lastOid + Len(ticks)]},
                                          !.mmx = @ \cup {[app |-> a.app, pair |-> a.pair, owner |-> a.u,
                                                           ids |-> [i \in DOMAIN ticks |-> pr.lastOid + i]]}])

(* ------------------------------------------------------------------------------------------------------ *)
(* pool.go                                                                                                 *)
ActivePools(s, app, pair) == {p \in s.pools : p.app = app /\ p.pair = pair /\ ~p.disabled}
NewPool(s, a, ranged, ax, ay, ps) ==
  LET par == s.par[a.app]
      pr  == PairOf(s, a.app, a.pair)
      id  == s.lastPool[a.app] + 1
      b   == Apply(s.bal, {x \in {X(a.u, ResT[a.app][id], pr.quote, ax, "px"), X(a.u, ResT[a.app][id], pr.base, ay, "py"),
                                  X(a.u, FcT[a.app], FeeDenom, par.poolFee, "poolfee"),
                                  X("MINT", a.u, Pcd(a.app, id), ps, "mint")} : x.n > 0})
  IN IF ps <= 0 \/ ~NonNeg(b) THEN Fail(s)
     ELSE Ok([s EXCEPT !.bal = b, !.lastPool[a.app] = id,
                       !.pools = @ \cup {[app |-> a.app, id |-> id, pair |-> a.pair, ranged |-> ranged, disabled |-> FALSE,
                                          ps |-> ps, lastDep |-> 0, lastWd |-> 0]}])
CreatePoolValid(s, a) ==
  /\ a.pair # 0 /\ a.x > 0 /\ a.y > 0 /\ a.app \in AppIds /\ HasPair(s, a.app, a.pair)
  /\ a.x >= s.par[a.app].minDep /\ a.y >= s.par[a.app].minDep
  /\ ~\E p \in ActivePools(s, a.app, a.pair) : ~p.ranged
  /\ Cardinality(ActivePools(s, a.app, a.pair)) < s.par[a.app].maxPools
CreatePool(s, a, e) == IF ~CreatePoolValid(s, a) THEN Fail(s) ELSE NewPool(s, a, FALSE, a.x, a.y, e.ps)   \* e.ps: amm.InitialPoolCoinSupply

CreateRangedValid(s, a) ==
  /\ a.pair # 0 /\ a.x + a.y > 0 /\ a.init > 0 /\ a.min > 0 /\ a.max > a.min /\ a.init >= a.min /\ a.init <= a.max
  /\ (a.max - a.min) * 1000 >= a.min                          \* MinRangedPoolPriceGapRatio
  /\ a.app \in AppIds /\ HasPair(s, a.app, a.pair)
  /\ LET prec == s.par[a.app].prec IN OnTick(a.min, prec) /\ OnTick(a.max, prec) /\ OnTick(a.init, prec)
  /\ Cardinality(ActivePools(s, a.app, a.pair)) < s.par[a.app].maxPools
(* e = [ax, ay, ps]: accepted deposit and minted supply (amm.CreateRangedPool) *)
CreateRangedPool(s, a, e) ==
  IF ~CreateRangedValid(s, a) \/ e.ax > a.x \/ e.ay > a.y \/ e.ax < 0 \/ e.ay < 0 THEN Fail(s)
  ELSE IF e.ax < s.par[a.app].minDep /\ e.ay < s.par[a.app].minDep THEN Fail(s)
  ELSE NewPool(s, a, TRUE, e.ax, e.ay, e.ps)

PoolUsable(s, a) == a.pool # 0 /\ a.app \in AppIds /\ HasPool(s, a.app, a.pool) /\ ~PoolOf(s, a.app, a.pool).disabled
NewReq(kind, a, id, x, y, pc) ==
  [kind |-> kind, app |-> a.app, pool |-> a.pool, id |-> id, owner |-> a.u, x |-> x, y |-> y, pc |-> pc,
   ax |-> 0, ay |-> 0, mint |-> 0, wx |-> 0, wy |-> 0, status |-> "N"]
Deposit(s, a) ==
  IF a.x + a.y <= 0 \/ a.x < 0 \/ a.y < 0 \/ ~PoolUsable(s, a) THEN Fail(s)
  ELSE LET pl == PoolOf(s, a.app, a.pool) pr == PairOfPool(s, pl)
           b  == Apply(s.bal, {x \in {X(a.u, Gesc, pr.quote, a.x, "dx"), X(a.u, Gesc, pr.base, a.y, "dy")} : x.n > 0})
       IN IF ~NonNeg(b) THEN Fail(s)
          ELSE Ok([s EXCEPT !.bal = b, !.pools = (@ \ {pl}) \cup {[pl EXCEPT !.lastDep = @ + 1]},
                            !.reqs = @ \cup {NewReq("D", a, pl.lastDep + 1, a.x, a.y, 0)}])
Withdraw(s, a, pc) ==
  IF pc <= 0 \/ ~PoolUsable(s, a) THEN Fail(s)
  ELSE LET pl == PoolOf(s, a.app, a.pool)
           b  == Apply(s.bal, {X(a.u, Gesc, Pcd(a.app, a.pool), pc, "wpc")})
       IN IF ~NonNeg(b) THEN Fail(s)
          ELSE Ok([s EXCEPT !.bal = b, !.pools = (@ \ {pl}) \cup {[pl EXCEPT !.lastWd = @ + 1]},
                            !.reqs = @ \cup {NewReq("W", a, pl.lastWd + 1, 0, 0, pc)}])

(* ExecuteDepositRequest / ExecuteWithdrawRequest (pool.go:493-669).  The outcome o = [status, ax, ay, mint, *)
(* wx, wy, dis] is the environment's (amm.Deposit / amm.Withdraw / IsDepleted); admissible outcomes:          *)
AdmOutcome(s, r, o) ==
  LET pl == PoolOf(s, r.app, r.pool) IN
  /\ o.status \in {"S", "F"}
  /\ (pl.disabled => o.status = "F")
  /\ IF r.kind = "D" THEN /\ o.wx = 0 /\ o.wy = 0
                          /\ (o.status = "F" => o.ax = 0 /\ o.ay = 0 /\ o.mint = 0)
                          /\ (o.status = "S" => o.mint > 0 /\ o.ax >= 0 /\ o.ay >= 0 /\ o.ax <= r.x /\ o.ay <= r.y)
     ELSE /\ o.ax = 0 /\ o.ay = 0 /\ o.mint = 0
          /\ (o.status = "F" => o.wx = 0 /\ o.wy = 0)
          /\ (o.status = "S" => o.wx >= 0 /\ o.wy >= 0 /\ o.wx + o.wy > 0)
ReqXfers(s, r, o) ==
  LET pl == PoolOf(s, r.app, r.pool) pr == PairOfPool(s, pl) res == ResT[r.app][r.pool] pcd == Pcd(r.app, r.pool)
      tg(k) == <<k, r.kind, r.app, r.pool, r.id>> IN
  {x \in (IF r.kind = "D"
          THEN {X(Gesc, res, pr.quote, o.ax, tg("ax")), X(Gesc, res, pr.base, o.ay, tg("ay")),
                X("MINT", r.owner, pcd, o.mint, tg("mint")),
                X(Gesc, r.owner, pr.quote, r.x - o.ax, tg("rx")), X(Gesc, r.owner, pr.base, r.y - o.ay, tg("ry"))}
          ELSE IF o.status = "S"
               THEN {X(Gesc, "BURN", pcd, r.pc, tg("burn")), X(res, r.owner, pr.quote, o.wx, tg("wx")), X(res, r.owner, pr.base, o.wy, tg("wy"))}
               ELSE {X(Gesc, r.owner, pcd, r.pc, tg("rpc"))}) : x.n > 0}
ReqDone(r, o) == [r EXCEPT !.status = o.status, !.ax = o.ax, !.ay = o.ay, !.mint = o.mint, !.wx = o.wx, !.wy = o.wy]
SupplyDelta(r, o) == IF r.kind = "D" THEN o.mint ELSE IF o.status = "S" THEN -r.pc ELSE 0

(* ------------------------------------------------------------------------------------------------------ *)
(* rewards.go: farm / unfarm                                                                               *)
HasQF(s, app, pool, u) == \E q \in s.qf : q.app = app /\ q.pool = pool /\ q.owner = u
QFOf(s, app, pool, u)  == CHOOSE q \in s.qf : q.app = app /\ q.pool = pool /\ q.owner = u
HasAF(s, app, pool, u) == \E q \in s.af : q.app = app /\ q.pool = pool /\ q.owner = u
AFOf(s, app, pool, u)  == CHOOSE q \in s.af : q.app = app /\ q.pool = pool /\ q.owner = u
RECURSIVE SumQ(_)
SumQ(q) == IF q = <<>> THEN 0 ELSE Head(q).amt + SumQ(Tail(q))
Farm(s, a, amt) ==
  IF a.pool = 0 \/ a.app \notin AppIds \/ amt <= 0 \/ ~HasPool(s, a.app, a.pool) THEN Fail(s)
  ELSE LET b == Apply(s.bal, {X(a.u, Mod, Pcd(a.app, a.pool), amt, "farm")})
           e == [amt |-> amt, at |-> s.t]
       IN IF ~NonNeg(b) THEN Fail(s)
          ELSE IF HasQF(s, a.app, a.pool, a.u)
               THEN LET q == QFOf(s, a.app, a.pool, a.u) IN
                    Ok([s EXCEPT !.bal = b, !.qf = (@ \ {q}) \cup {[q EXCEPT !.q = Append(@, e)]}])
               ELSE Ok([s EXCEPT !.bal = b, !.qf = @ \cup {[app |-> a.app, pool |-> a.pool, owner |-> a.u, q |-> <<e>>]}])
(* the queue is consumed from its newest entry; the rewritten queue keeps the entries before the first    *)
(* entry that became empty (rewards.go:422-446)                                                            *)
RECURSIVE UnQ(_, _, _)
UnQ(q, i, rem) == IF i = 0 THEN [q |-> q, rem |-> rem]
                  ELSE IF q[i].amt >= rem THEN [q |-> [q EXCEPT ![i].amt = @ - rem], rem |-> 0]
                  ELSE UnQ([q EXCEPT ![i].amt = 0], i - 1, rem - q[i].amt)
RECURSIVE CutQ(_)
CutQ(q) == IF q = <<>> \/ Head(q).amt = 0 THEN <<>> ELSE <<Head(q)>> \o CutQ(Tail(q))
Unfarm(s, a) ==
  IF a.pool = 0 \/ a.app \notin AppIds \/ a.amt <= 0 \/ ~HasPool(s, a.app, a.pool) THEN Fail(s)
  ELSE LET qf == HasQF(s, a.app, a.pool, a.u) af == HasAF(s, a.app, a.pool, a.u) IN
       IF ~qf THEN Fail(s)          \* no queue record: not found, or (active only) the handler panics on an empty address
       ELSE LET q  == QFOf(s, a.app, a.pool, a.u)
                act == IF af THEN AFOf(s, a.app, a.pool, a.u).amt ELSE 0
                u  == UnQ(q.q, Len(q.q), a.amt)
                b  == Apply(s.bal, {X(Mod, a.u, Pcd(a.app, a.pool), a.amt, "unfarm")})
                qf2 == (s.qf \ {q}) \cup {[q EXCEPT !.q = CutQ(u.q)]}
            IN IF SumQ(q.q) + act < a.amt \/ ~NonNeg(b) THEN Fail(s)
               ELSE IF u.rem = 0 THEN Ok([s EXCEPT !.bal = b, !.qf = qf2])
               ELSE LET r == AFOf(s, a.app, a.pool, a.u) IN
                    Ok([s EXCEPT !.bal = b, !.qf = qf2,
                                 !.af = (@ \ {r}) \cup (IF r.amt = u.rem THEN {} ELSE {[r EXCEPT !.amt = @ - u.rem]})])

(* DepositAndFarm / UnfarmAndWithdraw (pool.go:863-944): request + immediate execution (outcome o) + farm *)
ExecReq(s, r, o) ==                                          \* r is a request of s with status N
  LET pl == PoolOf(s, r.app, r.pool)
      b  == Apply(s.bal, ReqXfers(s, r, o))
      pl2 == [pl EXCEPT !.ps = @ + SupplyDelta(r, o), !.disabled = @ \/ o.dis]
  IN IF ~AdmOutcome(s, r, o) \/ ~NonNeg(b) THEN Fail(s)
     ELSE Ok([s EXCEPT !.bal = b, !.reqs = (@ \ {r}) \cup {ReqDone(r, o)}, !.pools = (@ \ {pl}) \cup {pl2}])
DepositAndFarm(s, a, o) ==
  LET r1 == Deposit(s, a) IN
  IF ~r1.ok THEN Fail(s)
  ELSE LET r  == CHOOSE q \in r1.st.reqs \ s.reqs : TRUE
           r2 == ExecReq(r1.st, r, o) IN
       IF ~r2.ok \/ o.status # "S" \/ o.mint <= 0 THEN Fail(s)
       ELSE LET r3 == Farm(r2.st, a, o.mint) IN IF r3.ok THEN r3 ELSE Fail(s)
UnfarmAndWithdraw(s, a, o) ==
  LET r1 == Unfarm(s, a) IN
  IF ~r1.ok THEN Fail(s)
  ELSE LET r2 == Withdraw(r1.st, a, a.amt) IN
       IF ~r2.ok THEN Fail(s)
       ELSE LET r  == CHOOSE q \in r2.st.reqs \ r1.st.reqs : TRUE
                r3 == ExecReq(r2.st, r, o) IN
            IF r3.ok THEN r3 ELSE Fail(s)

(* ------------------------------------------------------------------------------------------------------ *)
(* abci.go / batch.go: end of block.  For every app whose batch is due, one atomic unit (ApplyFuncIfNoError): *)
(*   ExecuteMatching per pair (expire, match, complete), expiry / too-small sweep, deposit and withdraw        *)
(*   requests, queued farmers.  e (environment, per app unit):                                                *)
(*     fill   [order key -> [paid, recv, m]]   what batch matching did to each user order (amm family)          *)
(*     lp     [pair id -> last price after the batch]                                                           *)
(*     pnet   [pool id -> [q, b]]  net coins a pool reserve received from the pair escrow by matching            *)
(*     dust   [pair id -> quote coins sent to the dust collector]                                               *)
(*     out    [request key -> outcome]    status, accepted coins, minted shares / withdrawn coins                 *)
(*     dis    [pool id -> disabled after the batch]   (amm IsDepleted / last share withdrawn)                    *)
OKey(o) == <<o.pair, o.id>>
RKey(r) == <<r.kind, r.pool, r.id>>
NoFill == [paid |-> 0, recv |-> 0, m |-> 0]
InBook(s, o) == Live(o) /\ ~(o.status # "NE" /\ o.exp <= s.t)           \* added to the order book of this batch
AdmFills(s, app, e) ==
  \A o \in {x \in s.orders : x.app = app} :
     LET f == e.fill[OKey(o)] IN
     /\ f.paid >= 0 /\ f.recv >= 0 /\ f.m >= 0
     /\ f.paid <= o.rem /\ f.m <= o.open
     /\ (~InBook(s, o) => f = NoFill)
     /\ (f.paid > 0 \/ f.recv > 0 => f.m > 0)
AfterBatch(s, o, f) ==                                        \* order record and its way through the batch
  LET par == s.par[o.app] IN
  IF ~Live(o) THEN [o |-> o, fin |-> FALSE]
  ELSE IF ~InBook(s, o) THEN [o |-> o, fin |-> TRUE, st |-> "E"]                      \* expired before matching
  ELSE LET o1 == [o EXCEPT !.rem = @ - f.paid, !.recv = @ + f.recv, !.open = @ - f.m,
                           !.status = IF f.m > 0 THEN "PM" ELSE IF o.status = "NE" THEN "NM" ELSE o.status] IN
       IF f.m > 0 /\ o1.open = 0 THEN [o |-> o1, fin |-> TRUE, st |-> "C"]            \* completed
       ELSE IF o1.exp <= s.t THEN [o |-> o1, fin |-> TRUE, st |-> "E"]                \* expiry sweep
       ELSE IF TooSmall(o1.open, o1.price) THEN [o |-> o1, fin |-> TRUE, st |-> "E"]  \* too small to match again
       ELSE [o |-> o1, fin |-> FALSE]
Mature(s, c) == s.t >= c.at + QueueD
RECURSIVE KeepQ(_, _)
KeepQ(s, q) == IF q = <<>> THEN <<>> ELSE (IF Mature(s, Head(q)) THEN <<>> ELSE <<Head(q)>>) \o KeepQ(s, Tail(q))
RECURSIVE RipeQ(_, _)
RipeQ(s, q) == IF q = <<>> THEN 0 ELSE (IF Mature(s, Head(q)) THEN Head(q).amt ELSE 0) + RipeQ(s, Tail(q))
AnyRipe(s, q) == \E i \in DOMAIN q : Mature(s, q[i])

EndApp(s, app, e) ==
  LET O    == {o \in s.orders : o.app = app}
      AB   == [o \in O |-> AfterBatch(s, o, e.fill[OKey(o)])]
      O2   == {IF AB[o].fin THEN Finished(AB[o].o, AB[o].st) ELSE AB[o].o : o \in O}
      P    == {p \in s.pairs : p.app = app}
      PL   == {p \in s.pools : p.app = app}
      R    == {r \in s.reqs : r.app = app /\ r.status = "N"}
      sM   == [s EXCEPT !.orders = (s.orders \ O) \cup {AB[o].o : o \in O}]    \* records as FinishOrder sees them
      xs   == UNION {FinXfers(sM, AB[o].o) : o \in {x \in O : AB[x].fin}}
              \cup {x \in {X(Esc(o), o.owner, DemandDenom(s, o), e.fill[OKey(o)].recv, <<"recv", o.pair, o.id>>) : o \in O} : x.n > 0}
              \cup {x \in UNION {{X(EscT[app][pl.pair], ResT[app][pl.id], PairOfPool(s, pl).quote, e.pnet[pl.id].q, <<"pq", pl.id>>),
                                  X(EscT[app][pl.pair], ResT[app][pl.id], PairOfPool(s, pl).base, e.pnet[pl.id].b, <<"pb", pl.id>>)} : pl \in PL} : x.n # 0}
              \cup {x \in {X(EscT[app][p.id], DustT[app], p.quote, e.dust[p.id], <<"dust", p.id>>) : p \in P} : x.n # 0}
              \cup UNION {ReqXfers(s, r, e.out[RKey(r)]) : r \in R}
      b    == Apply(s.bal, xs)
      dps(pl) == SumF([r \in R |-> IF r.pool = pl.id THEN SupplyDelta(r, e.out[RKey(r)]) ELSE 0], R)
      PL2  == {[pl EXCEPT !.ps = @ + dps(pl), !.disabled = @ \/ e.dis[pl.id]] : pl \in PL}
      QF   == {q \in s.qf : q.app = app}
      ripe == {q \in QF : AnyRipe(s, q.q)}
      QF2  == {IF q \in ripe THEN [q EXCEPT !.q = KeepQ(s, @)] ELSE q : q \in QF}
      AF   == {r \in s.af : r.app = app}
      AF2  == {IF HasQF(s, app, r.pool, r.owner) /\ QFOf(s, app, r.pool, r.owner) \in ripe
               THEN [r EXCEPT !.amt = @ + RipeQ(s, QFOf(s, app, r.pool, r.owner).q)] ELSE r : r \in AF}
              \cup {[app |-> app, pool |-> q.pool, owner |-> q.owner, amt |-> RipeQ(s, q.q)] :
                      q \in {x \in ripe : ~HasAF(s, app, x.pool, x.owner)}}
  IN IF ~AdmFills(s, app, e) \/ (\E r \in R : ~AdmOutcome(s, r, e.out[RKey(r)])) \/ ~NonNeg(b)
     THEN Fail(s)                                            \* the unit panics and is discarded as a whole
     ELSE Ok([s EXCEPT !.bal = b,
                       !.orders = (@ \ O) \cup O2,
                       !.pairs  = (@ \ P) \cup {[p EXCEPT !.batch = @ + 1, !.lp = e.lp[p.id]] : p \in P},
                       !.pools  = (@ \ PL) \cup PL2,
                       !.reqs   = (@ \ R) \cup {ReqDone(r, e.out[RKey(r)]) : r \in R},
                       !.qf     = (@ \ QF) \cup QF2,
                       !.af     = (@ \ AF) \cup AF2])
BatchDue(s, app) == s.h % s.par[app].batch = 0

(* begin of the next block (abci.go BeginBlocker): DeleteOutdatedRequests for every app *)
BeginBlock(s, dt) ==
  [s EXCEPT !.h = @ + 1, !.t = @ + dt,
            !.reqs = {r \in @ : r.status = "N"},
            !.orders = {o \in @ : Live(o)}]

(* ====================================================================================================== *)
(* THE PROPERTIES (stated over states / pairs of states, independent of the mechanics above)              *)
(* ====================================================================================================== *)
Pending(s) == {r \in s.reqs : r.status = "N"}
(* coins of denom d that pending requests have in the global escrow *)
PendingCoins(s, d) ==
  SumF([r \in Pending(s) |->
          LET pl == PoolOf(s, r.app, r.pool) pr == PairOfPool(s, pl) IN
          (IF r.kind = "D" /\ d = pr.quote THEN r.x ELSE 0) + (IF r.kind = "D" /\ d = pr.base THEN r.y ELSE 0)
          + (IF r.kind = "W" /\ d = Pcd(r.app, r.pool) THEN r.pc ELSE 0)], Pending(s))
LiveOf(s, p) == {o \in s.orders : o.app = p.app /\ o.pair = p.id /\ Live(o)}
RemOf(s, p, d)  == SumF([o \in LiveOf(s, p) |-> IF OfferDenom(s, o) = d THEN o.rem ELSE 0], LiveOf(s, p))
OwedOf(s, p, d) == SumF([o \in LiveOf(s, p) |-> IF OfferDenom(s, o) = d THEN o.rem + Reserve(s.par[o.app], o) ELSE 0], LiveOf(s, p))
Farmed(s, pl) ==
  SumF([q \in {x \in s.qf : x.app = pl.app /\ x.pool = pl.id} |-> SumQ(q.q)], {x \in s.qf : x.app = pl.app /\ x.pool = pl.id})
  + SumF([q \in {x \in s.af : x.app = pl.app /\ x.pool = pl.id} |-> q.amt], {x \in s.af : x.app = pl.app /\ x.pool = pl.id})

(* C04 *)
C04GlobalEscrow(s) == \A d \in Denoms : s.bal[Gesc][d] >= PendingCoins(s, d)
C04PairEscrow(s)   == \A p \in s.pairs : \A d \in Denoms : s.bal[EscT[p.app][p.id]][d] >= RemOf(s, p, d)
C04FarmBacked(s)   == \A pl \in s.pools : s.bal[Mod][Pcd(pl.app, pl.id)] = Farmed(s, pl)
C04ZeroDisabled(s) == \A pl \in s.pools : pl.ps = 0 => pl.disabled
(* pool-coin supply changes only by pool creation and by deposits / withdrawals executed against that pool *)
ExecutedNow(s, s2, pl) == {r \in s2.reqs : /\ r.app = pl.app /\ r.pool = pl.id /\ r.status = "S"
                                           /\ ~\E q \in s.reqs : q.kind = r.kind /\ q.app = r.app /\ q.pool = r.pool /\ q.id = r.id /\ q.status # "N"}
C04SupplyStep(s, s2) ==
  \A pl \in s2.pools :
     HasPool(s, pl.app, pl.id) =>
        LET d  == pl.ps - PoolOf(s, pl.app, pl.id).ps
            ex == ExecutedNow(s, s2, pl)
        IN /\ (d > 0 => \E r \in ex : r.kind = "D")
           /\ (d < 0 => \E r \in ex : r.kind = "W")

(* C07 *)
(* every live order's claim (unspent offer + fee reserve) is in the pair escrow; an empty book leaves nothing *)
C07EscrowCovers(s)   == \A p \in s.pairs : \A d \in Denoms : s.bal[EscT[p.app][p.id]][d] >= OwedOf(s, p, d)
C07NothingRemains(s) == \A p \in s.pairs : LiveOf(s, p) = {} => \A d \in Denoms : s.bal[EscT[p.app][p.id]][d] = 0
(* a successful cancel-all ends every order of the signer (in the named pairs, or in all pairs when none is named) *)
(* that is outside its placement batch: "can always be cancelled by its owner", cancel-all being one of the ways   *)
(* of ending; the refund is demanded by the owner ledger below                                                    *)
CancelAllTargets(s, a) == {o \in s.orders : /\ o.app = a.app /\ o.owner = a.u /\ Live(o)
                                            /\ (a.pairs = <<>> \/ o.pair \in Range(a.pairs))
                                            /\ o.batch # PairOf(s, o.app, o.pair).batch}
C07CancelAllEnds(s, s2, a) == \A o \in CancelAllTargets(s, a) : HasOrder(s2, o.app, o.pair, o.id) /\ OrderOf(s2, o.app, o.pair, o.id).status = "X"
(* settlement of one order over one step, as the statement puts it: taken = offer + reserve at placement;  *)
(* returned = demand coins of fills, and at termination the unspent offer + the reserve not attributable   *)
(* to the executed portion                                                                                 *)
Settled(par, o) == o.rem + Reserve(par, o) - (IF o.typ = "MM" THEN 0 ELSE Fee(par, o.offer - o.rem))
OrderFlow(s, s2, o2, d) ==                                   \* expected change of the owner's balance in d caused by order o2 (record in s2)
  LET par == s2.par[o2.app]
      isNew == ~HasOrder(s, o2.app, o2.pair, o2.id)
      o1  == IF isNew THEN o2 ELSE OrderOf(s, o2.app, o2.pair, o2.id)
      od  == OfferDenom(s2, o2) dd == DemandDenom(s2, o2)
  IN (IF isNew /\ d = od THEN -(o2.offer + Reserve(par, o2)) ELSE 0)
     + (IF ~isNew /\ d = dd THEN o2.recv - o1.recv ELSE 0)
     + (IF ~isNew /\ Live(o1) /\ ~Live(o2) /\ d = od THEN Settled(par, o2) ELSE 0)
(* users whose balance also moved for pool / request reasons in the step are outside the order ledger *)
ReqTouched(s, s2, u) == \E r \in s2.reqs : r.owner = u /\ r \notin s.reqs
PoolAct(an, args, u) == an \in {"CreatePool", "CreateRangedPool", "DepositAndFarm", "UnfarmAndWithdraw", "Deposit"} /\ args.u = u
OrdersOfOwner(s2, u) == {o \in s2.orders : o.owner = u}
C07OwnerFlow(s, s2, u, d) == SumF([o \in OrdersOfOwner(s2, u) |-> OrderFlow(s, s2, o, d)], OrdersOfOwner(s2, u))
=============================================================================
