--------------------------- MODULE Trace_Liquidity ---------------------------
(* Validation of executions of the REAL x/liquidity module (recorded by `vh liquidity`) against Liquidity.tla. *)
(* Every log node is one TLC state.  The state of the real code after the step is nd.st, the state before   *)
(* it is the parent's st.                                                                                    *)
(*   C04_* , C07_*  : the properties, evaluated on the recorded states / steps                               *)
(*   Conf_*         : the recorded step is the step the specification takes (environment choices - matching *)
(*                    fills, pool share arithmetic, MM tick split - are read off the recorded post-state and *)
(*                    must be admissible)                                                                    *)
EXTENDS Liquidity, TLC, Json
CONSTANT LogFile
Log  == ndJsonDeserialize(LogFile)
NLog == Len(Log)

(* cur = 0: root; cur = -k: bucket k (so that TLC's workers share the nodes); cur = i > 0: log node i *)
VARIABLE cur
NB == 64
Init == cur = 0
Next == \/ cur = 0 /\ cur' \in {-k : k \in 1..NB}
        \/ cur < 0 /\ cur' \in {i \in 1..NLog : i % NB = (-cur) - 1}
Spec == Init /\ [][Next]_cur

S(j) == [h |-> j.h, t |-> j.t, bal |-> Dense(j.bal), pairs |-> Range(j.pairs), pools |-> Range(j.pools),
         reqs |-> Range(j.reqs), orders |-> Range(j.orders), qf |-> Range(j.qf), af |-> Range(j.af),
         mmx |-> Range(j.mmx), lastPair |-> j.lastPair, lastPool |-> j.lastPool, par |-> j.par]
Nd(i)   == Log[i]
IsStep(i) == Nd(i).parent > 0
Post(i) == S(Nd(i).st)
Pre(i)  == IF IsStep(i) THEN S(Log[Nd(i).parent].st) ELSE S(Nd(i).st)
PreJ(i) == IF IsStep(i) THEN Log[Nd(i).parent].st ELSE Nd(i).st

(* ---------------------------------------------------------------------------------------------------- *)
(* environment choices read off the recorded step                                                        *)
ReqOutcome(s2, r) ==                                          \* r: request of the pre-state (or the one just created)
  LET m == {q \in s2.reqs : q.kind = r.kind /\ q.app = r.app /\ q.pool = r.pool /\ q.id = r.id}
      q == CHOOSE x \in m : TRUE
      pl == PoolOf(s2, r.app, r.pool)
  IN IF m = {} THEN [status |-> "?", ax |-> 0, ay |-> 0, mint |-> 0, wx |-> 0, wy |-> 0, dis |-> FALSE]
     ELSE [status |-> q.status, ax |-> q.ax, ay |-> q.ay, mint |-> q.mint, wx |-> q.wx, wy |-> q.wy, dis |-> pl.disabled]

NowDone(s, s2, app) == {r \in s2.reqs : r.app = app /\ r.status = "S" /\ \E q \in s.reqs : RKey(q) = RKey(r) /\ q.app = app /\ q.status = "N"}
EnvOf(s, s2, app) ==
  LET O  == {o \in s.orders : o.app = app}
      nd == NowDone(s, s2, app)
  IN [fill |-> [k \in {OKey(o) : o \in O} |->
                  LET o1 == OrderOf(s, app, k[1], k[2]) IN
                  IF HasOrder(s2, app, k[1], k[2])
                  THEN LET o2 == OrderOf(s2, app, k[1], k[2]) IN [paid |-> o1.rem - o2.rem, recv |-> o2.recv - o1.recv, m |-> o1.open - o2.open]
                  ELSE [paid |-> -1, recv |-> 0, m |-> 0]],
      lp   |-> [k \in {p.id : p \in {x \in s.pairs : x.app = app}} |-> IF HasPair(s2, app, k) THEN PairOf(s2, app, k).lp ELSE 0],
      dust |-> [k \in {p.id : p \in {x \in s.pairs : x.app = app}} |->
                  LET p == PairOf(s, app, k) IN s2.bal[DustT[app]][p.quote] - s.bal[DustT[app]][p.quote]],
      pnet |-> [k \in {p.id : p \in {x \in s.pools : x.app = app}} |->
                  LET pl == PoolOf(s, app, k) pr == PairOfPool(s, pl) res == ResT[app][k]
                      mine == {r \in nd : r.pool = k} IN
                  [q |-> s2.bal[res][pr.quote] - s.bal[res][pr.quote] - SumF([r \in mine |-> r.ax - r.wx], mine),
                   b |-> s2.bal[res][pr.base] - s.bal[res][pr.base] - SumF([r \in mine |-> r.ay - r.wy], mine)]],
      dis  |-> [k \in {p.id : p \in {x \in s.pools : x.app = app}} |-> IF HasPool(s2, app, k) THEN PoolOf(s2, app, k).disabled ELSE FALSE],
      out  |-> [k \in {RKey(r) : r \in {x \in s.reqs : x.app = app /\ x.status = "N"}} |->
                  ReqOutcome(s2, CHOOSE r \in s.reqs : r.app = app /\ RKey(r) = k)]]

(* matching residue of one pair over one step: what takers received minus what makers paid (amm family's  *)
(* conservation law); recorded by the harness cumulatively in st.xs                                       *)
ResidueB(s, s2, p) ==
  LET e == EnvOf(s, s2, p.app) O == {o \in s.orders : o.app = p.app /\ o.pair = p.id}
      PL == {x \in s.pools : x.app = p.app /\ x.pair = p.id} IN
  SumF([o \in O |-> IF o.dir = "S" THEN -e.fill[OKey(o)].paid ELSE e.fill[OKey(o)].recv], O) + SumF([pl \in PL |-> e.pnet[pl.id].b], PL)
ResidueQ(s, s2, p) ==
  LET e == EnvOf(s, s2, p.app) O == {o \in s.orders : o.app = p.app /\ o.pair = p.id}
      PL == {x \in s.pools : x.app = p.app /\ x.pair = p.id} IN
  SumF([o \in O |-> IF o.dir = "B" THEN -e.fill[OKey(o)].paid ELSE e.fill[OKey(o)].recv], O) + SumF([pl \in PL |-> e.pnet[pl.id].q], PL) + e.dust[p.id]
XsOf(j, app, pair) == LET m == {x \in Range(j.xs) : x.app = app /\ x.pair = pair} IN
                      IF m = {} THEN [xb |-> 0, xq |-> 0] ELSE LET x == CHOOSE y \in m : TRUE IN [xb |-> x.xb, xq |-> x.xq]

(* ---------------------------------------------------------------------------------------------------- *)
(* conformance                                                                                           *)
StEq(a, b) == /\ a.h = b.h /\ a.t = b.t /\ a.bal = b.bal /\ a.pairs = b.pairs /\ a.pools = b.pools /\ a.reqs = b.reqs
              /\ a.orders = b.orders /\ a.qf = b.qf /\ a.af = b.af /\ a.mmx = b.mmx
              /\ a.lastPair = b.lastPair /\ a.lastPool = b.lastPool
Same(r, ok, s2) == r.ok = ok /\ StEq(r.st, s2)

NewTicks(s, s2, a) ==
  IF ~(a.app \in AppIds /\ HasPair(s, a.app, a.pair) /\ HasPair(s2, a.app, a.pair)) THEN <<>>
  ELSE LET lo == PairOf(s, a.app, a.pair).lastOid hi == PairOf(s2, a.app, a.pair).lastOid IN
       IF \A i \in 1..(hi - lo) : HasOrder(s2, a.app, a.pair, lo + i)
       THEN [i \in 1..(hi - lo) |-> LET o == OrderOf(s2, a.app, a.pair, lo + i) IN [dir |-> o.dir, price |-> o.price, amt |-> o.amt]]
       ELSE <<>>
MMMayFail(s, a) ==                                            \* reasons the specification cannot decide without the tick split
  \/ ~MMValid(s, a)
  \/ LET pr == PairOf(s, a.app, a.pair) IN
     \/ s.bal[a.u][pr.base] < a.sellAmt
     \/ s.bal[a.u][pr.quote] < BuyOffer(a.maxBuy, a.buyAmt) + s.par[a.app].maxTicks
     \/ (HasMMX(s, a.app, a.pair, a.u) /\ \E sw \in BOOLEAN : ~CancelMMCore(s, a.app, a.pair, a.u, sw).ok)

NewPoolEnv(s, s2, a) ==
  LET id == s.lastPool[a.app] + 1 IN
  IF a.app \in AppIds /\ HasPool(s2, a.app, id) /\ HasPair(s, a.app, a.pair)
  THEN LET pr == PairOf(s, a.app, a.pair) IN
       [ps |-> PoolOf(s2, a.app, id).ps, ax |-> s2.bal[ResT[a.app][id]][pr.quote], ay |-> s2.bal[ResT[a.app][id]][pr.base]]
  ELSE [ps |-> 1, ax |-> 0, ay |-> 0]
NewReqOutcome(s, s2, a, kind) ==
  IF a.app \in AppIds /\ a.pool # 0 /\ HasPool(s, a.app, a.pool)
  THEN LET pl == PoolOf(s, a.app, a.pool) IN
       ReqOutcome(s2, [kind |-> kind, app |-> a.app, pool |-> a.pool, id |-> (IF kind = "D" THEN pl.lastDep ELSE pl.lastWd) + 1])
  ELSE [status |-> "?", ax |-> 0, ay |-> 0, mint |-> 0, wx |-> 0, wy |-> 0, dis |-> FALSE]

EscrowShort(s, app) == \E p \in s.pairs : p.app = app /\ \E d \in {p.base, p.quote} : s.bal[EscT[p.app][p.id]][d] < OwedOf(s, p, d)
EndCands(s, s2, app) ==                                       \* possible results of one app's end-block unit
  IF ~BatchDue(s, app) THEN {s}
  ELSE LET r == EndApp(s, app, EnvOf(s, s2, app)) IN
       IF r.ok THEN (IF EscrowShort(s, app) THEN {r.st, s} ELSE {r.st}) ELSE {s}

Conf(nd, s, s2) ==
  LET a == nd.args ok == nd.res.ok IN
  CASE nd.a = "Init"        -> TRUE
    [] nd.a = "CreatePair"  -> Same(CreatePair(s, a), ok, s2)
    [] nd.a = "LimitOrder"  -> Same(LimitOrder(s, a), ok, s2)
    [] nd.a = "MarketOrder" -> Same(MarketOrder(s, a), ok, s2)
    [] nd.a = "CancelOrder" -> Same(CancelOrder(s, a), ok, s2)
    [] nd.a = "CancelAll"   -> Same(CancelAll(s, a), ok, s2)
    [] nd.a = "CancelMM"    -> \E sw \in BOOLEAN : Same(CancelMM(s, a, sw), ok, s2)
    [] nd.a = "MMOrder"     -> IF ok THEN \E sw \in BOOLEAN : Same(MMOrder(s, a, NewTicks(s, s2, a), sw), TRUE, s2)
                               ELSE StEq(s, s2) /\ MMMayFail(s, a)
    [] nd.a = "CreatePool"  -> Same(CreatePool(s, a, NewPoolEnv(s, s2, a)), ok, s2)
    [] nd.a = "CreateRangedPool" -> IF ok THEN Same(CreateRangedPool(s, a, NewPoolEnv(s, s2, a)), TRUE, s2) ELSE StEq(s, s2)
    [] nd.a = "Deposit"     -> Same(Deposit(s, a), ok, s2)
    [] nd.a = "Withdraw"    -> Same(Withdraw(s, a, a.pc), ok, s2)
    [] nd.a = "Farm"        -> Same(Farm(s, a, a.amt), ok, s2)
    [] nd.a = "Unfarm"      -> Same(Unfarm(s, a), ok, s2)
    [] nd.a = "DepositAndFarm" -> IF ok THEN Same(DepositAndFarm(s, a, NewReqOutcome(s, s2, a, "D")), TRUE, s2)
                                  ELSE StEq(s, s2)             \* validation, or the amm's outcome (zero shares): environment
    [] nd.a = "UnfarmAndWithdraw" -> IF ok THEN Same(UnfarmAndWithdraw(s, a, NewReqOutcome(s, s2, a, "W")), TRUE, s2)
                                     ELSE StEq(s, s2) /\ (LET r1 == Unfarm(s, a) IN ~r1.ok \/ ~Withdraw(r1.st, a, a.amt).ok)
    [] nd.a = "EndBlock"    -> ok /\ \E s1 \in EndCands(s, s2, 1) : \E s3 \in EndCands(s1, s2, 2) : StEq(s3, s2)
    [] nd.a = "BeginBlock"  -> ok /\ StEq(BeginBlock(s, a.dt), s2)
    [] OTHER -> FALSE

ConfSdk(nd, s2) == LET v == nd.st.inv IN
  \* the SDK's escrow invariants are per app (weaker than C04_GlobalEscrow), its order / pool invariants are the same statements
  /\ (v.dep \/ v.pc => ~C04GlobalEscrow(s2)) /\ (v.rem <=> ~C04PairEscrow(s2)) /\ (v.status <=> ~C04ZeroDisabled(s2))
ConfResidue(nd, pj, s, s2) ==
  IF nd.parent = 0 THEN \A x \in Range(nd.st.xs) : x.xb = 0 /\ x.xq = 0
  ELSE \A p \in s2.pairs :
          LET x1 == XsOf(pj, p.app, p.id) x2 == XsOf(nd.st, p.app, p.id) IN
          IF nd.a = "EndBlock" /\ HasPair(s, p.app, p.id)
          THEN x2.xb - x1.xb = ResidueB(s, s2, p) /\ x2.xq - x1.xq = ResidueQ(s, s2, p)
          ELSE x2 = x1

(* ---------------------------------------------------------------------------------------------------- *)
(* C07 on recorded steps                                                                                 *)
(* the coins a user's orders took / returned in this step are exactly the change of the user's balance   *)
(* (users who also had pool / request activity in the step are judged by Conf only)                      *)
LedgerUsers(nd, s, s2) == {u \in Users : ~ReqTouched(s, s2, u) /\ ~PoolAct(nd.a, nd.args, u)}
C07Ledger(nd, s, s2) ==
  \A u \in LedgerUsers(nd, s, s2) : \A d \in {"uaa", "ubb", "ucc"} :
     s2.bal[u][d] - s.bal[u][d] = C07OwnerFlow(s, s2, u, d)
(* "not in its placement batch" by the harness's OWN clock (st.og): at least one end-of-block with a due batch of the *)
(* order's app has run since the order was placed - not by the module's batch counter, which stands still when a     *)
(* whole batch is rolled back                                                                                        *)
EbOf(j, o) == LET m == {x \in Range(j.og) : x.app = o.app /\ x.pair = o.pair /\ x.id = o.id} IN
              IF m = {} THEN 0 ELSE (CHOOSE x \in m : TRUE).eb
CancelAnte(nd, pj, s) == LET a == nd.args IN
  /\ nd.a = "CancelOrder" /\ a.app \in AppIds /\ HasOrder(s, a.app, a.pair, a.id)
  /\ LET o == OrderOf(s, a.app, a.pair, a.id) IN Live(o) /\ o.owner = a.u /\ EbOf(pj, o) >= 1
C07Cancellable(nd, pj, s, s2) == CancelAnte(nd, pj, s) =>
  LET a == nd.args IN nd.res.ok /\ HasOrder(s2, a.app, a.pair, a.id) /\ OrderOf(s2, a.app, a.pair, a.id).status = "X"
EarlierMM(nd, s) == LET a == nd.args IN
  IF nd.a \in {"CancelMM", "MMOrder"} /\ nd.res.ok
  THEN {o \in s.orders : o.app = a.app /\ o.pair = a.pair /\ o.owner = a.u /\ o.typ = "MM" /\ Live(o)} ELSE {}
C07MMReplace(nd, s, s2) ==
  \A o \in EarlierMM(nd, s) : HasOrder(s2, o.app, o.pair, o.id) /\ OrderOf(s2, o.app, o.pair, o.id).status = "X"
CancelAllTargetsG(pj, s, a) == {o \in s.orders : /\ o.app = a.app /\ o.owner = a.u /\ Live(o)
                                                 /\ (a.pairs = <<>> \/ o.pair \in Range(a.pairs)) /\ EbOf(pj, o) >= 1}
C07CancelAll(nd, pj, s, s2) == nd.a = "CancelAll" /\ nd.res.ok =>
  \A o \in CancelAllTargetsG(pj, s, nd.args) : HasOrder(s2, o.app, o.pair, o.id) /\ OrderOf(s2, o.app, o.pair, o.id).status = "X"
(* the escrow covers every live claim once the recorded matching residue (amm family) is accounted for: *)
(* any OTHER leak out of a pair escrow violates this even in runs that hit the known non-conserving match *)
C07CoversNet(nd, s2) ==
  \A p \in s2.pairs : LET x == XsOf(nd.st, p.app, p.id) e == EscT[p.app][p.id] IN
     s2.bal[e][p.base] + x.xb >= OwedOf(s2, p, p.base) /\ s2.bal[e][p.quote] + x.xq >= OwedOf(s2, p, p.quote)

Formulas == <<"Conf_Step", "Conf_SdkAgree", "Conf_Residue",
              "C04_GlobalEscrow", "C04_PairEscrow", "C04_FarmBacked", "C04_ZeroSupplyDisabled", "C04_SupplyOnlyByPoolOps",
              "C07_OwnerLedger", "C07_Cancellable", "C07_CancelAll", "C07_MMReplace", "C07_EscrowCovers", "C07_EscrowCoversNet", "C07_NothingRemains">>
Holds(f, nd, pj, s, s2) ==
  LET step == nd.parent > 0 IN
  CASE f = "Conf_Step" -> (step => Conf(nd, s, s2))
    [] f = "Conf_SdkAgree" -> ConfSdk(nd, s2)
    [] f = "Conf_Residue" -> ConfResidue(nd, pj, s, s2)
    [] f = "C04_GlobalEscrow" -> C04GlobalEscrow(s2)
    [] f = "C04_PairEscrow" -> C04PairEscrow(s2)
    [] f = "C04_FarmBacked" -> C04FarmBacked(s2)
    [] f = "C04_ZeroSupplyDisabled" -> C04ZeroDisabled(s2)
    [] f = "C04_SupplyOnlyByPoolOps" -> (step => C04SupplyStep(s, s2))
    [] f = "C07_OwnerLedger" -> (step => C07Ledger(nd, s, s2))
    [] f = "C07_Cancellable" -> (step => C07Cancellable(nd, pj, s, s2))
    [] f = "C07_CancelAll" -> (step => C07CancelAll(nd, pj, s, s2))
    [] f = "C07_MMReplace" -> (step => C07MMReplace(nd, s, s2))
    [] f = "C07_EscrowCovers" -> C07EscrowCovers(s2)
    [] f = "C07_EscrowCoversNet" -> C07CoversNet(nd, s2)
    [] f = "C07_NothingRemains" -> C07NothingRemains(s2)

(* The judge never stops TLC: every failing (formula, node) is printed and collected by bin/check. *)
Judge == cur > 0 =>
  LET nd == Nd(cur) pj == PreJ(cur) s == Pre(cur) s2 == Post(cur) IN
  \A k \in 1..Len(Formulas) : Holds(Formulas[k], nd, pj, s, s2) \/ PrintT(<<"FAIL", Formulas[k], cur>>)

(* antecedent counters (vacuity control): one record of flags per node, computed once *)
Was(s, o) == \E q \in s.orders : q.app = o.app /\ q.pair = o.pair /\ q.id = o.id /\ Live(q)
IndexHole(s, a) == LET ids == MMXOf(s, a.app, a.pair, a.u).ids IN
  \E i \in DOMAIN ids : \E j \in DOMAIN ids : i < j /\ ~HasOrder(s, a.app, a.pair, ids[i])
                           /\ HasOrder(s, a.app, a.pair, ids[j]) /\ Live(OrderOf(s, a.app, a.pair, ids[j]))
Flags(i) ==
  LET nd == Nd(i) s == Pre(i) s2 == Post(i) pj == PreJ(i) step == nd.parent > 0 IN
  [ step |-> step, ok |-> step /\ nd.res.ok,
    placed |-> step /\ nd.a \in {"LimitOrder", "MarketOrder", "MMOrder"} /\ nd.res.ok,
    marketPlaced |-> step /\ nd.a = "MarketOrder" /\ nd.res.ok,
    marketBoundary |-> step /\ nd.a = "MarketOrder" /\ nd.res.ok /\ \E o \in s2.orders \ s.orders :
                          o.typ = "M" /\ o.dir = "B" /\ (o.price * o.amt) % PS # 0 /\ Fee(s2.par[o.app], o.offer) > Fee(s2.par[o.app], o.offer - 1),
    feeStepPlaced |-> step /\ nd.a \in {"LimitOrder", "MarketOrder"} /\ nd.res.ok /\ \E o \in s2.orders \ s.orders :
                          Fee(s2.par[o.app], o.offer) > Fee(s2.par[o.app], o.offer - 1),
    roundedUpPlaced |-> step /\ nd.a \in {"LimitOrder", "MarketOrder", "MMOrder"} /\ nd.res.ok /\ \E o \in s2.orders \ s.orders :
                          o.dir = "B" /\ (o.price * o.amt) % PS # 0,
    marketPartialEnd |-> step /\ \E o \in s2.orders : o.typ = "M" /\ ~Live(o) /\ o.rem > 0 /\ o.rem < o.offer /\ Was(s, o),
    cancel |-> step /\ CancelAnte(nd, pj, s),
    foreignCoin |-> step /\ nd.a \in {"LimitOrder", "MarketOrder"} /\ "od" \in DOMAIN nd.args /\ HasPair(s, nd.args.app, nd.args.pair)
                       /\ ~CoinsOfPair(nd.args, PairOf(s, nd.args.app, nd.args.pair))
                       /\ \E v \in LiveOf(s, PairOf(s, nd.args.app, nd.args.pair)) : v.owner # nd.args.u /\ v.dir = nd.args.dir,
    foreignOfferOnly |-> step /\ nd.a \in {"LimitOrder", "MarketOrder"} /\ "od" \in DOMAIN nd.args /\ HasPair(s, nd.args.app, nd.args.pair)
                       /\ LET pr == PairOf(s, nd.args.app, nd.args.pair) IN
                          nd.args.od \notin {pr.base, pr.quote} /\ nd.args.dd = (IF nd.args.dir = "B" THEN pr.base ELSE pr.quote)
                          /\ \E v \in LiveOf(s, pr) : v.owner # nd.args.u /\ v.dir = nd.args.dir,
    demandExceedsRest |-> step /\ nd.a = "EndBlock" /\ \E o \in s.orders : o.dir = "S" /\ o.status = "PM" /\ HasOrder(s2, o.app, o.pair, o.id)
                       /\ OrderOf(s2, o.app, o.pair, o.id).status = "C"
                       /\ \E b \in s2.orders : b.app = o.app /\ b.pair = o.pair /\ b.dir = "B" /\ Live(b) /\ HasOrder(s, b.app, b.pair, b.id)
                                               /\ OrderOf(s, b.app, b.pair, b.id).recv < b.recv,
    lowPriceFill |-> step /\ nd.a = "EndBlock" /\ \E p \in s2.pairs : p.lp > 0 /\ p.lp < 5000 /\ HasPair(s, p.app, p.id) /\ PairOf(s, p.app, p.id).lp > 0
                       /\ PairOf(s, p.app, p.id).lp < p.lp
                       /\ \E o \in s2.orders : o.app = p.app /\ o.pair = p.id /\ HasOrder(s, o.app, o.pair, o.id) /\ OrderOf(s, o.app, o.pair, o.id).recv < o.recv,
    cancelAll |-> step /\ nd.a = "CancelAll" /\ nd.res.ok /\ CancelAllTargetsG(pj, s, nd.args) # {},
    cancelAllMixed |-> step /\ nd.a = "CancelAll" /\ nd.res.ok /\ \E o \in CancelAllTargetsG(pj, s, nd.args) :
                          \E f \in s.orders : f.app = o.app /\ f.owner = o.owner /\ Live(f) /\ f.pair < o.pair /\ f.batch = PairOf(s, f.app, f.pair).batch
                                                /\ (nd.args.pairs = <<>> \/ f.pair \in Range(nd.args.pairs)),
    mmImproved |-> step /\ nd.a = "EndBlock" /\ \E o \in s2.orders : o.typ = "MM" /\ o.status = "C" /\ o.rem > 0 /\ Was(s, o)
                          /\ \E x \in s2.orders : x.app = o.app /\ x.pair = o.pair /\ x.dir = o.dir /\ Live(x),
    mmIndexHole |-> step /\ EarlierMM(nd, s) # {} /\ HasMMX(s, nd.args.app, nd.args.pair, nd.args.u) /\ IndexHole(s, nd.args),
    mm |-> step /\ EarlierMM(nd, s) # {},
    mmDiff |-> step /\ EarlierMM(nd, s) # {} /\ nd.args.app # nd.args.pair,
    mmPartial |-> step /\ EarlierMM(nd, s) # {} /\ nd.args.app = nd.args.pair /\ \E o \in EarlierMM(nd, s) : o.status = "PM",
    completed |-> step /\ \E o \in s2.orders : o.status = "C" /\ Was(s, o),
    expired |-> step /\ \E o \in s2.orders : o.status = "E" /\ Was(s, o),
    canceled |-> step /\ \E o \in s2.orders : o.status = "X" /\ Was(s, o),
    partialEnd |-> step /\ \E o \in s2.orders : ~Live(o) /\ o.rem > 0 /\ o.rem < o.offer /\ o.typ # "MM" /\ Was(s, o),
    filled |-> step /\ nd.a = "EndBlock" /\ \E o \in s2.orders : \E q \in s.orders : q.app = o.app /\ q.pair = o.pair /\ q.id = o.id /\ q.recv < o.recv,
    emptied |-> step /\ \E p \in s2.pairs : LiveOf(s2, p) = {} /\ HasPair(s, p.app, p.id) /\ LiveOf(s, p) # {},
    farmed |-> \E pl \in s2.pools : Farmed(s2, pl) > 0,
    activeFarm |-> s2.af # {},
    farmStaggered |-> step /\ nd.a = "EndBlock" /\ \E q \in s.qf : \E q2 \in s2.qf : q2.app = q.app /\ q2.pool = q.pool /\ q2.owner = q.owner /\ Len(q2.q) < Len(q.q)
                         /\ \E o \in s2.qf : o.app = q.app /\ o.pool = q.pool /\ o.owner # q.owner /\ o.q # <<>>,
    activeZeroedDiff |-> step /\ nd.a \in {"Unfarm", "UnfarmAndWithdraw"} /\ nd.res.ok /\ nd.args.pool # nd.args.app
                         /\ \E r \in s.af : r.owner = nd.args.u /\ r.pool = nd.args.pool /\ r.app = nd.args.app
                                              /\ ~\E r2 \in s2.af : r2.owner = r.owner /\ r2.pool = r.pool /\ r2.app = r.app,
    farmTopUp |-> step /\ nd.a = "EndBlock" /\ \E r \in s.af : \E r2 \in s2.af : r2.app = r.app /\ r2.pool = r.pool /\ r2.owner = r.owner /\ r2.amt > r.amt,
    farmTopUpDiff |-> step /\ nd.a = "EndBlock" /\ \E r \in s.af : \E r2 \in s2.af : r2.app = r.app /\ r2.pool = r.pool /\ r2.owner = r.owner /\ r2.amt > r.amt
                         /\ PoolOf(s2, r.app, r.pool).pair # r.pool,
    supply |-> step /\ \E pl \in s2.pools : HasPool(s, pl.app, pl.id) /\ PoolOf(s, pl.app, pl.id).ps # pl.ps,
    pending |-> Pending(s2) # {},
    disabled |-> \E pl \in s2.pools : pl.disabled,
    zeroSupply |-> \E pl \in s2.pools : pl.ps = 0,
    activeUnfarm |-> step /\ nd.a \in {"Unfarm", "UnfarmAndWithdraw"} /\ nd.res.ok /\ \E r \in s.af : r \notin s2.af,
    ledger |-> step /\ \E u \in LedgerUsers(nd, s, s2) : \E d \in {"uaa", "ubb", "ucc"} : C07OwnerFlow(s, s2, u, d) # 0,
    residue |-> nd.st.tainted ]
(* ---- vacuity counters defined on the PRE-state and the REQUEST only (what was asked of the code, not what the  *)
(* code made of it): these are the ones a green result requires; the outcome counters of Flags are informational  *)
BookOf(s, p) == {o \in LiveOf(s, p) : InBook(s, o)}
ReqPrice(s, nd) == LET a == nd.args par == s.par[a.app] pr == PairOf(s, a.app, a.pair) IN
  IF nd.a = "LimitOrder" THEN (IF a.dir = "B" THEN TickDown(a.price, par.prec) ELSE TickUp(a.price, par.prec))
  ELSE (IF a.dir = "B" THEN LimHi(pr.lp, par.prec) ELSE LimLo(pr.lp, par.prec))
OrderReq(s, nd) == nd.a \in {"LimitOrder", "MarketOrder"} /\ nd.args.app \in AppIds /\ HasPair(s, nd.args.app, nd.args.pair)
                   /\ (nd.a = "LimitOrder" => nd.args.price > 0) /\ (nd.a = "MarketOrder" => PairOf(s, nd.args.app, nd.args.pair).lp > 0)
PartialLive(o) == Live(o) /\ o.rem > 0 /\ o.rem < o.offer /\ o.typ # "MM"
EndedByReq(nd, pj, s, o) ==                                   \* the request / the due batch is to end order o
  \/ nd.a = "CancelOrder" /\ nd.args.app = o.app /\ nd.args.pair = o.pair /\ nd.args.id = o.id /\ nd.args.u = o.owner /\ EbOf(pj, o) >= 1
  \/ nd.a = "CancelAll" /\ o \in CancelAllTargetsG(pj, s, nd.args)
  \/ nd.a = "EndBlock" /\ BatchDue(s, o.app) /\ o.exp <= s.t
MMReq(nd, pj, s) == IF nd.a \in {"CancelMM", "MMOrder"} /\ nd.args.app \in AppIds /\ HasPair(s, nd.args.app, nd.args.pair)
                    THEN {o \in s.orders : o.app = nd.args.app /\ o.pair = nd.args.pair /\ o.owner = nd.args.u /\ o.typ = "MM" /\ Live(o) /\ EbOf(pj, o) >= 1}
                    ELSE {}
FarmReq(s, nd) == nd.a \in {"Unfarm", "UnfarmAndWithdraw"} /\ nd.args.app \in AppIds /\ nd.args.pool # 0 /\ HasPool(s, nd.args.app, nd.args.pool)
                  /\ HasQF(s, nd.args.app, nd.args.pool, nd.args.u) /\ HasAF(s, nd.args.app, nd.args.pool, nd.args.u)
ReqFlags(i) ==
  LET nd == Nd(i) s == Pre(i) pj == PreJ(i) step == nd.parent > 0 a == nd.args isEnd == nd.a = "EndBlock" IN
  [ rqOrder |-> step /\ (OrderReq(s, nd) \/ (nd.a = "MMOrder" /\ a.app \in AppIds /\ HasPair(s, a.app, a.pair))),
    rqMarket |-> step /\ nd.a = "MarketOrder" /\ OrderReq(s, nd),
    rqMarketBoundary |-> step /\ nd.a = "MarketOrder" /\ OrderReq(s, nd) /\ a.dir = "B" /\
                         LET P == ReqPrice(s, nd) off == BuyOffer(ReqPrice(s, nd), a.amt) IN
                         (P * a.amt) % PS # 0 /\ Fee(s.par[a.app], off) > Fee(s.par[a.app], off - 1),
    rqFeeStep |-> step /\ OrderReq(s, nd) /\ LET off == OfferFor(a.dir, ReqPrice(s, nd), a.amt) IN Fee(s.par[a.app], off) > Fee(s.par[a.app], off - 1),
    rqRoundedUp |-> step /\ OrderReq(s, nd) /\ a.dir = "B" /\ (ReqPrice(s, nd) * a.amt) % PS # 0,
    rqPartialEnd |-> step /\ \E o \in s.orders : PartialLive(o) /\ EndedByReq(nd, pj, s, o),
    rqMarketPartialEnd |-> step /\ \E o \in s.orders : PartialLive(o) /\ o.typ = "M" /\ EndedByReq(nd, pj, s, o),
    rqExpiryDue |-> step /\ isEnd /\ \E o \in s.orders : Live(o) /\ o.exp <= s.t /\ BatchDue(s, o.app),
    rqCrossing |-> step /\ isEnd /\ \E p \in s.pairs : BatchDue(s, p.app) /\ \E b \in BookOf(s, p) : \E sl \in BookOf(s, p) :
                         b.dir = "B" /\ sl.dir = "S" /\ b.price >= sl.price,
    rqCancelAll |-> step /\ nd.a = "CancelAll" /\ a.app \in AppIds /\ (\A k \in Range(a.pairs) : HasPair(s, a.app, k)) /\ CancelAllTargetsG(pj, s, a) # {},
    rqCancelAllMixed |-> step /\ nd.a = "CancelAll" /\ a.app \in AppIds /\ (\A k \in Range(a.pairs) : HasPair(s, a.app, k)) /\
                         \E o \in CancelAllTargetsG(pj, s, a) : \E f \in s.orders :
                            f.app = o.app /\ f.owner = o.owner /\ Live(f) /\ f.pair < o.pair /\ EbOf(pj, f) = 0 /\ (a.pairs = <<>> \/ f.pair \in Range(a.pairs)),
    rqMM |-> step /\ MMReq(nd, pj, s) # {},
    rqMMDiff |-> step /\ MMReq(nd, pj, s) # {} /\ a.app # a.pair,
    rqMMPartial |-> step /\ MMReq(nd, pj, s) # {} /\ a.app = a.pair /\ \E o \in MMReq(nd, pj, s) : o.status = "PM",
    rqMMIndexHole |-> step /\ MMReq(nd, pj, s) # {} /\ HasMMX(s, a.app, a.pair, a.u) /\ IndexHole(s, a),
    rqMMImproved |-> step /\ isEnd /\ \E p \in s.pairs : BatchDue(s, p.app) /\ p.lp > 0 /\ \E b \in BookOf(s, p) : \E sl \in BookOf(s, p) :
                         b.typ = "MM" /\ b.dir = "B" /\ b.price > p.lp /\ sl.dir = "S" /\ sl.price <= p.lp /\ sl.open >= b.open
                         /\ \E x \in LiveOf(s, p) : x.dir = "B" /\ x # b,
    rqDemandExceedsRest |-> step /\ isEnd /\ \E p \in s.pairs : BatchDue(s, p.app) /\ \E o \in BookOf(s, p) : \E b \in BookOf(s, p) :
                         o.dir = "S" /\ o.status = "PM" /\ b.dir = "B" /\ b.price >= o.price /\ b.open > o.open /\ b.open <= o.amt,
    rqLowResidual |-> step /\ isEnd /\ \E p \in s.pairs : BatchDue(s, p.app) /\ p.lp > 0 /\ p.lp < 5000 /\
                         \E s1 \in BookOf(s, p) : \E s3 \in BookOf(s, p) : \E b \in BookOf(s, p) :
                            s1.dir = "S" /\ s3.dir = "S" /\ s1.price = s3.price /\ s1.price > p.lp /\ s1.batch # s3.batch
                            /\ b.dir = "B" /\ b.price >= s1.price /\ b.open > s1.open /\ (b.open - s1.open) * s1.price < PS,
    rqFarmStaggered |-> step /\ isEnd /\ \E q \in s.qf : BatchDue(s, q.app) /\ AnyRipe(s, q.q)
                         /\ \E o \in s.qf : o.app = q.app /\ o.pool = q.pool /\ o.owner # q.owner /\ \E k \in DOMAIN o.q : ~Mature(s, o.q[k]),
    rqFarmTopUp |-> step /\ isEnd /\ \E q \in s.qf : BatchDue(s, q.app) /\ AnyRipe(s, q.q) /\ HasAF(s, q.app, q.pool, q.owner),
    rqFarmTopUpDiff |-> step /\ isEnd /\ \E q \in s.qf : BatchDue(s, q.app) /\ AnyRipe(s, q.q) /\ HasAF(s, q.app, q.pool, q.owner)
                         /\ PoolOf(s, q.app, q.pool).pair # q.pool,
    rqActiveUnfarm |-> step /\ FarmReq(s, nd) /\ LET qs == SumQ(QFOf(s, a.app, a.pool, a.u).q) act == AFOf(s, a.app, a.pool, a.u).amt IN
                         a.amt > qs /\ a.amt <= qs + act,
    rqActiveZeroedDiff |-> step /\ FarmReq(s, nd) /\ a.pool # a.app /\
                         LET qs == SumQ(QFOf(s, a.app, a.pool, a.u).q) act == AFOf(s, a.app, a.pool, a.u).amt IN act > 0 /\ a.amt = qs + act,
    rqWholeSupply |-> step /\ ((isEnd /\ \E r \in Pending(s) : (r.kind = "W" /\ BatchDue(s, r.app) /\ ~PoolOf(s, r.app, r.pool).disabled
                                                                   /\ r.pc = PoolOf(s, r.app, r.pool).ps))
                                \/ (nd.a = "UnfarmAndWithdraw" /\ a.app \in AppIds /\ HasPool(s, a.app, a.pool) /\ a.amt = PoolOf(s, a.app, a.pool).ps)),
    rqReqExec |-> step /\ isEnd /\ \E r \in Pending(s) : BatchDue(s, r.app) ]
FL == [i \in 1..NLog |-> Flags(i) @@ ReqFlags(i)]
Cnt(f) == Cardinality({i \in 1..NLog : FL[i][f]})
Stats == PrintT(<<"STATS", [k \in DOMAIN FL[1] |-> Cnt(k)] @@ [nodes |-> NLog]>>)
AllSeen == Stats /\ TLCGet("stats").distinct = NLog + NB + 1
=============================================================================
