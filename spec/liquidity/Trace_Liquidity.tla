--------------------------- MODULE Trace_Liquidity ---------------------------
(* Validation of executions of the REAL x/liquidity module (recorded by `vh liquidity`) against Liquidity.tla. *)
(* Every log node is one TLC state.  The state of the real code after the step is nd.st, the state before   *)
(* it is the parent's st.                                                                                    *)
(*   C04_* , C07_*  : the properties, evaluated on the recorded states / steps                               *)
(*   Conf_*         : the recorded step is the step the specification takes (environment choices - matching *)
(*                    fills, pool share arithmetic, MM tick split - are read off the recorded post-state and *)
(*                    must be admissible)                                                                    *)
EXTENDS Liquidity, TLC, Json
CONSTANT LogFile
Log  == ndJsonDeserialize(LogFile)
NLog == Len(Log)

VARIABLE cur
Init == cur \in 1..NLog
Next == UNCHANGED cur
Spec == Init /\ [][Next]_cur

S(j) == [h |-> j.h, t |-> j.t, bal |-> Dense(j.bal), pairs |-> Range(j.pairs), pools |-> Range(j.pools),
         reqs |-> Range(j.reqs), orders |-> Range(j.orders), qf |-> Range(j.qf), af |-> Range(j.af),
         mmx |-> Range(j.mmx), lastPair |-> j.lastPair, lastPool |-> j.lastPool, par |-> j.par]
Nd(i)   == Log[i]
IsStep(i) == Nd(i).parent > 0
Post(i) == S(Nd(i).st)
Pre(i)  == S(Log[Nd(i).parent].st)

(* ---------------------------------------------------------------------------------------------------- *)
(* environment choices read off the recorded step                                                        *)
ReqOutcome(s2, r) ==                                          \* r: request of the pre-state (or the one just created)
  LET m == {q \in s2.reqs : q.kind = r.kind /\ q.app = r.app /\ q.pool = r.pool /\ q.id = r.id}
      q == CHOOSE x \in m : TRUE
      pl == PoolOf(s2, r.app, r.pool)
  IN IF m = {} THEN [status |-> "?", ax |-> 0, ay |-> 0, mint |-> 0, wx |-> 0, wy |-> 0, dis |-> FALSE]
     ELSE [status |-> q.status, ax |-> q.ax, ay |-> q.ay, mint |-> q.mint, wx |-> q.wx, wy |-> q.wy, dis |-> pl.disabled]

NowDone(s, s2, app) == {r \in s2.reqs : r.app = app /\ r.status = "S" /\ \E q \in s.reqs : RKey(q) = RKey(r) /\ q.app = app /\ q.status = "N"}
EnvOf(s, s2, app) ==
  LET O  == {o \in s.orders : o.app = app}
      nd == NowDone(s, s2, app)
  IN [fill |-> [k \in {OKey(o) : o \in O} |->
                  LET o1 == OrderOf(s, app, k[1], k[2]) IN
                  IF HasOrder(s2, app, k[1], k[2])
                  THEN LET o2 == OrderOf(s2, app, k[1], k[2]) IN [paid |-> o1.rem - o2.rem, recv |-> o2.recv - o1.recv, m |-> o1.open - o2.open]
                  ELSE [paid |-> -1, recv |-> 0, m |-> 0]],
      lp   |-> [k \in {p.id : p \in {x \in s.pairs : x.app = app}} |-> IF HasPair(s2, app, k) THEN PairOf(s2, app, k).lp ELSE 0],
      dust |-> [k \in {p.id : p \in {x \in s.pairs : x.app = app}} |->
                  LET p == PairOf(s, app, k) IN s2.bal[DustT[app]][p.quote] - s.bal[DustT[app]][p.quote]],
      pnet |-> [k \in {p.id : p \in {x \in s.pools : x.app = app}} |->
                  LET pl == PoolOf(s, app, k) pr == PairOfPool(s, pl) res == ResT[app][k]
                      mine == {r \in nd : r.pool = k} IN
                  [q |-> s2.bal[res][pr.quote] - s.bal[res][pr.quote] - SumF([r \in mine |-> r.ax - r.wx], mine),
                   b |-> s2.bal[res][pr.base] - s.bal[res][pr.base] - SumF([r \in mine |-> r.ay - r.wy], mine)]],
      dis  |-> [k \in {p.id : p \in {x \in s.pools : x.app = app}} |-> IF HasPool(s2, app, k) THEN PoolOf(s2, app, k).disabled ELSE FALSE],
      out  |-> [k \in {RKey(r) : r \in {x \in s.reqs : x.app = app /\ x.status = "N"}} |->
                  ReqOutcome(s2, CHOOSE r \in s.reqs : r.app = app /\ RKey(r) = k)]]

(* matching residue of one pair over one step: what takers received minus what makers paid (amm family's  *)
(* conservation law); recorded by the harness cumulatively in st.xs                                       *)
ResidueB(s, s2, p) ==
  LET e == EnvOf(s, s2, p.app) O == {o \in s.orders : o.app = p.app /\ o.pair = p.id}
      PL == {x \in s.pools : x.app = p.app /\ x.pair = p.id} IN
  SumF([o \in O |-> IF o.dir = "S" THEN -e.fill[OKey(o)].paid ELSE e.fill[OKey(o)].recv], O) + SumF([pl \in PL |-> e.pnet[pl.id].b], PL)
ResidueQ(s, s2, p) ==
  LET e == EnvOf(s, s2, p.app) O == {o \in s.orders : o.app = p.app /\ o.pair = p.id}
      PL == {x \in s.pools : x.app = p.app /\ x.pair = p.id} IN
  SumF([o \in O |-> IF o.dir = "B" THEN -e.fill[OKey(o)].paid ELSE e.fill[OKey(o)].recv], O) + SumF([pl \in PL |-> e.pnet[pl.id].q], PL) + e.dust[p.id]
XsOf(j, app, pair) == LET m == {x \in Range(j.xs) : x.app = app /\ x.pair = pair} IN
                      IF m = {} THEN [xb |-> 0, xq |-> 0] ELSE LET x == CHOOSE y \in m : TRUE IN [xb |-> x.xb, xq |-> x.xq]

(* ---------------------------------------------------------------------------------------------------- *)
(* conformance                                                                                           *)
StEq(a, b) == /\ a.h = b.h /\ a.t = b.t /\ a.bal = b.bal /\ a.pairs = b.pairs /\ a.pools = b.pools /\ a.reqs = b.reqs
              /\ a.orders = b.orders /\ a.qf = b.qf /\ a.af = b.af /\ a.mmx = b.mmx
              /\ a.lastPair = b.lastPair /\ a.lastPool = b.lastPool
Same(r, ok, s2) == r.ok = ok /\ StEq(r.st, s2)

NewTicks(s, s2, a) ==
  IF ~(a.app \in AppIds /\ HasPair(s, a.app, a.pair) /\ HasPair(s2, a.app, a.pair)) THEN <<>>
  ELSE LET lo == PairOf(s, a.app, a.pair).lastOid hi == PairOf(s2, a.app, a.pair).lastOid IN
       IF \A i \in 1..(hi - lo) : HasOrder(s2, a.app, a.pair, lo + i)
       THEN [i \in 1..(hi - lo) |-> LET o == OrderOf(s2, a.app, a.pair, lo + i) IN [dir |-> o.dir, price |-> o.price, amt |-> o.amt]]
       ELSE <<>>
MMMayFail(s, a) ==                                            \* reasons the specification cannot decide without the tick split
  \/ ~MMValid(s, a)
  \/ LET pr == PairOf(s, a.app, a.pair) IN
     \/ s.bal[a.u][pr.base] < a.sellAmt
     \/ s.bal[a.u][pr.quote] < BuyOffer(a.maxBuy, a.buyAmt) + s.par[a.app].maxTicks
     \/ (HasMMX(s, a.app, a.pair, a.u) /\ \E sw \in BOOLEAN : ~CancelMMCore(s, a.app, a.pair, a.u, sw).ok)

NewPoolEnv(s, s2, a) ==
  LET id == s.lastPool[a.app] + 1 IN
  IF a.app \in AppIds /\ HasPool(s2, a.app, id) /\ HasPair(s, a.app, a.pair)
  THEN LET pr == PairOf(s, a.app, a.pair) IN
       [ps |-> PoolOf(s2, a.app, id).ps, ax |-> s2.bal[ResT[a.app][id]][pr.quote], ay |-> s2.bal[ResT[a.app][id]][pr.base]]
  ELSE [ps |-> 1, ax |-> 0, ay |-> 0]
NewReqOutcome(s, s2, a, kind) ==
  IF a.app \in AppIds /\ a.pool # 0 /\ HasPool(s, a.app, a.pool)
  THEN LET pl == PoolOf(s, a.app, a.pool) IN
       ReqOutcome(s2, [kind |-> kind, app |-> a.app, pool |-> a.pool, id |-> (IF kind = "D" THEN pl.lastDep ELSE pl.lastWd) + 1])
  ELSE [status |-> "?", ax |-> 0, ay |-> 0, mint |-> 0, wx |-> 0, wy |-> 0, dis |-> FALSE]

EscrowShort(s, app) == \E p \in s.pairs : p.app = app /\ \E d \in {p.base, p.quote} : s.bal[EscT[p.app][p.id]][d] < OwedOf(s, p, d)
EndCands(s, s2, app) ==                                       \* possible results of one app's end-block unit
  IF ~BatchDue(s, app) THEN {s}
  ELSE LET r == EndApp(s, app, EnvOf(s, s2, app)) IN
       IF r.ok THEN (IF EscrowShort(s, app) THEN {r.st, s} ELSE {r.st}) ELSE {s}

Conf(i) ==
  LET nd == Nd(i) a == nd.args ok == nd.res.ok s == Pre(i) s2 == Post(i) IN
  CASE nd.a = "Init"        -> TRUE
    [] nd.a = "CreatePair"  -> Same(CreatePair(s, a), ok, s2)
    [] nd.a = "LimitOrder"  -> Same(LimitOrder(s, a), ok, s2)
    [] nd.a = "MarketOrder" -> Same(MarketOrder(s, a), ok, s2)
    [] nd.a = "CancelOrder" -> Same(CancelOrder(s, a), ok, s2)
    [] nd.a = "CancelAll"   -> Same(CancelAll(s, a), ok, s2)
    [] nd.a = "CancelMM"    -> \E sw \in BOOLEAN : Same(CancelMM(s, a, sw), ok, s2)
    [] nd.a = "MMOrder"     -> IF ok THEN \E sw \in BOOLEAN : Same(MMOrder(s, a, NewTicks(s, s2, a), sw), TRUE, s2)
                               ELSE StEq(s, s2) /\ MMMayFail(s, a)
    [] nd.a = "CreatePool"  -> Same(CreatePool(s, a, NewPoolEnv(s, s2, a)), ok, s2)
    [] nd.a = "CreateRangedPool" -> IF ok THEN Same(CreateRangedPool(s, a, NewPoolEnv(s, s2, a)), TRUE, s2) ELSE StEq(s, s2)
    [] nd.a = "Deposit"     -> Same(Deposit(s, a), ok, s2)
    [] nd.a = "Withdraw"    -> Same(Withdraw(s, a, a.pc), ok, s2)
    [] nd.a = "Farm"        -> Same(Farm(s, a, a.amt), ok, s2)
    [] nd.a = "Unfarm"      -> Same(Unfarm(s, a), ok, s2)
    [] nd.a = "DepositAndFarm" -> IF ok THEN Same(DepositAndFarm(s, a, NewReqOutcome(s, s2, a, "D")), TRUE, s2)
                                  ELSE StEq(s, s2)             \* validation, or the amm's outcome (zero shares): environment
    [] nd.a = "UnfarmAndWithdraw" -> IF ok THEN Same(UnfarmAndWithdraw(s, a, NewReqOutcome(s, s2, a, "W")), TRUE, s2)
                                     ELSE StEq(s, s2) /\ (LET r1 == Unfarm(s, a) IN ~r1.ok \/ ~Withdraw(r1.st, a, a.amt).ok)
    [] nd.a = "EndBlock"    -> ok /\ \E s1 \in EndCands(s, s2, 1) : \E s3 \in EndCands(s1, s2, 2) : StEq(s3, s2)
    [] nd.a = "BeginBlock"  -> ok /\ StEq(BeginBlock(s, a.dt), s2)
    [] OTHER -> FALSE

ConfSdk(i) == LET s2 == Post(i) v == Nd(i).st.inv IN
  /\ (v.dep \/ v.pc => ~C04GlobalEscrow(s2)) /\ (v.rem => ~C04PairEscrow(s2)) /\ (v.status => ~C04ZeroDisabled(s2))
ConfResidue(i) == LET nd == Nd(i) IN
  IF ~IsStep(i) THEN \A x \in Range(nd.st.xs) : x.xb = 0 /\ x.xq = 0
  ELSE LET s == Pre(i) s2 == Post(i) pj == Log[nd.parent].st IN
       \A p \in s2.pairs :
          LET x1 == XsOf(pj, p.app, p.id) x2 == XsOf(nd.st, p.app, p.id) IN
          IF nd.a = "EndBlock" /\ HasPair(s, p.app, p.id)
          THEN x2.xb - x1.xb = ResidueB(s, s2, p) /\ x2.xq - x1.xq = ResidueQ(s, s2, p)
          ELSE x2 = x1

(* ---------------------------------------------------------------------------------------------------- *)
(* C04                                                                                                   *)
C04Supply(i) == IsStep(i) => C04SupplyStep(Pre(i), Post(i))

(* C07                                                                                                   *)
(* the coins a user's orders took / returned in this step are exactly the change of the user's balance   *)
(* (users who also had pool / request activity in the step are judged by Conf only)                      *)
ReqTouched(s, s2, u) == \E r \in s2.reqs : r.owner = u /\ r \notin s.reqs
PoolMsg(nd, u) == nd.a \in {"CreatePool", "CreateRangedPool", "DepositAndFarm", "UnfarmAndWithdraw", "Deposit"} /\ nd.args.u = u
LedgerUsers(i) == LET nd == Nd(i) s == Pre(i) s2 == Post(i) IN {u \in Users : ~ReqTouched(s, s2, u) /\ ~PoolMsg(nd, u)}
C07Ledger(i) ==
  IsStep(i) =>
    LET s == Pre(i) s2 == Post(i) IN
    \A u \in LedgerUsers(i) : \A d \in {"uaa", "ubb", "ucc"} :
       s2.bal[u][d] - s.bal[u][d] = C07OwnerFlow(s, s2, u, d)
CancelAnte(i) == LET nd == Nd(i) a == nd.args s == Pre(i) IN
  /\ nd.a = "CancelOrder" /\ a.app \in AppIds /\ HasOrder(s, a.app, a.pair, a.id)
  /\ LET o == OrderOf(s, a.app, a.pair, a.id) IN Live(o) /\ o.owner = a.u /\ o.batch # PairOf(s, a.app, a.pair).batch
C07Cancellable(i) == IsStep(i) /\ CancelAnte(i) =>
  LET nd == Nd(i) a == nd.args s2 == Post(i) IN
  nd.res.ok /\ HasOrder(s2, a.app, a.pair, a.id) /\ OrderOf(s2, a.app, a.pair, a.id).status = "X"
EarlierMM(i) == LET nd == Nd(i) a == nd.args s == Pre(i) IN
  IF nd.a \in {"CancelMM", "MMOrder"} /\ nd.res.ok
  THEN {o \in s.orders : o.app = a.app /\ o.pair = a.pair /\ o.owner = a.u /\ o.typ = "MM" /\ Live(o)} ELSE {}
C07MMReplace(i) == IsStep(i) =>
  LET s2 == Post(i) IN \A o \in EarlierMM(i) : HasOrder(s2, o.app, o.pair, o.id) /\ OrderOf(s2, o.app, o.pair, o.id).status = "X"
(* the escrow covers every live claim once the recorded matching residue (amm family) is accounted for: *)
(* any OTHER leak out of a pair escrow violates this even in runs that hit the known non-conserving match *)
C07CoversNet(i) == LET nd == Nd(i) s2 == Post(i) IN
  \A p \in s2.pairs : LET x == XsOf(nd.st, p.app, p.id) e == EscT[p.app][p.id] IN
     s2.bal[e][p.base] + x.xb >= OwedOf(s2, p, p.base) /\ s2.bal[e][p.quote] + x.xq >= OwedOf(s2, p, p.quote)

Formulas == <<"Conf_Step", "Conf_SdkAgree", "Conf_Residue",
              "C04_GlobalEscrow", "C04_PairEscrow", "C04_FarmBacked", "C04_ZeroSupplyDisabled", "C04_SupplyOnlyByPoolOps",
              "C07_OwnerLedger", "C07_Cancellable", "C07_MMReplace", "C07_EscrowCovers", "C07_EscrowCoversNet", "C07_NothingRemains">>
Holds(f, i) ==
  CASE f = "Conf_Step" -> (IsStep(i) => Conf(i))
    [] f = "Conf_SdkAgree" -> ConfSdk(i)
    [] f = "Conf_Residue" -> ConfResidue(i)
    [] f = "C04_GlobalEscrow" -> C04GlobalEscrow(Post(i))
    [] f = "C04_PairEscrow" -> C04PairEscrow(Post(i))
    [] f = "C04_FarmBacked" -> C04FarmBacked(Post(i))
    [] f = "C04_ZeroSupplyDisabled" -> C04ZeroDisabled(Post(i))
    [] f = "C04_SupplyOnlyByPoolOps" -> C04Supply(i)
    [] f = "C07_OwnerLedger" -> C07Ledger(i)
    [] f = "C07_Cancellable" -> C07Cancellable(i)
    [] f = "C07_MMReplace" -> C07MMReplace(i)
    [] f = "C07_EscrowCovers" -> C07EscrowCovers(Post(i))
    [] f = "C07_EscrowCoversNet" -> C07CoversNet(i)
    [] f = "C07_NothingRemains" -> C07NothingRemains(Post(i))

Judge == \A k \in 1..Len(Formulas) : Holds(Formulas[k], cur) \/ PrintT(<<"FAIL", Formulas[k], cur>>)

(* antecedent counters (vacuity control) *)
Count(P(_)) == Cardinality({i \in 1..NLog : P(i)})
Ended(i, st) == IsStep(i) /\ \E o \in Post(i).orders : o.status = st /\ \E q \in Pre(i).orders : q.app = o.app /\ q.pair = o.pair /\ q.id = o.id /\ Live(q)
Stats == PrintT(<<"STATS", [
   nodes          |-> NLog,
   steps          |-> Count(LAMBDA i : IsStep(i)),
   okSteps        |-> Count(LAMBDA i : IsStep(i) /\ Nd(i).res.ok),
   placed         |-> Count(LAMBDA i : IsStep(i) /\ Nd(i).a \in {"LimitOrder", "MarketOrder", "MMOrder"} /\ Nd(i).res.ok),
   cancelChecked  |-> Count(LAMBDA i : IsStep(i) /\ CancelAnte(i)),
   mmReplaceChecked |-> Count(LAMBDA i : IsStep(i) /\ EarlierMM(i) # {}),
   mmIdsDiffer    |-> Count(LAMBDA i : IsStep(i) /\ EarlierMM(i) # {} /\ Nd(i).args.app # Nd(i).args.pair),
   completed      |-> Count(LAMBDA i : Ended(i, "C")),
   expired        |-> Count(LAMBDA i : Ended(i, "E")),
   canceled       |-> Count(LAMBDA i : Ended(i, "X")),
   partialEnd     |-> Count(LAMBDA i : IsStep(i) /\ \E o \in Post(i).orders : ~Live(o) /\ o.rem > 0 /\ o.rem < o.offer
                                         /\ \E q \in Pre(i).orders : q.app = o.app /\ q.pair = o.pair /\ q.id = o.id /\ Live(q)),
   filledSteps    |-> Count(LAMBDA i : IsStep(i) /\ Nd(i).a = "EndBlock" /\ \E o \in Post(i).orders : \E q \in Pre(i).orders :
                                         q.app = o.app /\ q.pair = o.pair /\ q.id = o.id /\ q.recv < o.recv),
   emptiedBooks   |-> Count(LAMBDA i : IsStep(i) /\ \E p \in Post(i).pairs : LiveOf(Post(i), p) = {} /\ HasPair(Pre(i), p.app, p.id) /\ LiveOf(Pre(i), p) # {}),
   farmed         |-> Count(LAMBDA i : \E pl \in Post(i).pools : Farmed(Post(i), pl) > 0),
   activeFarm     |-> Count(LAMBDA i : Post(i).af # {}),
   supplyChanged  |-> Count(LAMBDA i : IsStep(i) /\ \E pl \in Post(i).pools : HasPool(Pre(i), pl.app, pl.id) /\ PoolOf(Pre(i), pl.app, pl.id).ps # pl.ps),
   reqPending     |-> Count(LAMBDA i : Pending(Post(i)) # {}),
   poolsDisabled  |-> Count(LAMBDA i : \E pl \in Post(i).pools : pl.disabled),
   residueSteps   |-> Count(LAMBDA i : Nd(i).st.tainted) ]>>)
AllSeen == Stats /\ TLCGet("stats").distinct = NLog
=============================================================================
