----------------------------- MODULE Trace_Oracle -----------------------------
(* Validation of executions of the REAL x/market code (recorded by `vh oracle`) against Oracle.tla. *)
(* Every log node is one TLC state; the formulas below are evaluated on the recorded states.         *)
(*   Conf_*  : the recorded step is exactly the step the specification's action takes                *)
(*   C17_*   : the property, stated over the recorded record and the ghost window G                  *)
EXTENDS Band, Limbs, TLC, Json, FiniteSets
CONSTANT LogFile
Log == ndJsonDeserialize(LogFile)
NLog == Len(Log)

VARIABLE cur
Init == cur \in 1..NLog
Next == UNCHANGED cur
Spec == Init /\ [][Next]_cur

Rec(j) == [found |-> j.found, win |-> j.win, idx |-> j.idx, active |-> j.active, val |-> j.val, d |-> j.d]
Nd(i) == Log[i]
RecB(j) == [flag |-> j.flag, valid |-> j.valid, temp |-> j.temp, last |-> j.last, dh |-> j.dh, dbool |-> j.dbool, hasres |-> j.hasres, rate |-> j.rate]
Pos(nd) == nd.args.rL # <<>>

(* SHADOW: the specification run along the behaviour from its root, on sign-abstracted samples (1 for a positive sample, 0 for a zero one: *)
(* only the sign steers the pipeline). The ghost takes every reset decision (outage longer than the gap, band discard, reconfiguration)  *)
(* from the shadow, never from the recorded record or band state: a record whose stored outage start / stall height is wrong must not    *)
(* be able to talk the ghost out of (or into) a reset.                                                                                   *)
Abs(w) == [w EXCEPT !.win = [k \in 1..Len(w.win) |-> 1], !.val = IF w.active THEN 1 ELSE 0]
Sgn(nd) == IF Pos(nd) THEN 1 ELSE 0
HasBand(nd) == "preb" \in DOMAIN nd.st
RECURSIVE Sh(_)
Sh(i) ==
  LET nd == Nd(i) IN
  IF nd.a = "Init" THEN [b |-> IF HasBand(nd) THEN RecB(nd.st.preb) ELSE B0, w |-> Abs(Rec(nd.st.pre))]
  ELSE LET p == Sh(nd.parent) n == nd.args.n gap == nd.args.gap IN
       IF nd.st.panic THEN p
       ELSE IF nd.a = "Cycle" THEN LET c == Cycle([p.b EXCEPT !.rate = Sgn(nd)], p.w, nd.args.kind, Sgn(nd), n, gap) IN [b |-> c.b, w |-> c.w]
       ELSE IF nd.a = "Reconfig" THEN [b |-> Reconfig(p.b), w |-> NoRec]
       ELSE IF nd.a = "Sample" THEN [p EXCEPT !.w = Sample(p.w, Sgn(nd), nd.args.dh, n, gap).w]
       ELSE IF nd.a = "Invalidate" THEN [p EXCEPT !.w = Invalidate(Age(p.w, nd.args.dh, gap))]
       ELSE IF nd.a = "GlobalDiscard" THEN [p EXCEPT !.w = GlobalDiscard(Age(p.w, nd.args.dh, gap))]
       ELSE p
(* the band hook's verdict for this cycle, from the shadow *)
ShB1(nd) == BandHook(Arrive([Sh(nd.parent).b EXCEPT !.rate = Sgn(nd)], nd.args.kind, Sgn(nd)), nd.args.gap)

(* ghost window in limbs: positive samples since the last reset, last n kept *)
RECURSIVE G(_)
G(i) ==
  LET nd == Nd(i) IN
  IF nd.a = "Init" THEN <<>>
  ELSE LET g == G(nd.parent)
           p == Sh(nd.parent)
           n == nd.args.n
           gap == nd.args.gap
       IN IF nd.st.panic THEN g
          ELSE IF nd.a = "Reconfig" THEN <<>>
          ELSE IF nd.a = "Cycle" THEN
               LET b1 == ShB1(nd)
                   w0 == Age(p.w, 1, gap)
                   g1 == IF b1.dbool THEN <<>> ELSE g
                   w1 == IF b1.dbool THEN GlobalDiscard(w0) ELSE w0
                   base == IF w1.found /\ Pos(nd) /\ w1.d > 0 /\ w1.d >= gap THEN <<>> ELSE g1
               IN IF ~b1.valid THEN g
                  ELSE IF b1.hasres /\ Pos(nd) THEN LastN(Append(base, nd.args.rL), n)
                  ELSE IF b1.hasres THEN base ELSE g1
          ELSE IF nd.a = "GlobalDiscard" THEN <<>>
          ELSE IF nd.a = "Invalidate" THEN g
          ELSE LET w == Age(p.w, nd.args.dh, gap)
                   base == IF w.found /\ Pos(nd) /\ w.d > 0 /\ w.d >= gap THEN <<>> ELSE g
               IN IF Pos(nd) THEN LastN(Append(base, nd.args.rL), n) ELSE base

InRun(nd) == nd.run \notin {"vec", "bandvec"}

(* ---------------- conformance: code step = spec step (small values only) ---------------- *)
SmallStep(nd) == nd.st.pre.small /\ nd.st.w.small /\ nd.args.r >= 0
ConfSample(nd) ==
  nd.a = "Sample" /\ SmallStep(nd) =>
     LET m == Sample(Rec(nd.st.pre), nd.args.r, nd.args.dh, nd.args.n, nd.args.gap) IN
     IF InRun(nd) /\ nd.st.panic THEN TRUE      \* block-level panic flag covers both assets of a run
     ELSE m.panic = nd.st.panic /\ (~m.panic => Rec(nd.st.w) = m.w)
ConfInvalidate(nd) ==
  nd.a = "Invalidate" /\ SmallStep(nd) /\ ~nd.st.panic =>
     Rec(nd.st.w) = Invalidate(Age(Rec(nd.st.pre), nd.args.dh, nd.args.gap))
ConfDiscard(nd) ==
  nd.a = "GlobalDiscard" /\ SmallStep(nd) /\ ~nd.st.panic =>
     Rec(nd.st.w) = GlobalDiscard(Age(Rec(nd.st.pre), nd.args.dh, nd.args.gap))

(* one cadence block = band hook ; market hook (Band.tla) *)
ConfCycle(nd) ==
  nd.a = "Cycle" /\ SmallStep(nd) /\ ~nd.st.panic =>
     LET bb == [RecB(nd.st.preb) EXCEPT !.rate = nd.args.r]   \* args.r = the rate stored for THIS asset in the result the hook will read
         c == Cycle(bb, Rec(nd.st.pre), nd.args.kind, nd.args.r, nd.args.n, nd.args.gap)
         pb == nd.st.b
     IN /\ ~c.panic
        /\ Rec(nd.st.w) = c.w
        /\ <<pb.flag, pb.valid, pb.temp, pb.last, pb.dh, pb.dbool, pb.hasres>> = <<c.b.flag, c.b.valid, c.b.temp, c.b.last, c.b.dh, c.b.dbool, c.b.hasres>>

ConfReconfig(nd) ==
  nd.a = "Reconfig" /\ ~nd.st.panic =>
     /\ ~nd.st.w.found
     /\ LET pb == nd.st.b c == Reconfig(RecB(nd.st.preb)) IN <<pb.flag, pb.dh, pb.dbool>> = <<c.flag, c.dh, c.dbool>>

(* ---------------- C17 on recorded behaviours ---------------- *)
(* a positive sample was taken in by the pipeline in this step (shadow verdict for a cadence block) *)
TookPositive(nd) == Pos(nd) /\ ~nd.st.panic /\ (nd.a = "Sample" \/ (nd.a = "Cycle" /\ ShB1(nd).valid /\ ShB1(nd).hasres))
(* "deactivates the price until fresh data arrives as configured": once fresh data has arrived and the window of the statement *)
(* (positive samples since the last configured reset) is full, the price is published again                                   *)
C17ActiveWhenFull(i) == LET nd == Nd(i) IN InRun(nd) /\ TookPositive(nd) /\ Len(G(i)) >= nd.args.n => nd.st.w.active
C17NoPanic(nd)   == ~nd.st.panic
C17OnlyFull(i)   == LET nd == Nd(i) IN InRun(nd) /\ nd.st.w.active => Len(G(i)) >= nd.args.n
C17MeanExact(i)  == LET nd == Nd(i) g == G(i) n == nd.args.n IN
                    InRun(nd) /\ nd.st.w.active /\ Len(g) >= n =>
                       LEq(nd.st.w.valL, LDivSmall(LSumSeq(g), n))
C17InWindow(nd)  == nd.st.w.idx <= Len(nd.st.w.winL)
                    /\ (nd.st.w.active => Len(nd.st.w.winL) >= nd.args.n /\ nd.st.w.idx < nd.args.n)
C17ZeroOff(nd)   == (nd.a = "Sample" \/ (nd.a = "Cycle" /\ nd.st.b.hasres /\ nd.st.b.valid)) /\ ~Pos(nd) /\ nd.st.w.found /\ ~nd.st.panic => ~nd.st.w.active
C17Consumer(nd)  == (~nd.st.w.active => nd.st.calcErr /\ nd.st.getErr) /\ (nd.st.w.active /\ ~nd.st.panic => ~nd.st.calcErr)

Formulas == <<"Conf_Sample", "Conf_Invalidate", "Conf_GlobalDiscard", "Conf_Cycle", "C17_NoPanic", "C17_OnlyFull",
              "C17_MeanExact", "C17_InWindow", "C17_ZeroOff", "C17_Consumer", "C17_ActiveWhenFull", "Conf_Reconfig">>
Holds(f, i) ==
  LET nd == Nd(i) IN
  CASE f = "Conf_Sample" -> ConfSample(nd)
    [] f = "Conf_Invalidate" -> ConfInvalidate(nd)
    [] f = "Conf_GlobalDiscard" -> ConfDiscard(nd)
    [] f = "Conf_Cycle" -> ConfCycle(nd)
    [] f = "C17_NoPanic" -> C17NoPanic(nd)
    [] f = "C17_OnlyFull" -> C17OnlyFull(i)
    [] f = "C17_MeanExact" -> C17MeanExact(i)
    [] f = "C17_InWindow" -> C17InWindow(nd)
    [] f = "C17_ZeroOff" -> C17ZeroOff(nd)
    [] f = "C17_Consumer" -> C17Consumer(nd)
    [] f = "C17_ActiveWhenFull" -> C17ActiveWhenFull(i)
    [] f = "Conf_Reconfig" -> ConfReconfig(nd)

(* The judge never stops TLC: every failing (formula, node) is printed and collected by bin/check. *)
Judge == \A k \in 1..Len(Formulas) : Holds(Formulas[k], cur) \/ PrintT(<<"FAIL", Formulas[k], cur>>)
(* antecedent counters (vacuity control) *)
Stats == PrintT(<<"STATS", [nodes |-> NLog,
           active |-> Cardinality({i \in 1..NLog : Nd(i).st.w.active}),
           meanChecked |-> Cardinality({i \in 1..NLog : InRun(Nd(i)) /\ Nd(i).st.w.active}),
           zeroSamples |-> Cardinality({i \in 1..NLog : Nd(i).a = "Sample" /\ ~Pos(Nd(i))}),
           cycles |-> Cardinality({i \in 1..NLog : Nd(i).a = "Cycle"}),
           discards |-> Cardinality({i \in 1..NLog : Nd(i).a = "Cycle" /\ BandHook(Arrive(RecB(Nd(i).st.preb), Nd(i).args.kind, 1), Nd(i).args.gap).dbool}),
           reconfigs |-> Cardinality({i \in 1..NLog : Nd(i).a = "Reconfig"}),
           reactivations |-> Cardinality({i \in 1..NLog : InRun(Nd(i)) /\ TookPositive(Nd(i)) /\ Len(G(i)) >= Nd(i).args.n /\ ~Log[Nd(i).parent].st.w.active}),
           bigValues |-> Cardinality({i \in 1..NLog : ~Nd(i).st.w.small}),
           confChecked |-> Cardinality({i \in 1..NLog : SmallStep(Nd(i))}) ]>>)
AllSeen == Stats /\ TLCGet("stats").distinct = NLog
=============================================================================
