SPECIFICATION Spec
CONSTANTS N = 2  Gap = 2  Samples = {0, 1, 2, 5}  Emit = TRUE
INVARIANTS NoPanic OnlyFull MeanExact IndexInWindow ZeroSwitchesOff
CHECK_DEADLOCK FALSE
