------------------------------- MODULE MC_Band -------------------------------
EXTENDS Band, TLC, Json
CONSTANTS N, Gap, Rates
VARIABLES b, w, g, panicked, lastKind
vars == <<b, w, g, panicked, lastKind>>
Init == b = B0 /\ w = NoRec /\ g = <<>> /\ panicked = FALSE /\ lastKind = "none"
Step(kind, r) ==
   LET c == Cycle(b, w, kind, r, N, Gap) IN
   /\ ~panicked
   /\ b' = c.b /\ w' = c.w /\ panicked' = c.panic /\ lastKind' = kind
   /\ g' = LastN(GhostCycle(g, b, w, kind, r, N, Gap), N)
   /\ PrintT(<<"T", ToJson([a |-> "Cycle", args |-> [kind |-> kind, r |-> r], pre |-> [b |-> b, w |-> w], post |-> [b |-> c.b, w |-> c.w], panic |-> c.panic, n |-> N, gap |-> Gap])>>)
Next == Step("none", 0) \/ Step("ack", 0) \/ \E r \in Rates : Step("full", r)
Spec == Init /\ [][Next]_vars
NoPanic == ~panicked
OnlyFull == ActiveOnlyOnFullWindow(w, g, N)
MeanExact == ExactMean(w, g, N)
IndexInWindow == InWindow(w, N)
(* (not a law: the first cycle stores temp = 0, so the cycle after it is "valid" even when nothing new arrived) *)
(* last is unbounded: normalise by only tracking whether last = temp *)
Norm == [b EXCEPT !.last = IF b.last = b.temp THEN 0 ELSE 1, !.temp = 0]
View == <<Norm, w, g, panicked, lastKind>>
=============================================================================
