-------------------------------- MODULE Band --------------------------------
(* The 20-block oracle cadence: bandoracle.BeginBlocker followed by market.BeginBlocker in the same block   *)
(* (x/bandoracle/abci.go, x/market/abci.go), composed with Oracle.tla's per-asset record.                    *)
(*   B = [flag, valid, temp, last, dh, dbool, hasres, rate]                                                  *)
(*     flag   check flag (false until the first cycle)        valid  oracle validation result                *)
(*     temp   request id seen at the previous cycle           last   id of the last acknowledged request     *)
(*     dh     -1 or age (in cycles, capped at Gap) of the height at which validation first failed            *)
(*     dbool  discard flag: the next valid cycle drops every window                                           *)
(*     hasres / rate: whether the result of request `last` has been delivered, and its rate for the asset     *)
(* One Cycle = (what arrived since the previous cycle) ; band hook ; market hook, at a height divisible by 20.*)
EXTENDS Oracle

B0 == [flag |-> FALSE, valid |-> FALSE, temp |-> 0, last |-> 0, dh |-> -1, dbool |-> FALSE, hasres |-> FALSE, rate |-> 0]

(* environment between two cycles: "none", "ack" (request acknowledged, result not yet delivered), "full" *)
Arrive(b, kind, r) ==
   IF kind = "none" THEN b
   ELSE [b EXCEPT !.last = @ + 1, !.hasres = (kind = "full"), !.rate = IF kind = "full" THEN r ELSE 0]

AgeB(b, Gap) == IF b.dh < 0 THEN b ELSE [b EXCEPT !.dh = Min2(@ + 1, Gap)]

(* bandoracle.BeginBlocker at a cadence height (one cycle after the previous one) *)
BandHook(b0, Gap) ==
   LET b == AgeB(b0, Gap) IN
   IF ~b.flag THEN [b EXCEPT !.temp = 0, !.flag = TRUE, !.valid = FALSE]
   ELSE LET res == b.last # b.temp
            d1 == IF ~res /\ b.dh < 0 THEN [b EXCEPT !.dh = 0]
                  ELSE IF res /\ b.dh > 0
                       THEN IF b.dh < Gap THEN [b EXCEPT !.dh = -1] ELSE [b EXCEPT !.dbool = TRUE, !.dh = -1]
                       ELSE b
        IN [d1 EXCEPT !.valid = res, !.temp = b.last]

(* market.BeginBlocker right after it: [b, w, panic] *)
MarketHook(b, w, N, Gap) ==
   IF ~b.valid THEN [b |-> b, w |-> Invalidate(Age(w, 1, Gap)), panic |-> FALSE, sampled |-> FALSE, discarded |-> FALSE]
   ELSE LET w0 == Age(w, 1, Gap)
            w1 == IF b.dbool THEN GlobalDiscard(w0) ELSE w0
            b1 == [b EXCEPT !.dbool = FALSE]
        IN IF b.hasres
           THEN LET r == Sample(w1, b.rate, 0, N, Gap) IN [b |-> b1, w |-> r.w, panic |-> r.panic, sampled |-> TRUE, discarded |-> b.dbool]
           ELSE [b |-> b1, w |-> w1, panic |-> FALSE, sampled |-> FALSE, discarded |-> b.dbool]

Cycle(b, w, kind, r, N, Gap) == MarketHook(BandHook(Arrive(b, kind, r), Gap), w, N, Gap)

(* governance installs a new fetch-price configuration (AddFetchPriceRecords: new window size / accepted gap): the cadence state *)
(* restarts and every price window is dropped                                                                                   *)
Reconfig(b) == [b EXCEPT !.flag = FALSE, !.dh = -1, !.dbool = FALSE]

(* ghost window across a cycle *)
GhostCycle(g, b, w, kind, r, N, Gap) ==
   LET b1 == BandHook(Arrive(b, kind, r), Gap) IN
   IF ~b1.valid THEN g
   ELSE LET w0 == Age(w, 1, Gap)
            g1 == IF b1.dbool THEN <<>> ELSE g
            w1 == IF b1.dbool THEN GlobalDiscard(w0) ELSE w0
        IN IF b1.hasres THEN GhostSample(g1, w1, b1.rate, 0, Gap) ELSE g1
=============================================================================
