------------------------------ MODULE MC_Oracle ------------------------------
(* Bounded exhaustive model of the price pipeline; every generated transition is printed as a JSON   *)
(* line (prefix "T ") and becomes one test vector executed on the real UpdatePriceList.               *)
EXTENDS Oracle, TLC, Json
CONSTANTS N, Gap, Samples, Emit

VARIABLES w, g, panicked, lastZero
vars == <<w, g, panicked, lastZero>>

Init == w = NoRec /\ g = <<>> /\ panicked = FALSE /\ lastZero = FALSE

Out(a, args, pre, post, p) ==
  IF Emit THEN PrintT(<<"T", ToJson([a |-> a, args |-> args, pre |-> pre, post |-> post, panic |-> p, n |-> N, gap |-> Gap])>>)
  ELSE TRUE

DoSample(r, dh) ==
  LET res == Sample(w, r, dh, N, Gap) IN
  /\ ~panicked
  /\ w' = res.w
  /\ panicked' = res.panic
  /\ g' = LastN(GhostSample(g, w, r, dh, Gap), N)
  /\ lastZero' = (r = 0)
  /\ Out("Sample", [r |-> r, dh |-> dh], w, res.w, res.panic)

DoInvalidate == /\ ~panicked /\ w' = Invalidate(w) /\ UNCHANGED <<g, panicked>> /\ lastZero' = FALSE
                /\ Out("Invalidate", [r |-> 0, dh |-> 0], w, Invalidate(w), FALSE)
DoDiscard    == /\ ~panicked /\ w' = GlobalDiscard(w) /\ g' = <<>> /\ UNCHANGED panicked /\ lastZero' = FALSE
                /\ Out("GlobalDiscard", [r |-> 0, dh |-> 0], w, GlobalDiscard(w), FALSE)

Next == \/ \E r \in Samples, dh \in {1, Gap} : DoSample(r, dh)
        \/ DoInvalidate
        \/ DoDiscard
Spec == Init /\ [][Next]_vars

(* C17 on the model *)
NoPanic       == ~panicked
OnlyFull      == ActiveOnlyOnFullWindow(w, g, N)
MeanExact     == ExactMean(w, g, N)
IndexInWindow == InWindow(w, N)
ZeroSwitchesOff == lastZero /\ w.found => ~w.active
=============================================================================
