------------------------------- MODULE Oracle -------------------------------
(* x/market price pipeline for ONE asset, implementation-shaped.                                     *)
(*   UpdatePriceList (x/market/keeper/oracle.go) is transcribed branch by branch as Sample;          *)
(*   the two whole-table steps of market.BeginBlocker are Invalidate (validation result false)       *)
(*   and GlobalDiscard (band discard flag).                                                          *)
(* A TWA record is  [found, win, idx, active, val, d]  with d = -1 or the age (in blocks, capped at  *)
(* Gap) of the height stored in DiscardedHeightDiff: the code only ever tests  height - d < Gap.     *)
EXTENDS Integers, Sequences

NoRec == [found |-> FALSE, win |-> <<>>, idx |-> 0, active |-> FALSE, val |-> 0, d |-> -1]

RECURSIVE SumSeq(_)
SumSeq(s) == IF s = <<>> THEN 0 ELSE Head(s) + SumSeq(Tail(s))
Mean(win, N) == SumSeq(SubSeq(win, 1, N)) \div N
Min2(a, b) == IF a <= b THEN a ELSE b

(* ageing of the stored discard height when dh blocks pass *)
Age(w, dh, Gap) == IF w.d < 0 THEN w ELSE [w EXCEPT !.d = Min2(w.d + dh, Gap)]

(* ---- UpdatePriceList(rate r) at a block dh >= 0 blocks after the previous pipeline step ---------- *)
(* result: [w |-> record', panic |-> BOOLEAN]                                                         *)
Sample(w0, r, dh, N, Gap) ==
  LET w == Age(w0, dh, Gap)
      Ok(x) == [w |-> x, panic |-> FALSE]
      Boom  == [w |-> w, panic |-> TRUE]
  IN
  IF ~w.found THEN
       IF r > 0
       THEN LET a == 1 >= N IN       \* first sample fills a window of size 1 (fix: activate at once)
            Ok([found |-> TRUE, win |-> <<r>>, idx |-> IF a THEN 0 ELSE 1, active |-> a,
                val |-> IF a THEN r ELSE 0, d |-> -1])
       ELSE Ok(w)
  ELSE IF r = 0 /\ w.d < 0 THEN Ok([w EXCEPT !.d = 0, !.active = FALSE])
  ELSE LET w1 == IF r > 0 /\ w.d > 0
                 THEN IF w.d < Gap THEN [w EXCEPT !.d = -1]
                      ELSE [w EXCEPT !.win = <<>>, !.d = -1, !.active = FALSE, !.idx = 0]
                 ELSE w
       IN
       IF r = 0 THEN Ok(w1)
       ELSE IF w1.active THEN
              IF w1.idx + 1 > Len(w1.win) \/ Len(w1.win) < N THEN Boom
              ELSE LET win2 == [w1.win EXCEPT ![w1.idx + 1] = r]
                       i2   == IF w1.idx + 1 >= N THEN 0 ELSE w1.idx + 1
                   IN Ok([w1 EXCEPT !.win = win2, !.idx = i2, !.val = Mean(win2, N)])
       ELSE IF Len(w1.win) >= N THEN
              IF w1.idx + 1 > Len(w1.win) THEN Boom
              ELSE LET win2 == [w1.win EXCEPT ![w1.idx + 1] = r]
                       i2   == IF w1.idx + 1 >= N THEN 0 ELSE w1.idx + 1
                   IN Ok([w1 EXCEPT !.win = win2, !.idx = i2, !.active = TRUE, !.val = Mean(win2, N)])
       ELSE LET win2 == Append(w1.win, r)
                i1   == w1.idx + 1
            IN IF i1 >= N
               THEN IF Len(win2) < N THEN Boom
                    ELSE Ok([w1 EXCEPT !.win = win2, !.idx = 0, !.active = TRUE, !.val = Mean(win2, N)])
               ELSE Ok([w1 EXCEPT !.win = win2, !.idx = i1])

(* market.BeginBlocker, validation result false: every record is switched off, ring kept *)
Invalidate(w) == IF w.found THEN [w EXCEPT !.active = FALSE] ELSE w
(* market.BeginBlocker, discard flag: ring dropped *)
GlobalDiscard(w) == IF w.found THEN [w EXCEPT !.active = FALSE, !.idx = 0, !.win = <<>>] ELSE w

(* ---- ghost: positive samples since the last reset (what the statement calls the window) ---------- *)
(* Reset points: re-entry after a zero sample older than the accepted gap; global discard.            *)
GhostSample(g, w0, r, dh, Gap) ==
  LET w == Age(w0, dh, Gap)
      base == IF w.found /\ r > 0 /\ w.d > 0 /\ w.d >= Gap THEN <<>> ELSE g
  IN IF r > 0 THEN Append(base, r) ELSE base

LastN(s, N) == IF Len(s) <= N THEN s ELSE SubSeq(s, Len(s) - N + 1, Len(s))

(* ---- the property (C17), stated over record + ghost, independent of the ring mechanics ----------- *)
ActiveOnlyOnFullWindow(w, g, N) == w.active => Len(g) >= N
ExactMean(w, g, N)              == w.active /\ Len(g) >= N => w.val = SumSeq(LastN(g, N)) \div N
InWindow(w, N)                  == w.idx <= Len(w.win) /\ (w.active => Len(w.win) >= N /\ w.idx < N)
=============================================================================
