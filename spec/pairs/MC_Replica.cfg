SPECIFICATION Spec
CONSTANTS Replicas = {"a", "b"}  NBlocks = 3  Env = {0}  EnvDependent = FALSE  Emit = TRUE
INVARIANT C16_Model
CHECK_DEADLOCK FALSE
