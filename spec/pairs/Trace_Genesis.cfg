SPECIFICATION Spec
CONSTANTS LogFile = "log.ndjson"  MaxId = 1000000
INVARIANT Judge
POSTCONDITION AllSeen
CHECK_DEADLOCK FALSE
