SPECIFICATION Spec
CONSTANTS MaxId = 5  Mode = "exact"  PreDepth = 3  ContDepth = 1  Emit = TRUE
INVARIANTS RoundTripStutters ContinuationSame NoOverwrite
CHECK_DEADLOCK FALSE
