------------------------------- MODULE Genesis -------------------------------
(* C20 - genesis export + re-import.                                                                      *)
(*                                                                                                        *)
(* Every DeFi module keeps id-numbered positions (vaults, lockers, lends, orders, auctions, bids ...) and *)
(* an id counter from which the next id is drawn.  The module's genesis pair is                           *)
(*      Export : state -> genesis document          Import : genesis document -> state                    *)
(* and the property is stated over PAIRS of chains (orig, copy):                                          *)
(*   (1) RoundTrip (copy' = Import(Export(orig))) is a stuttering step of the observation function Obs,   *)
(*   (2) every continuation operation applied to both chains returns the same result, assigns the same    *)
(*       new id and keeps the observations equal.                                                         *)
(* The operators are functional over explicit state records, shaped like the code: `Import` is            *)
(* parameterised by the way the code restores the counter (the variants found in x/*/genesis.go are       *)
(* named), the ideal one is "exact".                                                                      *)
EXTENDS Integers, FiniteSets, Sequences
CONSTANT MaxId

MaxOf(S) == IF S = {} THEN 0 ELSE CHOOSE m \in S : \A x \in S : x <= m
MinOf(S) == IF S = {} THEN 0 ELSE CHOOSE m \in S : \A x \in S : m <= x

(* ---- one component: live position ids + id counter ------------------------------------------------- *)
EmptyComp == [live |-> {}, ctr |-> 0]

(* message handlers (vault MsgCreate / locker MsgCreateLocker / lend MsgLend / liquidity MsgLimitOrder):  *)
(* id := counter + 1 ; store position ; counter := id                                                     *)
Open(c) ==
  IF c.ctr < MaxId
  THEN [ok |-> TRUE,  id |-> c.ctr + 1, st |-> [live |-> c.live \cup {c.ctr + 1}, ctr |-> c.ctr + 1]]
  ELSE [ok |-> FALSE, id |-> 0,         st |-> c]
(* MsgClose / MsgCloseLocker / MsgCloseLend / MsgCancelOrder: the record is deleted, the counter stays    *)
Close(c, i) ==
  IF i \in c.live
  THEN [ok |-> TRUE,  id |-> i, st |-> [c EXCEPT !.live = @ \ {i}]]
  ELSE [ok |-> FALSE, id |-> 0, st |-> c]

Apply(c, op) ==
  CASE op = "open"     -> Open(c)
    [] op = "closeMax" -> Close(c, MaxOf(c.live))
    [] op = "closeMin" -> Close(c, MinOf(c.live))
Ops == {"open", "closeMax", "closeMin"}
Enabled(c, op) == Apply(c, op).ok

(* ---- genesis pair ---------------------------------------------------------------------------------- *)
Export(c) == [items |-> c.live, ctr |-> c.ctr]
(* how InitGenesis restores the counter:                                                                  *)
(*   "exact"   counter taken from the document                     (asset ids: max = counter, never deleted) *)
(*   "maxlive" max id of the exported live items                   (x/vault, x/rewards gauges)              *)
(*   "count"   number of exported live items                       (x/liquidation V1, computed in V2)       *)
(*   "last"    id of the last exported item = max (ordered store)  (x/lend)                                 *)
(*   "zero"    counter left at / set to 0                          (x/locker, x/auctionsV2, x/liquidationsV2) *)
Modes == {"exact", "maxlive", "count", "last", "zero"}
Import(g, mode) ==
  [live |-> g.items,
   ctr  |-> CASE mode = "exact"   -> g.ctr
              [] mode = "maxlive" -> MaxOf(g.items)
              [] mode = "last"    -> MaxOf(g.items)
              [] mode = "count"   -> Cardinality(g.items)
              [] mode = "zero"    -> 0]
RoundTrip(c, mode) == Import(Export(c), mode)

(* ---- observation and the property ------------------------------------------------------------------ *)
(* what queries can see: the live positions and the counter (= the next id to be assigned)                *)
Obs(c) == [live |-> c.live, ctr |-> c.ctr]
Stutters(o, c) == Obs(o) = Obs(c)
(* a continuation operation gives the same result and the same new id on both chains, and keeps Obs equal *)
SameContinuation(o, c, op) ==
  LET ro == Apply(o, op) rc == Apply(c, op) IN
  ro.ok = rc.ok /\ ro.id = rc.id /\ Stutters(ro.st, rc.st)
(* no live position is ever overwritten by a newly assigned id *)
NoCollision(c) == \A i \in c.live : i <= c.ctr
=============================================================================
