----------------------------- MODULE MC_Replica -----------------------------
(* Bounded model of Replica.tla: all interleavings of the replicas applying the shared block sequence,    *)
(* every step under every environment value.  TLC checks Deterministic on the model (EnvDependent = FALSE *)
(* holds; TRUE gives the two-step counterexample) and prints each complete interleaving once: `vh pairs   *)
(* replicas` executes the in-process replicas of the real application in these interleavings (the k-th    *)
(* step of a replica applies the k-th segment of the real block sequence).                                *)
EXTENDS Replica, TLC, Json
CONSTANT Emit
VARIABLES st, sched
vars == <<st, sched>>

Init == st = [r \in Replicas |-> InitReplica] /\ sched = <<>>
Done(s) == \A r \in Replicas : ~CanApply(s[r])
Out(s, sc) == IF Emit /\ Done(s) THEN PrintT(<<"T", ToJson([sched |-> sc])>>) ELSE TRUE
Next == \E r \in Replicas, e \in Env :
          /\ CanApply(st[r])
          /\ st' = [st EXCEPT ![r] = Apply(st[r], e)]
          /\ sched' = Append(sched, r)
          /\ Out(st', sched')
Spec == Init /\ [][Next]_vars
C16_Model == Deterministic(st)
=============================================================================
