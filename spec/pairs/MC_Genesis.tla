----------------------------- MODULE MC_Genesis -----------------------------
(* Bounded model of Genesis.tla: histories of open / close operations on the original chain, one round    *)
(* trip, then continuation operations applied to both chains.  TLC checks the two C20 formulas on the     *)
(* model (with Mode = "exact" they hold; with the code's modes TLC produces the shortest failing history) *)
(* and prints every behaviour prefix that ends in a continuation step: these histories are executed on    *)
(* the real application for every id-bearing component (`vh pairs roundtrip --behaviours`).               *)
EXTENDS Genesis, TLC, Json
CONSTANTS Mode, PreDepth, ContDepth, Emit

VARIABLES orig, copy, phase, hist, lastRes
vars == <<orig, copy, phase, hist, lastRes>>

Init == /\ orig = EmptyComp /\ copy = EmptyComp /\ phase = "run" /\ hist = <<>>
        /\ lastRes = [o |-> [ok |-> TRUE, id |-> 0], c |-> [ok |-> TRUE, id |-> 0]]

Out(h) == IF Emit THEN PrintT(<<"T", ToJson([hist |-> h, mode |-> Mode])>>) ELSE TRUE

Op(op) ==
  /\ phase = "run" /\ Len(hist) < PreDepth /\ Enabled(orig, op)
  /\ orig' = Apply(orig, op).st /\ copy' = orig'
  /\ hist' = Append(hist, op) /\ UNCHANGED <<phase, lastRes>>

DoRoundTrip ==
  /\ phase = "run" /\ Len(hist) >= 1
  /\ copy' = RoundTrip(orig, Mode) /\ phase' = "cont"
  /\ hist' = Append(hist, "RT") /\ UNCHANGED <<orig, lastRes>>

AfterRT == IF phase = "cont" THEN Len(hist) - (CHOOSE k \in 1..Len(hist) : hist[k] = "RT") ELSE 0
Continue(op) ==
  /\ phase = "cont" /\ AfterRT < ContDepth /\ Enabled(orig, op)
  /\ LET ro == Apply(orig, op) rc == Apply(copy, op) IN
       /\ orig' = ro.st /\ copy' = rc.st
       /\ lastRes' = [o |-> [ok |-> ro.ok, id |-> ro.id], c |-> [ok |-> rc.ok, id |-> rc.id]]
  /\ hist' = Append(hist, op) /\ UNCHANGED phase
  /\ Out(hist')

Next == (\E op \in Ops : Op(op)) \/ DoRoundTrip \/ (\E op \in Ops : Continue(op))
Spec == Init /\ [][Next]_vars

(* C20 on the model *)
RoundTripStutters == phase = "cont" => Stutters(orig, copy)
ContinuationSame  == lastRes.o = lastRes.c
NoOverwrite       == NoCollision(copy)
=============================================================================
