---------------------------- MODULE Trace_Genesis ----------------------------
(* Validation of executions of the REAL application (recorded by `vh pairs roundtrip`) against            *)
(* Genesis.tla.  Every log node is one TLC state.  Node kinds:                                            *)
(*   RT      one export + re-import of the committed state (res.ok: both steps succeeded)                 *)
(*   Part    one part of the observation function of one component, answered by the original chain (o)    *)
(*           and by the re-imported chain (c) as digests of canonical JSON                                *)
(*   KV      per-store key/value difference by key prefix (diagnostic only, never judged)                 *)
(*   Cont    one block of a continuation applied to forks of both chains: hook results, balance effect    *)
(*   ContBal balance of one account class after a block of the hooks-only continuation                    *)
(*   ContTx  one continuation message: result on both chains                                              *)
(*   ContId  one id counter that moved during a continuation block: new value on both chains              *)
(*   AbsOp / AbsRT / AbsCont   model behaviours of MC_Genesis executed on the real modules, projected on  *)
(*           Genesis.tla's component record (live ids, counter)                                           *)
(* Formulas:  C20_<Component> (round trip is a stuttering step of the component's observation),           *)
(*            C20_Export, C20_Continuation_Results / _Balances / _Ids, Conf_Open / Conf_Close.            *)
EXTENDS Genesis, TLC, Json
CONSTANT LogFile
Log == ndJsonDeserialize(LogFile)
NLog == Len(Log)

VARIABLE cur
Init == cur \in 1..NLog
Next == UNCHANGED cur
Spec == Init /\ [][Next]_cur

Nd(i) == Log[i]
ToSet(s) == {s[k] : k \in 1..Len(s)}
AbsOf(j) == [live |-> ToSet(j.live), ctr |-> j.ctr]

Comps == <<"Asset", "Vault", "Locker", "Collector", "Market", "LiquidationV1", "AuctionV1", "Rewards", "Liquidity",
           "Lend", "Esm", "Tokenmint", "LiquidationV2", "AuctionV2", "Bank">>

(* ---- C20 (1): the round trip is a stuttering step of every component's observation ------------------ *)
IsPart(nd, comp)  == nd.a = "Part" /\ nd.args.comp = comp /\ nd.args.judged
IsAbsRT(nd, comp) == nd.a = "AbsRT" /\ nd.args.comp = comp
C20Comp(comp, nd) ==
  /\ IsPart(nd, comp)  => nd.st.o = nd.st.c
  /\ IsAbsRT(nd, comp) => Stutters(AbsOf(nd.st.o), AbsOf(nd.st.c))
C20Export(nd) == nd.a = "RT" => nd.st.exported /\ nd.st.imported
(* id spaces (IdSpace: every id-numbered record family at a round-trip point; AbsRT: the model histories): no live   *)
(* record of the re-imported chain may carry an id above its counter - the next allocation would overwrite it. This  *)
(* is Genesis.tla's NoCollision; it is implied by the stuttering of the counter and the live set, and it separates   *)
(* "a closed highest id is assigned again" (open findings, needs genesis fields) from "a LIVE record is overwritten" *)
IsIdSpace(nd) == nd.a = "IdSpace" \/ nd.a = "AbsRT"
C20NoCollision(nd) == IsIdSpace(nd) /\ NoCollision(AbsOf(nd.st.o)) => NoCollision(AbsOf(nd.st.c))

(* ---- C20 (2): continuations behave identically ------------------------------------------------------ *)
C20ContResults(nd) ==
  /\ nd.a = "ContTx"  => nd.st.o = nd.st.c
  /\ nd.a = "Cont"    => nd.st.hooks.o = nd.st.hooks.c
  /\ nd.a = "AbsCont" => nd.st.o.ok = nd.st.c.ok /\ nd.st.o.code = nd.st.c.code
(* balances: "blocks" continuation (hooks only) absolutely, one ContBal node per module account / actors / others;  *)
(* message continuations by the effect of their messages (treatment fork minus control fork on the same chain)   *)
C20ContBalances(nd) ==
  /\ nd.a = "Cont" /\ ~nd.args.absolute => nd.st.bal.o = nd.st.bal.c
  /\ nd.a = "ContBal" => nd.st.o = nd.st.c
C20ContIds(nd) ==
  /\ nd.a = "ContId"  => nd.st.o = nd.st.c
  /\ nd.a = "AbsCont" => Stutters(AbsOf(nd.st.o.abs), AbsOf(nd.st.c.abs))

(* ---- conformance: the real message handlers are Genesis.tla's Open / Close -------------------------- *)
ConfOp(nd, isOpen) ==
  nd.a = "AbsOp" /\ ((nd.args.op = "open") = isOpen) =>
     LET r == Apply(AbsOf(nd.st.pre), nd.args.op) IN
     nd.res.ok = r.ok /\ AbsOf(nd.st.abs) = r.st

Formulas == <<"Conf_Open", "Conf_Close", "C20_Export", "C20_NoCollision", "C20_Continuation_Results", "C20_Continuation_Balances",
              "C20_Continuation_Ids">> \o [k \in 1..Len(Comps) |-> "C20_" \o Comps[k]]
Holds(f, i) ==
  LET nd == Nd(i) IN
  CASE f = "Conf_Open"  -> ConfOp(nd, TRUE)
    [] f = "Conf_Close" -> ConfOp(nd, FALSE)
    [] f = "C20_Export" -> C20Export(nd)
    [] f = "C20_NoCollision" -> C20NoCollision(nd)
    [] f = "C20_Continuation_Results"  -> C20ContResults(nd)
    [] f = "C20_Continuation_Balances" -> C20ContBalances(nd)
    [] f = "C20_Continuation_Ids"      -> C20ContIds(nd)
    [] OTHER -> \A k \in 1..Len(Comps) : f = "C20_" \o Comps[k] => C20Comp(Comps[k], nd)

Judge == \A k \in 1..Len(Formulas) : Holds(Formulas[k], cur) \/ PrintT(<<"FAIL", Formulas[k], cur>>)

Count(P(_)) == Cardinality({i \in 1..NLog : P(Nd(i))})
Stats == PrintT(<<"STATS", [nodes |-> NLog,
   points    |-> Count(LAMBDA n : n.a = "RT" /\ n.st.imported),
   parts     |-> Count(LAMBDA n : n.a = "Part" /\ n.args.judged),
   infoParts |-> Count(LAMBDA n : n.a = "Part" /\ ~n.args.judged),
   partsDiff |-> Count(LAMBDA n : n.a = "Part" /\ n.args.judged /\ n.st.o # n.st.c),
   nonEmptyParts |-> Count(LAMBDA n : n.a = "Part" /\ n.args.judged /\ n.st.on > 0),
   kvDiffs   |-> Count(LAMBDA n : n.a = "KV"),
   contBlocks |-> Count(LAMBDA n : n.a = "Cont"),
   contTx    |-> Count(LAMBDA n : n.a = "ContTx"),
   contTxOk  |-> Count(LAMBDA n : n.a = "ContTx" /\ n.st.o.ok),
   contIds   |-> Count(LAMBDA n : n.a = "ContId"),
   contBal   |-> Count(LAMBDA n : n.a = "ContBal"),
   idSpaces  |-> Count(LAMBDA n : n.a = "IdSpace"),
   idSpacesLive |-> Count(LAMBDA n : n.a = "IdSpace" /\ Len(n.st.o.live) > 0),
   idSpacesSharedOutOfOrder |-> Count(LAMBDA n : n.a = "IdSpace" /\ n.args.comp = "LockedVaultV2" /\ n.st.o.outOfKeyOrder),
   adminRejected |-> Count(LAMBDA n : n.a = "ContTx" /\ n.args.aspect = "admin" /\ ~n.st.o.ok),
   adminAccepted |-> Count(LAMBDA n : n.a = "ContTx" /\ n.args.aspect = "admin" /\ n.st.o.ok),
   absOps    |-> Count(LAMBDA n : n.a = "AbsOp"),
   absCloses |-> Count(LAMBDA n : n.a = "AbsOp" /\ n.args.op # "open" /\ n.res.ok),
   absRT     |-> Count(LAMBDA n : n.a = "AbsRT"),
   absCont   |-> Count(LAMBDA n : n.a = "AbsCont"),
   halts     |-> Count(LAMBDA n : n.a = "Halt") ]>>)
AllSeen == Stats /\ TLCGet("stats").distinct = NLog
=============================================================================
