------------------------------- MODULE Replica -------------------------------
(* C16 - determinism as a property of PAIRS of executions.                                                *)
(*                                                                                                        *)
(* N replicas of the application are fed one shared sequence of blocks.  A replica is a record            *)
(* [h, s, res]: number of blocks applied, state (as the digest of all module stores + bank) and the       *)
(* results of the transactions and hooks of its last block (codes, response data, gas AND emitted events).   The application is specified as a FUNCTION of          *)
(* (state, block): Step(s, b, e) with an environment argument e that stands for everything that is NOT    *)
(* in the block or the state - the process, goroutine scheduling, Go's per-run map iteration order, the   *)
(* wall clock.  Determinism = Step does not depend on e.  The specification is thin on purpose: its job   *)
(* is to state "same blocks => same state and same results" over pairs of replicas, to generate the       *)
(* interleavings in which the in-process replicas are executed, and to host the trace check.              *)
EXTENDS Integers, Sequences, FiniteSets
CONSTANTS Replicas, NBlocks, Env, EnvDependent

Blocks == [k \in 1..NBlocks |-> k]               \* the shared block sequence (abstract payloads)
Mod == 1009
(* abstract transition function; with EnvDependent = TRUE the environment leaks into state and results *)
Leak(e) == IF EnvDependent THEN e ELSE 0
Step(s, b, e) == [s |-> (s * 31 + b * 7 + Leak(e)) % Mod, res |-> (s + b + Leak(e)) % 17]

InitReplica == [h |-> 0, s |-> 1, res |-> 0]
Apply(rep, e) ==
  LET n == Step(rep.s, Blocks[rep.h + 1], e) IN [h |-> rep.h + 1, s |-> n.s, res |-> n.res]
CanApply(rep) == rep.h < NBlocks

(* ---- the property, over pairs ---------------------------------------------------------------------- *)
SameState(a, b)   == a.h = b.h => a.s = b.s
SameResults(a, b) == a.h = b.h => a.res = b.res
Deterministic(st) == \A a, b \in Replicas : SameState(st[a], st[b]) /\ SameResults(st[a], st[b])
=============================================================================
