SPECIFICATION Spec
CONSTANTS Replicas = {"a", "b"}  NBlocks = 3  Env = {0, 1}  EnvDependent = TRUE  Emit = FALSE
INVARIANT C16_Model
CHECK_DEADLOCK FALSE
