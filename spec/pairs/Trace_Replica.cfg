SPECIFICATION Spec
CONSTANTS LogFile = "log.ndjson"  Ref = "gen"
INVARIANT Judge
POSTCONDITION AllSeen
CHECK_DEADLOCK FALSE
