---------------------------- MODULE Trace_Replica ----------------------------
(* Validation of replicated executions of the REAL application (recorded by `vh pairs replicas`) against  *)
(* Replica.tla.  Every Block node is the record of one replica after committing one block of the shared   *)
(* workload: args.r replica, args.h block index, args.wl digest of the block's input, st.stores one       *)
(* digest per module store (+ bank), st.txs results (ok, code, response hash, gas) of the block's         *)
(* messages, st.evs the order-sensitive digests of the events emitted by BeginBlock, by every message and  *)
(* by EndBlock (events are part of a transaction's / block hook's result), res the hook results.          *)
(* Rerun nodes are repeated executions of ONE block from ONE committed state (args.h block, args.n        *)
(* execution number) on cache branches of the same instance: execution 1 is the reference of the others.   The replica "gen" (the run that generated the workload) is the        *)
(* reference; equality is transitive, so every pair of replicas is compared through it.                   *)
EXTENDS Integers, Sequences, FiniteSets, TLC, Json
CONSTANT LogFile, Ref
Log == ndJsonDeserialize(LogFile)
NLog == Len(Log)

VARIABLE cur
Init == cur \in 1..NLog
Next == UNCHANGED cur
Spec == Init /\ [][Next]_cur

Nd(i) == Log[i]
IsBlock(nd) == nd.a = "Block"
IsRerun(nd) == nd.a = "Rerun"
RefIds == {j \in 1..NLog : IsBlock(Nd(j)) /\ Nd(j).args.r = Ref}
MaxH == IF RefIds = {} THEN 0 ELSE CHOOSE m \in {Nd(j).args.h : j \in RefIds} : \A j \in RefIds : Nd(j).args.h <= m
RefAt == [h \in 0..MaxH |-> CHOOSE j \in RefIds : Nd(j).args.h = h]
HasRef(nd) == nd.args.h \in 0..MaxH
(* reference of a repeated execution: execution 1 of the same block *)
RerunFirst == {j \in 1..NLog : IsRerun(Nd(j)) /\ Nd(j).args.n = 1}
RerunHs == {Nd(j).args.h : j \in RerunFirst}
RerunRefAt == [h \in RerunHs |-> CHOOSE j \in RerunFirst : Nd(j).args.h = h]
RefOf(nd) == IF IsRerun(nd) THEN Nd(RerunRefAt[nd.args.h]) ELSE Nd(RefAt[nd.args.h])
Judged(nd) == (IsBlock(nd) /\ HasRef(nd)) \/ (IsRerun(nd) /\ nd.args.h \in RerunHs)

(* the replica state of Replica.tla: [h, s, res] *)
Rep(nd) == [h |-> nd.args.h, s |-> nd.st.stores, res |-> <<nd.st.txs, nd.res>>,
            ev |-> <<nd.st.evs.begin, nd.st.evs.txs, nd.st.evs.end>>]

(* antecedent of the property: the replicas really were fed the same block *)
ConfSameBlocks(nd) == IsBlock(nd) => HasRef(nd) /\ nd.args.wl = Nd(RefAt[nd.args.h]).args.wl
(* a replica applies the blocks in order, one per step *)
ConfHeights(nd) == IsBlock(nd) /\ nd.parent > 0 /\ IsBlock(Nd(nd.parent)) => nd.args.h = Nd(nd.parent).args.h + 1 /\ nd.args.r = Nd(nd.parent).args.r

C16SameState(nd)   == Judged(nd) => Rep(nd).s   = Rep(RefOf(nd)).s
C16SameResults(nd) == Judged(nd) => Rep(nd).res = Rep(RefOf(nd)).res
(* the emitted events (type, attributes, order) are part of the results of transactions and block hooks *)
C16SameEvents(nd)  == Judged(nd) => Rep(nd).ev  = Rep(RefOf(nd)).ev

Formulas == <<"Conf_SameBlocks", "Conf_Heights", "C16_SameState", "C16_SameResults", "C16_SameEvents">>
Holds(f, i) ==
  LET nd == Nd(i) IN
  CASE f = "Conf_SameBlocks" -> ConfSameBlocks(nd)
    [] f = "Conf_Heights"    -> ConfHeights(nd)
    [] f = "C16_SameState"   -> C16SameState(nd)
    [] f = "C16_SameResults" -> C16SameResults(nd)
    [] f = "C16_SameEvents"  -> C16SameEvents(nd)
Judge == \A k \in 1..Len(Formulas) : Holds(Formulas[k], cur) \/ PrintT(<<"FAIL", Formulas[k], cur>>)

ReplicaNames == {Nd(j).args.r : j \in {k \in 1..NLog : IsBlock(Nd(k))}}
Stats == PrintT(<<"STATS", [nodes |-> NLog,
   replicas  |-> Cardinality(ReplicaNames),
   blocks    |-> MaxH + 1,
   compared  |-> Cardinality({j \in 1..NLog : IsBlock(Nd(j)) /\ Nd(j).args.r # Ref /\ HasRef(Nd(j))}),
   txs       |-> Cardinality({<<j, k>> \in {<<a, b>> \in (1..NLog) \X (1..200) : IsBlock(Nd(a)) /\ Nd(a).args.r = Ref /\ b <= Nd(a).st.ntx} : TRUE}),
   okTxs     |-> Cardinality({<<a, b>> \in (1..NLog) \X (1..200) : IsBlock(Nd(a)) /\ Nd(a).args.r = Ref /\ b <= Nd(a).st.ntx /\ Nd(a).st.txs[b].ok}),
   reruns    |-> Cardinality({j \in 1..NLog : IsRerun(Nd(j)) /\ Nd(j).args.n > 1}),
   rerunBlocks |-> Cardinality(RerunHs),
   rerunFailedTxs |-> Cardinality({<<a, b>> \in RerunFirst \X (1..200) : b <= Nd(a).st.ntx /\ ~Nd(a).st.txs[b].ok}),
   refBlocksWithEvents |-> Cardinality({j \in RefIds : Nd(j).st.evs.n > 0}),
   halted    |-> Cardinality({j \in 1..NLog : IsBlock(Nd(j)) /\ (Nd(j).res.begin \/ Nd(j).res.end)}) ]>>)
AllSeen == Stats /\ TLCGet("stats").distinct = NLog
=============================================================================
