------------------------------ MODULE Controls ------------------------------
(* C14 — emergency controls fail closed.                                                              *)
(* Controls of one app:  breaker (KillSwitchParams.BreakerEnable), shutdown status                    *)
(*   esm \in {"off",                                                                                  *)
(*           "fresh"   executed in this very block: the shutdown hook has not run yet, no price snapshot, *)
(*           "blocked" executed, blocks have passed, but the price snapshot cannot complete because the  *)
(*                     feed of some oracle-priced asset is inactive,                                     *)
(*           "cool"    executed, snapshot taken, cool-off running,                                       *)
(*           "after"   executed, snapshot taken, cool-off over},                                         *)
(*   off = set of price roles whose oracle price is inactive.                                         *)
(* Required*  : what the property statement demands of a handler under a control setting.             *)
(* Impl*      : the guard sequence as coded (conformance: recorded outcome = ImplOk on a fixture on   *)
(*              which the same message succeeds with all controls off).                               *)
EXTENDS Catalogue

Roles4 == {"in", "out", "t1", "t2"}
EsmStates == {"off", "fresh", "blocked", "cool", "after"}
NoSnapshot == {"fresh", "blocked"}
Ctl(b, e, o) == [breaker |-> b, esm |-> e, off |-> o]
CtlOff == Ctl(FALSE, "off", {})
Settings == {Ctl(b, e, o) : b \in BOOLEAN, e \in EsmStates, o \in SUBSET Roles4}

(* price roles of a row on a product: a vault product whose debt asset has a fixed price needs no "out" price *)
(* Position shapes ("products") of a row: vault products with an oracle-priced / a fixed-price debt asset; for the borrow rows a
   same-pool position ("na") and a CROSS-POOL position ("cross": collateral lent in one pool, debt taken from another pool, the
   value bridged through the collateral pool's two transit assets; the collateral is not itself a transit asset).
   Price roles of a cross-pool position: in = collateral, out = debt, t1 / t2 = the two transit assets. *)
Products == {"oracle", "fixed", "na", "cross"}
CrossRows == {"lend.DepositBorrow", "lend.Draw", "lend.Repay", "lend.CloseBorrow"}
(* adding collateral to a cross-pool borrow re-computes the bridged amount from the collateral's value: it needs the collateral price *)
Px(r, prod) == IF prod = "fixed" THEN r.px \ {"out"}
               ELSE IF prod = "cross" /\ r.id = "lend.DepositBorrow" THEN {"in"}
               ELSE r.px
(* as coded, adding collateral to a cross-pool borrow also reads both transit prices (a further draw does not) *)
Ip(r, prod) == IF prod = "fixed" THEN r.ip \ {"out"}
               ELSE IF prod = "cross" /\ r.id = "lend.DepositBorrow" THEN {"in", "t1", "t2"}
               ELSE r.ip

(* ---------------------------------------------------------------------------------------------- *)
(* The property (from the statement)                                                               *)
(* "While an app's circuit breaker is enabled, no message can open, enlarge or draw from a vault,   *)
(*  locker or lending/borrowing position of that app, vault repay/close/withdraw are refused"        *)
BreakerReq(r, c) ==
  c.breaker /\ r.pk \in ControlledKinds /\
    ( r.eff \in {"open", "enlarge", "draw"}
      \/ (r.pk \in {"vault", "stable"} /\ r.eff \in {"repay", "close", "withdraw"})
      \/ r.anch )
(* "After emergency shutdown has been executed for an app, no message can mint new debt for it" *)
ShutdownReq(r, c) == c.esm # "off" /\ r.mint
(* "collateral withdrawal is possible only until the cool-off period ends" *)
CoolOffReq(r, c) == c.esm = "after" /\ r.wdr
(* "Whenever the oracle price needed by an operation is missing or inactive, that operation fails": the   *)
(* oracle price is what the operation needs while no shutdown snapshot replaces it                      *)
PriceReq(r, prod, c) == c.esm = "off" /\ Px(r, prod) \cap c.off # {}

MustReject(r, prod, c) == BreakerReq(r, c) \/ ShutdownReq(r, c) \/ CoolOffReq(r, c) \/ PriceReq(r, prod, c)

(* ---------------------------------------------------------------------------------------------- *)
(* The handlers' guards as coded                                                                   *)
ImplBreaker(r, c) == c.breaker /\ r.ib
ImplEsm(r, c)     == \/ r.ie = "all" /\ c.esm # "off"
                     \/ r.ie = "after" /\ c.esm = "after"
ImplPrice(r, prod, c) == Ip(r, prod) \cap c.off # {} /\ ~(r.snap /\ c.esm # "off")
(* named deviation: a handler that values with the shutdown snapshot fails (nil decimal, recovered panic) while shutdown *)
(* is executed but the snapshot does not exist yet                                                                     *)
ImplNoSnapshot(r, c) == r.snap /\ c.esm \in NoSnapshot
ImplOk(r, prod, c) == ~(ImplBreaker(r, c) \/ ImplEsm(r, c) \/ ImplPrice(r, prod, c) \/ ImplNoSnapshot(r, c))

(* nothing is left unpredicted since the market bid checks its debt price record (repair faaa56e) *)
ImplUnpredicted(r, c, pm) == FALSE

(* the step of the abstract state: a rejected message leaves the abstract app state unchanged *)
Step(s, r, prod, c) == IF ImplOk(r, prod, c) THEN [ok |-> TRUE, st |-> [s EXCEPT !.ver = s.ver + 1]]
                       ELSE [ok |-> FALSE, st |-> s]

(* design-level statement checked on the model: the coded guards are at least as strict as the property *)
GuardsRefineProperty(r, prod, c) == MustReject(r, prod, c) => ~ImplOk(r, prod, c)

(* ---------------------------------------------------------------------------------------------- *)
(* Block hooks and liquidation messages: "no liquidation sweep or new surplus/debt auction is started for it" *)
Hooks == {"liqV2.sweepVault", "liqV2.sweepBorrow", "liqV2.surplus", "liqV2.debt", "liqV1.sweepVault", "liqV1.sweepBorrow",
          "aucV1.surplus", "aucV1.debt", "liqV2.msgInternalVault", "liqV2.msgInternalBorrow", "liqV1.msgVault", "liqV1.msgBorrow",
          "app.blockHarbor", "app.blockCommodo",     \* the application's whole begin/end-block pipeline with every trigger armed
          \* the same vault sweeps with the controls on the TWIN vault app (a second app in the same sweep loops) while harbor is
          \* uncontrolled and has work; in the plain cells above it is the other way round (harbor controlled, twin has work)
          "liqV2.sweepVault@twin", "liqV1.sweepVault@twin", "app.block@twin"}
TwinHooks == {"liqV2.sweepVault@twin", "liqV1.sweepVault@twin", "app.block@twin"}
HookApp(h) == IF h \in {"liqV2.sweepBorrow", "liqV2.msgInternalBorrow", "liqV1.sweepBorrow", "liqV1.msgBorrow", "app.blockCommodo"} THEN "commodo" ELSE IF h \in TwinHooks THEN "twin" ELSE "harbor"
(* hooks that value the position with the collateral's oracle price before they seize it *)
HookNeedsPrice(h) == h \in {"liqV2.sweepVault", "liqV2.sweepBorrow", "liqV1.sweepVault", "liqV1.sweepBorrow", "liqV2.sweepVault@twin", "liqV1.sweepVault@twin",
                            "liqV2.msgInternalVault", "liqV2.msgInternalBorrow", "liqV1.msgVault", "liqV1.msgBorrow"}
(* under a breaker the hook must neither seize a position nor start an auction for the app; nor may it seize anything
   when the oracle price it has to value the collateral with is missing or inactive *)
HookBreakerReq(h, c) == c.breaker
HookPriceReq(h, c)   == c.esm = "off" /\ HookNeedsPrice(h) /\ c.off # {}
HookMustIdle(h, c)   == HookBreakerReq(h, c) \/ HookPriceReq(h, c)
(* as coded: the sweeps also idle once shutdown is executed, except the V2 borrow sweep and the V2 surplus/debt starter *)
ImplHookIdle(h, c) == c.breaker \/ (HookNeedsPrice(h) /\ c.off # {}) \/ (c.esm # "off" /\ h \in {"liqV2.sweepVault", "liqV1.sweepVault", "liqV2.sweepVault@twin", "liqV1.sweepVault@twin", "app.block@twin", "aucV1.surplus", "aucV1.debt",
                                                             "liqV2.msgInternalVault", "liqV1.msgVault"})

(* ---------------------------------------------------------------------------------------------- *)
(* Per-block steps on LIVE Dutch auctions (one atomic unit per auction): price update while the auction runs, restart   *)
(* when it has expired. "Whenever the oracle price needed by an operation is missing or inactive, that operation fails  *)
(* without any state change": with a needed price off the auction's record must be exactly as before the block.         *)
(* Roles: "in" = collateral being sold, "out" = debt asset being collected.                                             *)
AuctionSteps == {"aucV1.dutchTick", "aucV1.dutchRestart", "aucV1.lendTick", "aucV1.lendRestart", "aucV2.tick", "aucV2.restart"}
AucApp(h) == IF h \in {"aucV1.lendTick", "aucV1.lendRestart"} THEN "commodo" ELSE "harbor"
(* the V1 update decays the auction price with time only and records the debt asset's oracle price; a restart re-bases  *)
(* the price curve on the collateral's oracle price; the V2 step records both oracle prices on every update             *)
AucNeeds(h) == IF h \in {"aucV1.dutchTick", "aucV1.lendTick"} THEN {"out"} ELSE IO
AucPriceReq(h, off) == AucNeeds(h) \cap off # {}
(* as coded: the unit returns an error (and is rolled back) exactly when a needed price is off *)
ImplAucFrozen(h, off) == AucNeeds(h) \cap off # {}
=============================================================================
