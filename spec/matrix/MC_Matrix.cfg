SPECIFICATION Spec
CONSTANT Emit = TRUE
INVARIANTS Tables RejectedChangesNothingM DesignC12 DesignC14 FailOpenElsewhere BidDeviation
CHECK_DEADLOCK FALSE
