SPECIFICATION Spec
CONSTANT Emit = TRUE
INVARIANTS Tables RejectedChangesNothingM DesignC12 DesignC14 FailOpenElsewhere
CHECK_DEADLOCK FALSE
