---------------------------- MODULE Trace_Matrix ----------------------------
(* Judges the cells executed by `vh matrix` on the REAL comdex code. Every log node is one TLC state.     *)
(*   C12_* / C14_* : the property formulas (Auth.tla / Controls.tla) on the recorded outcome              *)
(*   Conf_*        : recorded outcome = outcome of the guards as transcribed in the spec (never an alarm) *)
(* Node kinds (field a): Catalogue, State, Own, Priv, Kill, Ctl, Hook. A cell's args are the cell exactly  *)
(* as MC_Matrix printed it plus `ref` = id of the node that shows the same message succeeding without the  *)
(* guard under test (owner signs / designated contract on comdex-1 / all controls off) in the same state.  *)
EXTENDS Auth, Controls, TLC, Json
CONSTANT LogFile
Log  == ndJsonDeserialize(LogFile)
NLog == Len(Log)

VARIABLE cur
Init == cur \in 1..NLog
Next == UNCHANGED cur
Spec == Init /\ [][Next]_cur

Nd(i)      == Log[i]
Range(s)   == {s[k] : k \in 1..Len(s)}
Same(nd)   == nd.st.pre = nd.st.post
RefOk(nd)  == nd.args.ref > 0 /\ Log[nd.args.ref].res.ok
CtlOfN(nd) == Ctl(nd.args.breaker, nd.args.esm, Range(nd.args.off))
RowOfN(nd) == Row(nd.args.h)

(* ---------------------------------- C12 ---------------------------------- *)
C12OwnerOnly(nd)   == nd.a = "Own" => OwnerOnly(Row(nd.args.msg), nd.args.holder, nd.args.signer, nd.res.ok)
C12Victim(nd)      == /\ nd.a = "Own" => VictimUntouched(nd.args.holder, nd.args.signer, nd.st.vpre, nd.st.vpost)
                      /\ nd.a = "Open" => OpenVictimsUntouched(nd.st.vpre, nd.st.vpost)
C12Rejected(nd)    == nd.a \in {"Own", "Open", "Priv", "Kill"} => RejectedChangesNothing(nd.res.ok, nd.st.pre, nd.st.post)
C12Privileged(nd)  == nd.a = "Priv" => PrivilegedOnlyDesignated(nd.args.chain, nd.args.sender, nd.res.ok)
C12PrivRole(nd)    == nd.a = "Priv" => PrivilegedRole(nd.args.v, nd.args.chain, nd.args.sender, nd.res.ok)
C12PrivElse(nd)    == nd.a = "Priv" => PrivilegedElsewhere(nd.args.chain, nd.args.sender, nd.res.ok)
C12Kill(nd)        == nd.a = "Kill" => KillOnlyAdmin(nd.args.adm, nd.args.sender, nd.res.ok)

ConfOwner(nd) == nd.a = "Own" /\ RefOk(nd) /\ OwnerPredicted(Row(nd.args.msg), nd.args.holder, nd.args.signer, nd.args.amt, nd.args.scope) =>
                   nd.res.ok = OwnerStep(Pos0(nd.args.holder), Row(nd.args.msg), nd.args.signer, TRUE).ok
ConfPriv(nd)  == nd.a = "Priv" /\ RefOk(nd) => nd.res.ok = ImplPrivOk(nd.args.v, nd.args.chain, nd.args.sender)
ConfKill(nd)  == nd.a = "Kill" => nd.res.ok = ImplKillOk(nd.args.adm, nd.args.sender)
ConfCatalogue(nd) == nd.a = "Catalogue" => Range(nd.st.ids) = Ids

(* ---------------------------------- C14 ---------------------------------- *)
Refused(nd)       == ~nd.res.ok /\ Same(nd)
C14Breaker(nd)    == nd.a = "Ctl" /\ BreakerReq(RowOfN(nd), CtlOfN(nd)) => Refused(nd)
C14Shutdown(nd)   == nd.a = "Ctl" /\ ShutdownReq(RowOfN(nd), CtlOfN(nd)) => Refused(nd)
C14CoolOff(nd)    == nd.a = "Ctl" /\ CoolOffReq(RowOfN(nd), CtlOfN(nd)) => Refused(nd)
C14Price(nd)      == nd.a = "Ctl" /\ PriceReq(RowOfN(nd), nd.args.prod, CtlOfN(nd)) => Refused(nd)
C14FailsClosed(nd) == nd.a = "Ctl" /\ ~nd.res.ok => Same(nd)
(* "no liquidation sweep or new surplus/debt auction is started": no position newly seized, no auction newly started (by identity; a hook that  *)
(* only retires a locked vault or an auction - an emergency close-out, an auction that ends - has started nothing)                             *)
HookIdle(nd)      == nd.st.seizedNew = 0 /\ nd.st.aucNew = 0
HookCtl(nd)       == Ctl(nd.args.breaker, nd.args.esm, Range(nd.args.off))
C14HookBreaker(nd) == nd.a = "Hook" /\ HookBreakerReq(nd.args.hook, HookCtl(nd)) => HookIdle(nd)
C14HookPrice(nd)  == nd.a = "Hook" /\ HookPriceReq(nd.args.hook, HookCtl(nd)) => HookIdle(nd)
C14NoPanic(nd)    == nd.a \in {"Ctl", "Hook"} /\ nd.args.breaker => ~nd.res.panic

(* live-auction steps: the projected auction records (price, start / end time, status, amounts) before and after the block *)
AucMoved(nd)      == nd.st.apre # nd.st.apost
C14AucPrice(nd)   == nd.a = "Auc" /\ AucPriceReq(nd.args.hook, Range(nd.args.off)) => ~AucMoved(nd)
ConfAuc(nd)       == nd.a = "Auc" /\ nd.args.ref > 0 /\ AucMoved(Log[nd.args.ref]) =>
                       AucMoved(nd) = ~ImplAucFrozen(nd.args.hook, Range(nd.args.off))

ConfCtl(nd)  == nd.a = "Ctl" /\ RefOk(nd) /\ ~ImplUnpredicted(RowOfN(nd), CtlOfN(nd), nd.args.pm) => nd.res.ok = ImplOk(RowOfN(nd), nd.args.prod, CtlOfN(nd))
HookActed(nd) == ~HookIdle(nd)
ConfHook(nd) == nd.a = "Hook" /\ nd.args.ref > 0 /\ HookActed(Log[nd.args.ref]) =>
                  HookActed(nd) = ~ImplHookIdle(nd.args.hook, HookCtl(nd))

Formulas == <<"C12_OwnerOnly", "C12_VictimUntouched", "C12_RejectedChangesNothing", "C12_Privileged", "C12_PrivilegedRole",
              "C12_PrivilegedOtherNetwork", "C12_KillSwitch",
              "C14_Breaker", "C14_Shutdown", "C14_CoolOff", "C14_PriceMissing", "C14_FailsClosed", "C14_HookBreaker", "C14_HookPriceMissing", "C14_AuctionPriceMissing", "Conf_Auc",
              "Conf_Owner", "Conf_Priv", "Conf_Kill", "Conf_Catalogue", "Conf_Ctl", "Conf_Hook">>
Holds(f, i) ==
  LET nd == Nd(i) IN
  CASE f = "C12_OwnerOnly" -> C12OwnerOnly(nd)
    [] f = "C12_VictimUntouched" -> C12Victim(nd)
    [] f = "C12_RejectedChangesNothing" -> C12Rejected(nd)
    [] f = "C12_Privileged" -> C12Privileged(nd)
    [] f = "C12_PrivilegedRole" -> C12PrivRole(nd)
    [] f = "C12_PrivilegedOtherNetwork" -> C12PrivElse(nd)
    [] f = "C12_KillSwitch" -> C12Kill(nd)
    [] f = "C14_Breaker" -> C14Breaker(nd)
    [] f = "C14_Shutdown" -> C14Shutdown(nd)
    [] f = "C14_CoolOff" -> C14CoolOff(nd)
    [] f = "C14_PriceMissing" -> C14Price(nd)
    [] f = "C14_FailsClosed" -> C14FailsClosed(nd)
    [] f = "C14_HookBreaker" -> C14HookBreaker(nd)
    [] f = "C14_HookPriceMissing" -> C14HookPrice(nd)
    [] f = "C14_AuctionPriceMissing" -> C14AucPrice(nd)
    [] f = "Conf_Auc" -> ConfAuc(nd)
    [] f = "Conf_Owner" -> ConfOwner(nd)
    [] f = "Conf_Priv" -> ConfPriv(nd)
    [] f = "Conf_Kill" -> ConfKill(nd)
    [] f = "Conf_Catalogue" -> ConfCatalogue(nd)
    [] f = "Conf_Ctl" -> ConfCtl(nd)
    [] f = "Conf_Hook" -> ConfHook(nd)

Judge == \A k \in 1..Len(Formulas) : Holds(Formulas[k], cur) \/ PrintT(<<"FAIL", Formulas[k], cur>>)

(* ---------------------------------- vacuity counters ---------------------------------- *)
Cnt(P(_)) == Cardinality({i \in 1..NLog : P(Nd(i))})
IsOwn(nd)        == nd.a = "Own"
OwnForeign(nd)   == nd.a = "Own" /\ nd.args.signer # nd.args.holder /\ Row(nd.args.msg).own = "id" /\ RefOk(nd)   \* foreign attempt on a position its owner can move
OwnSignerKeyed(nd) == nd.a = "Own" /\ nd.args.signer # nd.args.holder /\ Row(nd.args.msg).own = "signer" /\ RefOk(nd)
OwnForeignWhole(nd) == OwnForeign(nd) /\ nd.args.amt = "whole"       \* foreign attempt naming exactly the whole balance, which the holder himself can move
OwnForeignOver(nd)  == nd.a = "Own" /\ nd.args.signer # nd.args.holder /\ nd.args.amt = "over"
OwnOtherScope(nd)   == nd.a = "Own" /\ nd.args.signer # nd.args.holder /\ nd.args.scope # "home"
OwnScopeWitness(nd) == nd.a = "Own" /\ nd.args.signer = nd.args.holder /\ nd.args.scope # "home" /\ nd.res.ok /\ ~Same(nd)   \* the holder really has orders in the other pair / app
OwnOwnerOk(nd)   == nd.a = "Own" /\ nd.args.signer = nd.args.holder /\ nd.res.ok /\ ~Same(nd)
PrivGuarded(nd)  == nd.a = "Priv" /\ nd.args.chain \in MainTest /\ RefOk(nd)
PrivAccepted(nd) == nd.a = "Priv" /\ nd.args.chain \in MainTest /\ nd.res.ok /\ ~Same(nd)
PrivElse(nd)     == nd.a = "Priv" /\ nd.args.chain \notin MainTest /\ nd.args.sender # "admin" /\ RefOk(nd)
KillRej(nd)      == nd.a = "Kill" /\ nd.args.sender \notin ConfiguredAdmins(nd.args.adm)     \* attempts by a non-admin (defined on the cell, not on the outcome)
KillAcc(nd)      == nd.a = "Kill" /\ nd.res.ok
OpenOk(nd)       == nd.a = "Open" /\ nd.res.ok /\ ~Same(nd)
OpenHoleOk(nd)   == OpenOk(nd) /\ nd.args.hole /\ nd.st.holed        \* an older position of that kind really was removed first
OpenWitnessed == {Nd(i).args.msg : i \in {j \in 1..NLog : OpenHoleOk(Nd(j))}}
HoleyState(nd)   == nd.a = "State" /\ nd.args.k < 0
KillRotatedAcc(nd) == nd.a = "Kill" /\ nd.args.adm = "rotated" /\ nd.res.ok          \* the rotation really took effect
KillEmptyRej(nd) == nd.a = "Kill" /\ nd.args.adm = "empty"                                  \* attempts while no admin is configured
PrivPayload(nd)  == nd.a = "Priv" /\ nd.args.chain \in MainTest /\ nd.args.pay = "designated" /\ nd.args.sender # nd.args.des /\ RefOk(nd)
CtlBreaker(nd)   == nd.a = "Ctl" /\ BreakerReq(RowOfN(nd), CtlOfN(nd)) /\ RefOk(nd)
CtlShutdown(nd)  == nd.a = "Ctl" /\ ShutdownReq(RowOfN(nd), CtlOfN(nd)) /\ RefOk(nd)
CtlCoolOff(nd)   == nd.a = "Ctl" /\ CoolOffReq(RowOfN(nd), CtlOfN(nd)) /\ RefOk(nd)
CtlCoolWitness(nd) == nd.a = "Ctl" /\ nd.args.esm = "cool" /\ ~nd.args.breaker /\ RowOfN(nd).wdr /\ nd.res.ok   \* withdrawal inside the cool-off succeeded
CtlPrice(nd)     == nd.a = "Ctl" /\ PriceReq(RowOfN(nd), nd.args.prod, CtlOfN(nd)) /\ ~BreakerReq(RowOfN(nd), CtlOfN(nd)) /\ RefOk(nd)
CtlNoSnapshot(nd)   == nd.a = "Ctl" /\ nd.args.esm \in NoSnapshot /\ ShutdownReq(RowOfN(nd), CtlOfN(nd)) /\ RefOk(nd)
CtlPriceInactive(nd) == CtlPrice(nd) /\ nd.args.pm = "inactive"
CtlPriceMissingM(nd) == CtlPrice(nd) /\ nd.args.pm = "missing"
CtlCross(nd)     == CtlPrice(nd) /\ nd.args.prod = "cross"        \* needed price of a cross-pool position off, same message succeeds with prices on
CtlRefOk(nd)     == nd.a = "Ctl" /\ nd.args.ref = nd.id /\ nd.res.ok
CtlRef(nd)       == nd.a = "Ctl" /\ nd.args.ref = nd.id
CtlFree(nd)      == nd.a = "Ctl" /\ ~MustReject(RowOfN(nd), nd.args.prod, CtlOfN(nd)) /\ nd.res.ok
HookBreaker(nd)  == nd.a = "Hook" /\ nd.args.breaker /\ nd.args.ref > 0 /\ HookActed(Log[nd.args.ref])
HookPrice(nd)    == nd.a = "Hook" /\ HookPriceReq(nd.args.hook, HookCtl(nd)) /\ ~nd.args.breaker /\ nd.args.ref > 0 /\ HookActed(Log[nd.args.ref])
HookPeerBusy(nd) == nd.a = "Hook" /\ nd.args.breaker /\ nd.st.peerNew > 0     \* controlled app idle-checked while the other app of the same loop was processed
HookRefActs(nd)  == nd.a = "Hook" /\ nd.args.ref = nd.id /\ HookActed(nd)
HookRef(nd)      == nd.a = "Hook" /\ nd.args.ref = nd.id
IsState(nd)      == nd.a = "State"
AucPrice(nd)     == nd.a = "Auc" /\ AucPriceReq(nd.args.hook, Range(nd.args.off)) /\ nd.args.ref > 0 /\ AucMoved(Log[nd.args.ref])
AucRefMoved(nd)  == nd.a = "Auc" /\ nd.args.ref = nd.id /\ AucMoved(nd)
AucWitnessed  == {Nd(i).args.hook : i \in {j \in 1..NLog : AucRefMoved(Nd(j))}}
(* evidence notes (observed, never judged): messages reported as successful that changed nothing at all, and rejected
   messages whose handler had already written before failing (nothing-changed then rests on transaction atomicity) *)
OkNoEffect(nd)   == nd.a \in {"Own", "Ctl"} /\ nd.res.ok /\ Same(nd)
RejectedDirty(nd) == nd.a \in {"Own", "Ctl"} /\ ~nd.res.ok /\ nd.st.dirty
(* breadth of the non-vacuity witnesses: how many rows / variants / hooks were seen succeeding without the guard *)
OwnWitnessed  == {Nd(i).args.msg : i \in {j \in 1..NLog : OwnOwnerOk(Nd(j))}}
PrivWitnessed == {Nd(i).args.v : i \in {j \in 1..NLog : PrivAccepted(Nd(j))}}
CtlWitnessed  == {<<Nd(i).args.h, Nd(i).args.prod>> : i \in {j \in 1..NLog : CtlRefOk(Nd(j))}}
CtlAll        == {<<Nd(i).args.h, Nd(i).args.prod>> : i \in {j \in 1..NLog : CtlRef(Nd(j))}}
HookWitnessed == {Nd(i).args.hook : i \in {j \in 1..NLog : HookRefActs(Nd(j))}}

Stats == PrintT(<<"STATS", [nodes |-> NLog, states |-> Cnt(IsState), own |-> Cnt(IsOwn),
           ownForeign |-> Cnt(OwnForeign), ownSignerKeyed |-> Cnt(OwnSignerKeyed), ownOwnerOk |-> Cnt(OwnOwnerOk),
           ownForeignWhole |-> Cnt(OwnForeignWhole), ownForeignOver |-> Cnt(OwnForeignOver), ownOtherScope |-> Cnt(OwnOtherScope),
           ownScopeWitness |-> Cnt(OwnScopeWitness), ctlNoSnapshot |-> Cnt(CtlNoSnapshot),
           ctlPriceInactive |-> Cnt(CtlPriceInactive), ctlCrossPool |-> Cnt(CtlCross), ctlPriceMissing |-> Cnt(CtlPriceMissingM),
           privGuarded |-> Cnt(PrivGuarded), privAccepted |-> Cnt(PrivAccepted), privElsewhere |-> Cnt(PrivElse),
           openOk |-> Cnt(OpenOk), openAfterHole |-> Cnt(OpenHoleOk), openMsgs |-> Cardinality(OpenMsgs), openMsgsWitnessed |-> Cardinality(OpenWitnessed),
           holeyStates |-> Cnt(HoleyState), killForeign |-> Cnt(KillRej), killAccepted |-> Cnt(KillAcc), killRotatedAccepted |-> Cnt(KillRotatedAcc),
           killEmptyList |-> Cnt(KillEmptyRej), privPayloadNamesDesignated |-> Cnt(PrivPayload),
           ctlBreaker |-> Cnt(CtlBreaker), ctlShutdown |-> Cnt(CtlShutdown), ctlCoolOff |-> Cnt(CtlCoolOff),
           ctlCoolWitness |-> Cnt(CtlCoolWitness), ctlPrice |-> Cnt(CtlPrice), ctlRef |-> Cnt(CtlRef), ctlRefOk |-> Cnt(CtlRefOk),
           ctlFreeOk |-> Cnt(CtlFree), hookBreaker |-> Cnt(HookBreaker), hookPeerBusy |-> Cnt(HookPeerBusy), hookPrice |-> Cnt(HookPrice), hookRef |-> Cnt(HookRef), hookRefActs |-> Cnt(HookRefActs),
           noteOkNoEffect |-> Cnt(OkNoEffect), noteRejectedAfterWrites |-> Cnt(RejectedDirty),
           aucPrice |-> Cnt(AucPrice), aucRefMoved |-> Cnt(AucRefMoved),
           aucSteps |-> Cardinality(AuctionSteps), aucStepsWitnessed |-> Cardinality(AucWitnessed),
           ownRows |-> Cardinality(OwnerRows), ownRowsWitnessed |-> Cardinality(OwnWitnessed),
           variants |-> Cardinality(Variants), variantsWitnessed |-> Cardinality(PrivWitnessed),
           ctlHandlers |-> Cardinality(CtlAll), ctlHandlersWitnessed |-> Cardinality(CtlWitnessed),
           hooks |-> Cardinality(Hooks), hooksWitnessed |-> Cardinality(HookWitnessed)]>>)
AllSeen == Stats /\ TLCGet("stats").distinct = NLog
=============================================================================
