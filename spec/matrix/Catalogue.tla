------------------------------ MODULE Catalogue ------------------------------
(* Message catalogue of the comdex DeFi modules (one row per Msg service method) and what the two     *)
(* matrices C12 / C14 need to know about every row.                                                   *)
(*                                                                                                    *)
(* Columns written from the PROPERTY STATEMENTS / ANCHORS (they say what must hold):                  *)
(*   own   "id"     the message names a position id        -> only the owner may succeed (C12)        *)
(*         "signer" the position is looked up by the signer -> nobody else's position may change (C12) *)
(*         "none"   not a position message / not constrained by C12                                   *)
(*   pk    position kind the message acts on                                                          *)
(*   eff   what it does to the position: open / enlarge / draw / repay / close / withdraw / reduce /  *)
(*         other                                                                                      *)
(*   mint  TRUE iff the message mints new debt of the app                                             *)
(*   wdr   TRUE iff the message hands vault collateral back                                            *)
(*   px    price roles the operation has to value ("in" = collateral / supplied asset, "out" = debt /  *)
(*         borrowed asset; for vault products whose debt asset is not oracle-priced "out" is dropped)  *)
(*   anch  TRUE iff the C14 anchors list a breaker guard for the handler although the statement's      *)
(*         wording (open / enlarge / draw from; vault repay / close / withdraw) does not name it        *)
(*                                                                                                    *)
(* Columns transcribed from the CODE (implementation-shaped part; used for conformance only):         *)
(*   ib    the handler has a breaker guard                                                             *)
(*   ie    its shutdown guard: "all" (rejects once executed), "after" (rejects after cool-off), "none"  *)
(*   ip    price roles the code consults                                                               *)
(*   snap  TRUE iff the code values with the shutdown price snapshot once shutdown is executed          *)
(*   exec  TRUE iff the control matrix contains cells for the row                                       *)
EXTENDS Integers, Sequences, FiniteSets

R(id, app, pk, own, eff, mint, wdr, px, anch, ib, ie, ip, snap, exec) ==
  [id |-> id, app |-> app, pk |-> pk, own |-> own, eff |-> eff, mint |-> mint, wdr |-> wdr, px |-> px, anch |-> anch,
   ib |-> ib, ie |-> ie, ip |-> ip, snap |-> snap, exec |-> exec]

IO == {"in", "out"}
I  == {"in"}
N  == {}

(* rows without any expectation in C12 / C14: explicitly unconstrained (observed only, never judged) *)
U(id, app) == R(id, app, "none", "none", "other", FALSE, FALSE, N, FALSE, FALSE, "none", N, FALSE, FALSE)

Rows == {
  \* ---------------- vault (app harbor) ----------------
  R("vault.MsgCreate",            "harbor", "vault",  "none", "open",     TRUE,  FALSE, IO, FALSE, TRUE, "all",   IO, FALSE, TRUE),
  R("vault.MsgDeposit",           "harbor", "vault",  "id",   "enlarge",  FALSE, FALSE, N,  FALSE, TRUE, "all",   N,  FALSE, TRUE),
  R("vault.MsgWithdraw",          "harbor", "vault",  "id",   "withdraw", FALSE, TRUE,  IO, FALSE, TRUE, "after", IO, TRUE,  TRUE),
  R("vault.MsgDraw",              "harbor", "vault",  "id",   "draw",     TRUE,  FALSE, IO, FALSE, TRUE, "all",   IO, FALSE, TRUE),
  R("vault.MsgRepay",             "harbor", "vault",  "id",   "repay",    FALSE, FALSE, N,  FALSE, TRUE, "all",   N,  FALSE, TRUE),
  R("vault.MsgClose",             "harbor", "vault",  "id",   "close",    FALSE, TRUE,  N,  FALSE, TRUE, "all",   N,  FALSE, TRUE),
  R("vault.MsgDepositAndDraw",    "harbor", "vault",  "id",   "draw",     TRUE,  FALSE, IO, FALSE, TRUE, "all",   IO, FALSE, TRUE),
  R("vault.MsgCreateStableMint",  "harbor", "stable", "none", "open",     TRUE,  FALSE, N,  FALSE, TRUE, "all",   N,  FALSE, TRUE),
  R("vault.MsgDepositStableMint", "harbor", "stable", "none", "enlarge",  TRUE,  FALSE, N,  FALSE, TRUE, "all",   N,  FALSE, TRUE),
  R("vault.MsgWithdrawStableMint","harbor", "stable", "none", "withdraw", FALSE, TRUE,  N,  FALSE, TRUE, "all",   N,  FALSE, TRUE),
  R("vault.MsgVaultInterestCalc", "harbor", "vault",  "none", "other",    FALSE, FALSE, N,  FALSE, FALSE,"none",  N,  FALSE, TRUE),
  \* ---------------- locker (app harbor) ----------------
  R("locker.MsgCreateLocker",     "harbor", "locker", "none", "open",     FALSE, FALSE, N,  FALSE, TRUE, "all",   N,  FALSE, TRUE),
  R("locker.MsgDepositAsset",     "harbor", "locker", "id",   "enlarge",  FALSE, FALSE, N,  FALSE, TRUE, "all",   N,  FALSE, TRUE),
  R("locker.MsgWithdrawAsset",    "harbor", "locker", "id",   "reduce",   FALSE, FALSE, N,  FALSE, FALSE,"none",  N,  FALSE, TRUE),
  R("locker.MsgCloseLocker",      "harbor", "locker", "id",   "close",    FALSE, FALSE, N,  FALSE, FALSE,"none",  N,  FALSE, TRUE),
  R("locker.MsgLockerRewardCalc", "harbor", "locker", "none", "other",    FALSE, FALSE, N,  FALSE, FALSE,"none",  N,  FALSE, TRUE),
  \* ---------------- lend (app commodo) ----------------
  R("lend.Lend",                  "commodo", "lend",   "none", "open",    FALSE, FALSE, I,  FALSE, TRUE, "none",  I,  FALSE, TRUE),
  R("lend.Deposit",               "commodo", "lend",   "id",   "enlarge", FALSE, FALSE, I,  FALSE, TRUE, "none",  I,  FALSE, TRUE),
  R("lend.Withdraw",              "commodo", "lend",   "id",   "reduce",  FALSE, FALSE, N,  TRUE,  TRUE, "none",  N,  FALSE, TRUE),
  R("lend.CloseLend",             "commodo", "lend",   "id",   "close",   FALSE, FALSE, N,  TRUE,  TRUE, "none",  N,  FALSE, TRUE),
  R("lend.Borrow",                "commodo", "borrow", "id",   "open",    FALSE, FALSE, IO, FALSE, TRUE, "none",  IO, FALSE, TRUE),
  R("lend.BorrowAlternate",       "commodo", "borrow", "none", "open",    FALSE, FALSE, IO, FALSE, TRUE, "none",  IO, FALSE, TRUE),
  R("lend.DepositBorrow",         "commodo", "borrow", "id",   "enlarge", FALSE, FALSE, N,  FALSE, TRUE, "none",  N,  FALSE, TRUE),
  R("lend.Draw",                  "commodo", "borrow", "id",   "draw",    FALSE, FALSE, IO, FALSE, TRUE, "none",  IO, FALSE, TRUE),
  R("lend.Repay",                 "commodo", "borrow", "id",   "repay",   FALSE, FALSE, N,  TRUE,  TRUE, "none",  N,  FALSE, TRUE),
  R("lend.CloseBorrow",           "commodo", "borrow", "id",   "close",   FALSE, FALSE, N,  TRUE,  TRUE, "none",  N,  FALSE, TRUE),
  R("lend.RepayWithdraw",         "commodo", "borrow", "id",   "close",   FALSE, FALSE, N,  TRUE,  TRUE, "none",  N,  FALSE, TRUE),
  R("lend.CalculateInterestAndRewards", "commodo", "lend", "none", "other", FALSE, FALSE, N, FALSE, TRUE, "none", N,  FALSE, TRUE),
  U("lend.FundModuleAccounts", "commodo"), U("lend.FundReserveAccounts", "commodo"),
  \* ---------------- liquidity (app cswap) ----------------
  R("liquidity.CancelOrder",      "cswap", "order", "id",     "close",  FALSE, FALSE, N, FALSE, FALSE, "none", N, FALSE, FALSE),
  R("liquidity.CancelAllOrders",  "cswap", "order", "signer", "close",  FALSE, FALSE, N, FALSE, FALSE, "none", N, FALSE, FALSE),
  R("liquidity.CancelMMOrder",    "cswap", "order", "signer", "close",  FALSE, FALSE, N, FALSE, FALSE, "none", N, FALSE, FALSE),
  R("liquidity.Unfarm",           "cswap", "farm",  "signer", "reduce", FALSE, FALSE, N, FALSE, FALSE, "none", N, FALSE, FALSE),
  R("liquidity.UnfarmAndWithdraw","cswap", "farm",  "signer", "reduce", FALSE, FALSE, N, FALSE, FALSE, "none", N, FALSE, FALSE),
  U("liquidity.CreatePair", "cswap"), U("liquidity.CreatePool", "cswap"), U("liquidity.CreateRangedPool", "cswap"),
  U("liquidity.Deposit", "cswap"), U("liquidity.Withdraw", "cswap"), U("liquidity.LimitOrder", "cswap"),
  U("liquidity.MarketOrder", "cswap"), U("liquidity.MMOrder", "cswap"), U("liquidity.Farm", "cswap"),
  U("liquidity.DepositAndFarm", "cswap"),
  \* ---------------- auctionsV2 ----------------
  \* a market bid on a Dutch auction converts the debt paid into collateral at the auction price: it values the debt asset
  \* (the handler refuses when that record is missing or inactive since the repair faaa56e; before, it read the TWA without looking)
  R("auctionsV2.MsgPlaceMarketBid",   "harbor", "bid", "none", "other", FALSE, FALSE, {"out"}, FALSE, FALSE, "none", {"out"}, FALSE, TRUE),
  R("auctionsV2.MsgDepositLimitBid",  "none", "limitbid", "signer", "enlarge", FALSE, FALSE, N, FALSE, FALSE, "none", N, FALSE, FALSE),
  R("auctionsV2.MsgCancelLimitBid",   "none", "limitbid", "signer", "close",   FALSE, FALSE, N, FALSE, FALSE, "none", N, FALSE, FALSE),
  R("auctionsV2.MsgWithdrawLimitBid", "none", "limitbid", "signer", "reduce",  FALSE, FALSE, N, FALSE, FALSE, "none", N, FALSE, FALSE),
  \* ---------------- liquidation (both generations): judged as hooks, see Controls.tla ----------------
  U("liquidationsV2.MsgLiquidateInternalKeeper", "harbor"),
  \* an external keeper hands in collateral; a Dutch auction priced from the collateral's and the debt asset's oracle price starts
  R("liquidationsV2.MsgLiquidateExternalKeeper", "harbor", "extliq", "none", "other", FALSE, FALSE, IO, FALSE, FALSE, "none", IO, FALSE, TRUE),
  U("liquidationsV2.MsgAppReserveFunds", "none"),
  U("liquidation.MsgLiquidateVault", "harbor"), U("liquidation.MsgLiquidateBorrow", "commodo"),
  \* ---------------- auction V1 ----------------
  U("auction.MsgPlaceSurplusBid", "none"), U("auction.MsgPlaceDebtBid", "none"), U("auction.MsgPlaceDutchBid", "none"),
  U("auction.MsgPlaceDutchLendBid", "none"),
  \* ---------------- esm: MsgKillSwitch is the privileged cell of Auth.tla; the rest are environment actions ----------------
  U("esm.MsgKillSwitch", "none"), U("esm.DepositESM", "none"), U("esm.ExecuteESM", "none"), U("esm.MsgCollateralRedemption", "none"),
  \* ---------------- rewards / collector / tokenmint / asset ----------------
  U("rewards.CreateGauge", "none"), U("rewards.ExternalRewardsLockers", "none"), U("rewards.ExternalRewardsVault", "none"),
  U("rewards.ExternalRewardsLend", "none"), U("rewards.ExternalRewardsStableMint", "none"),
  U("collector.Deposit", "none"), U("tokenmint.MsgMintNewTokens", "none"), U("asset.AddAsset", "none")
}

Ids == {r.id : r \in Rows}
Row(id) == CHOOSE r \in Rows : r.id = id

(* rows that carry at least one expectation of C12 or C14 *)
ConstrainedC12(r) == r.own \in {"id", "signer"}
ControlledKinds == {"vault", "stable", "locker", "lend", "borrow"}
ConstrainedC14(r) == \/ r.pk \in ControlledKinds /\
                         ( r.eff \in {"open", "enlarge", "draw"} \/ (r.pk \in {"vault", "stable"} /\ r.eff \in {"repay", "close", "withdraw"})
                           \/ r.anch \/ r.mint \/ r.wdr )
                     \/ r.px # {}          \* any operation that needs an oracle price, whatever module it belongs to
Unconstrained == {r \in Rows : ~ConstrainedC12(r) /\ ~ConstrainedC14(r)}

(* well-formedness of the table (checked by TLC in MC_Matrix) *)
TableOK ==
  /\ \A r1, r2 \in Rows : r1.id = r2.id => r1 = r2
  /\ \A r \in Rows : /\ r.own \in {"id", "signer", "none"}
                     /\ r.eff \in {"open", "enlarge", "draw", "repay", "close", "withdraw", "reduce", "other"}
                     /\ r.ie \in {"all", "after", "none"}
                     /\ r.px \subseteq IO /\ r.ip \subseteq IO
                     /\ r.app \in {"harbor", "commodo", "cswap", "none"}
                     /\ (r.mint => r.pk \in {"vault", "stable"})          \* only CDP handlers mint debt
                     /\ (r.wdr => r.pk \in {"vault", "stable"})
                     /\ (ConstrainedC14(r) => r.exec)                      \* every constrained row has cells
=============================================================================
