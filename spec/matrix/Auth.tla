-------------------------------- MODULE Auth --------------------------------
(* C12 — only the rightful party can act.                                                             *)
(* (a) owner matrix   : position message x signer                                                     *)
(* (b) privileged     : custom contract-to-chain message variant x chain id x sender, and the kill    *)
(*                      switch x sender                                                               *)
EXTENDS Catalogue

(* ------------------------------------ (a) owner matrix ------------------------------------ *)
(* Holders: the fixture accounts whose positions are named; Signers: every fixture account plus a module address. Every row
   is run against the positions of every holder with every account as signer (so that id coincidences between different
   kinds of records of different users are hit, e.g. a borrow id that equals somebody else's lend id). *)
Holders == {"owner", "other", "risk"}
Signers == {"owner", "other", "risk", "newbie", "admin", "lp", "module"}
OwnerRows == {r \in Rows : r.own \in {"id", "signer"}}

(* Argument axes of an owner cell. Authorisation must not depend on the VALUE of an argument:
   amt   - for messages that carry an amount: zero, a small one, EXACTLY the whole available balance of the named position
           (where handlers take "close the position" shortcuts), and more than that;
   scope - for the order messages, which pair / app the message names: the pair where the market-making orders live
           ("home"), another pair of the same app where the holders keep resting orders whose per-pair ids collide
           with the home pair's ids ("alt"), and a second app with colliding pair and order ids ("decoy").
   The victim view always spans ALL pairs and apps. *)
AmountRows == {"vault.MsgDeposit", "vault.MsgWithdraw", "vault.MsgDraw", "vault.MsgRepay", "vault.MsgDepositAndDraw",
               "locker.MsgDepositAsset", "locker.MsgWithdrawAsset",
               "lend.Deposit", "lend.Withdraw", "lend.Borrow", "lend.DepositBorrow", "lend.Draw", "lend.Repay",
               "liquidity.Unfarm", "liquidity.UnfarmAndWithdraw", "auctionsV2.MsgDepositLimitBid", "auctionsV2.MsgWithdrawLimitBid"}
AmountsOf(r) == IF r.id \in AmountRows THEN {"zero", "small", "whole", "over"} ELSE {"na"}
ScopeRows == {"liquidity.CancelOrder", "liquidity.CancelAllOrders", "liquidity.CancelMMOrder"}
ScopesOf(r) == IF r.id \in ScopeRows THEN {"home", "alt", "decoy"} ELSE {"home"}

(* Abstract position state: who owns it and a version that every successful move / reduce / close bumps. *)
Pos0(holder) == [owner |-> holder, ver |-> 0]
(* The step as the handlers implement it: a message that names the position by id is refused for a foreign
   signer; a message keyed by its signer acts on the signer's OWN position: whether it succeeds depends on what the
   signer holds (environment choice `env`), and it leaves the holder's position pos untouched. *)
OwnerStep(pos, r, signer, env) ==
  IF signer = pos.owner THEN [ok |-> TRUE, pos |-> [pos EXCEPT !.ver = pos.ver + 1]]
  ELSE IF r.own = "id" THEN [ok |-> FALSE, pos |-> pos]
  ELSE [ok |-> env, pos |-> pos]
(* the outcome is predicted by the spec unless it is the signer's own business *)
OwnerPredicted(r, holder, signer, amt, scope) ==
  IF signer = holder THEN amt \in {"na", "small"} /\ scope = "home"      \* the holder's own whole / over-sized request may fail for other reasons
  ELSE r.own = "id"

(* The property on one step (statement: "succeeds only when signed by that position's owner, and a rejected
   attempt changes no balance and no record"):
     names a position id, foreign signer  => refused
     any row, foreign signer              => the holder's position records and balances are exactly as before
     refused                              => nothing changed at all *)
OwnerOnly(r, holder, signer, ok)              == r.own = "id" /\ signer # holder => ~ok
VictimUntouched(holder, signer, vpre, vpost)  == signer # holder => vpre = vpost
RejectedChangesNothing(ok, dpre, dpost) == ~ok => dpre = dpost

(* Opening messages (create a vault / locker / lend / borrow / order / limit bid) name no existing position: whoever sends
   them, no existing position or balance of anybody else may change. They are run by third parties, once on the state as
   it is and once after an OLDER position of the same kind was removed by its owner (a hole in the id sequence while newer
   positions are live), and the whole owner matrix is run again on a state built that way. *)
OpenMsgs == {"vault.MsgCreate", "locker.MsgCreateLocker", "lend.Lend", "lend.BorrowAlternate", "liquidity.LimitOrder",
             "liquidity.MMOrder", "auctionsV2.MsgDepositLimitBid"}
OpenSigners == {"newbie", "lp"}
OpenVictimsUntouched(vpre, vpost) == vpre = vpost          \* combined view of every holder (none of them signs)

(* ------------------------------------ (b) privileged matrix ------------------------------------ *)
(* The 20 custom message variants and what they do (statement: "whitelists assets, sets risk or collector
   parameters, mints or burns governance tokens, or pays out collector funds").
   cls = "governance": configuration decided by governance proposals (whitelists, risk / collector / auction /
         shutdown parameters, burning governance tokens)        -> designated governance contract      (index 0)
   cls = "treasury"  : emission / minting of governance tokens and payout of collector funds
                                                               -> designated emission/treasury contract (index 1) *)
V(v, cls, idx) == [v |-> v, cls |-> cls, idx |-> idx]     \* idx = index used by the dispatcher (transcribed from the code)
Variants == {
  V("MsgWhiteListAssetLocker", "governance", 0),        V("MsgWhitelistAppIDLockerRewards", "governance", 0),
  V("MsgWhitelistAppIDVaultInterest", "governance", 0), V("MsgAddExtendedPairsVault", "governance", 0),
  V("MsgSetCollectorLookupTable", "governance", 0),     V("MsgSetAuctionMappingForApp", "governance", 0),
  V("MsgUpdatePairsVault", "governance", 0),            V("MsgUpdateCollectorLookupTable", "governance", 0),
  V("MsgRemoveWhitelistAssetLocker", "governance", 0),  V("MsgRemoveWhitelistAppIDVaultInterest", "governance", 0),
  V("MsgWhitelistAppIDLiquidation", "governance", 0),   V("MsgRemoveWhitelistAppIDLiquidation", "governance", 0),
  V("MsgAddAuctionParams", "governance", 0),            V("MsgBurnGovTokensForApp", "governance", 0),
  V("MsgAddESMTriggerParams", "governance", 0),
  V("MsgEmissionRewards", "treasury", 1),               V("MsgFoundationEmission", "treasury", 1),
  V("MsgRebaseMint", "treasury", 1),                    V("MsgGetSurplusFund", "treasury", 1),
  V("MsgEmissionPoolRewards", "treasury", 1) }
Variant(v) == CHOOSE x \in Variants : x.v = v

Chains   == {"comdex-1", "comdex-test3", "other"}
MainTest == {"comdex-1", "comdex-test3"}
(* senders: d0 / d1 = the two designated contracts of the chain (of comdex-1 when the chain is "other"),
   o0 / o1 = the designated contracts of the OTHER public network, x = an unrelated contract,
   admin = a configured admin address (esm Params.Admin) *)
Senders == {"d0", "d1", "o0", "o1", "x", "admin"}
Designated(cls) == IF cls = "governance" THEN "d0" ELSE "d1"

(* property, statement-literal: on the main and test networks a privileged message is accepted only from a
   designated governance contract of that network ... *)
PrivilegedOnlyDesignated(chain, sender, ok) == chain \in MainTest /\ ok => sender \in {"d0", "d1"}
(* ... namely from the contract designated for that class of operation ... *)
PrivilegedRole(v, chain, sender, ok) == chain \in MainTest /\ ok => sender = Designated(Variant(v).cls)
(* ... and elsewhere only from configured admin addresses *)
PrivilegedElsewhere(chain, sender, ok) == chain \notin MainTest /\ ok => sender = "admin"

(* as coded: the guard exists only for the two known chain ids (fail-open elsewhere — named deviation) *)
ImplPrivOk(v, chain, sender) == chain \notin MainTest \/ sender = (IF Variant(v).idx = 0 THEN "d0" ELSE "d1")

(* The address-like fields INSIDE the payload of a custom message (mint recipient, account to burn from, payout address) are
   chosen by the caller; authorisation must depend on the calling contract only. pay = whom the payload names. *)
PayloadVariants == {"MsgBurnGovTokensForApp", "MsgFoundationEmission", "MsgRebaseMint", "MsgGetSurplusFund"}
PaysOf(v) == IF v \in PayloadVariants THEN {"caller", "designated", "third"} ELSE {"na"}

(* Kill switch: "accepted only from the configured admin addresses". The configured list is a chain parameter that
   governance can change; adm = state of the list: the fixture's admin, rotated to another address, or empty. *)
AdminStates == {"configured", "rotated", "empty"}
KillSenders == {"admin", "newadmin", "default", "user", "module", "contract"}    \* default = the address hard-coded as genesis default
ConfiguredAdmins(adm) == CASE adm = "configured" -> {"admin"} [] adm = "rotated" -> {"newadmin"} [] adm = "empty" -> {}
KillOnlyAdmin(adm, sender, ok) == ok => sender \in ConfiguredAdmins(adm)
ImplKillOk(adm, sender) == sender \in ConfiguredAdmins(adm)
=============================================================================
