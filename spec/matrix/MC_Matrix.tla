------------------------------ MODULE MC_Matrix ------------------------------
(* Bounded model of the two matrices. The matrix is a finite set of cells; every cell is one transition  *)
(* from the initial state. TLC                                                                         *)
(*   - checks the tables (every catalogue row classified, every constrained row has cells, 20 variants), *)
(*   - checks at design level that the guards AS CODED refine the property (Controls!GuardsRefineProperty, *)
(*     the owner step, the dispatcher's sender guard) and names the one place where they do not          *)
(*     (FailOpenElsewhere),                                                                             *)
(*   - prints every cell as a "T" line: the cells executed by `vh matrix` on the real code.              *)
EXTENDS Auth, Controls, TLC, Json

CONSTANT Emit

(* ---------------- cells ---------------- *)
(* pm = how the price is unavailable: the TWA record is flagged inactive, or there is no record at all *)
PriceModes == {"na", "inactive", "missing"}
OwnCellsAll == {[m |-> "own", msg |-> r.id, holder |-> h, signer |-> s, amt |-> a, scope |-> sc] :
                  r \in OwnerRows, h \in Holders, s \in Signers, a \in {"na", "zero", "small", "whole", "over"}, sc \in {"home", "alt", "decoy"}}
OwnCells  == {c \in OwnCellsAll : c.amt \in AmountsOf(Row(c.msg)) /\ c.scope \in ScopesOf(Row(c.msg))}
(* des = the contract the statement designates for the variant (tells the harness which cell is the non-vacuity reference) *)
PrivCellsAll == {[m |-> "priv", v |-> x.v, chain |-> c, sender |-> s, des |-> Designated(x.cls), pay |-> p] :
                   x \in Variants, c \in Chains, s \in Senders, p \in {"na", "caller", "designated", "third"}}
PrivCells == {c \in PrivCellsAll : c.pay \in PaysOf(c.v)}
OpenCells == {[m |-> "open", msg |-> x, signer |-> s, hole |-> h] : x \in OpenMsgs, s \in OpenSigners, h \in BOOLEAN}
KillCells == {[m |-> "kill", adm |-> a, sender |-> s] : a \in AdminStates, s \in KillSenders}

ExecRows    == {r \in Rows : r.exec}
ProdsOf(r)  == IF r.pk = "vault" /\ r.px = IO THEN {"oracle", "fixed"} ELSE IF r.id \in CrossRows THEN {"na", "cross"} ELSE {"na"}
RolesOf(r)  == IF r.pk \in {"vault", "borrow", "extliq", "bid"} THEN IO ELSE IF r.pk \in {"lend", "stable"} THEN I ELSE {}
(* rows outside the vault / locker / lend handlers are only constrained by the price clause: no breaker / shutdown axis *)
PriceOnly(r) == r.pk \in {"extliq", "bid"}
CtlCells  == {[m |-> "ctl", h |-> r.id, app |-> r.app, prod |-> p, breaker |-> b, esm |-> e, off |-> o, pm |-> pm] :
                 r \in ExecRows, p \in Products, b \in BOOLEAN, e \in EsmStates, o \in SUBSET Roles4, pm \in PriceModes}
(* a cross-pool position has four price roles: each is switched off separately *)
OffOK(c) == IF c.prod = "cross" THEN c.off \subseteq Roles4 /\ Cardinality(c.off) <= 1 ELSE c.off \subseteq RolesOf(Row(c.h))
CtlCellsOK == {c \in CtlCells : c.prod \in ProdsOf(Row(c.h)) /\ OffOK(c) /\ (c.pm = "na" <=> c.off = {})
                                 /\ (PriceOnly(Row(c.h)) => ~c.breaker /\ c.esm = "off")}
HookCells == {[m |-> "hook", hook |-> h, app |-> HookApp(h), breaker |-> b, esm |-> e, off |-> o, pm |-> pm] :
                 h \in Hooks, b \in BOOLEAN, e \in EsmStates, o \in SUBSET I, pm \in PriceModes}
HookCellsOK == {c \in HookCells : (c.pm = "na" <=> c.off = {}) /\ (c.off # {} => HookNeedsPrice(c.hook))}

AucCells  == {[m |-> "auc", hook |-> h, app |-> AucApp(h), off |-> o, pm |-> pm] : h \in AuctionSteps, o \in SUBSET IO, pm \in PriceModes}
AucCellsOK == {c \in AucCells : c.pm = "na" <=> c.off = {}}

CtlOf(c) == Ctl(c.breaker, c.esm, c.off)

(* ---------------- model state: abstract app state + outcome of the last attempt ---------------- *)
VARIABLES cell, st, res
vars == <<cell, st, res>>
St0 == [ver |-> 0, pos |-> Pos0("owner")]
Init == cell = [m |-> "init"] /\ st = St0 /\ res = [ok |-> TRUE]

Out(c) == IF Emit THEN PrintT(<<"T", ToJson(c)>>) ELSE TRUE

DoOwn(c) == \E env \in BOOLEAN :
            LET o == OwnerStep(Pos0(c.holder), Row(c.msg), c.signer, env) IN
            /\ (OwnerPredicted(Row(c.msg), c.holder, c.signer, c.amt, c.scope) => env)        \* env only matters for the unpredicted cells
            /\ cell' = c /\ res' = [ok |-> o.ok] /\ st' = [st EXCEPT !.pos = o.pos]
DoOpen(c) == cell' = c /\ res' = [ok |-> TRUE] /\ st' = [st EXCEPT !.ver = st.ver + 1]      \* touches nobody's position: st.pos unchanged
DoPriv(c) == LET ok == ImplPrivOk(c.v, c.chain, c.sender) IN
            /\ cell' = c /\ res' = [ok |-> ok] /\ st' = IF ok THEN [st EXCEPT !.ver = st.ver + 1] ELSE st
DoKill(c) == LET ok == ImplKillOk(c.adm, c.sender) IN
            /\ cell' = c /\ res' = [ok |-> ok] /\ st' = IF ok THEN [st EXCEPT !.ver = st.ver + 1] ELSE st
DoCtl(c) == LET o == Step(st, Row(c.h), c.prod, CtlOf(c)) IN
            /\ cell' = c /\ res' = [ok |-> o.ok] /\ st' = o.st
DoHook(c) == LET idle == ImplHookIdle(c.hook, Ctl(c.breaker, c.esm, c.off)) IN
            /\ cell' = c /\ res' = [ok |-> ~idle] /\ st' = IF idle THEN st ELSE [st EXCEPT !.ver = st.ver + 1]

DoAuc(c) == LET frozen == ImplAucFrozen(c.hook, c.off) IN
            /\ cell' = c /\ res' = [ok |-> ~frozen] /\ st' = IF frozen THEN st ELSE [st EXCEPT !.ver = st.ver + 1]

Next == /\ cell.m = "init"
        /\ \/ \E c \in OwnCells : DoOwn(c) /\ Out(c)
           \/ \E c \in OpenCells : DoOpen(c) /\ Out(c)
           \/ \E c \in PrivCells : DoPriv(c) /\ Out(c)
           \/ \E c \in KillCells : DoKill(c) /\ Out(c)
           \/ \E c \in CtlCellsOK : DoCtl(c) /\ Out(c)
           \/ \E c \in HookCellsOK : DoHook(c) /\ Out(c)
           \/ \E c \in AucCellsOK : DoAuc(c) /\ Out(c)
Spec == Init /\ [][Next]_vars

(* ---------------- meta-properties of the tables ---------------- *)
Tables ==
  /\ TableOK
  /\ Cardinality(Variants) = 20
  /\ Cardinality({x \in Variants : x.cls = "governance"}) = 15 /\ Cardinality({x \in Variants : x.cls = "treasury"}) = 5
  /\ \A x, y \in Variants : x.v = y.v => x = y
  /\ \A r \in Rows : ConstrainedC12(r) \/ ConstrainedC14(r) \/ r \in Unconstrained      \* every row classified
  /\ \A r \in Rows : ConstrainedC14(r) => \E c \in CtlCellsOK : c.h = r.id /\ CtlOf(c) = CtlOff   \* non-vacuity reference exists
  /\ OpenMsgs \subseteq Ids
  /\ \A r \in OwnerRows : \E c \in OwnCells : c.msg = r.id /\ c.signer = c.holder

(* ---------------- design-level results (the model as coded against the property) ---------------- *)
RejectedChangesNothingM == ~res.ok => st.ver = 0 /\ st.pos.ver = 0
DesignC12 ==
  /\ cell.m = "own"  => OwnerOnly(Row(cell.msg), cell.holder, cell.signer, res.ok) /\ (cell.signer # cell.holder => st.pos = Pos0(cell.holder))
  /\ cell.m = "open" => st.pos = St0.pos
  /\ cell.m = "priv" => PrivilegedOnlyDesignated(cell.chain, cell.sender, res.ok) /\ PrivilegedRole(cell.v, cell.chain, cell.sender, res.ok)
  /\ cell.m = "kill" => KillOnlyAdmin(cell.adm, cell.sender, res.ok)
DesignC14 ==
  /\ cell.m = "ctl" => (MustReject(Row(cell.h), cell.prod, CtlOf(cell)) => ~res.ok)
  /\ cell.m = "auc"  => (AucPriceReq(cell.hook, cell.off) => ~res.ok)
  /\ cell.m = "hook" => (HookMustIdle(cell.hook, Ctl(cell.breaker, cell.esm, cell.off)) => ~res.ok)
(* the named deviation: outside the two known networks the dispatcher has no sender guard at all *)
FailOpenElsewhere == cell.m = "priv" => (PrivilegedElsewhere(cell.chain, cell.sender, res.ok) <=> (cell.chain \in MainTest \/ cell.sender = "admin"))
=============================================================================
