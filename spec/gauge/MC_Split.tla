------------------------------ MODULE MC_Split ------------------------------
(* Exhaustive table of SplitTotalAmountPerEpoch for deposit 1..MaxDep x epochs 1..MaxEp.             *)
(* Every initial state is one vector (printed as a "T" line) executed on the real function.           *)
EXTENDS GaugeInt, TLC, Json
CONSTANTS MaxDep, MaxEp
VARIABLES d, n, sp
Init == /\ d \in 1..MaxDep /\ n \in 1..MaxEp /\ sp = Split(d, n)
        /\ PrintT(<<"T", ToJson([a |-> "Split", d |-> d, n |-> n, len |-> Len(sp)])>>)
Next == UNCHANGED <<d, n, sp>>
Spec == Init /\ [][Next]_<<d, n, sp>>

(* C19: the per-epoch allocations sum exactly to the deposit (whenever a gauge with these parameters can exist) *)
SumExact   == d >= n => Len(sp) = n /\ SplitSumsTo(sp, d)
TooSmall   == d < n => sp = <<>>
Shape      == \A i \in 1..Len(sp) : /\ sp[i] \in {d \div n, d \div n + 1}
                                    /\ (i > 1 => sp[i - 1] <= sp[i])
AllocAgree == \A k \in 1..Len(sp) : AllocOf(d, n, k) = sp[k]
=============================================================================
