----------------------------- MODULE GaugeLimbs -----------------------------
(* Gauge.tla instantiated over real-size naturals: little-endian base-2^15 limb sequences             *)
(* (spec/common/Limbs.tla) plus the operations the gauge laws need beyond it: general multiplication, *)
(* subtraction, remainder by a small natural.                                                          *)
EXTENDS Limbs

LShift(x, k) == IF LNorm(x) = <<>> THEN <<>> ELSE [j \in 1..k |-> 0] \o x
RECURSIVE LMulAt(_, _, _)
LMulAt(a, b, i) == IF i > Len(b) THEN <<>>
                   ELSE LAdd(LShift(LMulSmall(a, b[i]), i - 1), LMulAt(a, b, i + 1))
LMul(a, b) == IF Len(a) >= Len(b) THEN LMulAt(a, b, 1) ELSE LMulAt(b, a, 1)

(* a - b for a >= b *)
RECURSIVE LSubB(_, _, _, _)
LSubB(a, b, i, br) ==
  IF i > Len(a) THEN <<>>
  ELSE LET t == a[i] - LAt(b, i) - br IN
       IF t >= 0 THEN <<t>> \o LSubB(a, b, i + 1, 0) ELSE <<t + B>> \o LSubB(a, b, i + 1, 1)
LSub(a, b) == LNorm(LSubB(a, b, 1, 0))
(* max(a - b, 0) *)
LMonus(a, b) == IF LLe(a, b) THEN <<>> ELSE LSub(a, b)

RECURSIVE LModAt(_, _, _, _)
LModAt(a, k, i, r) == IF i = 0 THEN r ELSE LModAt(a, k, i - 1, (r * B + a[i]) % k)
LModSmall(a, k) == LModAt(a, k, Len(a), 0)

Ten12 == <<4096, 10570, 931>>     \* 10^12 = 931*2^30 + 10570*2^15 + 4096

INSTANCE Gauge WITH Add <- LAdd, Mul <- LMul, Le <- LLe, DivS <- LDivSmall, ModS <- LModSmall, OfInt <- LOfInt,
                    Exact <- FALSE, Tol <- Ten12
=============================================================================
