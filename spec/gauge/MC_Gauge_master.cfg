SPECIFICATION Spec
CONSTANTS NU = 2  MaxFarm = 1  MaxGauges = 1  Templates <- TplMaster  Steps = {1, 3, 5}  D = 2  FarmPools = {1, 2}  Amts = {1}  Modes = {"q", "off"}  Emit = FALSE
INVARIANTS Cumulative Custody SplitExact Finished
CHECK_DEADLOCK FALSE
