SPECIFICATION Spec
CONSTANTS NU = 2  MaxFarm = 1  MaxGauges = 2  Templates <- TplTwo  Steps = {1, 5}  D = 2  FarmPools = {1, 2}  Amts = {1}  Modes = {"q"}  Emit = FALSE
INVARIANTS Cumulative Custody SplitExact Finished
CHECK_DEADLOCK FALSE
