----------------------------- MODULE Trace_Gauge -----------------------------
(* Validation of executions of the REAL x/rewards + x/liquidity code (recorded by `vh gauge`) against     *)
(* Gauge.tla, instantiated over real-size naturals (GaugeLimbs). Every log node is one TLC state.         *)
(*   C19_*  : the property, evaluated on recorded states / steps (delta form: parent state -> node state)  *)
(*   Conf_* : the recorded step is a step the specification admits (prediction of the code)                *)
EXTENDS GaugeLimbs, TLC, Json, FiniteSets
CONSTANT LogFile
Log == ndJsonDeserialize(LogFile)
NLog == Len(Log)

(* cur = 0 -> chunk heads (negative) -> log nodes: the nodes of different chunks are judged by different workers *)
VARIABLE cur
Chunks == 64
Init == cur = 0
Next == \/ cur = 0 /\ cur' \in {-c : c \in 1..Chunks}
        \/ cur < 0 /\ cur' \in {i \in 1..NLog : i % Chunks = (-cur) - 1}
        \/ cur > 0 /\ UNCHANGED cur
Spec == Init /\ [][Next]_cur

Nd(i) == Log[i]
IsSplit(nd) == nd.a = "Split"
HasPre(nd) == nd.parent > 0
Pre(nd) == Log[nd.parent].st
MinDur == 43200                       \* rewards types.MinimumEpochDuration = 12h
Range(s) == {s[i] : i \in 1..Len(s)}

(* ------------------------------------------------------------------ Split vectors *)
SeqEq(a, b) == Len(a) = Len(b) /\ \A k \in 1..Len(a) : LEq(a[k], b[k])
ConfSplit(nd)   == IsSplit(nd) => SeqEq(nd.st.split, Split(nd.args.d, nd.args.n))
C19SplitSum(nd) == IsSplit(nd) /\ LLe(LOfInt(nd.args.n), nd.args.d) =>
                     Len(nd.st.split) = nd.args.n /\ SplitSumsTo(nd.st.split, nd.args.d)

(* ------------------------------------------------------------------ helpers over recorded states *)
Inflow(p, nd, u, d) == LMonus(nd.st.users[u].bal[d], p.users[u].bal[d])
RECURSIVE TotalInflowAt(_, _, _, _)
TotalInflowAt(p, nd, d, u) == IF u = 0 THEN <<>> ELSE LAdd(Inflow(p, nd, u, d), TotalInflowAt(p, nd, d, u - 1))
TotalInflow(p, nd, d) == TotalInflowAt(p, nd, d, Len(p.users))

GaugeEq(g, h) == /\ g.id = h.id /\ g.kind = h.kind /\ g.denom = h.denom /\ g.ddenom = h.ddenom /\ LEq(g.dep, h.dep) /\ LEq(g.dist, h.dist)
                 /\ g.trig = h.trig /\ g.tot = h.tot /\ g.active = h.active /\ g.start = h.start /\ g.dur = h.dur
                 /\ g.pool = h.pool /\ g.master = h.master /\ g.childs = h.childs
GaugeMoved(g, h) == ~LEq(g.dist, h.dist) \/ g.trig # h.trig \/ ~LEq(g.dep, h.dep) \/ g.denom # h.denom \/ g.ddenom # h.ddenom
(* what gauge g paid in the step according to its own books, in g.denom (the distributed total carries its own denom: *)
(* after a change of the swap-fee distribution denom it restarts with the first payout in the new denom)              *)
PaidBooks(g, h) == IF h.ddenom = g.ddenom THEN LMonus(h.dist, g.dist) ELSE h.dist
CollSame(p, st, d) == \A q \in 1..Len(p.pools) : LEq(p.pools[q].coll[d], st.pools[q].coll[d])
ExtUnchanged(p, st, d) ==
  \A i \in 1..Len(st.ext) : st.ext[i].denom = d =>
     \E j \in 1..Len(p.ext) : /\ p.ext[j].kind = st.ext[i].kind /\ p.ext[j].id = st.ext[i].id
                              /\ LEq(p.ext[j].avail, st.ext[i].avail) /\ p.ext[j].neg = st.ext[i].neg
(* gauge k is the only thing that paid out coins of its denom in this block *)
SolePayer(p, nd, k) ==
  /\ \A j \in 1..Len(p.gauges) : j # k /\ p.gauges[j].denom = p.gauges[k].denom => PaidBooks(p.gauges[j], nd.st.gauges[j]) = <<>>
  /\ ExtUnchanged(p, nd.st, p.gauges[k].denom)

AllocNow(g) == IF g.kind = "swap" THEN g.dep ELSE AllocOf(g.dep, g.tot, g.trig + 1)
RECURSIVE AllocRange(_, _, _)
AllocRange(g, from, to) == IF from > to THEN <<>> ELSE LAdd(AllocOf(g.dep, g.tot, from), AllocRange(g, from + 1, to))

(* ------------------------------------------------------------------ C19 on recorded behaviours *)
(* cumulative amount paid never exceeds the deposit; never more epochs than announced *)
C19Cumulative(nd) == ~IsSplit(nd) =>
  \A k \in 1..Len(nd.st.gauges) : nd.st.gauges[k].kind = "reg" => CumulativeOK(nd.st.gauges[k])

(* custody >= undistributed remainders + available of external programs: roots absolutely, steps in delta form *)
C19CustodyRoot(nd) == nd.a = "Init" =>
  \A d \in Range(nd.st.denoms) : CustodyOK(nd.st.cust[d], nd.st.gauges, nd.st.ext, d)
C19CustodyDelta(nd) == ~IsSplit(nd) /\ HasPre(nd) =>
  LET p == Pre(nd) IN
  \A d \in Range(nd.st.denoms) : CustodyDeltaOK(p.cust[d], p.gauges, p.ext, nd.st.cust[d], nd.st.gauges, nd.st.ext, d)

(* each epoch pays out at most that epoch's allocation: books, and the coins that actually moved *)
C19EpochCap(nd) == nd.a = "BeginBlock" =>
  LET p == Pre(nd) IN
  \A k \in 1..Len(p.gauges) :
    LET g == p.gauges[k]  g2 == nd.st.gauges[k] IN
    /\ g2.trig >= g.trig
    /\ g.kind = "reg" => /\ LLe(g.dist, g2.dist)
                         /\ LLe(g2.dist, LAdd(g.dist, AllocRange(g, g.trig + 1, g2.trig)))
    /\ g.kind = "swap" => LLe(PaidBooks(g, g2), g.dep)
    /\ g2.trig > g.trig /\ SolePayer(p, nd, k) =>
          LLe(TotalInflow(p, nd, g.denom), IF g.kind = "swap" THEN g.dep ELSE AllocRange(g, g.trig + 1, g2.trig))
(* nothing is paid and no epoch is consumed outside the epoch hook *)
C19OnlyInEpoch(nd) == ~IsSplit(nd) /\ HasPre(nd) /\ nd.a # "BeginBlock" =>
  LET p == Pre(nd) IN \A k \in 1..Len(p.gauges) : ~GaugeMoved(p.gauges[k], nd.st.gauges[k])

(* no farmer's payout exceeds its pro-rata share of the epoch allocation by (eligible) farmed value *)
(* the bound exactly as stated: payout <= share * (1 + 10^-12) *)
ProRataAt(p, nd, k) ==
  LET g == p.gauges[k]
      tot == TotalElig(p.pools, g, p.users)
      alloc == AllocNow(g)
  IN \A u \in 1..Len(p.users) : ProRataOK(Inflow(p, nd, u, g.denom), alloc, Elig(p.pools, g, p.users[u]), tot)
ProRataChecked(p, nd, k) == nd.st.gauges[k].trig = p.gauges[k].trig + 1 /\ SolePayer(p, nd, k)
C19ProRata(nd) == nd.a = "BeginBlock" =>
  LET p == Pre(nd) IN \A k \in 1..Len(p.gauges) : ProRataChecked(p, nd, k) => ProRataAt(p, nd, k)

(* ------------------------------------------------------------------ conformance *)
ConfCreate(nd) == nd.a = "CreateGauge" =>
  LET p == Pre(nd)
      a == nd.args
      ar == [dep |-> a.dep, denom |-> a.denom, tot |-> a.tot, dur |-> a.dur, start |-> a.start, pool |-> a.pool,
             master |-> a.master, childs |-> a.childs, funds |-> a.funds]
      ok == a.gtype = 1 /\ a.dur > 0 /\ CreateOk(p.pools, p.now, ar, MinDur)
      n == Len(p.gauges)
  IN /\ a.ok = ok
     /\ \A k \in 1..n : GaugeEq(p.gauges[k], nd.st.gauges[k])
     /\ IF ok THEN /\ Len(nd.st.gauges) = n + 1
                   /\ GaugeEq(nd.st.gauges[n + 1], Created(n + 1, p.now, ar))
                   /\ LEq(nd.st.cust[a.denom], LAdd(p.cust[a.denom], a.dep))
                   /\ HasEpoch(nd.st.epochs, a.dur)
                   /\ (~HasEpoch(p.epochs, a.dur) => LET ep == EpochOf(nd.st.epochs, a.dur) IN ep.fresh /\ ep.cur = p.now)
             ELSE Len(nd.st.gauges) = n /\ nd.st.cust = p.cust /\ nd.st.epochs = p.epochs

EpochTriggers(p, now, dur) == HasEpoch(p.epochs, dur) /\ EpochStep(EpochOf(p.epochs, dur), now).trigger
PaidOf(g, g2) == PaidBooks(g, g2)
(* coins a swap-fee gauge pulls from its pair's collector: the balance in the current distribution denom minus the burn share *)
RecvOf(p, g) == LET avail == p.pools[g.pool].coll[p.distr] IN LMonus(avail, BurnOf(avail, p.burn))
ConfBlock(nd) == nd.a = "BeginBlock" =>
  LET p == Pre(nd)  now == nd.st.now IN
  /\ ~nd.res.panic
  /\ Len(nd.st.epochs) = Len(p.epochs)
  /\ \A i \in 1..Len(p.epochs) : nd.st.epochs[i] = EpochStep(p.epochs[i], now).ep
  /\ Len(nd.st.gauges) = Len(p.gauges)
  /\ \A k \in 1..Len(p.gauges) :
       LET g == p.gauges[k]  g2 == nd.st.gauges[k] IN
       /\ g.kind = "swap" /\ ~p.pools[g.pool].multi =>
            IF EpochTriggers(p, now, g.dur)
            THEN /\ SwapEpochRel(p.pools, g, p.distr, RecvOf(p, g), PaidOf(g, g2), g2)
                 /\ ~SwapBlocked(p.pools, g) => nd.st.pools[g.pool].coll[p.distr] = <<>>
            ELSE SameGauge(g, g2)
       /\ g.kind = "reg" =>
            IF EpochTriggers(p, now, g.dur) THEN GaugeEpochRel(p.pools, g, now, PaidOf(g, g2), g2) ELSE SameGauge(g, g2)
       /\ ProRataChecked(p, nd, k) =>
              LET tot == TotalElig(p.pools, g, p.users)  alloc == AllocNow(g)
                  funded == LLe(alloc, p.cust[g.denom])     \* custody can cover the whole allocation: every send succeeds
                  near(u) == PayExact(Inflow(p, nd, u, g.denom), alloc, Elig(p.pools, g, p.users[u]), tot)
              IN
              IF funded
              THEN /\ \A u \in 1..Len(p.users) : near(u)
                   /\ LEq(TotalInflow(p, nd, g.denom), PaidOf(g, g2))
                   /\ CollSame(p, nd.st, g.denom) => LEq(LAdd(nd.st.cust[g.denom], PaidOf(g, g2)), p.cust[g.denom])
              ELSE \* doDistributionSends ignores a failed send (insufficient custody) but the gauge books the computed total
                   /\ \A u \in 1..Len(p.users) : near(u) \/ Inflow(p, nd, u, g.denom) = <<>>
                   /\ LLe(TotalInflow(p, nd, g.denom), PaidOf(g, g2))
                   /\ CollSame(p, nd.st, g.denom) => LEq(LAdd(nd.st.cust[g.denom], TotalInflow(p, nd, g.denom)), p.cust[g.denom])

FrameActs == {"Farm", "Activate", "EndBlock", "Price", "Donate", "SwapFee", "Locker", "Gov"}
ConfFrame(nd) == nd.a \in FrameActs /\ HasPre(nd) =>
  LET p == Pre(nd) IN
  /\ Len(nd.st.gauges) = Len(p.gauges) /\ \A k \in 1..Len(p.gauges) : GaugeEq(p.gauges[k], nd.st.gauges[k])
  /\ nd.st.cust = p.cust /\ nd.st.epochs = p.epochs /\ nd.st.ext = p.ext
(* activation of an external reward program: the funding goes to custody, one program is added *)
ExtActs == {"ExtLocker", "ExtLend"}
ConfExt(nd) == nd.a \in ExtActs =>
  LET p == Pre(nd) IN
  /\ Len(nd.st.gauges) = Len(p.gauges) /\ \A k \in 1..Len(p.gauges) : GaugeEq(p.gauges[k], nd.st.gauges[k])
  /\ nd.st.epochs = p.epochs
  /\ IF nd.args.ok
     THEN /\ Len(nd.st.ext) = Len(p.ext) + 1
          /\ LEq(nd.st.cust[nd.args.denom], LAdd(p.cust[nd.args.denom], nd.args.total))
          /\ \A d \in Range(nd.st.denoms) : d # nd.args.denom => nd.st.cust[d] = p.cust[d]
     ELSE nd.st.ext = p.ext /\ nd.st.cust = p.cust
(* the recorded withdrawable amounts never exceed the proportional share of the reserves *)
ConfValue(nd) == ~IsSplit(nd) =>
  \A u \in 1..Len(nd.st.users), q \in 1..Len(nd.st.pools) :
     LET pos == nd.st.users[u].pos[q]  pl == nd.st.pools[q] IN
     /\ LLe(LMul(pos.xq, pl.ps), LMul(pl.rx, pos.pc))
     /\ LLe(LMul(pos.xb, pl.ps), LMul(pl.ry, pos.pc))

(* ------------------------------------------------------------------ judge *)
Formulas == <<"Conf_Split", "Conf_Create", "Conf_Block", "Conf_Frame", "Conf_Value", "Conf_Ext",
              "C19_SplitSum", "C19_Cumulative", "C19_CustodyRoot", "C19_CustodyDelta", "C19_EpochCap", "C19_OnlyInEpoch", "C19_ProRata">>
Holds(f, i) ==
  LET nd == Nd(i) IN
  CASE f = "Conf_Split" -> ConfSplit(nd)
    [] f = "Conf_Create" -> ConfCreate(nd)
    [] f = "Conf_Block" -> ConfBlock(nd)
    [] f = "Conf_Frame" -> ConfFrame(nd)
    [] f = "Conf_Value" -> ConfValue(nd)
    [] f = "Conf_Ext" -> ConfExt(nd)
    [] f = "C19_SplitSum" -> C19SplitSum(nd)
    [] f = "C19_Cumulative" -> C19Cumulative(nd)
    [] f = "C19_CustodyRoot" -> C19CustodyRoot(nd)
    [] f = "C19_CustodyDelta" -> C19CustodyDelta(nd)
    [] f = "C19_EpochCap" -> C19EpochCap(nd)
    [] f = "C19_OnlyInEpoch" -> C19OnlyInEpoch(nd)
    [] f = "C19_ProRata" -> C19ProRata(nd)

Judge == cur > 0 => \A k \in 1..Len(Formulas) : Holds(Formulas[k], cur) \/ PrintT(<<"FAIL", Formulas[k], cur>>)

(* ------------------------------------------------------------------ antecedent counters (vacuity control) *)
Blocks == {i \in 1..NLog : Nd(i).a = "BeginBlock"}
MaxGauges == 64
GaugeEpochs(P(_, _, _)) ==   \* number of (block, gauge) pairs satisfying P(pre, node, k)
  Cardinality({x \in Blocks \X (1..MaxGauges) : x[2] <= Len(Pre(Nd(x[1])).gauges) /\ P(Pre(Nd(x[1])), Nd(x[1]), x[2])})
PTrig(p, nd, k)    == nd.st.gauges[k].trig > p.gauges[k].trig /\ p.gauges[k].kind = "reg"
PChecked(p, nd, k) == ProRataChecked(p, nd, k)
PPaid(p, nd, k)    == ProRataChecked(p, nd, k) /\ ~LEq(TotalInflow(p, nd, p.gauges[k].denom), <<>>)
PMaster(p, nd, k)  == ProRataChecked(p, nd, k) /\ p.gauges[k].kind = "reg" /\ UseMaster(p.pools, p.gauges[k])
                        /\ ~LEq(TotalInflow(p, nd, p.gauges[k].denom), <<>>)
SwapPaidSome(p, nd, k) == p.gauges[k].kind = "swap" /\ PaidBooks(p.gauges[k], nd.st.gauges[k]) # <<>>
PSwapPaid(p, nd, k) == SwapPaidSome(p, nd, k)
PSwapSwitch(p, nd, k) == p.gauges[k].kind = "swap" /\ nd.st.gauges[k].denom # p.gauges[k].denom
PSwapNewDenomPaid(p, nd, k) == SwapPaidSome(p, nd, k) /\ nd.st.gauges[k].ddenom # p.gauges[k].ddenom
PSwapProRata(p, nd, k) == p.gauges[k].kind = "swap" /\ ProRataChecked(p, nd, k) /\ ~LEq(TotalInflow(p, nd, p.gauges[k].denom), <<>>)
PSwapBurn(p, nd, k) == p.gauges[k].kind = "swap" /\ nd.st.gauges[k].trig > p.gauges[k].trig /\ p.burn.num > 0
                         /\ BurnOf(p.pools[p.gauges[k].pool].coll[p.distr], p.burn) # <<>>
(* master/child gauges with at least three child pools; ... where an unpriced child pool comes before a child pool in which a *)
(* paid farmer holds the position that makes it eligible (an aggregation that stops at the unpriced pool would lose it)     *)
PManyChildren(p, nd, k) == PMaster(p, nd, k) /\ Len(ChildIds(p.pools, p.gauges[k])) >= 3
Unpriced(p, c) == PoolOk(p.pools, c) /\ ~Priced(p.pools[c])
PUnpricedBefore(p, nd, k) ==
  /\ PMaster(p, nd, k)
  /\ LET g == p.gauges[k]  ids == ChildIds(p.pools, g) IN
     \E i \in 1..Len(ids), j \in 1..Len(ids) :
        /\ i < j /\ Unpriced(p, ids[i]) /\ PoolOk(p.pools, ids[j]) /\ Priced(p.pools[ids[j]])
        /\ \E u \in 1..Len(p.users) : ChildPosOk(p.users[u], ids[j]) /\ Inflow(p, nd, u, g.denom) # <<>>
PTwoUnpriced(p, nd, k) ==
  /\ PMaster(p, nd, k)
  /\ LET ids == ChildIds(p.pools, p.gauges[k]) IN
     \E i \in 1..Len(ids), j \in 1..Len(ids) : i < j /\ Unpriced(p, ids[i]) /\ Unpriced(p, ids[j])
(* a swap-fee gauge paid and booked its deposit although the fee pull failed afterwards (pair with several pools, one oracle *)
(* price missing): the books move, the trigger count does not                                                                 *)
PXferFailBooked(p, nd, k) == SwapPaidSome(p, nd, k) /\ p.pools[p.gauges[k].pool].multi /\ nd.st.gauges[k].trig = p.gauges[k].trig
PMultiPaid(p, nd, k) == SwapPaidSome(p, nd, k) /\ p.pools[p.gauges[k].pool].multi
PFeeShared(p, nd, k) == SwapPaidSome(p, nd, k) /\ \E j \in 1..Len(p.gauges) :
                          p.gauges[j].kind = "reg" /\ p.gauges[j].active /\ p.gauges[j].denom = p.gauges[k].denom
                          /\ LLt(p.gauges[j].dist, p.gauges[j].dep)
PEnded(p, nd, k)   == p.gauges[k].active /\ ~nd.st.gauges[k].active
PNoPrice(p, nd, k) == p.gauges[k].kind = "reg" /\ EpochTriggers(p, nd.st.now, p.gauges[k].dur) /\ p.gauges[k].active
                        /\ nd.st.now >= p.gauges[k].start /\ p.gauges[k].trig < p.gauges[k].tot /\ ~Distributable(p.pools, p.gauges[k])
PStuck(p, nd, k)   == p.gauges[k].kind = "reg" /\ EpochTriggers(p, nd.st.now, p.gauges[k].dur)
                        /\ ~GaugeEnds(p.gauges[k], nd.st.now) /\ ~GaugeSkips(p.pools, p.gauges[k], nd.st.now)
                        /\ nd.st.gauges[k].trig = p.gauges[k].trig
PShared(p, nd, k)  == nd.st.gauges[k].trig > p.gauges[k].trig /\ ~SolePayer(p, nd, k)
Skipped(i) == LET p == Pre(Nd(i)) IN \E j \in 1..Len(p.epochs) :
                 ~p.epochs[j].fresh /\ p.epochs[j].cur + 2 * p.epochs[j].dur < Nd(i).st.now
ExtPaid(i) == LET nd == Nd(i) IN ~IsSplit(nd) /\ HasPre(nd) /\ nd.a = "BeginBlock" /\
                 \E d \in Range(nd.st.denoms) : ~ExtUnchanged(Pre(nd), nd.st, d)
IsBig(x) == Len(LNorm(x)) > 2
Stats == PrintT(<<"STATS", [nodes |-> NLog,
   splits |-> Cardinality({i \in 1..NLog : IsSplit(Nd(i))}),
   bigSplits |-> Cardinality({i \in 1..NLog : IsSplit(Nd(i)) /\ IsBig(Nd(i).args.d)}),
   blocks |-> Cardinality(Blocks),
   skippedEpochBlocks |-> Cardinality({i \in Blocks : Skipped(i)}),
   created |-> Cardinality({i \in 1..NLog : Nd(i).a = "CreateGauge" /\ Nd(i).args.ok}),
   rejected |-> Cardinality({i \in 1..NLog : Nd(i).a = "CreateGauge" /\ ~Nd(i).args.ok}),
   gaugeEpochs |-> GaugeEpochs(PTrig),
   proRataChecked |-> GaugeEpochs(PChecked),
   proRataPaid |-> GaugeEpochs(PPaid),
   masterPaid |-> GaugeEpochs(PMaster),
   swapFeePaid |-> GaugeEpochs(PSwapPaid),
   swapDenomSwitch |-> GaugeEpochs(PSwapSwitch),
   swapNewDenomPaid |-> GaugeEpochs(PSwapNewDenomPaid),
   swapProRataPaid |-> GaugeEpochs(PSwapProRata),
   swapBurnEpochs |-> GaugeEpochs(PSwapBurn),
   swapSharedDenomPaid |-> GaugeEpochs(PFeeShared),
   multiPoolSwapPaid |-> GaugeEpochs(PMultiPaid),
   feePullFailedBooked |-> GaugeEpochs(PXferFailBooked),
   masterManyChildren |-> GaugeEpochs(PManyChildren),
   unpricedChildBeforePaid |-> GaugeEpochs(PUnpricedBefore),
   twoUnpricedChildren |-> GaugeEpochs(PTwoUnpriced),
   govDenomChanges |-> Cardinality({i \in 1..NLog : Nd(i).a = "Gov" /\ Nd(i).st.distr # Pre(Nd(i)).distr}),
   sharedDenomEpochs |-> GaugeEpochs(PShared),
   gaugesEnded |-> GaugeEpochs(PEnded),
   noPriceEpochs |-> GaugeEpochs(PNoPrice),
   stuckEpochs |-> GaugeEpochs(PStuck),
   extPayBlocks |-> Cardinality({i \in Blocks : ExtPaid(i)}),
   extPrograms |-> Cardinality({i \in 1..NLog : Nd(i).a \in ExtActs /\ Nd(i).args.ok}),
   lendPrograms |-> Cardinality({i \in 1..NLog : Nd(i).a = "ExtLend" /\ Nd(i).args.ok}),
   lendPayBlocks |-> Cardinality({i \in Blocks : Nd(i).res.lendPaid}),
   bigStates |-> Cardinality({i \in 1..NLog : ~IsSplit(Nd(i)) /\ \E k \in 1..Len(Nd(i).st.gauges) : IsBig(Nd(i).st.gauges[k].dep)}),
   roots |-> Cardinality({i \in 1..NLog : Nd(i).a = "Init"}) ]>>)
AllSeen == Stats /\ TLCGet("stats").distinct = NLog + Chunks + 1
=============================================================================
