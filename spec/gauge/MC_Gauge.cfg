SPECIFICATION Spec
CONSTANTS NU = 2  MaxFarm = 2  MaxGauges = 1  Templates <- TplSingle  Steps = {1, 3, 5}  D = 2  FarmPools = {1}  Amts = {1, 2}  Modes = {"q", "b", "off"}  Emit = FALSE
  WithSwap = FALSE  FeeAmts = {}  FeeBudget = 0  FeeDenoms = {}  GovBudget = 0  NP = 2  ChildPricePools = {}  SetupFirst = FALSE  PreFarm = {}
INVARIANTS Cumulative Custody SplitExact Finished
CHECK_DEADLOCK FALSE
