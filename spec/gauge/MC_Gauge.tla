------------------------------ MODULE MC_Gauge ------------------------------
(* Bounded model of gauge lifecycles over Gauge.tla (integer instance).                               *)
(*   actors : NU farmers, 2 pools (pool 1 = master candidates, pool 2 = child), one epoch duration D   *)
(*   actions: Create(template) / Farm / Unfarm / Price(pool 1 mode) / Advance(k time units)            *)
(* Time is kept relative (now = 0 after every step) so the state space is finite. Every transition is  *)
(* printed as a "T" line; `vh gauge --graph` walks this graph on the real application (each edge once, *)
(* on nested cache branches) and Trace_Gauge judges what the real code did.                            *)
(* Payouts in the model are the ideal ones floor(alloc*e/total); the real ones are taken from the log.  *)
EXTENDS GaugeInt, TLC, Json
CONSTANTS NU, MaxFarm, MaxGauges, Templates, Steps, D, FarmPools, Amts, Modes, Emit

VARIABLE s
Big == 1000000
T1 == [dep |-> 7, tot |-> 3, pool |-> 1, master |-> FALSE, childs |-> <<>>, delay |-> 0]
T2 == [dep |-> 5, tot |-> 2, pool |-> 1, master |-> TRUE, childs |-> <<2>>, delay |-> 3]
T3 == [dep |-> 3, tot |-> 3, pool |-> 2, master |-> TRUE, childs |-> <<>>, delay |-> 0]
T4 == [dep |-> 11, tot |-> 4, pool |-> 1, master |-> TRUE, childs |-> <<>>, delay |-> 1]
T5 == [dep |-> 2, tot |-> 3, pool |-> 1, master |-> FALSE, childs |-> <<>>, delay |-> 0]   \* rejected: deposit < epochs
T6 == [dep |-> 4, tot |-> 2, pool |-> 1, master |-> FALSE, childs |-> <<1>>, delay |-> 0]  \* rejected: child = master
TplSingle == {T1, T5}
TplMaster == {T2, T6}
TplTwo == {T1, T2}
TplMasterAll == {T2, T3, T4, T6}
TplThorough == {T1, T2, T3, T4, T5, T6}

Pool1(mode) == [exists |-> TRUE, disabled |-> FALSE, dis |-> FALSE,
                qOn |-> mode = "q", bOn |-> mode # "off", qAct |-> mode = "q", bAct |-> mode # "off",
                qW |-> 1, qD |-> 1, bW |-> 2, bD |-> 1, mode |-> mode]
Pool2 == [exists |-> TRUE, disabled |-> FALSE, dis |-> FALSE, qOn |-> TRUE, bOn |-> TRUE, qAct |-> TRUE, bAct |-> TRUE,
          qW |-> 3, qD |-> 1, bW |-> 1, bD |-> 1, mode |-> "q"]
Pos(n) == [pc |-> n, xq |-> n, xb |-> n]

Init == s = [gauges |-> <<>>, epochs |-> <<>>, pools |-> <<Pool1("q"), Pool2>>,
             users |-> [u \in 1..NU |-> [pos |-> <<Pos(0), Pos(0)>>]], cust |-> <<>>]

Out(a, args, post) ==
  IF Emit THEN PrintT(<<"T", ToJson([a |-> a, args |-> args, pre |-> s, post |-> post])>>) ELSE TRUE

Live == Len(s.gauges) < MaxGauges \/ \E i \in 1..Len(s.gauges) : s.gauges[i].active

(* ---- MsgCreateGauge ---- *)
DoCreate(t) ==
  LET a == [dep |-> t.dep, denom |-> Len(s.gauges) + 1, tot |-> t.tot, dur |-> D, start |-> t.delay, pool |-> t.pool,
            master |-> t.master, childs |-> t.childs, funds |-> Big]
      ok == CreateOk(s.pools, 0, a, D)
      s2 == IF ok THEN [s EXCEPT !.gauges = Append(@, Created(Len(s.gauges) + 1, 0, a)),
                                 !.cust = Append(@, t.dep),
                                 !.epochs = IF HasEpoch(@, D) THEN @ ELSE Append(@, NewEpoch(D, 0))]
            ELSE s
  IN /\ Len(s.gauges) < MaxGauges
     /\ s' = s2
     /\ Out("Create", [dep |-> t.dep, tot |-> t.tot, pool |-> t.pool, master |-> t.master, childs |-> t.childs,
                       delay |-> t.delay, ok |-> ok], s2)

(* ---- farming positions (the queue/activation mechanics belong to x/liquidity; here: active amount) ---- *)
DoFarm(u, p, amt) ==
  LET n == s.users[u].pos[p].pc + amt
      s2 == [s EXCEPT !.users[u].pos[p] = Pos(n)]
  IN /\ n <= MaxFarm /\ s' = s2 /\ Out("Farm", [u |-> u, p |-> p, amt |-> amt], s2)
DoUnfarm(u, p, amt) ==
  LET n == s.users[u].pos[p].pc - amt
      s2 == [s EXCEPT !.users[u].pos[p] = Pos(n)]
  IN /\ n >= 0 /\ s' = s2 /\ Out("Unfarm", [u |-> u, p |-> p, amt |-> amt], s2)

DoPrice(mode) ==
  LET s2 == [s EXCEPT !.pools[1] = Pool1(mode)]
  IN /\ s.pools[1].mode # mode /\ s' = s2 /\ Out("Price", [p |-> 1, mode |-> mode], s2)

(* ---- time passes: EndBlock now, BeginBlock at now + k ---- *)
IdealPay(g, u, alloc, tot) == IF tot = 0 THEN 0 ELSE (alloc * Elig(s.pools, g, s.users[u])) \div tot
RECURSIVE SumTo(_, _)
SumTo(f, n) == IF n = 0 THEN 0 ELSE f[n] + SumTo(f, n - 1)

GaugeAfter(g, now) ==     \* [g |-> gauge', paid |-> amount leaving custody]
  IF GaugeEnds(g, now) THEN [g |-> [g EXCEPT !.active = FALSE], paid |-> 0]
  ELSE IF GaugeSkips(s.pools, g, now) THEN [g |-> g, paid |-> 0]
  ELSE LET alloc == AllocOf(g.dep, g.tot, g.trig + 1)
           tot == TotalElig(s.pools, g, s.users)
           pays == [u \in 1..NU |-> IdealPay(g, u, alloc, tot)]
           paid == SumTo(pays, NU)
       IN [g |-> [g EXCEPT !.trig = @ + 1, !.dist = @ + paid], paid |-> paid]

Shift(g, k) == [g EXCEPT !.start = IF @ - k < 0 THEN 0 ELSE @ - k]

DoAdvance(k) ==
  LET steps == [i \in 1..Len(s.epochs) |-> EpochStep(s.epochs[i], k)]
      trig(dur) == \E i \in 1..Len(s.epochs) : s.epochs[i].dur = dur /\ steps[i].trigger
      res == [i \in 1..Len(s.gauges) |-> IF trig(s.gauges[i].dur) THEN GaugeAfter(s.gauges[i], k)
                                         ELSE [g |-> s.gauges[i], paid |-> 0]]
      s2 == [s EXCEPT !.gauges = [i \in 1..Len(s.gauges) |-> Shift(res[i].g, k)],
                      !.cust = [i \in 1..Len(s.cust) |-> s.cust[i] - res[i].paid],
                      !.epochs = [i \in 1..Len(s.epochs) |-> [steps[i].ep EXCEPT !.cur = @ - k, !.n = 0]]]
  IN /\ s' = s2
     /\ \A i \in 1..Len(s.gauges) :     \* the deterministic model step is one of the outcomes the relation admits
           trig(s.gauges[i].dur) => GaugeEpochRel(s.pools, s.gauges[i], k, res[i].paid, res[i].g)
     /\ Out("Advance", [k |-> k], s2)

Next == /\ Live
        /\ \/ \E t \in Templates : DoCreate(t)
           \/ \E u \in 1..NU, p \in FarmPools, amt \in Amts : DoFarm(u, p, amt) \/ DoUnfarm(u, p, amt)
           \/ \E m \in Modes : DoPrice(m)
           \/ \E k \in Steps : DoAdvance(k)
Spec == Init /\ [][Next]_s

(* ---- C19 on the model ---- *)
Cumulative == \A i \in 1..Len(s.gauges) : CumulativeOK(s.gauges[i])
Custody    == \A d \in 1..Len(s.cust) : CustodyOK(s.cust[d], s.gauges, <<>>, d)
SplitExact == \A i \in 1..Len(s.gauges) : SplitSumsTo(Split(s.gauges[i].dep, s.gauges[i].tot), s.gauges[i].dep)
(* a finished gauge has paid at most its deposit and exactly `tot` epochs were triggered *)
Finished   == \A i \in 1..Len(s.gauges) : ~s.gauges[i].active => s.gauges[i].trig = s.gauges[i].tot
=============================================================================
