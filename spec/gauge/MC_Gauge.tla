------------------------------ MODULE MC_Gauge ------------------------------
(* Bounded model of gauge lifecycles over Gauge.tla (integer instance).                               *)
(*   actors : NU farmers, 2 pools (pool 1 = master candidates, pool 2 = child), epoch duration D for     *)
(*            created gauges; with WithSwap the two swap-fee gauges every pool creation registers         *)
(*            (duration 2*D, deposit = fees pulled from the pair's collector) are part of the state       *)
(*   actions: Create(template) / Farm / Unfarm / Price(pool 1 mode) / Advance(k time units)            *)
(*            Fees(pool, amount) = swap fees arrive at the collector in the current distribution denom   *)
(*            SetDenom(d)        = governance changes the app's SwapFeeDistrDenom                         *)
(* Time is kept relative (now = 0 after every step) so the state space is finite. Every transition is  *)
(* printed as a "T" line; `vh gauge --graph` walks this graph on the real application (each edge once, *)
(* on nested cache branches) and Trace_Gauge judges what the real code did.                            *)
(* Payouts in the model are the ideal ones floor(alloc*e/total); the real ones are taken from the log.  *)
EXTENDS GaugeInt, TLC, Json
CONSTANTS NU, MaxFarm, MaxGauges, Templates, Steps, D, FarmPools, Amts, Modes, Emit,
          WithSwap, FeeAmts, FeeBudget, FeeDenoms, GovBudget,
          NP, ChildPricePools, SetupFirst, PreFarm

VARIABLE s
Big == 1000000
T1 == [dep |-> 7, tot |-> 3, pool |-> 1, master |-> FALSE, childs |-> <<>>, delay |-> 0, den |-> 0]
T2 == [dep |-> 5, tot |-> 2, pool |-> 1, master |-> TRUE, childs |-> <<2>>, delay |-> 3, den |-> 0]
T3 == [dep |-> 3, tot |-> 3, pool |-> 2, master |-> TRUE, childs |-> <<>>, delay |-> 0, den |-> 0]
T4 == [dep |-> 11, tot |-> 4, pool |-> 1, master |-> TRUE, childs |-> <<>>, delay |-> 1, den |-> 0]
T5 == [dep |-> 2, tot |-> 3, pool |-> 1, master |-> FALSE, childs |-> <<>>, delay |-> 0, den |-> 0]   \* rejected: deposit < epochs
T6 == [dep |-> 4, tot |-> 2, pool |-> 1, master |-> FALSE, childs |-> <<1>>, delay |-> 0, den |-> 0]  \* rejected: child = master
T7 == [dep |-> 5, tot |-> 2, pool |-> 1, master |-> FALSE, childs |-> <<>>, delay |-> 0, den |-> 102] \* paid in fee denom B
TplSingle == {T1, T5}
TplFee == {T7}
(* master pool 1 with three child pools: explicit list, list in another order, default = all other pools of the app *)
T8 == [dep |-> 6, tot |-> 2, pool |-> 1, master |-> TRUE, childs |-> <<2, 3, 4>>, delay |-> 0, den |-> 0]
T9 == [dep |-> 6, tot |-> 2, pool |-> 1, master |-> TRUE, childs |-> <<4, 3, 2>>, delay |-> 0, den |-> 0]
T10 == [dep |-> 6, tot |-> 2, pool |-> 1, master |-> TRUE, childs |-> <<>>, delay |-> 0, den |-> 0]
TplChildren == {T8, T9, T10}
TplChildren1 == {T8}
TplMaster == {T2, T6}
TplTwo == {T1, T2}
TplMasterAll == {T2, T3, T4, T6}
TplThorough == {T1, T2, T3, T4, T5, T6}

FeeA == 101
FeeB == 102
NSwap == IF WithSwap THEN 2 ELSE 0
AllDenoms == (1..(NSwap + MaxGauges)) \cup {FeeA, FeeB}
NoColl == [d \in {FeeA, FeeB} |-> 0]
Pool1(mode, coll) == [exists |-> TRUE, disabled |-> FALSE, dis |-> FALSE,
                qOn |-> mode = "q", bOn |-> mode # "off", qAct |-> mode = "q", bAct |-> mode # "off",
                qW |-> 1, qD |-> 1, bW |-> 2, bD |-> 1, mode |-> mode, coll |-> coll]
Pool2 == [exists |-> TRUE, disabled |-> FALSE, dis |-> FALSE, qOn |-> TRUE, bOn |-> TRUE, qAct |-> TRUE, bAct |-> TRUE,
          qW |-> 3, qD |-> 1, bW |-> 1, bD |-> 1, mode |-> "q", coll |-> NoColl]
(* further pools (3, 4, ...): child candidates with their own assets; "off" = neither asset of the pair has an oracle price *)
PoolC(p, mode) == [exists |-> TRUE, disabled |-> FALSE, dis |-> FALSE, qOn |-> mode = "q", bOn |-> mode = "q", qAct |-> mode = "q", bAct |-> mode = "q",
                   qW |-> p - 1, qD |-> 1, bW |-> 1, bD |-> 1, mode |-> mode, coll |-> NoColl]
Pos(n) == [pc |-> n, xq |-> n, xb |-> n]
SwapGauge(p) == [id |-> p, kind |-> "swap", denom |-> FeeA, ddenom |-> FeeA, dep |-> 0, dist |-> 0, trig |-> 0, tot |-> 1,
                 active |-> TRUE, start |-> 0, dur |-> 2 * D, pool |-> p, master |-> FALSE, childs |-> <<>>]

Init == s = [gauges |-> IF WithSwap THEN <<SwapGauge(1), SwapGauge(2)>> ELSE <<>>,
             epochs |-> IF WithSwap THEN <<NewEpoch(2 * D, 0)>> ELSE <<>>,
             pools |-> [p \in 1..NP |-> IF p = 1 THEN Pool1("q", NoColl) ELSE IF p = 2 THEN Pool2 ELSE PoolC(p, "q")],
             users |-> [u \in 1..NU |-> [pos |-> [p \in 1..NP |-> IF p \in PreFarm THEN Pos(1) ELSE Pos(0)]]],   \* PreFarm: positions held from the start
             cust |-> [d \in AllDenoms |-> 0], distr |-> FeeA, fees |-> FeeBudget, govs |-> GovBudget]

Out(a, args, post) ==
  IF Emit THEN PrintT(<<"T", ToJson([a |-> a, args |-> args, pre |-> s, post |-> post])>>) ELSE TRUE

IsReg(i) == s.gauges[i].kind = "reg"
NReg == Len(s.gauges) - NSwap
Live == \/ NReg < MaxGauges \/ \E i \in 1..Len(s.gauges) : IsReg(i) /\ s.gauges[i].active
        \/ (WithSwap /\ s.fees > 0)
        \/ (WithSwap /\ \E i \in 1..Len(s.gauges) : (~IsReg(i) /\ s.gauges[i].dep > 0))
        \/ (WithSwap /\ \E d \in {FeeA, FeeB} : s.pools[1].coll[d] > 0)

(* SetupFirst: positions and prices are arranged before the first gauge is created (every configuration, one lifecycle each) *)
InSetup == ~SetupFirst \/ NReg = 0

(* ---- MsgCreateGauge ---- *)
DoCreate(t) ==
  LET id == Len(s.gauges) + 1
      dn == IF t.den = 0 THEN id ELSE t.den
      a == [dep |-> t.dep, denom |-> dn, tot |-> t.tot, dur |-> D, start |-> t.delay, pool |-> t.pool,
            master |-> t.master, childs |-> t.childs, funds |-> Big]
      ok == CreateOk(s.pools, 0, a, D)
      s2 == IF ok THEN [s EXCEPT !.gauges = Append(@, Created(id, 0, a)),
                                 !.cust[dn] = @ + t.dep,
                                 !.epochs = IF HasEpoch(@, D) THEN @ ELSE Append(@, NewEpoch(D, 0))]
            ELSE s
  IN /\ NReg < MaxGauges
     /\ s' = s2
     /\ Out("Create", [dep |-> t.dep, tot |-> t.tot, pool |-> t.pool, master |-> t.master, childs |-> t.childs,
                       delay |-> t.delay, den |-> t.den, ok |-> ok], s2)

(* ---- farming positions (the queue/activation mechanics belong to x/liquidity; here: active amount) ---- *)
DoFarm(u, p, amt) ==
  LET n == s.users[u].pos[p].pc + amt
      s2 == [s EXCEPT !.users[u].pos[p] = Pos(n)]
  IN /\ InSetup /\ n <= MaxFarm /\ s' = s2 /\ Out("Farm", [u |-> u, p |-> p, amt |-> amt], s2)
DoUnfarm(u, p, amt) ==
  LET n == s.users[u].pos[p].pc - amt
      s2 == [s EXCEPT !.users[u].pos[p] = Pos(n)]
  IN /\ InSetup /\ n >= 0 /\ s' = s2 /\ Out("Unfarm", [u |-> u, p |-> p, amt |-> amt], s2)

DoPrice(mode) ==
  LET s2 == [s EXCEPT !.pools[1] = Pool1(mode, s.pools[1].coll)]
  IN /\ InSetup /\ s.pools[1].mode # mode /\ s' = s2 /\ Out("Price", [p |-> 1, mode |-> mode], s2)
(* a child pool's pair loses / regains its oracle prices (pool 2: same shape as PoolC with its own weights) *)
ChildPool(p, mode) == IF p = 2 THEN [Pool2 EXCEPT !.qOn = mode = "q", !.bOn = mode = "q", !.qAct = mode = "q", !.bAct = mode = "q", !.mode = mode]
                      ELSE PoolC(p, mode)
DoPriceChild(p, mode) ==
  LET s2 == [s EXCEPT !.pools[p] = ChildPool(p, mode)]
  IN /\ InSetup /\ s.pools[p].mode # mode /\ s' = s2 /\ Out("Price", [p |-> p, mode |-> mode], s2)

(* ---- swap fees arrive at pool 1's collector; governance changes the distribution denom ---- *)
DoFees(amt) ==
  LET s2 == [s EXCEPT !.pools[1].coll[s.distr] = @ + amt, !.fees = @ - 1]
  IN /\ WithSwap /\ s.fees > 0 /\ s' = s2 /\ Out("Fees", [p |-> 1, amt |-> amt, d |-> s.distr], s2)
DoSetDenom(d) ==
  LET s2 == [s EXCEPT !.distr = d, !.govs = @ - 1]
  IN /\ WithSwap /\ s.govs > 0 /\ d # s.distr /\ s' = s2 /\ Out("SetDenom", [d |-> d], s2)

(* ---- time passes: EndBlock now, BeginBlock at now + k ---- *)
IdealPay(g, u, alloc, tot) == IF tot = 0 THEN 0 ELSE (alloc * Elig(s.pools, g, s.users[u])) \div tot
RECURSIVE SumTo(_, _)
SumTo(f, n) == IF n = 0 THEN 0 ELSE f[n] + SumTo(f, n - 1)
PaidOut(g, alloc) == LET tot == TotalElig(s.pools, g, s.users)
                         pays == [u \in 1..NU |-> IdealPay(g, u, alloc, tot)]
                     IN SumTo(pays, NU)

(* [g |-> gauge', paid |-> amount leaving custody in g.denom, recv |-> amount entering custody in s.distr] *)
GaugeAfter(g, now) ==
  IF GaugeEnds(g, now) THEN [g |-> [g EXCEPT !.active = FALSE], paid |-> 0, recv |-> 0]
  ELSE IF GaugeSkips(s.pools, g, now) THEN [g |-> g, paid |-> 0, recv |-> 0]
  ELSE LET paid == PaidOut(g, AllocOf(g.dep, g.tot, g.trig + 1))
       IN [g |-> [g EXCEPT !.trig = @ + 1, !.dist = @ + paid], paid |-> paid, recv |-> 0]
SwapAfter(g) ==
  IF SwapBlocked(s.pools, g) THEN [g |-> g, paid |-> 0, recv |-> 0]
  ELSE LET paid == IF g.dep = 0 THEN 0 ELSE PaidOut(g, g.dep)
           recv == s.pools[g.pool].coll[s.distr]
           g2 == [g EXCEPT !.trig = @ + 1, !.denom = s.distr,
                           !.dep = (IF g.denom = s.distr THEN g.dep - paid ELSE 0) + recv,
                           !.ddenom = IF g.dep = 0 THEN @ ELSE g.denom,
                           !.dist = IF g.dep = 0 THEN @ ELSE IF g.ddenom = g.denom THEN @ + paid ELSE paid]
       IN [g |-> g2, paid |-> paid, recv |-> recv]

Shift(g, k) == IF g.kind = "swap" THEN [g EXCEPT !.trig = 0, !.dist = 0]       \* unbounded counters are not part of the model state
               ELSE [g EXCEPT !.start = IF @ - k < 0 THEN 0 ELSE @ - k]

DoAdvance(k) ==
  LET steps == [i \in 1..Len(s.epochs) |-> EpochStep(s.epochs[i], k)]
      trig(dur) == \E i \in 1..Len(s.epochs) : s.epochs[i].dur = dur /\ steps[i].trigger
      n == Len(s.gauges)
      res == [i \in 1..n |-> IF ~trig(s.gauges[i].dur) THEN [g |-> s.gauges[i], paid |-> 0, recv |-> 0]
                              ELSE IF IsReg(i) THEN GaugeAfter(s.gauges[i], k) ELSE SwapAfter(s.gauges[i])]
      out(d) == SumTo([i \in 1..n |-> IF s.gauges[i].denom = d THEN res[i].paid ELSE 0], n)
      inn(d) == IF d = s.distr THEN SumTo([i \in 1..n |-> res[i].recv], n) ELSE 0
      pulled(p) == \E i \in 1..n : ~IsReg(i) /\ s.gauges[i].pool = p /\ trig(s.gauges[i].dur) /\ ~SwapBlocked(s.pools, s.gauges[i])
      s2 == [s EXCEPT !.gauges = [i \in 1..n |-> Shift(res[i].g, k)],
                      !.cust = [d \in AllDenoms |-> s.cust[d] - out(d) + inn(d)],
                      !.pools = [p \in 1..Len(s.pools) |-> IF pulled(p) THEN [s.pools[p] EXCEPT !.coll[s.distr] = 0] ELSE s.pools[p]],
                      !.epochs = [i \in 1..Len(s.epochs) |-> [steps[i].ep EXCEPT !.cur = @ - k, !.n = 0]]]
  IN /\ s' = s2
     /\ \A i \in 1..n :     \* the deterministic model step is one of the outcomes the relation admits
           trig(s.gauges[i].dur) =>
              IF IsReg(i) THEN GaugeEpochRel(s.pools, s.gauges[i], k, res[i].paid, res[i].g)
              ELSE SwapEpochRel(s.pools, s.gauges[i], s.distr, res[i].recv, res[i].paid, res[i].g)
     /\ Out("Advance", [k |-> k], s2)

Next == /\ Live
        /\ \/ \E t \in Templates : DoCreate(t)
           \/ \E u \in 1..NU, p \in FarmPools, amt \in Amts : DoFarm(u, p, amt) \/ DoUnfarm(u, p, amt)
           \/ \E m \in Modes : DoPrice(m)
           \/ \E p \in ChildPricePools, m \in {"q", "off"} : DoPriceChild(p, m)
           \/ \E k \in Steps : DoAdvance(k)
           \/ \E amt \in FeeAmts : DoFees(amt)
           \/ \E d \in FeeDenoms : DoSetDenom(d)
Spec == Init /\ [][Next]_s

(* ---- C19 on the model ---- *)
Cumulative == \A i \in 1..Len(s.gauges) : IsReg(i) => CumulativeOK(s.gauges[i])
Custody    == \A d \in AllDenoms : CustodyOK(s.cust[d], s.gauges, <<>>, d)
SplitExact == \A i \in 1..Len(s.gauges) : IsReg(i) => SplitSumsTo(Split(s.gauges[i].dep, s.gauges[i].tot), s.gauges[i].dep)
(* a finished gauge has paid at most its deposit and exactly `tot` epochs were triggered *)
Finished   == \A i \in 1..Len(s.gauges) : IsReg(i) /\ ~s.gauges[i].active => s.gauges[i].trig = s.gauges[i].tot
=============================================================================
