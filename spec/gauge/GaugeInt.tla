------------------------------ MODULE GaugeInt ------------------------------
(* Gauge.tla instantiated over TLC integers (bounded models; every product stays far below 2^31). *)
EXTENDS Integers, Sequences
IAdd(a, b) == a + b
IMul(a, b) == a * b
ILe(a, b) == a <= b
IDivS(a, n) == a \div n
IModS(a, n) == a % n
IOfInt(n) == n
INSTANCE Gauge WITH Add <- IAdd, Mul <- IMul, Le <- ILe, DivS <- IDivS, ModS <- IModS, OfInt <- IOfInt,
                    Exact <- TRUE, Tol <- 1
=============================================================================
