SPECIFICATION Spec
CONSTANTS MaxDep = 60  MaxEp = 12
INVARIANTS SumExact TooSmall Shape AllocAgree
CHECK_DEADLOCK FALSE
