------------------------------- MODULE Gauge -------------------------------
(* x/rewards gauges (incentive programs) over x/liquidity farming positions, implementation-shaped.      *)
(*   Split                = SplitTotalAmountPerEpoch (x/rewards/keeper/utils.go), transcribed            *)
(*   EpochStep            = one iteration of TriggerAndUpdateEpochInfos (epochs.go)                       *)
(*   CreateOk / Created   = MsgCreateGauge: ValidateBasic + ValidateMsgCreateGauge + NewGauge + CreateNewGauge*)
(*   Elig / TotalElig     = value of the farmed position used for the pro-rata share                     *)
(*                          (GetFarmingRewardsData, x/liquidity/keeper/rewards.go; master/child = min)    *)
(*   GaugeEpochRel        = one gauge inside InitateGaugesForDuration + BeginRewardDistributions          *)
(* The payouts themselves come from sdk.Dec + float64 arithmetic in the code: they are NOT recomputed     *)
(* here; an epoch step is a relation between pre-state, the vector of payouts (environment choice, taken  *)
(* from the log) and the post-state, constrained by the laws below.                                       *)
(*                                                                                                        *)
(* The module is written over an abstract algebra of naturals so that the same text is model-checked over *)
(* TLC integers (MC_Gauge) and evaluated on recorded real-size amounts over base-2^15 limbs (Trace_Gauge).*)
(*   amounts (deposit, distributed, balances, reserves, prices, decimals, farmed amounts) : numbers       *)
(*   counters, ids, times (seconds or model units), durations                              : Int           *)
EXTENDS Integers, Sequences
CONSTANTS Add(_, _), Mul(_, _), Le(_, _),      \* numbers
          DivS(_, _), ModS(_, _),              \* number div Int -> number ; number mod Int -> Int   (Int small)
          OfInt(_),                            \* Int -> number
          Exact,                               \* TRUE: pro-rata bound without tolerance (small integers)
          Tol                                  \* number 10^12 (tolerance denominator) when ~Exact

Zero == OfInt(0)
One  == OfInt(1)
Eq(a, b) == Le(a, b) /\ Le(b, a)
Lt(a, b) == ~Le(b, a)
IsZero(a) == Le(a, Zero)
MinN(a, b) == IF Le(a, b) THEN a ELSE b

RECURSIVE SumN(_)
SumN(s) == IF s = <<>> THEN Zero ELSE Add(Head(s), SumN(Tail(s)))

(* ------------------------------------------------------------------------------------------------ *)
(* SplitTotalAmountPerEpoch(totalAmount, totalEpochs); epochs n >= 1                                 *)
Split(amount, n) ==
  IF Lt(amount, OfInt(n)) THEN <<>>
  ELSE IF ModS(amount, n) = 0 THEN [i \in 1..n |-> DivS(amount, n)]
  ELSE LET zp == n - ModS(amount, n)
           pp == DivS(amount, n)
       IN [i \in 1..n |-> IF i - 1 >= zp THEN Add(pp, One) ELSE pp]

(* allocation of the (k)-th epoch, k = triggered count + 1 (Zero when there is no such epoch) *)
AllocOf(dep, tot, k) == IF tot >= 1 /\ k >= 1 /\ k <= Len(Split(dep, tot)) THEN Split(dep, tot)[k] ELSE Zero

(* ------------------------------------------------------------------------------------------------ *)
(* epoch info record [dur, fresh, cur, n]; one loop iteration of TriggerAndUpdateEpochInfos at time now *)
EpochStep(ep, now) ==
  IF ep.fresh THEN [ep |-> [ep EXCEPT !.fresh = FALSE, !.cur = ep.cur - ep.dur], trigger |-> FALSE]
  ELSE IF ep.cur + 2 * ep.dur < now
       THEN LET missed == (now - ep.cur) \div ep.dur
            IN [ep |-> [ep EXCEPT !.cur = ep.cur + ep.dur * missed], trigger |-> FALSE]
  ELSE IF now > ep.cur + ep.dur
       THEN [ep |-> [ep EXCEPT !.cur = ep.cur + ep.dur, !.n = ep.n + 1], trigger |-> TRUE]
  ELSE [ep |-> ep, trigger |-> FALSE]

HasEpoch(epochs, dur) == \E i \in 1..Len(epochs) : epochs[i].dur = dur
EpochOf(epochs, dur) == epochs[CHOOSE i \in 1..Len(epochs) : epochs[i].dur = dur]
NewEpoch(dur, now) == [dur |-> dur, fresh |-> TRUE, cur |-> now, n |-> 0]

(* ------------------------------------------------------------------------------------------------ *)
(* Pools: sequence indexed by pool id of [exists, disabled, dis, qOn, bOn, qAct, bAct, qW, qD, bW, bD] *)
(*   qOn/bOn  : liquidity OraclePrice finds a usable price for the quote/base asset                   *)
(*   qAct/bAct: rewards OraclePrice (IsPriceActive) - needed only when a gauge is created             *)
(*   qW,bW = TWA price ; qD,bD = asset decimals ; dis = GetPoolTokenDesrializerKit fails (missing/disabled/depleted) *)
PoolOk(pools, p) == p >= 1 /\ p <= Len(pools) /\ ~pools[p].dis
Priced(pl) == pl.qOn \/ pl.bOn
(* value of a position [xq, xb] (withdrawable quote/base amounts of the ACTIVE farmed pool coins) as the *)
(* rational VNum/VDen (the code's common factor 2 is dropped)                                            *)
VNum(pl, pos) == IF pl.qOn THEN Mul(pos.xq, pl.qW) ELSE Mul(pos.xb, pl.bW)
VDen(pl) == IF pl.qOn THEN pl.qD ELSE pl.bD

RECURSIVE SeqWithout(_, _)
SeqWithout(s, x) == IF s = <<>> THEN <<>> ELSE IF Head(s) = x THEN SeqWithout(Tail(s), x) ELSE <<Head(s)>> \o SeqWithout(Tail(s), x)
(* child pools that contribute (GetFarmingRewardsData + GetAggregatedChildPoolContributions)          *)
RECURSIVE OtherPools(_, _, _)
OtherPools(pools, g, i) ==   \* all other enabled pools of the app, ascending ids i..Len(pools)
  IF i > Len(pools) THEN <<>>
  ELSE (IF i # g.pool /\ pools[i].exists /\ ~pools[i].disabled THEN <<i>> ELSE <<>>) \o OtherPools(pools, g, i + 1)
ChildIds(pools, g) == IF g.childs = <<>> THEN OtherPools(pools, g, 1) ELSE SeqWithout(g.childs, g.pool)
UseMaster(pools, g) == g.master /\ ChildIds(pools, g) # <<>>
RECURSIVE LiveOf(_, _)
LiveOf(pools, ids) ==
  IF ids = <<>> THEN <<>>
  ELSE (IF PoolOk(pools, Head(ids)) /\ Priced(pools[Head(ids)]) THEN <<Head(ids)>> ELSE <<>>) \o LiveOf(pools, Tail(ids))
LiveChilds(pools, g) == LiveOf(pools, ChildIds(pools, g))

RECURSIVE ProdDen(_, _)
ProdDen(pools, ids) == IF ids = <<>> THEN One ELSE Mul(VDen(pools[Head(ids)]), ProdDen(pools, Tail(ids)))

(* an active farmer of the master pool whose position deserialises to (0,0) is skipped by the code *)
Listed(u, g) == ~(IsZero(u.pos[g.pool].xq) /\ IsZero(u.pos[g.pool].xb)) /\ ~IsZero(u.pos[g.pool].pc)
ChildPosOk(u, c) == ~IsZero(u.pos[c].pc) /\ ~(IsZero(u.pos[c].xq) /\ IsZero(u.pos[c].xb))

RECURSIVE ChildSum(_, _, _, _)
(* sum over live child pools of value numerators brought to the common denominator VDen(master)*ProdDen(live) *)
ChildSum(pools, u, ids, all) ==
  IF ids = <<>> THEN Zero
  ELSE LET c == Head(ids)
           term == IF ChildPosOk(u, c) THEN Mul(VNum(pools[c], u.pos[c]), ProdDen(pools, SeqWithout(all, c))) ELSE Zero
       IN Add(term, ChildSum(pools, u, Tail(ids), all))

(* eligible value numerator of user u for gauge g over the common denominator (same for all users) *)
Elig(pools, g, u) ==
  IF ~Listed(u, g) THEN Zero
  ELSE IF UseMaster(pools, g)
       THEN LET live == LiveChilds(pools, g)
                m == Mul(VNum(pools[g.pool], u.pos[g.pool]), ProdDen(pools, live))
                c == Mul(ChildSum(pools, u, live, live), VDen(pools[g.pool]))
            IN MinN(m, c)
       ELSE VNum(pools[g.pool], u.pos[g.pool])

(* the common denominator the Elig numerators are over (value of user u = 2 * Elig / EligDen in the code's units) *)
EligDen(pools, g) == IF UseMaster(pools, g) THEN Mul(VDen(pools[g.pool]), ProdDen(pools, LiveChilds(pools, g))) ELSE VDen(pools[g.pool])

RECURSIVE TotalEligAt(_, _, _, _)
TotalEligAt(pools, g, users, i) == IF i = 0 THEN Zero ELSE Add(Elig(pools, g, users[i]), TotalEligAt(pools, g, users, i - 1))
TotalElig(pools, g, users) == TotalEligAt(pools, g, users, Len(users))

(* GetFarmingRewardsData returns without error *)
Distributable(pools, g) == PoolOk(pools, g.pool) /\ Priced(pools[g.pool])

(* ------------------------------------------------------------------------------------------------ *)
(* THE LAWS (C19)                                                                                     *)
(* per-epoch allocations sum exactly to the deposit *)
SplitSumsTo(sp, dep) == Eq(SumN(sp), dep)
(* a payout never exceeds the pro-rata share of the allocation by eligible farmed value (1 part in 10^12) *)
ProRataOK(pay, alloc, e, tot) ==
  /\ IsZero(tot) => IsZero(pay)
  /\ IF Exact THEN Le(Mul(pay, tot), Mul(alloc, e))
     ELSE Le(Mul(Mul(pay, tot), Tol), Mul(Mul(alloc, e), Add(Tol, One)))
(* what is paid in one epoch is at most the allocation of that epoch; cumulative never above the deposit *)
EpochCapOK(paid, alloc) == Le(paid, alloc)
CumulativeOK(g) == Le(g.dist, g.dep) /\ g.trig <= g.tot

(* ---- custody of the rewards module account, per denom ------------------------------------------ *)
(* owed(d) = sum over ACTIVE gauges of the undistributed remainder (regular: deposit - distributed,   *)
(*           swap-fee gauge: its rolling deposit) + sum over ACTIVE external programs of max(available,0) *)
(* written without subtraction:  owed = OwedPlus - OwedMinus                                           *)
(* ext program record: [kind, id, denom, avail, neg, active]  (avail = magnitude, neg = sign)          *)
RECURSIVE GPlus(_, _, _)
GPlus(gs, d, i) == IF i = 0 THEN Zero
                   ELSE Add(IF gs[i].active /\ gs[i].denom = d THEN gs[i].dep ELSE Zero, GPlus(gs, d, i - 1))
RECURSIVE GMinus(_, _, _)
GMinus(gs, d, i) == IF i = 0 THEN Zero
                    ELSE Add(IF gs[i].active /\ gs[i].denom = d /\ gs[i].kind = "reg" THEN MinN(gs[i].dist, gs[i].dep) ELSE Zero,
                             GMinus(gs, d, i - 1))
RECURSIVE XPlus(_, _, _)
XPlus(xs, d, i) == IF i = 0 THEN Zero
                   ELSE Add(IF xs[i].active /\ xs[i].denom = d /\ ~xs[i].neg THEN xs[i].avail ELSE Zero, XPlus(xs, d, i - 1))
OwedPlus(gs, xs, d)  == Add(GPlus(gs, d, Len(gs)), XPlus(xs, d, Len(xs)))
OwedMinus(gs, d)     == GMinus(gs, d, Len(gs))
(* custody >= owed *)
CustodyOK(cust, gs, xs, d) == Le(OwedPlus(gs, xs, d), Add(cust, OwedMinus(gs, d)))
(* delta form for one step: custody' - custody >= owed' - owed *)
CustodyDeltaOK(c1, gs1, xs1, c2, gs2, xs2, d) ==
  Le(Add(Add(OwedPlus(gs2, xs2, d), OwedMinus(gs1, d)), c1),
     Add(Add(OwedPlus(gs1, xs1, d), OwedMinus(gs2, d)), c2))

(* ------------------------------------------------------------------------------------------------ *)
(* MsgCreateGauge. args = [dep, denom, tot, dur, start, pool, master, childs, funds] (funds: creator's balance) *)
CreateOk(pools, now, a, minDur) ==
  /\ a.tot >= 0 /\ a.dur >= minDur
  /\ ~IsZero(a.dep) /\ Le(OfInt(a.tot), a.dep)
  /\ a.start >= now
  /\ a.pool >= 1 /\ a.pool <= Len(pools) /\ pools[a.pool].exists
  /\ (pools[a.pool].qAct \/ pools[a.pool].bAct)
  /\ \A i \in 1..Len(a.childs) : LET c == a.childs[i] IN
        c # a.pool /\ c >= 1 /\ c <= Len(pools) /\ pools[c].exists /\ ~pools[c].disabled
  /\ Le(a.dep, a.funds)

Created(id, now, a) ==
  [id |-> id, kind |-> "reg", denom |-> a.denom, ddenom |-> a.denom, dep |-> a.dep, dist |-> Zero, trig |-> 0, tot |-> a.tot,
   active |-> TRUE, start |-> a.start, dur |-> a.dur, pool |-> a.pool, master |-> a.master, childs |-> a.childs]

(* ------------------------------------------------------------------------------------------------ *)
(* One regular gauge inside InitateGaugesForDuration when its epoch triggers at time now.             *)
(* paid = sum of the payout vector the code computed (environment); g2 = the gauge afterwards.        *)
(* Returns the set of admissible outcomes as a predicate.                                             *)
GaugeSkips(pools, g, now) ==
  \/ now < g.start \/ ~g.active
  \/ (g.trig # g.tot /\ (Len(Split(g.dep, g.tot)) <= g.trig
                          \/ Lt(g.dep, Add(g.dist, AllocOf(g.dep, g.tot, g.trig + 1)))
                          \/ ~Distributable(pools, g)))
GaugeEnds(g, now) == now >= g.start /\ g.active /\ g.trig = g.tot

SameGauge(g, g2) == /\ g2.trig = g.trig /\ g2.active = g.active /\ g2.tot = g.tot /\ Eq(g2.dep, g.dep) /\ Eq(g2.dist, g.dist)
                    /\ g2.denom = g.denom /\ g2.ddenom = g.ddenom

(* payouts are floor(alloc*value/total) in fixed point: their sum never exceeds the allocation, the epoch always books *)
GaugeEpochRel(pools, g, now, paid, g2) ==
  IF GaugeEnds(g, now) THEN /\ g2.active = FALSE /\ g2.trig = g.trig /\ Eq(g2.dist, g.dist) /\ Eq(g2.dep, g.dep) /\ IsZero(paid)
                            /\ g2.denom = g.denom /\ g2.ddenom = g.ddenom
  ELSE IF GaugeSkips(pools, g, now) THEN SameGauge(g, g2) /\ IsZero(paid)
  ELSE /\ g2.trig = g.trig + 1 /\ g2.active = g.active /\ Eq(g2.dep, g.dep) /\ g2.denom = g.denom /\ g2.ddenom = g.ddenom
       /\ Eq(g2.dist, Add(g.dist, paid)) /\ Le(paid, AllocOf(g.dep, g.tot, g.trig + 1))

(* the payout the code computes: floor(alloc*e/tot) (value.MulInt(alloc).QuoTruncate(total).TruncateInt()) *)
PayExact(pay, alloc, e, tot) ==
  IF IsZero(tot) THEN IsZero(pay)
  ELSE Le(Mul(pay, tot), Mul(alloc, e)) /\ Lt(Mul(alloc, e), Mul(Add(pay, One), tot))

(* ------------------------------------------------------------------------------------------------ *)
(* Swap-fee gauges (one per pool, created with the pool, ForSwapFee): the deposit is what was collected *)
(* from the pair's swap-fee collector and not yet paid; an epoch pays the whole deposit pro rata and then   *)
(* pulls the collector's balance of the app's CURRENT distribution denom (generic param SwapFeeDistrDenom, *)
(* minus the burn share SwapFeeBurnRate = burn.num/burn.den). The deposit and the distributed total carry  *)
(* their own denoms (denom / ddenom): after a governance change of the distribution denom the deposit       *)
(* restarts in the new denom, and the distributed total restarts with the first payout in it.               *)
BurnOf(avail, burn) == DivS(Mul(avail, OfInt(burn.num)), burn.den)
RecvOK(avail, burn, recv) == Eq(Add(recv, BurnOf(avail, burn)), avail)      \* recv = avail - floor(avail*rate)

SwapBlocked(pools, g) ==      \* nothing happens to the gauge in this epoch
  \/ ~IsZero(g.dep) /\ ~Distributable(pools, g)                 \* BeginRewardDistributions fails
  \/ IsZero(g.dep) /\ ~(pools[g.pool].exists /\ ~pools[g.pool].disabled)   \* TransferFundsForSwapFeeDistribution fails
(* g2 after the epoch; paid = sum of the payouts (in g.denom); recv = coins pulled from the collector (in distr) *)
SwapEpochRel(pools, g, distr, recv, paid, g2) ==
  IF SwapBlocked(pools, g) THEN SameGauge(g, g2) /\ IsZero(paid)
  ELSE /\ g2.trig = g.trig + 1 /\ g2.active = g.active /\ g2.tot = g.tot
       /\ Le(paid, g.dep)
       /\ g2.denom = distr
       /\ IF g.denom = distr THEN Eq(Add(g2.dep, paid), Add(g.dep, recv)) ELSE Eq(g2.dep, recv)
       /\ IF IsZero(g.dep) THEN g2.ddenom = g.ddenom /\ Eq(g2.dist, g.dist) /\ IsZero(paid)
          ELSE IF g.ddenom = g.denom THEN g2.ddenom = g.ddenom /\ Eq(g2.dist, Add(g.dist, paid))
          ELSE g2.ddenom = g.denom /\ Eq(g2.dist, paid)
=============================================================================
