-------------------------------- MODULE Lend --------------------------------
(* Explicit specification of comdex x/lend (money market) for property C08:                              *)
(*   "lending books balance and borrowing is bounded by loan-to-value".                                  *)
(*                                                                                                       *)
(* Implementation-shaped: one operator per message handler of x/lend/keeper/keeper.go, written           *)
(* functionally over an explicit state record   Act(cfg, s, args, env) == [ok |-> BOOLEAN, st |-> s'].  *)
(* Interest (x/lend/keeper/iter.go) is an ENVIRONMENT choice: the amounts accrued inside a handler are   *)
(* passed in `env` (0 when no time passes; taken from the recorded execution otherwise).                 *)
(*                                                                                                       *)
(* State record s (= the "m" part of the harness projection of the real keeper state):                   *)
(*   nl, nb     lend / borrow id counters                                                                *)
(*   price      <<[a, p, act]>>           TWA per underlying asset (raw), active flag                    *)
(*   lends      <<[id, o, pool, asset, ain, av, rew]>>      owner, AmountIn, AvailableToBorrow, rewards  *)
(*   borrows    <<[id, lend, pair, cin, ca, out, oa, iT, liq, ho, uv, st, bra, bram]>>                   *)
(*              collateral cTokens (amount, underlying asset), principal (amount, asset), whole coins of *)
(*              accrued interest, IsLiquidated flag, ho = handed over to a liquidation auction (the       *)
(*              V2 liquidation module holds a locked vault for it), uv = under first-generation         *)
(*              liquidation (x/liquidation holds a locked vault of kind borrow: part of the collateral   *)
(*              was sold off, the rest stays pledged), IsStableBorrow, bridged asset / amount            *)
(*   stats      <<[pool, asset, tl, tb, tsb, tia, lids, bids]>>   published PoolAssetLBMapping           *)
(*   pb         <<[pool, asset, amt, c]>>  pool module account: underlying coins and cTokens held        *)
(*   ub         <<[u, asset, amt, c]>>     user balances: underlying coins and cTokens                   *)
(*   res, rout  <<[asset, amt]>>           reserve module balance; cumulative rewards paid to lenders    *)
(* Configuration cfg: assets [id, dec, c, ltv, eltv, liq, stable], pools [id, assets, t1, t2],           *)
(*   pairs [id, ain, aout, inter, opool, emode], a2p [asset, pool, pairs], pu (price unit).              *)
EXTENDS Integers, Sequences, FiniteSets, Limbs

Range(s) == {s[i] : i \in 1..Len(s)}
Min2(a, b) == IF a <= b THEN a ELSE b
Max0(a) == IF a < 0 THEN 0 ELSE a

RECURSIVE SumTo(_, _)
SumTo(f, n) == IF n = 0 THEN 0 ELSE f[n] + SumTo(f, n - 1)
SumOver(seq, Term(_)) == SumTo([i \in 1..Len(seq) |-> Term(seq[i])], Len(seq))

(* ------------------------------------------------------------------ configuration look-ups *)
AssetC(cfg, a) == CHOOSE x \in Range(cfg.assets) : x.id = a
HasAsset(cfg, a) == \E x \in Range(cfg.assets) : x.id = a
PoolC(cfg, p) == CHOOSE x \in Range(cfg.pools) : x.id = p
HasPool(cfg, p) == \E x \in Range(cfg.pools) : x.id = p
PairC(cfg, p) == CHOOSE x \in Range(cfg.pairs) : x.id = p
HasPair(cfg, p) == \E x \in Range(cfg.pairs) : x.id = p
PairsOf(cfg, a, p) == UNION {Range(x.pairs) : x \in {y \in Range(cfg.a2p) : y.asset = a /\ y.pool = p}}
InPool(cfg, a, p) == HasPool(cfg, p) /\ a \in Range(PoolC(cfg, p).assets)

(* ------------------------------------------------------------------ state look-ups *)
HasId(seq, id) == \E i \in 1..Len(seq) : seq[i].id = id
GetId(seq, id) == seq[CHOOSE i \in 1..Len(seq) : seq[i].id = id]
PutId(seq, r) == [i \in 1..Len(seq) |-> IF seq[i].id = r.id THEN r ELSE seq[i]]
DelId(seq, id) == SelectSeq(seq, LAMBDA x : x.id # id)
Drop(seq, v) == SelectSeq(seq, LAMBDA x : x # v)

Stat(s, p, a) == CHOOSE x \in Range(s.stats) : x.pool = p /\ x.asset = a
HasStat(s, p, a) == \E x \in Range(s.stats) : x.pool = p /\ x.asset = a
PB(s, p, a) == CHOOSE x \in Range(s.pb) : x.pool = p /\ x.asset = a
UB(s, u, a) == CHOOSE x \in Range(s.ub) : x.u = u /\ x.asset = a
HasUB(s, u, a) == \E x \in Range(s.ub) : x.u = u /\ x.asset = a
Res(s, a) == (CHOOSE x \in Range(s.res) : x.asset = a).amt
Rout(s, a) == (CHOOSE x \in Range(s.rout) : x.asset = a).amt
PriceRec(s, a) == CHOOSE x \in Range(s.price) : x.a = a
PriceOk(s, a) == (\E x \in Range(s.price) : x.a = a) /\ PriceRec(s, a).act /\ PriceRec(s, a).p > 0

(* ------------------------------------------------------------------ state mutators *)
MapStat(s, p, a, F(_)) == [s EXCEPT !.stats = [i \in 1..Len(s.stats) |->
                              IF s.stats[i].pool = p /\ s.stats[i].asset = a THEN F(s.stats[i]) ELSE s.stats[i]]]
AddTL(s, p, a, d)  == MapStat(s, p, a, LAMBDA x : [x EXCEPT !.tl = @ + d])
AddTB(s, p, a, st, d) == MapStat(s, p, a, LAMBDA x : IF st THEN [x EXCEPT !.tsb = @ + d] ELSE [x EXCEPT !.tb = @ + d])
AddTia(s, p, a, d) == MapStat(s, p, a, LAMBDA x : [x EXCEPT !.tia = @ + d])
AddLid(s, p, a, id) == MapStat(s, p, a, LAMBDA x : [x EXCEPT !.lids = Append(@, id)])
DelLid(s, p, a, id) == MapStat(s, p, a, LAMBDA x : [x EXCEPT !.lids = Drop(@, id)])
AddBid(s, p, a, id) == MapStat(s, p, a, LAMBDA x : [x EXCEPT !.bids = Append(@, id)])
DelBid(s, p, a, id) == MapStat(s, p, a, LAMBDA x : [x EXCEPT !.bids = Drop(@, id)])
PoolAmt(s, p, a, d) == [s EXCEPT !.pb = [i \in 1..Len(s.pb) |->
                          IF s.pb[i].pool = p /\ s.pb[i].asset = a THEN [s.pb[i] EXCEPT !.amt = @ + d] ELSE s.pb[i]]]
PoolCt(s, p, a, d) == [s EXCEPT !.pb = [i \in 1..Len(s.pb) |->
                          IF s.pb[i].pool = p /\ s.pb[i].asset = a THEN [s.pb[i] EXCEPT !.c = @ + d] ELSE s.pb[i]]]
UserAmt(s, u, a, d) == [s EXCEPT !.ub = [i \in 1..Len(s.ub) |->
                          IF s.ub[i].u = u /\ s.ub[i].asset = a THEN [s.ub[i] EXCEPT !.amt = @ + d] ELSE s.ub[i]]]
UserCt(s, u, a, d) == [s EXCEPT !.ub = [i \in 1..Len(s.ub) |->
                          IF s.ub[i].u = u /\ s.ub[i].asset = a THEN [s.ub[i] EXCEPT !.c = @ + d] ELSE s.ub[i]]]
ResAmt(s, a, d) == [s EXCEPT !.res = [i \in 1..Len(s.res) |-> IF s.res[i].asset = a THEN [s.res[i] EXCEPT !.amt = @ + d] ELSE s.res[i]]]
RoutAdd(s, a, d) == [s EXCEPT !.rout = [i \in 1..Len(s.rout) |-> IF s.rout[i].asset = a THEN [s.rout[i] EXCEPT !.amt = @ + d] ELSE s.rout[i]]]
PutLend(s, l) == [s EXCEPT !.lends = PutId(@, l)]
PutBorrow(s, b) == [s EXCEPT !.borrows = PutId(@, b)]

Fail(s) == [ok |-> FALSE, st |-> s]
Done(s) == [ok |-> TRUE, st |-> s]

(* ======================================================================================== *)
(* PROPERTY C08 - stated over state records, independently of the handlers                   *)
(* ======================================================================================== *)

(* collateral pledged to the open borrows of lend position lid that has NOT been handed over to a liquidation auction *)
Pledged(s, lid) == SumOver(s.borrows, LAMBDA b : IF b.lend = lid /\ ~b.ho THEN b.cin ELSE 0)
(* what the positions of (pool, asset) say was lent *)
LentByPositions(s, p, a) == SumOver(s.lends, LAMBDA l : IF l.pool = p /\ l.asset = a THEN l.av + Pledged(s, l.id) ELSE 0)
(* principal of the open borrows of (out pool, out asset) that are not under liquidation; variable / stable *)
BorrowedByPositions(cfg, s, p, a, stable) ==
  SumOver(s.borrows, LAMBDA b : IF ~b.ho /\ ~b.uv /\ b.st = stable /\ HasPair(cfg, b.pair) /\ PairC(cfg, b.pair).opool = p /\ PairC(cfg, b.pair).aout = a
                                 THEN b.out ELSE 0)

BooksLend(s)        == \A x \in Range(s.stats) : x.tl = LentByPositions(s, x.pool, x.asset)
BooksBorrow(cfg, s) == \A x \in Range(s.stats) : /\ x.tb = BorrowedByPositions(cfg, s, x.pool, x.asset, FALSE)
                                                 /\ x.tsb = BorrowedByPositions(cfg, s, x.pool, x.asset, TRUE)
(* delta forms: what one step adds to the published totals is what it adds to the positions *)
DBooksLend(s, s2) == \A x \in Range(s2.stats) :
      HasStat(s, x.pool, x.asset) =>
         x.tl - Stat(s, x.pool, x.asset).tl = LentByPositions(s2, x.pool, x.asset) - LentByPositions(s, x.pool, x.asset)
DBooksBorrow(cfg, s, s2) == \A x \in Range(s2.stats) :
      HasStat(s, x.pool, x.asset) =>
         /\ x.tb - Stat(s, x.pool, x.asset).tb = BorrowedByPositions(cfg, s2, x.pool, x.asset, FALSE) - BorrowedByPositions(cfg, s, x.pool, x.asset, FALSE)
         /\ x.tsb - Stat(s, x.pool, x.asset).tsb = BorrowedByPositions(cfg, s2, x.pool, x.asset, TRUE) - BorrowedByPositions(cfg, s, x.pool, x.asset, TRUE)

(* ---- exact rational LTV inequality (limb arithmetic: no overflow, no rounding)                       *)
(*      debt * pOut / dOut  <=  col * pIn / dIn * (n1/d1) * (n2/d2)                                      *)
RECURSIVE LMulAt(_, _, _)
LShift(a, k) == IF a = <<>> THEN <<>> ELSE [j \in 1..k |-> 0] \o a
LMulAt(a, b, i) == IF i > Len(b) THEN <<>> ELSE LAdd(LShift(LMulSmall(a, b[i]), i - 1), LMulAt(a, b, i + 1))
LMul(a, b) == LNorm(LMulAt(LNorm(a), LNorm(b), 1))
RECURSIVE LProd(_)
LProd(xs) == IF xs = <<>> THEN <<1>> ELSE LMul(LOfInt(Head(xs)), LProd(Tail(xs)))

ValueLe(debt, pOut, dOut, col, pIn, dIn, r1, r2) ==
  \/ debt <= 0
  \/ /\ col > 0
     /\ LLe(LProd(<<debt, pOut, dIn, r1[2], r2[2]>>), LProd(<<col, pIn, dOut, r1[1], r2[1]>>))

One == <<1, 1>>
(* the loan-to-value ratio that applies to a position of pair pr: e-mode value when the pair is an e-mode pair *)
PairLtv(cfg, pr) == IF pr.emode THEN AssetC(cfg, pr.ain).eltv ELSE AssetC(cfg, pr.ain).ltv
(* cross-pool positions are collateralised through a bridged transit asset: its ratio multiplies (the code's pair data) *)
BridgeLtv(cfg, b) == IF b.bram > 0 /\ HasAsset(cfg, b.bra) THEN AssetC(cfg, b.bra).ltv ELSE One

(* debt (principal + whole coins of accrued interest, the new loan included) against the collateral of borrow b *)
LtvHolds(cfg, s, b, r1, r2) ==
  /\ PriceOk(s, b.oa) /\ PriceOk(s, b.ca)
  /\ ValueLe(b.out + Max0(b.iT), PriceRec(s, b.oa).p, AssetC(cfg, b.oa).dec,
             b.cin, PriceRec(s, b.ca).p, AssetC(cfg, b.ca).dec, r1, r2)

(* borrow positions whose principal grew in the step s -> s2 (a loan was released): new ones and drawn ones *)
Released(s, s2) == {i \in 1..Len(s2.borrows) :
                      LET b == s2.borrows[i] IN ~b.liq /\ (IF HasId(s.borrows, b.id) THEN GetId(s.borrows, b.id).out < b.out ELSE b.out > 0)}
ReleasedAmt(s, b) == IF HasId(s.borrows, b.id) THEN b.out - GetId(s.borrows, b.id).out ELSE b.out

(* a position is well-formed when the cToken it pledges is the cToken of its lend position's asset *)
WellFormed(s, b) == HasId(s.lends, b.lend) /\ GetId(s.lends, b.lend).asset = b.ca
(* C08: every released loan satisfies the pair's LTV at the prices in force (collateral = the pledged cTokens, valued as their asset) *)
LtvOnRelease(cfg, s, s2) == \A i \in Released(s, s2) :
      LET b == s2.borrows[i] IN WellFormed(s2, b) => HasPair(cfg, b.pair) /\ LtvHolds(cfg, s2, b, PairLtv(cfg, PairC(cfg, b.pair)), One)
(*      the same for positions that pledge cTokens of ANOTHER asset than their lend position's. NAMED DEVIATION: BorrowAsset sizes *)
(*      the loan with the lend position's asset price although it takes (and a liquidation auctions) the pair's collateral asset.   *)
LtvOnReleaseMismatched(cfg, s, s2) == \A i \in Released(s, s2) :
      LET b == s2.borrows[i] IN ~WellFormed(s2, b) => HasPair(cfg, b.pair) /\ LtvHolds(cfg, s2, b, PairLtv(cfg, PairC(cfg, b.pair)), One)
(* C08: ... and for cross-pool (bridged) positions with the product of the two ratios: when the position is opened ... *)
LtvOnOpenBridged(cfg, s, s2) == \A i \in Released(s, s2) :
      LET b == s2.borrows[i] IN b.bram > 0 /\ ~HasId(s.borrows, b.id) /\ WellFormed(s2, b) => LtvHolds(cfg, s2, b, PairLtv(cfg, PairC(cfg, b.pair)), BridgeLtv(cfg, b))
(*      ... and when more is drawn on it (DrawAsset applied the collateral asset's ratio alone until the repair of C08-draw-bridged-ltv). *)
LtvOnDrawBridged(cfg, s, s2) == \A i \in Released(s, s2) :
      LET b == s2.borrows[i] IN b.bram > 0 /\ HasId(s.borrows, b.id) /\ WellFormed(s2, b) => LtvHolds(cfg, s2, b, PairLtv(cfg, PairC(cfg, b.pair)), BridgeLtv(cfg, b))
(* C08: the out pool actually held the lent-out coins before the step *)
PoolHeldLoan(cfg, s, s2) == \A i \in Released(s, s2) :
      LET b == s2.borrows[i] IN HasPair(cfg, b.pair) /\ PB(s, PairC(cfg, b.pair).opool, b.oa).amt >= ReleasedAmt(s, b)

(* C08: withdrawing / closing lend position lid (by user u, underlying asset a) never releases pledged collateral:  *)
(*      every non-liquidated borrow on it keeps its collateral, the position stays while it has borrows, and the    *)
(*      coins paid out are at most what was available plus the reward credited in this very step (+ extra).         *)
NoRelease(s, s2, lid, u, a, extra, closedB) ==
  /\ \A b \in Range(s.borrows) : b.lend = lid /\ ~b.ho /\ b.id # closedB =>
        /\ HasId(s2.borrows, b.id) /\ GetId(s2.borrows, b.id).cin >= b.cin /\ GetId(s2.borrows, b.id).lend = lid
        /\ HasId(s2.lends, lid)
  /\ HasId(s.lends, lid) /\ HasUB(s, u, a) =>
        UB(s2, u, a).amt - UB(s, u, a).amt <= GetId(s.lends, lid).av + (Rout(s2, a) - Rout(s, a)) + extra
  /\ HasId(s2.lends, lid) => GetId(s2.lends, lid).av >= 0

(* ======================================================================================== *)
(* HANDLERS                                                                                  *)
(* ======================================================================================== *)
(* prices in units of cfg.pu (all fixtures write multiples of it); values below are in pu per coin scale *)
P(cfg, s, a) == PriceRec(s, a).p \div cfg.pu
Dec(cfg, a) == AssetC(cfg, a).dec
MulFrac(x, r) == (x * r[1]) \div r[2]                       \* Dec multiply + TruncateInt
FracMul(r1, r2) == <<r1[1] * r2[1], r1[2] * r2[2]>>           \* product of two ratios (the code's Dec.Mul; exact for the ratios of the bounded domain)
(* VerifyCollateralizationRatio: reject iff out-value / in-value > ltv (exact for the bounded domain) *)
RatioOk(cfg, s, cin, ca, debt, oa, r) == cin * P(cfg, s, ca) > 0 /\ debt * P(cfg, s, oa) * Dec(cfg, ca) * r[2] <= cin * P(cfg, s, ca) * Dec(cfg, oa) * r[1]
MinLoanOk(cfg, s, oa, loan) == loan * P(cfg, s, oa) >= Dec(cfg, oa)      \* loan value >= 1$

(* env.rew[lid] : lend reward (whole cTokens) that IterateLends credits when lend lid is touched, 0 if absent *)
RewOf(env, lid) == IF lid \in DOMAIN env.rew THEN env.rew[lid] ELSE 0
(* env.int[bid] : whole coins of interest the position carries after IterateBorrow, absent = unchanged *)
IntOf(env, b) == IF b.id \in DOMAIN env.int THEN env.int[b.id] ELSE b.iT
(* env.toRes / env.mint : interest routed to the reserve / minted as cTokens on repayment; env.frac : 1 if the accrued interest has a
   fractional part; env.rT : whole coins of the position's reserve share (decides the code's repayment branch) *)
NoEnv == [rew |-> <<>>, int |-> <<>>, toRes |-> 0, mint |-> 0, frac |-> 0, rT |-> 0]

(* IterateLends (iter.go): credit reward r to lend l; paid from the pool's interest bucket (tia) or from the reserve *)
Reward(cfg, s, lid, r) ==
  LET l == GetId(s.lends, lid) IN
  IF r <= 0 THEN Done(s)
  ELSE LET st == Stat(s, l.pool, l.asset)
           l2 == [l EXCEPT !.av = @ + r, !.rew = @ + r]
           base == RoutAdd(UserCt(AddTL(PutLend(s, l2), l.pool, l.asset, r), l.o, l.asset, r), l.asset, r) IN
       IF r > st.tia
       THEN IF Res(s, l.asset) < r THEN Fail(s)
            ELSE Done(PoolAmt(ResAmt(base, l.asset, -r), l.pool, l.asset, r))
       ELSE Done(AddTia(PoolCt(base, l.pool, l.asset, -r), l.pool, l.asset, -r))

(* IterateBorrow: interest lands on the position (amount chosen by the environment) *)
Accrue(s, bid, env) == LET b == GetId(s.borrows, bid) IN PutBorrow(s, [b EXCEPT !.iT = IntOf(env, b)])

ExistingLend(s, u, a, p) == {l \in Range(s.lends) : l.o = u /\ l.asset = a /\ l.pool = p}

(* ---- MsgDeposit ---- *)
Deposit(cfg, s, u, lid, da, amt, env) ==
  IF ~HasId(s.lends, lid) THEN Fail(s) ELSE
  LET r1 == Reward(cfg, s, lid, RewOf(env, lid)) IN
  IF ~r1.ok THEN Fail(s) ELSE
  LET s1 == r1.st  l == GetId(s1.lends, lid) IN
  IF l.o # u \/ da # l.asset \/ ~PriceOk(s, l.asset) \/ UB(s1, u, l.asset).amt < amt THEN Fail(s)
  ELSE Done(AddTL(PutLend(UserCt(PoolAmt(UserAmt(s1, u, l.asset, -amt), l.pool, l.asset, amt), u, l.asset, amt),
                          [l EXCEPT !.ain = @ + amt, !.av = @ + amt]), l.pool, l.asset, amt))

(* ---- MsgLend ---- *)
LendNew(cfg, s, u, a, p, amt) ==
  LET id == s.nl + 1
      l == [id |-> id, o |-> u, pool |-> p, asset |-> a, ain |-> amt, av |-> amt, rew |-> 0]
      s1 == UserCt(PoolAmt(UserAmt(s, u, a, -amt), p, a, amt), u, a, amt)
      s2 == [AddTL(s1, p, a, amt) EXCEPT !.nl = id, !.lends = Append(@, l)]
  IN AddLid(s2, p, a, id)
Lend(cfg, s, u, a, p, da, amt, env) ==
  IF ~HasAsset(cfg, a) \/ ~HasPool(cfg, p) \/ da # a \/ ~InPool(cfg, a, p) \/ ~PriceOk(s, a) THEN Fail(s)
  ELSE IF ExistingLend(s, u, a, p) # {} THEN Deposit(cfg, s, u, (CHOOSE l \in ExistingLend(s, u, a, p) : TRUE).id, da, amt, env)
  ELSE IF UB(s, u, a).amt < amt THEN Fail(s)
  ELSE Done(LendNew(cfg, s, u, a, p, amt))

(* ---- MsgCloseLend ---- *)
LendHasBorrows(s, lid) == \E b \in Range(s.borrows) : b.lend = lid
CloseLend(cfg, s, u, lid, env) ==
  IF ~HasId(s.lends, lid) THEN Fail(s) ELSE
  LET r1 == Reward(cfg, s, lid, RewOf(env, lid)) IN
  IF ~r1.ok THEN Fail(s) ELSE
  LET s1 == r1.st  l == GetId(s1.lends, lid) IN
  IF l.o # u \/ LendHasBorrows(s1, lid) \/ l.av > PB(s1, l.pool, l.asset).amt \/ UB(s1, u, l.asset).c < l.av \/ l.av < 0 THEN Fail(s)
  ELSE LET s2 == UserAmt(PoolAmt(UserCt(s1, u, l.asset, -l.av), l.pool, l.asset, -l.av), u, l.asset, l.av)
           s3 == DelLid(AddTL(s2, l.pool, l.asset, -l.av), l.pool, l.asset, lid)
       IN Done([s3 EXCEPT !.lends = DelId(@, lid)])

(* ---- MsgWithdraw ---- *)
Withdraw(cfg, s, u, lid, da, amt, env) ==
  IF ~HasId(s.lends, lid) THEN Fail(s) ELSE
  LET l0 == GetId(s.lends, lid) IN
  IF amt = l0.av /\ l0.av >= l0.ain THEN CloseLend(cfg, s, u, lid, env) ELSE
  LET r1 == Reward(cfg, s, lid, RewOf(env, lid)) IN
  IF ~r1.ok THEN Fail(s) ELSE
  LET s1 == r1.st  l == GetId(s1.lends, lid) IN
  IF l.o # u \/ amt > l.av \/ da # l.asset \/ amt > PB(s1, l.pool, l.asset).amt \/ UB(s1, u, l.asset).c < amt THEN Fail(s)
  ELSE LET s2 == UserAmt(PoolAmt(UserCt(s1, u, l.asset, -amt), l.pool, l.asset, -amt), u, l.asset, amt)
           l2 == [l EXCEPT !.av = @ - amt, !.ain = IF amt < l.ain THEN l.ain - amt ELSE 0]
       IN Done(AddTL(PutLend(s2, l2), l.pool, l.asset, -amt))

(* ---- MsgDraw ---- *)
Draw(cfg, s, u, bid, da, amt, env) ==
  IF ~HasId(s.borrows, bid) THEN Fail(s) ELSE
  LET b0 == GetId(s.borrows, bid) IN
  IF b0.liq \/ ~HasPair(cfg, b0.pair) \/ ~HasId(s.lends, b0.lend) THEN Fail(s) ELSE
  LET pr == PairC(cfg, b0.pair)  l == GetId(s.lends, b0.lend) IN
  IF l.o # u THEN Fail(s) ELSE
  LET s1 == Accrue(s, bid, env)  b == GetId(s1.borrows, bid) IN
  IF da # b.oa \/ amt > PB(s1, pr.opool, pr.aout).amt \/ ~PriceOk(s, l.asset) \/ ~PriceOk(s, pr.aout) THEN Fail(s)
  ELSE IF ~RatioOk(cfg, s1, b.cin, l.asset, b.out + b.iT + amt, pr.aout, FracMul(PairLtv(cfg, pr), IF pr.inter THEN BridgeLtv(cfg, b) ELSE One)) THEN Fail(s)
  ELSE Done(AddTB(PutBorrow(UserAmt(PoolAmt(s1, pr.opool, pr.aout, -amt), u, pr.aout, amt), [b EXCEPT !.out = @ + amt]),
                  pr.opool, pr.aout, b.st, amt))

(* quantity of transit asset t bridged for collateral value of x cTokens of asset a at ratio r (keeper.go:703-733) *)
BridgeQty(cfg, s, x, a, r, t) == (MulFrac(x, r) * P(cfg, s, a) * Dec(cfg, t)) \div (Dec(cfg, a) * P(cfg, s, t))
BridgeLt(cfg, s, x, a, r, t, bal) == MulFrac(x, r) * P(cfg, s, a) * Dec(cfg, t) < bal * Dec(cfg, a) * P(cfg, s, t)

(* ---- MsgDepositBorrow ---- *)
DepositBorrow(cfg, s, u, bid, ca, amt, env) ==
  IF ~HasId(s.borrows, bid) THEN Fail(s) ELSE
  LET b0 == GetId(s.borrows, bid) IN
  IF b0.liq \/ ~HasId(s.lends, b0.lend) \/ ~HasPair(cfg, b0.pair) THEN Fail(s) ELSE
  LET l == GetId(s.lends, b0.lend)  pr == PairC(cfg, b0.pair) IN
  IF l.o # u THEN Fail(s) ELSE
  LET s1 == Accrue(s, bid, env)  b == GetId(s1.borrows, bid) IN
  IF ca # l.asset \/ amt > l.av \/ UB(s1, u, ca).c < amt THEN Fail(s)
  ELSE LET s2 == PutBorrow(PutLend(PoolCt(UserCt(s1, u, ca, -amt), l.pool, ca, amt), [l EXCEPT !.av = @ - amt]), [b EXCEPT !.cin = @ + amt]) IN
       IF ~pr.inter THEN Done(s2)
       ELSE LET pc == PoolC(cfg, l.pool)  r == AssetC(cfg, l.asset).ltv IN
            IF ~PriceOk(s, pr.ain) \/ ~PriceOk(s, pc.t1) \/ ~PriceOk(s, pc.t2) THEN Fail(s)
            ELSE IF b.bra = pc.t1 /\ BridgeLt(cfg, s1, amt, pr.ain, r, pc.t1, PB(s1, l.pool, pc.t1).amt)
                 THEN LET q == BridgeQty(cfg, s1, amt, pr.ain, r, pc.t1) IN
                      Done(PutBorrow(PoolAmt(PoolAmt(s2, l.pool, pc.t1, -q), pr.opool, pc.t1, q), [GetId(s2.borrows, bid) EXCEPT !.bram = @ + q]))
            ELSE IF BridgeLt(cfg, s1, amt, pr.ain, r, pc.t2, PB(s1, l.pool, pc.t2).amt)
                 THEN LET q == BridgeQty(cfg, s1, amt, pr.ain, r, pc.t2) IN
                      Done(PutBorrow(PoolAmt(PoolAmt(s2, l.pool, pc.t2, -q), pr.opool, pc.t2, q), [GetId(s2.borrows, bid) EXCEPT !.bram = @ + q]))
            ELSE Fail(s)

(* ---- MsgBorrow ---- *)
UserBorrowOnPair(s, u, pid) == {b \in Range(s.borrows) : b.pair = pid /\ HasId(s.lends, b.lend) /\ GetId(s.lends, b.lend).o = u}
NewBorrow(cfg, s, u, l, pr, cin, loan, stable, bra, bram) ==
  LET id == s.nb + 1
      b == [id |-> id, lend |-> l.id, pair |-> pr.id, cin |-> cin, ca |-> pr.ain, out |-> loan, oa |-> pr.aout, iT |-> 0,
            liq |-> FALSE, ho |-> FALSE, uv |-> FALSE, st |-> stable, bra |-> bra, bram |-> bram]
      s1 == UserAmt(PoolAmt(PoolCt(UserCt(s, u, pr.ain, -cin), l.pool, pr.ain, cin), pr.opool, pr.aout, -loan), u, pr.aout, loan)
      s2 == AddBid(AddTB(s1, pr.opool, pr.aout, stable, loan), pr.opool, pr.aout, id)
  IN [PutLend(s2, [l EXCEPT !.av = @ - cin]) EXCEPT !.nb = id, !.borrows = Append(@, b)]

Borrow(cfg, s, u, lid, pid, ca, cin, la, loan, stable, env) ==
  IF ~HasId(s.lends, lid) THEN Fail(s) ELSE
  LET l == GetId(s.lends, lid) IN
  IF l.o # u \/ ~HasPair(cfg, pid) THEN Fail(s) ELSE
  LET pr == PairC(cfg, pid) IN
  IF pid \notin PairsOf(cfg, pr.ain, l.pool) \/ ca # pr.ain \/ l.asset # pr.ain \/ ~PriceOk(s, pr.aout) \/ ~MinLoanOk(cfg, s, pr.aout, loan) THEN Fail(s)
  ELSE IF UserBorrowOnPair(s, u, pid) # {}
  THEN (* DepositDraw on the user's existing position of this pair *)
       LET bid == (CHOOSE b \in UserBorrowOnPair(s, u, pid) : TRUE).id
           d1 == DepositBorrow(cfg, s, u, bid, ca, cin, env) IN
       IF ~d1.ok THEN Fail(s)
       ELSE LET d2 == Draw(cfg, d1.st, u, bid, la, loan, NoEnv) IN IF d2.ok THEN d2 ELSE Fail(s)
  ELSE IF cin > l.av \/ la # pr.aout \/ (stable /\ ~AssetC(cfg, pr.ain).stable) \/ ~PriceOk(s, l.asset) THEN Fail(s)
  ELSE IF ~RatioOk(cfg, s, cin, l.asset, loan, pr.aout, PairLtv(cfg, pr)) \/ loan > PB(s, pr.opool, pr.aout).amt \/ UB(s, u, pr.ain).c < cin THEN Fail(s)
  ELSE IF ~pr.inter THEN Done(NewBorrow(cfg, s, u, l, pr, cin, loan, stable, pr.aout, 0))
  ELSE LET pc == PoolC(cfg, l.pool)  r == PairLtv(cfg, pr) IN
       IF ~PriceOk(s, pc.t1) \/ ~PriceOk(s, pc.t2) THEN Fail(s)
       ELSE IF BridgeLt(cfg, s, cin, l.asset, r, pc.t1, PB(s, l.pool, pc.t1).amt)
            THEN LET q == BridgeQty(cfg, s, cin, l.asset, r, pc.t1) IN
                 IF ~RatioOk(cfg, s, q, pc.t1, loan, pr.aout, AssetC(cfg, pc.t1).ltv) THEN Fail(s)
                 ELSE Done(PoolAmt(PoolAmt(NewBorrow(cfg, s, u, l, pr, cin, loan, stable, pc.t1, q), l.pool, pc.t1, -q), pr.opool, pc.t1, q))
       ELSE IF BridgeLt(cfg, s, cin, l.asset, r, pc.t2, PB(s, l.pool, pc.t2).amt)
            THEN LET q == BridgeQty(cfg, s, cin, l.asset, r, pc.t2) IN
                 IF ~RatioOk(cfg, s, q, pc.t2, loan, pr.aout, AssetC(cfg, pc.t2).ltv) THEN Fail(s)
                 ELSE Done(PoolAmt(PoolAmt(NewBorrow(cfg, s, u, l, pr, cin, loan, stable, pc.t2, q), l.pool, pc.t2, -q), pr.opool, pc.t2, q))
       ELSE Fail(s)

(* ---- MsgBorrowAlternate: lend (or deposit) and borrow against all of it ---- *)
BorrowAlt(cfg, s, u, a, p, da, cin, pid, la, loan, stable, env) ==
  LET r1 == Lend(cfg, s, u, a, p, da, cin, env) IN
  IF ~r1.ok THEN Fail(s) ELSE
  LET lid == (CHOOSE l \in ExistingLend(r1.st, u, a, p) : TRUE).id
      r2 == Borrow(cfg, r1.st, u, lid, pid, a, cin, la, loan, stable, [env EXCEPT !.rew = <<>>]) IN
  IF r2.ok THEN r2 ELSE Fail(s)

(* ---- MsgCloseBorrow ---- *)
(* env.toRes : part of the interest that the code routes to the reserve; env.mint : cTokens minted to the out pool *)
CloseBorrow(cfg, s, u, bid, env) ==
  IF ~HasId(s.borrows, bid) THEN Fail(s) ELSE
  LET b0 == GetId(s.borrows, bid) IN
  IF b0.liq \/ ~HasPair(cfg, b0.pair) \/ ~HasId(s.lends, b0.lend) THEN Fail(s) ELSE
  LET pr == PairC(cfg, b0.pair)  l == GetId(s.lends, b0.lend) IN
  IF l.o # u THEN Fail(s) ELSE
  LET s1 == Accrue(s, bid, env)  b == GetId(s1.borrows, bid)  due == b.out + b.iT IN
  IF UB(s1, u, pr.aout).amt < due \/ PB(s1, l.pool, b.ca).c < b.cin THEN Fail(s) ELSE
  LET s2 == UserCt(PoolCt(PoolAmt(UserAmt(s1, u, pr.aout, -due), pr.opool, pr.aout, due), l.pool, b.ca, -b.cin), u, b.ca, b.cin)
      s3 == AddTia(PoolCt(ResAmt(PoolAmt(s2, pr.opool, pr.aout, -env.toRes), pr.aout, env.toRes), pr.opool, pr.aout, env.mint), pr.opool, pr.aout, env.mint)
  IN IF pr.inter /\ b.bram > 0 /\ PB(s3, pr.opool, b.bra).amt < b.bram THEN Fail(s) ELSE
  LET s4 == IF pr.inter /\ b.bram > 0 THEN PoolAmt(PoolAmt(s3, pr.opool, b.bra, -b.bram), l.pool, b.bra, b.bram) ELSE s3
      s5 == DelBid(AddTB(s4, pr.opool, pr.aout, b.st, -b.out), pr.opool, pr.aout, bid)
  IN Done([PutLend(s5, [l EXCEPT !.av = @ + b.cin]) EXCEPT !.borrows = DelId(@, bid)])

(* ---- MsgRepay ---- *)
Repay(cfg, s, u, bid, da, amt, env) ==
  IF ~HasId(s.borrows, bid) THEN Fail(s) ELSE
  LET b0 == GetId(s.borrows, bid) IN
  IF b0.liq THEN Fail(s)
  ELSE IF amt = b0.out + b0.iT THEN CloseBorrow(cfg, s, u, bid, env)
  ELSE IF ~HasPair(cfg, b0.pair) \/ ~HasId(s.lends, b0.lend) THEN Fail(s) ELSE
  LET pr == PairC(cfg, b0.pair)  l == GetId(s.lends, b0.lend) IN
  IF l.o # u THEN Fail(s) ELSE
  LET s1 == Accrue(s, bid, env)  b == GetId(s1.borrows, bid) IN
  IF da # b.oa \/ amt >= b.out + b.iT + env.frac \/ UB(s1, u, pr.aout).amt < amt THEN Fail(s) ELSE
  LET s2 == PoolAmt(UserAmt(s1, u, pr.aout, -amt), pr.opool, pr.aout, amt)
      s3 == AddTia(PoolCt(ResAmt(PoolAmt(s2, pr.opool, pr.aout, -env.toRes), pr.aout, env.toRes), pr.opool, pr.aout, env.mint), pr.opool, pr.aout, env.mint)
  IN IF amt <= b.iT \/ amt <= env.rT THEN Done(PutBorrow(s3, [b EXCEPT !.iT = @ - amt]))
     ELSE LET d == amt - b.iT IN Done(AddTB(PutBorrow(s3, [b EXCEPT !.iT = 0, !.out = @ - d]), pr.opool, pr.aout, b.st, -d))
(* without a time gap nothing goes to the reserve and the interest part of the payment is minted as cTokens *)
RepayEnv0(s, bid, amt) == IF HasId(s.borrows, bid) THEN [NoEnv EXCEPT !.mint = Min2(amt, Max0(GetId(s.borrows, bid).iT))] ELSE NoEnv
CloseEnv0(s, bid) == IF HasId(s.borrows, bid) THEN [NoEnv EXCEPT !.mint = Max0(GetId(s.borrows, bid).iT)] ELSE NoEnv

(* ---- MsgRepayWithdraw ---- *)
RepayWithdraw(cfg, s, u, bid, env) ==
  IF ~HasId(s.borrows, bid) THEN Fail(s) ELSE
  LET b0 == GetId(s.borrows, bid)
      r1 == CloseBorrow(cfg, s, u, bid, env) IN
  IF ~r1.ok THEN Fail(s) ELSE
  LET l == GetId(r1.st.lends, b0.lend)
      r2 == Withdraw(cfg, r1.st, u, b0.lend, l.asset, b0.cin, env) IN
  IF r2.ok THEN r2 ELSE Fail(s)

(* ---- MsgCalculateInterestAndRewards: every borrow of the user's lend positions accrues (errors skipped), then every lend *)
(*      position is credited its reward in id order (an error there fails the message)                                    *)
RECURSIVE CalcLends(_, _, _, _)
CalcLends(cfg, s, lids, env) ==
  IF lids = <<>> THEN Done(s)
  ELSE LET r == Reward(cfg, s, Head(lids), RewOf(env, Head(lids))) IN
       IF ~r.ok THEN Fail(s) ELSE CalcLends(cfg, r.st, Tail(lids), env)
CalcInterest(cfg, s, u, env) ==
  LET mine == SelectSeq(s.lends, LAMBDA l : l.o = u) IN
  IF mine = <<>> THEN Fail(s) ELSE
  LET s1 == [s EXCEPT !.borrows = [i \in 1..Len(s.borrows) |->
                 IF ~s.borrows[i].liq /\ HasId(mine, s.borrows[i].lend) THEN [s.borrows[i] EXCEPT !.iT = IntOf(env, s.borrows[i])] ELSE s.borrows[i]]]
      r == CalcLends(cfg, s1, [i \in 1..Len(mine) |-> mine[i].id], env)
  IN IF r.ok THEN r ELSE Fail(s)

(* ---- MsgFundModuleAccounts / MsgFundReserveAccounts ---- *)
FundMod(cfg, s, u, p, a, da, amt) ==
  IF ~HasPool(cfg, p) \/ ~HasAsset(cfg, a) \/ da # a \/ ~HasUB(s, u, a) \/ UB(s, u, a).amt < amt THEN Fail(s)
  ELSE Done(PoolCt(PoolAmt(UserAmt(s, u, a, -amt), p, a, amt), p, a, amt))
FundReserve(cfg, s, u, a, da, amt) ==
  IF ~HasAsset(cfg, a) \/ da # a \/ UB(s, u, a).amt < amt THEN Fail(s)
  ELSE Done(ResAmt(UserAmt(s, u, a, -amt), a, amt))

(* ---- environment ---- *)
SetPrice(s, a, p) == [s EXCEPT !.price = [i \in 1..Len(s.price) |-> IF s.price[i].a = a THEN [s.price[i] EXCEPT !.p = p, !.act = TRUE] ELSE s.price[i]]]
AccrueEnv(s, bid, d) == IF HasId(s.borrows, bid) /\ ~GetId(s.borrows, bid).liq
                        THEN Done(PutBorrow(s, [GetId(s.borrows, bid) EXCEPT !.iT = @ + d])) ELSE Fail(s)

(* V2 liquidation hand-over (x/liquidationsV2/keeper/liquidate.go UpdateLockedBorrows): the collateral leaves the books *)
HandOver(cfg, s, bid, iT) ==
  LET b == GetId(s.borrows, bid)  pr == PairC(cfg, b.pair)  l == GetId(s.lends, b.lend)
      s1 == PutBorrow(s, [b EXCEPT !.liq = TRUE, !.ho = TRUE, !.iT = iT])
      s2 == PoolCt(PoolAmt(s1, l.pool, pr.ain, -b.cin), l.pool, pr.ain, -b.cin)
      s3 == AddTL(AddTB(s2, pr.opool, pr.aout, b.st, -b.out), l.pool, l.asset, -b.cin)
      l2 == [l EXCEPT !.ain = IF @ > b.cin THEN @ - b.cin ELSE 0]
      (* the position goes only when nothing is left on it: no deposit, nothing available (credited rewards), no other live borrow pledged on it *)
      others == \E o \in Range(s.borrows) : o.id # bid /\ o.lend = l.id /\ ~o.liq
  IN IF l2.ain > 0 \/ l.av > 0 \/ others THEN PutLend(s3, l2) ELSE [DelLid(s3, l.pool, l.asset, l.id) EXCEPT !.lends = DelId(@, l.id)]
=============================================================================
