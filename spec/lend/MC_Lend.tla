------------------------------ MODULE MC_Lend ------------------------------
(* Bounded model of the lend application over the operators of Lend.tla.                                  *)
(* The initial state and the configuration are the projection of the REAL initial state (written by      *)
(* `vh lend --init`), so model states and projected implementation states are the same kind of value.    *)
(* TLC checks C08 on the model and prints one line per generated transition; every transition is then    *)
(* executed once on the real msg servers by `vh lend --trans` (graph walk).                               *)
EXTENDS Lend, TLC, Json
CONSTANTS InitFile, Profile, MaxSteps, Emit

Root == JsonDeserialize(InitFile)
Cfg == Root.cfg
VARIABLES st, n
vars == <<st, n>>
Init == st = Root.st.m /\ n = 0

Users == {"u1", "u2"}
(* ---- bounded argument sets per profile ---- *)
LendOpts ==     \* <<user, asset, pool, amount>>
  CASE Profile = "same"  -> {<<"u1", 1, 1, 20>>, <<"u2", 1, 1, 10>>}
    [] Profile = "cross" -> {<<"u1", 1, 1, 20>>, <<"u2", 4, 2, 20>>}
    [] Profile = "multi" -> {<<"u1", 1, 1, 20>>, <<"u1", 2, 1, 20>>}
    [] Profile = "twopool" -> {<<"u1", 2, 1, 20>>, <<"u1", 2, 2, 20>>}     \* the same asset (one cToken denom) lent into both pools
    [] OTHER -> {<<"u1", 1, 1, 20>>}
BorrowOpts ==   \* <<pair, cin, loan, stable>>   (exact LTV boundary of pair 1 at price 1: 10 * 7/10 = 7; pair 5 (bridged): 10*7/10*8/10 -> 5)
  CASE Profile = "same"  -> {<<1, 10, 6, FALSE>>, <<1, 10, 7, FALSE>>, <<1, 10, 8, FALSE>>}
    [] Profile = "cross" -> {<<5, 10, 5, FALSE>>, <<5, 10, 6, FALSE>>, <<10, 10, 4, FALSE>>, <<10, 10, 5, TRUE>>}
    [] Profile = "multi" -> {<<1, 10, 7, FALSE>>, <<2, 10, 7, FALSE>>, <<3, 10, 8, TRUE>>, <<11, 10, 9, FALSE>>, <<11, 10, 10, FALSE>>, <<3, 10, 5, FALSE>>}
    [] Profile = "twopool" -> {<<3, 20, 16, FALSE>>, <<3, 10, 8, TRUE>>, <<9, 10, 8, FALSE>>, <<9, 10, 9, FALSE>>}
    [] OTHER -> {<<1, 10, 7, FALSE>>}
AltOpts ==      \* <<user, asset, pool, cin, pair, loan>>
  CASE Profile = "cross" -> {<<"u2", 1, 1, 10, 5, 5>>}
    [] Profile = "multi" -> {<<"u2", 1, 1, 10, 1, 7>>, <<"u1", 1, 1, 10, 2, 8>>}
    [] OTHER -> {}
DrawAmts == IF Profile \in {"multi", "twopool"} THEN {1} ELSE {1, 2}
RepayAmts == IF Profile \in {"multi", "twopool"} THEN {2} ELSE {1, 7}
DepBorrowAmts == {5}
DepositAmts == IF Profile = "same" THEN {10} ELSE {}
WithdrawAmts == IF Profile \in {"multi", "twopool"} THEN {10} ELSE {5, 10}
AccrueAmts == {1}
PriceOpts == CASE Profile = "same" -> {<<1, 2>>, <<1, 1>>, <<2, 2>>}      \* <<asset, price in pu>>
               [] Profile = "cross" -> {<<1, 2>>, <<1, 1>>}
               [] OTHER -> {}
Foreign == Profile \notin {"multi", "twopool"}      \* also let the other user try every position

Out(a, args, res) ==
  IF Emit THEN PrintT(<<"T", ToJson([a |-> a, args |-> args, pre |-> st, ok |-> res.ok])>>) ELSE TRUE
Step(a, args, res) == /\ st' = res.st /\ n' = n + 1 /\ Out(a, args, res)

OwnerOf(lid) == GetId(st.lends, lid).o
Actors(owner) == IF Foreign THEN Users ELSE {owner}
BOwner(b) == IF HasId(st.lends, b.lend) THEN OwnerOf(b.lend) ELSE "u1"

Next ==
  /\ n < MaxSteps
  /\ \/ \E o \in LendOpts : Step("Lend", [u |-> o[1], asset |-> o[2], pool |-> o[3], da |-> o[2], amt |-> o[4]],
                                  Lend(Cfg, st, o[1], o[2], o[3], o[2], o[4], NoEnv))
     \/ \E l \in Range(st.lends) : \E u \in Actors(l.o), amt \in DepositAmts :
           Step("Deposit", [u |-> u, lend |-> l.id, da |-> l.asset, amt |-> amt], Deposit(Cfg, st, u, l.id, l.asset, amt, NoEnv))
     \/ \E l \in Range(st.lends) : \E u \in Actors(l.o), amt \in WithdrawAmts \cup {l.av + 1} :
           Step("Withdraw", [u |-> u, lend |-> l.id, da |-> l.asset, amt |-> amt], Withdraw(Cfg, st, u, l.id, l.asset, amt, NoEnv))
     \/ \E l \in Range(st.lends) : \E u \in Actors(l.o) :
           Step("CloseLend", [u |-> u, lend |-> l.id], CloseLend(Cfg, st, u, l.id, NoEnv))
     \/ \E l \in Range(st.lends), o \in BorrowOpts :
           LET pr == PairC(Cfg, o[1]) IN
           Step("Borrow", [u |-> l.o, lend |-> l.id, pair |-> o[1], ca |-> pr.ain, cin |-> o[2], la |-> pr.aout, loan |-> o[3], stable |-> o[4]],
                Borrow(Cfg, st, l.o, l.id, o[1], pr.ain, o[2], pr.aout, o[3], o[4], NoEnv))
     \/ \E o \in AltOpts :
           LET pr == PairC(Cfg, o[5]) IN
           Step("BorrowAlt", [u |-> o[1], asset |-> o[2], pool |-> o[3], da |-> o[2], cin |-> o[4], pair |-> o[5], la |-> pr.aout, loan |-> o[6], stable |-> FALSE],
                BorrowAlt(Cfg, st, o[1], o[2], o[3], o[2], o[4], o[5], pr.aout, o[6], FALSE, NoEnv))
     \/ \E b \in Range(st.borrows) : \E u \in Actors(BOwner(b)), amt \in DepBorrowAmts :
           Step("DepositBorrow", [u |-> u, b |-> b.id, ca |-> b.ca, amt |-> amt], DepositBorrow(Cfg, st, u, b.id, b.ca, amt, NoEnv))
     \/ \E b \in Range(st.borrows) : \E u \in Actors(BOwner(b)), amt \in DrawAmts :
           Step("Draw", [u |-> u, b |-> b.id, da |-> b.oa, amt |-> amt], Draw(Cfg, st, u, b.id, b.oa, amt, NoEnv))
     \/ \E b \in Range(st.borrows) : \E u \in Actors(BOwner(b)), amt \in RepayAmts \cup {b.out + b.iT, b.out + b.iT + 1} :
           Step("Repay", [u |-> u, b |-> b.id, da |-> b.oa, amt |-> amt],
                Repay(Cfg, st, u, b.id, b.oa, amt, IF amt = b.out + b.iT THEN CloseEnv0(st, b.id) ELSE RepayEnv0(st, b.id, amt)))
     \/ \E b \in Range(st.borrows) : \E u \in Actors(BOwner(b)) :
           Step("CloseBorrow", [u |-> u, b |-> b.id], CloseBorrow(Cfg, st, u, b.id, CloseEnv0(st, b.id)))
     \/ \E b \in Range(st.borrows) : \E u \in Actors(BOwner(b)) :
           Step("RepayWithdraw", [u |-> u, b |-> b.id], RepayWithdraw(Cfg, st, u, b.id, CloseEnv0(st, b.id)))
     \/ \E u \in Users : Step("CalcInterest", [u |-> u], CalcInterest(Cfg, st, u, NoEnv))
     \/ \E b \in Range(st.borrows), d \in AccrueAmts :
           b.iT < 2 /\ Step("Accrue", [b |-> b.id, d |-> d], AccrueEnv(st, b.id, d))
     \/ \E o \in PriceOpts :
           PriceRec(st, o[1]).p # o[2] * Cfg.pu /\ Step("Price", [asset |-> o[1], p |-> o[2]], Done(SetPrice(st, o[1], o[2] * Cfg.pu)))
Spec == Init /\ [][Next]_vars

(* ---- C08 on the model ---- *)
InvBooksLend == BooksLend(st)
InvBooksBorrow == BooksBorrow(Cfg, st)
PropLtv == [][LtvOnRelease(Cfg, st, st')]_vars
PropLtvOpenBridged == [][LtvOnOpenBridged(Cfg, st, st')]_vars
PropLtvDrawBridged == [][LtvOnDrawBridged(Cfg, st, st')]_vars   \* failed on the model while Draw transcribed the unrepaired DrawAsset
PropPoolHeld == [][PoolHeldLoan(Cfg, st, st')]_vars
NonNeg == /\ \A l \in Range(st.lends) : l.av >= 0
          /\ \A x \in Range(st.pb) : x.amt >= 0 /\ x.c >= 0
          /\ \A x \in Range(st.ub) : x.amt >= 0 /\ x.c >= 0
=============================================================================
