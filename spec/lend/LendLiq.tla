------------------------------ MODULE LendLiq ------------------------------
(* Borrow side of C09 (liquidation is safe and live) and of C10 (Dutch auctions settle completely at the posted price)   *)
(* for lend-initiated V2 liquidations: x/liquidationsV2/keeper/liquidate.go (LiquidateBorrows, LiquidateIndividualBorrow,  *)
(* UpdateLockedBorrows, MsgCloseDutchAuctionForBorrow) and x/auctionsV2/keeper/bid.go (PlaceDutchAuctionBid).              *)
(* A state S is a recorded projection [m |-> lend state of Lend.tla, x |-> observations]:                                  *)
(*   x.lv    <<[id, b, owner, coll, collA, debt, target, debtA, fee, bonus, ikeeper, keeper, dutch]>>  locked vaults       *)
(*   x.aucs  <<[id, lv, b, debtLeft, debtA, collLeft, collA, lend, dutch, price, init, bonusLeft, start, end]>> auctions  *)
(*           (price, init: 18-decimal fixed point as limbs)                                                                 *)
(*   x.auc   <<[asset, amt]>> auction module custody;  x.kb <<[asset, amt]>> balances of the bidding keeper                *)
(*   x.ks    the app's circuit breaker;  x.xb <<[id, iF, rT]>> reserve share (whole coins) carried by a borrow position    *)
EXTENDS Lend

CeilDiv(a, b) == (a + b - 1) \div b
FloorMul(x, r) == (x * r[1]) \div r[2]
E18 == LProd(<<1000000000, 1000000000>>)

(* ------------------------------------------------------------ thresholds and safety *)
(* the liquidation threshold applicable to a position: its collateral asset's (e-mode value on an e-mode pair), times the  *)
(* threshold of the transit asset the position is bridged through when it is a cross-pool position                         *)
LiqThr1(cfg, b) == IF PairC(cfg, b.pair).emode THEN AssetC(cfg, b.ca).eliq ELSE AssetC(cfg, b.ca).liq
LiqThr2(cfg, b) == IF b.bram > 0 /\ HasAsset(cfg, b.bra) THEN AssetC(cfg, b.bra).liq ELSE One
(* exact: debt value (principal + iT whole coins of interest) / collateral value  >  threshold, at the prices of m *)
UnsafeWith(cfg, m, b, iT) ==
  /\ HasPair(cfg, b.pair) /\ HasAsset(cfg, b.ca) /\ HasAsset(cfg, b.oa)
  /\ PriceOk(m, b.oa) /\ PriceOk(m, b.ca)
  /\ ~ValueLe(b.out + Max0(iT), PriceRec(m, b.oa).p, AssetC(cfg, b.oa).dec, b.cin, PriceRec(m, b.ca).p, AssetC(cfg, b.ca).dec,
              LiqThr1(cfg, b), LiqThr2(cfg, b))

(* borrows handed over to a liquidation auction in the step S -> S2 *)
SeizedB(S, S2) == {b \in Range(S2.m.borrows) : b.ho /\ HasId(S.m.borrows, b.id) /\ ~GetId(S.m.borrows, b.id).ho}

(* C09: only unsafe positions are seized (debt includes the interest the liquidation step itself accrued and recorded) *)
OnlyUnsafe(cfg, S, S2) == \A b2 \in SeizedB(S, S2) : UnsafeWith(cfg, S.m, GetId(S.m.borrows, b2.id), b2.iT)
(* C09: nothing is seized while the app's circuit breaker is on *)
OnlyEnabled(cfg, S, S2) == SeizedB(S, S2) # {} => ~S.x.ks /\ cfg.dutch
(* C09: seizure records exactly the position's collateral and debt and opens exactly one auction for it *)
SeizeExact(cfg, S, S2) == \A b2 \in SeizedB(S, S2) :
  LET b == GetId(S.m.borrows, b2.id)
      lvs == {l \in Range(S2.x.lv) : l.b = b.id} IN
  /\ Cardinality(lvs) = 1
  /\ \A l \in lvs :
       /\ l.coll = b.cin /\ l.collA = b.ca /\ l.debt = b.out /\ l.debtA = b.oa /\ l.target >= l.debt
       /\ HasId(S.m.lends, b.lend) => l.owner = GetId(S.m.lends, b.lend).o
       /\ Cardinality({a \in Range(S2.x.aucs) : a.lv = l.id}) = 1
       /\ \A a \in Range(S2.x.aucs) : a.lv = l.id =>
             a.collLeft = b.cin /\ a.collA = b.ca /\ a.debtLeft = l.target /\ a.debtA = b.oa /\ a.lend /\ a.dutch
(* C09: exactly the recorded collateral moves from the collateral pool (coins out, cTokens burnt) into auction custody *)
AucBal(S, a) == (CHOOSE x \in Range(S.x.auc) : x.asset = a).amt
SeizedSum(cfg, S, S2, T(_)) == SumOver(S2.m.borrows, LAMBDA b2 : IF b2 \in SeizedB(S, S2) THEN T(GetId(S.m.borrows, b2.id)) ELSE 0)
CustodyMoves(cfg, S, S2) ==
  /\ \A x \in Range(S2.x.auc) : x.amt - AucBal(S, x.asset) = SeizedSum(cfg, S, S2, LAMBDA b : IF b.ca = x.asset THEN b.cin ELSE 0)
  /\ \A x \in Range(S2.m.pb) :
       LET took == SeizedSum(cfg, S, S2, LAMBDA b : IF b.ca = x.asset /\ HasId(S.m.lends, b.lend) /\ GetId(S.m.lends, b.lend).pool = x.pool THEN b.cin ELSE 0)
       IN PB(S.m, x.pool, x.asset).amt - x.amt = took /\ PB(S.m, x.pool, x.asset).c - x.c = took

(* liveness ghost: a position that is open, not yet seized, unsafe (already with the interest on record) and enabled *)
StillBad(cfg, S, bid) ==
  /\ HasId(S.m.borrows, bid) /\ ~S.x.ks /\ cfg.dutch
  /\ LET b == GetId(S.m.borrows, bid) IN ~b.liq /\ ~b.ho /\ HasId(S.m.lends, b.lend) /\ UnsafeWith(cfg, S.m, b, b.iT)
(* ... and whose collateral pool holds the collateral's underlying coins (seizure moves them to the auction). NAMED DEVIATION: the   *)
(* pool's coins can be lent or bridged out; UpdateLockedBorrows then fails and the wrapped sweep item is skipped block after block.   *)
StillBadLiquid(cfg, S, bid) ==
  /\ StillBad(cfg, S, bid)
  /\ LET b == GetId(S.m.borrows, bid) IN PB(S.m, GetId(S.m.lends, b.lend).pool, b.ca).amt >= b.cin
(* first generation (x/liquidation LiquidateBorrows; no whitelisting there): open, not under liquidation, unsafe, circuit breaker off *)
StillBadV1(cfg, S, bid) ==
  /\ cfg.v1 /\ HasId(S.m.borrows, bid) /\ ~S.x.ks
  /\ LET b == GetId(S.m.borrows, bid) IN ~b.liq /\ ~b.uv /\ ~b.ho /\ HasId(S.m.lends, b.lend) /\ UnsafeWith(cfg, S.m, b, b.iT)
(* the first-generation sell-off (debt - c*collateral)/(1 - b*c), b = 1 + penalty + bonus, stays within the pledged collateral iff debt value * b <= collateral value *)
WithinCollateralV1(cfg, m, b) ==
  LET a == AssetC(cfg, b.ca)
      pen == IF PairC(cfg, b.pair).emode THEN a.epen ELSE a.pen
      den == pen[2] * a.bonus[2]
      num == den + pen[1] * a.bonus[2] + a.bonus[1] * pen[2] IN
  ValueLe(b.out + Max0(b.iT), PriceRec(m, b.oa).p, AssetC(cfg, b.oa).dec, b.cin, PriceRec(m, b.ca).p, a.dec, <<den, num>>, One)
(* ... whose collateral pool holds the pledged coins and whose sell-off stays within the pledged collateral. NAMED DEVIATIONS: the pool's coins can be lent   *)
(* or bridged out, and an underwater position's uncapped sell-off can exceed what the pool holds; the transfer then fails and the sweep item is skipped.      *)
StillBadV1Liquid(cfg, S, bid) ==
  /\ StillBadV1(cfg, S, bid)
  /\ LET b == GetId(S.m.borrows, bid) IN PB(S.m, GetId(S.m.lends, b.lend).pool, b.ca).amt >= b.cin /\ WithinCollateralV1(cfg, S.m, b)
(* length of the list the borrow sweep walks (x/lend GetBorrows: all borrow ids of all pool statistics) *)
SweepLen(S) == SumOver(S.m.stats, LAMBDA x : Len(x.bids))

(* ------------------------------------------------------------ C10: bids on lend auctions *)
HasAuc(S, id) == \E a \in Range(S.x.aucs) : a.id = id
AucOf(S, id) == CHOOSE a \in Range(S.x.aucs) : a.id = id
LvOf(S, id) == CHOOSE l \in Range(S.x.lv) : l.id = id
HasLv(S, id) == \E l \in Range(S.x.lv) : l.id = id
KB(S, a) == (CHOOSE x \in Range(S.x.kb) : x.asset = a).amt
Paid(S, S2, a) == KB(S, a.debtA) - KB(S2, a.debtA)
Received(S, S2, a) == KB(S2, a.collA) - KB(S, a.collA)
(* never more collateral than the amount paid plus the advertised bonus buys at the posted price (one unit of rounding per coin) *)
PostedPrice(cfg, S, S2, a) ==
  Received(S, S2, a) > 1 =>
    LLe(LMul(a.price, LProd(<<Received(S, S2, a) - 1, AssetC(cfg, a.debtA).dec>>)),
        LMul(E18, LProd(<<Paid(S, S2, a) + 1 + a.bonusLeft, AssetC(cfg, a.collA).dec, PriceRec(S.m, a.debtA).p>>)))
(* what live lend auctions hold: unsold collateral and the debt coins collected so far *)
Held(S, asset) == SumOver(S.x.aucs, LAMBDA a :
     (IF a.collA = asset THEN a.collLeft ELSE 0) + (IF a.debtA = asset /\ HasLv(S, a.lv) THEN LvOf(S, a.lv).target - a.debtLeft ELSE 0))
CustodyRoot(S) == \A x \in Range(S.x.auc) : x.amt = Held(S, x.asset)
CustodyDelta(S, S2) == \A x \in Range(S2.x.auc) : x.amt - AucBal(S, x.asset) = Held(S2, x.asset) - Held(S, x.asset)
(* price path of a Dutch auction: at (re)start the oracle price times the premium, afterwards never above it, never below start * discount, non-increasing *)
StartPriceOk(cfg, S2, a) == LEq(LMul(a.init, LOfInt(cfg.premium[2])), LMul(E18, LProd(<<PriceRec(S2.m, a.collA).p, cfg.premium[1]>>))) /\ LEq(a.price, a.init)
InBand(cfg, a) == LLe(a.price, a.init) /\ LLe(LMul(a.init, LOfInt(cfg.discount[1])), LMul(a.price, LOfInt(cfg.discount[2])))

(* ------------------------------------------------------------ C10: close of a lend auction (MsgCloseDutchAuctionForBorrow) *)
RT(S, bid) == IF \E y \in Range(S.x.xb) : y.id = bid THEN Max0((CHOOSE y \in Range(S.x.xb) : y.id = bid).rT) ELSE 0
(* proceeds: the whole target debt leaves auction custody for the debt pool; from there the liquidation penalty and the reserve's share  *)
(* of the accrued interest go to the reserve; the borrower's principal stays in the pool                                                   *)
CloseProceeds(cfg, S, S2, a, l, b) ==
  LET pr == PairC(cfg, b.pair)
      toRes == Res(S2.m, a.debtA) - Res(S.m, a.debtA)
      toPool == PB(S2.m, pr.opool, a.debtA).amt - PB(S.m, pr.opool, a.debtA).amt
      back == IF b.bram > 0 /\ b.bra = a.debtA THEN b.bram ELSE 0
  IN /\ toPool + toRes + back = l.target
     /\ toRes = l.fee + RT(S, b.id)
(* a cross-pool position's bridged transit coins return to the collateral's pool *)
CloseBridged(cfg, S, S2, a, l, b) ==
  b.bram > 0 /\ b.bra # a.debtA /\ HasId(S.m.lends, b.lend) =>
    LET pr == PairC(cfg, b.pair)  lp == GetId(S.m.lends, b.lend).pool IN
    /\ PB(S2.m, lp, b.bra).amt - PB(S.m, lp, b.bra).amt = b.bram
    /\ PB(S2.m, pr.opool, b.bra).amt - PB(S.m, pr.opool, b.bra).amt = -b.bram
(* unsold collateral goes to the position's owner *)
CloseOwner(cfg, S, S2, a, l, b) ==
  HasUB(S.m, l.owner, a.collA) => UB(S2.m, l.owner, a.collA).amt - UB(S.m, l.owner, a.collA).amt = a.collLeft - Received(S, S2, a)
(* the position is gone: borrow record, locked vault, its entry in the debt pool's list; the interest not owed to the reserve is minted as pool cTokens *)
CloseRecords(cfg, S, S2, a, l, b) ==
  LET pr == PairC(cfg, b.pair)
      minted == PB(S2.m, pr.opool, a.debtA).c - PB(S.m, pr.opool, a.debtA).c IN
  /\ ~HasId(S2.m.borrows, b.id) /\ ~HasLv(S2, l.id)
  /\ b.id \notin Range(Stat(S2.m, pr.opool, pr.aout).bids)
  /\ minted = Stat(S2.m, pr.opool, pr.aout).tia - Stat(S.m, pr.opool, pr.aout).tia
  /\ minted >= 0 /\ minted <= Max0(b.iT - RT(S, b.id)) + 1 /\ minted >= Max0(b.iT - RT(S, b.id)) - 1

(* ======================================================================================================================== *)
(* FIRST GENERATION: x/liquidation (MsgLiquidateBorrow, LiquidateBorrows sweep) and x/auction lend Dutch auctions             *)
(* (PlaceLendDutchAuctionBid, CloseDutchLendAuction, RestartDutchLendAuctions). A seizure is PARTIAL: the collateral worth the *)
(* sell-off amount (+ bidder bonus) moves to the auction module, the penalty to the reserve, the position's collateral, the    *)
(* lend position's AmountIn and the published total lent drop by the deducted amount; the rest stays pledged (uv flag) until    *)
(* the auction ends and the position is re-created, re-auctioned or deleted.                                                     *)
(*   x.v1lv   <<[id, b, owner, ain, aout, uout, prog, done, lend]>>   locked vaults of kind borrow                              *)
(*   x.v1aucs <<[id, map, lv, b, owner, outInit, outLeft, collA, target, got, debtA, price, init, endp, dprice, start, end]>>   *)
(*   x.auc1   <<[asset, amt]>> custody of the first-generation auction module                                                   *)
(* ======================================================================================================================== *)
Auc1Bal(S, a) == (CHOOSE x \in Range(S.x.auc1) : x.asset = a).amt
HasAuc1(S, id) == \E a \in Range(S.x.v1aucs) : a.id = id
Auc1Of(S, id) == CHOOSE a \in Range(S.x.v1aucs) : a.id = id
NewAucs1(S, S2) == {a \in Range(S2.x.v1aucs) : ~HasAuc1(S, a.id)}
HasLv1(S, id) == \E l \in Range(S.x.v1lv) : l.id = id
Lv1Of(S, id) == CHOOSE l \in Range(S.x.v1lv) : l.id = id
BonusRate(cfg, a) == AssetC(cfg, a).bonus
(* positions that come under first-generation liquidation in the step *)
SeizedV1(S, S2) == {b \in Range(S2.m.borrows) : b.uv /\ HasId(S.m.borrows, b.id) /\ ~GetId(S.m.borrows, b.id).uv}
V1OnlyUnsafe(cfg, S, S2) == \A b2 \in SeizedV1(S, S2) : UnsafeWith(cfg, S.m, GetId(S.m.borrows, b2.id), b2.iT)
V1OnlyEnabled(cfg, S, S2) == SeizedV1(S, S2) # {} => ~S.x.ks
(* a locked vault of the post-state carries the id of a live pre-state vault but belongs to another position. NAMED DEVIATION:            *)
(* UpdateLockedBorrows stores the id of the vault it (re-)processes as the id COUNTER, so re-auctioning an older vault moves the counter     *)
(* backwards and the next new vault overwrites a live one.                                                                                 *)
OverwritesVault(S, S2) == \E l \in Range(S.x.v1lv), l2 \in Range(S2.x.v1lv) : l.id = l2.id /\ l.b # l2.b
(* a seizure whose computed sell-off exceeds the pledged collateral (the position's collateral is set to 0). NAMED DEVIATION:             *)
(* UpdateLockedBorrows caps the RECORDS at the pledged amount but still moves / burns the uncapped amounts out of the pool.               *)
Underwater(S, S2) == \E b2 \in SeizedV1(S, S2) : b2.cin = 0
(* one locked vault and one auction per seized position; vault, position, lend position and auction agree on the amounts *)
V1SeizeExact(cfg, S, S2) == \A b2 \in SeizedV1(S, S2) :
  LET b == GetId(S.m.borrows, b2.id)
      lvs == {l \in Range(S2.x.v1lv) : l.b = b.id}
      ded == b.cin - b2.cin IN
  /\ Cardinality(lvs) = 1 /\ ded >= 0 /\ b2.liq
  /\ \A l \in lvs :
       /\ l.ain = b2.cin /\ l.aout = b.out /\ l.uout = b.out + Max0(b2.iT)
       /\ HasId(S.m.lends, b.lend) => l.owner = GetId(S.m.lends, b.lend).o
       /\ HasId(S.m.lends, b.lend) /\ HasId(S2.m.lends, b.lend) => GetId(S.m.lends, b.lend).ain - GetId(S2.m.lends, b.lend).ain = ded
       /\ Cardinality({a \in NewAucs1(S, S2) : a.lv = l.id}) = 1
       /\ \A a \in NewAucs1(S, S2) : a.lv = l.id =>
             a.collA = b.ca /\ a.debtA = b.oa /\ a.got = 0 /\ a.outLeft = a.outInit /\ a.outInit <= ded
(* custody at a seizure step (no bid in it): what left the collateral pool went to the auction module and, as penalty, to the reserve; the     *)
(* auction module received the collateral to sell plus the bidders' bonus on it; the cTokens burnt are the deducted collateral (one coin of     *)
(* rounding per seized position between the deduction and the coins moved)                                                                     *)
V1SeizeCustody(cfg, S, S2) ==
  \A x \in Range(S2.x.auc1) :
    LET as == x.asset
        toAuc == x.amt - Auc1Bal(S, as)
        toRes == Res(S2.m, as) - Res(S.m, as)
        news == {a \in NewAucs1(S, S2) : a.collA = as}
        sumInit == SumOver(S2.x.v1aucs, LAMBDA a : IF a \in news THEN a.outInit ELSE 0)
        sumBonus == SumOver(S2.x.v1aucs, LAMBDA a : IF a \in news THEN FloorMul(a.outInit + 1, BonusRate(cfg, as)) + 1 ELSE 0)
        ded == SumOver(S2.m.borrows, LAMBDA b2 : IF b2.ca = as /\ HasId(S.m.borrows, b2.id) /\ b2.uv THEN GetId(S.m.borrows, b2.id).cin - b2.cin ELSE 0)
        pools == SumOver(S2.m.pb, LAMBDA y : IF y.asset = as THEN PB(S.m, y.pool, as).amt - y.amt ELSE 0)
        burnt == SumOver(S2.m.pb, LAMBDA y : IF y.asset = as THEN PB(S.m, y.pool, as).c - y.c ELSE 0)
        n == Cardinality(news)
    IN /\ toAuc >= sumInit /\ toAuc <= sumInit + sumBonus /\ toRes >= 0
       /\ pools = toAuc + toRes
       /\ burnt = ded
       /\ ded - (toAuc + toRes) <= n /\ (toAuc + toRes) - ded <= n

(* ---- bids ---- *)
Slice1(a, a2) == a.outLeft - a2.outLeft
(* never more collateral than the amount paid buys at the posted price, plus the advertised bonus on it (one coin of rounding on either side) *)
V1PostedPrice(cfg, S, S2, a) ==
  LET recv == Received(S, S2, a)  paid == Paid(S, S2, a)  r == BonusRate(cfg, a.collA)
      unitColl == LMul(a.price, LOfInt(AssetC(cfg, a.debtA).dec))
      bought == LAdd(LMul(a.dprice, LProd(<<paid + 1, AssetC(cfg, a.collA).dec>>)), unitColl)     \* value scale: collateral coins * price * debt decimals
  IN recv > 1 => LLe(LMul(unitColl, LProd(<<recv, r[2]>>)), LAdd(LMul(bought, LOfInt(r[1] + r[2])), LMul(unitColl, LOfInt(r[2]))))
V1StartPriceOk(cfg, S2, a) ==
  /\ LEq(LMul(a.init, LOfInt(cfg.v1buffer[2])), LMul(E18, LProd(<<PriceRec(S2.m, a.collA).p, cfg.v1buffer[1]>>)))
  /\ LEq(LMul(a.endp, LOfInt(cfg.v1cusp[2])), LMul(a.init, LOfInt(cfg.v1cusp[1])))
  /\ LEq(a.price, a.init)
V1InBand(a) == LLe(a.price, a.init) /\ LLe(a.endp, a.price)
V1Covers(S) == \A x \in Range(S.x.auc1) : x.amt >= SumOver(S.x.v1aucs, LAMBDA a : IF a.collA = x.asset THEN a.outLeft ELSE 0)
=============================================================================
