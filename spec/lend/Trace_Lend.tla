----------------------------- MODULE Trace_Lend -----------------------------
(* Validation of executions of the REAL x/lend code (recorded by `vh lend`) against Lend.tla.           *)
(* Every log node is one TLC state; formulas are evaluated on the recorded states:                       *)
(*   C08_*  : the property (books identities in delta form + root check, exact LTV on every released     *)
(*            loan, pool held the coins, withdraw/close never releases pledged collateral)               *)
(*   Conf_* : the recorded step is the step the specification's handler takes (walk: with no accrual;    *)
(*            drives: with the accrued interest / reward amounts observed in the log as environment)     *)
EXTENDS LendLiq, TLC, Json
CONSTANT LogFile
Log == ndJsonDeserialize(LogFile)
NLog == Len(Log)

VARIABLE cur
Init == cur \in 1..NLog
Next == UNCHANGED cur
Spec == Init /\ [][Next]_cur

Nd(i) == Log[i]
IsRoot(nd) == nd.a = "Init"
CfgOf(nd) == IF IsRoot(nd) THEN nd.st.cfg ELSE Log[nd.args.root].st.cfg
Pre(nd) == Log[nd.parent].st.m
Post(nd) == nd.st.m
Panicked(nd) == "panic" \in DOMAIN nd.res /\ nd.res.panic
(* a block whose hooks panic is never committed: it produces no state to judge *)
Judged(nd) == ~IsRoot(nd) /\ ~(nd.a = "Tick" /\ Panicked(nd))

(* closing first-generation bid on an auction of a cross-pool (bridged) position *)
BridgedClose1(nd) == nd.a = "BidV1" /\ nd.res.ok /\ HasAuc1(Log[nd.parent].st, nd.args.auc) /\ ~HasAuc1(nd.st, nd.args.auc)
                     /\ HasId(Pre(nd).borrows, Auc1Of(Log[nd.parent].st, nd.args.auc).b) /\ GetId(Pre(nd).borrows, Auc1Of(Log[nd.parent].st, nd.args.auc).b).bram > 0

(* ---------------------------------------------------------------- C08 on recorded states *)
C08BooksRoot(nd)   == IsRoot(nd) => BooksLend(Post(nd)) /\ BooksBorrow(CfgOf(nd), Post(nd))
(* a step in which some position is handed over to a liquidation auction *)
HandsOver(nd) == \E b \in Range(Post(nd).borrows) : b.ho /\ HasId(Pre(nd).borrows, b.id) /\ ~GetId(Pre(nd).borrows, b.id).ho
(* ... and in which a lend position that still had available funds or other pledged borrows disappears. NAMED DEVIATION:  *)
(* UpdateLockedBorrows (liquidate.go:388-396) deletes the lend position as soon as AmountIn - collateral <= 0.              *)
DropsLend(nd) == HandsOver(nd) /\ \E l \in Range(Pre(nd).lends) :
                    ~HasId(Post(nd).lends, l.id) /\ (l.av > 0 \/ \E b \in Range(Post(nd).borrows) : b.lend = l.id /\ ~b.ho)
(* a first-generation auction ends with the whole principal recovered: the position is deleted and its remaining collateral cTokens go back *)
(* to the owner. NAMED DEVIATION: UnLiquidateLockedBorrows returns the cTokens without raising the lend position's AvailableToBorrow.       *)
DebtClearedV1(nd) == nd.a = "BidV1" /\ nd.res.ok /\ \E l \in Range(Log[nd.parent].st.x.v1lv) :
                        l.ain > 0 /\ HasId(Pre(nd).borrows, l.b) /\ ~HasId(Post(nd).borrows, l.b)
(* a first-generation auction ends, the position is still unsafe, and the attempt to auction it again fails half-way. NAMED DEVIATION:     *)
(* UnLiquidateLockedBorrows swallows the error of UpdateLockedBorrows (underwater position: burning the uncapped cTokens fails) after the   *)
(* published total and the coins have already been moved; the vault is left "complete" without a new auction.                              *)
ReauctionGaveUpV1(nd) == nd.a = "BidV1" /\ nd.res.ok /\ \E l \in Range(nd.st.x.v1lv) :
                            l.done /\ ~l.prog /\ \E l0 \in Range(Log[nd.parent].st.x.v1lv) : l0.id = l.id /\ l0.prog
C08BooksLend(nd)   == Judged(nd) /\ ~HandsOver(nd) /\ ~DebtClearedV1(nd) /\ ~ReauctionGaveUpV1(nd) => DBooksLend(Pre(nd), Post(nd))
C08BooksLendRG(nd) == Judged(nd) /\ ReauctionGaveUpV1(nd) => DBooksLend(Pre(nd), Post(nd))
C08BooksLendDC(nd) == Judged(nd) /\ DebtClearedV1(nd) => DBooksLend(Pre(nd), Post(nd))
C08BooksLendHO(nd) == Judged(nd) /\ HandsOver(nd) /\ ~DropsLend(nd) => DBooksLend(Pre(nd), Post(nd))
C08BooksLendHD(nd) == Judged(nd) /\ DropsLend(nd) => DBooksLend(Pre(nd), Post(nd))
C08BooksBorrow(nd) == Judged(nd) /\ nd.a # "LiquidateV1" /\ ~BridgedClose1(nd) => DBooksBorrow(CfgOf(nd), Pre(nd), Post(nd))
C08BooksBorrowBr(nd) == Judged(nd) /\ BridgedClose1(nd) => DBooksBorrow(CfgOf(nd), Pre(nd), Post(nd))
(* first-generation liquidation MESSAGE. NAMED DEVIATION: unlike the sweep it does not take the principal out of the borrowed total. *)
C08BooksBorrowV1(nd) == Judged(nd) /\ nd.a = "LiquidateV1" => DBooksBorrow(CfgOf(nd), Pre(nd), Post(nd))
C08Ltv(nd)         == Judged(nd) => LtvOnRelease(CfgOf(nd), Pre(nd), Post(nd))
C08LtvMis(nd)      == Judged(nd) => LtvOnReleaseMismatched(CfgOf(nd), Pre(nd), Post(nd))
C08LtvOpenBr(nd)   == Judged(nd) => LtvOnOpenBridged(CfgOf(nd), Pre(nd), Post(nd))
C08LtvDrawBr(nd)   == Judged(nd) => LtvOnDrawBridged(CfgOf(nd), Pre(nd), Post(nd))
C08PoolHeld(nd)    == Judged(nd) => PoolHeldLoan(CfgOf(nd), Pre(nd), Post(nd))
C08NoRelease(nd)   ==
  Judged(nd) /\ nd.res.ok =>
    CASE nd.a \in {"Withdraw", "CloseLend"} ->
           HasId(Pre(nd).lends, nd.args.lend) =>
              NoRelease(Pre(nd), Post(nd), nd.args.lend, nd.args.u, GetId(Pre(nd).lends, nd.args.lend).asset, 0, 0)
      [] nd.a = "RepayWithdraw" ->
           HasId(Pre(nd).borrows, nd.args.b) =>
              LET b == GetId(Pre(nd).borrows, nd.args.b) IN
              HasId(Pre(nd).lends, b.lend) =>
                 NoRelease(Pre(nd), Post(nd), b.lend, nd.args.u, GetId(Pre(nd).lends, b.lend).asset, b.cin, b.id)
      [] OTHER -> TRUE

(* ---------------------------------------------------------------- C09 (borrow side) on recorded states *)
PreS(nd) == Log[nd.parent].st
PostS(nd) == nd.st
C09OnlyUnsafe(nd)  == Judged(nd) => OnlyUnsafe(CfgOf(nd), PreS(nd), PostS(nd))
C09Enabled(nd)     == Judged(nd) => OnlyEnabled(CfgOf(nd), PreS(nd), PostS(nd))
C09SeizeExact(nd)  == Judged(nd) => SeizeExact(CfgOf(nd), PreS(nd), PostS(nd))
C09Custody(nd)     == Judged(nd) /\ ~CfgOf(nd).v1 /\ nd.a \in {"Liquidate", "Tick"} => CustodyMoves(CfgOf(nd), PreS(nd), PostS(nd))
(* bounded response: consecutive blocks during which position bid stayed open, unsafe and enabled (ghost along the path) *)
IsBlock(nd) == nd.a = "Tick" /\ ~Panicked(nd)
Bad(liquid, cfg, S, bid) == IF liquid THEN StillBadLiquid(cfg, S, bid) ELSE StillBad(cfg, S, bid)
RECURSIVE BadBlocks(_, _, _)
BadBlocks(i, bid, liquid) ==
  LET nd == Nd(i) IN
  IF IsRoot(nd) \/ ~Bad(liquid, CfgOf(nd), PostS(nd), bid) \/ ~Bad(liquid, CfgOf(nd), PreS(nd), bid) THEN 0
  ELSE (IF IsBlock(nd) THEN 1 ELSE 0) + BadBlocks(nd.parent, bid, liquid)
RECURSIVE MaxLen(_, _)
MaxLen(i, bid) ==
  LET nd == Nd(i) IN
  IF IsRoot(nd) \/ ~StillBad(CfgOf(nd), PreS(nd), bid) THEN SweepLen(PostS(nd))
  ELSE LET r == MaxLen(nd.parent, bid) IN IF SweepLen(PostS(nd)) > r THEN SweepLen(PostS(nd)) ELSE r
LiveBound(i, liquid) == LET nd == Nd(i) IN
  ~IsRoot(nd) /\ IsBlock(nd) => \A b \in Range(Post(nd).borrows) : BadBlocks(i, b.id, liquid) <= 2 * CeilDiv(MaxLen(i, b.id), CfgOf(nd).batch)
C09Live(i) == LiveBound(i, TRUE)
C09LiveAny(i) == LiveBound(i, FALSE)
(* first generation: the same bounded response counted in RUNS of the first-generation sweep (its begin blocker is called once per Tick of a   *)
(* first-generation behaviour): an unsafe, enabled borrow is seized within two full rounds of the cursor over the borrow list                  *)
BadV1(liquid, cfg, S, bid) == IF liquid THEN StillBadV1Liquid(cfg, S, bid) ELSE StillBadV1(cfg, S, bid)
RECURSIVE BadRunsV1(_, _, _)
BadRunsV1(i, bid, liquid) ==
  LET nd == Nd(i) IN
  IF IsRoot(nd) \/ ~BadV1(liquid, CfgOf(nd), PostS(nd), bid) \/ ~BadV1(liquid, CfgOf(nd), PreS(nd), bid) THEN 0
  ELSE (IF IsBlock(nd) THEN 1 ELSE 0) + BadRunsV1(nd.parent, bid, liquid)
RECURSIVE MaxLenV1(_, _)
MaxLenV1(i, bid) ==
  LET nd == Nd(i) IN
  IF IsRoot(nd) \/ ~StillBadV1(CfgOf(nd), PreS(nd), bid) THEN SweepLen(PostS(nd))
  ELSE LET r == MaxLenV1(nd.parent, bid) IN IF SweepLen(PostS(nd)) > r THEN SweepLen(PostS(nd)) ELSE r
LiveBoundV1(i, liquid) == LET nd == Nd(i) IN
  ~IsRoot(nd) /\ CfgOf(nd).v1 /\ IsBlock(nd) => \A b \in Range(Post(nd).borrows) : BadRunsV1(i, b.id, liquid) <= 2 * CeilDiv(MaxLenV1(i, b.id), CfgOf(nd).batch1)
C09LiveV1(i) == LiveBoundV1(i, TRUE)
C09LiveV1Any(i) == LiveBoundV1(i, FALSE)

(* ---------------------------------------------------------------- C10 (lend-initiated Dutch auctions) *)
BidOk(nd) == ~IsRoot(nd) /\ nd.a = "Bid" /\ nd.res.ok /\ HasAuc(PreS(nd), nd.args.auc) /\ AucOf(PreS(nd), nd.args.auc).lend /\ AucOf(PreS(nd), nd.args.auc).dutch
BidAuc(nd) == AucOf(PreS(nd), nd.args.auc)
Closing(nd) == BidOk(nd) /\ ~HasAuc(PostS(nd), nd.args.auc)
C10PaidWithin(nd)  == BidOk(nd) => Paid(PreS(nd), PostS(nd), BidAuc(nd)) >= 0 /\ Paid(PreS(nd), PostS(nd), BidAuc(nd)) <= BidAuc(nd).debtLeft
C10RecvWithin(nd)  == BidOk(nd) => Received(PreS(nd), PostS(nd), BidAuc(nd)) >= 0 /\ Received(PreS(nd), PostS(nd), BidAuc(nd)) <= BidAuc(nd).collLeft
C10Posted(nd)      == BidOk(nd) => PostedPrice(CfgOf(nd), PreS(nd), PostS(nd), BidAuc(nd))
C10Remaining(nd)   == BidOk(nd) /\ ~Closing(nd) =>
   LET a == BidAuc(nd) a2 == AucOf(PostS(nd), nd.args.auc) IN
   a2.debtLeft = a.debtLeft - Paid(PreS(nd), PostS(nd), a) /\ a2.collLeft = a.collLeft - Received(PreS(nd), PostS(nd), a) /\ a2.debtLeft > 0
C10Custody(nd)     == IF IsRoot(nd) THEN CustodyRoot(PostS(nd)) ELSE Judged(nd) => CustodyDelta(PreS(nd), PostS(nd))
LendDutch(S) == {a \in Range(S.x.aucs) : a.lend /\ a.dutch}
C10PriceFalls(nd)  == ~IsRoot(nd) /\ IsBlock(nd) => \A a \in LendDutch(PostS(nd)) :
   HasAuc(PreS(nd), a.id) /\ AucOf(PreS(nd), a.id).start = a.start => LLe(a.price, AucOf(PreS(nd), a.id).price)
C10PriceInBand(nd) == \A a \in LendDutch(PostS(nd)) : InBand(CfgOf(nd), a)
C10StartPrice(nd)  == ~IsRoot(nd) /\ Judged(nd) => \A a \in LendDutch(PostS(nd)) :
   (~HasAuc(PreS(nd), a.id) \/ AucOf(PreS(nd), a.id).start # a.start) => StartPriceOk(CfgOf(nd), PostS(nd), a)
CloseB(nd) == GetId(Pre(nd).borrows, BidAuc(nd).b)
CloseL(nd) == LvOf(PreS(nd), BidAuc(nd).lv)
CloseReady(nd) == Closing(nd) /\ HasLv(PreS(nd), BidAuc(nd).lv) /\ HasId(Pre(nd).borrows, BidAuc(nd).b) /\ HasPair(CfgOf(nd), CloseB(nd).pair)
EmodeB(nd) == PairC(CfgOf(nd), CloseB(nd).pair).emode
C10Proceeds(nd)    == CloseReady(nd) /\ ~EmodeB(nd) => CloseProceeds(CfgOf(nd), PreS(nd), PostS(nd), BidAuc(nd), CloseL(nd), CloseB(nd))
C10ProceedsE(nd)   == CloseReady(nd) /\ EmodeB(nd) => CloseProceeds(CfgOf(nd), PreS(nd), PostS(nd), BidAuc(nd), CloseL(nd), CloseB(nd))
C10Bridged(nd)     == CloseReady(nd) => CloseBridged(CfgOf(nd), PreS(nd), PostS(nd), BidAuc(nd), CloseL(nd), CloseB(nd))
C10Owner(nd)       == CloseReady(nd) => CloseOwner(CfgOf(nd), PreS(nd), PostS(nd), BidAuc(nd), CloseL(nd), CloseB(nd))
C10Records(nd)     == CloseReady(nd) => CloseRecords(CfgOf(nd), PreS(nd), PostS(nd), BidAuc(nd), CloseL(nd), CloseB(nd))

(* ---------------------------------------------------------------- first generation (x/liquidation, x/auction) *)
IsV1(nd) == CfgOf(nd).v1
(* ghost: some earlier step of this behaviour overwrote a live first-generation locked vault; what follows is judged only by C09_BorrowV1VaultIdsFresh *)
RECURSIVE Corrupt(_)
Corrupt(i) == LET nd == Nd(i) IN IF IsRoot(nd) THEN FALSE ELSE OverwritesVault(PreS(nd), PostS(nd)) \/ Corrupt(nd.parent)
Sane(i) == LET nd == Nd(i) IN IsRoot(nd) \/ ~IsV1(nd) \/ ~Corrupt(i)
C09V1Fresh(nd) == Judged(nd) /\ IsV1(nd) => ~OverwritesVault(PreS(nd), PostS(nd))
EmodeMsg(nd) == nd.a = "LiquidateV1" /\ \E b \in SeizedV1(PreS(nd), PostS(nd)) : PairC(CfgOf(nd), b.pair).emode
C09V1OnlyUnsafeEM(nd) == Judged(nd) /\ EmodeMsg(nd) => V1OnlyUnsafe(CfgOf(nd), PreS(nd), PostS(nd))
C09V1OnlyUnsafe(nd) == Judged(nd) /\ ~EmodeMsg(nd) => V1OnlyUnsafe(CfgOf(nd), PreS(nd), PostS(nd))
C09V1Enabled(nd)    == Judged(nd) => V1OnlyEnabled(CfgOf(nd), PreS(nd), PostS(nd))
C09V1SeizeExact(nd) == Judged(nd) /\ ~Underwater(PreS(nd), PostS(nd)) => V1SeizeExact(CfgOf(nd), PreS(nd), PostS(nd))
C09V1Custody(nd)    == Judged(nd) /\ IsV1(nd) /\ nd.a \in {"LiquidateV1", "Tick"} /\ ~Underwater(PreS(nd), PostS(nd)) => V1SeizeCustody(CfgOf(nd), PreS(nd), PostS(nd))
C09V1Underwater(nd) == Judged(nd) /\ IsV1(nd) /\ nd.a \in {"LiquidateV1", "Tick"} /\ Underwater(PreS(nd), PostS(nd)) =>
                          V1SeizeExact(CfgOf(nd), PreS(nd), PostS(nd)) /\ V1SeizeCustody(CfgOf(nd), PreS(nd), PostS(nd))
BidOk1(nd) == ~IsRoot(nd) /\ nd.a = "BidV1" /\ nd.res.ok /\ HasAuc1(PreS(nd), nd.args.auc)
BidAuc1(nd) == Auc1Of(PreS(nd), nd.args.auc)
Closing1(nd) == BidOk1(nd) /\ ~HasAuc1(PostS(nd), nd.args.auc)
Tab1(nd) == BidAuc1(nd).target - BidAuc1(nd).got
Paid1(nd) == Paid(PreS(nd), PostS(nd), BidAuc1(nd))
Recv1(nd) == Received(PreS(nd), PostS(nd), BidAuc1(nd))
C10V1PaidWithin(nd) == BidOk1(nd) => Paid1(nd) >= 0 /\ Paid1(nd) <= Tab1(nd)
C10V1RecvWithin(nd) == BidOk1(nd) => Recv1(nd) >= 0 /\ Recv1(nd) <= BidAuc1(nd).outLeft + FloorMul(BidAuc1(nd).outLeft, BonusRate(CfgOf(nd), BidAuc1(nd).collA))
                                     /\ Recv1(nd) <= nd.args.amt + FloorMul(nd.args.amt, BonusRate(CfgOf(nd), BidAuc1(nd).collA))
C10V1Posted(nd)     == BidOk1(nd) => V1PostedPrice(CfgOf(nd), PreS(nd), PostS(nd), BidAuc1(nd))
C10V1Remaining(nd)  == BidOk1(nd) /\ ~Closing1(nd) =>
   LET a == BidAuc1(nd) a2 == Auc1Of(PostS(nd), nd.args.auc) sl == Slice1(a, a2) IN
   /\ a2.got = a.got + Paid1(nd) /\ a2.got < a2.target /\ sl >= 0 /\ sl <= nd.args.amt
   /\ Recv1(nd) = sl + FloorMul(sl, BonusRate(CfgOf(nd), a.collA))
V1B(nd) == GetId(Pre(nd).borrows, BidAuc1(nd).b)
V1Ready(nd) == BidOk1(nd) /\ HasId(Pre(nd).borrows, BidAuc1(nd).b) /\ HasPair(CfgOf(nd), V1B(nd).pair)
(* the debt coins a bidder pays go straight back to the debt pool; at close the reserve's share of the accrued interest moves on to the reserve, *)
(* and a target that the collateral could not cover is made up from the reserve                                                                  *)
C10V1Proceeds(nd)   == V1Ready(nd) /\ (V1B(nd).bram = 0 \/ V1B(nd).bra # BidAuc1(nd).debtA) =>
   LET a == BidAuc1(nd) pr == PairC(CfgOf(nd), V1B(nd).pair)
       toPool == PB(Post(nd), pr.opool, a.debtA).amt - PB(Pre(nd), pr.opool, a.debtA).amt
       toRes == Res(Post(nd), a.debtA) - Res(Pre(nd), a.debtA) IN
   IF ~Closing1(nd) THEN toPool = Paid1(nd) /\ toRes = 0
   ELSE toPool + toRes = Paid1(nd) /\ toRes = RT(PreS(nd), a.b) - (Tab1(nd) - Paid1(nd))
(* when the target is reached what is left of the collateral goes to the position's owner; the bidder gets the rest (+ bonus) *)
C10V1Distributes(nd) == Closing1(nd) /\ Paid1(nd) = Tab1(nd) /\ HasUB(Pre(nd), BidAuc1(nd).owner, BidAuc1(nd).collA) =>
   LET a == BidAuc1(nd) got == UB(Post(nd), a.owner, a.collA).amt - UB(Pre(nd), a.owner, a.collA).amt IN
   got >= 0 /\ got + Recv1(nd) >= a.outLeft /\ got + Recv1(nd) <= a.outLeft + FloorMul(a.outLeft, BonusRate(CfgOf(nd), a.collA)) + 1
(* after the last auction on a collateral asset ends nothing of it stays in the auction module *)
C10V1Settles(nd)    == Closing1(nd) /\ (\A a \in Range(PreS(nd).x.v1aucs) : a.collA = BidAuc1(nd).collA => a.id = nd.args.auc)
                                   /\ (\A a \in Range(PostS(nd).x.v1aucs) : a.collA # BidAuc1(nd).collA) => Auc1Bal(PostS(nd), BidAuc1(nd).collA) = 0
C10V1Covers(nd)     == IsV1(nd) => V1Covers(PostS(nd))
C10V1PriceFalls(nd) == ~IsRoot(nd) /\ IsBlock(nd) => \A a \in Range(PostS(nd).x.v1aucs) :
   HasAuc1(PreS(nd), a.id) /\ Auc1Of(PreS(nd), a.id).start = a.start => LLe(a.price, Auc1Of(PreS(nd), a.id).price)
C10V1InBand(nd)     == \A a \in Range(PostS(nd).x.v1aucs) : V1InBand(a)
C10V1StartPrice(nd) == ~IsRoot(nd) /\ Judged(nd) => \A a \in Range(PostS(nd).x.v1aucs) :
   (~HasAuc1(PreS(nd), a.id) \/ Auc1Of(PreS(nd), a.id).start # a.start) => V1StartPriceOk(CfgOf(nd), PostS(nd), a)
(* the position after its auction ended: gone, re-created with what the locked vault still carried, or auctioned again *)
C10V1RecordsAll(nd) == Closing1(nd) /\ HasLv1(PreS(nd), BidAuc1(nd).lv) /\ V1Ready(nd) =>
   LET a == BidAuc1(nd) l == Lv1Of(PreS(nd), a.lv) left == Max0(l.aout - a.target) IN
   IF HasLv1(PostS(nd), l.id)
   THEN \/ \E a2 \in NewAucs1(PreS(nd), PostS(nd)) : a2.lv = l.id
        \/ (Lv1Of(PostS(nd), l.id).done /\ ~Lv1Of(PostS(nd), l.id).prog /\ Lv1Of(PostS(nd), l.id).aout = left)   \* the code gave up on another auction (error swallowed); amounts are booked
   ELSE \/ ~HasId(Post(nd).borrows, a.b)
        \/ LET b2 == GetId(Post(nd).borrows, a.b) IN ~b2.liq /\ ~b2.uv /\ b2.out = left /\ b2.cin = l.ain /\ b2.iT = 0
(* NAMED DEVIATION (bridged positions): CreteNewBorrow returns silently when the transit-asset adjustment cannot be paid, after the borrowed total was raised and before the position is stored *)
C10V1RecordsBr(nd)  == BridgedClose1(nd) => C10V1RecordsAll(nd)
C10V1Records(nd)    == ~BridgedClose1(nd) => C10V1RecordsAll(nd)

(* ---------------------------------------------------------------- conformance *)
Walk(nd) == nd.args.mode = "w"
Predicted == {"Lend", "Deposit", "Withdraw", "CloseLend", "Borrow", "BorrowAlt", "DepositBorrow", "Draw", "Repay", "CloseBorrow",
              "RepayWithdraw", "FundReserve", "FundMod", "CalcInterest", "Price", "Accrue", "Liquidate"}
(* lend / borrow position the handler touches (and accrues) *)
TouchedLend(nd) ==
  LET s == Pre(nd) a == nd.args IN
  CASE nd.a \in {"Deposit", "Withdraw", "CloseLend"} -> IF HasId(s.lends, a.lend) THEN {a.lend} ELSE {}
    [] nd.a \in {"Lend", "BorrowAlt"} -> {l.id : l \in ExistingLend(s, a.u, a.asset, a.pool)}
    [] nd.a = "RepayWithdraw" -> IF HasId(s.borrows, a.b) /\ HasId(s.lends, GetId(s.borrows, a.b).lend) THEN {GetId(s.borrows, a.b).lend} ELSE {}
    [] OTHER -> {}
TouchedBorrow(nd) ==
  LET s == Pre(nd) a == nd.args IN
  CASE nd.a \in {"Draw", "DepositBorrow", "Repay", "CloseBorrow", "RepayWithdraw"} -> IF HasId(s.borrows, a.b) THEN {a.b} ELSE {}
    [] nd.a \in {"Borrow", "BorrowAlt"} -> {b.id : b \in UserBorrowOnPair(s, a.u, a.pair)}
    [] OTHER -> {}

(* steps on positions created through the collateral-asset mismatch are monitored, not predicted *)
Predictable(nd) == /\ ~IsRoot(nd) /\ nd.args.mode \in {"w", "s"} /\ nd.a \in Predicted
                   /\ \A bid \in TouchedBorrow(nd) : WellFormed(Pre(nd), GetId(Pre(nd).borrows, bid))
                   /\ nd.a = "Borrow" /\ HasId(Pre(nd).lends, nd.args.lend) => GetId(Pre(nd).lends, nd.args.lend).asset = nd.args.ca


(* environment observed in a successful recorded step: reward credited, interest carried, reserve / cToken split *)
ObsEnv(nd) ==
  LET s == Pre(nd) s2 == Post(nd) a == nd.args cfg == CfgOf(nd)
      rew == IF TouchedLend(nd) = {} THEN <<>>
             ELSE LET lid == CHOOSE x \in TouchedLend(nd) : TRUE  as == GetId(s.lends, lid).asset IN lid :> (Rout(s2, as) - Rout(s, as))
      tb == TouchedBorrow(nd)
  IN IF tb = {} THEN [NoEnv EXCEPT !.rew = rew, !.frac = 1]
     ELSE LET bid == CHOOSE x \in tb : TRUE
              b == GetId(s.borrows, bid)
              pr == PairC(cfg, b.pair)
              paid == UB(s, a.u, b.oa).amt - UB(s2, a.u, b.oa).amt
              acc == IF HasId(s2.borrows, bid)
                     THEN LET b2 == GetId(s2.borrows, bid) IN
                          IF nd.a = "Repay" THEN (IF b2.out = b.out THEN b2.iT + a.amt ELSE a.amt - (b.out - b2.out)) ELSE b2.iT
                     ELSE paid - b.out
              settles == nd.a \in {"Repay", "CloseBorrow", "RepayWithdraw"}
          IN [rew |-> rew, int |-> bid :> acc,
              toRes |-> IF settles THEN Res(s2, b.oa) - Res(s, b.oa) ELSE 0,
              mint |-> IF settles THEN Stat(s2, pr.opool, pr.aout).tia - Stat(s, pr.opool, pr.aout).tia ELSE 0,
              frac |-> 1,
              rT |-> IF nd.a = "Repay" /\ HasId(s2.borrows, bid) /\ GetId(s2.borrows, bid).out = b.out THEN a.amt ELSE 0]
(* interest-calculation message: per-position amounts as observed (reward = growth of the position's reward counter) *)
ObsEnvCalc(nd) ==
  LET s == Pre(nd) s2 == Post(nd) IN
  [NoEnv EXCEPT !.rew = [lid \in {l.id : l \in {x \in Range(s.lends) : HasId(s2.lends, x.id)}} |-> GetId(s2.lends, lid).rew - GetId(s.lends, lid).rew],
                !.int = [bid \in {b.id : b \in {x \in Range(s.borrows) : HasId(s2.borrows, x.id)}} |-> GetId(s2.borrows, bid).iT]]
(* environment of the walk: no time passes between the steps *)
WalkEnv(nd) ==
  LET s == Pre(nd) a == nd.args IN
  CASE nd.a = "Repay" -> IF HasId(s.borrows, a.b) /\ a.amt = GetId(s.borrows, a.b).out + GetId(s.borrows, a.b).iT THEN CloseEnv0(s, a.b) ELSE RepayEnv0(s, a.b, a.amt)
    [] nd.a \in {"CloseBorrow", "RepayWithdraw"} -> CloseEnv0(s, a.b)
    [] OTHER -> NoEnv

Act(nd, env) ==
  LET s == Pre(nd) a == nd.args cfg == CfgOf(nd) IN
  CASE nd.a = "Lend" -> Lend(cfg, s, a.u, a.asset, a.pool, a.da, a.amt, env)
    [] nd.a = "Deposit" -> Deposit(cfg, s, a.u, a.lend, a.da, a.amt, env)
    [] nd.a = "Withdraw" -> Withdraw(cfg, s, a.u, a.lend, a.da, a.amt, env)
    [] nd.a = "CloseLend" -> CloseLend(cfg, s, a.u, a.lend, env)
    [] nd.a = "Borrow" -> Borrow(cfg, s, a.u, a.lend, a.pair, a.ca, a.cin, a.la, a.loan, a.stable, env)
    [] nd.a = "BorrowAlt" -> BorrowAlt(cfg, s, a.u, a.asset, a.pool, a.da, a.cin, a.pair, a.la, a.loan, a.stable, env)
    [] nd.a = "DepositBorrow" -> DepositBorrow(cfg, s, a.u, a.b, a.ca, a.amt, env)
    [] nd.a = "Draw" -> Draw(cfg, s, a.u, a.b, a.da, a.amt, env)
    [] nd.a = "Repay" -> Repay(cfg, s, a.u, a.b, a.da, a.amt, env)
    [] nd.a = "CloseBorrow" -> CloseBorrow(cfg, s, a.u, a.b, env)
    [] nd.a = "RepayWithdraw" -> RepayWithdraw(cfg, s, a.u, a.b, env)
    [] nd.a = "FundReserve" -> FundReserve(cfg, s, a.u, a.asset, a.da, a.amt)
    [] nd.a = "FundMod" -> FundMod(cfg, s, a.u, a.pool, a.asset, a.da, a.amt)
    [] nd.a = "CalcInterest" -> CalcInterest(cfg, s, a.u, env)
    [] nd.a = "Price" -> Done(SetPrice(s, a.asset, a.p * cfg.pu))
    [] nd.a = "Accrue" -> AccrueEnv(s, a.b, a.d)
    [] nd.a = "Liquidate" ->   \* V2 internal-keeper request: either the position is handed over (interest as observed) or nothing happens
         IF HasId(s.borrows, a.b) /\ ~GetId(s.borrows, a.b).ho /\ HasId(Post(nd).borrows, a.b) /\ GetId(Post(nd).borrows, a.b).ho /\ HasId(s.lends, GetId(s.borrows, a.b).lend)
         THEN Done(HandOver(cfg, s, a.b, GetId(Post(nd).borrows, a.b).iT)) ELSE Done(s)

Conf(nd) ==
  Predictable(nd) =>
    IF Walk(nd) THEN LET r == Act(nd, WalkEnv(nd)) IN r.ok = nd.res.ok /\ r.st = Post(nd)
    ELSE IF nd.res.ok THEN LET r == Act(nd, IF nd.a = "CalcInterest" THEN ObsEnvCalc(nd) ELSE ObsEnv(nd)) IN r.ok /\ r.st = Post(nd)
    ELSE Post(nd) = Pre(nd)
(* the walk's model edge carried the model's own verdict: it is the verdict the specification computes here *)
ConfModel(nd) == ~IsRoot(nd) /\ Walk(nd) /\ "mok" \in DOMAIN nd.res => Act(nd, WalkEnv(nd)).ok = nd.res.mok

ConfNames == {"Conf_" \o x : x \in Predicted}
Formulas == <<"C08_BooksRoot", "C08_BooksLend", "C08_BooksLendHandOver", "C08_BooksLendHandOverDrop", "C08_BooksLendV1DebtCleared", "C08_BooksLendV1ReauctionGaveUp", "C08_BooksBorrow", "C08_BooksBorrowV1Msg", "C08_BooksBorrowV1BridgedClose", "C08_Ltv", "C08_LtvMismatched", "C08_LtvOpenBridged", "C08_LtvDrawBridged", "C08_PoolHeld",
              "C08_NoRelease",
              "C09_BorrowOnlyUnsafe", "C09_BorrowEnabled", "C09_BorrowSeizeExact", "C09_BorrowCustodyMoves", "C09_BorrowLive", "C09_BorrowLiveIlliquid", "C09_BorrowLive_V1", "C09_BorrowLiveIlliquid_V1",
              "C10_LendPaidWithinTarget", "C10_LendReceivedWithinSeized", "C10_LendPostedPrice", "C10_LendRemaining", "C10_LendCustody",
              "C10_LendPriceFalls", "C10_LendPriceInBand", "C10_LendStartPrice", "C10_LendProceeds", "C10_LendProceedsEmode",
              "C10_LendBridgedReturned", "C10_LendOwnerGetsRest", "C10_LendRecords",
              "C09_BorrowV1VaultIdsFresh", "C09_BorrowV1OnlyUnsafe", "C09_BorrowV1OnlyUnsafeEmodeMsg", "C09_BorrowV1Enabled", "C09_BorrowV1SeizeExact", "C09_BorrowV1CustodyMoves", "C09_BorrowV1SeizeUnderwater",
              "C10_LendV1PaidWithinTarget", "C10_LendV1ReceivedWithinLeft", "C10_LendV1PostedPrice", "C10_LendV1Remaining", "C10_LendV1Proceeds",
              "C10_LendV1CloseDistributes", "C10_LendV1CloseSettles", "C10_LendV1CustodyCovers", "C10_LendV1PriceFalls", "C10_LendV1PriceInBand",
              "C10_LendV1StartPrice", "C10_LendV1Records", "C10_LendV1RecordsBridged", "Conf_Model", "Conf_Lend", "Conf_Deposit", "Conf_Withdraw", "Conf_CloseLend", "Conf_Borrow", "Conf_BorrowAlt",
              "Conf_DepositBorrow", "Conf_Draw", "Conf_Repay", "Conf_CloseBorrow", "Conf_RepayWithdraw", "Conf_FundReserve", "Conf_Price",
              "Conf_Accrue", "Conf_Liquidate", "Conf_FundMod", "Conf_CalcInterest">>
Holds(f, i) ==
  LET nd == Nd(i) IN
  CASE f = "C08_BooksRoot" -> C08BooksRoot(nd)
    [] f = "C08_BooksLend" -> C08BooksLend(nd)
    [] f = "C08_BooksLendHandOver" -> C08BooksLendHO(nd)
    [] f = "C08_BooksLendHandOverDrop" -> C08BooksLendHD(nd)
    [] f = "C08_BooksLendV1DebtCleared" -> C08BooksLendDC(nd)
    [] f = "C08_BooksLendV1ReauctionGaveUp" -> C08BooksLendRG(nd)
    [] f = "C08_BooksBorrow" -> C08BooksBorrow(nd)
    [] f = "C08_BooksBorrowV1Msg" -> C08BooksBorrowV1(nd)
    [] f = "C08_BooksBorrowV1BridgedClose" -> C08BooksBorrowBr(nd)
    [] f = "C08_LtvMismatched" -> C08LtvMis(nd)
    [] f = "C08_Ltv" -> C08Ltv(nd)
    [] f = "C08_LtvOpenBridged" -> C08LtvOpenBr(nd)
    [] f = "C08_LtvDrawBridged" -> C08LtvDrawBr(nd)
    [] f = "C08_PoolHeld" -> C08PoolHeld(nd)
    [] f = "C08_NoRelease" -> C08NoRelease(nd)
    [] f = "C09_BorrowOnlyUnsafe" -> C09OnlyUnsafe(nd)
    [] f = "C09_BorrowEnabled" -> C09Enabled(nd)
    [] f = "C09_BorrowSeizeExact" -> C09SeizeExact(nd)
    [] f = "C09_BorrowCustodyMoves" -> C09Custody(nd)
    [] f = "C09_BorrowLive" -> C09Live(i)
    [] f = "C09_BorrowLiveIlliquid" -> C09LiveAny(i)
    [] f = "C09_BorrowLive_V1" -> C09LiveV1(i)
    [] f = "C09_BorrowLiveIlliquid_V1" -> C09LiveV1Any(i)
    [] f = "C10_LendPaidWithinTarget" -> C10PaidWithin(nd)
    [] f = "C10_LendReceivedWithinSeized" -> C10RecvWithin(nd)
    [] f = "C10_LendPostedPrice" -> C10Posted(nd)
    [] f = "C10_LendRemaining" -> C10Remaining(nd)
    [] f = "C10_LendCustody" -> C10Custody(nd)
    [] f = "C10_LendPriceFalls" -> C10PriceFalls(nd)
    [] f = "C10_LendPriceInBand" -> C10PriceInBand(nd)
    [] f = "C10_LendStartPrice" -> C10StartPrice(nd)
    [] f = "C10_LendProceeds" -> C10Proceeds(nd)
    [] f = "C10_LendProceedsEmode" -> C10ProceedsE(nd)
    [] f = "C10_LendBridgedReturned" -> C10Bridged(nd)
    [] f = "C10_LendOwnerGetsRest" -> C10Owner(nd)
    [] f = "C10_LendRecords" -> C10Records(nd)
    [] f = "C09_BorrowV1VaultIdsFresh" -> C09V1Fresh(nd)
    [] f = "C09_BorrowV1OnlyUnsafeEmodeMsg" -> C09V1OnlyUnsafeEM(nd)
    [] f = "C10_LendV1RecordsBridged" -> C10V1RecordsBr(nd)
    [] f = "C09_BorrowV1OnlyUnsafe" -> C09V1OnlyUnsafe(nd)
    [] f = "C09_BorrowV1Enabled" -> C09V1Enabled(nd)
    [] f = "C09_BorrowV1SeizeExact" -> C09V1SeizeExact(nd)
    [] f = "C09_BorrowV1CustodyMoves" -> C09V1Custody(nd)
    [] f = "C09_BorrowV1SeizeUnderwater" -> C09V1Underwater(nd)
    [] f = "C10_LendV1PaidWithinTarget" -> C10V1PaidWithin(nd)
    [] f = "C10_LendV1ReceivedWithinLeft" -> C10V1RecvWithin(nd)
    [] f = "C10_LendV1PostedPrice" -> C10V1Posted(nd)
    [] f = "C10_LendV1Remaining" -> C10V1Remaining(nd)
    [] f = "C10_LendV1Proceeds" -> C10V1Proceeds(nd)
    [] f = "C10_LendV1CloseDistributes" -> C10V1Distributes(nd)
    [] f = "C10_LendV1CloseSettles" -> C10V1Settles(nd)
    [] f = "C10_LendV1CustodyCovers" -> C10V1Covers(nd)
    [] f = "C10_LendV1PriceFalls" -> C10V1PriceFalls(nd)
    [] f = "C10_LendV1PriceInBand" -> C10V1InBand(nd)
    [] f = "C10_LendV1StartPrice" -> C10V1StartPrice(nd)
    [] f = "C10_LendV1Records" -> C10V1Records(nd)
    [] f = "Conf_Model" -> ConfModel(nd)
    [] OTHER -> (f = "Conf_" \o nd.a) => Conf(nd)

(* after a first-generation vault has been overwritten only that fact is judged: everything later in the behaviour is its consequence *)
Judge == LET sane == Sane(cur) IN
         \A k \in 1..Len(Formulas) : (Formulas[k] # "C09_BorrowV1VaultIdsFresh" /\ ~sane) \/ Holds(Formulas[k], cur) \/ PrintT(<<"FAIL", Formulas[k], cur>>)

(* ---------------------------------------------------------------- antecedent counters (vacuity control) *)
Count(Q(_)) == Cardinality({i \in 1..NLog : Q(Nd(i))})
Rel(nd) == IF Judged(nd) THEN Released(Pre(nd), Post(nd)) ELSE {}
AtBoundary(nd) ==   \* a released loan for which one more coin of debt would break the inequality
  \E i \in Rel(nd) : LET b == Post(nd).borrows[i] cfg == CfgOf(nd) IN
     ~LtvHolds(cfg, Post(nd), [b EXCEPT !.out = @ + 1], PairLtv(cfg, PairC(cfg, b.pair)), IF ~HasId(Pre(nd).borrows, b.id) THEN BridgeLtv(cfg, b) ELSE One)
HandedOver(nd) == Judged(nd) /\ HandsOver(nd)
RewardPaid(nd) == Judged(nd) /\ \E x \in Range(Post(nd).rout) : x.amt > Rout(Pre(nd), x.asset)
Stats == PrintT(<<"STATS", [nodes |-> NLog,
           roots |-> Count(IsRoot),
           walked |-> Count(LAMBDA nd : ~IsRoot(nd) /\ Walk(nd)),
           released |-> Count(LAMBDA nd : Rel(nd) # {}),
           releasedBridged |-> Count(LAMBDA nd : \E i \in Rel(nd) : Post(nd).borrows[i].bram > 0),
           releasedWithInterest |-> Count(LAMBDA nd : \E i \in Rel(nd) : Post(nd).borrows[i].iT > 0),
           atBoundary |-> Count(AtBoundary),
           drawn |-> Count(LAMBDA nd : nd.a = "Draw" /\ nd.res.ok),
           rejectedLoans |-> Count(LAMBDA nd : nd.a \in {"Borrow", "Draw", "BorrowAlt"} /\ ~nd.res.ok),
           withdrawn |-> Count(LAMBDA nd : nd.a \in {"Withdraw", "CloseLend", "RepayWithdraw"} /\ nd.res.ok),
           withdrawnWithPledge |-> Count(LAMBDA nd : nd.a = "Withdraw" /\ nd.res.ok /\ HasId(Pre(nd).lends, nd.args.lend) /\ Pledged(Pre(nd), nd.args.lend) > 0),
           repaid |-> Count(LAMBDA nd : nd.a \in {"Repay", "CloseBorrow"} /\ nd.res.ok),
           handedOver |-> Count(HandedOver),
           handOverDropsLend |-> Count(LAMBDA nd : Judged(nd) /\ DropsLend(nd)),
           flaggedNotHandedOver |-> Count(LAMBDA nd : Judged(nd) /\ \E b \in Range(Post(nd).borrows) : b.liq /\ ~b.ho),
           mismatched |-> Count(LAMBDA nd : \E i \in Rel(nd) : ~WellFormed(Post(nd), Post(nd).borrows[i])),
           auctionClosed |-> Count(LAMBDA nd : nd.a = "Bid" /\ nd.res.ok),
           rewardPaid |-> Count(RewardPaid),
           stableBorrowed |-> Count(LAMBDA nd : \E i \in Rel(nd) : Post(nd).borrows[i].st),
           haltedBlocks |-> Count(LAMBDA nd : nd.a = "Tick" /\ Panicked(nd)),
           seizures |-> Count(LAMBDA nd : Judged(nd) /\ SeizedB(PreS(nd), PostS(nd)) # {}),
           sweepSeizures |-> Count(LAMBDA nd : Judged(nd) /\ nd.a = "Tick" /\ SeizedB(PreS(nd), PostS(nd)) # {}),
           bridgedSeizures |-> Count(LAMBDA nd : Judged(nd) /\ \E b \in SeizedB(PreS(nd), PostS(nd)) : b.bram > 0),
           bridged2Seizures |-> Count(LAMBDA nd : Judged(nd) /\ \E b \in SeizedB(PreS(nd), PostS(nd)) : b.bram > 0 /\ b.bra = 3),
           emodeSeizures |-> Count(LAMBDA nd : Judged(nd) /\ \E b \in SeizedB(PreS(nd), PostS(nd)) : PairC(CfgOf(nd), b.pair).emode),
           safeLiquidateRequests |-> Count(LAMBDA nd : Judged(nd) /\ nd.a = "Liquidate" /\ nd.res.ok /\ SeizedB(PreS(nd), PostS(nd)) = {}),
           nearSafeRequests |-> Count(LAMBDA nd : Judged(nd) /\ nd.a = "Liquidate" /\ nd.res.ok /\ HasId(Pre(nd).borrows, nd.args.b) /\
                                   LET b == GetId(Pre(nd).borrows, nd.args.b) IN
                                   ~b.liq /\ HasId(Post(nd).borrows, b.id) /\ ~GetId(Post(nd).borrows, b.id).ho /\ UnsafeWith(CfgOf(nd), Pre(nd), [b EXCEPT !.out = @ + (@ \div 10)], b.iT)),
           nearSafeBridged2 |-> Count(LAMBDA nd : Judged(nd) /\ nd.a \in {"Liquidate", "Tick"} /\ \E b \in Range(Pre(nd).borrows) :
                                   (nd.a = "Tick" \/ nd.args.b = b.id) /\ ~b.liq /\ b.bram > 0 /\ b.bra = 3 /\ HasId(Post(nd).borrows, b.id) /\ ~GetId(Post(nd).borrows, b.id).ho
                                   /\ UnsafeWith(CfgOf(nd), Pre(nd), [b EXCEPT !.out = @ + (@ \div 10)], b.iT)),
           nearSafeEmode |-> Count(LAMBDA nd : Judged(nd) /\ nd.a \in {"Liquidate", "Tick"} /\ ~CfgOf(nd).v1 /\ ~PreS(nd).x.ks /\ \E b \in Range(Pre(nd).borrows) :
                                   (nd.a = "Tick" \/ nd.args.b = b.id) /\ ~b.liq /\ HasPair(CfgOf(nd), b.pair) /\ PairC(CfgOf(nd), b.pair).emode /\ HasId(Post(nd).borrows, b.id) /\ ~GetId(Post(nd).borrows, b.id).ho
                                   /\ UnsafeWith(CfgOf(nd), Pre(nd), [b EXCEPT !.out = @ + (@ \div 9)], b.iT)),
           killedSteps |-> Count(LAMBDA nd : Judged(nd) /\ PreS(nd).x.ks /\ nd.a \in {"Liquidate", "Tick"}),
           blocks |-> Count(LAMBDA nd : ~IsRoot(nd) /\ IsBlock(nd)),
           longWaits |-> Cardinality({i \in 1..NLog : ~IsRoot(Nd(i)) /\ IsBlock(Nd(i)) /\ \E b \in Range(Post(Nd(i)).borrows) : BadBlocks(i, b.id, TRUE) >= 2}),
           okBids |-> Count(BidOk),
           partialBids |-> Count(LAMBDA nd : BidOk(nd) /\ ~Closing(nd)),
           closingBids |-> Count(Closing),
           oversizedBids |-> Count(LAMBDA nd : BidOk(nd) /\ nd.args.amt > BidAuc(nd).debtLeft),
           priceChecks |-> Count(LAMBDA nd : BidOk(nd) /\ Received(PreS(nd), PostS(nd), BidAuc(nd)) > 1),
           bridgedCloses |-> Count(LAMBDA nd : CloseReady(nd) /\ CloseB(nd).bram > 0),
           ownerRefunds |-> Count(LAMBDA nd : CloseReady(nd) /\ BidAuc(nd).collLeft > Received(PreS(nd), PostS(nd), BidAuc(nd))),
           auctionBlocks |-> Count(LAMBDA nd : ~IsRoot(nd) /\ IsBlock(nd) /\ LendDutch(PostS(nd)) # {}),
           restarts |-> Count(LAMBDA nd : ~IsRoot(nd) /\ IsBlock(nd) /\ \E a \in LendDutch(PostS(nd)) : HasAuc(PreS(nd), a.id) /\ AucOf(PreS(nd), a.id).start # a.start),
           v1Seizures |-> Count(LAMBDA nd : Judged(nd) /\ SeizedV1(PreS(nd), PostS(nd)) # {}),
           v1SweepSeizures |-> Count(LAMBDA nd : Judged(nd) /\ nd.a = "Tick" /\ SeizedV1(PreS(nd), PostS(nd)) # {}),
           v1SafeRequests |-> Count(LAMBDA nd : Judged(nd) /\ nd.a = "LiquidateV1" /\ nd.res.ok /\ SeizedV1(PreS(nd), PostS(nd)) = {}),
           v1KilledSteps |-> Count(LAMBDA nd : Judged(nd) /\ IsV1(nd) /\ PreS(nd).x.ks /\ nd.a \in {"LiquidateV1", "Tick"}),
           v1UnderwaterSeizures |-> Count(LAMBDA nd : Judged(nd) /\ Underwater(PreS(nd), PostS(nd))),
           v1EmodeSeizures |-> Count(LAMBDA nd : Judged(nd) /\ \E b \in SeizedV1(PreS(nd), PostS(nd)) : PairC(CfgOf(nd), b.pair).emode),
           v1Overwrites |-> Count(LAMBDA nd : Judged(nd) /\ IsV1(nd) /\ OverwritesVault(PreS(nd), PostS(nd))),
           v1NotJudgedAfterOverwrite |-> Cardinality({i \in 1..NLog : ~Sane(i)}),
           v1BridgedCloses |-> Count(BridgedClose1),
           v1LongWaits |-> Cardinality({i \in 1..NLog : ~IsRoot(Nd(i)) /\ CfgOf(Nd(i)).v1 /\ IsBlock(Nd(i)) /\ \E b \in Range(Post(Nd(i)).borrows) : BadRunsV1(i, b.id, TRUE) >= 2}),
           v1SmallBatchRuns |-> Count(LAMBDA nd : ~IsRoot(nd) /\ CfgOf(nd).v1 /\ IsBlock(nd) /\ SweepLen(PreS(nd)) > CfgOf(nd).batch1),
           v1CursorWraps |-> Count(LAMBDA nd : ~IsRoot(nd) /\ CfgOf(nd).v1 /\ IsBlock(nd) /\ SweepLen(PreS(nd)) > CfgOf(nd).batch1 /\ PostS(nd).x.off1 < PreS(nd).x.off1),
           v1LateSeizures |-> Count(LAMBDA nd : Judged(nd) /\ nd.a = "Tick" /\ SweepLen(PreS(nd)) > CfgOf(nd).batch1 /\ \E b \in SeizedV1(PreS(nd), PostS(nd)) : TRUE),
           v1ReauctionGaveUp |-> Count(LAMBDA nd : Judged(nd) /\ ReauctionGaveUpV1(nd)),
           v1DebtCleared |-> Count(LAMBDA nd : Judged(nd) /\ DebtClearedV1(nd)),
           v1Bids |-> Count(BidOk1),
           v1PartialBids |-> Count(LAMBDA nd : BidOk1(nd) /\ ~Closing1(nd)),
           v1ClosingBids |-> Count(Closing1),
           v1OversizedClosing |-> Count(LAMBDA nd : Closing1(nd) /\ Paid1(nd) = Tab1(nd) /\ Recv1(nd) < nd.args.amt),
           v1ShortfallCloses |-> Count(LAMBDA nd : Closing1(nd) /\ Paid1(nd) < Tab1(nd)),
           v1Reauctions |-> Count(LAMBDA nd : Closing1(nd) /\ HasLv1(PostS(nd), BidAuc1(nd).lv)),
           v1Recreated |-> Count(LAMBDA nd : Closing1(nd) /\ ~HasLv1(PostS(nd), BidAuc1(nd).lv) /\ HasId(Post(nd).borrows, BidAuc1(nd).b)),
           v1AuctionBlocks |-> Count(LAMBDA nd : ~IsRoot(nd) /\ IsBlock(nd) /\ Len(PostS(nd).x.v1aucs) > 0),
           v1Restarts |-> Count(LAMBDA nd : ~IsRoot(nd) /\ IsBlock(nd) /\ \E a \in Range(PostS(nd).x.v1aucs) : HasAuc1(PreS(nd), a.id) /\ Auc1Of(PreS(nd), a.id).start # a.start),
           confChecked |-> Count(Predictable),
           confOkSteps |-> Count(LAMBDA nd : Predictable(nd) /\ nd.res.ok) ]>>)
AllSeen == Stats /\ TLCGet("stats").distinct = NLog
=============================================================================
