---------------------------- MODULE MC_AssetAdmin ----------------------------
(* Bounded models of the x/asset administration over the operators of AssetAdmin.tla, one per profile:            *)
(*   "assets"  empty store: asset proposals (single / multiple / with pair), MsgAddAsset with the registration    *)
(*             fee, asset updates, pair proposals and pair updates                                                *)
(*   "apps"    four assets given: app proposals, governance-time updates, genesis-token configuration             *)
(*   "ext"     apps, assets and two pairs given: extended pair vaults added and updated, a pair under a live      *)
(*             product updated                                                                                    *)
(* Requests are explicit finite alphabets built around validation boundaries (one attribute wrong at a time).     *)
(* TLC checks every law on every generated transition (Check) and prints one "T" line per transition; the         *)
(* harness walks the graph on the real keeper.  Fix = FALSE: the code as it is (violations only at named          *)
(* deviations); Fix = TRUE: the repaired keeper, all laws everywhere.                                             *)
EXTENDS AssetAdmin, TLC, Json
CONSTANTS Fix, Emit, Profile, MaxUpd, MaxAssets, MaxPairs, MaxApps, MaxToks, MaxExts

VARIABLES st, nupd
vars == <<st, nupd>>

Key(s) == <<s.apps, s.assets, s.pairs, s.exts, s.ctr, s.gov, s.oflag, s.fee>>
Out(a, args, pre, post, ok) ==
  IF Emit THEN PrintT(<<"T", ToJson([a |-> a, args |-> args, ok |-> ok, pre |-> Key(pre), post |-> IF post = pre THEN "=" ELSE Key(post)])>>) ELSE TRUE
Check(a, g, r) ==
  LET V == Violated(st, r.st, a, g, r.ok) IN
  \/ V = {}
  \/ ~Fix /\ Deviates(st, a, g, r.ok)
  \/ Assert(FALSE, <<"law violated on a model transition", V, a, g>>)

Init == st = St0(Profile) /\ nupd = 0 /\ Out("Init", [profile |-> Profile], St0(Profile), St0(Profile), TRUE)
IsUpd(a) == a \in {"UpdateAsset", "UpdatePair", "UpdateExt", "UpdateGovTime"}
Try(a, g) ==
  LET r == Apply(st, a, g, Fix)
      counts == IsUpd(a) /\ r.st # st IN
  /\ counts => nupd < MaxUpd
  /\ Len(r.st.assets) <= MaxAssets /\ Len(r.st.pairs) <= MaxPairs /\ Len(r.st.apps) <= MaxApps /\ Len(r.st.exts) <= MaxExts
  /\ Cardinality(AllToks(r.st)) <= MaxToks
  /\ st' = r.st /\ nupd' = IF counts THEN nupd + 1 ELSE nupd
  /\ Out(a, g, st, r.st, r.ok)
  /\ Check(a, g, r)

(* ------------------------------ profile "assets" ------------------------------ *)
AR(n, d, dec, on, orc, cdp) == [name |-> n, denom |-> d, dec |-> dec, on |-> on, orc |-> orc, cdp |-> cdp]
A1 == AR("ATOM", "uatom", 1, TRUE, TRUE, FALSE)
A2 == AR("CMST", "ucmst", 10, TRUE, FALSE, TRUE)
A3 == AR("HARBOR", "uharbor", 1, TRUE, FALSE, FALSE)
Fresh == AR("OSMO", "uosmo", 1, TRUE, FALSE, FALSE)
BadAssets == {[Fresh EXCEPT !.name = "atom"], [Fresh EXCEPT !.name = "ABCDEFGHIJK"], [Fresh EXCEPT !.name = "ABCDEFGHIJKLMNOPQ"], [Fresh EXCEPT !.name = ""],
              [Fresh EXCEPT !.denom = "u"], [Fresh EXCEPT !.dec = 0], [Fresh EXCEPT !.on = FALSE, !.cdp = TRUE]}
Clashing == {[Fresh EXCEPT !.name = st.assets[i].name] : i \in 1..Len(st.assets)} \cup {[Fresh EXCEPT !.denom = st.assets[i].denom] : i \in 1..Len(st.assets)}
Empty == st.ctr.asset = 0
DoAddAsset ==
  Profile = "assets" /\
  \/ \E g \in {A1, A2, A3} : Try("AddAsset", g)
  \/ \E g \in Clashing : Try("AddAsset", g)
  \/ Empty /\ \E g \in BadAssets : Try("AddAsset", g)
  \/ \E g \in {A1, A3, [Fresh EXCEPT !.name = "atom"], [Fresh EXCEPT !.dec = 0]} : Try("MsgAddAsset", g)
  \/ \E l \in {<<A1, A2>>, <<A3, [Fresh EXCEPT !.name = "atom"]>>, <<A3, A3>>, <<A3, [Fresh EXCEPT !.dec = 0]>>, <<>>} : Try("AddAssets", [list |-> l])
  \/ \E out \in {1, 9, st.ctr.asset + 1} : Try("AddAssetPair", [A3 EXCEPT !.name = "OSMO", !.denom = "uosmo"] @@ [out |-> out])
UpdReqs(i) ==
  LET x == st.assets[i]  b == [id |-> x.id, name |-> x.name, denom |-> x.denom, dec |-> x.dec, orc |-> x.orc] IN
  {[b EXCEPT !.name = "OSMO", !.denom = "uosmo"], [b EXCEPT !.dec = 100], [b EXCEPT !.orc = ~x.orc], [b EXCEPT !.name = "atom"], [b EXCEPT !.dec = 0],
   [b EXCEPT !.name = "ABCDEFGHIJK"], b}
  \cup {[b EXCEPT !.name = st.assets[j].name] : j \in 1..Len(st.assets)} \cup {[b EXCEPT !.denom = st.assets[j].denom] : j \in 1..Len(st.assets)}
DoUpdateAsset ==
  Profile = "assets" /\
  \/ \E i \in 1..Len(st.assets) : \E g \in UpdReqs(i) : Try("UpdateAsset", g)
  \/ Try("UpdateAsset", [id |-> 9, name |-> "OSMO", denom |-> "uosmo", dec |-> 1, orc |-> FALSE])
DoPairs ==
  Profile = "assets" /\
  \/ \E g \in {[in |-> 1, out |-> 2], [in |-> 2, out |-> 1], [in |-> 2, out |-> 3], [in |-> 1, out |-> 1], [in |-> 1, out |-> 9], [in |-> 0, out |-> 1]} : Try("AddPair", g)
  \/ \E id \in Ids(st.pairs) \cup {9} : \E g \in {[in |-> 2, out |-> 3], [in |-> 3, out |-> 2], [in |-> 1, out |-> 2], [in |-> 2, out |-> 2], [in |-> 1, out |-> 9]} :
        Try("UpdatePair", [id |-> id] @@ g)

(* ------------------------------ profile "apps" ------------------------------ *)
AP(n, sh, mgd, gts) == [name |-> n, short |-> sh, mgd |-> mgd, gts |-> gts, gt |-> <<>>]
AppReqs == {AP("alpha", "alp", 5, 10), AP("beta", "bet", 0, 0), AP("alphax", "lph", 0, 0),
            AP("Beta", "bet", 0, 0), AP("beta", "B2", 0, 0), AP("averylongname", "bet", 0, 0), AP("beta", "toolong", 0, 0),
            AP("beta", "bet", 5, 0), AP("beta", "bet", -1, 10), AP("alpha", "bet", 0, 0), AP("beta", "alp", 0, 0)}
TK(as, sup, gov, rc) == [asset |-> as, sup |-> sup, gov |-> gov, rc |-> rc]
TokLists == {<<TK(1, 100, TRUE, "r1")>>, <<TK(2, 40, FALSE, "r2")>>, <<TK(1, 100, FALSE, "r1"), TK(2, 40, TRUE, "r1")>>,
             <<TK(1, 100, FALSE, "r1"), TK(1, 100, FALSE, "r1")>>, <<TK(1, 100, TRUE, "r1"), TK(2, 40, TRUE, "r1")>>,
             <<TK(3, 10, FALSE, "r1")>>, <<TK(4, 10, FALSE, "r1")>>, <<TK(9, 10, FALSE, "r1")>>, <<TK(1, 0, FALSE, "r1")>>, <<TK(1, 10, FALSE, "bad")>>, <<>>}
DoApps ==
  Profile = "apps" /\
  \/ \E g \in AppReqs : Try("AddApp", g)
  \/ \E id \in Ids(st.apps) \cup {9} : \E x \in {<<10, 5>>, <<0, 0>>, <<0, 5>>, <<10, -1>>, <<10, 0>>} : Try("UpdateGovTime", [app |-> id, gts |-> x[1], mgd |-> x[2]])
  \/ \E id \in Ids(st.apps) \cup {9} : \E l \in TokLists :
        /\ (Len(l) = 0 \/ (Len(l) = 1 /\ (l[1].asset \in {3, 4, 9} \/ l[1].sup = 0 \/ l[1].rc = "bad"))) => AllToks(st) = {}     \* plain rejection probes: once per app set
        /\ Try("AddAssetInApp", [app |-> id, toks |-> l])

(* ------------------------------ profile "ext" ------------------------------ *)
XR(app, pair, n, sf, cf, ddf, ceil, floor) ==
  [app |-> app, pair |-> pair, name |-> n, sf |-> sf, cf |-> cf, ddf |-> ddf, lp |-> 12, act |-> TRUE, ceil |-> ceil, floor |-> floor, stable |-> FALSE, mincr |-> 150]
ExtReqs == {XR(1, 1, "ATOM-A", 50, 0, 1, 1000, 100), XR(1, 1, "ATOM-B", 0, 99, 0, 1000, 100), XR(2, 1, "ATOM-A", 0, 0, 99, 101, 100),
            XR(9, 1, "ATOM-A", 0, 0, 0, 1000, 100), XR(1, 9, "ATOM-A", 0, 0, 0, 1000, 100), XR(1, 2, "ATOM-A", 0, 0, 0, 1000, 100),
            XR(1, 1, "atom-a", 0, 0, 0, 1000, 100), XR(1, 1, "ATOM-C", 100, 0, 0, 1000, 100), XR(1, 1, "ATOM-C", 0, -10, 0, 1000, 100),
            XR(1, 1, "ATOM-C", 0, 0, 100, 1000, 100), XR(1, 1, "ATOM-C", 0, 0, 0, 100, 100), XR(1, 1, "ATOM-C", 0, 0, 0, 99, 100)}
UX(app, ext, sf, cf, ddf, ceil, floor) ==
  [app |-> app, ext |-> ext, sf |-> sf, cf |-> cf, lp |-> 15, ddf |-> ddf, act |-> FALSE, mincr |-> 170, ceil |-> ceil, floor |-> floor]
DoExt ==
  Profile = "ext" /\
  \/ \E g \in ExtReqs : Try("AddExt", g)
  \/ \E id \in Ids(st.exts) \cup {9} :
       \E g \in {UX(1, id, 25, 5, 2, 2000, 50), UX(2, id, 25, 5, 2, 2000, 50), UX(1, id, 100, 5, 2, 2000, 50), UX(1, id, 25, -1, 2, 2000, 50),
                 UX(1, id, 25, 5, 150, 2000, 50), UX(1, id, 25, 5, 2, 50, 50), UX(1, id, 25, 5, 2, 40, 50)} : Try("UpdateExt", g)
  \/ \E g \in {[id |-> 1, in |-> 2, out |-> 3], [id |-> 1, in |-> 3, out |-> 1], [id |-> 2, in |-> 2, out |-> 4], [id |-> 2, in |-> 1, out |-> 3]} : Try("UpdatePair", g)
  \/ Try("UpdateAsset", [id |-> 3, name |-> "MTOK", denom |-> "umint", dec |-> 100, orc |-> TRUE])

Next == DoAddAsset \/ DoUpdateAsset \/ DoPairs \/ DoApps \/ DoExt
Spec == Init /\ [][Next]_vars

(* state form of the laws on the repaired model *)
InvState == Fix => StateOk(st)
InvIds == IdsOk(st) /\ IndexOk(st)
=============================================================================
