--------------------------- MODULE Trace_Tokenmint ---------------------------
(* Executions of the REAL x/tokenmint code (recorded by `vh admin --world T`) judged against Tokenmint.tla.        *)
(* Every log node is one TLC state; (Log[parent].st, node, node.st) is a (pre-state, step, post-state) triple.     *)
(*   ADM_*   the laws of Tokenmint.tla on the recorded step (property formulas)                                    *)
(*   Conf_*  the recorded step equals the specification's operator (conformance; never an alarm)                   *)
EXTENDS Tokenmint, TLC, Json
CONSTANT LogFile
Log == ndJsonDeserialize(LogFile)
NLog == Len(Log)

VARIABLE cur
Init == cur \in 1..NLog
Next == UNCHANGED cur
Spec == Init /\ [][Next]_cur

Nd(i) == Log[i]
S(j) == [book |-> j.book, sup |-> j.sup, bal |-> j.bal]
Cfg(nd) == Log[nd.st.root].args.c
IsStep(nd) == nd.a \notin {"Init", "Resume"}      \* "Resume" = copy of an earlier node's state heading a new chunk of a big log
IsRoot(nd) == nd.a = "Init"
Pre(nd) == S(Log[nd.parent].st)
Post(nd) == S(nd.st)

(* ------------------------------ conformance ------------------------------ *)
(* the step is the operator's step for the code as it is, or for the repaired code *)
ConfStep(nd) ==
  IsStep(nd) =>
    LET c == Cfg(nd) p == Pre(nd)
        r0 == Apply([c EXCEPT !.fix = FALSE], p, nd.a, nd.args)
        r1 == Apply([c EXCEPT !.fix = TRUE], p, nd.a, nd.args) IN
    \/ r0.ok = nd.res.ok /\ r0.st = Post(nd)
    \/ r1.ok = nd.res.ok /\ r1.st = Post(nd)
ConfRoot(nd) ==
  IsRoot(nd) =>
    /\ \A app \in Apps, as \in Assets : ~nd.st.book[app][as].done /\ nd.st.book[app][as].n = 0
    /\ \A as \in Assets : nd.st.sup[as] = nd.args.c.ext[as]

(* ------------------------------ laws ------------------------------ *)
StepLaw(f, nd) == IsStep(nd) => Law(f, Cfg(nd), Pre(nd), Post(nd), nd.a, nd.args, nd.res.ok)
RootLaws(nd) == IsRoot(nd) => L_SupplyRoot(nd.args.c, Post(nd)) /\ L_ModuleEmptyRoot(nd.args.c, Post(nd))
(* a rejected request leaves the tokenmint, bank and asset stores byte-identical *)
RejectedDigest(nd) == IsStep(nd) /\ ~nd.res.ok => nd.st.digest = Log[nd.parent].st.digest

Formulas == <<"Conf_Step", "Conf_Root", "ADM_GenesisOnce", "ADM_EntriesStable", "ADM_BookLedger", "ADM_SupplyFollowsBook", "ADM_ModuleEmpty",
              "ADM_BurnBounded", "ADM_MintForAppExact", "ADM_EmissionExact", "ADM_RebaseExact", "ADM_OneAsset", "ADM_RejectedNoChange",
              "ADM_RejectedDigest", "ADM_RootBook">>
Holds(f, i) ==
  LET nd == Nd(i) IN
  CASE f = "Conf_Step" -> ConfStep(nd)
    [] f = "Conf_Root" -> ConfRoot(nd)
    [] f = "ADM_RejectedDigest" -> RejectedDigest(nd)
    [] f = "ADM_RootBook" -> RootLaws(nd)
    [] OTHER -> StepLaw(f, nd)
Judge == \A k \in 1..Len(Formulas) : Holds(Formulas[k], cur) \/ PrintT(<<"FAIL", Formulas[k], cur>>)

Count(P(_)) == Cardinality({i \in 1..NLog : P(Nd(i))})
OkAct(nd, a) == nd.a = a /\ nd.res.ok
Dev(nd) == IsStep(nd) /\ Deviates(Cfg(nd), Pre(nd), nd.a, nd.args, nd.res.ok)
Stats == PrintT(<<"STATS", [nodes |-> NLog,
   roots |-> Count(IsRoot), resumes |-> Count(LAMBDA nd : nd.a = "Resume"),
   genesisMints |-> Count(LAMBDA nd : OkAct(nd, "MsgMint")),
   genesisAgain |-> Count(LAMBDA nd : nd.a = "MsgMint" /\ ~nd.res.ok /\ Done(Pre(nd), nd.args.app, nd.args.asset)),
   genesisUnlisted |-> Count(LAMBDA nd : nd.a = "MsgMint" /\ ~nd.res.ok /\ nd.args.app \in Apps /\ nd.args.asset \in Assets /\ ~Listed(Cfg(nd), nd.args.app, nd.args.asset)),
   mints |-> Count(LAMBDA nd : OkAct(nd, "MintForApp") /\ nd.args.amt > 0),
   burns |-> Count(LAMBDA nd : OkAct(nd, "BurnForApp")),
   burnsAtBook |-> Count(LAMBDA nd : nd.a = "BurnForApp" /\ ~nd.res.ok /\ Done(Pre(nd), nd.args.app, nd.args.asset) /\ Pre(nd).book[nd.args.app][nd.args.asset].cur = nd.args.amt),
   burnsOverBalance |-> Count(LAMBDA nd : nd.a \in {"BurnForApp", "BurnGov"} /\ ~nd.res.ok /\ nd.args.asset \in Assets /\ Pre(nd).bal[nd.args.from][nd.args.asset] < nd.args.amt),
   govBurns |-> Count(LAMBDA nd : OkAct(nd, "BurnGov")),
   emissions |-> Count(LAMBDA nd : OkAct(nd, "Emission") /\ nd.args.amt > 0),
   emissionsExact |-> Count(LAMBDA nd : OkAct(nd, "Emission") /\ nd.args.amt > 0 /\ ~Dev(nd)),
   rebases |-> Count(LAMBDA nd : OkAct(nd, "Rebase") /\ nd.args.amt > 0),
   rejected |-> Count(LAMBDA nd : IsStep(nd) /\ ~nd.res.ok),
   panics |-> Count(LAMBDA nd : IsStep(nd) /\ nd.res.panic),
   thirdApp |-> Count(LAMBDA nd : \E as \in Assets : nd.st.book["a3"][as].done),
   deviations |-> Count(Dev) ]>>)
AllSeen == Stats /\ TLCGet("stats").distinct = NLog
=============================================================================
