------------------------------ MODULE Tokenmint ------------------------------
(* x/tokenmint (keeper/mint.go, keeper/msg_server.go): the per-(app, asset) supply book and the entry points     *)
(* that mint / burn an app's tokens.  Implementation-shaped: one functional operator per entry point,           *)
(*     Act(c, s, args) = [ok |-> BOOLEAN, st |-> s']                                                              *)
(* over an explicit state record                                                                                  *)
(*   s.book[app][asset] = [done, gen, cur, n]   MintedTokens entry of TokenMint(app): genesis mint done,          *)
(*                                              GenesisSupply, CurrentSupply, n = number of entries for the asset *)
(*   s.sup[asset]                                bank supply of the asset's denomination                           *)
(*   s.bal[acct][asset]                          bank balances of "tm" (the tokenmint module account), the genesis *)
(*                                              recipients r1, r2 and a user u1                                    *)
(* and a configuration record (x/asset: which assets an app may genesis-mint, how much, to whom)                  *)
(*   c.gen[app] = sequence of [asset, sup, gov, rc]     AppData.GenesisToken                                      *)
(*   c.ext[asset]                                       supply minted by others before the first step             *)
(*   c.fix                                              FALSE: the code as it is; TRUE: the repaired emission /   *)
(*                                                      rebase / gov-burn (fixes/XADM-tokenmint-book.patch)       *)
(* Deviations of the code from the laws below are modelled as they are in the code and named (the Dev operators).                 *)
EXTENDS Integers, Sequences, FiniteSets

Apps == {"a1", "a2", "a3"}          \* apps that exist; every other name is an unknown app id
Assets == {"X", "Y", "Z", "W"}      \* assets that exist; every other name is an unknown asset id
Accts == {"tm", "r1", "r2", "u1"}
TM == "tm"

TOk(s) == [ok |-> TRUE, st |-> s]
TFail(s) == [ok |-> FALSE, st |-> s]

GenIdx(c, app, as) == IF app \notin Apps THEN {} ELSE {i \in 1..Len(c.gen[app]) : c.gen[app][i].asset = as}
Listed(c, app, as) == GenIdx(c, app, as) # {}
GenOf(c, app, as) == c.gen[app][CHOOSE i \in GenIdx(c, app, as) : \A j \in GenIdx(c, app, as) : i <= j]   \* GetMintGenesisTokenData: first match
(* the app's governance token: the code loops over GenesisToken and keeps the LAST entry with IsGovToken; "" = none (asset id 0) *)
GovIdx(c, app) == IF app \notin Apps THEN {} ELSE {i \in 1..Len(c.gen[app]) : c.gen[app][i].gov}
GovOf(c, app) == IF GovIdx(c, app) = {} THEN "" ELSE c.gen[app][CHOOSE i \in GovIdx(c, app) : \A j \in GovIdx(c, app) : i >= j].asset

Done(s, app, as) == app \in Apps /\ as \in Assets /\ s.book[app][as].done
HasBook(s, app) == app \in Apps /\ \E as \in Assets : s.book[app][as].done          \* GetTokenMint(app) found
Cur(s, app, as) == IF Done(s, app, as) THEN s.book[app][as].cur ELSE 0

Credit(s, acct, as, n) == [s EXCEPT !.bal[acct][as] = @ + n]
MintTo(s, acct, as, n) == [s EXCEPT !.bal[acct][as] = @ + n, !.sup[as] = @ + n]
BurnFrom(s, acct, as, n) == [s EXCEPT !.bal[acct][as] = @ - n, !.sup[as] = @ - n]
(* UpdateAssetDataInTokenMintByApp: silently nothing when the app has no book or the asset no entry *)
Book(s, app, as, d) == IF Done(s, app, as) THEN [s EXCEPT !.book[app][as].cur = @ + d] ELSE s

(* ------------------------------------------------------------------------------------------------------------ *)
(* MsgMintNewTokens (msg server; any signer): the genesis mint of (app, asset)                                    *)
MsgMint(c, s, app, as) ==
  IF as \notin Assets \/ app \notin Apps THEN TFail(s)
  ELSE IF ~Listed(c, app, as) THEN TFail(s)                                 \* ErrorAssetNotWhiteListedForGenesisMinting
  ELSE IF s.book[app][as].done THEN TFail(s)                                \* ErrorGenesisMintingForTokenAlreadyDone
  ELSE LET t == GenOf(c, app, as) IN
       TOk([MintTo(s, t.rc, as, t.sup) EXCEPT !.book[app][as] = [done |-> TRUE, gen |-> t.sup, cur |-> t.sup, n |-> 1]])

(* MintNewTokensForApp (keeper; debt auctions of both generations pay the winner with it) *)
MintForApp(c, s, app, as, to, amt) ==
  IF as \notin Assets \/ ~HasBook(s, app) \/ ~Done(s, app, as) THEN TFail(s)
  ELSE IF amt <= 0 THEN TOk(s)
  ELSE TOk(Book(MintTo(s, to, as, amt), app, as, amt))

(* BurnTokensForApp as its callers use it (esm deposit, surplus auction close): the holder's coins are moved to    *)
(* the module account and burnt from there in the same atomic unit. The book must stay strictly positive.          *)
BurnForApp(c, s, app, as, from, amt) ==
  IF as \notin Assets \/ ~HasBook(s, app) \/ ~Done(s, app, as) THEN TFail(s)
  ELSE IF amt <= 0 \/ s.bal[from][as] < amt THEN TFail(s)
  ELSE IF s.book[app][as].cur - amt <= 0 THEN TFail(s)                      \* ErrorBurningMakesSupplyLessThanZero
  ELSE TOk(Book(BurnFrom(s, from, as, amt), app, as, -amt))

(* BurnGovTokensForApp (wasm binding): burns ANY coin of `from`; the book follows only if (app, asset) has an entry *)
BurnGov(c, s, app, from, as, amt) ==
  IF app \notin Apps \/ as \notin Assets \/ amt <= 0 THEN TFail(s)
  ELSE IF c.fix /\ (~Done(s, app, as) \/ s.book[app][as].cur < amt) THEN TFail(s)
  ELSE IF s.bal[from][as] < amt THEN TFail(s)
  ELSE TOk(Book(BurnFrom(s, from, as, amt), app, as, -amt))

RECURSIVE PayEach(_, _, _, _)
PayEach(s, addrs, as, per) ==
  IF addrs = <<>> THEN s ELSE PayEach([s EXCEPT !.bal[TM][as] = @ - per, !.bal[Head(addrs)][as] = @ + per], Tail(addrs), as, per)

(* WasmMsgFoundationEmission: mint `amt` of the app's governance token, an equal share to every listed address.   *)
(* Code as it is: the whole amount is minted and booked, only (amt div n) * n is handed out (DevDust); the book   *)
(* is moved even when amt <= 0 (DevNegative) and nothing checks that the genesis mint happened (DevUnbooked).     *)
(* No governance token: the coin has an empty denomination, sdk.NewCoin panics (a rejected request); n = 0: the   *)
(* share computation divides by zero (rejected).                                                                   *)
Emission(c, s, app, amt, addrs) ==
  LET g == GovOf(c, app)  n == Len(addrs) IN
  IF c.fix THEN
       IF amt <= 0 THEN TOk(s)
       ELSE IF g = "" \/ ~Done(s, app, g) \/ n = 0 THEN TFail(s)
       ELSE LET per == amt \div n  tot == per * n IN
            IF per = 0 THEN TOk(s) ELSE TOk(Book(PayEach(MintTo(s, TM, g, tot), addrs, g, per), app, g, tot))
  ELSE IF n = 0 THEN TFail(s)
  ELSE IF amt <= 0 THEN TOk(IF g = "" THEN s ELSE Book(s, app, g, amt))
  ELSE IF g = "" THEN TFail(s)
  ELSE LET per == amt \div n
           s1 == MintTo(s, TM, g, amt)
           s2 == IF per > 0 THEN PayEach(s1, addrs, g, per) ELSE s1
       IN TOk(Book(s2, app, g, amt))

(* WasmMsgRebaseMint: mint `amt` of the app's governance token to one address; amt <= 0 is a no-op *)
Rebase(c, s, app, amt, to) ==
  LET g == GovOf(c, app) IN
  IF amt <= 0 THEN TOk(s)
  ELSE IF g = "" THEN TFail(s)
  ELSE IF c.fix /\ ~Done(s, app, g) THEN TFail(s)
  ELSE TOk(Book(MintTo(s, to, g, amt), app, g, amt))

Apply(c, s, a, g) ==
  CASE a = "MsgMint" -> MsgMint(c, s, g.app, g.asset)
    [] a = "MintForApp" -> MintForApp(c, s, g.app, g.asset, g.to, g.amt)
    [] a = "BurnForApp" -> BurnForApp(c, s, g.app, g.asset, g.from, g.amt)
    [] a = "BurnGov" -> BurnGov(c, s, g.app, g.from, g.asset, g.amt)
    [] a = "Emission" -> Emission(c, s, g.app, g.amt, g.addrs)
    [] a = "Rebase" -> Rebase(c, s, g.app, g.amt, g.to)
TmActs == {"MsgMint", "MintForApp", "BurnForApp", "BurnGov", "Emission", "Rebase"}

(* ============================================================================================================ *)
(* LAWS.  Stated over one step (configuration c, pre-state p, post-state q, action a with arguments g, result ok) *)
(* independently of the operators above: what a supply book is for, not how the code maintains it.               *)
(* ============================================================================================================ *)
RECURSIVE SumSet(_, _)
SumSet(f, S) == IF S = {} THEN 0 ELSE LET x == CHOOSE y \in S : TRUE IN f[x] + SumSet(f, S \ {x})
BookSum(s, as) == SumSet([app \in Apps |-> Cur(s, app, as)], Apps)
Users == Accts \ {TM}
Held(s, as) == SumSet([u \in Accts |-> s.bal[u][as]], Accts)
OthersSame(p, q, S, as) == \A u \in Accts \ S : q.bal[u][as] = p.bal[u][as]
AllSameBut(p, q, as) == \A x \in Assets \ {as} : q.sup[x] = p.sup[x] /\ \A u \in Accts : q.bal[u][x] = p.bal[u][x]
Target(c, a, g) ==   \* the asset a request is about ("" when it names none that exists)
  IF a \in {"Emission", "Rebase"} THEN GovOf(c, g.app) ELSE IF g.asset \in Assets THEN g.asset ELSE ""
Mult(addrs, u) == Cardinality({i \in 1..Len(addrs) : addrs[i] = u})
Rcp(addrs) == {addrs[i] : i \in 1..Len(addrs)}

(* L1 the genesis mint of (app, asset) happens at most once, only for a configured asset, and mints exactly the   *)
(*    configured genesis supply to the configured recipient; the new entry reads genesis = current = that supply  *)
L_GenesisOnce(c, p, q, a, g, ok) ==
  a = "MsgMint" /\ ok =>
    /\ g.app \in Apps /\ g.asset \in Assets /\ Listed(c, g.app, g.asset)
    /\ ~p.book[g.app][g.asset].done
    /\ LET t == GenOf(c, g.app, g.asset) e == q.book[g.app][g.asset] IN
       /\ e.done /\ e.gen = t.sup /\ e.cur = t.sup /\ e.n = 1
       /\ q.bal[t.rc][g.asset] - p.bal[t.rc][g.asset] = t.sup
       /\ q.sup[g.asset] - p.sup[g.asset] = t.sup
       /\ OthersSame(p, q, {t.rc}, g.asset)
(* L2 an entry, once made, is never removed or duplicated and its genesis supply never changes; only MsgMint makes entries *)
L_EntriesStable(c, p, q, a, g, ok) ==
  \A app \in Apps, as \in Assets :
    /\ p.book[app][as].done => q.book[app][as].done /\ q.book[app][as].gen = p.book[app][as].gen /\ q.book[app][as].n = 1
    /\ (~p.book[app][as].done /\ q.book[app][as].done) => a = "MsgMint" /\ ok /\ g.app = app /\ g.asset = as
    /\ ~q.book[app][as].done => q.book[app][as].n = 0
(* L3 the book is a ledger: CurrentSupply moves by exactly what the step minted / burnt for this (app, asset):      *)
(*    current = genesis + minted - burned.  The request's own amount is the reference (not the code's arithmetic).   *)
Booked(c, a, g, ok, app, as, p, q) ==   \* what a successful request mints (+) or burns (-) for (app, as)
  IF ~ok \/ g.app # app THEN 0
  ELSE CASE a = "MintForApp" -> IF g.asset = as /\ g.amt > 0 THEN g.amt ELSE 0
         [] a = "BurnForApp" -> IF g.asset = as THEN -g.amt ELSE 0
         [] a = "BurnGov" -> IF g.asset = as THEN -g.amt ELSE 0
         [] a \in {"Emission", "Rebase"} -> IF GovOf(c, app) = as THEN q.sup[as] - p.sup[as] ELSE 0     \* what really was minted
         [] OTHER -> 0
L_BookLedger(c, p, q, a, g, ok) ==
  \A app \in Apps, as \in Assets :
    p.book[app][as].done => q.book[app][as].cur - p.book[app][as].cur = Booked(c, a, g, ok, app, as, p, q)
(* L4 the book equals the bank supply (nobody else mints these denominations): per step, the supply of every asset  *)
(*    moves exactly with the sum of its entries                                                                     *)
L_SupplyFollowsBook(c, p, q, a, g, ok) ==
  \A as \in Assets : q.sup[as] - p.sup[as] = BookSum(q, as) - BookSum(p, as)
L_SupplyRoot(c, q) == \A as \in Assets : q.sup[as] - c.ext[as] = BookSum(q, as)
(* L5 the tokenmint module account is a pass-through: it holds nothing between requests *)
L_ModuleEmpty(c, p, q, a, g, ok) == \A as \in Assets : q.bal[TM][as] = p.bal[TM][as]
L_ModuleEmptyRoot(c, q) == \A as \in Assets : q.bal[TM][as] = 0
(* L6 burns never exceed the holder's balance nor the book; the book never becomes negative, and BurnTokensForApp never   *)
(*    burns an app's token down to zero (ErrorBurningMakesSupplyLessThanZero: "reduces the supply to 0 or less").          *)
(*    The bounds by the book are demanded where the book is the whole supply: nobody else has minted the denomination      *)
(*    (c.ext = 0) and the step starts from an intact book (book = supply) - after an earlier, separately reported          *)
(*    deviation has torn book and supply apart they cannot be expected.                                                     *)
Intact(c, s, as) == c.ext[as] = 0 /\ s.sup[as] = BookSum(s, as)
L_BurnBounded(c, p, q, a, g, ok) ==
  /\ a = "BurnForApp" /\ ok => q.book[g.app][g.asset].cur > 0
  /\ a \in {"BurnForApp", "BurnGov"} /\ ok =>
        /\ g.amt > 0 /\ p.bal[g.from][g.asset] >= g.amt
        /\ q.bal[g.from][g.asset] = p.bal[g.from][g.asset] - g.amt /\ p.sup[g.asset] - q.sup[g.asset] = g.amt
        /\ OthersSame(p, q, {g.from}, g.asset)
        /\ Done(p, g.app, g.asset)
        /\ Intact(c, p, g.asset) => p.book[g.app][g.asset].cur >= g.amt
  /\ \A app \in Apps, as \in Assets : (Intact(c, p, as) /\ p.book[app][as].cur >= 0) => q.book[app][as].cur >= 0
(* L7 MintNewTokensForApp mints exactly the requested amount to the named address, only on a minted (app, asset) *)
L_MintForAppExact(c, p, q, a, g, ok) ==
  a = "MintForApp" /\ ok =>
    /\ Done(p, g.app, g.asset)
    /\ LET d == IF g.amt > 0 THEN g.amt ELSE 0 IN
       /\ q.bal[g.to][g.asset] - p.bal[g.to][g.asset] = d /\ q.sup[g.asset] - p.sup[g.asset] = d
       /\ OthersSame(p, q, {g.to}, g.asset)
(* L8 emission: everything minted reaches the listed addresses in equal shares per listing, never more than         *)
(*    requested and less than one unit per address short of it; rebase: exactly the requested amount to the         *)
(*    named address.  Both mint the app's governance token only.                                                     *)
L_EmissionExact(c, p, q, a, g, ok) ==
  a = "Emission" /\ ok =>
    LET gv == GovOf(c, g.app) IN
    IF gv = "" THEN \A as \in Assets : q.sup[as] = p.sup[as]
    ELSE LET minted == q.sup[gv] - p.sup[gv]  n == Len(g.addrs)
             got(u) == q.bal[u][gv] - p.bal[u][gv] IN
         /\ minted >= 0 /\ minted <= (IF g.amt > 0 THEN g.amt ELSE 0)
         /\ g.amt > 0 => g.amt - minted < n
         /\ SumSet([u \in Users |-> got(u)], Users) = minted
         /\ \A u \in Users : got(u) * n = minted * Mult(g.addrs, u)
L_RebaseExact(c, p, q, a, g, ok) ==
  a = "Rebase" /\ ok =>
    LET gv == GovOf(c, g.app)  d == IF g.amt > 0 THEN g.amt ELSE 0 IN
    IF gv = "" THEN \A as \in Assets : q.sup[as] = p.sup[as]
    ELSE q.bal[g.to][gv] - p.bal[g.to][gv] = d /\ q.sup[gv] - p.sup[gv] = d /\ OthersSame(p, q, {g.to}, gv)
(* L9 a request touches one asset only; a rejected request changes nothing *)
L_OneAsset(c, p, q, a, g, ok) ==
  LET t == Target(c, a, g) IN
  /\ \A x \in Assets \ {t} : q.sup[x] = p.sup[x] /\ \A u \in Accts : q.bal[u][x] = p.bal[u][x]
  /\ \A app \in Apps, x \in Assets : (x # t \/ app # g.app) => q.book[app][x] = p.book[app][x]
L_RejectedNoChange(c, p, q, a, g, ok) == ~ok => q = p

LawNames == {"ADM_GenesisOnce", "ADM_EntriesStable", "ADM_BookLedger", "ADM_SupplyFollowsBook", "ADM_ModuleEmpty", "ADM_BurnBounded",
             "ADM_MintForAppExact", "ADM_EmissionExact", "ADM_RebaseExact", "ADM_OneAsset", "ADM_RejectedNoChange"}
Law(f, c, p, q, a, g, ok) ==
  CASE f = "ADM_GenesisOnce" -> L_GenesisOnce(c, p, q, a, g, ok)
    [] f = "ADM_EntriesStable" -> L_EntriesStable(c, p, q, a, g, ok)
    [] f = "ADM_BookLedger" -> L_BookLedger(c, p, q, a, g, ok)
    [] f = "ADM_SupplyFollowsBook" -> L_SupplyFollowsBook(c, p, q, a, g, ok)
    [] f = "ADM_ModuleEmpty" -> L_ModuleEmpty(c, p, q, a, g, ok)
    [] f = "ADM_BurnBounded" -> L_BurnBounded(c, p, q, a, g, ok)
    [] f = "ADM_MintForAppExact" -> L_MintForAppExact(c, p, q, a, g, ok)
    [] f = "ADM_EmissionExact" -> L_EmissionExact(c, p, q, a, g, ok)
    [] f = "ADM_RebaseExact" -> L_RebaseExact(c, p, q, a, g, ok)
    [] f = "ADM_OneAsset" -> L_OneAsset(c, p, q, a, g, ok)
    [] f = "ADM_RejectedNoChange" -> L_RejectedNoChange(c, p, q, a, g, ok)
Violated(c, p, q, a, g, ok) == {f \in LawNames : ~Law(f, c, p, q, a, g, ok)}

(* Named deviations of the code as it is (each is an open known finding with a proposed repair):                  *)
(*   DevDust      emission whose amount is not a multiple of the number of addresses: the remainder is minted and  *)
(*                booked but stays in the module account                                                           *)
(*   DevNegative  emission with a negative amount lowers the book without burning anything                         *)
(*   DevUnbooked  emission / rebase before the genesis mint of the governance token, gov-burn of a coin the app    *)
(*                has no entry for: the bank supply moves, no book does                                            *)
DevDust(c, p, a, g, ok) == a = "Emission" /\ ok /\ g.amt > 0 /\ Len(g.addrs) > 0 /\ g.amt % Len(g.addrs) # 0
DevNegative(c, p, a, g, ok) == a = "Emission" /\ ok /\ g.amt < 0 /\ GovOf(c, g.app) # "" /\ Done(p, g.app, GovOf(c, g.app))
DevUnbooked(c, p, a, g, ok) ==
  \/ a \in {"Emission", "Rebase"} /\ ok /\ g.amt > 0 /\ ~Done(p, g.app, GovOf(c, g.app))
  \/ a = "BurnGov" /\ ok /\ ~Done(p, g.app, g.asset)
Deviates(c, p, a, g, ok) == DevDust(c, p, a, g, ok) \/ DevNegative(c, p, a, g, ok) \/ DevUnbooked(c, p, a, g, ok)
=============================================================================
