---------------------------- MODULE MC_Tokenmint ----------------------------
(* Bounded model of x/tokenmint over the operators of Tokenmint.tla: 3 apps (a1: governance token X + second      *)
(* genesis token Y, a2: governance token Z, a3: nothing configured), 4 assets (W is listed nowhere), unknown app   *)
(* a9 and unknown asset Q as rejection probes.  TLC checks every law on every generated transition (Check) and    *)
(* prints one "T" line per transition; the harness walks the transition graph on the real keeper / msg server.    *)
(* Fix = FALSE: the code as it is (law violations allowed only where a named deviation applies);                   *)
(* Fix = TRUE: the repaired module, every law must hold on every transition (design-level result, no dump).        *)
EXTENDS Tokenmint, TLC, Json
CONSTANTS Fix, Emit, MaxOps,
          Profile     \* "book": genesis mints, MintNewTokensForApp, burns;  "wasm": genesis mints of the governance tokens, emission, rebase, gov-burn

C == [gen |-> [a1 |-> <<[asset |-> "X", sup |-> 100, gov |-> TRUE, rc |-> "r1"], [asset |-> "Y", sup |-> 40, gov |-> FALSE, rc |-> "r2"]>>,
               a2 |-> <<[asset |-> "Z", sup |-> 60, gov |-> TRUE, rc |-> "r1"]>>,
               a3 |-> <<>>],
      ext |-> [X |-> 0, Y |-> 0, Z |-> 0, W |-> 20],
      fix |-> Fix]

VARIABLES st, nops
vars == <<st, nops>>

E0 == [done |-> FALSE, gen |-> 0, cur |-> 0, n |-> 0]
B0 == [X |-> E0, Y |-> E0, Z |-> E0, W |-> E0]
Z4 == [X |-> 0, Y |-> 0, Z |-> 0, W |-> 0]
St0 == [book |-> [a1 |-> B0, a2 |-> B0, a3 |-> B0], sup |-> C.ext,
        bal |-> [tm |-> Z4, r1 |-> Z4, r2 |-> Z4, u1 |-> [Z4 EXCEPT !.W = 20]]]
InitArgs == [c |-> C, profile |-> Profile]

Key(s) == <<[app \in {"a1", "a2"} |-> [as \in {"X", "Y", "Z"} |-> <<s.book[app][as].done, s.book[app][as].cur>>]],
            <<s.sup.X, s.sup.Y, s.sup.Z, s.sup.W>>,
            [u \in {"tm", "r1", "r2", "u1"} |-> <<s.bal[u].X, s.bal[u].Y, s.bal[u].Z, s.bal[u].W>>]>>
Out(a, args, pre, post, ok) ==
  IF Emit THEN PrintT(<<"T", ToJson([a |-> a, args |-> args, ok |-> ok, pre |-> Key(pre), post |-> IF post = pre THEN "=" ELSE Key(post)])>>) ELSE TRUE

(* every law on every model transition; a violation is tolerated only in the as-is model and only on a named deviation *)
Check(a, g, r) ==
  LET V == Violated(C, st, r.st, a, g, r.ok) IN
  \/ V = {}
  \/ ~Fix /\ Deviates(C, st, a, g, r.ok)
  \/ Assert(FALSE, <<"law violated on a model transition", V, a, g>>)

Init == st = St0 /\ nops = 0 /\ Out("Init", InitArgs, St0, St0, TRUE)
Try(a, g) ==
  LET r == Apply(C, st, a, g)
      counts == r.st # st /\ a # "MsgMint" IN
  /\ counts => nops < MaxOps
  /\ st' = r.st /\ nops' = IF counts THEN nops + 1 ELSE nops
  /\ Out(a, g, st, r.st, r.ok)
  /\ Check(a, g, r)

Probe == nops = 0          \* unknown ids and other rejection-only probes are tried on states no operation has touched yet
DoMsgMint ==
  \E app \in {"a1", "a2", "a3", "a9"}, as \in {"X", "Y", "Z", "W", "Q"} :
     /\ (app \in {"a3", "a9"} \/ as \in {"W", "Q"}) => Probe
     /\ Profile = "wasm" => (as \in {"X", "Z", "Q"})
     /\ Try("MsgMint", [app |-> app, asset |-> as])
DoMintForApp ==
  Profile = "book" /\
  \E app \in {"a1", "a2", "a9"}, as \in {"X", "Y", "Z", "Q"}, amt \in {0, 7} :
     /\ (app = "a9" \/ as = "Q" \/ amt = 0) => Probe
     /\ Try("MintForApp", [app |-> app, asset |-> as, to |-> "u1", amt |-> amt])
(* burn below / at / above the book (the book must stay strictly positive) and above the holder's balance *)
BurnAmts(app, as, from) ==
  LET cur == Cur(st, app, as) b == st.bal[from][as] IN {x \in {5, cur - 1, cur, b + 1} : x > 0 /\ x <= 200}
DoBurnForApp ==
  Profile = "book" /\
  \E app \in {"a1", "a2", "a9"}, as \in {"X", "Y", "Q"}, from \in {"r1", "u1"} :
     /\ (app = "a9" \/ as = "Q") => Probe
     /\ \E amt \in (IF as = "Q" \/ app = "a9" THEN {5} ELSE BurnAmts(app, as, from)) :
          Try("BurnForApp", [app |-> app, asset |-> as, from |-> from, amt |-> amt])
DoBurnGov ==
  \E app \in {"a1", "a2", "a9"}, as \in {"X", "Z", "W"}, from \in {"r1", "u1"} :
     /\ app = "a9" => Probe
     /\ Profile = "book" => as # "Z"
     /\ Profile = "wasm" => from = (IF as = "W" THEN "u1" ELSE "r1")
     /\ \E amt \in {x \in {6, st.bal[from][as] + 1} : x <= 200} :
          Try("BurnGov", [app |-> app, from |-> from, asset |-> as, amt |-> amt])
DoEmission ==
  Profile = "wasm" /\
  \E app \in {"a1", "a2", "a3", "a9"}, amt \in {-3, 0, 2, 9, 10}, addrs \in {<<>>, <<"r1">>, <<"r1", "r2">>, <<"r2", "u1", "r1">>} :
     /\ (app \in {"a3", "a9"} \/ addrs = <<>>) => Probe /\ amt \in {0, 9}
     /\ app = "a2" => amt \in {-3, 10} /\ Len(addrs) = 3
     /\ Try("Emission", [app |-> app, amt |-> amt, addrs |-> addrs])
DoRebase ==
  Profile = "wasm" /\
  \E app \in {"a1", "a2", "a3", "a9"}, amt \in {-3, 0, 8} :
     /\ (app \in {"a3", "a9"} \/ amt <= 0) => Probe
     /\ Try("Rebase", [app |-> app, amt |-> amt, to |-> "u1"])

Next == DoMsgMint \/ DoMintForApp \/ DoBurnForApp \/ DoBurnGov \/ DoEmission \/ DoRebase
Spec == Init /\ [][Next]_vars

(* state form of the book laws on the repaired model; type / sign sanity on both *)
InvSupply == Fix => L_SupplyRoot(C, st)
InvModuleEmpty == Fix => L_ModuleEmptyRoot(C, st)
InvNonNeg == /\ \A u \in Accts, as \in Assets : st.bal[u][as] >= 0
             /\ \A as \in Assets : st.sup[as] >= 0 /\ st.sup[as] = Held(st, as)
             /\ Fix => \A app \in Apps, as \in Assets : st.book[app][as].cur >= 0
=============================================================================
