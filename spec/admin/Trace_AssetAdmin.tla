--------------------------- MODULE Trace_AssetAdmin ---------------------------
(* Executions of the REAL x/asset administration code (recorded by `vh admin --world A`) judged against           *)
(* AssetAdmin.tla.  Every log node is one TLC state; (Log[parent].st, node, node.st) is a step of the real code.   *)
(*   ADM_*   the laws of AssetAdmin.tla on the recorded step (property formulas)                                   *)
(*   Conf_*  the recorded step equals the specification's operator (conformance; never an alarm)                   *)
EXTENDS AssetAdmin, TLC, Json
CONSTANT LogFile
Log == ndJsonDeserialize(LogFile)
NLog == Len(Log)

VARIABLE cur
Init == cur \in 1..NLog
Next == UNCHANGED cur
Spec == Init /\ [][Next]_cur

Nd(i) == Log[i]
S(j) == [apps |-> j.apps, assets |-> j.assets, pairs |-> j.pairs, exts |-> j.exts, ctr |-> j.ctr,
         idx |-> [appName |-> Range(j.idx.appName), appShort |-> Range(j.idx.appShort), assetName |-> Range(j.idx.assetName), assetDenom |-> Range(j.idx.assetDenom)],
         gov |-> Range(j.gov), oflag |-> j.oflag, fee |-> j.fee]
IsStep(nd) == nd.a \notin {"Init", "Resume"}      \* "Resume" = copy of an earlier node's state heading a new chunk of a big log
IsRoot(nd) == nd.a = "Init"
Pre(nd) == S(Log[nd.parent].st)
Post(nd) == S(nd.st)

(* the step is the operator's step for the code as it is, or for the repaired keeper *)
ConfStep(nd) ==
  IsStep(nd) =>
    LET p == Pre(nd)
        r0 == Apply(p, nd.a, nd.args, FALSE)
        r1 == Apply(p, nd.a, nd.args, TRUE) IN
    \/ r0.ok = nd.res.ok /\ r0.st = Post(nd)
    \/ r1.ok = nd.res.ok /\ r1.st = Post(nd)
ConfRoot(nd) == IsRoot(nd) => Post(nd) = St0(nd.args.profile)

StepLaw(f, nd) == IsStep(nd) => Law(f, Pre(nd), Post(nd), nd.a, nd.args, nd.res.ok)
RootLaws(nd) == IsRoot(nd) => StateOk(Post(nd))
RejectedDigest(nd) == IsStep(nd) /\ ~nd.res.ok => nd.st.digest = Log[nd.parent].st.digest

Formulas == <<"Conf_Step", "Conf_Root", "ADM_IdsFresh", "ADM_IdsDistinct", "ADM_AppUnique", "ADM_AssetUnique", "ADM_PairUnique", "ADM_IndexMatches", "ADM_ExtValid",
              "ADM_AppGovValid", "ADM_GenesisCfg", "ADM_InAppExact", "ADM_UpdateKeeps", "ADM_LivePairStable", "ADM_AddKeeps", "ADM_Fee", "ADM_OracleFlag",
              "ADM_RejectedNoChange", "ADM_RejectedDigest", "ADM_RootState">>
Holds(f, i) ==
  LET nd == Nd(i) IN
  CASE f = "Conf_Step" -> ConfStep(nd)
    [] f = "Conf_Root" -> ConfRoot(nd)
    [] f = "ADM_RejectedDigest" -> RejectedDigest(nd)
    [] f = "ADM_RootState" -> RootLaws(nd)
    [] OTHER -> StepLaw(f, nd)
Judge == \A k \in 1..Len(Formulas) : Holds(Formulas[k], cur) \/ PrintT(<<"FAIL", Formulas[k], cur>>)

Count(P(_)) == Cardinality({i \in 1..NLog : P(Nd(i))})
OkAct(nd, a) == nd.a = a /\ nd.res.ok
NoAct(nd, a) == nd.a = a /\ ~nd.res.ok
Dev(nd) == IsStep(nd) /\ Deviates(Pre(nd), nd.a, nd.args, nd.res.ok)
Stats == PrintT(<<"STATS", [nodes |-> NLog,
   roots |-> Count(IsRoot), resumes |-> Count(LAMBDA nd : nd.a = "Resume"),
   appsAdded |-> Count(LAMBDA nd : OkAct(nd, "AddApp")), appsRefused |-> Count(LAMBDA nd : NoAct(nd, "AddApp")),
   govTimeUpdates |-> Count(LAMBDA nd : OkAct(nd, "UpdateGovTime")),
   tokensConfigured |-> Count(LAMBDA nd : OkAct(nd, "AddAssetInApp") /\ Len(nd.args.toks) > 0), tokensRefused |-> Count(LAMBDA nd : NoAct(nd, "AddAssetInApp")),
   assetsAdded |-> Count(LAMBDA nd : nd.a \in {"AddAsset", "AddAssets", "MsgAddAsset", "AddAssetPair"} /\ nd.res.ok),
   assetsRefused |-> Count(LAMBDA nd : nd.a \in {"AddAsset", "AddAssets", "MsgAddAsset", "AddAssetPair"} /\ ~nd.res.ok),
   feePaid |-> Count(LAMBDA nd : OkAct(nd, "MsgAddAsset")), feeShort |-> Count(LAMBDA nd : NoAct(nd, "MsgAddAsset") /\ Pre(nd).fee.u1 = 0),
   assetUpdates |-> Count(LAMBDA nd : OkAct(nd, "UpdateAsset")), assetRenames |-> Count(LAMBDA nd : OkAct(nd, "UpdateAsset") /\ Post(nd).idx.assetName # Pre(nd).idx.assetName),
   assetUpdatesRefused |-> Count(LAMBDA nd : NoAct(nd, "UpdateAsset")),
   pairsAdded |-> Count(LAMBDA nd : OkAct(nd, "AddPair")), pairsRefused |-> Count(LAMBDA nd : NoAct(nd, "AddPair")),
   pairUpdates |-> Count(LAMBDA nd : OkAct(nd, "UpdatePair")), pairUpdatesRefused |-> Count(LAMBDA nd : NoAct(nd, "UpdatePair")),
   extsAdded |-> Count(LAMBDA nd : OkAct(nd, "AddExt")), extsRefused |-> Count(LAMBDA nd : NoAct(nd, "AddExt")),
   extUpdates |-> Count(LAMBDA nd : OkAct(nd, "UpdateExt") /\ ~Dev(nd)), extUpdatesRefused |-> Count(LAMBDA nd : NoAct(nd, "UpdateExt")),
   multiRollback |-> Count(LAMBDA nd : NoAct(nd, "AddAssets") /\ Len(nd.args.list) = 2) + Count(LAMBDA nd : NoAct(nd, "AddAssetPair")),
   rejected |-> Count(LAMBDA nd : IsStep(nd) /\ ~nd.res.ok),
   panics |-> Count(LAMBDA nd : IsStep(nd) /\ nd.res.panic),
   deviations |-> Count(Dev) ]>>)
AllSeen == Stats /\ TLCGet("stats").distinct = NLog
=============================================================================
