------------------------------ MODULE AssetAdmin ------------------------------
(* Administration of x/asset (keeper/app.go, asset.go, pair.go, pairs_vault.go; validation in types/asset.go,     *)
(* pair.go, gov.go, msgs.go): apps, assets, pairs, the genesis-token configuration of an app and the extended     *)
(* pair vaults (the CDP products).  One functional operator per entry point,                                      *)
(*     Act(s, g) = [ok |-> BOOLEAN, st |-> s']                                                                    *)
(* following the path a request really takes: governance proposals = Content.ValidateBasic + the proposal        *)
(* handler on a cache-wrapped context that is written back only on success (x/gov), MsgAddAsset = ValidateBasic + *)
(* msg server, extended pairs = the wasm bindings (atomic per dispatched message).                                *)
(* State record s:                                                                                                *)
(*   apps    sequence of [id, name, short, mgd, gts, gt]   gt = sequence of [asset, sup, gov, rc] (GenesisToken)  *)
(*   assets  sequence of [id, name, denom, dec, on, orc, cdp]                                                     *)
(*   pairs   sequence of [id, in, out]                                                                            *)
(*   exts    sequence of [id, app, pair, name, sf, cf, ddf, lp, act, ceil, floor, stable, mincr]                  *)
(*           (fees / ratios in hundredths: 50 = 0.5)                                                              *)
(*   ctr     [app, asset, pair, ext] id counters                                                                  *)
(*   idx     [appName, appShort, assetName, assetDenom] secondary indexes: sets of [k, id]                        *)
(*   gov     set of [app, asset]: the governance-token index (GenesisForApp)                                      *)
(*   oflag   band-oracle check flag (cleared whenever an oracle-priced asset is added / updated)                  *)
(*   fee     [u1, mod] asset-registration-fee units held by the creator u1 and by the asset module account        *)
(* Strings are atomic in TLA+: names come from a small catalogue whose lexical attributes (letter case, length,   *)
(* substring relation, denomination validity) are tabulated here.                                                 *)
EXTENDS Integers, Sequences, FiniteSets

(* ------------------------------ catalogue ------------------------------ *)
AppLower(n) == n \notin {"Beta", "B2"}                                   \* ^[a-z]+$
AppLen(n) == CASE n = "averylongname" -> 13 [] n = "toolong" -> 7 [] n = "alphax" -> 6 [] n = "alpha" -> 5 [] n \in {"beta", "Beta"} -> 4
               [] n = "B2" -> 2 [] n = "gamma" -> 5 [] OTHER -> 3
SubPairs == {<<"alphax", "alpha">>, <<"alphax", "alp">>, <<"alphax", "lph">>, <<"alpha", "alp">>, <<"alpha", "lph">>, <<"beta", "bet">>, <<"gamma", "gam">>}
Sub(x, y) == x = y \/ <<x, y>> \in SubPairs                               \* strings.Contains(x, y)
AssetUpper(n) == n \notin {"atom", ""}                                   \* ^[A-Z]+$
AssetLen(n) == CASE n = "" -> 0 [] n = "ABCDEFGHIJK" -> 11 [] n = "ABCDEFGHIJKLMNOPQ" -> 17 [] n = "HARBOR" -> 6 [] OTHER -> 4
DenomValid(d) == d \notin {"u", ""}                                       \* sdk.ValidateDenom
PairNameFmt(n) == n # "atom-a"                                            \* ^[A-Z-]+$
AddrValid(a) == a # "bad"                                                 \* bech32

AOk(s) == [ok |-> TRUE, st |-> s]
AFail(s) == [ok |-> FALSE, st |-> s]
Idx(q, id) == LET S == {i \in 1..Len(q) : q[i].id = id} IN IF S = {} THEN 0 ELSE CHOOSE i \in S : TRUE
Range(q) == {q[i] : i \in 1..Len(q)}
HasKey(ix, k) == \E e \in ix : e.k = k
Put(ix, k, id) == {e \in ix : e.k # k} \cup {[k |-> k, id |-> id]}
Del(ix, k) == {e \in ix : e.k # k}
GovOfApp(s, app) == LET S == {e \in s.gov : e.app = app} IN IF S = {} THEN 0 ELSE (CHOOSE e \in S : TRUE).asset
ListedAnywhere(s, as) == \E i \in 1..Len(s.apps) : \E j \in 1..Len(s.apps[i].gt) : s.apps[i].gt[j].asset = as
HasAsset(s, id) == Idx(s.assets, id) # 0

(* ------------------------------ apps ------------------------------ *)
(* AddAppProposal -> AddAppRecords.  GenesisToken of the request is stored verbatim (the v5 upgrade handler relies on it). *)
AddApp(s, g) ==
  IF HasKey(s.idx.appShort, g.short) \/ HasKey(s.idx.appName, g.name) THEN AFail(s)
  ELSE IF ~AppLower(g.short) \/ AppLen(g.short) > 6 THEN AFail(s)
  ELSE IF ~AppLower(g.name) \/ AppLen(g.name) > 10 THEN AFail(s)
  ELSE IF \E i \in 1..Len(s.apps) : LET x == s.apps[i] IN Sub(g.name, x.name) \/ Sub(g.short, x.short) \/ Sub(g.name, x.short) \/ Sub(g.short, x.name) THEN AFail(s)
  ELSE IF g.gts = 0 /\ g.mgd # 0 THEN AFail(s)
  ELSE IF g.mgd < 0 THEN AFail(s)
  ELSE LET id == s.ctr.app + 1 IN
       AOk([s EXCEPT !.ctr.app = id,
                     !.apps = Append(@, [id |-> id, name |-> g.name, short |-> g.short, mgd |-> g.mgd, gts |-> g.gts, gt |-> g.gt]),
                     !.idx.appShort = Put(@, g.short, id), !.idx.appName = Put(@, g.name, id)])

(* UpdateGovTimeInAppProposal -> UpdateGovTimeInApp: no validation at all (DevGovTime) *)
UpdateGovTime(s, g, cfix) ==
  LET i == Idx(s.apps, g.app) IN
  IF i = 0 THEN AFail(s)
  ELSE IF cfix /\ (g.mgd < 0 \/ (g.gts = 0 /\ g.mgd # 0) \/ (g.mgd = 0 /\ GovOfApp(s, g.app) # 0)) THEN AFail(s)
  ELSE AOk([s EXCEPT !.apps[i].gts = g.gts, !.apps[i].mgd = g.mgd])

(* AddAssetInAppProposal -> AddAssetInAppRecords: tokens are examined one by one; "already listed" reads the STORED  *)
(* apps, so the same asset twice in one request passes (DevTwice); the governance index is written inside the loop.   *)
RECURSIVE InAppLoop(_, _, _, _, _, _)
InAppLoop(s, mgd, toks, gov0, acc, cfix) ==
  IF toks = <<>> THEN [ok |-> TRUE, gt |-> acc, gov |-> gov0]
  ELSE LET t == Head(toks)  ai == Idx(s.assets, t.asset) IN
       IF ai = 0 THEN [ok |-> FALSE]
       ELSE IF ~s.assets[ai].on \/ s.assets[ai].cdp THEN [ok |-> FALSE]
       ELSE IF ~AddrValid(t.rc) \/ t.sup <= 0 THEN [ok |-> FALSE]
       ELSE IF gov0 # 0 /\ t.gov THEN [ok |-> FALSE]
       ELSE IF t.gov /\ mgd = 0 THEN [ok |-> FALSE]
       ELSE IF ListedAnywhere(s, t.asset) THEN [ok |-> FALSE]
       ELSE IF cfix /\ \E j \in 1..Len(acc) : acc[j].asset = t.asset THEN [ok |-> FALSE]
       ELSE InAppLoop(s, mgd, Tail(toks), IF t.gov THEN t.asset ELSE gov0, Append(acc, t), cfix)
AddAssetInApp(s, g, cfix) ==
  LET i == Idx(s.apps, g.app) IN
  IF i = 0 THEN AFail(s)
  ELSE LET r == InAppLoop(s, s.apps[i].mgd, g.toks, GovOfApp(s, g.app), s.apps[i].gt, cfix) IN
       IF ~r.ok THEN AFail(s)
       ELSE AOk([s EXCEPT !.apps[i].gt = r.gt,
                          !.gov = IF r.gov = 0 THEN @ ELSE {e \in @ : e.app # g.app} \cup {[app |-> g.app, asset |-> r.gov]}])

(* ------------------------------ assets ------------------------------ *)
AssetValidate(g) == g.name # "" /\ AssetLen(g.name) <= 16 /\ DenomValid(g.denom) /\ g.dec > 0        \* types.Asset.Validate
AssetRecords(s, g) ==                                                                                \* keeper.AddAssetRecords
  IF HasKey(s.idx.assetDenom, g.denom) \/ HasKey(s.idx.assetName, g.name) THEN AFail(s)
  ELSE IF ~AssetUpper(g.name) \/ AssetLen(g.name) > 10 THEN AFail(s)
  ELSE IF ~g.on /\ g.cdp THEN AFail(s)
  ELSE LET id == s.ctr.asset + 1 IN
       AOk([s EXCEPT !.ctr.asset = id,
                     !.assets = Append(@, [id |-> id, name |-> g.name, denom |-> g.denom, dec |-> g.dec, on |-> g.on, orc |-> g.orc, cdp |-> g.cdp]),
                     !.idx.assetDenom = Put(@, g.denom, id), !.idx.assetName = Put(@, g.name, id),
                     !.oflag = IF g.orc THEN FALSE ELSE @])
AddAsset(s, g) == IF ~AssetValidate(g) THEN AFail(s) ELSE AssetRecords(s, g)                          \* AddAssetsProposal
RECURSIVE AssetsLoop(_, _)
AssetsLoop(s, l) == IF l = <<>> THEN AOk(s) ELSE LET r == AssetRecords(s, Head(l)) IN IF r.ok THEN AssetsLoop(r.st, Tail(l)) ELSE r
AddAssets(s, g) ==                                                                                    \* AddMultipleAssetsProposal: all or nothing
  IF g.list = <<>> \/ \E i \in 1..Len(g.list) : ~AssetValidate(g.list[i]) THEN AFail(s)
  ELSE LET r == AssetsLoop(s, g.list) IN IF r.ok THEN r ELSE AFail(s)
MsgAddAsset(s, g) ==                                                                                  \* the registration fee is paid first
  IF ~AssetValidate(g) \/ s.fee.u1 < 1 THEN AFail(s)
  ELSE LET r == AssetRecords([s EXCEPT !.fee.u1 = @ - 1, !.fee.mod = @ + 1], g) IN IF r.ok THEN r ELSE AFail(s)
(* UpdateAssetProposal -> UpdateAssetRecords: name, denomination, decimals and the oracle flag of a live asset may change; *)
(* id, IsOnChain, IsCdpMintable stay *)
UpdateAsset(s, g) ==
  LET i == Idx(s.assets, g.id) IN
  IF ~AssetValidate(g) THEN AFail(s)
  ELSE IF i = 0 THEN AFail(s)
  ELSE IF ~AssetUpper(g.name) \/ AssetLen(g.name) > 10 THEN AFail(s)
  ELSE IF HasKey(s.idx.assetName, g.name) /\ s.assets[i].name # g.name THEN AFail(s)
  ELSE IF HasKey(s.idx.assetDenom, g.denom) /\ s.assets[i].denom # g.denom THEN AFail(s)
  ELSE AOk([s EXCEPT !.assets[i].name = g.name, !.assets[i].denom = g.denom, !.assets[i].dec = g.dec, !.assets[i].orc = g.orc,
                     !.idx.assetName = Put(Del(@, s.assets[i].name), g.name, g.id),
                     !.idx.assetDenom = Put(Del(@, s.assets[i].denom), g.denom, g.id),
                     !.oflag = IF g.orc THEN FALSE ELSE @])

(* ------------------------------ pairs ------------------------------ *)
PairClash(s, in, out) == \E i \in 1..Len(s.pairs) : (s.pairs[i].in = in /\ s.pairs[i].out = out) \/ (s.pairs[i].in = out /\ s.pairs[i].out = in)
PairRecords(s, in, out) ==
  IF ~HasAsset(s, in) \/ ~HasAsset(s, out) \/ in = out \/ PairClash(s, in, out) THEN AFail(s)
  ELSE LET id == s.ctr.pair + 1 IN AOk([s EXCEPT !.ctr.pair = id, !.pairs = Append(@, [id |-> id, in |-> in, out |-> out])])
AddPair(s, g) == IF g.in = 0 \/ g.out = 0 THEN AFail(s) ELSE PairRecords(s, g.in, g.out)             \* AddPairsProposal
(* UpdatePairProposal -> UpdatePairRecords: both assets of an existing pair may be replaced - also of a pair that extended *)
(* pair vaults use (DevLivePair); cfix = the repaired keeper refuses that *)
PairLive(s, id) == \E i \in 1..Len(s.exts) : s.exts[i].pair = id
UpdatePair(s, g, cfix) ==
  LET i == Idx(s.pairs, g.id) IN
  IF g.in = 0 \/ g.out = 0 THEN AFail(s)
  ELSE IF i = 0 \/ ~HasAsset(s, g.in) \/ ~HasAsset(s, g.out) \/ g.in = g.out \/ PairClash(s, g.in, g.out) THEN AFail(s)
  ELSE IF cfix /\ PairLive(s, g.id) THEN AFail(s)
  ELSE AOk([s EXCEPT !.pairs[i].in = g.in, !.pairs[i].out = g.out])
(* AddMultipleAssetsPairsProposal (one record): a new asset and its pair against an existing asset, all or nothing *)
AddAssetPair(s, g) ==
  IF ~AssetValidate(g) THEN AFail(s)
  ELSE LET r == AssetRecords(s, g) IN
       IF ~r.ok THEN AFail(s)
       ELSE LET r2 == PairRecords(r.st, r.st.ctr.asset, g.out) IN IF r2.ok THEN r2 ELSE AFail(s)

(* ------------------------------ extended pair vaults ------------------------------ *)
FeeOk(x) == x >= 0 /\ x < 100
AddExt(s, g) ==                                                                     \* WasmAddExtendedPairsVaultRecords
  LET pi == Idx(s.pairs, g.pair) IN
  IF Idx(s.apps, g.app) = 0 \/ pi = 0 THEN AFail(s)
  ELSE IF ~PairNameFmt(g.name) THEN AFail(s)
  ELSE IF \E i \in 1..Len(s.exts) : s.exts[i].name = g.name /\ s.exts[i].app = g.app THEN AFail(s)
  ELSE IF g.floor >= g.ceil THEN AFail(s)
  ELSE IF ~FeeOk(g.sf) \/ ~FeeOk(g.cf) \/ ~FeeOk(g.ddf) THEN AFail(s)
  ELSE LET oi == Idx(s.assets, s.pairs[pi].out) IN
       IF oi = 0 THEN AFail(s)
       ELSE IF ~s.assets[oi].cdp \/ ~s.assets[oi].on THEN AFail(s)
       ELSE LET id == s.ctr.ext + 1 IN
            AOk([s EXCEPT !.ctr.ext = id,
                          !.exts = Append(@, [id |-> id, app |-> g.app, pair |-> g.pair, name |-> g.name, sf |-> g.sf, cf |-> g.cf, ddf |-> g.ddf,
                                              lp |-> g.lp, act |-> g.act, ceil |-> g.ceil, floor |-> g.floor, stable |-> g.stable, mincr |-> g.mincr])])
(* WasmUpdatePairsVault: fees, penalty, ratio, activity, ceiling / floor are overwritten without any of the checks   *)
(* made at creation (DevExtUpdate); id, app, pair, name, stable-mint flag stay.  cfix = the repaired keeper.         *)
UpdateExt(s, g, cfix) ==
  LET i == Idx(s.exts, g.ext) IN
  IF i = 0 THEN AFail(s)
  ELSE IF cfix /\ (g.floor >= g.ceil \/ ~FeeOk(g.sf) \/ ~FeeOk(g.cf) \/ ~FeeOk(g.ddf)) THEN AFail(s)
  ELSE AOk([s EXCEPT !.exts[i].sf = g.sf, !.exts[i].cf = g.cf, !.exts[i].lp = g.lp, !.exts[i].ddf = g.ddf, !.exts[i].act = g.act,
                     !.exts[i].ceil = g.ceil, !.exts[i].floor = g.floor, !.exts[i].mincr = g.mincr])

Apply(s, a, g, cfix) ==
  CASE a = "AddApp" -> AddApp(s, g)
    [] a = "UpdateGovTime" -> UpdateGovTime(s, g, cfix)
    [] a = "AddAssetInApp" -> AddAssetInApp(s, g, cfix)
    [] a = "AddAsset" -> AddAsset(s, g)
    [] a = "AddAssets" -> AddAssets(s, g)
    [] a = "MsgAddAsset" -> MsgAddAsset(s, g)
    [] a = "UpdateAsset" -> UpdateAsset(s, g)
    [] a = "AddPair" -> AddPair(s, g)
    [] a = "UpdatePair" -> UpdatePair(s, g, cfix)
    [] a = "AddAssetPair" -> AddAssetPair(s, g)
    [] a = "AddExt" -> AddExt(s, g)
    [] a = "UpdateExt" -> UpdateExt(s, g, cfix)
AaActs == {"AddApp", "UpdateGovTime", "AddAssetInApp", "AddAsset", "AddAssets", "MsgAddAsset", "UpdateAsset", "AddPair", "UpdatePair",
           "AddAssetPair", "AddExt", "UpdateExt"}

(* ------------------------------ fixtures (root states of the bounded models and of the recorded walks) ------------------------------ *)
E0 == [apps |-> <<>>, assets |-> <<>>, pairs |-> <<>>, exts |-> <<>>, ctr |-> [app |-> 0, asset |-> 0, pair |-> 0, ext |-> 0],
       idx |-> [appName |-> {}, appShort |-> {}, assetName |-> {}, assetDenom |-> {}], gov |-> {}, oflag |-> TRUE, fee |-> [u1 |-> 2, mod |-> 0]]
FixAssets == <<[name |-> "XTOK", denom |-> "uxtok", dec |-> 1, on |-> TRUE, orc |-> FALSE, cdp |-> FALSE],
               [name |-> "YTOK", denom |-> "uytok", dec |-> 1, on |-> TRUE, orc |-> FALSE, cdp |-> FALSE],
               [name |-> "MTOK", denom |-> "umtok", dec |-> 10, on |-> TRUE, orc |-> FALSE, cdp |-> TRUE],
               [name |-> "OTOK", denom |-> "uotok", dec |-> 1, on |-> FALSE, orc |-> FALSE, cdp |-> FALSE]>>
FixApps == <<[name |-> "alpha", short |-> "alp", mgd |-> 0, gts |-> 0, gt |-> <<>>], [name |-> "beta", short |-> "bet", mgd |-> 5, gts |-> 10, gt |-> <<>>]>>
RECURSIVE Fold(_, _, _)
Fold(s, a, l) == IF l = <<>> THEN s ELSE Fold(Apply(s, a, Head(l), FALSE).st, a, Tail(l))
St0(profile) ==
  CASE profile = "assets" -> E0
    [] profile = "apps" -> Fold(E0, "AddAsset", FixAssets)
    [] profile = "drive0" -> E0
    [] profile \in {"ext", "drive"} -> Fold(Fold(Fold(E0, "AddAsset", FixAssets), "AddApp", FixApps), "AddPair", <<[in |-> 1, out |-> 3], [in |-> 1, out |-> 4]>>)


(* ============================================================================================================ *)
(* LAWS over one step (pre-state p, post-state q, action a, arguments g, result ok), stated independently of the  *)
(* operators above.  State laws are in preservation form (holds before => holds after) so that every step is      *)
(* judged on its own; the root is checked in state form.                                                          *)
(* ============================================================================================================ *)
Ids(q) == {q[i].id : i \in 1..Len(q)}
Distinct(q, f(_)) == \A i, j \in 1..Len(q) : i # j => f(q[i]) # f(q[j])
Kinds == {"app", "asset", "pair", "ext"}
Recs(s, k) == CASE k = "app" -> s.apps [] k = "asset" -> s.assets [] k = "pair" -> s.pairs [] k = "ext" -> s.exts
(* how many records of kind k a successful request creates *)
Creates(a, g, k) ==
  CASE a = "AddApp" -> IF k = "app" THEN 1 ELSE 0
    [] a \in {"AddAsset", "MsgAddAsset"} -> IF k = "asset" THEN 1 ELSE 0
    [] a = "AddAssets" -> IF k = "asset" THEN Len(g.list) ELSE 0
    [] a = "AddPair" -> IF k = "pair" THEN 1 ELSE 0
    [] a = "AddAssetPair" -> IF k \in {"asset", "pair"} THEN 1 ELSE 0
    [] a = "AddExt" -> IF k = "ext" THEN 1 ELSE 0
    [] OTHER -> 0

(* A1 ids: records are never removed, ids are pairwise distinct, at most the counter, strictly increasing and never *)
(*    reused: a successful request that creates n records of a kind gives them the ids counter+1 .. counter+n       *)
L_IdsFresh(p, q, a, g, ok) ==
  \A k \in Kinds :
    LET n == IF ok THEN Creates(a, g, k) ELSE 0 IN
    /\ q.ctr[k] = p.ctr[k] + n
    /\ Ids(Recs(q, k)) = Ids(Recs(p, k)) \cup (p.ctr[k] + 1 .. p.ctr[k] + n)
    /\ Len(Recs(q, k)) = Len(Recs(p, k)) + n
IdsOk(s) == \A k \in Kinds : Distinct(Recs(s, k), LAMBDA r : r.id) /\ \A id \in Ids(Recs(s, k)) : id >= 1 /\ id <= s.ctr[k]
(* A2 apps: names and short names are unique, lower-case letters, at most 10 / 6 characters *)
AppsOk(s) == /\ Distinct(s.apps, LAMBDA r : r.name) /\ Distinct(s.apps, LAMBDA r : r.short)
             /\ \A r \in Range(s.apps) : AppLower(r.name) /\ AppLen(r.name) <= 10 /\ AppLower(r.short) /\ AppLen(r.short) <= 6
(* A3 assets: names and denominations are unique, names are capital letters (at most 10), decimals > 0, denominations   *)
(*    valid, an off-chain asset is never CDP-mintable *)
AssetsOk(s) == /\ Distinct(s.assets, LAMBDA r : r.name) /\ Distinct(s.assets, LAMBDA r : r.denom)
               /\ \A r \in Range(s.assets) : AssetUpper(r.name) /\ AssetLen(r.name) <= 10 /\ r.dec > 0 /\ DenomValid(r.denom) /\ (r.cdp => r.on)
(* A4 pairs: two different existing assets; no (in, out) twice, no pair together with its reverse *)
PairsOk(s) == /\ \A r \in Range(s.pairs) : r.in # r.out /\ HasAsset(s, r.in) /\ HasAsset(s, r.out)
              /\ \A i, j \in 1..Len(s.pairs) : i # j => ~(s.pairs[i].in = s.pairs[j].in /\ s.pairs[i].out = s.pairs[j].out)
                                                        /\ ~(s.pairs[i].in = s.pairs[j].out /\ s.pairs[i].out = s.pairs[j].in)
(* A5 the secondary indexes list exactly the records *)
IndexOk(s) == /\ s.idx.appName = {[k |-> r.name, id |-> r.id] : r \in Range(s.apps)}
              /\ s.idx.appShort = {[k |-> r.short, id |-> r.id] : r \in Range(s.apps)}
              /\ s.idx.assetName = {[k |-> r.name, id |-> r.id] : r \in Range(s.assets)}
              /\ s.idx.assetDenom = {[k |-> r.denom, id |-> r.id] : r \in Range(s.assets)}
(* A6 extended pair vaults: existing app and pair, the pair's debt asset is on-chain and CDP-mintable, fees in [0, 1), *)
(*    debt floor < debt ceiling, (app, name) unique, name format *)
ExtOk(s, r) == /\ Idx(s.apps, r.app) # 0 /\ Idx(s.pairs, r.pair) # 0
               /\ LET pr == s.pairs[Idx(s.pairs, r.pair)]  oi == Idx(s.assets, pr.out) IN oi # 0 /\ s.assets[oi].cdp /\ s.assets[oi].on
               /\ FeeOk(r.sf) /\ FeeOk(r.cf) /\ FeeOk(r.ddf) /\ r.floor < r.ceil /\ PairNameFmt(r.name)
ExtsOk(s) == /\ \A r \in Range(s.exts) : ExtOk(s, r)
             /\ \A i, j \in 1..Len(s.exts) : i # j => ~(s.exts[i].app = s.exts[j].app /\ s.exts[i].name = s.exts[j].name)
(* A7 app governance settings: deposit >= 0, no deposit without a governance period, a governance token needs a deposit; *)
(*    the governance index names a governance token of the app's own list *)
GovToks(r) == {r.gt[j].asset : j \in {x \in 1..Len(r.gt) : r.gt[x].gov}}
AppGovOk(s) == \A r \in Range(s.apps) : r.mgd >= 0 /\ (r.gts = 0 => r.mgd = 0) /\ (GovOfApp(s, r.id) # 0 => r.mgd > 0 /\ GovOfApp(s, r.id) \in GovToks(r))
(* A8 genesis-token configuration (AddAssetInApp): every listed asset exists, is on-chain and not CDP-mintable, supply > 0, *)
(*    a valid recipient; an asset is listed at most once over all apps; at most one governance token per app *)
AllToks(s) == UNION {{<<r.id, j>> : j \in 1..Len(r.gt)} : r \in Range(s.apps)}
TokAt(s, x) == s.apps[Idx(s.apps, x[1])].gt[x[2]]
GenCfgOk(s) == /\ \A x \in AllToks(s) : LET t == TokAt(s, x) ai == Idx(s.assets, t.asset) IN
                                         ai # 0 /\ s.assets[ai].on /\ ~s.assets[ai].cdp /\ t.sup > 0 /\ AddrValid(t.rc)
               /\ \A x, y \in AllToks(s) : x # y => TokAt(s, x).asset # TokAt(s, y).asset
               /\ \A r \in Range(s.apps) : Cardinality({j \in 1..Len(r.gt) : r.gt[j].gov}) <= 1
(* an AddAssetInApp appends exactly the requested tokens to the named app and touches no other app *)
L_InAppExact(p, q, a, g, ok) ==
  a = "AddAssetInApp" /\ ok =>
    LET i == Idx(p.apps, g.app) IN
    /\ i # 0 /\ q.apps[i].gt = p.apps[i].gt \o g.toks /\ [q.apps[i] EXCEPT !.gt = <<>>] = [p.apps[i] EXCEPT !.gt = <<>>]
    /\ \A j \in 1..Len(p.apps) : j # i => q.apps[j] = p.apps[j]
    /\ \A e \in q.gov : e \in p.gov \/ (e.app = g.app /\ \E j \in 1..Len(g.toks) : g.toks[j].gov /\ g.toks[j].asset = e.asset)
(* A9 what an update may change.  Asset: name, denomination, decimals, oracle flag - never id, IsOnChain, IsCdpMintable.     *)
(*    Pair: its two assets, never the id - and nothing at all once an extended pair vault is built on it.  Extended pair:  *)
(*    fees, penalty, ratio, activity, ceiling, floor - never id, app, pair, name, stable-mint flag.  App: governance period *)
(*    and deposit only.  Nothing else in the store moves.                                                                    *)
Others(pq, qq, i) == Len(qq) = Len(pq) /\ \A j \in 1..Len(pq) : j # i => qq[j] = pq[j]
L_UpdateKeeps(p, q, a, g, ok) ==
  /\ a = "UpdateAsset" /\ ok =>
       LET i == Idx(p.assets, g.id) IN
       /\ i # 0 /\ Others(p.assets, q.assets, i)
       /\ q.assets[i].id = g.id /\ q.assets[i].on = p.assets[i].on /\ q.assets[i].cdp = p.assets[i].cdp
       /\ q.apps = p.apps /\ q.pairs = p.pairs /\ q.exts = p.exts /\ q.gov = p.gov
  /\ a = "UpdatePair" /\ ok =>
       LET i == Idx(p.pairs, g.id) IN
       /\ i # 0 /\ Others(p.pairs, q.pairs, i) /\ q.pairs[i].id = g.id
       /\ q.apps = p.apps /\ q.assets = p.assets /\ q.exts = p.exts /\ q.gov = p.gov /\ q.idx = p.idx
  /\ a = "UpdateExt" /\ ok =>
       LET i == Idx(p.exts, g.ext) IN
       /\ i # 0 /\ Others(p.exts, q.exts, i)
       /\ \A f \in {"id", "app", "pair", "name", "stable"} : q.exts[i][f] = p.exts[i][f]
       /\ q.apps = p.apps /\ q.assets = p.assets /\ q.pairs = p.pairs /\ q.gov = p.gov /\ q.idx = p.idx
  /\ a = "UpdateGovTime" /\ ok =>
       LET i == Idx(p.apps, g.app) IN
       /\ i # 0 /\ Others(p.apps, q.apps, i)
       /\ [q.apps[i] EXCEPT !.gts = 0, !.mgd = 0] = [p.apps[i] EXCEPT !.gts = 0, !.mgd = 0]
       /\ q.assets = p.assets /\ q.pairs = p.pairs /\ q.exts = p.exts /\ q.gov = p.gov /\ q.idx = p.idx
L_LivePairStable(p, q, a, g, ok) ==
  \A r \in Range(p.pairs) : PairLive(p, r.id) => \E r2 \in Range(q.pairs) : r2 = r
(* A10 an ADD never touches existing records of any kind *)
Prefix(pq, qq) == Len(qq) >= Len(pq) /\ \A j \in 1..Len(pq) : qq[j] = pq[j]
L_AddKeeps(p, q, a, g, ok) ==
  a \in {"AddApp", "AddAsset", "AddAssets", "MsgAddAsset", "AddPair", "AddAssetPair", "AddExt"} =>
    Prefix(p.apps, q.apps) /\ Prefix(p.assets, q.assets) /\ Prefix(p.pairs, q.pairs) /\ Prefix(p.exts, q.exts) /\ q.gov = p.gov
(* A11 the asset registration fee: exactly one unit from the creator to the module per successful MsgAddAsset, nothing otherwise *)
L_Fee(p, q, a, g, ok) ==
  LET d == IF a = "MsgAddAsset" /\ ok THEN 1 ELSE 0 IN q.fee.u1 = p.fee.u1 - d /\ q.fee.mod = p.fee.mod + d
(* A12 adding / updating an oracle-priced asset clears the band-oracle check flag; nothing else touches it *)
L_OracleFlag(p, q, a, g, ok) ==
  LET clears == ok /\ ((a \in {"AddAsset", "MsgAddAsset", "UpdateAsset", "AddAssetPair"} /\ g.orc) \/ (a = "AddAssets" /\ \E i \in 1..Len(g.list) : g.list[i].orc)) IN
  q.oflag = IF clears THEN FALSE ELSE p.oflag
(* A13 a rejected request changes nothing *)
L_RejectedNoChange(p, q, a, g, ok) == ~ok => q = p

Keeps(P(_), p, q) == P(p) => P(q)
LawNames == {"ADM_IdsFresh", "ADM_IdsDistinct", "ADM_AppUnique", "ADM_AssetUnique", "ADM_PairUnique", "ADM_IndexMatches", "ADM_ExtValid", "ADM_AppGovValid",
             "ADM_GenesisCfg", "ADM_InAppExact", "ADM_UpdateKeeps", "ADM_LivePairStable", "ADM_AddKeeps", "ADM_Fee", "ADM_OracleFlag", "ADM_RejectedNoChange"}
Law(f, p, q, a, g, ok) ==
  CASE f = "ADM_IdsFresh" -> L_IdsFresh(p, q, a, g, ok)
    [] f = "ADM_IdsDistinct" -> Keeps(IdsOk, p, q)
    [] f = "ADM_AppUnique" -> Keeps(AppsOk, p, q)
    [] f = "ADM_AssetUnique" -> Keeps(AssetsOk, p, q)
    [] f = "ADM_PairUnique" -> Keeps(PairsOk, p, q)
    [] f = "ADM_IndexMatches" -> Keeps(IndexOk, p, q)
    [] f = "ADM_ExtValid" -> Keeps(ExtsOk, p, q)
    [] f = "ADM_AppGovValid" -> Keeps(AppGovOk, p, q)
    [] f = "ADM_GenesisCfg" -> Keeps(GenCfgOk, p, q)
    [] f = "ADM_InAppExact" -> L_InAppExact(p, q, a, g, ok)
    [] f = "ADM_UpdateKeeps" -> L_UpdateKeeps(p, q, a, g, ok)
    [] f = "ADM_LivePairStable" -> L_LivePairStable(p, q, a, g, ok)
    [] f = "ADM_AddKeeps" -> L_AddKeeps(p, q, a, g, ok)
    [] f = "ADM_Fee" -> L_Fee(p, q, a, g, ok)
    [] f = "ADM_OracleFlag" -> L_OracleFlag(p, q, a, g, ok)
    [] f = "ADM_RejectedNoChange" -> L_RejectedNoChange(p, q, a, g, ok)
Violated(p, q, a, g, ok) == {f \in LawNames : ~Law(f, p, q, a, g, ok)}
StateOk(s) == IdsOk(s) /\ AppsOk(s) /\ AssetsOk(s) /\ PairsOk(s) /\ IndexOk(s) /\ ExtsOk(s) /\ AppGovOk(s) /\ GenCfgOk(s)

(* Named deviations of the code as it is (open known findings, proposed repairs under fixes/):                       *)
(*   DevExtUpdate  WasmUpdatePairsVault accepts fees outside [0, 1) and a debt floor >= the ceiling                  *)
(*   DevGovTime    UpdateGovTimeInApp accepts a negative deposit, a deposit without a governance period, a zero     *)
(*                 deposit for an app that has a governance token                                                   *)
(*   DevLivePair   UpdatePairRecords replaces the assets of a pair that extended pair vaults are built on           *)
(*   DevTwice      AddAssetInAppRecords accepts the same asset twice in one request                                 *)
DevExtUpdate(p, a, g, ok) == a = "UpdateExt" /\ ok /\ (g.floor >= g.ceil \/ ~FeeOk(g.sf) \/ ~FeeOk(g.cf) \/ ~FeeOk(g.ddf))
DevGovTime(p, a, g, ok) == a = "UpdateGovTime" /\ ok /\ (g.mgd < 0 \/ (g.gts = 0 /\ g.mgd # 0) \/ (g.mgd = 0 /\ GovOfApp(p, g.app) # 0))
DevLivePair(p, a, g, ok) == a = "UpdatePair" /\ ok /\ PairLive(p, g.id)
DevTwice(p, a, g, ok) == a = "AddAssetInApp" /\ ok /\ \E i, j \in 1..Len(g.toks) : i # j /\ g.toks[i].asset = g.toks[j].asset
Deviates(p, a, g, ok) == DevExtUpdate(p, a, g, ok) \/ DevGovTime(p, a, g, ok) \/ DevLivePair(p, a, g, ok) \/ DevTwice(p, a, g, ok)
=============================================================================
