SPECIFICATION Spec
CONSTANT LogFile = "log.ndjson"
INVARIANT Judge
POSTCONDITION AllSeen
CHECK_DEADLOCK FALSE
