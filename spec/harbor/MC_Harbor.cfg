SPECIFICATION Spec
CONSTANTS RootFile = "root.ndjson"  Depth = 4
INVARIANTS M_Custody M_Count M_Totals M_Backed M_Floor M_Ceiling M_NonNeg M_V1Held
CONSTRAINT DepthBound
VIEW StView
CHECK_DEADLOCK FALSE
