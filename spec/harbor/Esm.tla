-------------------------------- MODULE Esm --------------------------------
(* Emergency shutdown (x/esm) of the CDP application.                                                          *)
(*   S.esm = [found, status, start, end, snap, vaultRed, stableRed, collTx, shareCalc, deposit, target,         *)
(*            cool = [found, coll, debt]  (dollar totals, Limbs of value*10^18),                                *)
(*            assets : Seq([asset, denom, amt, coll (BOOLEAN), share, worth])   the redemption book:           *)
(*                     coll = FALSE: DEBT REGISTERED FOR EMERGENCY REDEMPTION (amt of the debt asset),           *)
(*                     coll = TRUE : collateral held by the esm account for redemption,                          *)
(*            snaps  : Seq([denom, price, found])   the price snapshot ]                                         *)
(* Life cycle: MsgDepositESM (governance tokens, burnt) until the target is reached; MsgExecuteESM sets the      *)
(* status and the cool-off end; the esm begin blocker takes the price snapshot, and after the cool-off end      *)
(* moves every open vault and stable-mint vault into the redemption book (collateral to the esm account, the      *)
(* principal registered as redeemable debt), burns the collector's net fees of the debt asset against it and       *)
(* computes the shares; MsgCollateralRedemption burns debt coins for collateral. Auctions that run out under     *)
(* shutdown are closed out by V2 TriggerEsm / the V1 restart path.                                               *)
(* This module: the term C02 adds to the backing, the predictive operators of the two shutdown messages, and      *)
(* the monitored (not judged) redemption relations.                                                              *)
EXTENDS Harbor

EsmDebt(S, d) == SumSeq(S.esm.assets, LAMBDA x : IF ~x.coll /\ x.denom = d THEN x.amt ELSE 0)
EsmColl(S, d) == SumSeq(S.esm.assets, LAMBDA x : IF x.coll /\ x.denom = d THEN x.amt ELSE 0)

(* ---- predictive: MsgDepositESM / MsgExecuteESM ---- *)
EFail(S) == [ok |-> FALSE, s |-> S]
EGood(S) == [ok |-> TRUE, s |-> S]
Gov == "uhb"
EsmDeposit(C, S, a) ==
   IF a.x <= 0 \/ S.ubal[a.u][Gov] < a.x THEN EFail(S)
   ELSE IF S.esm.deposit > 0 /\ S.esm.deposit > C.esm.target THEN EFail(S)          \* "deposit for app reached" (strictly above the target)
   ELSE EGood([S EXCEPT !.ubal[a.u][Gov] = @ - a.x, !.supply[Gov] = @ - a.x, !.esm.deposit = @ + a.x])
EsmExecute(C, S, a) ==
   IF S.esm.found \/ S.esm.deposit = 0 \/ S.esm.deposit < C.esm.target THEN EFail(S)
   ELSE EGood([S EXCEPT !.esm.found = TRUE, !.esm.status = TRUE, !.esm.start = S.t, !.esm.end = S.t + C.esm.coolOff, !.ctl.esm = TRUE])
EsmAct(C, S, name, a) == IF name = "EsmDeposit" THEN EsmDeposit(C, S, a) ELSE EsmExecute(C, S, a)
EsmView(S) == [esm |-> [k \in {"found", "status", "start", "end", "snap", "vaultRed", "stableRed", "collTx", "shareCalc", "deposit"} |-> S.esm[k]],
               ctl |-> S.ctl, ubal |-> S.ubal, supply |-> S.supply, vaults |-> S.vaults, bal |-> S.bal]
EsmStepConforms(C, S, name, a, ok, S2) == LET r == EsmAct(C, S, name, a) IN r.ok = ok /\ EsmView(r.s) = EsmView(S2)

(* ---- monitored only (no property of this family demands it): a redemption of x debt coins by u pays, per collateral denom, ---- *)
(* ---- no more than the pro-rata part x / (debt registered) of the collateral held for redemption                          ---- *)
RedeemWithinProRata(S, S2, u, x, d) ==
   (S2.ubal[u][d] - S.ubal[u][d]) * EsmDebt(S, "ust") <= x * EsmColl(S, d)
RedeemPaysNothing(S, S2, u) == \A d \in {"ucm", "uat", "uus"} : S2.ubal[u][d] = S.ubal[u][d]
=============================================================================
