-------------------------------- MODULE Esm --------------------------------
(* Emergency shutdown (x/esm) of the CDP application.                                                          *)
(*   S.esm = [found, status, start, end, snap, vaultRed, stableRed, collTx, shareCalc, deposit, target,         *)
(*            cool = [found, coll, debt]  (dollar totals, Limbs of value*10^18),                                *)
(*            assets : Seq([asset, denom, amt, coll (BOOLEAN), share, worth])   the redemption book:           *)
(*                     coll = FALSE: DEBT REGISTERED FOR EMERGENCY REDEMPTION (amt of the debt asset),           *)
(*                     coll = TRUE : collateral held by the esm account for redemption,                          *)
(*            snaps  : Seq([denom, price, found])   the price snapshot ]                                         *)
(* Life cycle: MsgDepositESM (governance tokens, burnt) until the target is reached; MsgExecuteESM sets the      *)
(* status and the cool-off end; the esm begin blocker takes the price snapshot, and after the cool-off end      *)
(* moves every open vault and stable-mint vault into the redemption book (collateral to the esm account, the      *)
(* principal registered as redeemable debt), burns the collector's net fees of the debt asset against it and       *)
(* computes the shares; MsgCollateralRedemption burns debt coins for collateral. Auctions that run out under     *)
(* shutdown are closed out by V2 TriggerEsm / the V1 restart path.                                               *)
(* This module: the term C02 adds to the backing, the predictive operators of the two shutdown messages, and      *)
(* the monitored (not judged) redemption relations.                                                              *)
EXTENDS Harbor

EsmDebt(S, d) == SumSeq(S.esm.assets, LAMBDA x : IF ~x.coll /\ x.denom = d THEN x.amt ELSE 0)
EsmColl(S, d) == SumSeq(S.esm.assets, LAMBDA x : IF x.coll /\ x.denom = d THEN x.amt ELSE 0)

(* ---- predictive: MsgDepositESM / MsgExecuteESM ---- *)
EFail(S) == [ok |-> FALSE, s |-> S]
EGood(S) == [ok |-> TRUE, s |-> S]
Gov == "uhb"
EsmDeposit(C, S, a) ==
   IF a.x <= 0 \/ S.ubal[a.u][Gov] < a.x THEN EFail(S)
   ELSE IF S.esm.deposit > 0 /\ S.esm.deposit > C.esm.target THEN EFail(S)          \* "deposit for app reached" (strictly above the target)
   ELSE EGood([S EXCEPT !.ubal[a.u][Gov] = @ - a.x, !.supply[Gov] = @ - a.x, !.esm.deposit = @ + a.x])
EsmExecute(C, S, a) ==
   IF S.esm.found \/ S.esm.deposit = 0 \/ S.esm.deposit < C.esm.target THEN EFail(S)
   ELSE EGood([S EXCEPT !.esm.found = TRUE, !.esm.status = TRUE, !.esm.start = S.t, !.esm.end = S.t + C.esm.coolOff, !.ctl.esm = TRUE])
EsmAct(C, S, name, a) == IF name = "EsmDeposit" THEN EsmDeposit(C, S, a) ELSE EsmExecute(C, S, a)
EsmView(S) == [esm |-> [k \in {"found", "status", "start", "end", "snap", "vaultRed", "stableRed", "collTx", "shareCalc", "deposit"} |-> S.esm[k]],
               ctl |-> S.ctl, ubal |-> S.ubal, supply |-> S.supply, vaults |-> S.vaults, bal |-> S.bal]
EsmStepConforms(C, S, name, a, ok, S2) == LET r == EsmAct(C, S, name, a) IN r.ok = ok /\ EsmView(r.s) = EsmView(S2)

(* ============================ laws of the shutdown life cycle (XESM_*, beyond the listed properties) ============================ *)
(* stage flags only ever go up, and in the order the begin blocker takes them *)
StageFlags == <<"found", "status", "snap", "vaultRed", "stableRed", "collTx", "shareCalc">>
StagesMonotone(S, S2) == \A k \in 1..Len(StageFlags) : S.esm[StageFlags[k]] => S2.esm[StageFlags[k]]
StagesOrdered(S) == /\ (S.esm.status => S.esm.found) /\ (S.esm.snap => S.esm.status)
                    /\ (S.esm.vaultRed \/ S.esm.stableRed \/ S.esm.collTx => S.esm.snap)
                    /\ (S.esm.shareCalc => S.esm.vaultRed /\ S.esm.stableRed /\ S.esm.collTx)
(* the price snapshot is taken once *)
SnapshotFixed(S, S2) == S.esm.snap => S2.esm.snaps = S.esm.snaps
(* the cool-off window is fixed at execution *)
WindowFixed(S, S2) == S.esm.found => S2.esm.start = S.esm.start /\ S2.esm.end = S.esm.end
(* the esm account holds, per collateral denom, exactly what the book lists for redemption (delta form; unsolicited coins aside) *)
EsmHeld(S, d) == S.bal["esmV1"][d]
BookBacked(S, S2, d) == EsmHeld(S2, d) - EsmHeld(S, d) = EsmColl(S2, d) - EsmColl(S, d)
(* the vault stage: every vault that was open leaves, all its collateral goes to the esm account and into the book *)
VaultStageExact(C, S, S2) ==
   /\ \A v \in Range(S.vaults) : ~HasVault(S2, v.id)
   /\ \A d \in {"ucm", "uat"} : EsmColl(S2, d) - EsmColl(S, d) >= SumSeq(S.vaults, LAMBDA v : IF ProdOf(C, v.prod).collD = d THEN v.in ELSE 0)
(* once the vault stage is done no vault may be (re-)opened: nothing would ever move it into the redemption book, and its owner can no longer withdraw *)
NoVaultAfterStage(S, S2) == S2.esm.vaultRed => \A v \in Range(S2.vaults) : HasVault(S, v.id)
(* a redemption of x debt coins burns exactly x and strikes exactly x off the registered debt *)
RedeemBurns(S, S2, u, x) ==
   /\ S2.supply["ust"] = S.supply["ust"] - x /\ S2.ubal[u]["ust"] = S.ubal[u]["ust"] - x
   /\ EsmDebt(S2, "ust") = EsmDebt(S, "ust") - x
(* what the redeemer receives is what leaves the esm account and the book, nobody else is paid *)
RedeemPaysFromBook(S, S2, u, d) ==
   /\ S2.ubal[u][d] - S.ubal[u][d] = EsmHeld(S, d) - EsmHeld(S2, d)
   /\ S2.ubal[u][d] >= S.ubal[u][d]
   /\ \A w \in DOMAIN S.ubal : w # u => S2.ubal[w] = S.ubal[w]

(* ---- a redemption of x debt coins by u pays, per collateral denom, ---- *)
(* ---- no more than the pro-rata part x / (debt registered) of the collateral held for redemption                          ---- *)
RedeemWithinProRata(S, S2, u, x, d) ==
   (S2.ubal[u][d] - S.ubal[u][d]) * EsmDebt(S, "ust") <= x * EsmColl(S, d)
RedeemPaysNothing(S, S2, u) == \A d \in {"ucm", "uat", "uus"} : S2.ubal[u][d] = S.ubal[u][d]
=============================================================================
