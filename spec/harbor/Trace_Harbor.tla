----------------------------- MODULE Trace_Harbor -----------------------------
(* Executions of the REAL comdex code recorded by `vh harbor` (seeded drivers, bounded exploration, model   *)
(* behaviours), judged by TLC: every log node is one TLC state; C01/C02/C03/C09/C10 formulas are evaluated *)
(* on the recorded (pre-state, step, post-state) triples; Conf_* compare the step with the specification's *)
(* action operators (VaultSpec.tla).                                                                        *)
EXTENDS Harbor, VaultSpec, DutchV1, Esm, Sweep, TLC, Json
CONSTANT LogFile
Log == ndJsonDeserialize(LogFile)
NLog == Len(Log)
VARIABLE cur
Init == cur \in 1..NLog
Next == UNCHANGED cur
Spec == Init /\ [][Next]_cur

Nd(i) == Log[i]
IsRoot(nd) == nd.parent = 0
Cfg(nd) == Log[nd.st.root].st.cfg
Post(nd) == nd.st.s
Pre(nd) == IF IsRoot(nd) THEN nd.st.s ELSE Log[nd.parent].st.s
Ok(nd) == nd.res.ok
U(nd) == nd.args.u

Debt == "ust"
CollDenoms == {"ucm", "uat", "uus"}
VaultOps == {"Create", "Deposit", "Withdraw", "Draw", "Repay", "Close", "DepositDraw", "SCreate", "SDeposit", "SWithdraw", "InterestCalc"}
RiskOps == {"Create", "Draw", "Withdraw", "DepositDraw"}
MintOps == {"Create", "Draw", "DepositDraw", "SCreate", "SDeposit"}
BurnOps == {"Repay", "Close", "SWithdraw"}

(* ghost: principal of a vault awaiting auction = its recorded principal in the state just before it was seized *)
RECURSIVE PrincipalOf(_, _, _)
PrincipalOf(i, lvid, orig) ==
  LET nd == Nd(i) IN
  IF IsRoot(nd) THEN 0
  ELSE IF lvid \notin LockedIds(Pre(nd))
       THEN (IF HasVault(Pre(nd), orig) THEN VaultById(Pre(nd), orig).out ELSE 0)
       ELSE PrincipalOf(nd.parent, lvid, orig)
AwaitingPrincipal(i, S, pid) ==
  SumSeq(S.locked, LAMBDA l : IF l.initiator = "vault" /\ (pid = 0 \/ l.prod = pid) THEN PrincipalOf(i, l.id, l.orig) ELSE 0)
(* awaiting principal of the PRE state of node i (ghost looked up from the parent) *)
AwaitingPrincipalPre(i, pid) == IF IsRoot(Nd(i)) THEN 0 ELSE AwaitingPrincipal(Nd(i).parent, Pre(Nd(i)), pid)

(* ------------------------------------ C01 ------------------------------------ *)
C01Custody(nd) == \A d \in CollDenoms :
   IF IsRoot(nd) THEN Post(nd).bal.vaultV1[d] = RecordedColl(Cfg(nd), Post(nd), d)
   ELSE Post(nd).bal.vaultV1[d] - Pre(nd).bal.vaultV1[d] = RecordedColl(Cfg(nd), Post(nd), d) - RecordedColl(Cfg(nd), Pre(nd), d)
C01Count(nd) ==
   IF IsRoot(nd) THEN Post(nd).vcount = Len(Post(nd).vaults)
   ELSE Post(nd).vcount - Pre(nd).vcount = Len(Post(nd).vaults) - Len(Pre(nd).vaults)
C01TotalsColl(i) == LET nd == Nd(i) C == Cfg(nd) IN \A p \in Range(C.prods) :
   LET T(S) == OpenColl(S, p.id) + AwaitingColl(S, p.id) + V1AwaitingColl(S, p.id) IN
   IF IsRoot(nd) THEN TotOf(Post(nd), p.id).coll = T(Post(nd))
   ELSE TotOf(Post(nd), p.id).coll - TotOf(Pre(nd), p.id).coll = T(Post(nd)) - T(Pre(nd))
AwaitingDebt(S, pid) == SumSeq(S.locked, LAMBDA l : IF l.prod = pid /\ l.initiator = "vault" THEN l.debt ELSE 0)
(* a vault awaiting auction settlement counts with the debt handed to the auction (principal, interest, closing fee) *)
C01TotalsMinted(i) == LET nd == Nd(i) C == Cfg(nd) IN \A p \in Range(C.prods) :
   LET T(S) == OpenMinted(S, p.id) + AwaitingDebt(S, p.id) + V1AwaitingMinted(S, p.id) IN
   IF IsRoot(nd) THEN TotOf(Post(nd), p.id).minted = T(Post(nd))
   ELSE TotOf(Post(nd), p.id).minted - TotOf(Pre(nd), p.id).minted = T(Post(nd)) - T(Pre(nd))
(* published id list = ids of the open vaults of the product; step form: a step must not create (or change) a discrepancy *)
IdsOff(S, pid) == <<Range(TotOf(S, pid).ids) \ OpenIds(S, pid), OpenIds(S, pid) \ Range(TotOf(S, pid).ids)>>
C01TotalsIds(nd) == \A p \in Range(Cfg(nd).prods) :
   IF IsRoot(nd) THEN IdsOff(Post(nd), p.id) = <<{}, {}>> ELSE IdsOff(Post(nd), p.id) = IdsOff(Pre(nd), p.id)

(* ------------------------------------ C02 ------------------------------------ *)
(* recorded principal: open vaults, stable-mint vaults, vaults awaiting auction (V2: ghost, the record keeps the whole debt; V1: LockedVault.AmountOut), *)
(* and the debt registered for emergency redemption (x/esm's redemption book)                                                                              *)
P2(i, S) == AllPrincipal(S) + AwaitingPrincipal(i, S, 0) + V1AwaitingPrincipal(S) + EsmDebt(S, Debt)
P2Pre(i) == AllPrincipal(Pre(Nd(i))) + AwaitingPrincipalPre(i, 0) + V1AwaitingPrincipal(Pre(Nd(i))) + EsmDebt(Pre(Nd(i)), Debt)
DSupply(nd) == Post(nd).supply[Debt] - Pre(nd).supply[Debt]
C02Backed(i) == LET nd == Nd(i) IN
   IF IsRoot(nd) THEN Post(nd).supply[Debt] - Post(nd).fixtureMint <= P2(i, Post(nd))
   ELSE DSupply(nd) <= P2(i, Post(nd)) - P2Pre(i)
C02ExactNoLiq(i) == LET nd == Nd(i) IN
   ~IsRoot(nd) /\ LockedIds(Pre(nd)) \subseteq LockedIds(Post(nd)) /\ V1LockedIds(Pre(nd)) \subseteq V1LockedIds(Post(nd)) => DSupply(nd) = P2(i, Post(nd)) - P2Pre(i)
C02MintDelivery(i) == LET nd == Nd(i) IN
   nd.a \in MintOps /\ Ok(nd) /\ HasProd(Cfg(nd), nd.args.p) =>
     LET m == DSupply(nd)
         p == ProdOf(Cfg(nd), nd.args.p)
         fee == FloorMul(m, p.drawFee)
     IN /\ m = P2(i, Post(nd)) - P2Pre(i)
        /\ Post(nd).ubal[U(nd)][Debt] - Pre(nd).ubal[U(nd)][Debt] = m - fee
        /\ Post(nd).bal.collectorV1[Debt] - Pre(nd).bal.collectorV1[Debt] = fee
C02BurnExact(i) == LET nd == Nd(i) IN
   nd.a \in BurnOps /\ Ok(nd) => -DSupply(nd) = P2Pre(i) - P2(i, Post(nd))
C02NoMintElsewhere(nd) ==
   ~IsRoot(nd) /\ nd.a \notin MintOps => DSupply(nd) <= 0
C02FeesNotMinted(nd) == nd.a \in {"InterestCalc", "Deposit", "Withdraw"} => DSupply(nd) = 0

(* ------------------------------------ C03 ------------------------------------ *)
C03MinRatio(nd) ==
   nd.a \in RiskOps /\ Ok(nd) /\ ~Pre(nd).ctl.esm /\ HasProd(Cfg(nd), nd.args.p) =>
     LET C == Cfg(nd) p == ProdOf(C, nd.args.p) S == Post(nd) IN
     HasVaultOf(S, U(nd), p.id) /\
     LET v == VaultOf(S, U(nd), p.id)
         debt == IF nd.a = "Create" THEN v.out ELSE TotalDebt(v)
     IN CRAtLeast(C, S, p, v.in, debt, p.minCr.num, p.minCr.den)
(* step form: judged on the step that sets a vault's principal (new vault, or principal changed), so that one vault left below the floor is one *)
(* failing node. Floor and ceiling are "never" clauses of the statement: they are judged under emergency shutdown too (only the ratio requirement is *)
(* scoped "outside emergency shutdown").                                                                                                            *)
PrincipalSet(nd) == {v \in Range(Post(nd).vaults) : IsRoot(nd) \/ ~HasVault(Pre(nd), v.id) \/ VaultById(Pre(nd), v.id).out # v.out}
C03Floor(nd) == \A v \in PrincipalSet(nd) : v.out >= ProdOf(Cfg(nd), v.prod).floor
(* step form: a step that raises the principal outstanding across a product must leave it within the ceiling *)
C03Ceiling(nd) == \A p \in Range(Cfg(nd).prods) :
   IsRoot(nd) \/ OpenMinted(Post(nd), p.id) > OpenMinted(Pre(nd), p.id) => OpenMinted(Post(nd), p.id) <= p.ceiling
C03InactivePrice(nd) ==
   nd.a \in RiskOps /\ HasProd(Cfg(nd), nd.args.p) /\ ~PricesActive(Cfg(nd), Pre(nd), ProdOf(Cfg(nd), nd.args.p)) /\ ~ProdOf(Cfg(nd), nd.args.p).stable
      => ~Ok(nd)

(* ------------------------------------ C09 ------------------------------------ *)
Seized(nd) == {l \in Range(Post(nd).locked) : l.id \notin LockedIds(Pre(nd)) /\ l.initiator = "vault"}
C09OnlyUnsafe(nd) == ~IsRoot(nd) =>
   /\ \A l \in Seized(nd) :
        HasVault(Pre(nd), l.orig) /\ Unsafe(Cfg(nd), Pre(nd), VaultById(Pre(nd), l.orig))
                                     /\ Enabled(Cfg(nd), Pre(nd), VaultById(Pre(nd), l.orig))
   /\ V1OnlyUnsafe(Cfg(nd), Pre(nd), Post(nd))            \* first generation: MsgLiquidateVault and the V1 sweep
C09SeizeExact(nd) == ~IsRoot(nd) => \A l \in Seized(nd) :
   HasVault(Pre(nd), l.orig) /\ ~HasVault(Post(nd), l.orig) /\
   LET v == VaultById(Pre(nd), l.orig) IN
     /\ l.coll = v.in
     /\ Cardinality({a \in Range(Post(nd).auctions) : a.lv = l.id}) = 1
     /\ \A a \in Range(Post(nd).auctions) : a.lv = l.id => a.collLeft = v.in /\ a.debtLeft = l.target
C09SeizeExactV1(nd) == ~IsRoot(nd) => V1SeizeExact(Cfg(nd), Pre(nd), Post(nd))
NewLocked(nd) == {l \in Range(Post(nd).locked) : l.id \notin LockedIds(Pre(nd))}
C09CustodyMoves(nd) == ~IsRoot(nd) /\ AuctionIds(Pre(nd)) \subseteq AuctionIds(Post(nd)) /\ nd.a # "Bid" =>
   \A d \in CollDenoms :
      Post(nd).bal.auctionsV2[d] - Pre(nd).bal.auctionsV2[d]
        = SumSeq(Post(nd).locked, LAMBDA l : IF l \in NewLocked(nd) /\ l.collD = d THEN l.coll ELSE 0)

C09CustodyMovesV1(nd) == ~IsRoot(nd) /\ V1AuctionIds(Pre(nd)) \subseteq V1AuctionIds(Post(nd)) /\ nd.a # "V1Bid" =>
   \A d \in CollDenoms : V1CustodyMoves(Cfg(nd), Pre(nd), Post(nd), d)

(* bounded-response ghost: consecutive blocks during which vault vid stayed open, unsafe and enabled *)
StillBad(C, S, vid) == HasVault(S, vid) /\ Unsafe(C, S, VaultById(S, vid)) /\ EnabledV2(C, S, VaultById(S, vid))
StillBadV1(C, S, vid) == HasVault(S, vid) /\ Unsafe(C, S, VaultById(S, vid)) /\ Enabled(C, S, VaultById(S, vid))
RECURSIVE BadBlocks(_, _)
BadBlocks(i, vid) ==
  LET nd == Nd(i) IN
  IF IsRoot(nd) \/ ~StillBad(Cfg(nd), Post(nd), vid) \/ ~StillBad(Cfg(nd), Pre(nd), vid) THEN 0
  ELSE (IF nd.a = "Block" THEN 1 ELSE 0) + BadBlocks(nd.parent, vid)
RECURSIVE MaxLen(_, _)
MaxLen(i, vid) ==
  LET nd == Nd(i) IN
  IF IsRoot(nd) \/ ~StillBad(Cfg(nd), Pre(nd), vid) THEN Len(Post(nd).vaults)
  ELSE Max2(Len(Post(nd).vaults), MaxLen(nd.parent, vid))
C09Live(i) == LET nd == Nd(i) IN
  nd.a = "Block" => \A v \in Range(Post(nd).vaults) :
     BadBlocks(i, v.id) <= 2 * CeilDiv(MaxLen(i, v.id), Cfg(nd).batch)

(* the same bounded response for the first-generation sweep, whose "blocks" are the runs of x/liquidation's begin blocker (V1Sweep) *)
RECURSIVE BadSweepsV1(_, _)
BadSweepsV1(i, vid) ==
  LET nd == Nd(i) IN
  IF IsRoot(nd) \/ ~StillBadV1(Cfg(nd), Post(nd), vid) \/ ~StillBadV1(Cfg(nd), Pre(nd), vid) THEN 0
  ELSE (IF nd.a = "V1Sweep" /\ Ok(nd) THEN 1 ELSE 0) + BadSweepsV1(nd.parent, vid)
RECURSIVE MaxLenV1(_, _)
MaxLenV1(i, vid) ==
  LET nd == Nd(i) IN
  IF IsRoot(nd) \/ ~StillBadV1(Cfg(nd), Pre(nd), vid) THEN Len(Post(nd).vaults)
  ELSE Max2(Len(Post(nd).vaults), MaxLenV1(nd.parent, vid))
C09LiveV1(i) == LET nd == Nd(i) IN
  nd.a = "V1Sweep" => \A v \in Range(Post(nd).vaults) :
     BadSweepsV1(i, v.id) <= 2 * CeilDiv(MaxLenV1(i, v.id), Cfg(nd).v1.batch)

(* ------------------------------------ C10 ------------------------------------ *)
BidOk(nd) == nd.a = "Bid" /\ Ok(nd) /\ nd.args.v \in AuctionIds(Pre(nd))
BidAuction(nd) == AuctionById(Pre(nd), nd.args.v)
BidLocked(nd) == LockedById(Pre(nd), BidAuction(nd).lv)
Paid(nd) == Pre(nd).ubal[U(nd)][BidAuction(nd).debtD] - Post(nd).ubal[U(nd)][BidAuction(nd).debtD]
Received(nd) == Post(nd).ubal[U(nd)][BidAuction(nd).collD] - Pre(nd).ubal[U(nd)][BidAuction(nd).collD]
OwnBid(nd) == BidLocked(nd).owner = U(nd) \/ (BidLocked(nd).ikeeper /\ BidLocked(nd).keeper = U(nd)) \/ BidLocked(nd).ext = U(nd)
(* first generation: the bid names the collateral amount wanted (args.x of denom args.d); args.v = V1 auction id *)
BidOkV1(nd) == nd.a = "V1Bid" /\ Ok(nd) /\ nd.args.v \in V1AuctionIds(Pre(nd))
BidAuctionV1(nd) == V1AuctionById(Pre(nd), nd.args.v)
OwnBidV1(nd) == BidAuctionV1(nd).owner = U(nd)
ClosingV1(nd) == BidOkV1(nd) /\ V1Closed(Pre(nd), Post(nd), BidAuctionV1(nd))
C10PaidWithinTarget(nd) ==
   /\ BidOk(nd) /\ BidAuction(nd).dutch /\ ~OwnBid(nd) => Paid(nd) >= 0 /\ Paid(nd) <= BidAuction(nd).debtLeft
   /\ BidOkV1(nd) => V1PaidWithinTarget(Pre(nd), Post(nd), U(nd), BidAuctionV1(nd))
C10ReceivedWithinSeized(nd) ==
   /\ BidOk(nd) /\ BidAuction(nd).dutch /\ ~OwnBid(nd) => Received(nd) >= 0 /\ Received(nd) <= BidAuction(nd).collLeft
   /\ BidOkV1(nd) /\ ~OwnBidV1(nd) => V1ReceivedWithinSeized(Pre(nd), Post(nd), U(nd), BidAuctionV1(nd))
C10PostedPriceV1(nd) == BidOkV1(nd) /\ ~OwnBidV1(nd) => V1PostedPrice(Cfg(nd), Pre(nd), Post(nd), U(nd), BidAuctionV1(nd))
C10BidBookedV1(nd) == BidOkV1(nd) /\ ~OwnBidV1(nd) => V1BidBooked(Pre(nd), Post(nd), U(nd), BidAuctionV1(nd))
C10PostedPrice(nd) == BidOk(nd) /\ BidAuction(nd).dutch /\ ~OwnBid(nd) /\ Received(nd) > 1 =>
   LET a == BidAuction(nd) C == Cfg(nd)
       pDebt == IF BidLocked(nd).cmst THEN 1000000 ELSE PriceRec(Pre(nd), a.debtD).twa
       lhs == LMulSmall(LMulSmall(a.price, Received(nd) - 1), DecOf(C, a.debtD))
       rhs == LMulBig(LMulSmall(LMulSmall(E18, Paid(nd) + 1 + a.bonusLeft), DecOf(C, a.collD)), pDebt)   \* one unit of rounding on either coin
   IN LLe(lhs, rhs)
C10PriceFalls(nd) ==
   /\ nd.a = "Block" => \A a \in Range(Post(nd).auctions) :
        a.dutch /\ a.id \in AuctionIds(Pre(nd)) /\ AuctionById(Pre(nd), a.id).start = a.start => LLe(a.price, AuctionById(Pre(nd), a.id).price)
   /\ ~IsRoot(nd) => V1PriceFalls(Pre(nd), Post(nd))
C10PriceInBand(nd) == \A a \in Range(Post(nd).auctions) : a.dutch =>
   /\ LLe(a.price, a.init)
   /\ LLe(LMulSmall(a.init, Cfg(nd).discount.num), LMulSmall(a.price, Cfg(nd).discount.den))
(* step form: judged on the step that posts the price (new auction, price update, restart), so that one bad price is one failing node *)
V1Posted(nd) == {a \in Range(Post(nd).auctionsV1) : IsRoot(nd) \/ a.id \notin V1AuctionIds(Pre(nd)) \/ ~LEq(a.price, V1AuctionById(Pre(nd), a.id).price)}
C10PriceNotAboveStartV1(nd) == \A a \in V1Posted(nd) : LLe(a.price, a.init)
C10PriceNotBelowEndV1(nd) == \A a \in V1Posted(nd) : LLe(a.endp, a.price)
(* independent weaker floor that stays armed while KF-C10-V1-1 is open: never below what whole-second truncation of the time-to-zero-price explains *)
C10PriceFloorV1(nd) == \A a \in V1Posted(nd) : V1PriceFloor(Cfg(nd), a)
C10StartPriceV1(nd) == ~IsRoot(nd) => V1StartPrice(Cfg(nd), Pre(nd), Post(nd))
C10StartPrice(nd) == \A a \in Range(Post(nd).auctions) :
   a.dutch /\ (a.id \notin AuctionIds(Pre(nd)) \/ AuctionById(Pre(nd), a.id).start # a.start) =>
      LET twa == PriceRec(Post(nd), a.collD).twa IN
      LEq(LMulSmall(a.init, Cfg(nd).premium.den), LMulSmall(LMulSmall(E18, twa), Cfg(nd).premium.num)) /\ LEq(a.price, a.init)
C10CustodyColl(nd) == \A d \in CollDenoms :
   IF IsRoot(nd) THEN Post(nd).bal.auctionsV2[d] = AuctionColl(Post(nd), d)
   ELSE Post(nd).bal.auctionsV2[d] - Pre(nd).bal.auctionsV2[d] = AuctionColl(Post(nd), d) - AuctionColl(Pre(nd), d)
(* debt coins in auction custody = what live auctions have collected so far + penalties booked as auction-module fees *)
DebtHeld(S) == AuctionDebtHeld(S, Debt) + S.aucfees.external + S.aucfees.limit
C10CustodyDebt(nd) ==
   IF IsRoot(nd) THEN Post(nd).bal.auctionsV2[Debt] = DebtHeld(Post(nd))
   ELSE Post(nd).bal.auctionsV2[Debt] - Pre(nd).bal.auctionsV2[Debt] = DebtHeld(Post(nd)) - DebtHeld(Pre(nd))
C10CustodyCollV1(nd) == \A d \in CollDenoms :
   IF IsRoot(nd) THEN Post(nd).bal.auctionV1[d] = V1AuctionColl(Post(nd), d) ELSE V1CustodyColl(Pre(nd), Post(nd), d)
C10CustodyDebtV1(nd) ==
   IF IsRoot(nd) THEN Post(nd).bal.auctionV1[Debt] = V1AuctionDebt(Post(nd), Debt) ELSE V1CustodyDebt(Pre(nd), Post(nd), Debt)
Closing(nd) == BidOk(nd) /\ nd.args.v \notin AuctionIds(Post(nd))
C10OwnerGetsRest(nd) ==
   /\ Closing(nd) /\ BidAuction(nd).dutch /\ ~OwnBid(nd) /\ BidLocked(nd).initiator \in {"vault", "external"} /\ BidLocked(nd).owner \notin {"other", "none"} =>
        LET o == BidLocked(nd).owner d == BidAuction(nd).collD IN
        Post(nd).ubal[o][d] - Pre(nd).ubal[o][d] = BidAuction(nd).collLeft - Received(nd)
   /\ ClosingV1(nd) => V1OwnerGetsRest(Pre(nd), Post(nd), U(nd), BidAuctionV1(nd))
(* first generation, close inside the bid: principal burnt (C02), collected minus principal to the collector and booked as net fees *)
C02BurnAtCloseV1(nd) == ClosingV1(nd) => V1BurnAtClose(Pre(nd), Post(nd), BidAuctionV1(nd))
C10PenaltyRoutedV1(nd) == ClosingV1(nd) => V1PenaltyRouted(Cfg(nd), Pre(nd), Post(nd), U(nd), BidAuctionV1(nd))
C10PenaltyRouted(nd) == Closing(nd) /\ BidAuction(nd).dutch /\ BidLocked(nd).initiator = "vault" =>
   LET l == BidLocked(nd)
       inc == IF l.ikeeper THEN FloorMul(l.fee, Cfg(nd).keeperIncentive) ELSE 0
   IN Post(nd).bal.collectorV1[Debt] - Pre(nd).bal.collectorV1[Debt] = l.fee - inc

(* externally initiated auction: the initiator gets the debt (target minus penalty), the penalty (minus keeper incentive) is booked as auction-module fees *)
C10ExternalProceeds(nd) == Closing(nd) /\ BidAuction(nd).dutch /\ BidLocked(nd).initiator = "external" /\ BidLocked(nd).ext \notin {"other", "none", U(nd)} =>
   LET l == BidLocked(nd) IN
   /\ Post(nd).ubal[l.ext][Debt] - Pre(nd).ubal[l.ext][Debt] = l.target - l.fee
   /\ Post(nd).aucfees.external - Pre(nd).aucfees.external <= l.fee
   /\ Post(nd).aucfees.external - Pre(nd).aucfees.external >= l.fee - FloorMul(l.fee, Cfg(nd).keeperIncentive)

(* ------------------------------------ conformance (Sweep, VaultSpec) ------------------------------------ *)
(* a block's vault sweep is exactly the step of spec/sweep/Sweep.tla: window from (count, offset, batch), the   *)
(* unsafe and enabled vaults inside the window are seized, offset := window end                                  *)
IdSeq(S) == [k \in 1..Len(S.vaults) |-> S.vaults[k].id]
ConfBlock(nd) == nd.a = "Block" /\ Ok(nd) =>
   LET C == Cfg(nd) S == Pre(nd)
       UU == {v.id : v \in {x \in Range(S.vaults) : Unsafe(C, S, x) /\ EnabledV2(C, S, x)}}
       r == SweepStep(IdSeq(S), S.offset, C.batch, UU)
   IN IF S.ctl.esm THEN Seized(nd) = {}       \* under emergency shutdown other hooks of the block re-shape the vault list (redemption, close-outs); the sweep seizes nothing
      ELSE /\ IdSeq(Post(nd)) = r.list
           /\ Post(nd).offset = r.offset
           /\ {l.orig : l \in Seized(nd)} = r.seized

(* the V1 sweep (x/liquidation LiquidateVaults) is the same step of Sweep.tla with its own offset and batch size; it does *)
(* nothing at all - not even advance the offset - while the breaker or emergency shutdown is on                          *)
ConfV1Sweep(nd) == nd.a = "V1Sweep" /\ Ok(nd) =>
   LET C == Cfg(nd) S == Pre(nd)
       UU == {v.id : v \in {x \in Range(S.vaults) : Unsafe(C, S, x) /\ Enabled(C, S, x)}}
       r == SweepStep(IdSeq(S), S.offsetV1, C.v1.batch, UU)
   IN IF S.ctl.breaker \/ S.ctl.esm
      THEN IdSeq(Post(nd)) = IdSeq(S) /\ Post(nd).offsetV1 = S.offsetV1 /\ V1Seized(S, Post(nd)) = {}
      ELSE /\ IdSeq(Post(nd)) = r.list
           /\ Post(nd).offsetV1 = r.offset
           /\ {l.orig : l \in V1Seized(S, Post(nd))} = r.seized
ConfV1Liquidate(nd) == nd.a = "V1Liquidate" /\ ~Cfg(nd).interest /\ ~IsRoot(nd) => V1LiquidateConforms(Cfg(nd), Pre(nd), nd.args, Ok(nd), Post(nd))

ConfV1Bid(nd) == nd.a = "V1Bid" /\ ~IsRoot(nd) /\ (Ok(nd) => nd.args.v \in V1AuctionIds(Pre(nd)) /\ ~OwnBidV1(nd)) => V1BidConforms(Cfg(nd), Pre(nd), nd.args, Ok(nd), Post(nd))
ConfV1Tick(nd) == nd.a = "V1Tick" /\ ~IsRoot(nd) => V1TickConforms(Cfg(nd), Pre(nd), Ok(nd), Post(nd))
(* ------------------------------------ emergency shutdown life cycle (beyond the listed properties: `bin/extra esm`) ------------------------------------ *)
XStages(nd)    == IF IsRoot(nd) THEN StagesOrdered(Post(nd)) ELSE StagesMonotone(Pre(nd), Post(nd)) /\ StagesOrdered(Post(nd))
XSnapshot(nd)  == ~IsRoot(nd) => SnapshotFixed(Pre(nd), Post(nd)) /\ WindowFixed(Pre(nd), Post(nd))
XNoVaultAfter(nd) == ~IsRoot(nd) => NoVaultAfterStage(Pre(nd), Post(nd))
XBookBacked(nd) == \A d \in CollDenoms : IF IsRoot(nd) THEN EsmHeld(Post(nd), d) >= EsmColl(Post(nd), d) ELSE BookBacked(Pre(nd), Post(nd), d)
XVaultStage(nd) == ~IsRoot(nd) /\ nd.st.ev.esmVaultRed => VaultStageExact(Cfg(nd), Pre(nd), Post(nd))
XRedeemBurns(nd) == nd.a = "EsmRedeem" /\ Ok(nd) => RedeemBurns(Pre(nd), Post(nd), U(nd), nd.args.x)
XRedeemPays(nd)  == nd.a = "EsmRedeem" /\ Ok(nd) => \A d \in CollDenoms : RedeemPaysFromBook(Pre(nd), Post(nd), U(nd), d)
XRedeemProRata(nd) == nd.a = "EsmRedeem" /\ Ok(nd) => \A d \in CollDenoms : RedeemWithinProRata(Pre(nd), Post(nd), U(nd), nd.args.x, d)
XRedeemAfterShares(nd) == nd.a = "EsmRedeem" /\ Ok(nd) => Pre(nd).esm.shareCalc /\ Pre(nd).t >= Pre(nd).esm.end
XRejected(nd) == nd.a \in {"EsmDeposit", "EsmExecute", "EsmRedeem"} /\ ~Ok(nd) /\ ~IsRoot(nd) => Post(nd) = Pre(nd)

ConfEsm(nd) == nd.a \in {"EsmDeposit", "EsmExecute"} /\ ~IsRoot(nd) => EsmStepConforms(Cfg(nd), Pre(nd), nd.a, nd.args, Ok(nd), Post(nd))
ConfVault(nd) == nd.a \in VaultOps /\ ~Cfg(nd).interest /\ ~IsRoot(nd) => VaultStepConforms(Cfg(nd), Pre(nd), nd.a, nd.args, Ok(nd), Post(nd))

(* ------------------------------------ C13 (collector book, vault/liquidation side) ------------------------------------ *)
(* every step changes the collector's custody of a denom by exactly the change of the recorded net fees of that asset,  *)
(* and net fees never go negative (fees, interest, penalties in; lossy-auction cover out).                               *)
NetFee(S, asset) == SumSeq(S.netfees, LAMBDA n : IF n.asset = asset THEN n.amt ELSE 0)
C13CollectorDelta(nd) == ~IsRoot(nd) => \A d \in {"ucm", "uat", "ust", "uus"} :
   Post(nd).bal.collectorV1[d] - Pre(nd).bal.collectorV1[d] = NetFee(Post(nd), Cfg(nd).assets[d]) - NetFee(Pre(nd), Cfg(nd).assets[d])
C13NetFeesNonNeg(nd) == \A n \in Range(Post(nd).netfees) : n.amt >= 0
C13CollectorBacked(nd) == \A d \in {"ucm", "uat", "ust", "uus"} : Post(nd).bal.collectorV1[d] >= NetFee(Post(nd), Cfg(nd).assets[d])

Formulas == <<"C13_CollectorDelta", "C13_NetFeesNonNeg", "C13_CollectorBacked", "C01_Custody", "C01_Count", "C01_TotalsColl", "C01_TotalsMinted", "C01_TotalsIds",
              "C02_Backed", "C02_ExactNoLiq", "C02_MintDelivery", "C02_BurnExact", "C02_NoMintElsewhere", "C02_FeesNotMinted",
              "C03_MinRatio", "C03_Floor", "C03_Ceiling", "C03_InactivePrice",
              "C09_OnlyUnsafe", "C09_SeizeExact", "C09_CustodyMoves", "C09_Live",
              "C10_PaidWithinTarget", "C10_ReceivedWithinSeized", "C10_PostedPrice", "C10_PriceFalls", "C10_PriceInBand",
              "C10_StartPrice", "C10_CustodyColl", "C10_CustodyDebt", "C10_OwnerGetsRest", "C10_PenaltyRouted", "C10_ExternalProceeds",
              "C02_BurnAtClose_V1", "C09_SeizeExact_V1", "C09_CustodyMoves_V1", "C09_Live_V1",
              "C10_PostedPrice_V1", "C10_BidBooked_V1", "C10_PriceNotAboveStart_V1", "C10_PriceNotBelowEnd_V1", "C10_PriceFloor_V1", "C10_StartPrice_V1", "C10_CustodyColl_V1", "C10_CustodyDebt_V1", "C10_PenaltyRouted_V1",
              "XESM_Stages", "XESM_SnapshotFixed", "XESM_NoVaultAfterStage", "XESM_BookBacked", "XESM_VaultStage", "XESM_RedeemBurns", "XESM_RedeemPaysFromBook",
              "XESM_RedeemWithinProRata", "XESM_RedeemAfterShares", "XESM_RejectedChangesNothing",
              "Conf_Vault", "Conf_Block", "Conf_V1Sweep", "Conf_V1Liquidate", "Conf_V1Bid", "Conf_V1Tick", "Conf_Esm">>
Holds(f, i) ==
  LET nd == Nd(i) IN
  CASE f = "C13_CollectorDelta" -> C13CollectorDelta(nd)
    [] f = "C13_NetFeesNonNeg" -> C13NetFeesNonNeg(nd)
    [] f = "C13_CollectorBacked" -> C13CollectorBacked(nd)
    [] f = "C01_Custody" -> C01Custody(nd)
    [] f = "C01_Count" -> C01Count(nd)
    [] f = "C01_TotalsColl" -> C01TotalsColl(i)
    [] f = "C01_TotalsMinted" -> C01TotalsMinted(i)
    [] f = "C01_TotalsIds" -> C01TotalsIds(nd)
    [] f = "C02_Backed" -> C02Backed(i)
    [] f = "C02_ExactNoLiq" -> C02ExactNoLiq(i)
    [] f = "C02_MintDelivery" -> C02MintDelivery(i)
    [] f = "C02_BurnExact" -> C02BurnExact(i)
    [] f = "C02_NoMintElsewhere" -> C02NoMintElsewhere(nd)
    [] f = "C02_FeesNotMinted" -> C02FeesNotMinted(nd)
    [] f = "C03_MinRatio" -> C03MinRatio(nd)
    [] f = "C03_Floor" -> C03Floor(nd)
    [] f = "C03_Ceiling" -> C03Ceiling(nd)
    [] f = "C03_InactivePrice" -> C03InactivePrice(nd)
    [] f = "C09_OnlyUnsafe" -> C09OnlyUnsafe(nd)
    [] f = "C09_SeizeExact" -> C09SeizeExact(nd)
    [] f = "C09_CustodyMoves" -> C09CustodyMoves(nd)
    [] f = "C09_Live" -> C09Live(i)
    [] f = "C10_PaidWithinTarget" -> C10PaidWithinTarget(nd)
    [] f = "C10_ReceivedWithinSeized" -> C10ReceivedWithinSeized(nd)
    [] f = "C10_PostedPrice" -> C10PostedPrice(nd)
    [] f = "C10_PriceFalls" -> C10PriceFalls(nd)
    [] f = "C10_PriceInBand" -> C10PriceInBand(nd)
    [] f = "C10_StartPrice" -> C10StartPrice(nd)
    [] f = "C10_CustodyColl" -> C10CustodyColl(nd)
    [] f = "C10_CustodyDebt" -> C10CustodyDebt(nd)
    [] f = "C10_OwnerGetsRest" -> C10OwnerGetsRest(nd)
    [] f = "C10_PenaltyRouted" -> C10PenaltyRouted(nd)
    [] f = "C10_ExternalProceeds" -> C10ExternalProceeds(nd)
    [] f = "C02_BurnAtClose_V1" -> C02BurnAtCloseV1(nd)
    [] f = "C09_SeizeExact_V1" -> C09SeizeExactV1(nd)
    [] f = "C09_CustodyMoves_V1" -> C09CustodyMovesV1(nd)
    [] f = "C09_Live_V1" -> C09LiveV1(i)
    [] f = "C10_PostedPrice_V1" -> C10PostedPriceV1(nd)
    [] f = "C10_BidBooked_V1" -> C10BidBookedV1(nd)
    [] f = "C10_PriceNotAboveStart_V1" -> C10PriceNotAboveStartV1(nd)
    [] f = "C10_PriceNotBelowEnd_V1" -> C10PriceNotBelowEndV1(nd)
    [] f = "C10_PriceFloor_V1" -> C10PriceFloorV1(nd)
    [] f = "C10_StartPrice_V1" -> C10StartPriceV1(nd)
    [] f = "C10_CustodyColl_V1" -> C10CustodyCollV1(nd)
    [] f = "C10_CustodyDebt_V1" -> C10CustodyDebtV1(nd)
    [] f = "C10_PenaltyRouted_V1" -> C10PenaltyRoutedV1(nd)
    [] f = "Conf_V1Sweep" -> ConfV1Sweep(nd)
    [] f = "Conf_V1Liquidate" -> ConfV1Liquidate(nd)
    [] f = "Conf_V1Bid" -> ConfV1Bid(nd)
    [] f = "Conf_V1Tick" -> ConfV1Tick(nd)
    [] f = "Conf_Esm" -> ConfEsm(nd)
    [] f = "XESM_Stages" -> XStages(nd)
    [] f = "XESM_SnapshotFixed" -> XSnapshot(nd)
    [] f = "XESM_NoVaultAfterStage" -> XNoVaultAfter(nd)
    [] f = "XESM_BookBacked" -> XBookBacked(nd)
    [] f = "XESM_VaultStage" -> XVaultStage(nd)
    [] f = "XESM_RedeemBurns" -> XRedeemBurns(nd)
    [] f = "XESM_RedeemPaysFromBook" -> XRedeemPays(nd)
    [] f = "XESM_RedeemWithinProRata" -> XRedeemProRata(nd)
    [] f = "XESM_RedeemAfterShares" -> XRedeemAfterShares(nd)
    [] f = "XESM_RejectedChangesNothing" -> XRejected(nd)
    [] f = "Conf_Vault" -> ConfVault(nd)
    [] f = "Conf_Block" -> ConfBlock(nd)

Judge == \A k \in 1..Len(Formulas) : Holds(Formulas[k], cur) \/ PrintT(<<"FAIL", Formulas[k], cur>>)

Cnt(T(_)) == Cardinality({i \in 1..NLog : T(Nd(i))})
Stats == PrintT(<<"STATS", [nodes |-> NLog,
   okVaultOps |-> Cnt(LAMBDA nd : nd.a \in VaultOps /\ Ok(nd)),
   okRiskOps |-> Cnt(LAMBDA nd : nd.a \in RiskOps /\ Ok(nd)),
   okMints |-> Cnt(LAMBDA nd : nd.a \in MintOps /\ Ok(nd)),
   okBurns |-> Cnt(LAMBDA nd : nd.a \in BurnOps /\ Ok(nd)),
   rejectedRisk |-> Cnt(LAMBDA nd : nd.a \in RiskOps /\ ~Ok(nd)),
   inactivePriceAttempts |-> Cnt(LAMBDA nd : nd.a \in RiskOps /\ HasProd(Cfg(nd), nd.args.p) /\ ~PricesActive(Cfg(nd), Pre(nd), ProdOf(Cfg(nd), nd.args.p))),
   seizures |-> Cnt(LAMBDA nd : ~IsRoot(nd) /\ Seized(nd) # {}),
   sweepSeizures |-> Cnt(LAMBDA nd : nd.a = "Block" /\ Seized(nd) # {}),
   okBids |-> Cnt(LAMBDA nd : BidOk(nd)),
   closingBids |-> Cnt(LAMBDA nd : Closing(nd)),
   externalAuctions |-> Cnt(LAMBDA nd : nd.a = "LiqExt" /\ Ok(nd)),
   externalCloses |-> Cnt(LAMBDA nd : Closing(nd) /\ BidLocked(nd).initiator = "external"),
   bonusBids |-> Cnt(LAMBDA nd : BidOk(nd) /\ BidAuction(nd).bonusLeft > 0),
   priceChecks |-> Cnt(LAMBDA nd : BidOk(nd) /\ ~OwnBid(nd) /\ Received(nd) > 1),
   auctionBlocks |-> Cnt(LAMBDA nd : nd.a = "Block" /\ Len(Post(nd).auctions) > 0),
   blocks |-> Cnt(LAMBDA nd : nd.a = "Block"),
   longWaits |-> Cardinality({i \in 1..NLog : Nd(i).a = "Block" /\ \E v \in Range(Post(Nd(i)).vaults) : BadBlocks(i, v.id) >= 2}),
   sweepRuns |-> Cnt(LAMBDA nd : IsRoot(nd) /\ nd.run \in {"sweepsim", "sweepadv"}),
   esmExecuted |-> Cnt(LAMBDA nd : nd.a = "EsmExecute" /\ Ok(nd)),
   esmSteps |-> Cnt(LAMBDA nd : ~IsRoot(nd) /\ Pre(nd).ctl.esm),
   esmSnapshots |-> Cnt(LAMBDA nd : nd.st.ev.esmSnap),
   esmVaultRedemptions |-> Cnt(LAMBDA nd : nd.st.ev.esmVaultRed /\ Len(Pre(nd).vaults) > 0),
   esmStableRedemptions |-> Cnt(LAMBDA nd : nd.st.ev.esmStableRed /\ Len(Pre(nd).svaults) > 0),
   esmCollectorBurns |-> Cnt(LAMBDA nd : nd.st.ev.esmCollTx /\ DSupply(nd) < 0),
   esmV2CloseOuts |-> Cnt(LAMBDA nd : nd.st.ev.v2Esm),
   esmV1CloseOuts |-> Cnt(LAMBDA nd : nd.st.ev.v1EsmDue > 0 /\ Len(Post(nd).auctionsV1) < Len(Pre(nd).auctionsV1)),
   esmRedemptions |-> Cnt(LAMBDA nd : nd.a = "EsmRedeem" /\ Ok(nd)),
   esmCoolOffWithdrawals |-> Cnt(LAMBDA nd : nd.a = "Withdraw" /\ Ok(nd) /\ Pre(nd).ctl.esm),
   esmRejectedMints |-> Cnt(LAMBDA nd : nd.a \in MintOps /\ ~Ok(nd) /\ Pre(nd).ctl.esm),
   esmVaultsBelowFloor |-> Cnt(LAMBDA nd : Pre(nd).ctl.esm /\ \E v \in PrincipalSet(nd) : v.out < ProdOf(Cfg(nd), v.prod).floor),
   esmRedemptionsPayingNothing |-> Cnt(LAMBDA nd : nd.a = "EsmRedeem" /\ Ok(nd) /\ RedeemPaysNothing(Pre(nd), Post(nd), U(nd))),
   esmRedemptionsAboveProRata |-> Cnt(LAMBDA nd : nd.a = "EsmRedeem" /\ Ok(nd) /\ \E d \in CollDenoms : ~RedeemWithinProRata(Pre(nd), Post(nd), U(nd), nd.args.x, d)),
   v1Seizures |-> Cnt(LAMBDA nd : ~IsRoot(nd) /\ V1Seized(Pre(nd), Post(nd)) # {}),
   v1MsgSeizures |-> Cnt(LAMBDA nd : nd.a = "V1Liquidate" /\ V1Seized(Pre(nd), Post(nd)) # {}),
   v1SweepSeizures |-> Cnt(LAMBDA nd : nd.a = "V1Sweep" /\ V1Seized(Pre(nd), Post(nd)) # {}),
   v1SafeLiquidateAttempts |-> Cnt(LAMBDA nd : nd.a = "V1Liquidate" /\ HasVault(Pre(nd), nd.args.v) /\ ~Unsafe(Cfg(nd), Pre(nd), VaultById(Pre(nd), nd.args.v))),
   v1Bids |-> Cnt(LAMBDA nd : BidOkV1(nd)),
   v1Closes |-> Cnt(LAMBDA nd : ClosingV1(nd)),
   v1LossyCloses |-> Cnt(LAMBDA nd : ClosingV1(nd) /\ V1Lossy(Pre(nd), Post(nd), U(nd), BidAuctionV1(nd))),
   v1PriceChecks |-> Cnt(LAMBDA nd : BidOkV1(nd) /\ ~OwnBidV1(nd) /\ V1Received(Pre(nd), Post(nd), U(nd), BidAuctionV1(nd)) > 1),
   v1Ticks |-> Cnt(LAMBDA nd : nd.a = "V1Tick" /\ Len(Pre(nd).auctionsV1) > 0),
   v1PriceMoves |-> Cnt(LAMBDA nd : nd.a = "V1Tick" /\ \E a \in Range(Post(nd).auctionsV1) : a.id \in V1AuctionIds(Pre(nd)) /\ V1AuctionById(Pre(nd), a.id).start = a.start /\ ~LEq(a.price, V1AuctionById(Pre(nd), a.id).price)),
   v1EndPriceHits |-> Cnt(LAMBDA nd : nd.a = "V1Tick" /\ \E a \in V1Posted(nd) : Post(nd).t = a.end),
   v1Restarts |-> Cnt(LAMBDA nd : nd.a = "V1Tick" /\ \E a \in Range(Post(nd).auctionsV1) : a.id \in V1AuctionIds(Pre(nd)) /\ V1AuctionById(Pre(nd), a.id).start # a.start),
   v1LongWaits |-> Cardinality({i \in 1..NLog : Nd(i).a = "V1Sweep" /\ \E v \in Range(Post(Nd(i)).vaults) : BadSweepsV1(i, v.id) >= 1}),
   v1Sweeps |-> Cnt(LAMBDA nd : nd.a = "V1Sweep"),
   v1ConfChecked |-> Cnt(LAMBDA nd : nd.a = "V1Liquidate" /\ ~Cfg(nd).interest /\ ~IsRoot(nd)),
   confChecked |-> Cnt(LAMBDA nd : nd.a \in VaultOps /\ ~Cfg(nd).interest /\ ~IsRoot(nd)) ]>>)
AllSeen == Stats /\ TLCGet("stats").distinct = NLog
=============================================================================
