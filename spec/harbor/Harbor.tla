------------------------------- MODULE Harbor -------------------------------
(* The CDP application ("harbor"): x/vault messages, V2 liquidation (sweep + liquidate message), V2 Dutch  *)
(* auctions, collector fee book, emergency controls and oracle prices, as ONE state record S plus a fixed  *)
(* configuration record C (products, decimals, batch size, auction parameters).                            *)
(*                                                                                                          *)
(*   S = [ bal    : module account -> denom -> Nat      (bank balances of module accounts)                  *)
(*         ubal   : user -> denom -> Nat                                                                    *)
(*         supply : denom -> Nat                                                                            *)
(*         vaults : Seq([id, owner, app, prod, in, out, interest, closing, ...])   open vaults             *)
(*         svaults: Seq([id, app, prod, in, out])                                 stable-mint vaults        *)
(*         vcount, vnext : published vault count, last id                                                   *)
(*         tot    : Seq([app, prod, coll, minted, ids])   published per-product totals                      *)
(*         locked : Seq([id, orig, prod, owner, coll, debt, target, fee, bonus, initiator, ...])            *)
(*         auctions: Seq([id, lv, collLeft, debtLeft, bonusLeft, price, init, start, end, ...])             *)
(*         netfees, prices, ctl = [breaker, esm], offset, reserve, t, h ]                                   *)
(*                                                                                                          *)
(* This module holds the configuration look-ups, the exact-arithmetic helpers, the PROPERTY formulas of    *)
(* C01, C02, C03, C09, C10 as operators over (C, pre-state, post-state, step), and the predictive action   *)
(* operators of the vault messages (Vault* below) used by MC_Harbor and by the conformance formulas.       *)
EXTENDS Integers, Sequences, FiniteSets, Limbs

Range(s) == {s[k] : k \in 1..Len(s)}
SumSeq(s, F(_)) == LET RECURSIVE R(_)
                       R(k) == IF k = 0 THEN 0 ELSE F(s[k]) + R(k - 1)
                   IN R(Len(s))
SelectSeqP(s, T(_)) == SelectSeq(s, T)

(* ---------------- configuration ---------------- *)
ProdOf(C, pid) == CHOOSE p \in Range(C.prods) : p.id = pid
HasProd(C, pid) == \E p \in Range(C.prods) : p.id = pid
DecOf(C, d) == C.decs[d]
PriceRec(S, d) == CHOOSE r \in Range(S.prices) : r.denom = d
PIn(C, S, p) == PriceRec(S, p.collD).twa
POut(C, S, p) == IF p.outOracle THEN PriceRec(S, p.debtD).twa ELSE p.outPrice
PricesActive(C, S, p) == PriceRec(S, p.collD).active /\ (p.outOracle => PriceRec(S, p.debtD).active)

(* exact collateralisation test:  in*pIn/dIn  /  debt*pOut/dOut  >=  num/den   (cross-multiplied)  *)
CRAtLeast(C, S, p, in, debt, num, den) ==
    in * PIn(C, S, p) * DecOf(C, p.debtD) * den >= num * debt * POut(C, S, p) * DecOf(C, p.collD)
FloorMul(x, f) == (x * f.num) \div f.den

VaultById(S, id) == CHOOSE v \in Range(S.vaults) : v.id = id
HasVault(S, id) == \E v \in Range(S.vaults) : v.id = id
VaultOf(S, u, pid) == CHOOSE v \in Range(S.vaults) : v.owner = u /\ v.prod = pid
HasVaultOf(S, u, pid) == \E v \in Range(S.vaults) : v.owner = u /\ v.prod = pid
LockedIds(S) == {l.id : l \in Range(S.locked)}
AuctionIds(S) == {a.id : a \in Range(S.auctions)}
AuctionById(S, id) == CHOOSE a \in Range(S.auctions) : a.id = id
LockedById(S, id) == CHOOSE l \in Range(S.locked) : l.id = id
TotOf(S, pid) == IF \E r \in Range(S.tot) : r.prod = pid
                 THEN CHOOSE r \in Range(S.tot) : r.prod = pid
                 ELSE [app |-> 0, prod |-> pid, coll |-> 0, minted |-> 0, ids |-> <<>>]

(* ---------------- sums the properties talk about ---------------- *)
RecordedColl(C, S, d) ==
    SumSeq(S.vaults, LAMBDA v : IF ProdOf(C, v.prod).collD = d THEN v.in ELSE 0)
  + SumSeq(S.svaults, LAMBDA v : IF ProdOf(C, v.prod).collD = d THEN v.in ELSE 0)

OpenColl(S, pid)   == SumSeq(S.vaults, LAMBDA v : IF v.prod = pid THEN v.in ELSE 0)
                    + SumSeq(S.svaults, LAMBDA v : IF v.prod = pid THEN v.in ELSE 0)
OpenMinted(S, pid) == SumSeq(S.vaults, LAMBDA v : IF v.prod = pid THEN v.out ELSE 0)
                    + SumSeq(S.svaults, LAMBDA v : IF v.prod = pid THEN v.out ELSE 0)
AwaitingColl(S, pid) == SumSeq(S.locked, LAMBDA l : IF l.prod = pid /\ l.initiator = "vault" THEN l.coll ELSE 0)
OpenIds(S, pid) == {v.id : v \in {x \in Range(S.vaults) : x.prod = pid}} \cup {v.id : v \in {x \in Range(S.svaults) : x.prod = pid}}

AllPrincipal(S) == SumSeq(S.vaults, LAMBDA v : v.out) + SumSeq(S.svaults, LAMBDA v : v.out)

(* auction custody that the live auctions account for *)
AuctionColl(S, d) == SumSeq(S.auctions, LAMBDA a : IF a.collD = d THEN a.collLeft ELSE 0)
AuctionDebtHeld(S, d) == SumSeq(S.auctions, LAMBDA a : IF a.debtD = d /\ a.lv \in LockedIds(S)
                                                         THEN LockedById(S, a.lv).target - a.debtLeft ELSE 0)

(* ---------------- unsafe / enabled (C09) ---------------- *)
TotalDebt(v) == v.out + v.interest + v.closing
Unsafe(C, S, v) == LET p == ProdOf(C, v.prod) IN ~CRAtLeast(C, S, p, v.in, TotalDebt(v), p.minCr.num, p.minCr.den)
Enabled(C, S, v) == ~S.ctl.breaker /\ ~S.ctl.esm /\ PricesActive(C, S, ProdOf(C, v.prod))
(* the second generation starts its auction from the oracle records of BOTH assets (DutchAuctionActivator), also for a product with a *)
(* fixed debt price: "prices are active" for the V2 sweep means both                                                                  *)
EnabledV2(C, S, v) == Enabled(C, S, v) /\ PriceRec(S, ProdOf(C, v.prod).debtD).active

E18 == LMulSmall(LMulSmall(LMulSmall(LOfInt(1000000000), 1000), 1000), 1000)
RECURSIVE LMulBig(_, _)
LMulBig(a, k) == IF k < 32768 THEN LMulSmall(a, k)
                 ELSE LAdd(LMulSmall(LMulBig(a, k \div 1000), 1000), LMulSmall(a, k % 1000))
=============================================================================
