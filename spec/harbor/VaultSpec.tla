------------------------------ MODULE VaultSpec ------------------------------
(* Predictive specification of the x/vault message handlers (x/vault/keeper/msg_server.go), one operator   *)
(* per handler, functional style:   Act(C, S, args) = [ok |-> BOOLEAN, s |-> S']                            *)
(* Scope: configurations without stability-fee accrual (interest is an environment quantity and is only    *)
(* monitored, see Trace_Harbor); emergency shutdown not executed. Everything else - guards, fee split,      *)
(* decimal conversion of the stable-mint pair, totals, counters, custody - is predicted exactly.            *)
EXTENDS Harbor

Fail(S) == [ok |-> FALSE, s |-> S]
Good(S) == [ok |-> TRUE, s |-> S]
DebtD == "ust"

Pay(S, u, d, x)      == [S EXCEPT !.ubal[u][d] = @ - x]          \* user -> somewhere
Receive(S, u, d, x)  == [S EXCEPT !.ubal[u][d] = @ + x]
VaultIn(S, d, x)     == [S EXCEPT !.bal.vaultV1[d] = @ + x]
Mint(S, x)           == [S EXCEPT !.supply[DebtD] = @ + x]
ToCollector(C, S, x) == [S EXCEPT !.bal.collectorV1[DebtD] = @ + x,
                                  !.netfees = [k \in 1..Len(@) |-> IF @[k].asset = C.assets[DebtD] THEN [@[k] EXCEPT !.amt = @ + x, !.found = (@ \/ x >= 0)] ELSE @[k]]]
SetTot(S, pid, app, dColl, dMinted, ids) ==
   LET cur == TotOf(S, pid)
       new == [app |-> app, prod |-> pid, coll |-> cur.coll + dColl, minted |-> cur.minted + dMinted, ids |-> ids]
   IN IF \E r \in Range(S.tot) : r.prod = pid
      THEN [S EXCEPT !.tot = [k \in 1..Len(@) |-> IF @[k].prod = pid THEN new ELSE @[k]]]
      ELSE [S EXCEPT !.tot = Append(@, new)]
ReplaceVault(S, v) == [S EXCEPT !.vaults = [k \in 1..Len(@) |-> IF @[k].id = v.id THEN v ELSE @[k]]]
Has(S, u, d, x) == S.ubal[u][d] >= x
Blocked(S) == S.ctl.breaker \/ S.ctl.esm
SetOf(s) == Range(s)

(* mint `m` of debt for user u with the product's draw-down fee: fee to the collector, rest to the user *)
Deliver(C, S, p, u, m) ==
   LET fee == IF p.drawFee.num = 0 THEN 0 ELSE FloorMul(m, p.drawFee)
       s1 == Mint(S, m)
       s2 == IF fee > 0 THEN ToCollector(C, s1, fee) ELSE s1
   IN Receive(s2, u, DebtD, m - fee)

OwnVault(C, S, a) == HasProd(C, a.p) /\ HasVault(S, a.v) /\ VaultById(S, a.v).owner = a.u /\ VaultById(S, a.v).prod = a.p

Create(C, S, a) ==
   IF Blocked(S) \/ ~HasProd(C, a.p) THEN Fail(S) ELSE
   LET p == ProdOf(C, a.p) IN
   IF p.stable \/ HasVaultOf(S, a.u, p.id) \/ a.y < p.floor \/ TotOf(S, p.id).minted + a.y > p.ceiling
      \/ ~PricesActive(C, S, p) \/ a.x <= 0 \/ a.y <= 0
      \/ ~CRAtLeast(C, S, p, a.x, a.y, p.minCr.num, p.minCr.den) \/ ~Has(S, a.u, p.collD, a.x)
   THEN Fail(S) ELSE
   LET id == S.vnext + 1
       v  == [id |-> id, owner |-> a.u, app |-> C.app, prod |-> p.id, in |-> a.x, out |-> a.y, interest |-> 0, closing |-> FloorMul(a.y, p.closeFee)]
       s1 == VaultIn(Pay(S, a.u, p.collD, a.x), p.collD, a.x)
       s2 == Deliver(C, s1, p, a.u, a.y)
       s3 == [s2 EXCEPT !.vaults = Append(@, v), !.vcount = @ + 1, !.vnext = id]
   IN Good(SetTot(s3, p.id, C.app, a.x, a.y, Append(TotOf(S, p.id).ids, id)))

Deposit(C, S, a) ==
   IF Blocked(S) \/ ~OwnVault(C, S, a) \/ a.x <= 0 \/ ~Has(S, a.u, ProdOf(C, a.p).collD, a.x) THEN Fail(S) ELSE
   LET p == ProdOf(C, a.p) v == VaultById(S, a.v)
       s1 == VaultIn(Pay(S, a.u, p.collD, a.x), p.collD, a.x)
   IN Good(SetTot(ReplaceVault(s1, [v EXCEPT !.in = @ + a.x]), p.id, C.app, a.x, 0, TotOf(S, p.id).ids))

(* Under emergency shutdown a withdrawal is allowed until the cool-off end, against the PRINCIPAL only, at ratio >= 1, valued  *)
(* at the price snapshot (before the snapshot is taken the handler cannot value the collateral and the message fails).        *)
SnapOf(S, d) == CHOOSE r \in Range(S.esm.snaps) : r.denom = d
EsmCRAtLeast1(C, S, p, in, debt) ==
   /\ SnapOf(S, p.collD).found /\ (p.outOracle => SnapOf(S, p.debtD).found)
   /\ in * SnapOf(S, p.collD).price * DecOf(C, p.debtD) >= debt * (IF p.outOracle THEN SnapOf(S, p.debtD).price ELSE p.outPrice) * DecOf(C, p.collD)
   /\ in * SnapOf(S, p.collD).price > 0
Withdraw(C, S, a) ==
   IF S.ctl.breaker \/ (S.esm.status /\ S.t > S.esm.end) \/ ~OwnVault(C, S, a) \/ a.x <= 0 THEN Fail(S) ELSE
   LET p == ProdOf(C, a.p) v == VaultById(S, a.v) IN
   IF v.in - a.x <= 0 THEN Fail(S) ELSE
   IF S.esm.status /\ (~S.esm.snap \/ ~EsmCRAtLeast1(C, S, p, v.in - a.x, v.out)) THEN Fail(S) ELSE
   IF ~S.esm.status /\ (~PricesActive(C, S, p) \/ ~CRAtLeast(C, S, p, v.in - a.x, TotalDebt(v), p.minCr.num, p.minCr.den)) THEN Fail(S) ELSE
   LET s1 == Receive(VaultIn(S, p.collD, 0 - a.x), a.u, p.collD, a.x)
   IN Good(SetTot(ReplaceVault(s1, [v EXCEPT !.in = @ - a.x]), p.id, C.app, 0 - a.x, 0, TotOf(S, p.id).ids))

Draw(C, S, a) ==
   IF Blocked(S) \/ ~OwnVault(C, S, a) \/ a.x <= 0 THEN Fail(S) ELSE
   LET p == ProdOf(C, a.p) v == VaultById(S, a.v) IN
   IF TotOf(S, p.id).minted + a.x >= p.ceiling \/ ~PricesActive(C, S, p)
      \/ ~CRAtLeast(C, S, p, v.in, TotalDebt(v) + a.x, p.minCr.num, p.minCr.den) THEN Fail(S) ELSE
   LET s1 == Deliver(C, S, p, a.u, a.x)
   IN Good(SetTot(ReplaceVault(s1, [v EXCEPT !.out = @ + a.x]), p.id, C.app, 0, a.x, TotOf(S, p.id).ids))

Repay(C, S, a) ==
   IF Blocked(S) \/ ~OwnVault(C, S, a) \/ a.x <= 0 THEN Fail(S) ELSE
   LET p == ProdOf(C, a.p) v == VaultById(S, a.v) IN
   IF v.out + v.interest - a.x < 0 THEN Fail(S) ELSE
   IF a.x <= v.interest THEN    \* interest only: all of it goes to the collector
      IF ~Has(S, a.u, DebtD, a.x) THEN Fail(S) ELSE
      Good(ReplaceVault(ToCollector(C, Pay(S, a.u, DebtD, a.x), a.x), [v EXCEPT !.interest = @ - a.x]))
   ELSE LET principal == a.x - v.interest
            left == v.out - principal IN
        IF left < p.floor \/ ~Has(S, a.u, DebtD, a.x) THEN Fail(S) ELSE
        LET s1 == Mint(Pay(S, a.u, DebtD, a.x), 0 - principal)
            s2 == IF v.interest > 0 THEN ToCollector(C, s1, v.interest) ELSE s1
        IN Good(SetTot(ReplaceVault(s2, [v EXCEPT !.out = left, !.interest = 0]), p.id, C.app, 0, 0 - principal, TotOf(S, p.id).ids))

Close(C, S, a) ==
   IF Blocked(S) \/ ~OwnVault(C, S, a) THEN Fail(S) ELSE
   LET p == ProdOf(C, a.p) v == VaultById(S, a.v)
       total == TotalDebt(v) IN
   IF ~Has(S, a.u, DebtD, total) THEN Fail(S) ELSE
   LET s1 == Pay(S, a.u, DebtD, total)
       s2 == ToCollector(C, s1, v.interest + v.closing)
       s3 == Mint(s2, 0 - v.out)
       s4 == Receive(VaultIn(s3, p.collD, 0 - v.in), a.u, p.collD, v.in)
       s5 == [s4 EXCEPT !.vaults = SelectSeq(@, LAMBDA x : x.id # v.id), !.vcount = @ - 1]
   IN Good(SetTot(s5, p.id, C.app, 0 - v.in, 0 - v.out, SelectSeq(TotOf(S, p.id).ids, LAMBDA x : x # v.id)))

DepositDraw(C, S, a) ==
   IF ~HasVault(S, a.v) THEN Fail(S) ELSE
   LET v0 == VaultById(S, a.v)
       newAmt == (v0.out * a.x) \div v0.in
       r1 == Deposit(C, S, a) IN
   IF ~r1.ok THEN Fail(S) ELSE
   LET r2 == Draw(C, r1.s, [a EXCEPT !.x = newAmt]) IN
   IF ~r2.ok THEN Fail(S) ELSE r2

(* ---- stable-mint pair: amounts are converted between the two assets' decimal scales ---- *)
Conv(C, x, from, to) == (x * DecOf(C, to)) \div DecOf(C, from)
StableOf(S, id) == CHOOSE v \in Range(S.svaults) : v.id = id
HasStable(S, id) == \E v \in Range(S.svaults) : v.id = id

SCreate(C, S, a) ==
   IF Blocked(S) \/ ~HasProd(C, a.p) THEN Fail(S) ELSE
   LET p == ProdOf(C, a.p) out == Conv(C, a.x, p.collD, p.debtD) IN
   IF ~p.stable \/ out < p.floor \/ Len(TotOf(S, p.id).ids) >= 1 \/ TotOf(S, p.id).minted + out >= p.ceiling
      \/ a.x <= 0 \/ out <= 0 \/ ~Has(S, a.u, p.collD, a.x) THEN Fail(S) ELSE
   LET id == Len(S.svaults) + 1
       s1 == VaultIn(Pay(S, a.u, p.collD, a.x), p.collD, a.x)
       s2 == Deliver(C, s1, p, a.u, out)
       s3 == [s2 EXCEPT !.svaults = Append(@, [id |-> id, app |-> C.app, prod |-> p.id, in |-> a.x, out |-> out])]
   IN Good(SetTot(s3, p.id, C.app, a.x, out, Append(TotOf(S, p.id).ids, id)))

SDeposit(C, S, a) ==
   IF Blocked(S) \/ ~HasProd(C, a.p) THEN Fail(S) ELSE
   LET p == ProdOf(C, a.p) out == Conv(C, a.x, p.collD, p.debtD) IN
   IF ~p.stable \/ ~HasStable(S, a.v) \/ StableOf(S, a.v).prod # p.id \/ out < p.floor \/ TotOf(S, p.id).minted + out >= p.ceiling
      \/ a.x <= 0 \/ out <= 0 \/ ~Has(S, a.u, p.collD, a.x) THEN Fail(S) ELSE
   LET sv == StableOf(S, a.v)
       s1 == VaultIn(Pay(S, a.u, p.collD, a.x), p.collD, a.x)
       s2 == Deliver(C, s1, p, a.u, out)
       s3 == [s2 EXCEPT !.svaults = [k \in 1..Len(@) |-> IF @[k].id = sv.id THEN [sv EXCEPT !.in = @ + a.x, !.out = @ + out] ELSE @[k]]]
   IN Good(SetTot(s3, p.id, C.app, a.x, out, TotOf(S, p.id).ids))

SWithdraw(C, S, a) ==
   IF Blocked(S) \/ ~HasProd(C, a.p) THEN Fail(S) ELSE
   LET p == ProdOf(C, a.p) IN
   IF ~p.stable \/ a.x < p.floor \/ a.x <= 0 \/ ~HasStable(S, a.v) \/ StableOf(S, a.v).prod # p.id THEN Fail(S) ELSE
   LET sv == StableOf(S, a.v)
       back0 == Conv(C, a.x, p.debtD, p.collD) IN
   IF sv.in - back0 < 0 \/ ~Has(S, a.u, DebtD, a.x) THEN Fail(S) ELSE
   LET fee == IF p.drawFee.num = 0 THEN 0 ELSE FloorMul(a.x, p.drawFee)
       burnt == a.x - fee
       back == IF p.drawFee.num = 0 THEN back0 ELSE (IF burnt > 0 THEN Conv(C, burnt, p.debtD, p.collD) ELSE back0)
       paysOut == p.drawFee.num = 0 \/ burnt > 0 IN
   IF paysOut /\ S.bal.vaultV1[p.collD] < back THEN Fail(S) ELSE
   LET s1 == Pay(S, a.u, DebtD, a.x)
       s2 == IF fee > 0 THEN ToCollector(C, s1, fee) ELSE s1
       s3 == IF burnt > 0 THEN Mint(s2, 0 - burnt) ELSE s2
       s4 == IF paysOut THEN Receive(VaultIn(s3, p.collD, 0 - back), a.u, p.collD, back) ELSE s3
       s5 == [s4 EXCEPT !.svaults = [k \in 1..Len(@) |-> IF @[k].id = sv.id THEN [sv EXCEPT !.in = @ - back, !.out = @ - burnt] ELSE @[k]]]
   IN Good(SetTot(s5, p.id, C.app, 0 - back, 0 - burnt, TotOf(S, p.id).ids))

VaultAct(C, S, name, a) ==
   CASE name = "Create" -> Create(C, S, a)
     [] name = "Deposit" -> Deposit(C, S, a)
     [] name = "Withdraw" -> Withdraw(C, S, a)
     [] name = "Draw" -> Draw(C, S, a)
     [] name = "Repay" -> Repay(C, S, a)
     [] name = "Close" -> Close(C, S, a)
     [] name = "DepositDraw" -> DepositDraw(C, S, a)
     [] name = "SCreate" -> SCreate(C, S, a)
     [] name = "SDeposit" -> SDeposit(C, S, a)
     [] name = "SWithdraw" -> SWithdraw(C, S, a)
     [] name = "InterestCalc" -> (IF HasVault(S, a.v) THEN Good(S) ELSE Fail(S))

(* the part of the state the vault handlers may touch, in comparable form *)
VKey(v) == [id |-> v.id, owner |-> v.owner, prod |-> v.prod, in |-> v.in, out |-> v.out, interest |-> v.interest, closing |-> v.closing]
View(C, S) == [ vaults |-> {VKey(v) : v \in Range(S.vaults)},
                svaults |-> Range(S.svaults),
                vcount |-> S.vcount, vnext |-> S.vnext,
                tot |-> {[prod |-> p.id, coll |-> TotOf(S, p.id).coll, minted |-> TotOf(S, p.id).minted, ids |-> Range(TotOf(S, p.id).ids)] : p \in Range(C.prods)},
                supply |-> S.supply, vbal |-> S.bal.vaultV1, cbal |-> S.bal.collectorV1, ubal |-> S.ubal,
                netfees |-> {[asset |-> n.asset, amt |-> n.amt] : n \in Range(S.netfees)} ]

VaultStepConforms(C, S, name, a, ok, S2) ==
   LET r == VaultAct(C, S, name, a) IN
   /\ r.ok = ok
   /\ View(C, r.s) = View(C, S2)
=============================================================================
