------------------------------ MODULE DutchV1 ------------------------------
(* First generation ("V1") of liquidation and Dutch auctions of the CDP application:                         *)
(*   x/liquidation  - MsgLiquidateVault, the (unwired) per-block sweep LiquidateVaults, CreateLockedVault     *)
(*   x/auction      - DutchActivator / StartDutchAuction, MsgPlaceDutchBid (PlaceDutchAuctionBid), close       *)
(*                    inside the bid (CloseDutchAuction), price update and restart (RestartDutchAuctions)      *)
(* On a real chain only the two MESSAGES are reachable (module.go comments the begin blockers out); the sweep *)
(* and the price update / restart are exercised as environment actions V1Sweep / V1Tick, called like the      *)
(* repository's own tests call them.                                                                          *)
(*                                                                                                            *)
(* State added to the record S of Harbor.tla:                                                                 *)
(*   lockedV1   : Seq([id, orig, prod, owner, in, out, fees, prog, done])   seized vaults awaiting settlement  *)
(*                 in = collateral seized, out = PRINCIPAL, fees = interest + closing fee at seizure           *)
(*   auctionsV1 : Seq([id, lv, collInit, collLeft, collD, debtGot, target, debtD, price, init, endp,           *)
(*                     inPrice, start, end, status, owner, nbids])                                             *)
(*                 price/init/endp = Limbs of value*10^18 (collateral price), inPrice = debt price (integer)   *)
(*   offsetV1, lockedV1next, auctionV1next : sweep offset of the app, id counters                              *)
(*   bal.auctionV1 : custody of the V1 auction module account                                                  *)
(* Configuration C.v1 = [batch, duration, buffer, cusp, dutchMap].                                            *)
(*                                                                                                            *)
(* A V1 bid names the COLLATERAL amount wanted; the handler computes the debt to pay at the posted price.     *)
(* This module states the C01/C02/C09/C10 laws for this generation over (C, pre-state S, post-state S2, ...)  *)
(* and the predictive operators used by the conformance formulas: the seizure (V1Liquidate, exact), the bid    *)
(* (V1BidPredict: a relation - the two amounts are environment values constrained by the posted price), the    *)
(* price update / restart (V1TickAuction, exact 18-decimal arithmetic on limbs).                               *)
EXTENDS Harbor

V1LockedIds(S) == {l.id : l \in Range(S.lockedV1)}
V1AuctionIds(S) == {a.id : a \in Range(S.auctionsV1)}
V1LockedById(S, id) == CHOOSE l \in Range(S.lockedV1) : l.id = id
V1AuctionById(S, id) == CHOOSE a \in Range(S.auctionsV1) : a.id = id

(* ---------------- C01 / C02: what a V1 locked vault contributes while it awaits settlement ---------------- *)
(* CreateLockedVault keeps the product totals untouched; CloseDutchAuction -> UpdateProtocolData subtracts    *)
(* the auction's INITIAL collateral (= locked.in) and the burnt principal (= locked.out).                     *)
V1AwaitingColl(S, pid)   == SumSeq(S.lockedV1, LAMBDA l : IF l.prod = pid THEN l.in ELSE 0)
V1AwaitingMinted(S, pid) == SumSeq(S.lockedV1, LAMBDA l : IF l.prod = pid THEN l.out ELSE 0)
V1AwaitingPrincipal(S)   == SumSeq(S.lockedV1, LAMBDA l : l.out)

(* ---------------- custody of the V1 auction account accounted for by live V1 auctions ---------------- *)
V1AuctionColl(S, d) == SumSeq(S.auctionsV1, LAMBDA a : IF a.collD = d THEN a.collLeft ELSE 0)
V1AuctionDebt(S, d) == SumSeq(S.auctionsV1, LAMBDA a : IF a.debtD = d THEN a.debtGot ELSE 0)

NetFeeOf(C, S, d) == SumSeq(S.netfees, LAMBDA n : IF n.asset = C.assets[d] THEN n.amt ELSE 0)

(* ------------------------------------ C09: seizure ------------------------------------ *)
V1Seized(S, S2) == {l \in Range(S2.lockedV1) : l.id \notin V1LockedIds(S)}
V1OnlyUnsafe(C, S, S2) == \A l \in V1Seized(S, S2) :
   HasVault(S, l.orig) /\ Unsafe(C, S, VaultById(S, l.orig)) /\ Enabled(C, S, VaultById(S, l.orig))
(* exactly the recorded collateral is handed over, the recorded principal is carried, exactly one auction opens for it *)
V1SeizeExact(C, S, S2) == \A l \in V1Seized(S, S2) :
   HasVault(S, l.orig) /\ ~HasVault(S2, l.orig) /\
   LET v == VaultById(S, l.orig) IN
     /\ l.in = v.in /\ l.out = v.out /\ l.prod = v.prod /\ l.owner = v.owner
     /\ Cardinality({a \in Range(S2.auctionsV1) : a.lv = l.id}) = 1
     /\ \A a \in Range(S2.auctionsV1) : a.lv = l.id =>
           a.collLeft = v.in /\ a.collInit = v.in /\ a.debtGot = 0 /\ a.collD = ProdOf(C, v.prod).collD /\ a.id \notin V1AuctionIds(S)
(* collateral entering V1 auction custody in a step without bids/closes = the collateral of the vaults seized in it *)
V1CustodyMoves(C, S, S2, d) ==
   S2.bal.auctionV1[d] - S.bal.auctionV1[d]
     = SumSeq(S2.lockedV1, LAMBDA l : IF l \in V1Seized(S, S2) /\ ProdOf(C, l.prod).collD = d THEN l.in ELSE 0)

(* ------------------------------------ C10: bids, price, close ------------------------------------ *)
V1Paid(S, S2, u, a)     == S.ubal[u][a.debtD] - S2.ubal[u][a.debtD]
V1Received(S, S2, u, a) == S2.ubal[u][a.collD] - S.ubal[u][a.collD]
V1Closed(S, S2, a)      == a.id \notin V1AuctionIds(S2)

V1PaidWithinTarget(S, S2, u, a)     == V1Paid(S, S2, u, a) >= 0 /\ V1Paid(S, S2, u, a) <= a.target - a.debtGot
V1ReceivedWithinSeized(S, S2, u, a) == V1Received(S, S2, u, a) >= 0 /\ V1Received(S, S2, u, a) <= a.collLeft
(* exchange at the posted price: the collateral received, less one smallest unit, is worth no more than the debt paid plus one *)
(* smallest unit:  (rec-1) * price / decColl  <=  (paid+1) * inPrice / decDebt      (price is value*10^18)                     *)
V1PostedPrice(C, S, S2, u, a) ==
   LET rec == V1Received(S, S2, u, a) paid == V1Paid(S, S2, u, a) IN
   rec > 1 => LLe(LMulSmall(LMulSmall(a.price, rec - 1), DecOf(C, a.debtD)),
                  LMulBig(LMulSmall(LMulSmall(E18, paid + 1), DecOf(C, a.collD)), a.inPrice))
(* an open (not closing) bid is booked on the auction: that is what makes the per-bid bounds bounds on the life totals *)
V1BidBooked(S, S2, u, a) == ~V1Closed(S, S2, a) =>
   LET a2 == V1AuctionById(S2, a.id) IN
   a2.debtGot = a.debtGot + V1Paid(S, S2, u, a) /\ a2.collLeft = a.collLeft - V1Received(S, S2, u, a)

V1PriceInBand(a) == LLe(a.price, a.init) /\ LLe(a.endp, a.price)
(* the code computes price = init*(tau - s)/tau with tau = floor(duration*init/(init - end)) whole seconds; over s <= duration this *)
(* is never below init*(tau - duration)/tau. (The property itself - V1PriceInBand - demands the configured end price.)             *)
V1Tau(C) == (C.v1.duration * C.v1.cusp.den) \div (C.v1.cusp.den - C.v1.cusp.num)
V1PriceFloor(C, a) == V1Tau(C) > C.v1.duration => LLe(LMulBig(a.init, V1Tau(C) - C.v1.duration), LMulBig(LAdd(a.price, <<1>>), V1Tau(C)))   \* + one unit in the 18th decimal (the quotient is rounded)
V1PriceFalls(S, S2) == \A a2 \in Range(S2.auctionsV1) :
   a2.id \in V1AuctionIds(S) /\ V1AuctionById(S, a2.id).start = a2.start => LLe(a2.price, V1AuctionById(S, a2.id).price)
(* start price = oracle price x buffer, end price = start price x cusp; posted price starts at the start price *)
V1Started(S, S2) == {a2 \in Range(S2.auctionsV1) : a2.id \notin V1AuctionIds(S) \/ V1AuctionById(S, a2.id).start # a2.start}
V1StartPrice(C, S, S2) == \A a2 \in V1Started(S, S2) :
   LET twa == PriceRec(S2, a2.collD).twa IN
   /\ LEq(LMulSmall(a2.init, C.v1.buffer.den), LMulSmall(LMulSmall(E18, twa), C.v1.buffer.num))
   /\ LEq(LMulSmall(a2.endp, C.v1.cusp.den), LMulSmall(a2.init, C.v1.cusp.num))
   /\ LEq(a2.price, a2.init)

V1CustodyColl(S, S2, d) == S2.bal.auctionV1[d] - S.bal.auctionV1[d] = V1AuctionColl(S2, d) - V1AuctionColl(S, d)
V1CustodyDebt(S, S2, d) == S2.bal.auctionV1[d] - S.bal.auctionV1[d] = V1AuctionDebt(S2, d) - V1AuctionDebt(S, d)

(* settlement of an auction that closes inside bid (u, a): principal burnt; everything collected above the principal      *)
(* (penalty + interest + closing fee; in the lossy case - collateral sold out below the target - the collector covers the  *)
(* shortfall first, so the net is collected - principal, possibly negative) goes to the collector and is booked as net fees;*)
(* the unsold collateral goes to the owner; the locked vault is gone.                                                      *)
V1Collected(S, S2, u, a) == a.debtGot + V1Paid(S, S2, u, a)
V1BurnAtClose(S, S2, a) == S.supply[a.debtD] - S2.supply[a.debtD] = V1LockedById(S, a.lv).out
V1PenaltyRouted(C, S, S2, u, a) ==
   LET net == V1Collected(S, S2, u, a) - V1LockedById(S, a.lv).out IN
   /\ S2.bal.collectorV1[a.debtD] - S.bal.collectorV1[a.debtD] = net
   /\ NetFeeOf(C, S2, a.debtD) - NetFeeOf(C, S, a.debtD) = net
   /\ a.lv \notin V1LockedIds(S2)
V1OwnerGetsRest(S, S2, u, a) == a.owner \notin {"other", "none", u} =>
   S2.ubal[a.owner][a.collD] - S.ubal[a.owner][a.collD] = a.collLeft - V1Received(S, S2, u, a)
V1Lossy(S, S2, u, a) == V1Closed(S, S2, a) /\ V1Collected(S, S2, u, a) < a.target

(* ------------------------------------ predictive: the seizure ------------------------------------ *)
(* MsgLiquidateVault / one item of the V1 sweep, for configurations without stability-fee accrual:             *)
(* a vault that is not under its minimum ratio is left alone (the message still succeeds);                     *)
(* otherwise: locked vault (in, principal, fees = interest + closing fee), vault deleted, counter - 1, product  *)
(* totals untouched, collateral moved from vault custody to V1 auction custody, one auction:                   *)
(* target = principal + floor(principal * liquidation penalty) + fees, start price = twa * buffer.              *)
V1Fail(S) == [ok |-> FALSE, s |-> S]
V1Good(S) == [ok |-> TRUE, s |-> S]
LOfFrac(x, f) == LDivSmall(LMulSmall(LMulSmall(E18, x), f.num), f.den)        \* limbs of x*num/den*10^18 (exact when den divides)
V1SeizeVault(C, S, v) ==
   LET p   == ProdOf(C, v.prod)
       lid == S.lockedV1next + 1
       aid == S.auctionV1next + 1
       fees == v.interest + v.closing
       init == LOfFrac(PIn(C, S, p), C.v1.buffer)
       endp == LDivSmall(LMulSmall(init, C.v1.cusp.num), C.v1.cusp.den)
       l == [id |-> lid, orig |-> v.id, prod |-> v.prod, owner |-> v.owner, in |-> v.in, out |-> v.out, fees |-> fees]
       a == [id |-> aid, lv |-> lid, collInit |-> v.in, collLeft |-> v.in, collD |-> p.collD, debtGot |-> 0,
             target |-> v.out + FloorMul(v.out, p.liqPen) + fees, debtD |-> p.debtD, price |-> init, init |-> init, endp |-> endp,
             inPrice |-> POut(C, S, p), start |-> S.t, end |-> S.t + C.v1.duration, owner |-> v.owner]
   IN [S EXCEPT !.vaults = SelectSeq(@, LAMBDA x : x.id # v.id), !.vcount = @ - 1,
                !.tot = LET old == @ IN [k \in 1..Len(old) |-> IF old[k].prod = v.prod THEN [old[k] EXCEPT !.ids = SelectSeq(old[k].ids, LAMBDA x : x # v.id)] ELSE old[k]],
                !.bal.vaultV1[p.collD] = @ - v.in, !.bal.auctionV1[p.collD] = @ + v.in,
                !.lockedV1 = Append(@, l), !.auctionsV1 = Append(@, a), !.lockedV1next = lid, !.auctionV1next = aid]
V1Liquidate(C, S, a) ==
   IF S.ctl.breaker \/ S.ctl.esm \/ ~HasVault(S, a.v) THEN V1Fail(S) ELSE
   LET v == VaultById(S, a.v) p == ProdOf(C, v.prod) IN
   IF ~PricesActive(C, S, p) THEN V1Fail(S) ELSE            \* CalcAssetPrice / CalculateCollateralizationRatio fail closed
   IF ~Unsafe(C, S, v) THEN V1Good(S) ELSE V1Good(V1SeizeVault(C, S, v))

(* comparable view of what the seizure touches *)
V1LKey(l) == [id |-> l.id, orig |-> l.orig, prod |-> l.prod, owner |-> l.owner, in |-> l.in, out |-> l.out, fees |-> l.fees]
V1AKey(a) == [id |-> a.id, lv |-> a.lv, collInit |-> a.collInit, collLeft |-> a.collLeft, collD |-> a.collD, debtGot |-> a.debtGot,
              target |-> a.target, debtD |-> a.debtD, price |-> LNorm(a.price), init |-> LNorm(a.init), endp |-> LNorm(a.endp),
              inPrice |-> a.inPrice, start |-> a.start, end |-> a.end, owner |-> a.owner]
V1View(C, S) == [ vaults |-> {[id |-> v.id, in |-> v.in, out |-> v.out] : v \in Range(S.vaults)}, vcount |-> S.vcount,
                  tot |-> {[prod |-> p.id, coll |-> TotOf(S, p.id).coll, minted |-> TotOf(S, p.id).minted, ids |-> Range(TotOf(S, p.id).ids)] : p \in Range(C.prods)},
                  vbal |-> S.bal.vaultV1, abal |-> S.bal.auctionV1, cbal |-> S.bal.collectorV1, ubal |-> S.ubal, supply |-> S.supply,
                  locked |-> {V1LKey(l) : l \in Range(S.lockedV1)}, auctions |-> {V1AKey(a) : a \in Range(S.auctionsV1)},
                  lnext |-> S.lockedV1next, anext |-> S.auctionV1next ]
V1LiquidateConforms(C, S, a, ok, S2) ==
   LET r == V1Liquidate(C, S, a) IN r.ok = ok /\ V1View(C, r.s) = V1View(C, S2)
(* ------------------------------------ predictive: the bid (relation) ------------------------------------ *)
(* PlaceDutchAuctionBid computes the two amounts with 18-decimal sdk.Dec arithmetic; the specification takes the two amounts *)
(* the code produced (paid, slice) as environment values constrained by the posted price up to one smallest unit on either    *)
(* coin, and predicts everything else: which branch is taken and every balance, record, total and fee booking.                *)
(*   slice = requested amount unless the remaining target caps the bid (then paid = remaining target, slice <= requested)      *)
(*   close (normal)  iff debtGot + paid >= target : rest of the collateral to the owner, principal burnt, target - principal   *)
(*                   to the collector and booked as net fees, product totals reduced by (initial collateral, principal)        *)
(*   close (lossy)   iff all collateral sold below the target: the collector first covers the shortfall (only if its net      *)
(*                   fees exceed it - otherwise the bid fails), then as above                                                   *)
V1PriceLaw(C, au, paid, slice) ==
   LET collSide(x) == LMulSmall(LMulSmall(au.price, x), DecOf(C, au.debtD))                             \* x collateral units  (x price / decColl), cross-multiplied
       debtSide(y) == LMulBig(LMulSmall(LMulSmall(E18, y), DecOf(C, au.collD)), au.inPrice)             \* y debt units        (x inPrice / decDebt)
   IN /\ (slice > 1 => LLe(collSide(slice - 1), debtSide(paid + 1)))
      /\ (paid > 1 => LLe(debtSide(paid - 1), collSide(slice + 1)))
SetNetFee(C, S, d, delta) == [S EXCEPT !.netfees = [k \in 1..Len(@) |-> IF @[k].asset = C.assets[d] THEN [@[k] EXCEPT !.amt = @ + delta, !.found = TRUE] ELSE @[k]]]
V1SubTot(S, pid, coll, minted) == [S EXCEPT !.tot = LET old == @ IN [k \in 1..Len(old) |-> IF old[k].prod = pid THEN [old[k] EXCEPT !.coll = @ - coll, !.minted = @ - minted] ELSE old[k]]]
V1BidPredict(C, S, a, paid, slice) ==
   LET au == V1AuctionById(S, a.v)
       l  == V1LockedById(S, au.lv)
       u  == a.u
       collected == au.debtGot + paid
       s1 == [S EXCEPT !.ubal[u][au.debtD] = @ - paid, !.ubal[u][au.collD] = @ + slice]
       open == [s1 EXCEPT !.bal.auctionV1[au.debtD] = @ + paid, !.bal.auctionV1[au.collD] = @ - slice,
                          !.auctionsV1 = [k \in 1..Len(@) |-> IF @[k].id = au.id THEN [@[k] EXCEPT !.debtGot = collected, !.collLeft = au.collLeft - slice] ELSE @[k]]]
       rest == au.collLeft - slice
       net == collected - l.out                                   \* to the collector (after it covered a shortfall, if any)
       c1 == [s1 EXCEPT !.ubal[au.owner][au.collD] = @ + rest,
                        !.bal.auctionV1[au.collD] = @ - au.collLeft, !.bal.auctionV1[au.debtD] = @ - au.debtGot,
                        !.supply[au.debtD] = @ - l.out, !.bal.collectorV1[au.debtD] = @ + net,
                        !.auctionsV1 = SelectSeq(@, LAMBDA x : x.id # au.id), !.lockedV1 = SelectSeq(@, LAMBDA x : x.id # l.id)]
       closed == V1SubTot(SetNetFee(C, c1, au.debtD, net), l.prod, au.collInit, l.out)
   IN IF collected >= au.target THEN closed
      ELSE IF rest = 0 THEN closed
      ELSE open
V1BView(C, S) == [ tot |-> {[prod |-> p.id, coll |-> TotOf(S, p.id).coll, minted |-> TotOf(S, p.id).minted] : p \in Range(C.prods)},
                   abal |-> S.bal.auctionV1, cbal |-> S.bal.collectorV1, vbal |-> S.bal.vaultV1, ubal |-> S.ubal, supply |-> S.supply,
                   netfees |-> {[asset |-> n.asset, amt |-> n.amt] : n \in Range(S.netfees)},
                   locked |-> {V1LKey(l) : l \in Range(S.lockedV1)}, auctions |-> {V1AKey(x) : x \in Range(S.auctionsV1)}, vaults |-> S.vaults ]
V1BidConforms(C, S, a, ok, S2) ==
   ok => /\ a.v \in V1AuctionIds(S)
         /\ LET au == V1AuctionById(S, a.v)
                paid == V1Paid(S, S2, a.u, au)
                slice == (S.bal.auctionV1[au.collD] - S2.bal.auctionV1[au.collD]) - (IF V1Closed(S, S2, au) THEN (S2.ubal[au.owner][au.collD] - S.ubal[au.owner][au.collD]) - (IF au.owner = a.u THEN V1Received(S, S2, a.u, au) ELSE 0) ELSE 0)
            IN /\ a.d = au.collD /\ a.x > 0 /\ a.x <= au.collLeft /\ au.owner # a.u
               /\ paid > 0 /\ paid <= au.target - au.debtGot
               /\ slice = V1Received(S, S2, a.u, au) /\ slice <= a.x
               /\ (paid < au.target - au.debtGot => slice = a.x)
               /\ V1PriceLaw(C, au, paid, slice)
               /\ (au.collLeft - slice = 0 /\ au.debtGot + paid < au.target => NetFeeOf(C, S, au.debtD) > au.target - (au.debtGot + paid))    \* the collector can cover the shortfall
               /\ V1BView(C, V1BidPredict(C, S, a, paid, slice)) = V1BView(C, S2)

(* ------------------------------------ predictive: price update / restart (outside emergency shutdown) ------------------------------------ *)
(* RestartDutchAuctions, one atomic unit per auction: posted price := init * (tau - elapsed) / tau rounded half-even at 18 decimals,         *)
(* tau = floor(duration / (1 - cusp)) whole seconds - the code as it is, i.e. WITHOUT a floor at the end price (known finding KF-C10-V1-1;   *)
(* a clamped price is accepted as well so that the proposed repair conforms); after the end time: restart at oracle price x buffer.         *)
RECURSIVE LRemAt(_, _, _, _)
LRemAt(a, k, i, r) == IF i = 0 THEN r ELSE LRemAt(a, k, i - 1, (r * B + a[i]) % k)
LRem(a, k) == LRemAt(a, k, Len(a), 0)
LRoundDiv(a, k) == LET q == LDivSmall(a, k) r == LRem(a, k)                 \* banker's rounding of a / k (k small)
                   IN IF 2 * r > k \/ (2 * r = k /\ LAt(q, 1) % 2 = 1) THEN LAdd(q, <<1>>) ELSE q
V1TickAuction(C, S, t, au) ==          \* the auction record after a tick at time t (pre-state S for prices)
   LET l == V1LockedById(S, au.lv) p == ProdOf(C, l.prod)
       debtOk == ~p.outOracle \/ PriceRec(S, p.debtD).active
       elapsed == t - au.start
       tau == V1Tau(C)
       raw == IF elapsed >= tau THEN <<>> ELSE LRoundDiv(LMulBig(au.init, tau - elapsed), tau)
       upd == [au EXCEPT !.price = raw, !.inPrice = POut(C, S, p)]
       init2 == LOfFrac(PIn(C, S, p), C.v1.buffer)
   IN IF ~debtOk THEN {au}
      ELSE IF t > au.end
           THEN (IF PriceRec(S, p.collD).active
                 THEN {[upd EXCEPT !.start = t, !.end = t + C.v1.duration, !.init = init2, !.price = init2,
                                   !.endp = LDivSmall(LMulSmall(init2, C.v1.cusp.num), C.v1.cusp.den)]}
                 ELSE {au})
           ELSE {upd, [upd EXCEPT !.price = IF LLe(raw, au.endp) THEN au.endp ELSE raw]}
V1TickConforms(C, S, ok, S2) ==
   ok /\ ~S.ctl.esm =>
      /\ V1AuctionIds(S2) = V1AuctionIds(S)
      /\ \A au \in Range(S.auctionsV1) : V1AKey(V1AuctionById(S2, au.id)) \in {V1AKey(x) : x \in V1TickAuction(C, S, S2.t, au)}
      /\ V1BView(C, [S2 EXCEPT !.auctionsV1 = S.auctionsV1]) = V1BView(C, S)
=============================================================================
