------------------------------ MODULE MC_Harbor ------------------------------
(* Bounded model of the vault handlers over VaultSpec's action operators, plus the first-generation seizure   *)
(* (MsgLiquidateVault, DutchV1.tla's V1Liquidate) so that vaults awaiting V1 auction settlement are reachable.   *)
(*   Init  = the projection of the REAL fixture's root state (read from RootFile, written by `vh harbor`),   *)
(*   Next  = every action instance of the finite set Acts applied with VaultAct; price moves as environment. *)
(* TLC checks the C01/C02/C03 formulas of Harbor.tla on every reachable model state up to Depth; the same    *)
(* action instances are explored breadth-first on the real code by the harness (CacheContext branches) and   *)
(* Trace_Harbor's Conf_Vault shows every real edge is the model's edge - so the model graph IS the real graph.*)
EXTENDS Harbor, VaultSpec, DutchV1, TLC, Json
CONSTANTS RootFile, Depth

Root == ndJsonDeserialize(RootFile)[1]
C == Root.st.cfg
VARIABLES st, lastOk, lastAct
vars == <<st, lastOk, lastAct>>

A(name, u, p, v, x, y) == [a |-> name, args |-> [u |-> u, p |-> p, v |-> v, x |-> x, y |-> y, d |-> "-", on |-> FALSE]]
P1 == C.prods[1].id
P3 == C.prods[3].id
Acts == { A("Create", "u1", P1, 0, 30, 40), A("Create", "u1", P1, 0, 30, 41), A("Create", "u2", P1, 0, 15, 10),
          A("Deposit", "u1", P1, 1, 6, 0), A("Withdraw", "u1", P1, 1, 3, 0), A("Withdraw", "u2", P1, 2, 1, 0),
          A("Draw", "u1", P1, 1, 4, 0), A("Draw", "u2", P1, 2, 10, 0), A("Repay", "u1", P1, 1, 10, 0),
          A("Repay", "u2", P1, 2, 5, 0), A("Close", "u1", P1, 1, 0, 0), A("Close", "u2", P1, 2, 0, 0),
          A("Draw", "u2", P1, 1, 1, 0), A("DepositDraw", "u1", P1, 1, 6, 0),
          A("SCreate", "u2", P3, 0, 20, 0), A("SDeposit", "u1", P3, 1, 30, 0), A("SWithdraw", "u2", P3, 1, 2, 0),
          A("V1Liquidate", "u2", P1, 1, 0, 0), A("V1Liquidate", "u1", P1, 2, 0, 0) }
PriceMoves == { <<"ucm", 1, TRUE>>, <<"ucm", 2, TRUE>>, <<"ucm", 2, FALSE>> }

Init == st = Root.st.s /\ lastOk = TRUE /\ lastAct = "Init"

DoAct(act) == LET r == IF act.a = "V1Liquidate" THEN V1Liquidate(C, st, act.args) ELSE VaultAct(C, st, act.a, act.args) IN
              /\ st' = r.s /\ lastOk' = r.ok /\ lastAct' = act.a
DoPrice(m) == /\ st' = [st EXCEPT !.prices = [k \in 1..Len(@) |-> IF @[k].denom = m[1] THEN [@[k] EXCEPT !.twa = m[2], !.active = m[3]] ELSE @[k]]]
              /\ lastOk' = TRUE /\ lastAct' = "Price"
Next == (\E act \in Acts : DoAct(act)) \/ (\E m \in PriceMoves : DoPrice(m))
Spec == Init /\ [][Next]_vars
DepthBound == TLCGet("level") <= Depth
StView == st

(* ---- the properties on the model (state form; no liquidation in this model, so supply is exactly backed) ---- *)
M_Custody == \A d \in {"ucm", "uat", "uus"} : st.bal.vaultV1[d] = RecordedColl(C, st, d)
M_Count   == st.vcount = Len(st.vaults)
M_Totals  == \A p \in Range(C.prods) : /\ TotOf(st, p.id).coll = OpenColl(st, p.id) + V1AwaitingColl(st, p.id)
                                        /\ TotOf(st, p.id).minted = OpenMinted(st, p.id) + V1AwaitingMinted(st, p.id)
                                        /\ Range(TotOf(st, p.id).ids) = OpenIds(st, p.id)
M_Backed  == st.supply["ust"] - st.fixtureMint = AllPrincipal(st) + V1AwaitingPrincipal(st)
(* every vault awaiting V1 settlement has exactly one auction holding exactly its collateral; V1 auction custody is what the auctions hold *)
M_V1Held  == /\ \A l \in Range(st.lockedV1) : Cardinality({a \in Range(st.auctionsV1) : a.lv = l.id /\ a.collLeft = l.in}) = 1
             /\ \A d \in {"ucm", "uat", "uus"} : st.bal.auctionV1[d] = V1AuctionColl(st, d)
(* action property in state form: the last step seized something only if the model's guard said so - checked on real steps by C09_OnlyUnsafe *)
M_Floor   == \A v \in Range(st.vaults) : v.out >= ProdOf(C, v.prod).floor
M_Ceiling == \A p \in Range(C.prods) : OpenMinted(st, p.id) <= p.ceiling
M_NonNeg  == /\ \A u \in DOMAIN st.ubal : \A d \in DOMAIN st.ubal[u] : st.ubal[u][d] >= 0
             /\ \A d \in DOMAIN st.bal.vaultV1 : st.bal.vaultV1[d] >= 0 /\ st.bal.collectorV1[d] >= 0
(* the action-instance set, printed once so that the harness explores exactly these on the real code *)
ASSUME PrintT(<<"T", ToJson([acts |-> Acts, prices |-> {[d |-> m[1], y |-> m[2], on |-> m[3]] : m \in PriceMoves}])>>)
=============================================================================
