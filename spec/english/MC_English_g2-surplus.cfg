SPECIFICATION Spec
CONSTANTS Gens = {2}  Flag = "surplus"  Generic = FALSE  Tm0 = TRUE  Esm = FALSE  Nf0 = 45  Fund = 30  MaxBids = 2  MaxAuc = 1  MaxT = 420  Bidders = {"u1", "u2"}  Emit = FALSE
CONSTRAINT StateBound
INVARIANTS InvCustodyCovers InvCustodyExact InvNetFeesNonNeg InvCollectorBacked InvOneAuction
CHECK_DEADLOCK FALSE
