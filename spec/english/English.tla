------------------------------- MODULE English -------------------------------
(* English-style auctions of comdex, both generations, implementation-shaped.                          *)
(*   generation 1 : x/auction/keeper/{surplus,debt}.go, driven by auction.BeginBlocker (HookV1)         *)
(*   generation 2 : x/auctionsV2/keeper/{auctions,bid}.go + x/liquidationsV2 LiquidateForSurplusAndDebt, *)
(*                  driven by the application's BeginBlocker (Block)                                     *)
(* Both generations read the same collector data: net fees, thresholds, lot sizes and the auction       *)
(* mapping flags (IsSurplusAuction, IsDebtAuction, IsDistributor, IsAuctionActive).                     *)
(*                                                                                                       *)
(* State record s (JSON-shaped so that recorded states of the real code are values of the same type):   *)
(*   t        block time (s)                                                                             *)
(*   nf, nfFound   recorded net fees of (app 1, stable asset)                                            *)
(*   fl       [sur, debt, dist, active]                                                                  *)
(*   bal      [account -> [denom -> amount]] for users u1..u3, the external initiator ext, and the       *)
(*            module accounts col (collector), a1 (auction, generation 1), a2 (auctionsV2)               *)
(*   auc      sequence of live auctions [gen, kind, id, lot, bid, pay, bidder, nb, endT, bidEndT, ...]   *)
(*              surplus: lot = stable units sold, bid = gov units offered (rising), pay = bid            *)
(*              debt   : lot = bid = gov units requested (falling), pay = fixed stable units L           *)
(*              generic: lot = collateral sold, bid = debt units offered (rising), pay = bid             *)
(*   n1, n2   auction id counters of the two generations; tm = token-mint data exists for the app        *)
(*   esm      the app's emergency shutdown has been executed                                             *)
(*   nfo      recorded net fees of the app's OTHER assets [uharbor, uatom] (no action of this spec books  *)
(*            anything there)                                                                             *)
(* Configuration record c: L DL ST DT bf1n/bf1d bf2n/bf2d A1 B1 A2 (see harness Cfg).                    *)
EXTENDS Integers, Sequences, FiniteSets

CMST == "ucmst"
HARBOR == "uharbor"
ATOM == "uatom"
UserSet == {"u1", "u2", "u3"}

Ceil(n, d) == (n + d - 1) \div d
(* BidFactor.MulInt(x).Ceil().TruncateInt() *)
Change(x, fn, fd) == Ceil(x * fn, fd)
Min2(a, b) == IF a <= b THEN a ELSE b

(* ---------------- bank ---------------- *)
Has(b, a, d, x) == b[a][d] >= x
Move(b, from, to, d, x) == [b EXCEPT ![from][d] = @ - x, ![to][d] = @ + x]
Credit(b, a, d, x) == [b EXCEPT ![a][d] = @ + x]
Debit(b, a, d, x) == [b EXCEPT ![a][d] = @ - x]

(* ---------------- auction list ---------------- *)
Range(q) == {q[i] : i \in 1..Len(q)}
IdxOf(auc, g, id) ==
  LET S == {i \in 1..Len(auc) : auc[i].gen = g /\ auc[i].id = id} IN IF S = {} THEN 0 ELSE CHOOSE i \in S : TRUE
RemoveAt(q, i) == SubSeq(q, 1, i - 1) \o SubSeq(q, i + 1, Len(q))
LotD(kind) == IF kind = "surplus" THEN CMST ELSE IF kind = "debt" THEN HARBOR ELSE ATOM
PayD(kind) == IF kind = "surplus" THEN HARBOR ELSE CMST
BidD(kind) == IF kind = "generic" THEN CMST ELSE HARBOR
Acct(g) == IF g = 1 THEN "a1" ELSE "a2"
NewAuc(g, kind, id, lot, bid, endT) ==
  [gen |-> g, kind |-> kind, id |-> id, lot |-> lot, bid |-> bid, pay |-> 0, bidder |-> "", nb |-> 0,
   endT |-> endT, bidEndT |-> endT, lotD |-> LotD(kind), payD |-> PayD(kind), bidD |-> BidD(kind)]

Ok(s) == [ok |-> TRUE, st |-> s]
Fail(s) == [ok |-> FALSE, st |-> s]

(* ======================= bids ======================= *)

(* MsgPlaceSurplusBid (generation 1): no time check; first bid only has to exceed 0 *)
BidV1Surplus(s, c, u, id, amt, denom) ==
  LET i == IdxOf(s.auc, 1, id) IN
  IF i = 0 \/ s.auc[i].kind # "surplus" THEN Fail(s)
  ELSE LET a == s.auc[i] IN
    IF denom # HARBOR THEN Fail(s)
    ELSE IF a.nb > 0 /\ amt < a.bid + Change(a.bid, c.bf1n, c.bf1d) THEN Fail(s)
    ELSE IF a.nb = 0 /\ amt <= a.bid THEN Fail(s)
    ELSE IF ~Has(s.bal, u, HARBOR, amt) THEN Fail(s)
    ELSE LET b1 == Move(s.bal, u, "a1", HARBOR, amt)
             b2 == IF a.nb > 0 THEN Move(b1, "a1", a.bidder, HARBOR, a.bid) ELSE b1
             a2 == [a EXCEPT !.bid = amt, !.pay = amt, !.bidder = u, !.nb = @ + 1, !.bidEndT = Min2(s.t + c.B1, a.endT)]
         IN Ok([s EXCEPT !.bal = b2, !.auc[i] = a2])

(* MsgPlaceDebtBid (generation 1): bid = gov units requested, must fall; the payment is the fixed lot L *)
BidV1Debt(s, c, u, id, amt, denom, exp, expDenom) ==
  LET i == IdxOf(s.auc, 1, id) IN
  IF i = 0 \/ s.auc[i].kind # "debt" THEN Fail(s)
  ELSE LET a == s.auc[i] IN
    IF expDenom # CMST \/ exp # c.L \/ denom # HARBOR THEN Fail(s)
    ELSE IF a.nb > 0 /\ amt > a.bid - Change(a.bid, c.bf1n, c.bf1d) THEN Fail(s)
    ELSE IF a.nb = 0 /\ amt > a.bid THEN Fail(s)
    ELSE IF ~Has(s.bal, u, CMST, c.L) THEN Fail(s)
    ELSE LET b1 == Move(s.bal, u, "a1", CMST, c.L)
             b2 == IF a.nb > 0 THEN Move(b1, "a1", a.bidder, CMST, c.L) ELSE b1
             a2 == [a EXCEPT !.bid = amt, !.lot = amt, !.pay = c.L, !.bidder = u, !.nb = @ + 1, !.bidEndT = Min2(s.t + c.B1, a.endT)]
         IN Ok([s EXCEPT !.bal = b2, !.auc[i] = a2])

(* MsgPlaceMarketBid on an English auction (generation 2): no time check; amount > 0 by ValidateBasic *)
BidV2(s, c, u, id, amt, denom) ==
  LET i == IdxOf(s.auc, 2, id) IN
  IF i = 0 \/ amt <= 0 THEN Fail(s)
  ELSE LET a == s.auc[i]
           isDebt == a.kind = "debt"
           chg == Change(a.bid, c.bf2n, c.bf2d)
           pay == IF isDebt THEN c.L ELSE amt
       IN
    IF denom # a.bidD THEN Fail(s)
    ELSE IF a.nb > 0 /\ ~isDebt /\ amt < a.bid + chg THEN Fail(s)
    ELSE IF a.nb > 0 /\ isDebt /\ amt > a.bid - chg THEN Fail(s)
    ELSE IF a.nb = 0 /\ ~isDebt /\ amt < a.bid THEN Fail(s)
    ELSE IF a.nb = 0 /\ isDebt /\ amt > a.bid THEN Fail(s)
    ELSE IF ~Has(s.bal, u, a.payD, pay) THEN Fail(s)
    ELSE LET b1 == Move(s.bal, u, "a2", a.payD, pay)
             b2 == IF a.nb > 0 THEN Move(b1, "a2", a.bidder, a.payD, a.pay) ELSE b1
             a2 == IF isDebt THEN [a EXCEPT !.bid = amt, !.lot = amt, !.pay = pay, !.bidder = u, !.nb = @ + 1]
                   ELSE [a EXCEPT !.bid = amt, !.pay = pay, !.bidder = u, !.nb = @ + 1]
         IN Ok([s EXCEPT !.bal = b2, !.auc[i] = a2])

(* ======================= generation 1 hook ======================= *)

(* close or restart every generation-1 auction of the kind that is past its end - or, once the app's emergency   *)
(* shutdown (s.esm) is executed, every auction of the kind whatever its time; one all-or-nothing unit.            *)
(* Shutdown close: the standing bidder gets the payment back in full, a surplus lot returns to the collector      *)
(* (and to the net fees), nothing is minted or burnt.                                                              *)
RECURSIVE ClosePass1(_, _, _, _)
ClosePass1(s, c, kind, i) ==
  IF i > Len(s.auc) THEN Ok(s)
  ELSE LET a == s.auc[i] IN
    IF a.gen # 1 \/ a.kind # kind \/ ~(s.t > a.endT \/ s.t > a.bidEndT \/ s.esm) THEN ClosePass1(s, c, kind, i + 1)
    ELSE IF a.nb = 0 /\ ~s.esm
      THEN ClosePass1([s EXCEPT !.auc[i].endT = s.t + c.A1, !.auc[i].bidEndT = s.t + c.A1], c, kind, i + 1)
    ELSE IF s.esm
      THEN IF kind = "surplus"
           THEN LET b1 == IF a.nb > 0 THEN Move(s.bal, "a1", a.bidder, HARBOR, a.bid) ELSE s.bal   \* bid back to the bidder
                    b2 == Move(b1, "a1", "col", CMST, a.lot)                                       \* lot back to the collector
                IN IF ~Has(s.bal, "a1", CMST, a.lot) \/ (a.nb > 0 /\ ~Has(s.bal, "a1", HARBOR, a.bid)) THEN Fail(s)
                   ELSE ClosePass1([s EXCEPT !.bal = b2, !.nf = @ + a.lot, !.nfFound = TRUE, !.fl.active = FALSE,
                                             !.auc = RemoveAt(@, i)], c, kind, i)
           ELSE LET b1 == IF a.nb > 0 THEN Move(s.bal, "a1", a.bidder, CMST, a.pay) ELSE s.bal      \* payment back to the bidder
                IN IF a.nb > 0 /\ ~Has(s.bal, "a1", CMST, a.pay) THEN Fail(s)
                   ELSE ClosePass1([s EXCEPT !.bal = b1, !.fl.active = FALSE, !.auc = RemoveAt(@, i)], c, kind, i)
    ELSE IF ~s.tm THEN Fail(s)                                 \* burn / mint needs the app's token-mint data
    ELSE IF kind = "surplus"
      THEN LET b1 == Move(s.bal, "a1", a.bidder, CMST, a.lot)   \* lot to the winner
               b2 == Debit(b1, "a1", HARBOR, a.bid)              \* bid burnt
           IN IF ~Has(s.bal, "a1", CMST, a.lot) \/ ~Has(s.bal, "a1", HARBOR, a.bid) THEN Fail(s)
              ELSE ClosePass1([s EXCEPT !.bal = b2, !.fl.active = FALSE, !.auc = RemoveAt(@, i)], c, kind, i)
    ELSE   LET b1 == IF a.bid > 0 THEN Credit(s.bal, a.bidder, HARBOR, a.bid) ELSE s.bal   \* lot minted to the winner
               b2 == Move(b1, "a1", "col", CMST, a.pay)                                   \* payment covers the debt
           IN IF ~Has(s.bal, "a1", CMST, a.pay) THEN Fail(s)
              ELSE ClosePass1([s EXCEPT !.bal = b2, !.nf = @ + a.pay, !.nfFound = TRUE, !.fl.active = FALSE,
                                        !.auc = RemoveAt(@, i)], c, kind, i)

(* SurplusActivator / DebtActivator with the mapping record read BEFORE both units (stale flags); no auction is   *)
(* started after the emergency shutdown                                                                            *)
SurplusUnit1(s, c, fl0) ==
  IF fl0.sur /\ ~fl0.active /\ ~s.esm
  THEN IF s.nfFound /\ s.nf >= c.ST + c.L
       THEN IF ~(s.nf - c.L > 0) \/ ~Has(s.bal, "col", CMST, c.L) THEN s          \* GetAmountFromCollector fails: unit discarded
            ELSE [s EXCEPT !.bal = Move(@, "col", "a1", CMST, c.L), !.nf = @ - c.L, !.n1 = @ + 1, !.fl.active = TRUE,
                           !.auc = Append(@, NewAuc(1, "surplus", s.n1 + 1, c.L, 0, s.t + c.A1))]
       ELSE s
  ELSE IF fl0.sur /\ fl0.active
  THEN LET r == ClosePass1(s, c, "surplus", 1) IN IF r.ok THEN r.st ELSE s
  ELSE s

DebtUnit1(s, c, fl0) ==
  IF fl0.debt /\ ~fl0.active /\ ~s.esm
  THEN IF s.nfFound /\ s.nf <= c.DT - c.L
       THEN [s EXCEPT !.n1 = @ + 1, !.fl.active = TRUE,
                      !.auc = Append(@, NewAuc(1, "debt", s.n1 + 1, c.DL, c.DL, s.t + c.A1))]
       ELSE s
  ELSE IF fl0.debt /\ fl0.active
  THEN LET r == ClosePass1(s, c, "debt", 1) IN IF r.ok THEN r.st ELSE s
  ELSE s

HookV1(s, c) == DebtUnit1(SurplusUnit1(s, c, s.fl), c, s.fl)

(* ======================= generation 2: block ======================= *)

(* LiquidateForSurplusAndDebt -> CheckStatsForSurplusAndDebt (not atomic; an error stops the pass).             *)
(* A surplus auction only CHECKS that the net fees can spare the lot: the lot stays in the collector (and in    *)
(* the net fees) until the auction closes.                                                                    *)
StartV2(s, c) ==
  IF s.fl.active \/ ~s.nfFound THEN s
  ELSE LET s1 == IF s.nf <= c.DT - c.L /\ s.fl.debt
                 THEN [s EXCEPT !.n2 = @ + 1, !.fl.active = TRUE,
                                !.auc = Append(@, NewAuc(2, "debt", s.n2 + 1, c.DL, c.DL, s.t + c.A2))]
                 ELSE s
       IN IF s.nf >= c.ST + c.L /\ s.fl.sur
          THEN IF ~(s1.nf - c.L > 0) THEN s1
               ELSE [s1 EXCEPT !.n2 = @ + 1, !.fl.active = TRUE,
                               !.auc = Append(@, NewAuc(2, "surplus", s1.n2 + 1, c.L, 0, s.t + c.A2))]
          ELSE s1

(* CloseEnglishAuction. surplus: the lot leaves the collector for the winner and the net fees are lowered by it  *)
(* (DecreaseNetFeeCollectedData refuses to go below zero), the bid is burnt; debt: the gov lot is minted to the   *)
(* winner, the stable payment enters the collector and the net fees rise by exactly that payment; generic: lot  *)
(* to the winner, payment to the external initiator.                                                            *)
CloseV2(s, c, i) ==
  LET a == s.auc[i] IN
  IF a.kind = "surplus"
  THEN IF ~Has(s.bal, "col", CMST, a.lot) \/ ~s.tm \/ a.bid <= 0 \/ ~s.nfFound \/ s.nf - a.lot < 0 THEN Fail(s)
       ELSE Ok([s EXCEPT !.bal = Debit(Move(@, "col", a.bidder, CMST, a.lot), "a2", HARBOR, a.bid),
                         !.nf = @ - a.lot, !.fl.active = FALSE, !.auc = RemoveAt(@, i)])
  ELSE IF a.kind = "debt"
  THEN IF ~s.tm THEN Fail(s)
       ELSE Ok([s EXCEPT !.bal = Move(IF a.lot > 0 THEN Credit(@, a.bidder, HARBOR, a.lot) ELSE @, "a2", "col", CMST, a.pay),
                         !.nf = @ + a.pay, !.nfFound = TRUE,
                         !.fl.active = FALSE, !.auc = RemoveAt(@, i)])
  ELSE Ok([s EXCEPT !.bal = Move(Move(@, "a2", a.bidder, ATOM, a.lot), "a2", "ext", CMST, a.pay), !.auc = RemoveAt(@, i)])

(* AuctionIterator: each auction is its own all-or-nothing unit *)
RECURSIVE Iterate2(_, _, _)
Iterate2(s, c, i) ==
  IF i > Len(s.auc) THEN s
  ELSE LET a == s.auc[i] IN
    IF a.gen # 2 \/ ~(s.t > a.endT) THEN Iterate2(s, c, i + 1)
    ELSE IF a.nb = 0 THEN Iterate2([s EXCEPT !.auc[i].endT = s.t + c.A2, !.auc[i].bidEndT = s.t + c.A2], c, i + 1)
    ELSE LET r == CloseV2(s, c, i) IN
         IF r.ok THEN Iterate2(r.st, c, i) ELSE Iterate2(s, c, i + 1)

Block(s, c, dt) == Iterate2(StartV2([s EXCEPT !.t = @ + dt], c), c, 1)

(* ======================= environment ======================= *)
StartGeneric(s, c, lot, minBid) ==
  IF ~Has(s.bal, "ext", ATOM, lot) THEN Fail(s)
  ELSE Ok([s EXCEPT !.bal = Move(@, "ext", "a2", ATOM, lot), !.n2 = @ + 1,
                    !.auc = Append(@, NewAuc(2, "generic", s.n2 + 1, lot, minBid, s.t + c.A2))])
MintGenesis(s) == IF s.tm THEN Fail(s) ELSE Ok([s EXCEPT !.tm = TRUE])
(* emergency shutdown of the app is executed (environment; x/esm status record) *)
EsmOn(s) == [s EXCEPT !.esm = TRUE]
(* a well-behaved distributor contract: WasmCheckSurplusRewardQuery, then WasmMsgGetSurplusFund for that amount *)
SurplusFundAmt(s, c) == IF s.fl.dist /\ s.nfFound /\ s.nf > c.ST + c.L THEN s.nf - c.ST ELSE 0
SurplusFund(s, c) ==
  LET x == SurplusFundAmt(s, c) IN
  IF x <= 0 \/ ~Has(s.bal, "col", CMST, x) THEN Fail(s)
  ELSE Ok([s EXCEPT !.bal = Move(@, "col", "ext", CMST, x), !.nf = @ - x])
SeedFees(s, x) == [s EXCEPT !.bal = Credit(@, "col", CMST, x), !.nf = @ + x, !.nfFound = TRUE]

(* ======================= C11 / C13, stated over states and steps ======================= *)
RECURSIVE SumSeq(_)
SumSeq(q) == IF q = <<>> THEN 0 ELSE Head(q) + SumSeq(Tail(q))
SeqMap(q, Op(_)) == [i \in 1..Len(q) |-> Op(q[i])]

(* funds of standing bidders held by generation g's account in denomination d *)
StandingTerm(a, g, d) == IF a.gen = g /\ a.payD = d /\ a.nb > 0 THEN a.pay ELSE 0
Standing(s, g, d) == LET T(a) == StandingTerm(a, g, d) IN SumSeq(SeqMap(s.auc, T))
(* lots escrowed by the auction records of generation g in denomination d (gen 1 surplus, gen 2 generic) *)
LotTerm(a, g, d) == IF a.gen = g /\ a.lotD = d /\ ((g = 1 /\ a.kind = "surplus") \/ (g = 2 /\ a.kind = "generic")) THEN a.lot ELSE 0
Lots(s, g, d) == LET T(a) == LotTerm(a, g, d) IN SumSeq(SeqMap(s.auc, T))

(* C11: the custody of a generation covers the standing bids (state) *)
CustodyCovers(s) == \A g \in {1, 2} : \A d \in {CMST, HARBOR} : s.bal[Acct(g)][d] >= Standing(s, g, d)
(* C11: ... and holds exactly them in the denominations only bids are paid in:                               *)
(*      gov tokens in both accounts (lots of debt auctions are minted at the close, never escrowed),         *)
(*      stable units in the generation-2 account                                                              *)
CustodyExact(s) == /\ s.bal["a1"][HARBOR] = Standing(s, 1, HARBOR)
                   /\ s.bal["a2"][HARBOR] = Standing(s, 2, HARBOR)
                   /\ s.bal["a2"][CMST] = Standing(s, 2, CMST)
(* C11 (step, bid messages): custody moves exactly with the standing bids, in every account and denomination  *)
CustodyDelta(p, s) ==
  \A g \in {1, 2} : \A d \in {CMST, HARBOR} :
     s.bal[Acct(g)][d] - p.bal[Acct(g)][d] = Standing(s, g, d) - Standing(p, g, d)

(* improvement by the configured factor, exact rational comparison *)
Improves(kind, old, new, fn, fd) ==
  IF kind = "debt" THEN (old - new) * fd >= fn * old ELSE (new - old) * fd >= fn * old

(* C13 (step): recorded net fees move exactly with the collector's custody of the asset *)
CollectorDelta(p, s) == /\ s.bal["col"][CMST] - p.bal["col"][CMST] = s.nf - p.nf
                        /\ \A d \in {HARBOR, ATOM} : s.bal["col"][d] - p.bal["col"][d] = s.nfo[d] - p.nfo[d]
CollectorBacked(s) == s.bal["col"][CMST] >= s.nf
=============================================================================
