----------------------------- MODULE MC_Locker -----------------------------
(* Bounded model of lockers + collector net fees fed by vault messages (saving rate 0 and stability fee 0:    *)
(* every amount is an integer the specification predicts). Two apps share the stable asset.                  *)
EXTENDS Locker, TLC, Json
CONSTANTS Users2, AppsOn, Amts, MaxLockers, MaxVaults, Fund, Emit

C == [ddn |-> 1, ddd |-> 10, vcn |-> 1, vcd |-> 20]
VARIABLES st, nops
vars == <<st, nops>>

Z3 == [ucmst |-> 0, uatom |-> 0, uharbor |-> 0]
UB == [ucmst |-> Fund, uatom |-> Fund, uharbor |-> Fund]
St0 == [t |-> 6, lockers |-> <<>>, dep |-> [a1 |-> 0, a2 |-> 0], ids |-> [a1 |-> <<>>, a2 |-> <<>>], vaults |-> <<>>,
        nf |-> [a1 |-> Z3, a2 |-> Z3], bal |-> [u1 |-> UB, u2 |-> UB, u3 |-> UB, col |-> Z3, lock |-> Z3], nl |-> 0, nv |-> 0, px |-> 2]
InitArgs == [c |-> C, fund |-> Fund]
Key(s) == <<[i \in 1..Len(s.lockers) |-> <<s.lockers[i].id, s.lockers[i].owner, s.lockers[i].app, s.lockers[i].net>>],
            [i \in 1..Len(s.vaults) |-> <<s.vaults[i].id, s.vaults[i].owner, s.vaults[i].app, s.vaults[i].out>>],
            s.dep, s.nf.a1.ucmst, s.nf.a2.ucmst, s.nl, s.nv,
            [u \in {"u1", "u2", "u3", "col", "lock"} |-> <<s.bal[u].ucmst, s.bal[u].uatom>>]>>
Out(a, args, pre, post) ==
  IF Emit THEN PrintT(<<"T", ToJson([a |-> a, args |-> args, pre |-> Key(pre), post |-> Key(post)])>>) ELSE TRUE
Init == st = St0 /\ nops = 0 /\ Out("Init", InitArgs, St0, St0)
Step(a, args, post) == st' = post /\ Out(a, args, st, post)
A(u, app, id, amt) == [u |-> u, app |-> app, asset |-> ST, id |-> id, amt |-> amt]
Ax(u, app, asset, id, amt) == [u |-> u, app |-> app, asset |-> asset, id |-> id, amt |-> amt]

DoCreate == st.nl < MaxLockers /\ \E u \in Users2, app \in AppsOn, amt \in Amts :
              Step("CreateLocker", A(u, app, 0, amt), CreateLocker(st, u, app, ST, amt).st) /\ UNCHANGED nops
(* deposit / withdraw / close by the owner and by somebody else; withdraw below, at, above the net balance *)
DoLockerOp == \E i \in 1..Len(st.lockers), u \in Users2 :
   LET l == st.lockers[i] IN
   /\ nops < 3 /\ nops' = nops + 1
   /\ \/ \E amt \in Amts : Step("DepositLocker", A(u, l.app, l.id, amt), DepositLocker(st, u, l.app, ST, l.id, amt, 0).st)
      \/ \E amt \in {x \in {l.net - 3, l.net, l.net + 1} : x > 0} :
            Step("WithdrawLocker", A(u, l.app, l.id, amt), WithdrawLocker(st, u, l.app, ST, l.id, amt, 0).st)
      \/ Step("CloseLocker", A(u, l.app, l.id, 0), CloseLocker(st, u, l.app, ST, l.id, 0).st)
      \/ (u = l.owner /\ Step("RewardCalc", A(u, l.app, l.id, 0), RewardCalc(st, l.app, l.id, 0).st))
      \* arguments that do not belong together: the locker id under another app, another asset id
      \/ (u = l.owner /\ \E app2 \in AppsOn \ {l.app} :
             \/ Step("WithdrawLocker", A(u, app2, l.id, 1), WithdrawLocker(st, u, app2, ST, l.id, 1, 0).st)
             \/ Step("CloseLocker", A(u, app2, l.id, 0), CloseLocker(st, u, app2, ST, l.id, 0).st)
             \/ Step("RewardCalc", A(u, app2, l.id, 0), RewardCalc(st, app2, l.id, 0).st))
      \/ (u = l.owner /\ \E as \in {CO, "uharbor"} :
             \/ Step("WithdrawLocker", Ax(u, l.app, as, l.id, 1), WithdrawLocker(st, u, l.app, as, l.id, 1, 0).st)
             \/ Step("CloseLocker", Ax(u, l.app, as, l.id, 0), CloseLocker(st, u, l.app, as, l.id, 0).st))
DoVaultCreate == st.nv < MaxVaults /\ \E u \in Users2, app \in AppsOn, out \in {25, 40, 41} :
                   Step("VaultCreate", [u |-> u, app |-> app, asset |-> ST, id |-> 0, amt |-> 0, in |-> 30, out |-> out], VaultCreate(st, C, u, app, 30, out).st) /\ UNCHANGED nops
DoVaultOp == \E i \in 1..Len(st.vaults), u \in Users2 :
   LET v == st.vaults[i] IN
   /\ UNCHANGED nops
   /\ \/ (v.out < 40 /\ \E amt \in {9, 11} : Step("VaultDraw", A(u, v.app, v.id, amt), VaultDraw(st, C, u, v.app, v.id, amt).st))
      \/ Step("VaultClose", A(u, v.app, v.id, 0), VaultClose(st, C, u, v.app, v.id).st)
Next == DoCreate \/ DoLockerOp \/ DoVaultCreate \/ DoVaultOp
Spec == Init /\ [][Next]_vars

InvTotals == TotalsMatch(st)
InvLockerCustody == LockerCustody(st)
InvNonNeg == NetFeesNonNeg(st)
InvBacked == Backed(st)
=============================================================================
