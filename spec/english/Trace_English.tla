---------------------------- MODULE Trace_English ----------------------------
(* Executions of the REAL English-auction code (both generations, recorded by `vh english --world A`)       *)
(* judged against English.tla. Every log node is one TLC state.                                              *)
(*   Conf_*  the recorded step is the step the specification's action takes from the recorded pre-state      *)
(*   C11_*   bidders' funds are safe          C13_*   collector net fees follow the collector's custody      *)
EXTENDS English, TLC, Json
CONSTANT LogFile
Log == ndJsonDeserialize(LogFile)
NLog == Len(Log)

VARIABLE cur
Init == cur \in 1..NLog
Next == UNCHANGED cur
Spec == Init /\ [][Next]_cur

Nd(i) == Log[i]
S(j) == [t |-> j.t, nf |-> j.nf, nfFound |-> j.nfFound, fl |-> j.fl, bal |-> j.bal, auc |-> j.auc, n1 |-> j.n1, n2 |-> j.n2, tm |-> j.tm, esm |-> j.esm, nfo |-> j.nfo]
Cfg(nd) == Log[nd.st.root].args.c
Pre(nd) == S(Log[nd.parent].st)
Post(nd) == S(nd.st)
IsStep(nd) == nd.a # "Init"
Same(x, y) == /\ x.t = y.t /\ x.nf = y.nf /\ x.nfFound = y.nfFound /\ x.fl = y.fl /\ x.bal = y.bal
              /\ Range(x.auc) = Range(y.auc) /\ Len(x.auc) = Len(y.auc) /\ x.n1 = y.n1 /\ x.n2 = y.n2 /\ x.tm = y.tm /\ x.esm = y.esm /\ x.nfo = y.nfo
BidActs == {"BidV1Surplus", "BidV1Debt", "BidV2"}
GenOf(nd) == IF nd.a = "BidV2" THEN 2 ELSE 1

(* ------------------------------ conformance ------------------------------ *)
Res(nd, r) == r.ok = nd.res.ok /\ Same(r.st, Post(nd))
ConfBid(nd) ==
  LET p == Pre(nd) c == Cfg(nd) g == nd.args IN
  CASE nd.a = "BidV1Surplus" -> Res(nd, BidV1Surplus(p, c, g.u, g.id, g.amt, g.denom))
    [] nd.a = "BidV1Debt" -> Res(nd, BidV1Debt(p, c, g.u, g.id, g.amt, g.denom, g.exp, g.expDenom))
    [] nd.a = "BidV2" -> Res(nd, BidV2(p, c, g.u, g.id, g.amt, g.denom))
    [] OTHER -> TRUE
ConfHookV1(nd) == nd.a = "HookV1" => ~nd.res.panic /\ Same(HookV1(Pre(nd), Cfg(nd)), Post(nd))
ConfBlock(nd) == nd.a = "Block" => ~nd.res.panic /\ Same(Block(Pre(nd), Cfg(nd), nd.args.dt), Post(nd))
ConfEnv(nd) ==
  LET p == Pre(nd) c == Cfg(nd) IN
  CASE nd.a = "Advance" -> Same([p EXCEPT !.t = @ + nd.args.dt], Post(nd))
    [] nd.a = "StartGeneric" -> Res(nd, StartGeneric(p, c, nd.args.lot, nd.args.minBid))
    [] nd.a = "MintGenesis" -> Res(nd, MintGenesis(p))
    [] nd.a = "EsmOn" -> Same(EsmOn(p), Post(nd))
    [] nd.a = "SeedFees" -> Same(SeedFees(p, nd.args.x), Post(nd))
    [] nd.a = "SurplusFund" -> Res(nd, SurplusFund(p, c))
    [] OTHER -> TRUE

(* ------------------------------ C11 ------------------------------ *)
C11CustodyCovers(nd) == CustodyCovers(Post(nd))
C11CustodyExact(nd) == CustodyExact(Post(nd))
C11CustodyDelta(nd) == nd.a \in BidActs => CustodyDelta(Pre(nd), Post(nd))

OldAuc(nd) == LET p == Pre(nd) i == IdxOf(p.auc, GenOf(nd), nd.args.id) IN IF i = 0 THEN [nb |-> 0] ELSE p.auc[i]
NewAuc2(nd) == LET s == Post(nd) i == IdxOf(s.auc, GenOf(nd), nd.args.id) IN s.auc[i]
Accepted(nd) == nd.a \in BidActs /\ nd.res.ok
(* each new accepted bid improves on the previous one by at least the configured bid factor *)
C11BidImproves(nd) ==
  Accepted(nd) /\ OldAuc(nd).nb > 0 =>
     LET c == Cfg(nd) o == OldAuc(nd) n == NewAuc2(nd) IN
     IF GenOf(nd) = 1 THEN Improves(o.kind, o.bid, n.bid, c.bf1n, c.bf1d) ELSE Improves(o.kind, o.bid, n.bid, c.bf2n, c.bf2d)
(* the outbid bidder is refunded in full in the same step; the new bidder pays exactly the new standing payment;  *)
(* nobody else's balance moves                                                                                   *)
C11OutbidRefunded(nd) ==
  Accepted(nd) =>
     LET p == Pre(nd) s == Post(nd) o == OldAuc(nd) n == NewAuc2(nd) IN
     \A u \in UserSet : \A d \in {CMST, HARBOR, ATOM} :
        s.bal[u][d] - p.bal[u][d] = (IF o.nb > 0 /\ o.bidder = u /\ o.payD = d THEN o.pay ELSE 0)
                                    - (IF nd.args.u = u /\ n.payD = d THEN n.pay ELSE 0)
C11RejectedBidFree(nd) == nd.a \in BidActs /\ ~nd.res.ok => \A u \in UserSet : Post(nd).bal[u] = Pre(nd).bal[u]
(* Every way an auction can end. Regular end: exactly the standing bidder receives the lot, no one else gains  *)
(* or loses anything, and only auctions with a standing bid end. End by the app's emergency shutdown          *)
(* (generation 1 only - generation 2 does not look at it): the standing bidder either receives the lot or has   *)
(* the payment back in full - nobody has lost anything; auctions without bids may end too.                      *)
ClosedSet(nd) == LET p == Pre(nd) s == Post(nd) IN
                 {i \in 1..Len(p.auc) : IdxOf(s.auc, p.auc[i].gen, p.auc[i].id) = 0}
WonTerm(a, u, d) == IF a.nb > 0 /\ a.bidder = u /\ a.lotD = d THEN a.lot ELSE 0
BackTerm(a, u, d) == IF a.nb > 0 /\ a.bidder = u /\ a.payD = d THEN a.pay ELSE 0
RECURSIVE SumSet(_, _, _, _, _)
SumSet(auc, I, W, u, d) ==
  IF I = {} THEN 0
  ELSE LET i == CHOOSE x \in I : TRUE IN
       (IF i \in W THEN WonTerm(auc[i], u, d) ELSE BackTerm(auc[i], u, d)) + SumSet(auc, I \ {i}, W, u, d)
ShutdownEnd(p, i) == p.esm /\ p.auc[i].gen = 1
C11CloseWinnerOnly(nd) ==
  IsStep(nd) /\ nd.a \notin BidActs =>
     LET p == Pre(nd) s == Post(nd) I == ClosedSet(nd)
         Must == {i \in I : ~ShutdownEnd(p, i)}                 \* these must be won by their standing bidder
     IN /\ \E W \in {X \in SUBSET I : Must \subseteq X} :
              \A u \in UserSet : \A d \in {CMST, HARBOR, ATOM} : s.bal[u][d] - p.bal[u][d] = SumSet(p.auc, I, W, u, d)
        /\ \A i \in Must : p.auc[i].nb > 0
(* ... and it does end: after the generation's hook ran with token-mint data present, no auction with a        *)
(* standing bid is left beyond its end time                                                                    *)
HookOf(nd) == IF nd.a = "HookV1" THEN 1 ELSE IF nd.a = "Block" THEN 2 ELSE 0
C11ClosedAtEnd(nd) ==
  HookOf(nd) # 0 /\ Pre(nd).tm =>
     LET s == Post(nd) IN
     \A i \in 1..Len(s.auc) : LET a == s.auc[i] IN
        a.gen = HookOf(nd) /\ a.nb > 0 /\ IdxOf(Pre(nd).auc, a.gen, a.id) # 0 => ~(s.t > a.endT \/ s.t > a.bidEndT)

(* ------------------------------ C13 ------------------------------ *)
C13NetFeesNonNeg(nd) == nd.st.nf >= 0
C13CollectorDelta(nd) == IsStep(nd) => CollectorDelta(Pre(nd), Post(nd))
C13RootBacked(nd) == nd.a = "Init" => CollectorBacked(Post(nd))

Formulas == <<"Conf_Bid", "Conf_HookV1", "Conf_Block", "Conf_Env",
              "C11_CustodyCovers", "C11_CustodyExact", "C11_CustodyDelta", "C11_BidImproves", "C11_OutbidRefunded",
              "C11_RejectedBidFree", "C11_CloseWinnerOnly", "C11_ClosedAtEnd",
              "C13_NetFeesNonNeg", "C13_CollectorDelta", "C13_RootBacked">>
Holds(f, i) ==
  LET nd == Nd(i) IN
  CASE f = "Conf_Bid" -> ConfBid(nd)
    [] f = "Conf_HookV1" -> ConfHookV1(nd)
    [] f = "Conf_Block" -> ConfBlock(nd)
    [] f = "Conf_Env" -> ConfEnv(nd)
    [] f = "C11_CustodyCovers" -> C11CustodyCovers(nd)
    [] f = "C11_CustodyExact" -> C11CustodyExact(nd)
    [] f = "C11_CustodyDelta" -> C11CustodyDelta(nd)
    [] f = "C11_BidImproves" -> C11BidImproves(nd)
    [] f = "C11_OutbidRefunded" -> C11OutbidRefunded(nd)
    [] f = "C11_RejectedBidFree" -> C11RejectedBidFree(nd)
    [] f = "C11_CloseWinnerOnly" -> C11CloseWinnerOnly(nd)
    [] f = "C11_ClosedAtEnd" -> C11ClosedAtEnd(nd)
    [] f = "C13_NetFeesNonNeg" -> C13NetFeesNonNeg(nd)
    [] f = "C13_CollectorDelta" -> C13CollectorDelta(nd)
    [] f = "C13_RootBacked" -> C13RootBacked(nd)

Judge == \A k \in 1..Len(Formulas) : Holds(Formulas[k], cur) \/ PrintT(<<"FAIL", Formulas[k], cur>>)

(* counters witness the DRIVEN situation (pre-state + request), not the outcome the code produced *)
DueIn(nd, g) == \E i \in 1..Len(Pre(nd).auc) : LET a == Pre(nd).auc[i] IN a.gen = g /\ a.nb > 0 /\ (Pre(nd).t > a.endT \/ Pre(nd).t > a.bidEndT)
ShutdownHook(nd) == nd.a = "HookV1" /\ Pre(nd).esm
Count(P(_)) == Cardinality({i \in 1..NLog : P(Nd(i))})
Stats == PrintT(<<"STATS", [nodes |-> NLog,
   acceptedBids |-> Count(Accepted),
   outbids |-> Count(LAMBDA nd : Accepted(nd) /\ OldAuc(nd).nb > 0),
   rejectedBids |-> Count(LAMBDA nd : nd.a \in BidActs /\ ~nd.res.ok),
   closes |-> Count(LAMBDA nd : IsStep(nd) /\ nd.st.ev.closed # ""),
   closesGen1 |-> Count(LAMBDA nd : nd.a = "HookV1" /\ nd.st.ev.closed # ""),
   closesGen2 |-> Count(LAMBDA nd : nd.a = "Block" /\ nd.st.ev.closed # ""),
   starts |-> Count(LAMBDA nd : IsStep(nd) /\ nd.st.ev.started # ""),
   noTokenMintHooks |-> Count(LAMBDA nd : HookOf(nd) # 0 /\ ~Pre(nd).tm /\ nd.st.ev.stuck # ""),
   dueGen1 |-> Count(LAMBDA nd : nd.a = "HookV1" /\ Pre(nd).tm /\ DueIn(nd, 1)),
   dueGen2 |-> Count(LAMBDA nd : nd.a = "Block" /\ Pre(nd).tm /\ \E i \in 1..Len(Pre(nd).auc) : LET a == Pre(nd).auc[i] IN a.gen = 2 /\ a.nb > 0 /\ Pre(nd).t + nd.args.dt > a.endT),
   shutdownEndsWithBid |-> Count(LAMBDA nd : ShutdownHook(nd) /\ \E i \in 1..Len(Pre(nd).auc) : Pre(nd).auc[i].gen = 1 /\ Pre(nd).auc[i].nb > 0),
   shutdownEndsNoBid |-> Count(LAMBDA nd : ShutdownHook(nd) /\ \E i \in 1..Len(Pre(nd).auc) : Pre(nd).auc[i].gen = 1 /\ Pre(nd).auc[i].nb = 0),
   shutdownEndsSurplus |-> Count(LAMBDA nd : ShutdownHook(nd) /\ \E i \in 1..Len(Pre(nd).auc) : Pre(nd).auc[i].gen = 1 /\ Pre(nd).auc[i].kind = "surplus"),
   shutdownEndsDebt |-> Count(LAMBDA nd : ShutdownHook(nd) /\ \E i \in 1..Len(Pre(nd).auc) : Pre(nd).auc[i].gen = 1 /\ Pre(nd).auc[i].kind = "debt"),
   shutdownBlocksGen2 |-> Count(LAMBDA nd : nd.a = "Block" /\ Pre(nd).esm /\ \E i \in 1..Len(Pre(nd).auc) : Pre(nd).auc[i].gen = 2),
   feeMoves |-> Count(LAMBDA nd : IsStep(nd) /\ nd.st.nf # Log[nd.parent].st.nf) ]>>)
AllSeen == Stats /\ TLCGet("stats").distinct = NLog
=============================================================================
