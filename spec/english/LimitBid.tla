------------------------------- MODULE LimitBid -------------------------------
(* Limit-bid book of x/auctionsV2 (keeper/bid.go: DepositLimitAuctionBid, CancelLimitAuctionBid,           *)
(* WithdrawLimitAuctionBid) for one market (debt asset = stable, collateral asset = atom).                  *)
(* State record s:                                                                                          *)
(*   dep     sequence of deposits [prem, u, amt, denom], one per (premium, depositor)                      *)
(*   total, totalFound   LimitBidProtocolData.BidValue of the market                                        *)
(*   bal     [account -> [denom -> amount]] for u1..u3 and the auctionsV2 module account a2                 *)
(*   held    [denom -> amount] escrow of live Dutch auctions in a2 (debt collected so far, collateral left) *)
(* Configuration c: wfn/wfd withdrawal fee, cfn/cfd closing (cancel) fee.                                   *)
EXTENDS Integers, Sequences, FiniteSets

DebtDenom == "ucmst"
CollDenom == "uatom"
LUsers == {"u1", "u2", "u3"}
LDenoms == {"ucmst", "uatom", "uother"}
MaxPremium == 30

Fee(x, n, d) == (x * n) \div d                       \* Dec.Mul(amount).TruncateInt(), x >= 0
DIdx(dep, prem, u) == LET S == {i \in 1..Len(dep) : dep[i].prem = prem /\ dep[i].u = u} IN IF S = {} THEN 0 ELSE CHOOSE i \in S : TRUE
DRemoveAt(q, i) == SubSeq(q, 1, i - 1) \o SubSeq(q, i + 1, Len(q))
DRange(q) == {q[i] : i \in 1..Len(q)}
LOk(s) == [ok |-> TRUE, st |-> s]
LFail(s) == [ok |-> FALSE, st |-> s]
LMove(b, from, to, d, x) == [b EXCEPT ![from][d] = @ - x, ![to][d] = @ + x]

(* MsgDepositLimitBid(bidder, collateral id, debt id, premium, coin); coll / debt are the asset ids of the message *)
Deposit(s, c, u, coll, debt, prem, amt, denom) ==
  IF amt <= 0 \/ prem < 0 \/ prem > MaxPremium \/ coll # 1 \/ debt # 2 \/ denom # DebtDenom THEN LFail(s)
  ELSE IF s.bal[u][denom] < amt THEN LFail(s)
  ELSE LET i == DIdx(s.dep, prem, u)
           d1 == IF i = 0 THEN Append(s.dep, [prem |-> prem, u |-> u, amt |-> amt, denom |-> denom])
                 ELSE [s.dep EXCEPT ![i].amt = @ + amt]
       IN LOk([s EXCEPT !.dep = d1, !.bal = LMove(@, u, "a2", denom, amt), !.total = @ + amt, !.totalFound = TRUE])

(* MsgCancelLimitBid: whole deposit back minus the closing fee, in the deposited denomination *)
Cancel(s, c, u, coll, debt, prem) ==
  LET i == IF coll = 1 /\ debt = 2 /\ prem >= 0 THEN DIdx(s.dep, prem, u) ELSE 0 IN
  IF i = 0 THEN LFail(s)
  ELSE LET e == s.dep[i]
           fee == IF e.amt > 0 THEN Fee(e.amt, c.cfn, c.cfd) ELSE 0
           out == IF e.amt > 0 THEN e.amt - fee ELSE 0
       IN IF s.bal["a2"][e.denom] < out THEN LFail(s)
          ELSE LOk([s EXCEPT !.dep = DRemoveAt(@, i), !.bal = LMove(@, "a2", u, e.denom, out), !.total = @ - e.amt])

(* MsgWithdrawLimitBid: only the deposited denomination, never more than the signer's own deposit; the whole     *)
(* deposit goes through the cancel path (closing fee), a part pays the amount minus the withdrawal fee            *)
Withdraw(s, c, u, coll, debt, prem, amt, denom) ==
  LET i == IF coll = 1 /\ debt = 2 /\ prem >= 0 THEN DIdx(s.dep, prem, u) ELSE 0 IN
  IF i = 0 \/ amt <= 0 THEN LFail(s)
  ELSE LET e == s.dep[i] IN
    IF denom # e.denom \/ amt > e.amt THEN LFail(s)
    ELSE IF amt = e.amt THEN Cancel(s, c, u, coll, debt, prem)
    ELSE LET fee == Fee(amt, c.wfn, c.wfd)
             out == IF e.amt > 0 THEN amt - fee ELSE 0
         IN IF s.bal["a2"][denom] < out THEN LFail(s)
            ELSE LOk([s EXCEPT !.dep[i].amt = @ - amt, !.bal = LMove(@, "a2", u, denom, out), !.total = @ - amt])

(* Automatic fill (LimitOrderBid in the begin blocker): used[i] units of deposit i are placed as a bid on a Dutch  *)
(* auction whose falling price has reached the deposit's premium - the whole deposit when it does not exceed the  *)
(* auction's remaining debt (the record is then deleted), otherwise exactly the remaining debt. How much is used   *)
(* depends on the auction (environment); the book must follow: deposits shrink by what was used, the pair total   *)
(* by the sum.                                                                                                     *)
RECURSIVE USum(_)
USum(q) == IF q = <<>> THEN 0 ELSE Head(q) + USum(Tail(q))
FillOk(s, used) == /\ Len(used) = Len(s.dep)
                   /\ \A i \in 1..Len(used) : used[i] >= 0 /\ (used[i] > 0 => used[i] <= s.dep[i].amt)
Fill(s, used) ==
  LET upd == [i \in 1..Len(s.dep) |-> [s.dep[i] EXCEPT !.amt = @ - used[i]]]
      keep == SelectSeq([i \in 1..Len(upd) |-> [e |-> upd[i], u |-> used[i]]], LAMBDA x : x.u = 0 \/ x.e.amt > 0)
  IN [s EXCEPT !.dep = [i \in 1..Len(keep) |-> keep[i].e], !.total = @ - USum(used)]

(* =========================== C11, limit bids =========================== *)
RECURSIVE LSum(_)
LSum(q) == IF q = <<>> THEN 0 ELSE Head(q) + LSum(Tail(q))
DSum(q, Op(_)) == LSum([i \in 1..Len(q) |-> Op(q[i])])
SumDep(s) == LET A(e) == e.amt IN DSum(s.dep, A)
Outstanding(s, d) == LET A(e) == IF e.denom = d /\ e.amt > 0 THEN e.amt ELSE 0 IN DSum(s.dep, A)
DepOf(s, prem, u) == LET i == DIdx(s.dep, prem, u) IN IF i = 0 THEN 0 ELSE s.dep[i].amt
DenomOf(s, prem, u) == LET i == DIdx(s.dep, prem, u) IN IF i = 0 THEN "" ELSE s.dep[i].denom

(* recorded total = sum of deposits (step form) *)
TotalFollows(p, s) == s.total - p.total = SumDep(s) - SumDep(p)
TotalMatches(s) == s.total = SumDep(s)
(* no deposit becomes negative *)
DepsStayNonNeg(p, s) == (\A i \in 1..Len(p.dep) : p.dep[i].amt >= 0) => (\A i \in 1..Len(s.dep) : s.dep[i].amt >= 0)
(* the outstanding deposits (and the escrow of live Dutch auctions) stay in custody: the surplus of the      *)
(* custody over them never shrinks                                                                           *)
Slack(s, d) == s.bal["a2"][d] - Outstanding(s, d) - s.held[d]
CustodyKeeps(p, s, D) == \A d \in D : Slack(s, d) >= Slack(p, d)
CustodyHolds(s) == \A d \in LDenoms : Slack(s, d) >= 0
(* a withdraw / cancel by u on (prem): pays at most what u's deposit shrinks by, minus the stated fee on it,  *)
(* only in the deposited denomination, never more than the deposit; nobody else is touched                  *)
MinI(a, b) == IF a <= b THEN a ELSE b
OwnOnly(p, s, c, u, prem, isCancel) ==
  LET dd == DenomOf(p, prem, u)
      x == DepOf(p, prem, u) - DepOf(s, prem, u)
      fee == IF isCancel THEN Fee(x, c.cfn, c.cfd) ELSE MinI(Fee(x, c.cfn, c.cfd), Fee(x, c.wfn, c.wfd))
  IN /\ x >= 0 /\ DepOf(s, prem, u) >= 0 /\ x <= DepOf(p, prem, u)
     /\ \A d \in LDenoms : s.bal[u][d] - p.bal[u][d] = (IF d = dd THEN s.bal[u][dd] - p.bal[u][dd] ELSE 0)
     /\ (dd # "" => s.bal[u][dd] - p.bal[u][dd] <= x - fee)
     /\ (dd = "" => \A d \in LDenoms : s.bal[u][d] = p.bal[u][d])
     /\ \A v \in LUsers \ {u} : s.bal[v] = p.bal[v]
     /\ \A i \in 1..Len(p.dep) : (p.dep[i].u # u \/ p.dep[i].prem # prem) => p.dep[i] \in DRange(s.dep)
=============================================================================
