SPECIFICATION Spec
CONSTANTS Bidders = {"u1", "u2"}  DepAmts = {10, 25}  Prems = {2, 5}  MaxDeps = 2  Fund = 60  Emit = FALSE  FillDebt = 25
INVARIANTS InvBookClean InvTotal InvNonNeg InvCustody
CHECK_DEADLOCK FALSE
