---------------------------- MODULE Trace_Locker ----------------------------
(* Executions of the REAL locker / rewards / collector / vault code (recorded by `vh english --world C`)     *)
(* judged against Locker.tla + Collector.tla. Every log node is one TLC state.                                *)
EXTENDS Locker, TLC, Json
CONSTANT LogFile
Log == ndJsonDeserialize(LogFile)
NLog == Len(Log)

VARIABLE cur
Init == cur \in 1..NLog
Next == UNCHANGED cur
Spec == Init /\ [][Next]_cur

Nd(i) == Log[i]
S(j) == [t |-> j.t, lockers |-> j.lockers, dep |-> j.dep, ids |-> j.ids, vaults |-> j.vaults, nf |-> j.nf, bal |-> j.bal, nl |-> j.nl, nv |-> j.nv, px |-> j.px]
Cfg(nd) == Log[nd.st.root].args.c
Pre(nd) == S(Log[nd.parent].st)
Post(nd) == S(nd.st)
IsStep(nd) == nd.a # "Init"
Same(x, y) == /\ QRange(x.lockers) = QRange(y.lockers) /\ Len(x.lockers) = Len(y.lockers) /\ x.dep = y.dep /\ x.ids = y.ids
              /\ QRange(x.vaults) = QRange(y.vaults) /\ Len(x.vaults) = Len(y.vaults) /\ x.nf = y.nf /\ x.bal = y.bal
              /\ x.nl = y.nl /\ x.nv = y.nv
Res(nd, r) == r.ok = nd.res.ok /\ Same(r.st, [Post(nd) EXCEPT !.t = Pre(nd).t])
LockerActs == {"CreateLocker", "DepositLocker", "WithdrawLocker", "CloseLocker", "RewardCalc"}
VaultActs == {"VaultCreate", "VaultDraw", "VaultClose"}
(* the savings reward of the step: what the collector handed to the locker module *)
Rw(nd) == LET x == Pre(nd).bal["col"][ST] - Post(nd).bal["col"][ST] IN IF x > 0 THEN x ELSE 0
NoInterest(nd) == Cfg(nd).sf = "0"

(* ------------------------------ conformance ------------------------------ *)
(* with a saving rate > 0 the accrued reward (a float amount of the code) may exceed the recorded net fees:   *)
(* the message is then rejected as a whole - the only failure the specification cannot predict                *)
LockerApp(nd) == LET i == LIdx(Pre(nd).lockers, nd.args.id) IN IF i = 0 THEN "a1" ELSE Pre(nd).lockers[i].app
RewardShort(nd) == nd.a \in LockerActs \ {"CreateLocker"} /\ ~nd.res.ok /\ Log[nd.parent].st.lsrOn[LockerApp(nd)] /\ Same(Pre(nd), Post(nd))
ConfLocker(nd) ==
  LET p == Pre(nd) g == nd.args r == Rw(nd) IN
  RewardShort(nd) \/
  CASE nd.a = "CreateLocker" -> Res(nd, CreateLocker(p, g.u, g.app, g.asset, g.amt))
    [] nd.a = "DepositLocker" -> Res(nd, DepositLocker(p, g.u, g.app, g.asset, g.id, g.amt, r))
    [] nd.a = "WithdrawLocker" -> Res(nd, WithdrawLocker(p, g.u, g.app, g.asset, g.id, g.amt, r))
    [] nd.a = "CloseLocker" -> Res(nd, CloseLocker(p, g.u, g.app, g.asset, g.id, r))
    [] nd.a = "RewardCalc" -> Res(nd, RewardCalc(p, g.app, g.id, r))
    [] OTHER -> TRUE
ConfVault(nd) ==
  nd.a \in VaultActs /\ NoInterest(nd) =>
    LET p == Pre(nd) g == nd.args c == Cfg(nd) IN
    CASE nd.a = "VaultCreate" -> Res(nd, VaultCreate(p, c, g.u, g.app, g.in, g.out))
      [] nd.a = "VaultDraw" -> Res(nd, VaultDraw(p, c, g.u, g.app, g.id, g.amt))
      [] nd.a = "VaultClose" -> Res(nd, VaultClose(p, c, g.u, g.app, g.id))

(* saving-rate change: the rewards credited to the lockers are read off the recorded step, everything else      *)
(* (lookup total, net fees, custody of collector and locker module) must follow from them                        *)
RsOf(nd) == LET p == Pre(nd) s == Post(nd) IN
            [i \in 1..Len(p.lockers) |-> NetOfId(s, p.lockers[i].id) - p.lockers[i].net]
ConfLsrChange(nd) ==
  nd.a = "LsrChange" =>
     LET p == Pre(nd) rs == RsOf(nd) IN
     IF nd.res.ok /\ LsrChangeOk(p, nd.args.app, rs) THEN Same(LsrChange(p, nd.args.app, rs), Post(nd)) ELSE FALSE

(* ------------------------------ C13 ------------------------------ *)
C13LockerTotals(nd) == TotalsMatch(Post(nd))
C13LockerCustody(nd) == LockerCustody(Post(nd))
(* a withdrawal pays the owner exactly the requested amount *)
C13WithdrawExact(nd) ==
  nd.a = "WithdrawLocker" /\ nd.res.ok =>
     LET p == Pre(nd) s == Post(nd) IN
     /\ s.bal[nd.args.u][ST] - p.bal[nd.args.u][ST] = nd.args.amt
     /\ \A v \in LkUsers \ {nd.args.u} : s.bal[v] = p.bal[v]
(* a close pays the owner exactly the full net balance (including the reward credited in the same step) *)
C13CloseExact(nd) ==
  nd.a = "CloseLocker" /\ nd.res.ok =>
     LET p == Pre(nd) s == Post(nd) IN
     /\ s.bal[nd.args.u][ST] - p.bal[nd.args.u][ST] = NetOfId(p, nd.args.id) + Rw(nd)
     /\ LIdx(s.lockers, nd.args.id) = 0
     /\ \A v \in LkUsers \ {nd.args.u} : s.bal[v] = p.bal[v]
(* a rejected locker message moves nothing; other locker messages never pay anybody *)
C13LockerNoLeak(nd) ==
  nd.a \in LockerActs /\ (~nd.res.ok \/ nd.a \in {"RewardCalc"}) => \A v \in LkUsers : Post(nd).bal[v] = Pre(nd).bal[v]
C13NetFeesNonNeg(nd) == NetFeesNonNeg(Post(nd))
C13CollectorDelta(nd) == IsStep(nd) => FeesFollowCustody(Pre(nd), Post(nd))
C13RootBacked(nd) == ~IsStep(nd) => Backed(Post(nd))
(* savings credited to lockers are exactly what left the collector for the locker module *)
C13SavingsExact(nd) ==
  nd.a \in LockerActs \cup {"LsrChange"} =>
     LET p == Pre(nd) s == Post(nd)
         paid == (IF nd.a = "WithdrawLocker" /\ nd.res.ok THEN nd.args.amt ELSE 0)
                 + (IF nd.a = "CloseLocker" /\ nd.res.ok THEN NetOfId(p, nd.args.id) + Rw(nd) ELSE 0)
         got == IF nd.a \in {"CreateLocker", "DepositLocker"} /\ nd.res.ok THEN nd.args.amt ELSE 0
     IN s.bal["lock"][ST] - p.bal["lock"][ST] = Rw(nd) + got - paid

Formulas == <<"Conf_Locker", "Conf_Vault", "Conf_LsrChange", "C13_LockerTotals", "C13_LockerCustody", "C13_WithdrawExact", "C13_CloseExact",
              "C13_LockerNoLeak", "C13_NetFeesNonNeg", "C13_CollectorDelta", "C13_RootBacked", "C13_SavingsExact">>
Holds(f, i) ==
  LET nd == Nd(i) IN
  CASE f = "Conf_Locker" -> ConfLocker(nd)
    [] f = "Conf_Vault" -> ConfVault(nd)
    [] f = "Conf_LsrChange" -> ConfLsrChange(nd)
    [] f = "C13_LockerTotals" -> C13LockerTotals(nd)
    [] f = "C13_LockerCustody" -> C13LockerCustody(nd)
    [] f = "C13_WithdrawExact" -> C13WithdrawExact(nd)
    [] f = "C13_CloseExact" -> C13CloseExact(nd)
    [] f = "C13_LockerNoLeak" -> C13LockerNoLeak(nd)
    [] f = "C13_NetFeesNonNeg" -> C13NetFeesNonNeg(nd)
    [] f = "C13_CollectorDelta" -> C13CollectorDelta(nd)
    [] f = "C13_RootBacked" -> C13RootBacked(nd)
    [] f = "C13_SavingsExact" -> C13SavingsExact(nd)
Judge == \A k \in 1..Len(Formulas) : Holds(Formulas[k], cur) \/ PrintT(<<"FAIL", Formulas[k], cur>>)

Count(P(_)) == Cardinality({i \in 1..NLog : P(Nd(i))})
OkAct(nd, a) == nd.a = a /\ nd.res.ok
ColDelta(nd) == IF IsStep(nd) THEN Post(nd).bal["col"][ST] - Pre(nd).bal["col"][ST] ELSE 0
Stats == PrintT(<<"STATS", [nodes |-> NLog,
   creates |-> Count(LAMBDA nd : OkAct(nd, "CreateLocker")),
   deposits |-> Count(LAMBDA nd : OkAct(nd, "DepositLocker")),
   withdraws |-> Count(LAMBDA nd : OkAct(nd, "WithdrawLocker")),
   closes |-> Count(LAMBDA nd : OkAct(nd, "CloseLocker")),
   rejected |-> Count(LAMBDA nd : nd.a \in LockerActs /\ ~nd.res.ok),
   rewards |-> Count(LAMBDA nd : nd.a \in LockerActs \cup {"LsrChange"} /\ Rw(nd) > 0),
   feeIn |-> Count(LAMBDA nd : ColDelta(nd) > 0),
   feeOut |-> Count(LAMBDA nd : ColDelta(nd) < 0),
   vaultConf |-> Count(LAMBDA nd : nd.a \in VaultActs /\ NoInterest(nd)),
   interestPaid |-> Count(LAMBDA nd : nd.a \in {"VaultRepay", "VaultClose"} /\ ~NoInterest(nd) /\ ColDelta(nd) > 0),
   penalties |-> Count(LAMBDA nd : nd.a = "DutchBid" /\ nd.res.ok /\ ColDelta(nd) > 0),
   rewardShort |-> Count(RewardShort),
   crossAppRewardCalc |-> Count(LAMBDA nd : nd.a = "RewardCalc" /\ LIdx(Pre(nd).lockers, nd.args.id) # 0 /\ nd.args.app # LockerApp(nd)
                                             /\ Log[nd.parent].st.lsrOn[nd.args.app] /\ Pre(nd).nf[nd.args.app][ST] >= 5 /\ Log[nd.parent].st.lage[LIdx(Pre(nd).lockers, nd.args.id)] >= 2592000),
   crossAppMsgs |-> Count(LAMBDA nd : nd.a \in {"DepositLocker", "WithdrawLocker", "CloseLocker"} /\ LIdx(Pre(nd).lockers, nd.args.id) # 0 /\ nd.args.app # LockerApp(nd)),
   wrongAssetMsgs |-> Count(LAMBDA nd : nd.a \in LockerActs \ {"RewardCalc"} /\ nd.args.asset # ST),
   lsrChanges |-> Count(LAMBDA nd : nd.a = "LsrChange" /\ nd.res.ok),
   lsrChangesMulti |-> Count(LAMBDA nd : nd.a = "LsrChange" /\ Log[nd.parent].st.lsrOn[nd.args.app] /\ Pre(nd).nf[nd.args.app][ST] >= 10
                                          /\ Cardinality({i \in 1..Len(Pre(nd).lockers) : Pre(nd).lockers[i].app = nd.args.app /\ Pre(nd).lockers[i].net >= 50
                                                                                            /\ Log[nd.parent].st.lage[i] >= 2592000}) >= 2),
   surplusDueDrained |-> Count(LAMBDA nd : nd.a = "Block" /\ \E k \in 1..Len(Log[nd.parent].st.eng) : LET e == Log[nd.parent].st.eng[k] IN
                                   e.kind = "surplus" /\ e.nb > 0 /\ Pre(nd).t + nd.args.dt > e.endT /\ Pre(nd).nf[e.app][ST] < e.lot
                                   /\ Pre(nd).bal["col"][ST] >= e.lot /\ SumApps(Pre(nd).nf, ST) > Pre(nd).nf[e.app][ST]),
   surplusDueFunded |-> Count(LAMBDA nd : nd.a = "Block" /\ \E k \in 1..Len(Log[nd.parent].st.eng) : LET e == Log[nd.parent].st.eng[k] IN
                                   e.kind = "surplus" /\ e.nb > 0 /\ Pre(nd).t + nd.args.dt > e.endT /\ Pre(nd).nf[e.app][ST] >= e.lot),
   debtDueWithLockers |-> Count(LAMBDA nd : nd.a = "Block" /\ Len(Pre(nd).lockers) > 0 /\ \E k \in 1..Len(Log[nd.parent].st.eng) : LET e == Log[nd.parent].st.eng[k] IN
                                   e.kind = "debt" /\ e.nb > 0 /\ Pre(nd).t + nd.args.dt > e.endT),
   savingsDuringAuction |-> Count(LAMBDA nd : nd.a \in LockerActs \ {"CreateLocker"} /\ Len(Log[nd.parent].st.eng) > 0 /\ LIdx(Pre(nd).lockers, nd.args.id) # 0
                                   /\ Log[nd.parent].st.lsrOn[LockerApp(nd)] /\ Log[nd.parent].st.lage[LIdx(Pre(nd).lockers, nd.args.id)] >= 2592000),
   rewardDue |-> Count(LAMBDA nd : nd.a \in LockerActs \ {"CreateLocker"} /\ LIdx(Pre(nd).lockers, nd.args.id) # 0 /\ nd.args.app = LockerApp(nd)
                                    /\ Log[nd.parent].st.lsrOn[nd.args.app] /\ Pre(nd).nf[nd.args.app][ST] >= 10
                                    /\ Pre(nd).lockers[LIdx(Pre(nd).lockers, nd.args.id)].net >= 50 /\ Log[nd.parent].st.lage[LIdx(Pre(nd).lockers, nd.args.id)] >= 2592000),
   twoApps |-> Count(LAMBDA nd : nd.st.nf["a1"][ST] > 0 /\ nd.st.nf["a2"][ST] > 0) ]>>)
AllSeen == Stats /\ TLCGet("stats").distinct = NLog
=============================================================================
