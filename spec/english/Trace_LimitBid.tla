---------------------------- MODULE Trace_LimitBid ----------------------------
(* Executions of the REAL limit-bid message handlers and of the automatic fill by Dutch auctions           *)
(* (recorded by `vh english --world B`) judged against LimitBid.tla. Every log node is one TLC state.       *)
EXTENDS LimitBid, TLC, Json
CONSTANT LogFile
Log == ndJsonDeserialize(LogFile)
NLog == Len(Log)

VARIABLE cur
Init == cur \in 1..NLog
Next == UNCHANGED cur
Spec == Init /\ [][Next]_cur

Nd(i) == Log[i]
S(j) == [dep |-> j.dep, total |-> j.total, totalFound |-> j.totalFound, bal |-> j.bal, held |-> j.held]
Cfg(nd) == Log[nd.st.root].args.c
Pre(nd) == S(Log[nd.parent].st)
Post(nd) == S(nd.st)
IsStep(nd) == nd.a # "Init"
Same(x, y) == /\ DRange(x.dep) = DRange(y.dep) /\ Len(x.dep) = Len(y.dep) /\ x.total = y.total /\ x.totalFound = y.totalFound
              /\ x.bal = y.bal /\ x.held = y.held
Res(nd, r) == r.ok = nd.res.ok /\ Same(r.st, Post(nd))
MsgActs == {"Deposit", "Cancel", "Withdraw"}

(* ------------------------------ conformance ------------------------------ *)
ConfDeposit(nd) == nd.a = "Deposit" =>
   LET g == nd.args IN Res(nd, Deposit(Pre(nd), Cfg(nd), g.u, g.coll, g.debt, g.prem, g.amt, g.denom))
ConfCancel(nd) == nd.a = "Cancel" =>
   LET g == nd.args IN Res(nd, Cancel(Pre(nd), Cfg(nd), g.u, g.coll, g.debt, g.prem))
ConfWithdraw(nd) == nd.a = "Withdraw" =>
   LET g == nd.args IN Res(nd, Withdraw(Pre(nd), Cfg(nd), g.u, g.coll, g.debt, g.prem, g.amt, g.denom))

(* block steps: the deposit book follows the automatic fills; how much of each deposit was used is read off the  *)
(* recorded step                                                                                                   *)
UsedOf(nd) == LET p == Pre(nd) s == Post(nd) IN [i \in 1..Len(p.dep) |-> p.dep[i].amt - DepOf(s, p.dep[i].prem, p.dep[i].u)]
ConfFill(nd) ==
  nd.a \in {"Block", "OpenDutch"} =>
     LET p == Pre(nd) s == Post(nd) used == UsedOf(nd) IN
     /\ FillOk(p, used)
     /\ LET f == Fill(p, used) IN DRange(f.dep) = DRange(s.dep) /\ Len(f.dep) = Len(s.dep) /\ f.total = s.total

(* ------------------------------ C11 ------------------------------ *)
C11LimitTotal(nd) == IF IsStep(nd) THEN TotalFollows(Pre(nd), Post(nd)) ELSE TotalMatches(Post(nd))
C11LimitNonNeg(nd) == IsStep(nd) => DepsStayNonNeg(Pre(nd), Post(nd))
(* messages: nothing but the owner's deposit may leave the account, in any denomination; block steps: the     *)
(* deposited denomination (the collateral side of Dutch settlements is C10's subject)                        *)
C11LimitCustody(nd) == IF ~IsStep(nd) THEN CustodyHolds(Post(nd))
                       ELSE IF nd.a \in MsgActs THEN CustodyKeeps(Pre(nd), Post(nd), LDenoms)
                       ELSE CustodyKeeps(Pre(nd), Post(nd), {DebtDenom})
(* (a deposit record an earlier violation already drove negative is not judged again) *)
C11LimitOwnOnly(nd) ==
  nd.a \in {"Cancel", "Withdraw"} /\ DepOf(Pre(nd), nd.args.prem, nd.args.u) >= 0 => OwnOnly(Pre(nd), Post(nd), Cfg(nd), nd.args.u, nd.args.prem, nd.a = "Cancel")
(* a deposit takes exactly the deposited amount from the depositor and touches nobody else *)
C11LimitDeposit(nd) ==
  nd.a = "Deposit" =>
     LET p == Pre(nd) s == Post(nd) g == nd.args x == DepOf(s, g.prem, g.u) - DepOf(p, g.prem, g.u) IN
     /\ x >= 0 /\ (nd.res.ok => x = g.amt) /\ (~nd.res.ok => x = 0)
     /\ \A d \in LDenoms : p.bal[g.u][d] - s.bal[g.u][d] = (IF d = g.denom THEN x ELSE 0)
     /\ \A v \in LUsers \ {g.u} : s.bal[v] = p.bal[v]
     /\ \A i \in 1..Len(p.dep) : (p.dep[i].u # g.u \/ p.dep[i].prem # g.prem) => p.dep[i] \in DRange(s.dep)
(* automatic fill (block steps): deposits only shrink, nobody's balance shrinks *)
C11LimitFill(nd) ==
  nd.a \in {"Block", "OpenDutch"} =>
     LET p == Pre(nd) s == Post(nd) IN
     /\ \A i \in 1..Len(s.dep) : DepOf(p, s.dep[i].prem, s.dep[i].u) >= s.dep[i].amt
     /\ \A u \in LUsers : \A d \in LDenoms : s.bal[u][d] >= p.bal[u][d]

Formulas == <<"Conf_Deposit", "Conf_Cancel", "Conf_Withdraw", "Conf_Fill",
              "C11_LimitTotal", "C11_LimitNonNeg", "C11_LimitCustody", "C11_LimitOwnOnly", "C11_LimitDeposit", "C11_LimitFill">>
Holds(f, i) ==
  LET nd == Nd(i) IN
  CASE f = "Conf_Deposit" -> ConfDeposit(nd)
    [] f = "Conf_Cancel" -> ConfCancel(nd)
    [] f = "Conf_Withdraw" -> ConfWithdraw(nd)
    [] f = "Conf_Fill" -> ConfFill(nd)
    [] f = "C11_LimitTotal" -> C11LimitTotal(nd)
    [] f = "C11_LimitNonNeg" -> C11LimitNonNeg(nd)
    [] f = "C11_LimitCustody" -> C11LimitCustody(nd)
    [] f = "C11_LimitOwnOnly" -> C11LimitOwnOnly(nd)
    [] f = "C11_LimitDeposit" -> C11LimitDeposit(nd)
    [] f = "C11_LimitFill" -> C11LimitFill(nd)
Judge == \A k \in 1..Len(Formulas) : Holds(Formulas[k], cur) \/ PrintT(<<"FAIL", Formulas[k], cur>>)

Count(P(_)) == Cardinality({i \in 1..NLog : P(Nd(i))})
OkAct(nd, a) == nd.a = a /\ nd.res.ok
(* Antecedent counters. They witness the situation that was DRIVEN (pre-state + request), never the outcome the  *)
(* code produced: a change of the outcome must not make the run look vacuous.                                     *)
DutchOf(nd) == Log[nd.parent].st.dutch
Touched(nd, i) == LET p == Pre(nd) IN DepOf(Post(nd), p.dep[i].prem, p.dep[i].u) # p.dep[i].amt \/ DIdx(Post(nd).dep, p.dep[i].prem, p.dep[i].u) = 0
AloneAtPremium(p, i) == \A j \in 1..Len(p.dep) : j # i => p.dep[j].prem # p.dep[i].prem
(* a block step reached a deposit that is equal to / larger than / smaller than the remaining debt of a live auction *)
Offered(nd, Rel(_, _)) == nd.a = "Block" /\ \E i \in 1..Len(Pre(nd).dep) : \E k \in 1..Len(DutchOf(nd)) :
                             DutchOf(nd)[k].debt > 0 /\ Rel(Pre(nd).dep[i].amt, DutchOf(nd)[k].debt) /\ Touched(nd, i)
ValidDeposit(nd) == nd.a = "Deposit" /\ nd.args.coll = 1 /\ nd.args.debt = 2 /\ nd.args.denom = DebtDenom /\ nd.args.prem >= 0 /\ nd.args.prem <= MaxPremium
                    /\ nd.args.amt > 0 /\ Pre(nd).bal[nd.args.u][DebtDenom] >= nd.args.amt
Stats == PrintT(<<"STATS", [nodes |-> NLog,
   deposits |-> Count(ValidDeposit),
   cancels |-> Count(LAMBDA nd : nd.a = "Cancel" /\ DepOf(Pre(nd), nd.args.prem, nd.args.u) > 0),
   withdraws |-> Count(LAMBDA nd : nd.a = "Withdraw" /\ nd.args.denom = DebtDenom /\ nd.args.amt > 0 /\ nd.args.amt <= DepOf(Pre(nd), nd.args.prem, nd.args.u)),
   withdrawOver |-> Count(LAMBDA nd : nd.a = "Withdraw" /\ nd.args.amt > DepOf(Pre(nd), nd.args.prem, nd.args.u) /\ DepOf(Pre(nd), nd.args.prem, nd.args.u) > 0),
   withdrawOtherDenom |-> Count(LAMBDA nd : nd.a = "Withdraw" /\ nd.args.denom # DebtDenom /\ DepOf(Pre(nd), nd.args.prem, nd.args.u) > 0),
   rejected |-> Count(LAMBDA nd : nd.a \in MsgActs /\ ~nd.res.ok),
   fills |-> Count(LAMBDA nd : nd.a = "Block" /\ \E i \in 1..Len(Pre(nd).dep) : Touched(nd, i)),
   fillsExact |-> Count(LAMBDA nd : Offered(nd, LAMBDA d, x : d = x)),
   fillsExactSingle |-> Count(LAMBDA nd : nd.a = "Block" /\ \E i \in 1..Len(Pre(nd).dep) : \E k \in 1..Len(DutchOf(nd)) :
                                 DutchOf(nd)[k].debt > 0 /\ Pre(nd).dep[i].amt = DutchOf(nd)[k].debt /\ Touched(nd, i) /\ AloneAtPremium(Pre(nd), i)),
   fillsOver |-> Count(LAMBDA nd : Offered(nd, LAMBDA d, x : d > x)),
   fillsUnder |-> Count(LAMBDA nd : Offered(nd, LAMBDA d, x : d < x /\ d > 0)) ]>>)
AllSeen == Stats /\ TLCGet("stats").distinct = NLog
=============================================================================
