----------------------------- MODULE MC_English -----------------------------
(* Bounded model of the English auctions. TLC checks the C11 / C13 formulas on the model and prints one     *)
(* "T" line per generated transition; the harness walks the transition graph on the real keepers.          *)
EXTENDS English, TLC, Json
CONSTANTS Gens,      \* subset of {1, 2}: which generation's hooks run
          Flag,      \* "surplus" | "debt" | "dist" | "none"   (auction mapping flags of the behaviour)
          Generic,   \* TRUE: the environment may open one generic generation-2 auction
          Tm0,       \* token-mint data present at the start
          Esm,       \* TRUE: the environment may execute the app's emergency shutdown (once)
          Nf0, Fund, MaxBids, MaxAuc, MaxT, Bidders, Emit

C == [L |-> 10, DL |-> 20, ST |-> 20, DT |-> 30, bf1n |-> 1, bf1d |-> 10, bf2n |-> 1, bf2d |-> 5, A1 |-> 100, B1 |-> 30, A2 |-> 200]

VARIABLE st
vars == <<st>>

UBal == [uatom |-> Fund, ucmst |-> Fund, uharbor |-> Fund]
Zero == [uatom |-> 0, ucmst |-> 0, uharbor |-> 0]
St0 == [t |-> 6, nf |-> Nf0, nfFound |-> TRUE,
        fl |-> [sur |-> Flag = "surplus", debt |-> Flag = "debt", dist |-> Flag = "dist", active |-> FALSE],
        bal |-> [u1 |-> UBal, u2 |-> UBal, u3 |-> UBal, ext |-> [uatom |-> 10000, ucmst |-> 10000, uharbor |-> 0],
                 col |-> [Zero EXCEPT !.ucmst = Nf0], a1 |-> Zero, a2 |-> Zero],
        auc |-> <<>>, n1 |-> 0, n2 |-> 0, tm |-> Tm0, esm |-> FALSE, nfo |-> [uharbor |-> 0, uatom |-> 0]]
InitArgs == [c |-> C, nf0 |-> Nf0, fund |-> Fund, sur |-> Flag = "surplus", debt |-> Flag = "debt", dist |-> Flag = "dist", tm |-> Tm0]

(* identity of a model state, compact (the harness only needs it to rebuild the transition graph) *)
Key(s) == <<s.t, s.nf, s.fl.active, s.n1, s.n2, s.tm, s.esm,
            [i \in 1..Len(s.auc) |-> <<s.auc[i].gen, s.auc[i].id, s.auc[i].bid, s.auc[i].pay, s.auc[i].bidder, s.auc[i].nb, s.auc[i].endT, s.auc[i].bidEndT>>],
            [u \in {"u1", "u2", "u3"} |-> <<s.bal[u][CMST], s.bal[u][HARBOR], s.bal[u][ATOM]>>],
            <<s.bal["col"][CMST], s.bal["a1"][CMST], s.bal["a1"][HARBOR], s.bal["a2"][CMST], s.bal["a2"][HARBOR], s.bal["a2"][ATOM]>>>>
Out(a, args, pre, post) ==
  IF Emit THEN PrintT(<<"T", ToJson([a |-> a, args |-> args, pre |-> Key(pre), post |-> Key(post)])>>) ELSE TRUE

Init == st = St0 /\ Out("Init", InitArgs, St0, St0)

Step(a, args, post) ==
  /\ st' = post
  /\ Out(a, args, st, post)

(* bid amounts worth trying on auction a: equal, barely improving, just short of improving, clearly improving, far off *)
Amts(a) ==
  IF a.kind = "debt"
  THEN LET f == IF a.gen = 1 THEN Change(a.bid, C.bf1n, C.bf1d) ELSE Change(a.bid, C.bf2n, C.bf2d) IN
       {x \in {a.bid + 1, a.bid, a.bid - f + 1, a.bid - f, a.bid - f - 3} : x >= 0}
  ELSE LET f == IF a.gen = 1 THEN Change(a.bid, C.bf1n, C.bf1d) ELSE Change(a.bid, C.bf2n, C.bf2d)
           base == IF a.nb = 0 /\ a.bid = 0 THEN 5 ELSE a.bid IN
       {x \in {base - 1, base, base + f - 1, base + f, base + f + 4} : x >= 0}

DoBid ==
  \E i \in 1..Len(st.auc), u \in Bidders :
    LET a == st.auc[i] IN
    \E amt \in Amts(a), good \in BOOLEAN :
      /\ a.gen \in Gens \/ a.kind = "generic"
      /\ a.nb < MaxBids
      /\ (~good => amt = a.bid)                         \* one wrong-denomination attempt per auction and bidder
      /\ LET denom == IF good THEN a.bidD ELSE a.lotD IN
         IF a.gen = 1 /\ a.kind = "surplus"
         THEN LET r == BidV1Surplus(st, C, u, a.id, amt, denom) IN
              Step("BidV1Surplus", [u |-> u, id |-> a.id, amt |-> amt, denom |-> denom], r.st)
         ELSE IF a.gen = 1
         THEN LET r == BidV1Debt(st, C, u, a.id, amt, denom, C.L, CMST) IN
              Step("BidV1Debt", [u |-> u, id |-> a.id, amt |-> amt, denom |-> denom, exp |-> C.L, expDenom |-> CMST], r.st)
         ELSE LET r == BidV2(st, C, u, a.id, amt, denom) IN
              Step("BidV2", [u |-> u, id |-> a.id, amt |-> amt, denom |-> denom], r.st)

(* attacker-chosen contents that name no auction / the wrong expected payment *)
DoBadBid ==
  \E u \in Bidders :
    \/ /\ 1 \in Gens /\ Flag = "debt" /\ st.n1 > 0
       /\ \E e \in {C.L - 1, C.L + 1} :
            LET r == BidV1Debt(st, C, u, st.n1, C.DL - 5, HARBOR, e, CMST) IN
            Step("BidV1Debt", [u |-> u, id |-> st.n1, amt |-> C.DL - 5, denom |-> HARBOR, exp |-> e, expDenom |-> CMST], r.st)
    \/ /\ 2 \in Gens
       /\ LET r == BidV2(st, C, u, st.n2 + 1, 7, HARBOR) IN
          Step("BidV2", [u |-> u, id |-> st.n2 + 1, amt |-> 7, denom |-> HARBOR], r.st)

DoHookV1 == 1 \in Gens /\ Step("HookV1", [x |-> 0], HookV1(st, C))

DoBlock == 2 \in Gens /\ st.t < MaxT /\ \E dt \in {C.A2 \div 2, C.A2 + 1} : Step("Block", [dt |-> dt], Block(st, C, dt))
DoAdvance == 2 \notin Gens /\ st.t < MaxT /\ \E dt \in {C.B1 + 1, C.A1 + 1} : Step("Advance", [dt |-> dt], [st EXCEPT !.t = @ + dt])
DoGeneric == Generic /\ st.n2 = 0 /\ LET r == StartGeneric(st, C, 7, 12) IN Step("StartGeneric", [lot |-> 7, minBid |-> 12], r.st)
DoSurplusFund == Flag = "dist" /\ LET r == SurplusFund(st, C) IN Step("SurplusFund", [x |-> 0], r.st)
DoSeed == Flag = "dist" /\ st.nf < 60 /\ st.bal["ext"][CMST] < 10040 /\ Step("SeedFees", [x |-> 13], SeedFees(st, 13))
DoEsm == Esm /\ ~st.esm /\ Step("EsmOn", [x |-> 0], EsmOn(st))
DoMint == ~st.tm /\ Step("MintGenesis", [x |-> 0], MintGenesis(st).st)

Next == DoBid \/ DoBadBid \/ DoHookV1 \/ DoBlock \/ DoAdvance \/ DoGeneric \/ DoMint \/ DoSurplusFund \/ DoSeed \/ DoEsm
Spec == Init /\ [][Next]_vars

StateBound == st.n1 + st.n2 <= MaxAuc /\ st.t <= MaxT

(* ---- C11 / C13 on the model ---- *)
InvCustodyCovers == CustodyCovers(st)
InvCustodyExact == CustodyExact(st)
InvNetFeesNonNeg == st.nf >= 0
InvCollectorBacked == CollectorBacked(st)
InvOneAuction == Cardinality({i \in 1..Len(st.auc) : st.auc[i].kind # "generic"}) <= 1
=============================================================================
