----------------------------- MODULE MC_LimitBid -----------------------------
(* Bounded model of the limit-bid book with attacker-chosen message contents. *)
EXTENDS LimitBid, TLC, Json
CONSTANTS Bidders, DepAmts, Prems, MaxDeps, Fund, Emit,
          FillDebt   \* > 0: an abstract Dutch auction with that remaining debt may fill any deposit (design-level run, Emit = FALSE)

C == [wfn |-> 1, wfd |-> 10, cfn |-> 1, cfd |-> 5]
VARIABLES st, ndep
vars == <<st, ndep>>

UBal == [ucmst |-> Fund, uatom |-> Fund, uother |-> Fund]
St0 == [dep |-> <<>>, total |-> 0, totalFound |-> FALSE,
        bal |-> [u1 |-> UBal, u2 |-> UBal, u3 |-> UBal, a2 |-> [ucmst |-> 0, uatom |-> 50, uother |-> 0]],
        held |-> [ucmst |-> 0, uatom |-> 50, uother |-> 0]]
InitArgs == [c |-> C, fund |-> Fund, dutch |-> TRUE]
Key(s) == <<[i \in 1..Len(s.dep) |-> <<s.dep[i].prem, s.dep[i].u, s.dep[i].amt>>], s.total, s.totalFound,
            [u \in {"u1", "u2", "u3", "a2"} |-> <<s.bal[u].ucmst, s.bal[u].uatom, s.bal[u].uother>>]>>
Out(a, args, pre, post) ==
  IF Emit THEN PrintT(<<"T", ToJson([a |-> a, args |-> args, pre |-> Key(pre), post |-> Key(post)])>>) ELSE TRUE
Init == st = St0 /\ ndep = 0 /\ Out("Init", InitArgs, St0, St0)
Step(a, args, post) == st' = post /\ Out(a, args, st, post)

DoDeposit == /\ ndep < MaxDeps
             /\ \E u \in Bidders, prem \in Prems, amt \in DepAmts :
                  /\ Step("Deposit", [u |-> u, coll |-> 1, debt |-> 2, prem |-> prem, amt |-> amt, denom |-> DebtDenom],
                          Deposit(st, C, u, 1, 2, prem, amt, DebtDenom).st)
                  /\ ndep' = ndep + 1
DoBadDeposit == \E u \in Bidders :
                  \/ Step("Deposit", [u |-> u, coll |-> 1, debt |-> 2, prem |-> 31, amt |-> 5, denom |-> DebtDenom], Deposit(st, C, u, 1, 2, 31, 5, DebtDenom).st) /\ UNCHANGED ndep
                  \/ Step("Deposit", [u |-> u, coll |-> 1, debt |-> 2, prem |-> 2, amt |-> 5, denom |-> CollDenom], Deposit(st, C, u, 1, 2, 2, 5, CollDenom).st) /\ UNCHANGED ndep
DoCancel == \E u \in Bidders, prem \in Prems :
              Step("Cancel", [u |-> u, coll |-> 1, debt |-> 2, prem |-> prem], Cancel(st, C, u, 1, 2, prem).st) /\ UNCHANGED ndep
(* withdraw: amounts below, equal to, above and far above the own deposit; deposited, collateral, unrelated denomination *)
WAmts(d) == IF d <= 0 THEN {3} ELSE {x \in {d - 7, d, d + 1, 40} : x > 0}
DoWithdraw == \E u \in Bidders, prem \in Prems :
                \E amt \in WAmts(DepOf(st, prem, u)), denom \in LDenoms :
                  /\ (denom # DebtDenom => amt \in {DepOf(st, prem, u) - 7, 40, 3})
                  /\ Step("Withdraw", [u |-> u, coll |-> 1, debt |-> 2, prem |-> prem, amt |-> amt, denom |-> denom],
                          Withdraw(st, C, u, 1, 2, prem, amt, denom).st)
                  /\ UNCHANGED ndep
(* automatic fill of one deposit: below, exactly at and above the auction's remaining debt (DepAmts straddle FillDebt) *)
DoFill == FillDebt > 0 /\ ~Emit /\ \E i \in 1..Len(st.dep) :
            LET x == IF st.dep[i].amt <= FillDebt THEN st.dep[i].amt ELSE FillDebt
                used == [j \in 1..Len(st.dep) |-> IF j = i THEN x ELSE 0]
            IN x > 0 /\ FillOk(st, used) /\ st' = Fill(st, used) /\ UNCHANGED ndep
Next == DoDeposit \/ DoBadDeposit \/ DoCancel \/ DoWithdraw \/ DoFill
Spec == Init /\ [][Next]_vars

InvTotal == TotalMatches(st)
InvBookClean == \A i \in 1..Len(st.dep) : st.dep[i].amt > 0        \* no zero / negative record survives a step
InvNonNeg == \A i \in 1..Len(st.dep) : st.dep[i].amt >= 0
InvCustody == CustodyHolds(st)
=============================================================================
