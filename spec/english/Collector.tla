------------------------------- MODULE Collector -------------------------------
(* Net-fee book of x/collector (keeper/collector.go: UpdateCollector, SetNetFeeCollectedData,               *)
(* DecreaseNetFeeCollectedData, GetAmountFromCollector) together with the collector's custody account.       *)
(*   nf   [app -> [asset denom -> recorded net fees]]   apps "a1", "a2"; a missing record counts as 0       *)
(*   bal  [account -> [denom -> amount]]; the collector's module account is "col"                            *)
(* Every inflow moves coins into "col" and raises the record of (app, asset of the coins) by the same        *)
(* amount; every outflow lowers it by exactly the coins that leave.                                           *)
EXTENDS Integers, Sequences, FiniteSets

Apps == {"a1", "a2"}
FeeDenoms == {"ucmst", "uatom", "uharbor"}
Trunc(x, n, d) == (x * n) \div d                      \* Dec.Mul(x).TruncateInt() for x >= 0

BMove(b, from, to, d, x) == [b EXCEPT ![from][d] = @ - x, ![to][d] = @ + x]
BCredit(b, a, d, x) == [b EXCEPT ![a][d] = @ + x]
BDebit(b, a, d, x) == [b EXCEPT ![a][d] = @ - x]

(* fees / interest / penalties paid in: x coins of denomination d arrive from `from` for app *)
FeeIn(s, app, d, from, x) == [s EXCEPT !.bal = BMove(@, from, "col", d, x), !.nf[app][d] = @ + x]
(* DecreaseNetFeeCollectedData refuses to go below zero *)
CanPayOut(s, app, d, x) == x >= 0 /\ s.nf[app][d] - x >= 0 /\ s.bal["col"][d] >= x
FeeOut(s, app, d, to, x) == [s EXCEPT !.bal = BMove(@, "col", to, d, x), !.nf[app][d] = @ - x]

(* ------------------------------ C13, collector part ------------------------------ *)
SumApps(nf, d) == nf["a1"][d] + nf["a2"][d]
NetFeesNonNeg(s) == \A a \in Apps : \A d \in FeeDenoms : s.nf[a][d] >= 0
(* custody of every asset covers the sum over apps of the recorded net fees *)
Backed(s) == \A d \in FeeDenoms : s.bal["col"][d] >= SumApps(s.nf, d)
(* step form: the records move exactly with the custody, asset by asset *)
FeesFollowCustody(p, s) == \A d \in FeeDenoms : s.bal["col"][d] - p.bal["col"][d] = SumApps(s.nf, d) - SumApps(p.nf, d)
=============================================================================
