------------------------------- MODULE Locker -------------------------------
(* Lockers of x/locker (keeper/msg_server.go) with the savings-reward path of x/rewards                      *)
(* (CalculateLockerRewards: decrease net fees, collector -> locker module, credit locker and lookup total)   *)
(* and the vault messages that feed the collector (draw-down fee at create / draw, closing fee at close).    *)
(* State record s:                                                                                            *)
(*   lockers  sequence of [id, owner, app, net]          (asset: the stable asset)                            *)
(*   dep      [app -> LockerLookupTableData.DepositedAmount],  ids [app -> sequence of locker ids]            *)
(*   vaults   sequence of [id, owner, app, in, out, closing]                                                  *)
(*   nf, bal  as in Collector.tla; accounts u1..u3, col, lock                                                 *)
(*   nl, nv   locker / vault id counters;  px = oracle price of the collateral in stable units               *)
(* The savings reward r of a step is a float computation in the code; it is an environment amount taken      *)
(* from the recorded step and constrained by 0 <= r <= recorded net fees.                                     *)
EXTENDS Collector
ST == "ucmst"
CO == "uatom"
LkUsers == {"u1", "u2", "u3"}
AppId(app) == IF app = "a1" THEN 1 ELSE 2

LIdx(q, id) == LET S == {i \in 1..Len(q) : q[i].id = id} IN IF S = {} THEN 0 ELSE CHOOSE i \in S : TRUE
QRemoveAt(q, i) == SubSeq(q, 1, i - 1) \o SubSeq(q, i + 1, Len(q))
QRange(q) == {q[i] : i \in 1..Len(q)}
SelectSeqNe(q, x) == SelectSeq(q, LAMBDA y : y # x)
KOk(s) == [ok |-> TRUE, st |-> s]
KFail(s) == [ok |-> FALSE, st |-> s]
HasLocker(s, u, app) == \E i \in 1..Len(s.lockers) : s.lockers[i].owner = u /\ s.lockers[i].app = app

(* savings reward r credited to locker i (collector -> locker module, net fees lowered, totals raised) *)
Reward(s, i, r) ==
  LET app == s.lockers[i].app IN
  IF r = 0 THEN s
  ELSE [FeeOut(s, app, ST, "lock", r) EXCEPT !.lockers[i].net = @ + r, !.dep[app] = @ + r]
RewardOk(s, i, r) == r >= 0 /\ (r > 0 => CanPayOut(s, s.lockers[i].app, ST, r))

(* every locker message names (app, asset[, locker id]); arguments that do not belong together are rejected:    *)
(* only the stable asset is whitelisted for lockers, and a locker is only reachable under its own app           *)
CreateLocker(s, u, app, asset, amt) ==
  IF asset # ST \/ amt <= 0 \/ HasLocker(s, u, app) \/ s.bal[u][ST] < amt THEN KFail(s)
  ELSE KOk([s EXCEPT !.bal = BMove(@, u, "lock", ST, amt), !.nl = @ + 1, !.dep[app] = @ + amt, !.ids[app] = Append(@, s.nl + 1),
                     !.lockers = Append(@, [id |-> s.nl + 1, owner |-> u, app |-> app, net |-> amt])])

DepositLocker(s, u, app, asset, id, amt, r) ==
  LET i == LIdx(s.lockers, id) IN
  IF i = 0 \/ amt <= 0 \/ asset # ST THEN KFail(s)
  ELSE IF s.lockers[i].owner # u \/ s.lockers[i].app # app \/ ~RewardOk(s, i, r) THEN KFail(s)
  ELSE LET s1 == Reward(s, i, r) IN
       IF s1.bal[u][ST] < amt THEN KFail(s)
       ELSE KOk([s1 EXCEPT !.bal = BMove(@, u, "lock", ST, amt), !.lockers[i].net = @ + amt, !.dep[app] = @ + amt])

WithdrawLocker(s, u, app, asset, id, amt, r) ==
  LET i == LIdx(s.lockers, id) IN
  IF i = 0 \/ amt <= 0 \/ asset # ST THEN KFail(s)
  ELSE IF s.lockers[i].owner # u \/ s.lockers[i].app # app \/ s.lockers[i].net < amt \/ ~RewardOk(s, i, r) THEN KFail(s)
  ELSE LET s1 == Reward(s, i, r) IN
       KOk([s1 EXCEPT !.bal = BMove(@, "lock", u, ST, amt), !.lockers[i].net = @ - amt, !.dep[app] = @ - amt])

CloseLocker(s, u, app, asset, id, r) ==
  LET i == LIdx(s.lockers, id) IN
  IF i = 0 \/ asset # ST THEN KFail(s)
  ELSE IF s.lockers[i].owner # u \/ s.lockers[i].app # app \/ ~RewardOk(s, i, r) THEN KFail(s)
  ELSE LET s1 == Reward(s, i, r)
           n == s1.lockers[i].net
       IN KOk([s1 EXCEPT !.bal = BMove(@, "lock", u, ST, n), !.dep[app] = @ - n, !.ids[app] = SelectSeqNe(@, id),
                         !.lockers = QRemoveAt(@, i)])

RewardCalc(s, app, id, r) ==
  LET i == LIdx(s.lockers, id) IN
  IF i = 0 THEN KFail(s)
  ELSE IF s.lockers[i].app # app \/ ~RewardOk(s, i, r) THEN KFail(s)
  ELSE KOk(Reward(s, i, r))

(* Governance changes the locker saving rate of (app, stable asset) through the collector lookup table           *)
(* (WasmUpdateCollectorLookupTable -> LockerIterateRewards): the savings of EVERY locker of the app are settled  *)
(* first. rs[i] = reward credited to s.lockers[i] (environment amounts, 0 for lockers of other apps).            *)
RECURSIVE KSum0(_)
KSum0(q) == IF q = <<>> THEN 0 ELSE Head(q) + KSum0(Tail(q))
LsrChangeOk(s, app, rs) == /\ Len(rs) = Len(s.lockers)
                           /\ \A i \in 1..Len(rs) : rs[i] >= 0 /\ (s.lockers[i].app # app => rs[i] = 0)
                           /\ CanPayOut(s, app, ST, KSum0(rs))
LsrChange(s, app, rs) ==
  LET tot == KSum0(rs) IN
  [FeeOut(s, app, ST, "lock", tot) EXCEPT !.lockers = [i \in 1..Len(s.lockers) |-> [s.lockers[i] EXCEPT !.net = @ + rs[i]]],
                                          !.dep[app] = @ + tot]

(* ---------------- vault messages as fee generators (stability fee 0: no interest) ---------------- *)
HasVault(s, u, app) == \E i \in 1..Len(s.vaults) : s.vaults[i].owner = u /\ s.vaults[i].app = app
CrOk(in, debt, px) == 2 * px * in >= 3 * debt          \* collateral price px : 1, minimum ratio 3/2
VaultCreate(s, c, u, app, in, out) ==
  IF in <= 0 \/ out < 10 \/ HasVault(s, u, app) \/ ~CrOk(in, out, s.px) \/ s.bal[u][CO] < in THEN KFail(s)
  ELSE LET fee == Trunc(out, c.ddn, c.ddd)
           s1 == [s EXCEPT !.bal = BCredit(BDebit(@, u, CO, in), u, ST, out)]        \* collateral in, debt minted to the owner ...
           s2 == IF fee > 0 THEN FeeIn(s1, app, ST, u, fee) ELSE s1                   \* ... minus the draw-down fee
       IN KOk([s2 EXCEPT !.nv = @ + 1,
                         !.vaults = Append(@, [id |-> s.nv + 1, owner |-> u, app |-> app, in |-> in, out |-> out, closing |-> Trunc(out, c.vcn, c.vcd)])])
VaultDraw(s, c, u, app, id, amt) ==
  LET i == LIdx(s.vaults, id) IN
  IF i = 0 \/ amt <= 0 THEN KFail(s)
  ELSE LET v == s.vaults[i] IN
    IF v.owner # u \/ v.app # app \/ ~CrOk(v.in, v.out + amt + v.closing, s.px) THEN KFail(s)
    ELSE LET fee == Trunc(amt, c.ddn, c.ddd)
             s1 == [s EXCEPT !.bal = BCredit(@, u, ST, amt), !.vaults[i].out = @ + amt]
         IN KOk(IF fee > 0 THEN FeeIn(s1, app, ST, u, fee) ELSE s1)
VaultClose(s, c, u, app, id) ==
  LET i == LIdx(s.vaults, id) IN
  IF i = 0 THEN KFail(s)
  ELSE LET v == s.vaults[i] IN
    IF v.owner # u \/ v.app # app \/ s.bal[u][ST] < v.out + v.closing THEN KFail(s)
    ELSE LET s1 == [s EXCEPT !.bal = BCredit(BDebit(@, u, ST, v.out), u, CO, v.in), !.vaults = QRemoveAt(@, i)]
         IN KOk(FeeIn(s1, app, ST, u, v.closing))

(* =========================== C13, locker part =========================== *)
RECURSIVE KSum(_)
KSum(q) == IF q = <<>> THEN 0 ELSE Head(q) + KSum(Tail(q))
NetOf(s, app) == KSum([i \in 1..Len(s.lockers) |-> IF s.lockers[i].app = app THEN s.lockers[i].net ELSE 0])
IdsOf(s, app) == {s.lockers[i].id : i \in {j \in 1..Len(s.lockers) : s.lockers[j].app = app}}
(* the lookup total of every app equals the sum of the net balances of its lockers (and lists exactly them) *)
TotalsMatch(s) == \A a \in Apps : s.dep[a] = NetOf(s, a) /\ QRange(s.ids[a]) = IdsOf(s, a) /\ Len(s.ids[a]) = Cardinality(IdsOf(s, a))
(* the locker custody holds at least the totals *)
LockerCustody(s) == s.bal["lock"][ST] >= s.dep["a1"] + s.dep["a2"]
NetOfId(s, id) == LET i == LIdx(s.lockers, id) IN IF i = 0 THEN 0 ELSE s.lockers[i].net
=============================================================================
