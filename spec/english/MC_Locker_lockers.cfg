SPECIFICATION Spec
CONSTANTS Users2 = {"u1", "u2"}  AppsOn = {"a1", "a2"}  Amts = {10}  MaxLockers = 2  MaxVaults = 0  Fund = 100  Emit = FALSE
INVARIANTS InvTotals InvLockerCustody InvNonNeg InvBacked
CHECK_DEADLOCK FALSE
