#!/usr/bin/env python3
"""Regenerates MANIFEST.json from checks/*.py META blocks (one source of truth)."""
import importlib.util, json, os, sys
HERE = os.path.dirname(os.path.abspath(__file__))
sys.path.insert(0, HERE)
V = os.path.dirname(HERE)
props = [json.loads(l)["id"] for l in open(os.path.join(V, "properties.jsonl"))]
NA = json.load(open(os.path.join(V, "checks", "not_applicable.json")))
checks, na = [], []
for p in props:
    f = os.path.join(V, "checks", p + ".py")
    if not os.path.exists(f):
        na.append(dict(property_id=p, reason=NA.get(p, "check not built yet in this framework; property not claimed")))
        continue
    sp = importlib.util.spec_from_file_location("m" + p, f)
    m = importlib.util.module_from_spec(sp)
    sp.loader.exec_module(m)
    M = m.META
    checks.append(dict(
        property_id=p,
        quick_cmd="bin/check %s --tier quick" % p,
        thorough_cmd="bin/check %s --tier thorough" % p,
        evidence_file="/verif/evidence/%s.json" % p,
        replay_cmd_template="bin/replay {path}",
        engine="tlc+vh",
        level_claimed=dict(category=M["category"], text=M["text"], design_ref="DESIGN.md section " + M["design_ref"]),
        level_note=M["note"],
        technique=M["technique"]))
hooks_commits = [l.strip() for l in open(os.path.join(V, "checks", "hook_commits.txt")) if l.strip()]
man = dict(
    version=1,
    setup_cmd="bin/setup.sh",
    hooks=dict(guard="verif (Go build tag)", enable="go build -tags verif (the harness is always built with it; /repo's own builds and tests never set it)",
               baseline_off_cmd="cd /repo && go test -mod=mod -json -vet=off -count=1 -timeout 25m ./...",
               source_commits=hooks_commits, add_only=True),
    engines=[dict(name="tlc+vh", path="/verif/bin/check", serves_properties=[c["property_id"] for c in checks],
                  kind_free_text="explicit TLA+ specifications (spec/) model-checked by TLC; Go harness vh (harness/) executes TLC-generated transitions and seeded drivers on the real comdex keepers and records tree logs; TLC trace specifications evaluate the property formulas and spec conformance on every recorded state")],
    checks=checks,
    notes="Verdicts come only from TLA+ formulas evaluated by TLC on states produced by the real code (DESIGN.md 3.5). Known findings (open entries, matched narrowly per formula and failing step) and the 'fixed:' list of repaired defects: KNOWN_FINDINGS.json plus one file per family under known/. Specification families beyond the listed properties run with bin/extra (evidence_extra/).",
    not_applicable=na)
json.dump(man, open(os.path.join(V, "MANIFEST.json"), "w"), indent=1)
print("MANIFEST: %d checks, %d not claimed" % (len(checks), len(na)))
