#!/usr/bin/env python3
"""Rewrites the table of repaired defects in DESIGN.md §0.3 from the "fixed:" lines of KNOWN_FINDINGS.json
(between the markers <!-- FIXED-TABLE-BEGIN --> and <!-- FIXED-TABLE-END -->)."""
import json, re, subprocess, os
R = os.path.dirname(os.path.dirname(os.path.abspath(__file__)))
kf = json.load(open(os.path.join(R, "KNOWN_FINDINGS.json")))
rows, seen = [], {}
for l in kf.get("fixed", []):
    m = re.match(r"fixed: property=(C\d+) ([0-9a-f]{7,}) (.*)", l)
    if not m:
        continue
    p, c, what = m.groups()
    if c in seen:           # one commit repairing several properties: one row
        rows[seen[c]][0].append(p)
        continue
    seen[c] = len(rows)
    rows.append([[p], c, what])
out = ["| # | properties | commit | what failed on the unchanged tree |", "|---|---|---|---|"]
for i, (ps, c, what) in enumerate(rows, 1):
    out.append("| %d | %s | `%s` | %s |" % (i, " ".join(ps), c, what.replace("|", "/")))
d = open(os.path.join(R, "DESIGN.md")).read()
b, e = "<!-- FIXED-TABLE-BEGIN -->", "<!-- FIXED-TABLE-END -->"
i, j = d.index(b), d.index(e)
d = d[:i + len(b)] + "\n" + "\n".join(out) + "\n" + d[j:]
open(os.path.join(R, "DESIGN.md"), "w").write(d)
print(len(rows), "rows")
