#!/usr/bin/env python3
"""bin/seedtest.py <seed-dir> <name> <property> [<property>...]
Confirms an independently seeded change and runs the quick checks against it.
 seed-dir contains patch.diff, demo_test.go, meta.json (written by a mutation sub-agent).
 1. scratch worktree of /repo: demo must PASS on the original tree, FAIL with the patch; `go build ./...` must succeed;
 2. bin/check <property> with VERIF_REPO=<worktree with patch> for every property given;
 3. result is stored as /verif/seeded/<name>/{patch.diff, demo_test.go, meta.json}; the worktree is removed."""
import json, os, shutil, subprocess, sys
src, name, props = sys.argv[1], sys.argv[2], sys.argv[3:]
meta = json.load(open(os.path.join(src, "meta.json")))
env = dict(os.environ, GOFLAGS="-mod=mod", GOPROXY="off", GOSUMDB="off", GOTOOLCHAIN="local")
W = os.environ.get("SEED_WT", "/tmp/rw/seedwt")   # fixed path: the Go build cache is keyed on it, so sequential runs share it
subprocess.run(["git", "-C", "/repo", "worktree", "remove", "--force", W], stderr=subprocess.DEVNULL)
os.makedirs("/tmp/rw", exist_ok=True)
subprocess.run(["git", "-C", "/repo", "worktree", "add", "--detach", W, "HEAD", "-q"], check=True)
res = dict(meta=meta)
try:
    demo_path = os.path.join(W, meta["demo_test_path"])
    shutil.copy(os.path.join(src, "demo_test.go"), demo_path)
    cmd = meta["demo_command"]
    def demo():
        p = subprocess.run(cmd, shell=True, cwd=W, env=env, stdout=subprocess.PIPE, stderr=subprocess.STDOUT, text=True, timeout=1800)
        return p.returncode, p.stdout[-1500:]
    rc0, out0 = demo()
    res["demo_passes_without_change"] = rc0 == 0
    ap = subprocess.run(["git", "-C", W, "apply", os.path.join(os.path.abspath(src), "patch.diff")], stdout=subprocess.PIPE, stderr=subprocess.STDOUT, text=True)
    res["patch_applies"] = ap.returncode == 0
    if ap.returncode != 0:
        res["apply_error"] = ap.stdout[-500:]
    else:
        b = subprocess.run("go build ./...", shell=True, cwd=W, env=env, stdout=subprocess.PIPE, stderr=subprocess.STDOUT, text=True)
        res["compiles"] = b.returncode == 0
        rc1, out1 = demo()
        res["demo_fails_with_change"] = rc1 != 0
        os.remove(demo_path)
        checks = {}
        for p in props:
            c = subprocess.run(["bin/check", p], cwd=os.environ.get("VERIF_DIR", "/verif"), env=dict(env, VERIF_REPO=W), stdout=subprocess.PIPE, stderr=subprocess.PIPE, text=True, timeout=3600)
            viol = [l for l in c.stdout.splitlines() if l.startswith("VIOLATION")]
            det = [l.strip() for l in c.stdout.splitlines() if "detail:" in l]
            checks[p] = dict(rc=c.returncode, violations=len(viol), formulas=[d.split("formula ")[1].split(" ")[0] for d in det])
        res["checks"] = checks
finally:
    subprocess.run(["git", "-C", "/repo", "worktree", "remove", "--force", W])
    subprocess.run([os.environ.get("VERIF_DIR", "/verif") + "/bin/genmod.sh"], env=env)
dst = os.path.join("/verif/seeded", name)
os.makedirs(dst, exist_ok=True)
shutil.copy(os.path.join(src, "patch.diff"), dst)
shutil.copy(os.path.join(src, "demo_test.go"), dst)
out = dict(property=meta.get("property"), summary=meta.get("summary"), needs_to_manifest=meta.get("needs_to_manifest"),
           files_changed=meta.get("files_changed"), demo_test_path=meta.get("demo_test_path"), demo_command=meta.get("demo_command"),
           seeded_by="independent sub-agent given only the property text and a scratch worktree of /repo",
           confirmed=dict(patch_applies=res.get("patch_applies"), compiles=res.get("compiles"), demo_passes_without_change=res.get("demo_passes_without_change"),
                          demo_fails_with_change=res.get("demo_fails_with_change"), agent_tests_run=meta.get("tests_run")),
           what_i_ran=["demo on original tree", "git apply patch.diff", "go build ./...", "demo with patch"] + ["VERIF_REPO=<patched worktree> bin/check %s" % p for p in props],
           checks=res.get("checks"))
try:   # a note written by hand (e.g. "superseded by repair ...") survives re-tests
    old_note = json.load(open(os.path.join(dst, "meta.json"))).get("note")
    if old_note:
        out["note"] = old_note
except Exception:
    pass
json.dump(out, open(os.path.join(dst, "meta.json"), "w"), indent=1)
print(name, json.dumps(out["confirmed"]), json.dumps(out["checks"]))
