#!/usr/bin/env python3
"""Shared machinery of /verif/bin/check (python3 stdlib only).

Pipeline of a check:  build harness from /repo (tag verif) -> TLC model run(s) (MC_*: design-level result +
transition dump) -> harness executes model transitions / seeded drivers on the REAL code and records a
tree log -> TLC trace run (Trace_*: every log node is a TLC state; property formulas and conformance are
evaluated by TLC) -> verdict, known-findings matching, replay file, evidence.

Exit codes: 0 = property held on everything explored; 1 = VIOLATION (printed); 2 = no verdict
(build failure, timeout, tool error, model counterexample that is not a real-code result).
"""
import fcntl, hashlib, json, os, re, shutil, subprocess, sys, time

VERIF = os.path.dirname(os.path.dirname(os.path.abspath(__file__)))
REPO = os.environ.get("VERIF_REPO", "/repo")
WORK = os.path.join(VERIF, ".work")
BIN = os.path.join(WORK, "bin", "vh")
SPEC = os.path.join(VERIF, "spec")
JAR = "/opt/veriftools/tla/tla2tools.jar:/opt/veriftools/tla/CommunityModules-deps.jar"
GOENV = dict(GOFLAGS="-mod=mod", GOPROXY="off", GOSUMDB="off", GOTOOLCHAIN="local")


class NoVerdict(Exception):
    pass


def log(*a):
    print(*a, file=sys.stderr, flush=True)


def sha_file(p):
    h = hashlib.sha256()
    with open(p, "rb") as f:
        for b in iter(lambda: f.read(1 << 20), b""):
            h.update(b)
    return h.hexdigest()


def sha_tree(d):
    h = hashlib.sha256()
    for root, _, files in sorted(os.walk(d)):
        for fn in sorted(files):
            p = os.path.join(root, fn)
            h.update(p.encode())
            h.update(sha_file(p).encode())
    return h.hexdigest()


class Lock:
    def __init__(self, name):
        os.makedirs(WORK, exist_ok=True)
        self.p = os.path.join(WORK, name + ".lock")

    def __enter__(self):
        self.f = open(self.p, "w")
        fcntl.flock(self.f, fcntl.LOCK_EX)

    def __exit__(self, *a):
        fcntl.flock(self.f, fcntl.LOCK_UN)
        self.f.close()


def build_harness():
    """(Re)build vh from /repo's current working tree with the verif tag. Incremental via the Go build cache."""
    env = dict(os.environ, **GOENV)
    with Lock("build"):
        os.makedirs(os.path.dirname(BIN), exist_ok=True)
        subprocess.run([os.path.join(VERIF, "bin", "genmod.sh")], check=True, env=env)
        t0 = time.time()
        p = subprocess.run(["go", "build", "-tags", "verif", "-o", BIN, "./cmd/vh"], cwd=os.path.join(VERIF, "harness"),
                           env=env, stdout=subprocess.PIPE, stderr=subprocess.STDOUT, text=True)
        if p.returncode != 0:
            log(p.stdout[-4000:])
            raise NoVerdict("harness/repo build failed")
        log("[build] vh built in %.1fs" % (time.time() - t0))
    return sha_file(BIN)


def run_vh(args, timeout=3600, cwd=None, env_extra=None):
    env = dict(os.environ, **GOENV)
    if env_extra:
        env.update(env_extra)
    t0 = time.time()
    try:
        p = subprocess.run([BIN] + args, cwd=cwd, env=env, stdout=subprocess.PIPE, stderr=subprocess.PIPE, text=True, timeout=timeout)
    except subprocess.TimeoutExpired:
        raise NoVerdict("harness timeout: vh " + " ".join(args))
    if p.returncode != 0:
        log(p.stdout[-3000:])
        log(p.stderr[-6000:])
        raise NoVerdict("harness failed (%d): vh %s" % (p.returncode, " ".join(args)))
    log("[vh] %s (%.1fs) %s" % (" ".join(args[:3]), time.time() - t0, p.stdout.strip().splitlines()[-1] if p.stdout.strip() else ""))
    return p.stdout


def stage_spec(dst, fams):
    os.makedirs(dst, exist_ok=True)
    for fam in ["common"] + list(fams):
        d = os.path.join(SPEC, fam)
        for fn in os.listdir(d):
            if fn.endswith((".tla", ".cfg")):
                shutil.copy(os.path.join(d, fn), os.path.join(dst, fn))


TLA_TUPLE = re.compile(r'^<<\s*"(FAIL|STATS|KNOWN|NOTE)"')


def parse_tla_value(s):
    """Parse the TLA+ values TLC prints (tuples, records, strings, ints, booleans, sets) into python."""
    pos = 0

    def ws():
        nonlocal pos
        while pos < len(s) and s[pos] in " \n\t\r":
            pos += 1

    def val():
        nonlocal pos
        ws()
        if s.startswith("<<", pos):
            pos += 2
            out = []
            ws()
            if s.startswith(">>", pos):
                pos += 2
                return out
            while True:
                out.append(val())
                ws()
                if s.startswith(">>", pos):
                    pos += 2
                    return out
                assert s[pos] == ",", s[pos:pos + 20]
                pos += 1
        if s[pos] == "[":
            pos += 1
            out = {}
            while True:
                ws()
                m = re.match(r"[A-Za-z_0-9]+", s[pos:])
                k = m.group(0)
                pos += len(k)
                ws()
                assert s.startswith("|->", pos), s[pos:pos + 20]
                pos += 3
                out[k] = val()
                ws()
                if s[pos] == "]":
                    pos += 1
                    return out
                assert s[pos] == ",", s[pos:pos + 20]
                pos += 1
        if s[pos] == "{":
            pos += 1
            out = []
            ws()
            if s[pos] == "}":
                pos += 1
                return out
            while True:
                out.append(val())
                ws()
                if s[pos] == "}":
                    pos += 1
                    return out
                assert s[pos] == ","
                pos += 1
        if s[pos] == '"':
            pos += 1
            b = []
            while s[pos] != '"':
                if s[pos] == "\\":
                    pos += 1
                b.append(s[pos])
                pos += 1
            pos += 1
            return "".join(b)
        m = re.match(r"-?\d+", s[pos:])
        if m:
            pos += len(m.group(0))
            return int(m.group(0))
        m = re.match(r"TRUE|FALSE", s[pos:])
        if m:
            pos += len(m.group(0))
            return m.group(0) == "TRUE"
        raise ValueError("cannot parse TLA value at: " + s[pos:pos + 40])

    return val()


def run_tlc(workdir, module, cfg, workers=4, timeout=1800, simulate=None, extra=None, heap="4g", coverage=False):
    """Runs TLC in workdir (spec files already staged). Returns dict(out, rc, wall, generated, distinct, ...)."""
    md = os.path.join(workdir, "md_%s_%d" % (cfg.replace(".cfg", ""), os.getpid()))
    cmd = ["java", "-XX:+UseParallelGC", "-Xss512m", "-Xmx" + heap, "-cp", JAR, "tlc2.TLC", "-workers", str(workers),
           "-metadir", md, "-config", cfg]
    if coverage:
        cmd += ["-coverage", "1"]
    if simulate:
        cmd += ["-simulate", simulate]
    if extra:
        cmd += extra
    cmd.append(module + ".tla")
    t0 = time.time()
    try:
        p = subprocess.run(cmd, cwd=workdir, stdout=subprocess.PIPE, stderr=subprocess.STDOUT, text=True, timeout=timeout)
    except subprocess.TimeoutExpired as e:
        subprocess.run(["pkill", "-f", md], check=False)
        if simulate:
            out = e.stdout if isinstance(e.stdout, str) else (e.stdout or b"").decode()
            return dict(out=out, rc=-1, wall=time.time() - t0, timeout=True)
        raise NoVerdict("TLC timeout on %s/%s" % (module, cfg))
    finally:
        shutil.rmtree(md, ignore_errors=True)
    out = p.stdout
    r = dict(out=out, rc=p.returncode, wall=time.time() - t0)
    m = re.search(r"(\d+) states generated, (\d+) distinct states found", out)
    if m:
        r["generated"], r["distinct"] = int(m.group(1)), int(m.group(2))
    m = re.search(r"The depth of the complete state graph search is (\d+)", out)
    if m:
        r["depth"] = int(m.group(1))
    r["ok"] = "Model checking completed. No error has been found." in out
    return r


def tlc_error_text(out):
    keep = []
    for l in out.splitlines():
        if l.startswith(("Error:", "Invariant ", "Action property", "The ", "***")) or "Exception" in l or "violated" in l:
            keep.append(l)
    return "\n".join(keep[:30])


def model_check(workdir, module, cfg, workers=4, timeout=1800, tfile=None, heap="4g"):
    """MC_ run. Design-level result; when the spec prints "T" lines (transition dump, workers=1) they are saved to tfile."""
    r = run_tlc(workdir, module, cfg, workers=workers, timeout=timeout, heap=heap)
    if not r.get("ok"):
        log(tlc_error_text(r["out"]) or r["out"][-3000:])
        raise NoVerdict("model run %s/%s did not complete cleanly (a model-level counterexample is not a verdict about the code)" % (module, cfg))
    if tfile:
        n = 0
        with open(tfile, "a") as f:
            for l in r["out"].splitlines():
                if l.startswith('<<"T", '):
                    f.write(l + "\n")
                    n += 1
        r["transitions_dumped"] = n
    r.pop("out")
    return r


def trace_check(workdir, module, cfg, logfile, workers=4, timeout=3600, heap="6g"):
    """Trace_ run over a recorded log. Returns dict(fails=[(formula,node)], stats={}, distinct, ...)."""
    # the cfg names the log file through CONSTANT LogFile = "log.ndjson": stage the log under that name
    dst = os.path.join(workdir, "log.ndjson")
    if os.path.abspath(logfile) != dst:
        if os.path.lexists(dst):
            os.remove(dst)
        os.symlink(os.path.abspath(logfile), dst)
    r = run_tlc(workdir, module, cfg, workers=workers, timeout=timeout, heap=heap)
    out = r.pop("out")
    fails, stats, notes = [], {}, []
    buf = None
    for l in out.splitlines():
        if buf is not None:
            buf += "\n" + l
            if buf.count("<<") == buf.count(">>"):
                v = parse_tla_value(buf)
                buf = None
                _dispatch(v, fails, stats, notes)
            continue
        if TLA_TUPLE.match(l):
            if l.count("<<") == l.count(">>"):
                _dispatch(parse_tla_value(l), fails, stats, notes)
            else:
                buf = l
    r.update(fails=fails, stats=stats, notes=notes)
    if not r.get("ok"):
        log(tlc_error_text(out) or out[-3000:])
        raise NoVerdict("trace run %s/%s did not complete (tool/spec error, not a verdict)" % (module, cfg))
    return r


def _set_path(obj, path, fn):
    parts = path.split(".")
    for k in parts[:-1]:
        obj = obj.get(k) if isinstance(obj, dict) else None
        if obj is None:
            return
    if isinstance(obj, dict) and isinstance(obj.get(parts[-1]), int):
        obj[parts[-1]] = fn(obj[parts[-1]])


def trace_check_chunked(workdir, module, cfg, logfile, chunk_nodes=15000, ptr_fields=(), workers=4, timeout=3600, heap="6g"):
    """Like trace_check, for big logs: the log is split at root nodes (parent = 0) into chunks of about chunk_nodes
    nodes, ids / parents (and the family's extra pointer fields, e.g. "st.root") are renumbered per chunk, TLC judges
    every chunk, FAIL node ids are mapped back to the ids of the full log and the STATS counters are summed."""
    chunks = []  # (path, offset, n)
    cur, off, total = [], 0, 0

    def flush():
        nonlocal cur, off
        if not cur:
            return
        path = os.path.join(workdir, "chunk_%d.ndjson" % len(chunks))
        with open(path, "w") as f:
            for n in cur:
                n["id"] -= off
                if n.get("parent", 0):
                    n["parent"] -= off
                for pf in ptr_fields:
                    _set_path(n, pf, lambda x: x - off if x else x)
                f.write(json.dumps(n) + "\n")
        chunks.append((path, off, len(cur)))
        off += len(cur)
        cur = []

    with open(logfile) as f:
        for line in f:
            if not line.strip():
                continue
            n = json.loads(line)
            total += 1
            if n.get("parent", 0) == 0 and len(cur) >= chunk_nodes:
                flush()
            cur.append(n)
    flush()
    if len(chunks) <= 1:
        for c in chunks:
            os.remove(c[0])
        return trace_check(workdir, module, cfg, logfile, workers=workers, timeout=timeout, heap=heap)
    agg = dict(fails=[], stats={}, notes=[], distinct=0, generated=0, wall=0.0, ok=True, chunks=len(chunks))
    for path, offset, n in chunks:
        r = trace_check(workdir, module, cfg, path, workers=workers, timeout=timeout, heap=heap)
        agg["fails"] += [(f, nid + offset) for f, nid in r["fails"]]
        for k, v in r["stats"].items():
            if isinstance(v, int) and not isinstance(v, bool):
                agg["stats"][k] = agg["stats"].get(k, 0) + v
            else:
                agg["stats"].setdefault(k, v)
        agg["distinct"] += r.get("distinct", 0)
        agg["generated"] += r.get("generated", 0)
        agg["wall"] += r["wall"]
        os.remove(path)
    return agg


def _dispatch(v, fails, stats, notes):
    if v[0] == "FAIL":
        fails.append((v[1], v[2]))
    elif v[0] == "STATS":
        stats.update(v[1])
    elif v[0] == "NOTE":
        notes.append(v[1:])


def read_log(path):
    nodes = []
    with open(path) as f:
        for l in f:
            if l.strip():
                nodes.append(json.loads(l))
    return nodes


def path_to(nodes, nid):
    out = []
    while nid and nid > 0:
        n = nodes[nid - 1]
        out.append(n)
        nid = n.get("parent", 0)
    return list(reversed(out))


def subset_match(pat, obj):
    if isinstance(pat, dict):
        if not isinstance(obj, dict):
            return False
        return all(k in obj and subset_match(v, obj[k]) for k, v in pat.items())
    return pat == obj


def load_known():
    """Open findings: KNOWN_FINDINGS.json plus per-family files known/<fam>.json (same format)."""
    out = []
    files = [os.path.join(VERIF, "KNOWN_FINDINGS.json")]
    kd = os.path.join(VERIF, "known")
    if os.path.isdir(kd):
        files += [os.path.join(kd, f) for f in sorted(os.listdir(kd)) if f.endswith(".json")]
    for p in files:
        if os.path.exists(p):
            with open(p) as f:
                out += [k for k in json.load(f).get("findings", []) if k.get("status", "open") == "open"]
    return out


def match_known(known, prop, formula, node):
    for k in known:
        if k["property"] != prop:
            continue
        if k.get("formula") and k["formula"] != formula:
            continue
        if subset_match(k.get("match", {}), node):
            return k
    return None


class Check:
    """One invocation of bin/check for one property."""

    def __init__(self, prop, tier, seed):
        self.prop, self.tier, self.seed = prop, tier, seed
        self.t0 = time.time()
        self.wd = os.path.join(WORK, "%s.%d" % (prop, os.getpid()))
        shutil.rmtree(self.wd, ignore_errors=True)
        os.makedirs(self.wd)
        self.violations = []   # (formula, node-dict, logfile, replay path)
        self.known_hits = {}   # finding id -> count
        self.nonconf = []      # conformance failures (not alarms)
        self.cov = {}
        self.assumptions = []
        self.samples = []
        self.known = load_known()

    def stage(self, *fams):
        stage_spec(self.wd, fams)

    def judge(self, tr, logfile, conf_prefix="Conf_", formula_props=None):
        """Classify the FAIL lines of a trace run. formula_props: optional map formula-prefix -> property id;
        default: the formula name starts with the property id (C17_...)."""
        nodes = None
        for formula, nid in tr["fails"]:
            if formula.startswith(conf_prefix):
                self.nonconf.append((formula, nid))
                continue
            p = formula.split("_")[0]
            if formula_props:
                p = formula_props.get(formula, p)
            if p != self.prop:
                continue  # belongs to a sibling property served by the same log
            if nodes is None:
                nodes = read_log(logfile)
            node = nodes[nid - 1]
            k = match_known(self.known, self.prop, formula, node)
            if k:
                self.known_hits[k["id"]] = self.known_hits.get(k["id"], 0) + 1
                continue
            if not any(v[0] == formula for v in self.violations):
                rp = self.write_replay(nodes, nid, formula)
                self.violations.append((formula, nid, rp))
            else:
                self.violations.append((formula, nid, None))

    def write_replay(self, nodes, nid, formula):
        d = os.path.join(VERIF, "replays")
        os.makedirs(d, exist_ok=True)
        p = os.path.join(d, "%s_%s_%d_n%d.ndjson" % (self.prop, formula, self.seed, nid))
        with open(p, "w") as f:
            f.write(json.dumps({"violated": formula, "property": self.prop, "seed": self.seed, "tier": self.tier}) + "\n")
            for n in path_to(nodes, nid):
                f.write(json.dumps(n) + "\n")
        return p

    def finish(self, level, coverage, assumptions=None):
        wall = time.time() - self.t0
        cov = dict(coverage)
        cov.setdefault("samples", self.samples[:5])
        cov["nonconforming_steps"] = len(self.nonconf)
        if self.nonconf:
            cov["first_nonconforming"] = [list(x) for x in self.nonconf[:5]]
        cov["known_findings_hit"] = self.known_hits
        ev = dict(property_id=self.prop, tier=self.tier, seed=self.seed, level=level, coverage=cov,
                  assumptions=(assumptions or []) + self.assumptions, wall_s=round(wall, 2), violations=len(self.violations))
        os.makedirs(os.path.join(VERIF, "evidence"), exist_ok=True)
        with open(os.path.join(VERIF, "evidence", self.prop + ".json"), "w") as f:
            json.dump(ev, f, indent=1, sort_keys=True)
        for k in self.known:
            if k["id"] in self.known_hits:
                print("KNOWN-FINDING: property=%s %s [%s] (%d occurrences this run)" % (self.prop, k["text"], k["id"], self.known_hits[k["id"]]))
        shutil.rmtree(self.wd, ignore_errors=True)
        if self.violations:
            seen = set()
            for formula, nid, rp in self.violations:
                if rp and formula not in seen:
                    seen.add(formula)
                    print("VIOLATION property=%s replay=%s" % (self.prop, rp))
                    print("  detail: formula %s is false at node %d of the recorded log (%d failing nodes in total)" % (formula, nid, sum(1 for v in self.violations if v[0] == formula)))
            return 1
        print("OK property=%s tier=%s seed=%d wall=%.1fs nonconforming=%d" % (self.prop, self.tier, self.seed, wall, len(self.nonconf)))
        return 0


def cached(name, key_parts, producer):
    """Family-level cache: properties served by the same log share one harness + TLC pass.
    key_parts must include the vh binary hash (embeds /repo's current sources), spec hash, tier, seed.
    producer(dir) must fill dir and return a JSON-able result. Returns (dir, result, was_cached)."""
    key = hashlib.sha256(json.dumps([name] + list(key_parts), sort_keys=True).encode()).hexdigest()[:24]
    root = os.path.join(WORK, "cache")
    os.makedirs(root, exist_ok=True)
    # prune: entries older than 3 h
    now = time.time()
    for d in os.listdir(root):
        p = os.path.join(root, d)
        try:
            if now - os.path.getmtime(p) > 3 * 3600:
                shutil.rmtree(p, ignore_errors=True)
        except OSError:
            pass
    d = os.path.join(root, name + "-" + key)
    with Lock("cache-" + name):
        rj = os.path.join(d, "result.json")
        if os.path.exists(rj):
            with open(rj) as f:
                return d, json.load(f), True
        shutil.rmtree(d, ignore_errors=True)
        os.makedirs(d)
        try:
            res = producer(d)
        except BaseException:
            shutil.rmtree(d, ignore_errors=True)
            raise
        with open(rj, "w") as f:
            json.dump(res, f)
        return d, res, False


def spec_hash(*fams):
    h = hashlib.sha256()
    for fam in ["common"] + list(fams):
        h.update(sha_tree(os.path.join(SPEC, fam)).encode())
    h.update(sha_file(os.path.join(VERIF, "bin", "vlib.py")).encode())
    return h.hexdigest()[:16]
