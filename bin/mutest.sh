#!/bin/sh
# bin/mutest.sh <patch.diff> <property>...   applies a patch to a scratch worktree of /repo, runs the quick checks
# against it (VERIF_REPO), prints one line per property, removes the worktree. Never touches /repo itself.
P="$1"; shift
N="mt$$"
W="/tmp/rw/$N"
mkdir -p /tmp/rw
git -C /repo worktree add --detach "$W" HEAD -q || exit 2
if ! git -C "$W" apply "$P"; then echo "PATCH DOES NOT APPLY: $P"; git -C /repo worktree remove --force "$W"; exit 2; fi
if ! (cd "$W" && GOFLAGS=-mod=mod GOPROXY=off go build ./... ) >/dev/null 2>&1; then echo "MUTANT DOES NOT COMPILE: $P"; git -C /repo worktree remove --force "$W"; exit 2; fi
for id in "$@"; do
  out=$(cd "$(dirname "$0")/.." && VERIF_REPO="$W" bin/check "$id" 2>/dev/null); rc=$?
  echo "$(basename $P) $id rc=$rc $(echo "$out" | grep -c '^VIOLATION') violation-lines $(echo "$out" | grep 'detail' | head -2 | sed 's/.*formula \([A-Za-z0-9_]*\).*/\1/' | tr '\n' ' ')"
done
git -C /repo worktree remove --force "$W"
