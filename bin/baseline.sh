#!/bin/sh
# Runs the repository's own suite with the verif guard OFF and compares with /root/.vp/BASELINE.json stable_pass.
# usage: bin/baseline.sh [out.json]
OUT="${1:-/verif/.work/baseline.gotest.json}"
cd "${VERIF_REPO:-/repo}" && GOFLAGS=-mod=mod GOPROXY=off GOSUMDB=off go test -mod=mod -json -vet=off -count=1 -timeout 25m ./... > "$OUT" 2>/dev/null
python3 - "$OUT" <<'PY'
import json,sys
res={}
for l in open(sys.argv[1]):
    try: e=json.loads(l)
    except Exception: continue
    if e.get("Test") and e.get("Action") in ("pass","fail","skip"):
        res[e["Package"]+"::"+e["Test"]]=e["Action"]
base=json.load(open("/root/.vp/BASELINE.json"))["stable_pass"]
bad=[t for t in base if res.get(t)!="pass"]
print("baseline: %d stable tests, %d not passing" % (len(base), len(bad)))
for t in bad[:40]: print("  NOT PASS:", t, res.get(t))
sys.exit(1 if bad else 0)
PY
