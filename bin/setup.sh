#!/bin/sh
# MANIFEST.setup_cmd: offline build of the framework (harness binary against /repo, SANY over all specs).
set -e
cd "$(dirname "$0")/.."
export GOFLAGS=-mod=mod GOPROXY=off GOSUMDB=off GOTOOLCHAIN=local
mkdir -p .work/bin evidence replays
bin/genmod.sh
(cd harness && go build -buildvcs=false -tags verif -o ../.work/bin/vh ./cmd/vh)
T=.work/sany.$$; rm -rf $T; mkdir -p $T
for d in spec/*/; do cp $d*.tla $T/ 2>/dev/null || true; done
rc=0
for f in $T/*.tla; do
  if ! (cd $T && java -cp /opt/veriftools/tla/tla2tools.jar:/opt/veriftools/tla/CommunityModules-deps.jar tla2sany.SANY "$(basename $f)" > sany.out 2>&1); then
    echo "SANY failed: $f"; tail -20 $T/sany.out; rc=1
  fi
done
rm -rf $T
echo "setup done rc=$rc"
exit $rc
