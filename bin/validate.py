#!/usr/bin/env python3-vt
import json, jsonschema, glob, os
V = os.path.dirname(os.path.dirname(os.path.abspath(__file__)))
if os.path.exists(V + '/MANIFEST.json'):
    jsonschema.validate(json.load(open(V + '/MANIFEST.json')), json.load(open('/root/.vp/MANIFEST.schema.json')))
    print("manifest valid")
es = json.load(open('/root/.vp/EVIDENCE.schema.json'))
for f in sorted(glob.glob(V + '/evidence/*.json')):
    jsonschema.validate(json.load(open(f)), es)
    print("valid", f)
