#!/usr/bin/env python3
"""Writes /verif/seeded/README.md: which checks catch which independently seeded changes."""
import json, os, glob
V = os.path.dirname(os.path.dirname(os.path.abspath(__file__)))
rows = []
for d in sorted(glob.glob(os.path.join(V, "seeded", "*", "meta.json"))):
    m = json.load(open(d))
    name = os.path.basename(os.path.dirname(d))
    c = m.get("confirmed", {})
    ok = all(c.get(k) for k in ("patch_applies", "compiles", "demo_passes_without_change", "demo_fails_with_change"))
    caught = {p: v["formulas"] for p, v in (m.get("checks") or {}).items() if v["rc"] == 1}
    own = m.get("property") in caught
    rows.append((name, m.get("property"), ok, caught, own, (m.get("summary") or "")[:160].replace("\n", " "), (m.get("needs_to_manifest") or "")[:200].replace("\n", " "), m.get("note")))
with open(os.path.join(V, "seeded", "README.md"), "w") as f:
    f.write("# Independently seeded changes and what catches them\n\nEach directory holds `patch.diff`, the demonstration test and `meta.json` (what the change needs in order to manifest, what was run).\n"
            "Three rounds (seeds 1-3, 4-6, 7-9 of each property; later rounds were told what had been tried). The changes were written by sub-agents that saw only the property text and a scratch worktree of /repo; each was confirmed here (patch applies, compiles, demo passes without / fails with the change) before the quick checks were run against it.\n\n"
            "| seed | property | confirmed | caught by (quick tier) | own property check catches it | change | needs |\n|---|---|---|---|---|---|---|\n")
    for r in rows:
        if r[7]:   # superseded by a repair in /repo: see the note
            f.write("| %s | %s | %s | %s | %s | %s | %s |\n" % (r[0], r[1], "superseded", r[7].replace("|", "/"), "-", r[5], r[6]))
            continue
        f.write("| %s | %s | %s | %s | %s | %s | %s |\n" % (r[0], r[1], "yes" if r[2] else "NO", "; ".join("%s: %s" % (p, ", ".join(v)) for p, v in r[3].items()) or "**missed**", "yes" if r[4] else "no", r[5], r[6]))
rows = [r for r in rows if not r[7]]
n = len(rows); c = sum(1 for r in rows if r[3]); o = sum(1 for r in rows if r[4])
print("%d seeds, %d caught by some check, %d caught by the targeted property's check" % (n, c, o))
