#!/bin/sh
# Regenerates harness/go.mod + go.sum from /repo's current go.mod (same versions => nothing to resolve offline).
set -e
H="$(cd "$(dirname "$0")/.." && pwd)/harness"
REPO="${VERIF_REPO:-/repo}"
{
  echo "module vh"
  echo
  sed -e '/^module /d' "$REPO/go.mod"
  echo
  echo "require github.com/comdex-official/comdex v0.0.0"
  echo "replace github.com/comdex-official/comdex => $REPO"
} > "$H/go.mod.new"
if ! cmp -s "$H/go.mod.new" "$H/go.mod" 2>/dev/null; then mv "$H/go.mod.new" "$H/go.mod"; else rm "$H/go.mod.new"; fi
if ! cmp -s "$REPO/go.sum" "$H/go.sum" 2>/dev/null; then cp "$REPO/go.sum" "$H/go.sum"; fi
