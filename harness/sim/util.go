package sim

import (
	"bytes"
	"strings"
)

func indexOf(s, sub string) int     { return strings.Index(s, sub) }
func lastIndexOf(s, sub string) int { return strings.LastIndex(s, sub) }

func bytesReader(b []byte) *bytes.Reader { return bytes.NewReader(b) }

// TLCJSON extracts the JSON document from a line printed by TLC's PrintT(<<"T", ToJson(x)>>)
// (a TLA+ string literal: quotes and backslashes are escaped). Returns "" if the line is no such line.
func TLCJSON(line string) string {
	const pre = `<<"T", "`
	i := indexOf(line, pre)
	if i < 0 {
		return ""
	}
	s := line[i+len(pre):]
	j := lastIndexOf(s, `">>`)
	if j < 0 {
		return ""
	}
	s = s[:j]
	out := make([]byte, 0, len(s))
	for k := 0; k < len(s); k++ {
		if s[k] == '\\' && k+1 < len(s) {
			k++
		}
		out = append(out, s[k])
	}
	return string(out)
}
