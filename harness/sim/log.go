package sim

import (
	"bufio"
	"encoding/json"
	"math/rand"
	"os"
)

// Node is one record of a tree log (DESIGN Appendix B). Node ids are 1-based positions in the file;
// Parent = 0 for a root. TLC reads the file with ndJsonDeserialize and evaluates the property formulas
// on St (state after the action) and on the pair (Log[Parent].St, St).
type Node struct {
	ID     int         `json:"id"`
	Parent int         `json:"parent"`
	Run    string      `json:"run"`
	A      string      `json:"a"`
	Args   interface{} `json:"args"`
	Res    interface{} `json:"res"`
	St     interface{} `json:"st"`
}

type Log struct {
	Nodes []Node
}

func (l *Log) Add(parent int, run, a string, args, res, st interface{}) int {
	id := len(l.Nodes) + 1
	if args == nil {
		args = map[string]interface{}{}
	}
	if res == nil {
		res = map[string]interface{}{}
	}
	l.Nodes = append(l.Nodes, Node{ID: id, Parent: parent, Run: run, A: a, Args: args, Res: res, St: st})
	return id
}

func (l *Log) Write(path string) error {
	f, err := os.Create(path)
	if err != nil {
		return err
	}
	w := bufio.NewWriterSize(f, 1<<20)
	enc := json.NewEncoder(w)
	for i := range l.Nodes {
		if err := enc.Encode(&l.Nodes[i]); err != nil {
			return err
		}
	}
	if err := w.Flush(); err != nil {
		return err
	}
	return f.Close()
}

// WriteJSON writes any value as one JSON document.
func WriteJSON(path string, v interface{}) error {
	b, err := json.MarshalIndent(v, "", " ")
	if err != nil {
		return err
	}
	return os.WriteFile(path, b, 0o644)
}

// ReadNDJSON reads a list of JSON objects, one per line.
func ReadNDJSON(path string) ([]map[string]interface{}, error) {
	f, err := os.Open(path)
	if err != nil {
		return nil, err
	}
	defer f.Close()
	var out []map[string]interface{}
	sc := bufio.NewScanner(f)
	sc.Buffer(make([]byte, 1<<20), 1<<28)
	for sc.Scan() {
		if len(sc.Bytes()) == 0 {
			continue
		}
		var m map[string]interface{}
		dec := json.NewDecoder(bytesReader(sc.Bytes()))
		dec.UseNumber()
		if err := dec.Decode(&m); err != nil {
			return nil, err
		}
		out = append(out, m)
	}
	return out, sc.Err()
}

// Rng is the only source of randomness in drivers (seeded from VERIF_SEED).
type Rng struct{ *rand.Rand }

func NewRng(seed int64) *Rng { return &Rng{rand.New(rand.NewSource(seed))} }

func (r *Rng) Pick(n int) int { return r.Intn(n) }
func (r *Rng) PickI64(xs []int64) int64 {
	return xs[r.Intn(len(xs))]
}
func (r *Rng) PickS(xs []string) string { return xs[r.Intn(len(xs))] }

// Weighted picks an index according to integer weights.
func (r *Rng) Weighted(w []int) int {
	t := 0
	for _, x := range w {
		t += x
	}
	k := r.Intn(t)
	for i, x := range w {
		if k < x {
			return i
		}
		k -= x
	}
	return len(w) - 1
}
