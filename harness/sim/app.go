// Package sim: deterministic bootstrap of the real comdex application and the primitives every driver
// uses: message delivery with baseapp's atomicity, block stepping on (possibly cache-branched) contexts,
// store digests, and fixture helpers that only go through exported keeper entry points.
package sim

import (
	"crypto/sha256"
	"encoding/hex"
	"encoding/json"
	"fmt"
	"sort"
	"time"

	"cosmossdk.io/math"
	dbm "github.com/cometbft/cometbft-db"
	abci "github.com/cometbft/cometbft/abci/types"
	"github.com/cometbft/cometbft/crypto/tmhash"
	"github.com/cometbft/cometbft/libs/log"
	tmproto "github.com/cometbft/cometbft/proto/tendermint/types"
	tmtypes "github.com/cometbft/cometbft/types"
	codectypes "github.com/cosmos/cosmos-sdk/codec/types"
	cryptocodec "github.com/cosmos/cosmos-sdk/crypto/codec"
	"github.com/cosmos/cosmos-sdk/crypto/keys/ed25519"
	"github.com/cosmos/cosmos-sdk/crypto/keys/secp256k1"
	simtestutil "github.com/cosmos/cosmos-sdk/testutil/sims"
	sdk "github.com/cosmos/cosmos-sdk/types"
	authtypes "github.com/cosmos/cosmos-sdk/x/auth/types"
	banktypes "github.com/cosmos/cosmos-sdk/x/bank/types"
	stakingtypes "github.com/cosmos/cosmos-sdk/x/staking/types"

	chain "github.com/comdex-official/comdex/app"
)

// GenesisTime is the fixed chain start; drivers never read the wall clock.
var GenesisTime = time.Date(2024, 1, 1, 0, 0, 0, 0, time.UTC)

// StoreNames are the DeFi module stores (+ bank) covered by digests.
var StoreNames = []string{
	"assetv1", "vaultV1", "lockerV1", "collectorV1", "marketV1", "bandoracleV1", "liquidationV1",
	"auctionV1", "rewardsV1", "liquidityV1", "lendV2", "esmV1", "tokenmint", "liquidationsV2",
	"auctionsV2", "bank",
}

type Env struct {
	App    *chain.App
	Ctx    sdk.Context // working context (deliver state of block 1, never committed unless Commit is called)
	Height int64
	Time   time.Time
	ValSet *tmtypes.ValidatorSet
	Users  map[string]sdk.AccAddress
}

// Addr returns the deterministic address for a symbolic actor name.
func Addr(name string) sdk.AccAddress {
	return sdk.AccAddress(tmhash.SumTruncated([]byte("verif/" + name)))
}

type Fund struct {
	Name  string
	Coins sdk.Coins
}

// New boots a fresh application on a MemDB with one bonded validator and the given funded accounts.
func New(funds []Fund) *Env {
	db := dbm.NewMemDB()
	app := chain.New(log.NewNopLogger(), db, nil, true, map[int64]bool{}, chain.DefaultNodeHome, 5,
		chain.MakeEncodingConfig(), simtestutil.EmptyAppOptions{}, chain.GetWasmEnabledProposals(), chain.EmptyWasmOpts)
	gs := chain.NewDefaultGenesisState(app.AppCodec())
	cdc := app.AppCodec()

	valPriv := ed25519.GenPrivKeyFromSecret([]byte("verif-validator"))
	tmPub, err := cryptocodec.ToTmPubKeyInterface(valPriv.PubKey())
	must(err)
	validator := tmtypes.NewValidator(tmPub, 1)
	valSet := tmtypes.NewValidatorSet([]*tmtypes.Validator{validator})

	delPriv := secp256k1.GenPrivKeyFromSecret([]byte("verif-delegator"))
	delAcc := authtypes.NewBaseAccount(delPriv.PubKey().Address().Bytes(), delPriv.PubKey(), 0, 0)
	genAccs := []authtypes.GenesisAccount{delAcc}
	balances := []banktypes.Balance{{Address: delAcc.GetAddress().String(), Coins: sdk.NewCoins(sdk.NewCoin("ucmdx", sdk.NewInt(100000000000000)))}}
	users := map[string]sdk.AccAddress{}
	for _, f := range funds {
		a := Addr(f.Name)
		users[f.Name] = a
		if !f.Coins.IsZero() {
			balances = append(balances, banktypes.Balance{Address: a.String(), Coins: f.Coins.Sort()})
		}
	}

	authGenesis := authtypes.NewGenesisState(authtypes.DefaultParams(), genAccs)
	gs[authtypes.ModuleName] = cdc.MustMarshalJSON(authGenesis)

	bondAmt := sdk.DefaultPowerReduction
	var validators []stakingtypes.Validator
	var delegations []stakingtypes.Delegation
	for _, val := range valSet.Validators {
		pk, err := cryptocodec.FromTmPubKeyInterface(val.PubKey)
		must(err)
		pkAny, err := codectypes.NewAnyWithValue(pk)
		must(err)
		validators = append(validators, stakingtypes.Validator{
			OperatorAddress: sdk.ValAddress(val.Address).String(), ConsensusPubkey: pkAny, Status: stakingtypes.Bonded,
			Tokens: bondAmt, DelegatorShares: math.LegacyOneDec(), UnbondingTime: time.Unix(0, 0).UTC(),
			Commission:        stakingtypes.NewCommission(math.LegacyZeroDec(), math.LegacyZeroDec(), math.LegacyZeroDec()),
			MinSelfDelegation: math.ZeroInt(),
		})
		delegations = append(delegations, stakingtypes.NewDelegation(delAcc.GetAddress(), val.Address.Bytes(), math.LegacyOneDec()))
	}
	dsp := stakingtypes.DefaultParams()
	stParams := stakingtypes.NewParams(dsp.UnbondingTime, dsp.MaxValidators, dsp.MaxEntries, dsp.HistoricalEntries, "ucmdx", dsp.MinCommissionRate)
	gs[stakingtypes.ModuleName] = cdc.MustMarshalJSON(stakingtypes.NewGenesisState(stParams, validators, delegations))
	balances = append(balances, banktypes.Balance{
		Address: authtypes.NewModuleAddress(stakingtypes.BondedPoolName).String(),
		Coins:   sdk.Coins{sdk.NewCoin("ucmdx", bondAmt)},
	})
	total := sdk.NewCoins()
	for _, b := range balances {
		total = total.Add(b.Coins...)
	}
	gs[banktypes.ModuleName] = cdc.MustMarshalJSON(banktypes.NewGenesisState(banktypes.DefaultGenesisState().Params, balances, total, []banktypes.Metadata{}, []banktypes.SendEnabled{}))

	stateBytes, err := json.MarshalIndent(gs, "", " ")
	must(err)
	app.InitChain(abci.RequestInitChain{
		Validators: []abci.ValidatorUpdate{}, ConsensusParams: chain.DefaultConsensusParams,
		AppStateBytes: stateBytes, Time: GenesisTime, InitialHeight: 1,
	})
	app.Commit()
	hdr := tmproto.Header{Height: app.LastBlockHeight() + 1, AppHash: app.LastCommitID().Hash,
		ValidatorsHash: valSet.Hash(), NextValidatorsHash: valSet.Hash(), Time: GenesisTime.Add(6 * time.Second)}
	app.BeginBlock(abci.RequestBeginBlock{Header: hdr})
	e := &Env{App: app, Height: hdr.Height, Time: hdr.Time, ValSet: valSet, Users: users}
	e.Ctx = app.BaseApp.NewContext(false, hdr).WithGasMeter(sdk.NewInfiniteGasMeter()).WithBlockGasMeter(sdk.NewInfiniteGasMeter())
	return e
}

func must(err error) {
	if err != nil {
		panic(err)
	}
}

// Result of one delivered message.
type Result struct {
	OK    bool   `json:"ok"`
	Code  string `json:"code,omitempty"` // codespace/code of a registered error, or "" / "unregistered"
	Err   string `json:"err,omitempty"`
	Panic bool   `json:"panic,omitempty"`
	Data  []byte `json:"-"`
}

func errCode(err error) string {
	if err == nil {
		return ""
	}
	type coder interface {
		Codespace() string
		ABCICode() uint32
	}
	for e := err; e != nil; {
		if c, ok := e.(coder); ok {
			return fmt.Sprintf("%s/%d", c.Codespace(), c.ABCICode())
		}
		u, ok := e.(interface{ Unwrap() error })
		if !ok {
			break
		}
		e = u.Unwrap()
	}
	return "unregistered"
}

// Deliver runs ValidateBasic + the routed handler on a cache-wrapped context and writes it back only on
// success (baseapp.runMsgs atomicity). A panic inside the handler is a failed tx (baseapp recovers).
func Deliver(app *chain.App, ctx sdk.Context, msg sdk.Msg) (res Result) {
	if err := msg.ValidateBasic(); err != nil {
		return Result{OK: false, Code: errCode(err), Err: "validate: " + err.Error()}
	}
	h := app.MsgServiceRouter().Handler(msg)
	if h == nil {
		return Result{OK: false, Err: "no handler"}
	}
	cctx, write := ctx.CacheContext()
	defer func() {
		if r := recover(); r != nil {
			res = Result{OK: false, Panic: true, Err: fmt.Sprint(r)}
		}
	}()
	r, err := h(cctx, msg)
	if err != nil {
		return Result{OK: false, Code: errCode(err), Err: err.Error()}
	}
	write()
	out := Result{OK: true}
	if r != nil {
		out.Data = r.Data
	}
	return out
}

func (e *Env) Deliver(msg sdk.Msg) Result { return Deliver(e.App, e.Ctx, msg) }

// Header for the context at (height, time).
func (e *Env) header(h int64, t time.Time) tmproto.Header {
	return tmproto.Header{Height: h, Time: t, ValidatorsHash: e.ValSet.Hash(), NextValidatorsHash: e.ValSet.Hash(),
		ProposerAddress: e.ValSet.Validators[0].Address}
}

// BlockResult reports whether the hooks returned normally.
type BlockResult struct {
	Panic bool   `json:"panic"`
	Err   string `json:"err,omitempty"`
}

// EndBlock runs the application's EndBlocker on ctx (all modules, real order).
func EndBlockOn(app *chain.App, ctx sdk.Context) (br BlockResult) {
	defer func() {
		if r := recover(); r != nil {
			br = BlockResult{Panic: true, Err: fmt.Sprint(r)}
		}
	}()
	app.EndBlocker(ctx, abci.RequestEndBlock{Height: ctx.BlockHeight()})
	return
}

// BeginBlockOn runs the application's BeginBlocker on ctx (all modules, real order).
func BeginBlockOn(app *chain.App, ctx sdk.Context) (br BlockResult) {
	defer func() {
		if r := recover(); r != nil {
			br = BlockResult{Panic: true, Err: fmt.Sprint(r)}
		}
	}()
	app.BeginBlocker(ctx, abci.RequestBeginBlock{Header: ctx.BlockHeader()})
	return
}

// NextBlock ends the current block, advances height/time by dt and begins the next one, all on e.Ctx.
func (e *Env) NextBlock(dt time.Duration) BlockResult {
	br := EndBlockOn(e.App, e.Ctx)
	if br.Panic {
		return br
	}
	e.Height++
	e.Time = e.Time.Add(dt)
	e.Ctx = e.Ctx.WithBlockHeader(e.header(e.Height, e.Time))
	return BeginBlockOn(e.App, e.Ctx)
}

// Branch returns a copy of the environment on a CacheContext of the current one (never written back).
func (e *Env) Branch() *Env {
	c, _ := e.Ctx.CacheContext()
	n := *e
	n.Ctx = c
	return &n
}

// Digest = SHA-256 over the ordered dump of the given stores (all DeFi stores + bank if names is nil).
func Digest(app *chain.App, ctx sdk.Context, names []string) string {
	if names == nil {
		names = StoreNames
	}
	h := sha256.New()
	for _, n := range names {
		k := app.GetKey(n)
		if k == nil {
			continue
		}
		h.Write([]byte("#" + n))
		it := ctx.KVStore(k).Iterator(nil, nil)
		for ; it.Valid(); it.Next() {
			var l [8]byte
			kk, vv := it.Key(), it.Value()
			l[0], l[1], l[2], l[3] = byte(len(kk)>>24), byte(len(kk)>>16), byte(len(kk)>>8), byte(len(kk))
			l[4], l[5], l[6], l[7] = byte(len(vv)>>24), byte(len(vv)>>16), byte(len(vv)>>8), byte(len(vv))
			h.Write(l[:])
			h.Write(kk)
			h.Write(vv)
		}
		it.Close()
	}
	return hex.EncodeToString(h.Sum(nil))[:24]
}

func (e *Env) Digest() string { return Digest(e.App, e.Ctx, nil) }

// StoreDigests returns one digest per store (diagnostics for C16/C20).
func StoreDigests(app *chain.App, ctx sdk.Context) map[string]string {
	m := map[string]string{}
	for _, n := range StoreNames {
		m[n] = Digest(app, ctx, []string{n})
	}
	return m
}

// Bal returns the balance of addr in denom as int64 (panics if it does not fit; small-mode drivers only).
func Bal(app *chain.App, ctx sdk.Context, addr sdk.AccAddress, denom string) int64 {
	return app.BankKeeper.GetBalance(ctx, addr, denom).Amount.Int64()
}

func ModAddr(name string) sdk.AccAddress { return authtypes.NewModuleAddress(name) }

// SortedKeys helper.
func SortedKeys[V any](m map[string]V) []string {
	ks := make([]string, 0, len(m))
	for k := range m {
		ks = append(ks, k)
	}
	sort.Strings(ks)
	return ks
}
