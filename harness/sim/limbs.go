package sim

import "math/big"

// Limbs encodes a non-negative integer as little-endian base-2^15 limbs (spec/common/Limbs.tla).
func Limbs(x *big.Int) []int64 {
	out := []int64{}
	if x.Sign() < 0 {
		panic("negative limb value")
	}
	v := new(big.Int).Set(x)
	b := big.NewInt(32768)
	m := new(big.Int)
	for v.Sign() > 0 {
		v.DivMod(v, b, m)
		out = append(out, m.Int64())
	}
	return out
}

func LimbsU64(x uint64) []int64 { return Limbs(new(big.Int).SetUint64(x)) }
