package main

import "vh/fam/hooks"

func init() { Register("hooks", hooks.Main) }
