package main

import "vh/fam/english"

func init() { Register("english", english.Main) }
