package main

import "vh/fam/gauge"

func init() { Register("gauge", gauge.Main) }
