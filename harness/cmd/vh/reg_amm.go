package main

import "vh/fam/amm"

func init() { Register("amm", amm.Main) }
