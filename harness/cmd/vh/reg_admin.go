package main

import "vh/fam/admin"

func init() { Register("admin", admin.Main) }
