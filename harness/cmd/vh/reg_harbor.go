package main

import "vh/fam/harbor"

func init() { Register("harbor", harbor.Main) }
