package main

import "vh/fam/rates"

func init() { Register("rates", rates.Main) }
