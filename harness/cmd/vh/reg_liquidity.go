package main

import "vh/fam/liquidity"

func init() { Register("liquidity", liquidity.Main) }
