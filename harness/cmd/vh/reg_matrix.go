package main

import "vh/fam/matrix"

func init() { Register("matrix", matrix.Main) }
