package main

import "vh/fam/oracle"

func init() { Register("oracle", oracle.Main) }
