package main

import "vh/fam/pairs"

func init() { Register("pairs", pairs.Main) }
