package main

import (
	"fmt"
	"time"

	sdk "github.com/cosmos/cosmos-sdk/types"

	"vh/sim"
)

func init() {
	Register("smoke", func(args []string) int {
		t0 := time.Now()
		e := sim.New([]sim.Fund{{Name: "u1", Coins: sdk.NewCoins(sdk.NewInt64Coin("ucmdx", 1000))}})
		d0 := e.Digest()
		for i := 0; i < 5; i++ {
			br := e.NextBlock(6 * time.Second)
			if br.Panic {
				fmt.Println("panic", br.Err)
				return 1
			}
		}
		fmt.Println("ok", d0, e.Digest(), time.Since(t0))
		return 0
	})
}
