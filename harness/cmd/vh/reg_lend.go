package main

import "vh/fam/lend"

func init() { Register("lend", lend.Main) }
