// vh: conformance harness between the TLA+ specifications in /verif/spec and the real comdex code.
package main

import (
	"fmt"
	"os"
	"sort"
)

// Cmd is a sub-command; families register themselves from reg_*.go files.
type Cmd func(args []string) int

var cmds = map[string]Cmd{}

func Register(name string, c Cmd) { cmds[name] = c }

func main() {
	if len(os.Args) < 2 || cmds[os.Args[1]] == nil {
		names := make([]string, 0, len(cmds))
		for n := range cmds {
			names = append(names, n)
		}
		sort.Strings(names)
		fmt.Fprintln(os.Stderr, "usage: vh <cmd> [flags]; commands:", names)
		os.Exit(2)
	}
	os.Exit(cmds[os.Args[1]](os.Args[2:]))
}
