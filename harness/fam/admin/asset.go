package admin

import (
	"encoding/binary"
	"fmt"
	"sort"

	sdk "github.com/cosmos/cosmos-sdk/types"
	govtypes "github.com/cosmos/cosmos-sdk/x/gov/types/v1beta1"
	protobuftypes "github.com/cosmos/gogoproto/types"

	"github.com/comdex-official/comdex/app/wasm"
	"github.com/comdex-official/comdex/app/wasm/bindings"
	assetmod "github.com/comdex-official/comdex/x/asset"
	assettypes "github.com/comdex-official/comdex/x/asset/types"

	"vh/sim"
)

// ---------------------------------------------------------------------------------------------
// World A: x/asset administration (spec/admin/AssetAdmin.tla). The harness executes and records; TLC judges.
// Requests take the path they take on a chain: proposals = Content.ValidateBasic + the proposal handler on a
// cache-wrapped context written back only on success (x/gov), MsgAddAsset through the msg router, extended
// pair vaults through the wasm binding entry points.
// ---------------------------------------------------------------------------------------------

const feeUnit = 100_000_000 // assettypes.DefaultAssetRegistrationFee (ucmdx)

type TokRec struct {
	Asset int64  `json:"asset"`
	Sup   int64  `json:"sup"`
	Gov   bool   `json:"gov"`
	Rc    string `json:"rc"`
}
type AppRec struct {
	ID    int64    `json:"id"`
	Name  string   `json:"name"`
	Short string   `json:"short"`
	Mgd   int64    `json:"mgd"`
	Gts   int64    `json:"gts"`
	Gt    []TokRec `json:"gt"`
}
type AssetRec struct {
	ID    int64  `json:"id"`
	Name  string `json:"name"`
	Denom string `json:"denom"`
	Dec   int64  `json:"dec"`
	On    bool   `json:"on"`
	Orc   bool   `json:"orc"`
	Cdp   bool   `json:"cdp"`
}
type PairRec struct {
	ID  int64 `json:"id"`
	In  int64 `json:"in"`
	Out int64 `json:"out"`
}
type ExtRec struct {
	ID     int64  `json:"id"`
	App    int64  `json:"app"`
	Pair   int64  `json:"pair"`
	Name   string `json:"name"`
	Sf     int64  `json:"sf"`
	Cf     int64  `json:"cf"`
	Ddf    int64  `json:"ddf"`
	Lp     int64  `json:"lp"`
	Act    bool   `json:"act"`
	Ceil   int64  `json:"ceil"`
	Floor  int64  `json:"floor"`
	Stable bool   `json:"stable"`
	Mincr  int64  `json:"mincr"`
}
type IdxEnt struct {
	K  string `json:"k"`
	ID int64  `json:"id"`
}
type GovEnt struct {
	App   int64 `json:"app"`
	Asset int64 `json:"asset"`
}
type StA struct {
	Apps   []AppRec            `json:"apps"`
	Assets []AssetRec          `json:"assets"`
	Pairs  []PairRec           `json:"pairs"`
	Exts   []ExtRec            `json:"exts"`
	Ctr    map[string]int64    `json:"ctr"`
	Idx    map[string][]IdxEnt `json:"idx"`
	Gov    []GovEnt            `json:"gov"`
	Oflag  bool                `json:"oflag"`
	Fee    map[string]int64    `json:"fee"`
	Digest string              `json:"digest"`
	Root   int                 `json:"root"`
	Ev     EvA                 `json:"ev"`
}

// EvA labels a step for known-finding keys (derived from the request and the recorded pre-state only).
type EvA struct {
	ExtUpdate bool `json:"extUpdate"` // extended-pair update whose values would be refused at creation
	GovTime   bool `json:"govTime"`   // governance-time update whose values would be refused at creation
	LivePair  bool `json:"livePair"`  // update of a pair that extended pair vaults use
	Twice     bool `json:"twice"`     // the same asset twice in one AddAssetInApp request
}

type AWorld struct{ *sim.Env }

var aStores = []string{"assetv1", "bank", "bandoracleV1"}

func hundredths(d sdk.Dec) int64 { return d.MulInt64(100).TruncateInt64() }
func pct(x int64) sdk.Dec        { return sdk.NewDec(x).QuoInt64(100) }

func rcName(addr string) string {
	for _, n := range []string{"r1", "r2", "u1"} {
		if sim.Addr(n).String() == addr {
			return n
		}
	}
	return "bad"
}
func rcAddr(n string) string {
	if n == "bad" {
		return "notanaddress"
	}
	return sim.Addr(n).String()
}

func NewAWorld(profile string) *AWorld {
	env := sim.New([]sim.Fund{{Name: "u1", Coins: sdk.NewCoins(sdk.NewCoin("ucmdx", sdk.NewInt(2*feeUnit)))}, {Name: "r1", Coins: sdk.NewCoins()}, {Name: "r2", Coins: sdk.NewCoins()}})
	w := &AWorld{Env: env}
	env.App.BandoracleKeeper.SetCheckFlag(env.Ctx, true)
	k := env.App.AssetKeeper
	addAssets := func() {
		for _, a := range []assettypes.Asset{
			{Name: "XTOK", Denom: "uxtok", Decimals: sdk.NewInt(1), IsOnChain: true},
			{Name: "YTOK", Denom: "uytok", Decimals: sdk.NewInt(1), IsOnChain: true},
			{Name: "MTOK", Denom: "umtok", Decimals: sdk.NewInt(10), IsOnChain: true, IsCdpMintable: true},
			{Name: "OTOK", Denom: "uotok", Decimals: sdk.NewInt(1), IsOnChain: false},
		} {
			must(k.AddAssetRecords(env.Ctx, a))
		}
	}
	switch profile {
	case "assets", "drive0":
	case "apps":
		addAssets()
	case "ext", "drive":
		addAssets()
		must(k.AddAppRecords(env.Ctx, assettypes.AppData{Name: "alpha", ShortName: "alp", MinGovDeposit: sdk.NewInt(0), GovTimeInSeconds: 0}))
		must(k.AddAppRecords(env.Ctx, assettypes.AppData{Name: "beta", ShortName: "bet", MinGovDeposit: sdk.NewInt(5), GovTimeInSeconds: 10}))
		must(k.AddPairsRecords(env.Ctx, assettypes.Pair{AssetIn: 1, AssetOut: 3}))
		must(k.AddPairsRecords(env.Ctx, assettypes.Pair{AssetIn: 1, AssetOut: 4}))
	default:
		panic("unknown profile " + profile)
	}
	return w
}

func (w *AWorld) On(env *sim.Env) *AWorld { return &AWorld{Env: env} }

func (w *AWorld) index(prefix []byte) []IdxEnt {
	out := []IdxEnt{}
	st := w.Ctx.KVStore(w.App.GetKey(assettypes.StoreKey))
	it := sdk.KVStorePrefixIterator(st, prefix)
	defer it.Close()
	for ; it.Valid(); it.Next() {
		var v protobuftypes.UInt64Value
		w.App.AppCodec().MustUnmarshal(it.Value(), &v)
		out = append(out, IdxEnt{K: string(it.Key()[len(prefix):]), ID: int64(v.GetValue())})
	}
	return out
}

func (w *AWorld) Project() StA {
	k := w.App.AssetKeeper
	s := StA{Apps: []AppRec{}, Assets: []AssetRec{}, Pairs: []PairRec{}, Exts: []ExtRec{}, Ctr: map[string]int64{}, Idx: map[string][]IdxEnt{}, Gov: []GovEnt{}, Fee: map[string]int64{}}
	apps, _ := k.GetApps(w.Ctx)
	for _, a := range apps {
		r := AppRec{ID: int64(a.Id), Name: a.Name, Short: a.ShortName, Mgd: a.MinGovDeposit.Int64(), Gts: int64(a.GovTimeInSeconds), Gt: []TokRec{}}
		for _, t := range a.GenesisToken {
			r.Gt = append(r.Gt, TokRec{Asset: int64(t.AssetId), Sup: t.GenesisSupply.Int64(), Gov: t.IsGovToken, Rc: rcName(t.Recipient)})
		}
		s.Apps = append(s.Apps, r)
	}
	sort.SliceStable(s.Apps, func(i, j int) bool { return s.Apps[i].ID < s.Apps[j].ID })
	for _, a := range k.GetAssets(w.Ctx) {
		s.Assets = append(s.Assets, AssetRec{ID: int64(a.Id), Name: a.Name, Denom: a.Denom, Dec: a.Decimals.Int64(), On: a.IsOnChain, Orc: a.IsOraclePriceRequired, Cdp: a.IsCdpMintable})
	}
	sort.SliceStable(s.Assets, func(i, j int) bool { return s.Assets[i].ID < s.Assets[j].ID })
	for _, p := range k.GetPairs(w.Ctx) {
		s.Pairs = append(s.Pairs, PairRec{ID: int64(p.Id), In: int64(p.AssetIn), Out: int64(p.AssetOut)})
	}
	sort.SliceStable(s.Pairs, func(i, j int) bool { return s.Pairs[i].ID < s.Pairs[j].ID })
	exts, _ := k.GetPairsVaults(w.Ctx)
	for _, e := range exts {
		s.Exts = append(s.Exts, ExtRec{ID: int64(e.Id), App: int64(e.AppId), Pair: int64(e.PairId), Name: e.PairName, Sf: hundredths(e.StabilityFee), Cf: hundredths(e.ClosingFee),
			Ddf: hundredths(e.DrawDownFee), Lp: hundredths(e.LiquidationPenalty), Act: e.IsVaultActive, Ceil: e.DebtCeiling.Int64(), Floor: e.DebtFloor.Int64(),
			Stable: e.IsStableMintVault, Mincr: hundredths(e.MinCr)})
	}
	sort.SliceStable(s.Exts, func(i, j int) bool { return s.Exts[i].ID < s.Exts[j].ID })
	s.Ctr["app"], s.Ctr["asset"], s.Ctr["pair"], s.Ctr["ext"] = int64(k.GetAppID(w.Ctx)), int64(k.GetAssetID(w.Ctx)), int64(k.GetPairID(w.Ctx)), int64(k.GetPairsVaultID(w.Ctx))
	s.Idx["appName"] = w.index(assettypes.AppForNamePrefix)
	s.Idx["appShort"] = w.index(assettypes.AppForShortNamePrefix)
	s.Idx["assetName"] = w.index(assettypes.AssetForNameKeyPrefix)
	s.Idx["assetDenom"] = w.index(assettypes.AssetForDenomKeyPrefix)
	{
		st := w.Ctx.KVStore(w.App.GetKey(assettypes.StoreKey))
		it := sdk.KVStorePrefixIterator(st, assettypes.GenesisForAppPrefix)
		for ; it.Valid(); it.Next() {
			var v protobuftypes.UInt64Value
			w.App.AppCodec().MustUnmarshal(it.Value(), &v)
			s.Gov = append(s.Gov, GovEnt{App: int64(binary.BigEndian.Uint64(it.Key()[len(assettypes.GenesisForAppPrefix):])), Asset: int64(v.GetValue())})
		}
		it.Close()
	}
	s.Oflag = w.App.BandoracleKeeper.GetCheckFlag(w.Ctx)
	s.Fee["u1"] = sim.Bal(w.App, w.Ctx, sim.Addr("u1"), "ucmdx") / feeUnit
	s.Fee["mod"] = sim.Bal(w.App, w.Ctx, sim.ModAddr(assettypes.ModuleName), "ucmdx") / feeUnit
	s.Digest = sim.Digest(w.App, w.Ctx, aStores)
	return s
}

func mkAsset(g map[string]interface{}) assettypes.Asset {
	return assettypes.Asset{Id: uint64(argI(g, "id")), Name: argS(g, "name"), Denom: argS(g, "denom"), Decimals: sdk.NewInt(argI(g, "dec")),
		IsOnChain: argB(g, "on"), IsOraclePriceRequired: argB(g, "orc"), IsCdpMintable: argB(g, "cdp")}
}

func mkToks(xs []interface{}) []assettypes.MintGenesisToken {
	out := []assettypes.MintGenesisToken{}
	for _, x := range xs {
		t := x.(map[string]interface{})
		out = append(out, assettypes.MintGenesisToken{AssetId: uint64(argI(t, "asset")), GenesisSupply: sdk.NewInt(argI(t, "sup")), IsGovToken: argB(t, "gov"), Recipient: rcAddr(argS(t, "rc"))})
	}
	return out
}

// propose = what x/gov does with a passed proposal: ValidateBasic happened at submission, the handler runs on a
// cache-wrapped context that is written only when it returns nil.
func (w *AWorld) propose(c govtypes.Content) sim.Result {
	if err := c.ValidateBasic(); err != nil {
		return sim.Result{OK: false, Err: "validate: " + err.Error()}
	}
	h := assetmod.NewUpdateAssetProposalHandler(w.App.AssetKeeper)
	return call(w.Env, func(ctx sdk.Context) error { return h(ctx, c) })
}

// Do executes one action of AssetAdmin.tla on the real module.
func (w *AWorld) Do(a string, g map[string]interface{}) sim.Result {
	const T, D = "t", "d"
	switch a {
	case "AddApp":
		return w.propose(&assettypes.AddAppProposal{Title: T, Description: D, App: assettypes.AppData{Name: argS(g, "name"), ShortName: argS(g, "short"),
			MinGovDeposit: sdk.NewInt(argI(g, "mgd")), GovTimeInSeconds: uint64(argI(g, "gts")), GenesisToken: mkToks(argA(g, "gt"))}})
	case "UpdateGovTime":
		return w.propose(&assettypes.UpdateGovTimeInAppProposal{Title: T, Description: D, GovTime: assettypes.AppAndGovTime{AppId: uint64(argI(g, "app")),
			GovTimeInSeconds: uint64(argI(g, "gts")), MinGovDeposit: sdk.NewInt(argI(g, "mgd"))}})
	case "AddAssetInApp":
		return w.propose(&assettypes.AddAssetInAppProposal{Title: T, Description: D, App: assettypes.AppData{Id: uint64(argI(g, "app")), MinGovDeposit: sdk.NewInt(0), GenesisToken: mkToks(argA(g, "toks"))}})
	case "AddAsset":
		return w.propose(&assettypes.AddAssetsProposal{Title: T, Description: D, Assets: mkAsset(g)})
	case "AddAssets":
		l := []assettypes.Asset{}
		for _, x := range argA(g, "list") {
			l = append(l, mkAsset(x.(map[string]interface{})))
		}
		return w.propose(&assettypes.AddMultipleAssetsProposal{Title: T, Description: D, Assets: l})
	case "MsgAddAsset":
		return w.Deliver(&assettypes.MsgAddAsset{Creator: sim.Addr("u1").String(), Asset: mkAsset(g)})
	case "UpdateAsset":
		return w.propose(&assettypes.UpdateAssetProposal{Title: T, Description: D, Asset: mkAsset(g)})
	case "AddPair":
		return w.propose(&assettypes.AddPairsProposal{Title: T, Description: D, Pairs: assettypes.Pair{AssetIn: uint64(argI(g, "in")), AssetOut: uint64(argI(g, "out"))}})
	case "UpdatePair":
		return w.propose(&assettypes.UpdatePairProposal{Title: T, Description: D, Pairs: assettypes.Pair{Id: uint64(argI(g, "id")), AssetIn: uint64(argI(g, "in")), AssetOut: uint64(argI(g, "out"))}})
	case "AddAssetPair":
		as := mkAsset(g)
		return w.propose(&assettypes.AddMultipleAssetsPairsProposal{Title: T, Description: D, AssetsPair: []assettypes.AssetPair{{Name: as.Name, Denom: as.Denom, Decimals: as.Decimals,
			IsOnChain: as.IsOnChain, IsOraclePriceRequired: as.IsOraclePriceRequired, IsCdpMintable: as.IsCdpMintable, AssetOut: uint64(argI(g, "out"))}}})
	case "AddExt":
		return call(w.Env, func(ctx sdk.Context) error {
			return wasm.MsgAddExtendedPairsVault(w.App.AssetKeeper, ctx, sim.Addr("contract"), &bindings.MsgAddExtendedPairsVault{AppID: uint64(argI(g, "app")), PairID: uint64(argI(g, "pair")),
				StabilityFee: pct(argI(g, "sf")), ClosingFee: pct(argI(g, "cf")), LiquidationPenalty: pct(argI(g, "lp")), DrawDownFee: pct(argI(g, "ddf")), IsVaultActive: argB(g, "act"),
				DebtCeiling: sdk.NewInt(argI(g, "ceil")), DebtFloor: sdk.NewInt(argI(g, "floor")), IsStableMintVault: argB(g, "stable"), MinCr: pct(argI(g, "mincr")),
				PairName: argS(g, "name"), AssetOutOraclePrice: false, AssetOutPrice: 1000000, MinUsdValueLeft: 100000})
		})
	case "UpdateExt":
		return call(w.Env, func(ctx sdk.Context) error {
			return wasm.MsgUpdatePairsVault(w.App.AssetKeeper, ctx, sim.Addr("contract"), &bindings.MsgUpdatePairsVault{AppID: uint64(argI(g, "app")), ExtPairID: uint64(argI(g, "ext")),
				StabilityFee: pct(argI(g, "sf")), ClosingFee: pct(argI(g, "cf")), LiquidationPenalty: pct(argI(g, "lp")), DrawDownFee: pct(argI(g, "ddf")), IsVaultActive: argB(g, "act"),
				MinCr: pct(argI(g, "mincr")), DebtCeiling: sdk.NewInt(argI(g, "ceil")), DebtFloor: sdk.NewInt(argI(g, "floor")), MinUsdValueLeft: 100000})
		})
	}
	panic("unknown asset action " + a)
}

func feeBad(x int64) bool { return x < 0 || x >= 100 }

func labelA(pre StA, a string, g map[string]interface{}, ok bool) EvA {
	ev := EvA{}
	if !ok {
		return ev
	}
	switch a {
	case "UpdateExt":
		ev.ExtUpdate = argI(g, "floor") >= argI(g, "ceil") || feeBad(argI(g, "sf")) || feeBad(argI(g, "cf")) || feeBad(argI(g, "ddf"))
	case "UpdateGovTime":
		hasGov := false
		for _, e := range pre.Gov {
			hasGov = hasGov || e.App == argI(g, "app")
		}
		mgd, gts := argI(g, "mgd"), argI(g, "gts")
		ev.GovTime = mgd < 0 || (gts == 0 && mgd != 0) || (mgd == 0 && hasGov)
	case "UpdatePair":
		for _, e := range pre.Exts {
			ev.LivePair = ev.LivePair || e.Pair == argI(g, "id")
		}
	case "AddAssetInApp":
		seen := map[int64]bool{}
		for _, x := range argA(g, "toks") {
			id := argI(x.(map[string]interface{}), "asset")
			ev.Twice = ev.Twice || seen[id]
			seen[id] = true
		}
	}
	return ev
}

type aRunner struct {
	lg       *sim.Log
	run      string
	rootArgs map[string]interface{}
}

func (r *aRunner) Root(w *AWorld, profile string) (int, StA) {
	chunker.NewRoot(r.lg)
	st := w.Project()
	st.Root = len(r.lg.Nodes) + 1
	r.rootArgs = map[string]interface{}{"profile": profile}
	id := r.lg.Add(0, r.run, "Init", r.rootArgs, okRes, st)
	return id, st
}

func (r *aRunner) Step(w *AWorld, parent, root int, pre StA, a string, g map[string]interface{}) (int, StA) {
	res := w.Do(a, g)
	st := w.Project()
	p := chunker.Parent(r.lg, parent, func(id int) {
		cp := pre
		cp.Root, cp.Ev = id, EvA{}
		r.lg.Add(0, r.run, "Resume", r.rootArgs, okRes, cp)
	})
	if p != parent {
		root = p
	} else {
		root = pre.Root
	}
	st.Root = root
	st.Ev = labelA(pre, a, g, res.OK)
	return r.lg.Add(p, r.run, a, g, resOf(res), st), st
}

// WalkA executes every transition of the MC_AssetAdmin graphs once on the real module.
func WalkA(lg *sim.Log, graphs []*Graph) int {
	edges := 0
	for gi, g := range graphs {
		profile := argS(g.Init.Args, "profile")
		w := NewAWorld(profile)
		r := &aRunner{lg: lg, run: fmt.Sprintf("walk:%d:%s", gi, profile)}
		root, st0 := r.Root(w, profile)
		pres := map[int]StA{root: st0}
		wk := &Walker{Exec: func(env *sim.Env, parent int, e Edge) int {
			id, st := r.Step(w.On(env), parent, root, pres[parent], e.A, e.Args)
			pres[id] = st
			return id
		}}
		wk.Walk(w.Env, root, g)
		edges += wk.Edges
	}
	return edges
}

func tok(as, sup int64, gov bool, rc string) map[string]interface{} {
	return map[string]interface{}{"asset": as, "sup": sup, "gov": gov, "rc": rc}
}

// DriveA: seeded behaviours mixing all administration requests on one store (more records and longer histories
// than the bounded models: up to ~8 assets, 4 apps, 6 pairs, 5 extended pairs, repeated updates).
func DriveA(lg *sim.Log, seed int64, runs, steps int) {
	rng := sim.NewRng(seed*104729 + 7)
	names := []string{"ATOM", "CMST", "HARBOR", "OSMO", "atom", "ABCDEFGHIJK", "XTOK", "MTOK"}
	denoms := []string{"uatom", "ucmst", "uharbor", "uosmo", "u", "uxtok", "umtok", "umint"}
	appNames := []string{"alpha", "beta", "alphax", "Beta", "averylongname", "gamma"}
	shorts := []string{"alp", "bet", "lph", "B2", "toolong", "gam"}
	pnames := []string{"ATOM-A", "ATOM-B", "ATOM-C", "atom-a"}
	fees := []int64{0, 1, 25, 50, 99, 100, -10, 150}
	for n := 0; n < runs; n++ {
		profile := "drive"
		if n%3 == 0 {
			profile = "drive0"
		}
		w := NewAWorld(profile)
		r := &aRunner{lg: lg, run: fmt.Sprintf("drive:%d:%d", seed, n)}
		cur, st := r.Root(w, profile)
		root := cur
		for i := 0; i < steps; i++ {
			var a string
			var g map[string]interface{}
			asset := func() map[string]interface{} {
				on := rng.Intn(5) != 0
				return map[string]interface{}{"name": rng.PickS(names), "denom": rng.PickS(denoms), "dec": rng.PickI64([]int64{1, 10, 100, 1, 0}), "on": on,
					"orc": rng.Intn(3) == 0, "cdp": rng.Intn(3) == 0}
			}
			anyID := func(n int64) int64 {
				if rng.Intn(8) == 0 || n == 0 {
					return 9 + int64(rng.Intn(2))*90
				}
				return 1 + int64(rng.Intn(int(n)))
			}
			switch rng.Weighted([]int{4, 3, 4, 5, 2, 2, 4, 5, 4, 2, 5, 5}) {
			case 0:
				mgd := rng.PickI64([]int64{0, 0, 5, -1})
				a, g = "AddApp", map[string]interface{}{"name": rng.PickS(appNames), "short": rng.PickS(shorts), "mgd": mgd, "gts": rng.PickI64([]int64{0, 10}), "gt": []interface{}{}}
			case 1:
				a, g = "UpdateGovTime", map[string]interface{}{"app": anyID(st.Ctr["app"]), "gts": rng.PickI64([]int64{0, 10, 20}), "mgd": rng.PickI64([]int64{0, 5, 7, -1})}
			case 2:
				toks := []interface{}{}
				for j := 0; j <= rng.Intn(2); j++ {
					toks = append(toks, tok(anyID(st.Ctr["asset"]), rng.PickI64([]int64{100, 40, 0}), rng.Intn(2) == 0, rng.PickS([]string{"r1", "r2", "r1", "bad"})))
				}
				if rng.Intn(6) == 0 && len(toks) == 1 {
					toks = append(toks, toks[0])
				}
				a, g = "AddAssetInApp", map[string]interface{}{"app": anyID(st.Ctr["app"]), "toks": toks}
			case 3:
				a, g = "AddAsset", asset()
			case 4:
				a, g = "AddAssets", map[string]interface{}{"list": []interface{}{asset(), asset()}}
			case 5:
				a, g = "MsgAddAsset", asset()
			case 6:
				g = asset()
				g["id"] = anyID(st.Ctr["asset"])
				if rng.Intn(2) == 0 && g["id"].(int64) <= int64(len(st.Assets)) { // keep most attributes, change one
					x := st.Assets[g["id"].(int64)-1]
					g["name"], g["denom"], g["dec"], g["orc"] = x.Name, x.Denom, x.Dec, x.Orc
					switch rng.Intn(4) {
					case 0:
						g["name"] = rng.PickS(names)
					case 1:
						g["denom"] = rng.PickS(denoms)
					case 2:
						g["dec"] = int64(100)
					case 3:
						g["orc"] = !x.Orc
					}
				}
				a = "UpdateAsset"
			case 7:
				a, g = "AddPair", map[string]interface{}{"in": anyID(st.Ctr["asset"]), "out": anyID(st.Ctr["asset"])}
			case 8:
				a, g = "UpdatePair", map[string]interface{}{"id": anyID(st.Ctr["pair"]), "in": anyID(st.Ctr["asset"]), "out": anyID(st.Ctr["asset"])}
			case 9:
				g = asset()
				g["out"] = anyID(st.Ctr["asset"] + 1)
				a = "AddAssetPair"
			case 10:
				ceil := rng.PickI64([]int64{1000, 100, 101})
				a, g = "AddExt", map[string]interface{}{"app": anyID(st.Ctr["app"]), "pair": anyID(st.Ctr["pair"]), "name": rng.PickS(pnames), "sf": rng.PickI64(fees), "cf": rng.PickI64(fees[:5]),
					"ddf": rng.PickI64(fees[:6]), "lp": int64(12), "act": true, "ceil": ceil, "floor": rng.PickI64([]int64{100, 50, 100}), "stable": rng.Intn(4) == 0, "mincr": int64(150)}
			case 11:
				a, g = "UpdateExt", map[string]interface{}{"app": anyID(st.Ctr["app"]), "ext": anyID(st.Ctr["ext"]), "sf": rng.PickI64(fees), "cf": rng.PickI64(fees[:6]), "lp": int64(15),
					"ddf": rng.PickI64(fees[:6]), "act": rng.Intn(2) == 0, "mincr": int64(170), "ceil": rng.PickI64([]int64{2000, 50, 40}), "floor": int64(50)}
			}
			cur, st = r.Step(w, cur, root, st, a, g)
		}
	}
}
