package admin

import "vh/sim"

func WalkA(lg *sim.Log, graphs []*Graph) int                 { return 0 }
func DriveA(lg *sim.Log, seed int64, runs, steps int)        {}
