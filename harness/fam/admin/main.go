// Package admin binds spec/admin/{Tokenmint,AssetAdmin}.tla to the real x/tokenmint and x/asset code.
//
//	world T  tokenmint : MsgMintNewTokens, MintNewTokensForApp, BurnTokensForApp (as its callers use it),
//	                     BurnGovTokensForApp, WasmMsgFoundationEmission, WasmMsgRebaseMint, the supply book
//	world A  asset     : apps, assets, pairs, genesis-token configuration, extended pair vaults (add / update)
//
// The harness only executes and records; every judgement is made by TLC on the recorded log.
package admin

import (
	"flag"
	"fmt"
	"os"

	"vh/sim"
)

func Main(args []string) int {
	fs := flag.NewFlagSet("admin", flag.ExitOnError)
	world := fs.String("world", "T", "T (tokenmint) | A (asset administration)")
	tfile := fs.String("tfile", "", "TLC transition dump (T lines) of the world's MC_ model")
	out := fs.String("out", "admin.ndjson", "output tree log")
	seed := fs.Int64("seed", 1, "seed")
	runs := fs.Int("runs", 20, "seeded behaviours")
	steps := fs.Int("steps", 40, "steps per behaviour")
	chunk := fs.Int("chunk", 0, "keep the log splittable every N nodes (0 = one tree per walk)")
	fs.Parse(args)
	chunker.K = *chunk
	lg := &sim.Log{}
	var graphs []*Graph
	if *tfile != "" {
		var err error
		graphs, err = LoadGraphs(*tfile)
		if err != nil {
			fmt.Fprintln(os.Stderr, err)
			return 2
		}
	}
	edges := 0
	switch *world {
	case "T":
		edges = WalkT(lg, graphs)
		DriveT(lg, *seed, *runs, *steps)
	case "A":
		edges = WalkA(lg, graphs)
		DriveA(lg, *seed, *runs, *steps)
	default:
		fmt.Fprintln(os.Stderr, "unknown world", *world)
		return 2
	}
	if err := lg.Write(*out); err != nil {
		fmt.Fprintln(os.Stderr, err)
		return 2
	}
	fmt.Printf("admin: world=%s graphs=%d edges=%d nodes=%d\n", *world, len(graphs), edges, len(lg.Nodes))
	return 0
}
