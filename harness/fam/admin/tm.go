package admin

import (
	"fmt"

	sdk "github.com/cosmos/cosmos-sdk/types"

	"github.com/comdex-official/comdex/app/wasm"
	"github.com/comdex-official/comdex/app/wasm/bindings"
	assettypes "github.com/comdex-official/comdex/x/asset/types"
	tokenminttypes "github.com/comdex-official/comdex/x/tokenmint/types"

	"vh/sim"
)

// ---------------------------------------------------------------------------------------------
// World T: x/tokenmint (spec/admin/Tokenmint.tla). The harness executes and records; TLC judges.
// ---------------------------------------------------------------------------------------------

// GenTok is one AppData.GenesisToken entry of the configuration (symbolic names).
type GenTok struct {
	Asset string `json:"asset"`
	Sup   int64  `json:"sup"`
	Gov   bool   `json:"gov"`
	Rc    string `json:"rc"`
}

// TmCfg is the configuration record c of Tokenmint.tla; it is logged in the Init node (args.c).
type TmCfg struct {
	Gen map[string][]GenTok `json:"gen"`
	Ext map[string]int64    `json:"ext"`
	Fix bool                `json:"fix"`
}

var tmApps = []string{"a1", "a2", "a3"}
var tmAssets = []string{"X", "Y", "Z", "W"}
var tmAccts = []string{"tm", "r1", "r2", "u1"}
var tmDenom = map[string]string{"X": "uxgov", "Y": "uytok", "Z": "uzgov", "W": "uwoth"}
var tmAppNames = map[string][2]string{"a1": {"alpha", "alp"}, "a2": {"beta", "bet"}, "a3": {"gamma", "gam"}}

const unknownID = 9

type TmWorld struct {
	*sim.Env
	Cfg     TmCfg
	AppID   map[string]uint64
	AssetID map[string]uint64
}

func must(err error) {
	if err != nil {
		panic(err)
	}
}

func (w *TmWorld) addr(name string) sdk.AccAddress {
	if name == "tm" {
		return sim.ModAddr(tokenminttypes.ModuleName)
	}
	return sim.Addr(name)
}

func (w *TmWorld) appID(n string) uint64 {
	if id, ok := w.AppID[n]; ok {
		return id
	}
	return unknownID
}
func (w *TmWorld) assetID(n string) uint64 {
	if id, ok := w.AssetID[n]; ok {
		return id
	}
	return unknownID
}

// NewTmWorld boots the application and installs the configuration through the asset keeper: 4 assets, 3 apps whose
// GenesisToken lists are taken verbatim from the configuration (the path of the v5 upgrade handler:
// AddAppRecords + SetGenesisTokenForApp), the externally minted supply as genesis balances of u1.
func NewTmWorld(c TmCfg) *TmWorld {
	ext := sdk.NewCoins()
	for _, as := range tmAssets {
		if c.Ext[as] > 0 {
			ext = ext.Add(sdk.NewCoin(tmDenom[as], sdk.NewInt(c.Ext[as])))
		}
	}
	env := sim.New([]sim.Fund{{Name: "u1", Coins: ext}, {Name: "r1", Coins: sdk.NewCoins()}, {Name: "r2", Coins: sdk.NewCoins()}})
	w := &TmWorld{Env: env, Cfg: c, AppID: map[string]uint64{}, AssetID: map[string]uint64{}}
	for i, as := range tmAssets {
		must(env.App.AssetKeeper.AddAssetRecords(env.Ctx, assettypes.Asset{Name: as + "TOK", Denom: tmDenom[as], Decimals: sdk.NewInt(1), IsOnChain: true}))
		w.AssetID[as] = uint64(i + 1)
	}
	for i, app := range tmApps {
		toks := []assettypes.MintGenesisToken{}
		gov := uint64(0)
		for _, t := range c.Gen[app] {
			toks = append(toks, assettypes.MintGenesisToken{AssetId: w.AssetID[t.Asset], GenesisSupply: sdk.NewInt(t.Sup), IsGovToken: t.Gov, Recipient: sim.Addr(t.Rc).String()})
			if t.Gov {
				gov = w.AssetID[t.Asset]
			}
		}
		mgd, gts := sdk.NewInt(0), uint64(0)
		if gov != 0 {
			mgd, gts = sdk.NewInt(5), 10
		}
		nm := tmAppNames[app]
		must(env.App.AssetKeeper.AddAppRecords(env.Ctx, assettypes.AppData{Name: nm[0], ShortName: nm[1], MinGovDeposit: mgd, GovTimeInSeconds: gts, GenesisToken: toks}))
		w.AppID[app] = uint64(i + 1)
		if gov != 0 {
			env.App.AssetKeeper.SetGenesisTokenForApp(env.Ctx, uint64(i+1), gov)
		}
	}
	return w
}

func (w *TmWorld) On(env *sim.Env) *TmWorld { n := *w; n.Env = env; return &n }

type BookEntry struct {
	Done bool  `json:"done"`
	Gen  int64 `json:"gen"`
	Cur  int64 `json:"cur"`
	N    int64 `json:"n"`
}

type StT struct {
	Book   map[string]map[string]BookEntry `json:"book"`
	Sup    map[string]int64                `json:"sup"`
	Bal    map[string]map[string]int64     `json:"bal"`
	Digest string                          `json:"digest"`
	Root   int                             `json:"root"`
	Ev     EvT                             `json:"ev"`
}

// EvT labels a step for known-finding keys (derived from the request and the recorded pre-state only).
type EvT struct {
	Dust     bool `json:"dust"`     // emission amount not a multiple of the number of addresses
	Negative bool `json:"negative"` // emission with a negative amount
	Unbooked bool `json:"unbooked"` // mint / burn on an (app, asset) without a book entry
}

var tmStores = []string{"tokenmint", "bank", "assetv1"}

func (w *TmWorld) Project() StT {
	s := StT{Book: map[string]map[string]BookEntry{}, Sup: map[string]int64{}, Bal: map[string]map[string]int64{}}
	for _, app := range tmApps {
		m := map[string]BookEntry{}
		for _, as := range tmAssets {
			m[as] = BookEntry{}
		}
		if tm, ok := w.App.TokenmintKeeper.GetTokenMint(w.Ctx, w.AppID[app]); ok {
			for _, mt := range tm.MintedTokens {
				for _, as := range tmAssets {
					if w.AssetID[as] == mt.AssetId {
						e := m[as]
						if !e.Done {
							e = BookEntry{Done: true, Gen: mt.GenesisSupply.Int64(), Cur: mt.CurrentSupply.Int64()}
						}
						e.N++
						m[as] = e
					}
				}
			}
		}
		s.Book[app] = m
	}
	for _, as := range tmAssets {
		s.Sup[as] = w.App.BankKeeper.GetSupply(w.Ctx, tmDenom[as]).Amount.Int64()
	}
	for _, ac := range tmAccts {
		m := map[string]int64{}
		for _, as := range tmAssets {
			m[as] = sim.Bal(w.App, w.Ctx, w.addr(ac), tmDenom[as])
		}
		s.Bal[ac] = m
	}
	s.Digest = sim.Digest(w.App, w.Ctx, tmStores)
	return s
}

// call runs fn on a cache-wrapped context and writes it back only when fn returns nil (the atomicity every caller of
// these keeper entry points has: a message handler, a wasm dispatch or ApplyFuncIfNoError). A panic is a rejected request.
func call(env *sim.Env, fn func(ctx sdk.Context) error) (res sim.Result) {
	cctx, write := env.Ctx.CacheContext()
	defer func() {
		if r := recover(); r != nil {
			res = sim.Result{OK: false, Panic: true, Err: fmt.Sprint(r)}
		}
	}()
	if err := fn(cctx); err != nil {
		return sim.Result{OK: false, Err: err.Error()}
	}
	write()
	return sim.Result{OK: true}
}

// Do executes one action of Tokenmint.tla on the real module.
func (w *TmWorld) Do(a string, g map[string]interface{}) sim.Result {
	k := w.App.TokenmintKeeper
	app, as := w.appID(argS(g, "app")), argS(g, "asset")
	amt := sdk.NewInt(argI(g, "amt"))
	switch a {
	case "MsgMint":
		return w.Deliver(&tokenminttypes.MsgMintNewTokensRequest{From: sim.Addr("u1").String(), AppId: app, AssetId: w.assetID(as)})
	case "MintForApp":
		return call(w.Env, func(ctx sdk.Context) error {
			return k.MintNewTokensForApp(ctx, app, w.assetID(as), w.addr(argS(g, "to")).String(), amt)
		})
	case "BurnForApp":
		// as x/esm DepositESM and the surplus-auction close do it: holder -> tokenmint module account, then BurnTokensForApp
		return call(w.Env, func(ctx sdk.Context) error {
			if d, ok := tmDenom[as]; ok {
				if err := w.App.BankKeeper.SendCoinsFromAccountToModule(ctx, w.addr(argS(g, "from")), tokenminttypes.ModuleName, sdk.NewCoins(sdk.NewCoin(d, amt))); err != nil {
					return err
				}
			}
			return k.BurnTokensForApp(ctx, app, w.assetID(as), amt)
		})
	case "BurnGov":
		return call(w.Env, func(ctx sdk.Context) error {
			return wasm.MsgBurnGovTokensForApp(k, ctx, sim.Addr("contract"), &bindings.MsgBurnGovTokensForApp{AppID: app, From: w.addr(argS(g, "from")), Amount: sdk.Coin{Denom: tmDenom[as], Amount: amt}})
		})
	case "Emission":
		addrs := []string{}
		for _, n := range argL(g, "addrs") {
			addrs = append(addrs, w.addr(n).String())
		}
		return call(w.Env, func(ctx sdk.Context) error {
			return wasm.MsgFoundationEmission(k, ctx, &bindings.MsgFoundationEmission{AppID: app, Amount: amt, FoundationAddress: addrs})
		})
	case "Rebase":
		return call(w.Env, func(ctx sdk.Context) error {
			return wasm.MsgRebaseMint(k, ctx, &bindings.MsgRebaseMint{AppID: app, Amount: amt, ContractAddr: w.addr(argS(g, "to"))})
		})
	}
	panic("unknown tokenmint action " + a)
}

func (w *TmWorld) govOf(app string) string {
	g := ""
	for _, t := range w.Cfg.Gen[app] {
		if t.Gov {
			g = t.Asset
		}
	}
	return g
}

func (w *TmWorld) label(pre StT, a string, g map[string]interface{}, ok bool) EvT {
	ev := EvT{}
	app, amt := argS(g, "app"), argI(g, "amt")
	done := func(as string) bool { b, ok := pre.Book[app]; return ok && b[as].Done }
	switch a {
	case "Emission":
		n := int64(len(argL(g, "addrs")))
		ev.Dust = ok && amt > 0 && n > 0 && amt%n != 0
		ev.Negative = ok && amt < 0
		ev.Unbooked = ok && amt > 0 && !done(w.govOf(app))
	case "Rebase":
		ev.Unbooked = ok && amt > 0 && !done(w.govOf(app))
	case "BurnGov":
		ev.Unbooked = ok && !done(argS(g, "asset"))
	}
	return ev
}

type tmRunner struct {
	lg       *sim.Log
	run      string
	rootArgs map[string]interface{}
}

func resOf(r sim.Result) map[string]interface{} {
	return map[string]interface{}{"ok": r.OK, "code": r.Code, "panic": r.Panic, "err": trunc(r.Err, 120)}
}

func trunc(s string, n int) string {
	if len(s) > n {
		return s[:n]
	}
	return s
}

var okRes = map[string]interface{}{"ok": true, "code": "", "panic": false, "err": ""}

// Step executes (a, g) on w (already the branch to use), logs the node under parent and returns its id.
func (r *tmRunner) Step(w *TmWorld, parent, root int, pre StT, a string, g map[string]interface{}) (int, StT) {
	res := w.Do(a, g)
	st := w.Project()
	p := chunker.Parent(r.lg, parent, func(id int) {
		cp := pre
		cp.Root, cp.Ev = id, EvT{}
		r.lg.Add(0, r.run, "Resume", r.rootArgs, okRes, cp)
	})
	if p != parent {
		root = p
	} else {
		root = pre.Root
	}
	st.Root = root
	st.Ev = w.label(pre, a, g, res.OK)
	return r.lg.Add(p, r.run, a, g, resOf(res), st), st
}

func (r *tmRunner) Root(w *TmWorld, profile string) (int, StT) {
	chunker.NewRoot(r.lg)
	st := w.Project()
	st.Root = len(r.lg.Nodes) + 1
	r.rootArgs = map[string]interface{}{"c": w.Cfg, "profile": profile}
	id := r.lg.Add(0, r.run, "Init", r.rootArgs, okRes, st)
	return id, st
}

func parseTmCfg(m map[string]interface{}) TmCfg {
	c := TmCfg{Gen: map[string][]GenTok{}, Ext: map[string]int64{}}
	cm := argM(m, "c")
	for app, v := range argM(cm, "gen") {
		toks := []GenTok{}
		if xs, ok := v.([]interface{}); ok {
			for _, x := range xs {
				t := x.(map[string]interface{})
				toks = append(toks, GenTok{Asset: argS(t, "asset"), Sup: argI(t, "sup"), Gov: argB(t, "gov"), Rc: argS(t, "rc")})
			}
		}
		c.Gen[app] = toks
	}
	for as := range argM(cm, "ext") {
		c.Ext[as] = argI(argM(cm, "ext"), as)
	}
	c.Fix = argB(cm, "fix")
	for _, app := range tmApps {
		if c.Gen[app] == nil {
			c.Gen[app] = []GenTok{}
		}
	}
	return c
}

// WalkT executes every transition of the MC_Tokenmint graphs once on the real module.
func WalkT(lg *sim.Log, graphs []*Graph) int {
	edges := 0
	for gi, g := range graphs {
		c := parseTmCfg(g.Init.Args)
		w := NewTmWorld(c)
		r := &tmRunner{lg: lg, run: fmt.Sprintf("walk:%d:%s", gi, argS(g.Init.Args, "profile"))}
		root, st0 := r.Root(w, argS(g.Init.Args, "profile"))
		pres := map[int]StT{root: st0}
		wk := &Walker{Exec: func(env *sim.Env, parent int, e Edge) int {
			id, st := r.Step(w.On(env), parent, root, pres[parent], e.A, e.Args)
			pres[id] = st
			return id
		}}
		wk.Walk(w.Env, root, g)
		edges += wk.Edges
	}
	return edges
}

// DriveT: seeded behaviours over random valid configurations (supplies, recipients, order of the list, a third app with
// a token that also has external supply) with all six entry points interleaved.
func DriveT(lg *sim.Log, seed int64, runs, steps int) {
	rng := sim.NewRng(seed*7919 + 11)
	for n := 0; n < runs; n++ {
		rcs := []string{"r1", "r2", "u1"}
		c := TmCfg{Gen: map[string][]GenTok{}, Ext: map[string]int64{"X": 0, "Y": 0, "Z": 0, "W": int64(rng.Intn(3)) * 15}}
		// configurations the asset module accepts (AddAssetInAppRecords): an asset under one app only, one governance token per app
		c.Gen["a1"] = []GenTok{{Asset: "X", Sup: int64(20 + rng.Intn(100)), Gov: true, Rc: rng.PickS(rcs)}, {Asset: "Y", Sup: int64(1 + rng.Intn(50)), Gov: false, Rc: rng.PickS(rcs)}}
		c.Gen["a2"] = []GenTok{{Asset: "Z", Sup: int64(20 + rng.Intn(100)), Gov: true, Rc: rng.PickS(rcs)}}
		if n%3 == 1 { // the governance token is not the first entry of the list
			c.Gen["a1"][0], c.Gen["a1"][1] = c.Gen["a1"][1], c.Gen["a1"][0]
		}
		c.Gen["a3"] = []GenTok{}
		if n%4 == 2 {
			c.Gen["a3"] = []GenTok{{Asset: "W", Sup: int64(5 + rng.Intn(20)), Gov: rng.Intn(2) == 0, Rc: rng.PickS(rcs)}}
		}
		if c.Ext["W"] > 0 && rng.Intn(2) == 0 {
			c.Ext["Y"] = 10
		}
		w := NewTmWorld(c)
		r := &tmRunner{lg: lg, run: fmt.Sprintf("drive:%d:%d", seed, n)}
		cur, st := r.Root(w, "drive")
		root := cur
		apps := []string{"a1", "a1", "a2", "a2", "a3", "a9"}
		assets := []string{"X", "X", "Y", "Y", "Z", "Z", "W", "Q"}
		for _, app := range tmApps { // prologue: most configured genesis mints happen early (the rest of the run works on live books)
			for _, t := range c.Gen[app] {
				if rng.Intn(4) != 0 {
					cur, st = r.Step(w, cur, root, st, "MsgMint", map[string]interface{}{"app": app, "asset": t.Asset})
				}
			}
		}
		for i := 0; i < steps; i++ {
			var a string
			g := map[string]interface{}{}
			app, as := rng.PickS(apps), rng.PickS(assets)
			holder := rng.PickS(rcs)
			switch rng.Weighted([]int{5, 4, 4, 3, 5, 3}) {
			case 0:
				a, g = "MsgMint", map[string]interface{}{"app": app, "asset": as}
			case 1:
				a, g = "MintForApp", map[string]interface{}{"app": app, "asset": as, "to": holder, "amt": rng.PickI64([]int64{0, 1, 7, 30})}
			case 2:
				amt := rng.PickI64([]int64{1, 5, 40})
				if b, ok := st.Book[app]; ok && b[as].Done && rng.Intn(2) == 0 {
					amt = b[as].Cur - rng.PickI64([]int64{0, 1, 2})
				} else if bb, ok := st.Bal[holder][as]; ok && rng.Intn(3) == 0 {
					amt = bb + rng.PickI64([]int64{0, 1})
				}
				if amt <= 0 {
					amt = 1
				}
				a, g = "BurnForApp", map[string]interface{}{"app": app, "asset": as, "from": holder, "amt": amt}
			case 3:
				if as == "Q" {
					as = "W"
				}
				amt := rng.PickI64([]int64{1, 6, 25})
				if rng.Intn(3) == 0 {
					amt = st.Bal[holder][as] + rng.PickI64([]int64{0, 1})
				}
				if amt <= 0 {
					amt = 1
				}
				a, g = "BurnGov", map[string]interface{}{"app": app, "from": holder, "asset": as, "amt": amt}
			case 4:
				lists := [][]string{{"r1"}, {"r1", "r2"}, {"r2", "u1", "r1"}, {"r1", "r1", "u1"}, {}}
				l := lists[rng.Weighted([]int{3, 4, 4, 2, 1})]
				a, g = "Emission", map[string]interface{}{"app": app, "amt": rng.PickI64([]int64{-2, 0, 1, 2, 9, 10, 12, 31}), "addrs": l}
			case 5:
				a, g = "Rebase", map[string]interface{}{"app": app, "amt": rng.PickI64([]int64{-1, 0, 1, 8, 33}), "to": holder}
			}
			cur, st = r.Step(w, cur, root, st, a, g)
		}
	}
}
