package pairs

import (
	"sort"
	"strings"

	sdk "github.com/cosmos/cosmos-sdk/types"

	chain "github.com/comdex-official/comdex/app"
)

type compKeeper struct {
	Comp   string
	Store  string
	Keeper func(a *chain.App) interface{}
}

// Components of the C20 observation: one per DeFi module (formula C20_<Comp> in Trace_Genesis.tla).
var Components = []compKeeper{
	{"Asset", "assetv1", func(a *chain.App) interface{} { return a.AssetKeeper }},
	{"Vault", "vaultV1", func(a *chain.App) interface{} { return a.VaultKeeper }},
	{"Locker", "lockerV1", func(a *chain.App) interface{} { return a.LockerKeeper }},
	{"Collector", "collectorV1", func(a *chain.App) interface{} { return a.CollectorKeeper }},
	{"Market", "marketV1", func(a *chain.App) interface{} { return a.MarketKeeper }},
	{"LiquidationV1", "liquidationV1", func(a *chain.App) interface{} { return a.LiquidationKeeper }},
	{"AuctionV1", "auctionV1", func(a *chain.App) interface{} { return a.AuctionKeeper }},
	{"Rewards", "rewardsV1", func(a *chain.App) interface{} { return a.Rewardskeeper }},
	{"Liquidity", "liquidityV1", func(a *chain.App) interface{} { return a.LiquidityKeeper }},
	{"Lend", "lendV2", func(a *chain.App) interface{} { return a.LendKeeper }},
	{"Esm", "esmV1", func(a *chain.App) interface{} { return a.EsmKeeper }},
	{"Tokenmint", "tokenmint", func(a *chain.App) interface{} { return a.TokenmintKeeper }},
	{"LiquidationV2", "liquidationsV2", func(a *chain.App) interface{} { return a.NewliqKeeper }},
	{"AuctionV2", "auctionsV2", func(a *chain.App) interface{} { return a.NewaucKeeper }},
}

var _ sdk.Context

// infoOnly lists read entry points that are recorded but not judged: closed-position history and internal logs are
// not among "open position, custody record, parameter, price, id counter" of the C20 statement.
var infoOnly = map[string]bool{
	"LiquidationV1.GetLockedVaultHistory":    true,
	"LiquidationV1.GetLockedVaultIDHistory":  true,
	"AuctionV1.GetHistoryDebtAuctions":       true,
	"AuctionV1.GetHistoryDutchAuctions":      true,
	"AuctionV1.GetHistoryDutchLendAuctions":  true,
	"AuctionV1.GetHistorySurplusAuctions":    true,
	"AuctionV2.GetAuctionHistorical":         true,
	"AuctionV2.GetAuctionHistoricals":        true,
	"LiquidationV2.GetAppReserveFundsTxData": true,
}

// Observe returns all parts of all components on the chain's current readable state.
func Observe(c *Chain) []PartObs { return ObserveOn(c.App, c.ReadCtx(), false) }

// ObserveOn evaluates the observation function on an arbitrary context of app (answers are computed on
// cache branches; nothing is written).
func ObserveOn(app *chain.App, ctx sdk.Context, light bool) []PartObs {
	var parts []PartObs
	for _, ck := range Components {
		parts = append(parts, observeKeeper(ck.Comp, ck.Keeper(app), ctx, light)...)
	}
	if light {
		return append(parts, observeBank(app, ctx)...)
	}
	// auctionsV2 limit bids are keyed by address / premium
	lb := map[string]interface{}{}
	for _, u := range Users {
		if v, found := app.NewaucKeeper.GetUserLimitBidDataByAddress(ctx, U(u).String()); found {
			lb[u] = v
		}
	}
	parts = append(parts, manualPart("AuctionV2", "GetUserLimitBidDataByAddress", lb))
	lp := map[string]interface{}{}
	for _, pr := range [][2]uint64{{A3, A2}, {A2, A1}, {A3, A4}} {
		for prem := int64(0); prem <= 30; prem++ {
			if v, found := app.NewaucKeeper.GetUserLimitBidDataByPremium(ctx, pr[0], pr[1], sdk.NewInt(prem)); found && len(v) > 0 {
				lp[jsonOf([]interface{}{pr, prem})] = v
			}
		}
	}
	parts = append(parts, manualPart("AuctionV2", "GetUserLimitBidDataByPremium", lp))
	parts = append(parts, indexParts(app, ctx)...)
	parts = append(parts, observeBank(app, ctx)...)
	return parts
}

func observeBank(app *chain.App, ctx sdk.Context) []PartObs {
	bals := map[string]interface{}{}
	for _, b := range app.BankKeeper.GetAccountsBalances(ctx) {
		if !b.Coins.IsZero() {
			bals[b.Address] = b.Coins.String()
		}
	}
	sup := map[string]interface{}{}
	app.BankKeeper.IterateTotalSupply(ctx, func(coin sdk.Coin) bool {
		sup[coin.Denom] = coin.Amount.String()
		return false
	})
	return []PartObs{manualPart("Bank", "Balances", bals), manualPart("Bank", "Supply", sup)}
}

// PartDiff is the diagnostic summary of one part compared on the original and the copy (never judged).
type PartDiff struct {
	Sym   string `json:"sym"`   // same | scalar_lower | scalar_higher | items_lost | items_extra | items_changed | items_mixed
	OnlyO int    `json:"onlyO"` // answers present only on the original
	OnlyC int    `json:"onlyC"`
	Chg   int    `json:"chg"`
	// Keys names the differing answers of a point-query part by their argument tuples, e.g. "lost:[2 10]" (at most 8;
	// empty for bulk readers and counters). It lets a known finding be keyed on the exact records concerned.
	Keys string `json:"keys"`
}

func diffParts(o, c PartObs) PartDiff {
	if o.Digest == c.Digest {
		return PartDiff{Sym: "same"}
	}
	if o.Scalar >= 0 && c.Scalar >= 0 {
		if c.Scalar < o.Scalar {
			return PartDiff{Sym: "scalar_lower", Chg: 1}
		}
		return PartDiff{Sym: "scalar_higher", Chg: 1}
	}
	var d PartDiff
	var keys []string
	note := func(kind, k string) {
		if strings.HasPrefix(k, "[") && k != "[]" {
			keys = append(keys, kind+":"+k)
		}
	}
	for k, v := range o.Items {
		w, ok := c.Items[k]
		if !ok {
			d.OnlyO++
			note("lost", k)
		} else if v != w {
			d.Chg++
			note("chg", k)
		}
	}
	for k := range c.Items {
		if _, ok := o.Items[k]; !ok {
			d.OnlyC++
			note("extra", k)
		}
	}
	sort.Strings(keys)
	if len(keys) > 8 {
		keys = append(keys[:8], "...")
	}
	d.Keys = strings.Join(keys, ";")
	switch {
	case d.OnlyO > 0 && d.OnlyC == 0 && d.Chg == 0:
		d.Sym = "items_lost"
	case d.OnlyC > 0 && d.OnlyO == 0 && d.Chg == 0:
		d.Sym = "items_extra"
	case d.Chg > 0 && d.OnlyO == 0 && d.OnlyC == 0:
		d.Sym = "items_changed"
	default:
		d.Sym = "items_mixed"
	}
	return d
}
