package pairs

import (
	"time"

	sdk "github.com/cosmos/cosmos-sdk/types"

	auctionv1types "github.com/comdex-official/comdex/x/auction/types"
	auctionsv2types "github.com/comdex-official/comdex/x/auctionsV2/types"
	esmtypes "github.com/comdex-official/comdex/x/esm/types"
	lendtypes "github.com/comdex-official/comdex/x/lend/types"
	liqv1types "github.com/comdex-official/comdex/x/liquidation/types"
	liqv2types "github.com/comdex-official/comdex/x/liquidationsV2/types"
	"github.com/comdex-official/comdex/x/liquidity/amm"
	liquiditytypes "github.com/comdex-official/comdex/x/liquidity/types"
	lockertypes "github.com/comdex-official/comdex/x/locker/types"
	rewardstypes "github.com/comdex-official/comdex/x/rewards/types"
	tokenminttypes "github.com/comdex-official/comdex/x/tokenmint/types"
	vaulttypes "github.com/comdex-official/comdex/x/vault/types"
)

var _ = time.Second

func priceTick(x sdk.Dec) sdk.Dec              { return amm.PriceToDownTick(x, 4) }
func offerAmtBuy(p sdk.Dec, a sdk.Int) sdk.Int { return amm.OfferCoinAmount(amm.Buy, p, a) }

func i(n int64) sdk.Int { return sdk.NewInt(n) }

// Base is the scripted part of every workload: configuration, then one pass through every DeFi module with
// real messages and real blocks (the shape of the repository's keeper fixtures, driven through the router).
func (g *Gen) Base() {
	g.next(6)
	for _, s := range WorldSteps() {
		g.step(s)
	}
	g.next(6)
	g.harborOpen()
	g.next(6)
	g.lendOpen()
	g.next(6)
	g.swapOpen()
	g.next(6)
	for k, u := range []string{"u3", "u4", "u5", "u6"} { // several farmers per pool, unequal shares
		for _, pool := range []uint64{1, 2} {
			pc := liquiditytypes.PoolCoinDenom(AppSwap, pool)
			if bal := g.C.App.BankKeeper.GetBalance(g.ctx(), U(u), pc).Amount; bal.IsPositive() {
				g.msg("liquidity.farm", liquiditytypes.NewMsgFarm(AppSwap, pool, U(u), sdk.NewCoin(pc, bal.QuoRaw(int64(2+k)))))
			}
		}
	}
	for k := 0; k < 3; k++ {
		g.trade(1)
		g.trade(2)
		if k > 0 {
			g.trade(3)
		}
		g.next(6)
	}
	g.next(13 * 3600) // epoch + farming queue
	g.trade(1)
	g.trade(3)
	g.next(13 * 3600)
	g.trade(2)
	g.trade(3)
	g.next(13 * 3600)
	g.trade(3)
	g.interest()
	g.next(6)
	g.next(3*86400 + 7) // chain-halt sized gap: more than two epoch durations between consecutive blocks
	g.interest()
	g.next(6)
	// whale vault: its draw-down fee pushes the collector's net fees over the surplus threshold
	g.msg("vault.create", vaulttypes.NewMsgCreateRequest(U("u5"), AppHarbor, 1, i(9_000_000_000), i(2_500_000_000)))
	g.next(6)
	g.next(6)
	g.bidAll()
	// price move 1: lend collateral A1 2.0 -> 0.9 (borrows against cAsset1 become unsafe): the locked vaults of the LEND app
	// (app 3) get the lower ids of the counter they share with the harbor app (app 2), while the store keeps them after
	// app 2's: creation order and key order of the shared counter's records differ
	g.step(cfgStep("env.price", priceArg{Asset: A1, Twa: 900000, Active: true}))
	g.next(6)
	g.next(6)
	g.bidAll()
	// price move 2: vault collateral A2 2.0 -> 1.0 (vaults 4, 5 and 6 become unsafe)
	g.step(cfgStep("env.price", priceArg{Asset: A2, Twa: 1000000, Active: true}))
	// the V1 liquidation message still works (its begin blocker is not wired): it seizes vault 5 before the V2 sweep;
	// an internal keeper seizes vault 6 through the V2 message; the V2 sweep of the next block takes vault 4
	g.msg("liqv1.liquidate", liqv1types.NewMsgLiquidateRequest(U("u6"), AppHarbor, 5))
	g.msg("liqv2.internal", liqV2Internal(U("u3"), 6))
	for p := int64(1); p <= 24; p += 2 { // limit bids on many discount levels: some are hit while the Dutch price falls
		g.msg("aucv2.limitbid", auctionsv2types.NewMsgDepositLimitBid(U(Users[p%4]).String(), A2, A3, i(p), coin("uasset3", 150_000+p*1000)))
	}
	g.next(6)
	g.msg("liqv2.internal", liqV2Internal(U("u6"), 7))
	g.msg("aucv1.bid.dutch", auctionv1types.NewMsgPlaceDutchBid(U("u3").String(), 1, coin("uasset2", 100_000), AppHarbor, 3))
	g.bidAll()
	for k := 0; k < 6; k++ {
		g.next(290)
		if k%2 == 1 {
			g.bidAll()
		}
	}
	g.next(4000) // English auction end, Dutch restart
	g.bidAll()
	g.trade(1)
	g.next(6)
}

// PadTo runs empty blocks up to the given height (liquidity converts accumulated swap fees at heights divisible
// by 150), then trades once more.
func (g *Gen) PadTo(h int64) {
	for g.C.Height < h {
		g.next(6)
	}
	g.trade(1)
	g.trade(2)
	g.trade(3)
	g.next(6)
	g.next(13 * 3600) // swap-fee gauges: the converted fees of the two pools of pair 1 are shared by pool liquidity
	g.trade(1)
	g.trade(3)
	g.next(13 * 3600)
	g.trade(3)
	g.next(13 * 3600)
	g.next(6)
}

// trade places a small book on a pair: several orders at one price (pro-rata split with remainders), a crossing
// order, a market order and market-making orders; cancels one older order.
func (g *Gen) trade(pair uint64) {
	base, quote := "uasset1", "uasset2"
	last := d("1.0")
	if pair == 2 {
		base, quote = "ucmdx", "uasset3"
	}
	if pair == 3 {
		base, quote, last = "uasset2", "ucmdx", d("2.0")
	}
	ctx := g.ctx()
	p, found := g.C.App.LiquidityKeeper.GetPair(ctx, AppSwap, pair)
	if !found {
		return
	}
	if p.LastPrice != nil {
		last = *p.LastPrice
	}
	tick := func(x sdk.Dec) sdk.Dec { return amm.PriceToDownTick(x, 4) }
	lo, hi := tick(last.Mul(d("0.97"))), tick(last.Mul(d("1.03")))
	fee := func(c sdk.Coin) sdk.Coin {
		return c.AddAmount(sdk.NewDecFromInt(c.Amount).Mul(d("0.003")).Ceil().TruncateInt())
	}
	limit := func(u string, dir liquiditytypes.OrderDirection, price sdk.Dec, amt int64) {
		var offer sdk.Coin
		demand := quote
		if dir == liquiditytypes.OrderDirectionBuy {
			offer, demand = sdk.NewCoin(quote, amm.OfferCoinAmount(amm.Buy, price, i(amt))), base
		} else {
			offer = coin(base, amt)
		}
		g.msg("liquidity.limit", liquiditytypes.NewMsgLimitOrder(AppSwap, U(u), pair, dir, fee(offer), demand, price, i(amt), time.Hour))
	}
	for k, u := range []string{"u3", "u4", "u5"} {
		limit(u, liquiditytypes.OrderDirectionSell, lo, int64(1_000_003+777_001*k)+g.R.Int63n(1000))
	}
	limit("u6", liquiditytypes.OrderDirectionBuy, hi, 2_500_001+g.R.Int63n(100000))
	limit("u1", liquiditytypes.OrderDirectionBuy, lo, 300_007)
	limit("u2", liquiditytypes.OrderDirectionSell, hi, 410_009)
	if p.LastPrice != nil {
		maxP := last.Mul(d("1.1"))
		amt := int64(150_001) + g.R.Int63n(5000)
		g.msg("liquidity.market", liquiditytypes.NewMsgMarketOrder(AppSwap, U("u4"), pair, liquiditytypes.OrderDirectionBuy,
			fee(sdk.NewCoin(quote, amm.OfferCoinAmount(amm.Buy, maxP, i(amt)))), base, i(amt), 0))
		g.msg("liquidity.market", liquiditytypes.NewMsgMarketOrder(AppSwap, U("u5"), pair, liquiditytypes.OrderDirectionSell,
			fee(coin(base, amt+77)), quote, i(amt+77), 0))
		g.msg("liquidity.mm", liquiditytypes.NewMsgMMOrder(AppSwap, U("u1"), pair, tick(last.Mul(d("1.05"))), tick(last.Mul(d("1.01"))), i(900_000),
			tick(last.Mul(d("0.99"))), tick(last.Mul(d("0.95"))), i(900_000), time.Hour))
	}
	// cancel the oldest open order of u1, if any
	var oid uint64
	_ = g.C.App.LiquidityKeeper.IterateOrdersByOrderer(ctx, AppSwap, U("u1"), func(o liquiditytypes.Order) (bool, error) {
		if o.PairId == pair && o.Type == liquiditytypes.OrderTypeLimit && o.BatchId < p.CurrentBatchId && o.Status.CanBeCanceled() {
			oid = o.Id
			return true, nil
		}
		return false, nil
	})
	if oid != 0 {
		g.msg("liquidity.cancel", liquiditytypes.NewMsgCancelOrder(AppSwap, U("u1"), pair, oid))
	}
	if pair == 1 {
		g.dustBook()
		g.faulty()
		g.lists()
		// cancel-all naming several pairs (the event lists the pair ids); u2 and u6 leave resting orders every round
		u := []string{"u2", "u6"}[g.R.Intn(2)]
		g.msg("liquidity.cancelall.multi", liquiditytypes.NewMsgCancelAllOrders(AppSwap, U(u), []uint64{1, 2, 3}))
	}
}

// bidAll places one market bid on every open V2 auction (partial on Dutch, raising on English).
func (g *Gen) bidAll() {
	ctx := g.ctx()
	for n, a := range g.C.App.NewaucKeeper.GetAuctions(ctx) {
		bidder := Users[(n+3)%len(Users)]
		if a.AuctionType { // Dutch: pay debt token
			amt := a.DebtToken.Amount.QuoRaw(3)
			if amt.IsPositive() {
				g.msg("aucv2.bid.dutch", auctionsv2types.NewMsgPlaceMarketBid(U(bidder).String(), a.AuctionId, sdk.NewCoin(a.DebtToken.Denom, amt)))
			}
		} else {
			amt := a.DebtToken.Amount.MulRaw(12).QuoRaw(10).AddRaw(1)
			g.msg("aucv2.bid.english", auctionsv2types.NewMsgPlaceMarketBid(U(bidder).String(), a.AuctionId, sdk.NewCoin(a.DebtToken.Denom, amt)))
		}
	}
}

func (g *Gen) harborOpen() {
	g.msg("tokenmint.mint", tokenminttypes.NewMsgMintNewTokensRequest(U("u6").String(), AppHarbor, AHARBOR))
	// vaults: u1/u3 tight (liquidatable after a price drop), u2 roomy
	g.msg("vault.create", vaulttypes.NewMsgCreateRequest(U("u2"), AppHarbor, 1, i(10_000_000), i(2_000_000)))
	g.msg("rewards.extvault", rewardstypes.NewMsgActivateExternalRewardsVault(AppHarbor, 1, coin("weth", 7_000_001), 4, 1, U("u6")))
	g.msg("vault.create", vaulttypes.NewMsgCreateRequest(U("u2"), AppHarbor, 2, i(5_000_000), i(3_000_000)))
	g.msg("vault.create", vaulttypes.NewMsgCreateRequest(U("u4"), AppHarbor, 2, i(3_000_000), i(1_000_000)))
	g.msg("vault.create", vaulttypes.NewMsgCreateRequest(U("u1"), AppHarbor, 1, i(1_000_000), i(1_000_000)))
	g.msg("vault.create", vaulttypes.NewMsgCreateRequest(U("u3"), AppHarbor, 1, i(1_200_000), i(1_500_000)))
	g.msg("vault.create", vaulttypes.NewMsgCreateRequest(U("u6"), AppHarbor, 1, i(1_500_000), i(1_900_000)))
	g.msg("vault.deposit", vaulttypes.NewMsgDepositRequest(U("u2"), AppHarbor, 1, 1, i(500_000)))
	g.msg("vault.draw", vaulttypes.NewMsgDrawRequest(U("u2"), AppHarbor, 1, 1, i(700_000)))
	g.msg("vault.repay", vaulttypes.NewMsgRepayRequest(U("u2"), AppHarbor, 1, 1, i(100_000)))
	g.msg("vault.withdraw", vaulttypes.NewMsgWithdrawRequest(U("u2"), AppHarbor, 1, 1, i(200_000)))
	g.msg("vault.stablecreate", vaulttypes.NewMsgCreateStableMintRequest(U("u5"), AppHarbor, 3, i(4_000_000)))
	g.msg("vault.stabledeposit", vaulttypes.NewMsgDepositStableMintRequest(U("u4"), AppHarbor, 3, i(2_000_000), 1))
	g.msg("vault.stablewithdraw", vaulttypes.NewMsgWithdrawStableMintRequest(U("u4"), AppHarbor, 3, i(1_500_000), 1))
	// lockers
	g.msg("locker.create", lockertypes.NewMsgCreateLockerRequest(U("u1").String(), i(3_000_000), A3, AppHarbor))
	g.msg("locker.create", lockertypes.NewMsgCreateLockerRequest(U("u2").String(), i(5_000_000), A3, AppHarbor))
	g.msg("locker.deposit", lockertypes.NewMsgDepositAssetRequest(U("u1").String(), 1, i(250_000), A3, AppHarbor))
	g.msg("locker.withdraw", lockertypes.NewMsgWithdrawAssetRequest(U("u2").String(), 2, i(100_000), A3, AppHarbor))
	// limit bid + app reserve
	g.msg("liqv2.reserve", liqv2types.NewMsgAppReserveFundsRequest(U("u6").String(), AppHarbor, A3, coin("uasset3", 5_990_000)))
	g.msg("aucv2.limitbid", auctionsv2types.NewMsgDepositLimitBid(U("u5").String(), A2, A3, i(9), coin("uasset3", 7_000_000)))
	g.msg("aucv2.limitbid", auctionsv2types.NewMsgDepositLimitBid(U("u4").String(), A2, A3, i(5), coin("uasset3", 2_000_000)))
	g.msg("aucv2.limitwithdraw", auctionsv2types.NewMsgWithdrawLimitBid(U("u4").String(), A2, A3, i(5), coin("uasset3", 500_000)))
	// external reward programs (x/rewards/keeper/iter.go walks all lockers / vaults once per day)
	g.msg("rewards.extlocker", rewardstypes.NewMsgActivateExternalRewardsLockers(AppHarbor, A3, coin("weth", 10_000_003), 5, 1, U("u6")))
	// esm deposit (no execution)
	g.msg("esm.deposit", esmtypes.NewMsgDeposit(U("u6").String(), AppHarbor, coin("uharbor", 1_000_000)))
}

func (g *Gen) lendOpen() {
	g.msg("lend.lend", lendtypes.NewMsgLend(U("u1").String(), A1, coin("uasset1", 3_000_000_000), 1, AppLend))
	g.msg("lend.lend", lendtypes.NewMsgLend(U("u1").String(), A2, coin("uasset2", 10_000_000_000), 1, AppLend))
	g.msg("lend.lend", lendtypes.NewMsgLend(U("u2").String(), A1, coin("uasset1", 10_000_000_000), 1, AppLend))
	g.msg("lend.lend", lendtypes.NewMsgLend(U("u3").String(), A3, coin("uasset3", 2_000_000_000), 1, AppLend))
	g.msg("lend.lend", lendtypes.NewMsgLend(U("u4").String(), A4, coin("uasset4", 5_000_000_000), 2, AppLend))
	g.msg("lend.fund", lendtypes.NewMsgFundModuleAccounts(1, A1, U("u1").String(), coin("uasset1", 10_000_000_000)))
	g.msg("lend.fund", lendtypes.NewMsgFundModuleAccounts(1, A2, U("u1").String(), coin("uasset2", 10_000_000_000)))
	g.msg("lend.fund", lendtypes.NewMsgFundModuleAccounts(1, A3, U("u1").String(), coin("uasset3", 120_000_000)))
	g.msg("lend.fund", lendtypes.NewMsgFundModuleAccounts(2, A1, U("u1").String(), coin("uasset1", 10_000_000_000)))
	g.msg("lend.fund", lendtypes.NewMsgFundModuleAccounts(2, A4, U("u1").String(), coin("uasset4", 10_000_000_000)))
	g.msg("lend.fundreserve", lendtypes.NewMsgFundReserveAccounts(A2, U("u1").String(), coin("uasset2", 1_000_000)))
	g.msg("lend.borrow", lendtypes.NewMsgBorrow(U("u1").String(), 1, 1, false, coin("ucasset1", 100_000_000), coin("uasset2", 70_000_000)))
	g.msg("lend.borrow", lendtypes.NewMsgBorrow(U("u2").String(), 3, 1, false, coin("ucasset1", 1_000_000_000), coin("uasset2", 700_000_000)))
	g.msg("lend.deposit", lendtypes.NewMsgDeposit(U("u3").String(), 4, coin("uasset3", 50_000_000)))
	g.msg("lend.withdraw", lendtypes.NewMsgWithdraw(U("u3").String(), 4, coin("uasset3", 20_000_000)))
	g.msg("lend.depositborrow", lendtypes.NewMsgDepositBorrow(U("u2").String(), 2, coin("ucasset1", 10_000_000)))
	g.msg("lend.draw", lendtypes.NewMsgDraw(U("u2").String(), 2, coin("uasset2", 1_000_000)))
	g.msg("lend.repay", lendtypes.NewMsgRepay(U("u2").String(), 2, coin("uasset2", 500_000)))
	for _, pr := range g.C.App.LendKeeper.GetLendPairs(g.ctx()) { // a stable-rate borrow (asset 3 allows it)
		if pr.AssetIn == A3 && pr.AssetOut == A2 && !pr.IsInterPool {
			g.msg("lend.borrow.stable", lendtypes.NewMsgBorrow(U("u3").String(), 4, pr.Id, true, coin("ucasset3", 500_000_000), coin("uasset2", 100_000_000)))
			break
		}
	}
	g.msg("lend.borrowalt", lendtypes.NewMsgBorrowAlternate(U("u5").String(), A1, 1, coin("uasset1", 500_000_000), 1, false, coin("uasset2", 100_000_000), AppLend))
}

func (g *Gen) swapOpen() {
	// pairs and pools (two pools on pair 1: swap-fee share map; ranged pool)
	g.msg("liquidity.createpair", liquiditytypes.NewMsgCreatePair(AppSwap, U("u1"), "uasset1", "uasset2"))
	g.msg("liquidity.createpair", liquiditytypes.NewMsgCreatePair(AppSwap, U("u1"), "ucmdx", "uasset3"))
	g.msg("liquidity.createpool", liquiditytypes.NewMsgCreatePool(AppSwap, U("u1"), 1, sdk.NewCoins(coin("uasset1", 1_000_000_000), coin("uasset2", 1_000_000_000))))
	g.msg("liquidity.createranged", liquiditytypes.NewMsgCreateRangedPool(AppSwap, U("u2"), 1, sdk.NewCoins(coin("uasset1", 500_000_000), coin("uasset2", 500_000_000)), d("0.9"), d("1.1"), d("1.0")))
	g.msg("liquidity.createpool", liquiditytypes.NewMsgCreatePool(AppSwap, U("u2"), 2, sdk.NewCoins(coin("ucmdx", 2_000_000_000), coin("uasset3", 2_000_000_000))))
	g.msg("liquidity.createpair", liquiditytypes.NewMsgCreatePair(AppSwap, U("u3"), "uasset2", "ucmdx"))
	g.msg("liquidity.createpool", liquiditytypes.NewMsgCreatePool(AppSwap, U("u3"), 3, sdk.NewCoins(coin("uasset2", 1_500_000_000), coin("ucmdx", 3_000_000_000))))
	g.msg("liquidity.createpair", liquiditytypes.NewMsgCreatePair(AppSwap, U("u5"), "uasset4", "uasset3")) // pair 4: no pool, order book only
	// a second pool on the pair whose quote coin IS the swap-fee distribution denom: every swap-fee epoch shares the
	// accumulated fees between the two pools by liquidity (x/liquidity/keeper/pool.go, map of pool liquidities)
	g.msg("liquidity.createranged", liquiditytypes.NewMsgCreateRangedPool(AppSwap, U("u4"), 3, sdk.NewCoins(coin("uasset2", 400_000_000), coin("ucmdx", 800_000_000)), d("1.8"), d("2.2"), d("2.0")))
	for k, u := range []string{"u3", "u4", "u5", "u6"} {
		g.msg("liquidity.deposit", liquiditytypes.NewMsgDeposit(AppSwap, U(u), 1, sdk.NewCoins(coin("uasset1", int64(100_000_007*(k+1))), coin("uasset2", int64(100_000_007*(k+1))))))
		g.msg("liquidity.deposit", liquiditytypes.NewMsgDeposit(AppSwap, U(u), 2, sdk.NewCoins(coin("uasset1", int64(33_000_001*(k+1))), coin("uasset2", int64(33_000_001*(k+1))))))
		g.msg("liquidity.depositfarm", liquiditytypes.NewMsgDepositAndFarm(AppSwap, U(u), 3, sdk.NewCoins(coin("ucmdx", int64(50_000_003*(k+1))), coin("uasset3", int64(50_000_003*(k+1))))))
	}
	start := g.C.Time.Add(10 * time.Second)
	mk := func(from string, pool uint64, master bool, kids []uint64, amt int64, n uint64) {
		m := rewardstypes.NewMsgCreateGauge(AppSwap, U(from), start, rewardstypes.LiquidityGaugeTypeID, 12*time.Hour, coin("weth", amt), n)
		m.Kind = &rewardstypes.MsgCreateGauge_LiquidityMetaData{LiquidityMetaData: &rewardstypes.LiquidtyGaugeMetaData{PoolId: pool, IsMasterPool: master, ChildPoolIds: kids}}
		g.msg("rewards.gauge", m)
	}
	mk("u1", 1, true, []uint64{}, 1_000_003, 7)
	mk("u2", 3, false, []uint64{}, 777_777, 5)
	mk("u1", 2, false, []uint64{}, 500_001, 3)
}

func liqV2Internal(from sdk.AccAddress, id uint64) sdk.Msg {
	return liqv2types.NewMsgLiquidateInternalKeeperRequest(from, 0, id)
}

// dustBook places, on the pool-less pair 4, a group of same-price same-batch sell orders of very different size (two
// big ones, a tiny one whose pro-rata share truncates to zero, sometimes a fourth) and one buy that fills the tick only
// partially and not in proportion: the matching engine re-distributes and hands a remainder unit out by priority.
// The orders live for this batch only.
func (g *Gen) dustBook() {
	price := d("1.0")
	fee := func(c sdk.Coin) sdk.Coin {
		return c.AddAmount(sdk.NewDecFromInt(c.Amount).Mul(d("0.003")).Ceil().TruncateInt())
	}
	sell := func(u string, amt int64) {
		g.msg("liquidity.limit.dust", liquiditytypes.NewMsgLimitOrder(AppSwap, U(u), 4, liquiditytypes.OrderDirectionSell, fee(coin("uasset4", amt)), "uasset3", price, i(amt), 0))
	}
	a, b := 60_000_000+g.R.Int63n(3)*1_000_000, 40_000_000+g.R.Int63n(3)*1_000_000
	sell("u3", a)
	sell("u4", b)
	sell("u5", 1_000+g.R.Int63n(50))
	if g.R.Intn(2) == 0 {
		sell("u1", 100+g.R.Int63n(40))
	}
	buy := 50_001 + g.R.Int63n(40)*2
	g.msg("liquidity.limit.dust", liquiditytypes.NewMsgLimitOrder(AppSwap, U("u6"), 4, liquiditytypes.OrderDirectionBuy,
		fee(sdk.NewCoin("uasset3", amm.OfferCoinAmount(amm.Buy, price, i(buy)))), "uasset4", price, i(buy), 0))
}

// faulty sends messages that must be REJECTED and that are wrong in several ways at once (which fault is reported, and
// how much work is done before it is found, is part of the transaction result).
func (g *Gen) faulty() {
	m := rewardstypes.NewMsgCreateGauge(AppSwap, U("u2"), g.C.Time.Add(time.Hour), rewardstypes.LiquidityGaugeTypeID, 12*time.Hour, coin("weth", 5000), 2)
	m.Kind = &rewardstypes.MsgCreateGauge_LiquidityMetaData{LiquidityMetaData: &rewardstypes.LiquidtyGaugeMetaData{PoolId: 1, IsMasterPool: true,
		ChildPoolIds: []uint64{2, 1, 97, 3, 98}}} // a valid child, the master itself, two unknown pools
	g.msg("faulty.gauge", m)
	g.msg("faulty.cancelall", liquiditytypes.NewMsgCancelAllOrders(AppSwap, U("u3"), []uint64{1, 91, 2, 92, 93}))
	g.msg("faulty.vault", vaulttypes.NewMsgCreateRequest(U("u1"), 7, 9, i(1), i(1_000_000_000_000_000)))
	g.msg("faulty.lend", lendtypes.NewMsgBorrow(U("u6").String(), 99, 77, true, coin("ucasset9", 1), coin("uasset9", 1)))
}

// Controls exercises the emergency controls: the circuit breaker of the lend app is tripped, the harbor app is shut
// down by ESM (deposit, execute, cool-off, redemption); guarded messages are attempted; long block gaps follow.
func (g *Gen) Controls() {
	admin := g.C.App.EsmKeeper.AdminParam(g.ctx())[0]
	g.CtlFrom = g.cur
	g.msg("esm.killswitch", &esmtypes.MsgKillRequest{From: admin, KillSwitchParams: &esmtypes.KillSwitchParams{AppId: AppLend, BreakerEnable: true}})
	g.msg("guarded.lend", lendtypes.NewMsgLend(U("u6").String(), A2, coin("uasset2", 77_000_000), 1, AppLend))
	g.next(6)
	g.msg("esm.deposit", esmtypes.NewMsgDeposit(U("u6").String(), AppHarbor, coin("uharbor", 300_000_000_000)))
	g.msg("esm.deposit", esmtypes.NewMsgDeposit(U("u5").String(), AppHarbor, coin("uharbor", 300_000_000_000)))
	g.next(6)
	g.msg("esm.execute", esmtypes.NewMsgExecute(U("u6").String(), AppHarbor))
	g.msg("guarded.vault", vaulttypes.NewMsgCreateRequest(U("u6"), AppHarbor, 2, i(40_000_000), i(5_000_000)))
	g.msg("guarded.locker", lockertypes.NewMsgCreateLockerRequest(U("u6").String(), i(2_000_000), A3, AppHarbor))
	g.next(6)
	g.next(1800) // inside the cool-off period
	g.next(4000) // cool-off over
	g.msg("esm.redeem", esmtypes.NewMsgCollateralRedemption(AppHarbor, coin("uasset3", 1_000_000), U("u2")))
	g.msg("esm.killswitch", &esmtypes.MsgKillRequest{From: admin, KillSwitchParams: &esmtypes.KillSwitchParams{AppId: AppLend, BreakerEnable: false}})
	g.next(6)
	g.next(3*86400 + 11) // a gap of more than two epochs / any auction or cool-off duration
	g.trade(1)
	g.next(6)
}

// interest makes the fractional trackers move: stability-fee calculation on every vault, saving-rate calculation on
// every locker, lend interest.
func (g *Gen) interest() {
	ctx := g.ctx()
	for _, v := range g.C.App.VaultKeeper.GetVaults(ctx) {
		g.msg("vault.interest", vaulttypes.NewMsgVaultInterestCalcRequest(U("u6"), v.AppId, v.Id))
	}
	for _, l := range g.C.App.LockerKeeper.GetLockers(ctx) {
		g.msg("locker.rewardcalc", lockertypes.NewMsgLockerRewardCalcRequest(U("u6").String(), l.AppId, l.LockerId))
	}
	g.msg("lend.calc", lendtypes.NewMsgCalculateInterestAndRewards(U("u2").String()))
}

// lists sends ACCEPTED messages that carry lists with several distinct elements (asset ids, child pool ids); what is
// stored from such a list, and what later blocks do with it, must not depend on anything but the message.
func (g *Gen) lists() {
	if g.nLists >= 6 {
		return
	}
	g.nLists++
	assets := [][]uint64{{A2, A3}, {A3, A1, A2}, {A2, A1}, {A3, A2}, {A1, A3, A2}, {A3, A1}}[g.nLists-1]
	g.msg("rewards.extlend.list", rewardstypes.NewMsgActivateExternalRewardsLend(AppLend, 1, assets, AppSwap, 1, coin("uharbor", 900_000_007+int64(g.nLists)), 1, 3, 1, U("u6")))
	kids := [][]uint64{{3, 2}, {2, 4, 5}, {5, 3}, {4, 2, 3}, {2, 5}, {3, 4}}[g.nLists-1]
	m := rewardstypes.NewMsgCreateGauge(AppSwap, U("u1"), g.C.Time.Add(30*time.Second), rewardstypes.LiquidityGaugeTypeID, 12*time.Hour, coin("weth", 60_000+int64(g.nLists)), 4)
	m.Kind = &rewardstypes.MsgCreateGauge_LiquidityMetaData{LiquidityMetaData: &rewardstypes.LiquidtyGaugeMetaData{PoolId: 1, IsMasterPool: true, ChildPoolIds: kids}}
	g.msg("rewards.gauge.list", m)
}
