package pairs

import (
	"fmt"
	"time"

	abci "github.com/cometbft/cometbft/abci/types"

	sdk "github.com/cosmos/cosmos-sdk/types"

	chain "github.com/comdex-official/comdex/app"
)

// Fork is a throw-away continuation of a chain on a CacheContext branch of its readable state: blocks are run
// with the application's exported BeginBlocker / EndBlocker on the branch (never committed). Used to apply the
// same continuation to the original and to the re-imported chain from exactly the round-trip state.
type Fork struct {
	App    *chain.App
	Ctx    sdk.Context
	Height int64
	Time   time.Time
	c      *Chain
}

func (c *Chain) Fork() *Fork {
	if c.Open {
		panic("Fork needs a closed (committed or freshly imported) chain")
	}
	h := c.Height
	if c.fresh {
		h = c.Height - 1
	}
	return &Fork{App: c.App, Ctx: c.ReadCtx(), Height: h, Time: c.Time, c: c}
}

func (f *Fork) Begin(dt time.Duration) (br BlockRes) {
	f.Height++
	f.Time = f.Time.Add(dt)
	f.Ctx = f.Ctx.WithBlockHeader(f.c.header(f.Height, f.Time)).WithGasMeter(sdk.NewInfiniteGasMeter()).WithBlockGasMeter(sdk.NewInfiniteGasMeter())
	defer func() {
		if r := recover(); r != nil {
			br = BlockRes{Panic: true, Err: fmt.Sprint(r)}
		}
	}()
	resp := f.App.BeginBlocker(f.Ctx, abci.RequestBeginBlock{Header: f.Ctx.BlockHeader()})
	br.Ev, br.NEv, br.events = EventDigest(resp.Events), len(resp.Events), resp.Events
	return
}

func (f *Fork) End() (br BlockRes) {
	defer func() {
		if r := recover(); r != nil {
			br = BlockRes{Panic: true, Err: fmt.Sprint(r)}
		}
	}()
	resp := f.App.EndBlocker(f.Ctx, abci.RequestEndBlock{Height: f.Ctx.BlockHeight()})
	br.Ev, br.NEv, br.events = EventDigest(resp.Events), len(resp.Events), resp.Events
	return
}

func (f *Fork) Exec(st Step) TxRes { return ExecOn(f.App, f.Ctx, st) }
