package pairs

import (
	"bytes"
	"encoding/hex"
	"sort"

	sdk "github.com/cosmos/cosmos-sdk/types"

	chain "github.com/comdex-official/comdex/app"

	"vh/sim"
)

// KVDiff is the diagnostic comparison of one module store of the original and the re-imported chain, grouped by
// the first key byte (the modules' key prefixes). It is never judged: it names the place of a difference.
type KVDiff struct {
	Store   string   `json:"store"`
	Lost    []string `json:"lost"`    // prefixes with keys present in orig only
	Extra   []string `json:"extra"`   // prefixes with keys present in copy only
	Changed []string `json:"changed"` // prefixes with keys whose value differs
	NLost   int      `json:"nlost"`
	NExtra  int      `json:"nextra"`
	NChg    int      `json:"nchanged"`
	NSame   int      `json:"nsame"`
}

func dumpStore(app *chain.App, ctx sdk.Context, name string) map[string][]byte {
	m := map[string][]byte{}
	k := app.GetKey(name)
	if k == nil {
		return m
	}
	it := ctx.KVStore(k).Iterator(nil, nil)
	defer it.Close()
	for ; it.Valid(); it.Next() {
		m[string(it.Key())] = append([]byte(nil), it.Value()...)
	}
	return m
}

func prefixOf(k string) string {
	if len(k) == 0 {
		return ""
	}
	return hex.EncodeToString([]byte(k[:1]))
}

func setList(m map[string]bool) []string {
	out := make([]string, 0, len(m))
	for k := range m {
		out = append(out, k)
	}
	sort.Strings(out)
	return out
}

func DiffStores(o, c *Chain) []KVDiff {
	octx, cctx := o.ReadCtx(), c.ReadCtx()
	var out []KVDiff
	names := append([]string{}, sim.StoreNames...)
	for _, n := range names {
		a, b := dumpStore(o.App, octx, n), dumpStore(c.App, cctx, n)
		d := KVDiff{Store: n}
		lost, extra, chg := map[string]bool{}, map[string]bool{}, map[string]bool{}
		for k, v := range a {
			w, ok := b[k]
			switch {
			case !ok:
				lost[prefixOf(k)] = true
				d.NLost++
			case !bytes.Equal(v, w):
				chg[prefixOf(k)] = true
				d.NChg++
			default:
				d.NSame++
			}
		}
		for k := range b {
			if _, ok := a[k]; !ok {
				extra[prefixOf(k)] = true
				d.NExtra++
			}
		}
		d.Lost, d.Extra, d.Changed = setList(lost), setList(extra), setList(chg)
		out = append(out, d)
	}
	return out
}
