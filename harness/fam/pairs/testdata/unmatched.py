#!/usr/bin/env python3
"""Developer aid: list the failing-node signatures of a `vh pairs roundtrip` log that no open known finding matches
(same matching as bin/vlib.py; the verdict itself comes from TLC through bin/check)."""
import sys, os, collections
sys.path.insert(0, os.path.join(os.path.dirname(os.path.abspath(__file__)), "..", "..", "..", "..", "bin"))
import vlib
known = vlib.load_known()
un = collections.Counter()
def chk(formula, n, sig):
    if not vlib.match_known(known, "C20", formula, n):
        un[(formula,) + sig] += 1
for path in sys.argv[1:]:
    for n in vlib.read_log(path):
        a, st, ar = n["a"], n["st"], n["args"]
        if a == "Part" and ar["judged"] and st["o"] != st["c"]:
            chk("C20_" + ar["comp"], n, ("Part", ar["part"], st["sym"], st["prefix"], st["kv"]))
        if a == "AbsRT" and st["o"] != st["c"]:
            chk("C20_" + ar["comp"], n, ("AbsRT", st["sym"]))
        if a == "AbsCont":
            if st["o"]["abs"] != st["c"]["abs"]:
                chk("C20_Continuation_Ids", n, ("AbsCont", ar["comp"], ar["op"], st["sym"]))
            if (st["o"]["ok"], st["o"]["code"]) != (st["c"]["ok"], st["c"]["code"]):
                chk("C20_Continuation_Results", n, ("AbsCont", ar["comp"], ar["op"], st["rsym"], st["o"]["code"], st["c"]["code"]))
        if a == "Cont":
            if not ar["absolute"] and st["bal"]["o"] != st["bal"]["c"]:
                chk("C20_Continuation_Balances", n, ("Cont", ar["aspect"], st["who"]))
            if st["hooks"]["o"] != st["hooks"]["c"]:
                chk("C20_Continuation_Results", n, ("Cont", ar["aspect"]))
        if a == "ContBal" and st["o"] != st["c"]:
            chk("C20_Continuation_Balances", n, ("ContBal", ar["aspect"], ar["acct"]))
        if a == "ContTx" and st["o"] != st["c"]:
            chk("C20_Continuation_Results", n, ("ContTx", ar["aspect"], ar["tag"], st["sym"], st["codes"]))
        if a == "ContId" and st["o"] != st["c"]:
            chk("C20_Continuation_Ids", n, ("ContId", ar["aspect"], ar["counter"], st["sym"]))
        if a == "RT" and not (st["exported"] and st["imported"]):
            chk("C20_Export", n, ("RT", n["res"]["stage"], n["res"]["err"][:120]))
for k, v in sorted(un.items()):
    print(v, *k, sep="\t")
print("unmatched signatures:", len(un))
