#!/usr/bin/env python3
"""Developer aid: group the nodes of a `vh pairs roundtrip` log on which a C20 formula would be false, by the fields
used for known-finding keys. (The verdict itself comes from TLC; this only helps to curate known/pairs.json.)"""
import json, sys, collections
c = collections.Counter()
for path in sys.argv[1:]:
    for l in open(path):
        n = json.loads(l)
        a, st, ar = n["a"], n["st"], n["args"]
        if a == "Part" and ar["judged"] and st["o"] != st["c"]:
            c[("C20_" + ar["comp"], "Part", ar["part"], st["sym"], st["store"], st["prefix"], st["kv"])] += 1
        if a == "Part" and not ar["judged"] and st["o"] != st["c"]:
            c[("info", "Part", ar["comp"] + "." + ar["part"], st["sym"])] += 1
        if a == "AbsRT" and (st["o"] != st["c"]):
            c[("C20_" + ar["comp"], "AbsRT", st["sym"])] += 1
        if a == "AbsCont":
            if st["o"]["abs"] != st["c"]["abs"]:
                c[("C20_Continuation_Ids", "AbsCont", ar["comp"], ar["op"], st["sym"])] += 1
            if (st["o"]["ok"], st["o"]["code"]) != (st["c"]["ok"], st["c"]["code"]):
                c[("C20_Continuation_Results", "AbsCont", ar["comp"], ar["op"], st["rsym"])] += 1
        if a == "Cont":
            if not ar["absolute"] and st["bal"]["o"] != st["bal"]["c"]:
                c[("C20_Continuation_Balances", "Cont", ar["aspect"], st["who"])] += 1
            if st["hooks"]["o"] != st["hooks"]["c"]:
                c[("C20_Continuation_Results", "Cont", ar["aspect"], json.dumps(st["hooks"]))] += 1
        if a == "ContBal" and st["o"] != st["c"]:
            c[("C20_Continuation_Balances", "ContBal", ar["aspect"], ar["acct"])] += 1
        if a == "ContTx" and st["o"] != st["c"]:
            c[("C20_Continuation_Results", "ContTx", ar["aspect"], ar["tag"], st["sym"], st["codes"])] += 1
        if a == "ContId" and st["o"] != st["c"]:
            c[("C20_Continuation_Ids", "ContId", ar["aspect"], ar["counter"], st["sym"])] += 1
        if a == "RT" and not (st["exported"] and st["imported"]):
            c[("C20_Export", n["res"]["stage"], n["res"]["err"][:200])] += 1
        if a == "Halt":
            c[("HALT", json.dumps(n["res"])[:300])] += 1
for k, v in sorted(c.items()):
    print(v, *k, sep="\t")
