package pairs

import (
	"bufio"
	"encoding/json"
	"flag"
	"fmt"
	"os"
	"os/exec"
	"path/filepath"
	"runtime"
	"time"

	"vh/sim"
)

// BlockRec is what a replica records after committing one block of the shared workload (Replica.tla: the
// replica's state digest at a height, and the results of the block's transactions).
type BlockRec struct {
	H      int                      `json:"h"` // index of the block in the workload
	Height int64                    `json:"height"`
	WL     string                   `json:"wl"` // digest of the block's input (dt + steps): the SHARED block sequence
	Begin  BlockRes                 `json:"begin"`
	End    BlockRes                 `json:"end"`
	Stores map[string]string        `json:"stores"` // one digest per module store (+ bank)
	Txs    []map[string]interface{} `json:"txs"`
	Evs    map[string]interface{}   `json:"evs"`
}

func blockDigest(b Block) string {
	d, _ := digestJSON(b)
	return d
}

func txView16(r TxRes) map[string]interface{} {
	return map[string]interface{}{"ok": r.OK, "code": r.Code, "data": r.Data, "gas": r.Gas}
}

// evView: the events side of a block: one digest per message, one for BeginBlock, one for EndBlock.
func evView(begin, end BlockRes, txs []TxRes) map[string]interface{} {
	tx := []string{}
	n := begin.NEv + end.NEv
	for _, t := range txs {
		tx = append(tx, t.Ev)
		n += t.NEv
	}
	return map[string]interface{}{"begin": begin.Ev, "end": end.Ev, "txs": tx, "n": n}
}

// RunReplica replays blocks [from, to) of w on c (c must be positioned at block `from`) and records them.
type replica struct {
	c    *Chain
	next int
	recs []BlockRec
	dead bool
}

func newReplica() *replica { return &replica{c: NewFresh(Funds())} }

func (r *replica) step(w Workload) {
	if r.dead || r.next >= len(w.Blocks) {
		return
	}
	idx := r.next
	r.next++
	blk := w.Blocks[idx]
	rec := BlockRec{H: idx, WL: blockDigest(blk), Stores: map[string]string{}, Txs: []map[string]interface{}{}}
	if idx > 0 {
		rec.Begin = r.c.Begin(time.Duration(blk.Dt) * time.Second)
		if rec.Begin.Panic {
			rec.Height = r.c.Height + 1
			r.dead = true
			rec.Evs = evView(rec.Begin, BlockRes{}, nil)
			r.recs = append(r.recs, rec)
			return
		}
	}
	rec.Height = r.c.Height
	var txs []TxRes
	for _, st := range blk.Steps {
		t := r.c.Exec(st)
		txs = append(txs, t)
		rec.Txs = append(rec.Txs, txView16(t))
	}
	rec.End = r.c.EndCommit()
	rec.Evs = evView(rec.Begin, rec.End, txs)
	if rec.End.Panic {
		r.dead = true
	} else {
		rec.Stores = sim.StoreDigests(r.c.App, r.c.ReadCtx())
	}
	r.recs = append(r.recs, rec)
}

func logReplica(lg *sim.Log, root int, name string, recs []BlockRec) {
	parent := root
	for _, rec := range recs {
		parent = lg.Add(parent, "replica:"+name, "Block", map[string]interface{}{"r": name, "h": rec.H, "wl": rec.WL},
			map[string]interface{}{"begin": rec.Begin.Panic, "end": rec.End.Panic},
			map[string]interface{}{"height": rec.Height, "stores": rec.Stores, "txs": rec.Txs, "ntx": len(rec.Txs), "evs": rec.Evs})
	}
}

// runReruns replays the workload once more and, before every block that carries steps or follows a long gap,
// executes that block R times on forks of the SAME committed state (BeginBlocker / messages / EndBlocker on cache
// branches). Each execution is logged as a Rerun node (store digests, tx results, events); the first execution
// of a block is the reference for the others. This multiplies the number of executions of exactly the code that
// map-order or clock dependence would make vary, independently of how many whole-workload replicas are run.
func runReruns(w Workload, lg *sim.Log, root int, R int) (blocks, execs int) {
	c := NewFresh(Funds())
	for idx, blk := range w.Blocks {
		if idx > 0 && (len(blk.Steps) > 0 || blk.Dt >= 3000) && R > 0 {
			blocks++
			for n := 1; n <= R; n++ {
				f := c.Fork()
				b := f.Begin(time.Duration(blk.Dt) * time.Second)
				var txs []TxRes
				views := []map[string]interface{}{}
				if !b.Panic {
					for _, st := range blk.Steps {
						t := f.Exec(st)
						txs = append(txs, t)
						views = append(views, txView16(t))
					}
				}
				var e BlockRes
				if !b.Panic {
					e = f.End()
				}
				execs++
				lg.Add(root, "rerun", "Rerun", map[string]interface{}{"h": idx, "n": n}, map[string]interface{}{"begin": b.Panic, "end": e.Panic},
					map[string]interface{}{"stores": sim.StoreDigests(f.App, f.Ctx), "txs": views, "ntx": len(views), "evs": evView(b, e, txs)})
			}
		}
		if idx > 0 {
			if br := c.Begin(time.Duration(blk.Dt) * time.Second); br.Panic {
				return
			}
		}
		for _, st := range blk.Steps {
			c.Exec(st)
		}
		if br := c.EndCommit(); br.Panic {
			return
		}
	}
	return
}

// workerMain: `vh pairs worker --workload w.json --out recs.ndjson` - one replica in a fresh OS process.
func workerMain(args []string) int {
	fs := flag.NewFlagSet("worker", flag.ExitOnError)
	wf := fs.String("workload", "", "")
	out := fs.String("out", "", "")
	_ = fs.Parse(args)
	b, err := os.ReadFile(*wf)
	if err != nil {
		fmt.Fprintln(os.Stderr, err)
		return 1
	}
	var w Workload
	if err := json.Unmarshal(b, &w); err != nil {
		fmt.Fprintln(os.Stderr, err)
		return 1
	}
	r := newReplica()
	for r.next < len(w.Blocks) && !r.dead {
		r.step(w)
	}
	f, err := os.Create(*out)
	if err != nil {
		fmt.Fprintln(os.Stderr, err)
		return 1
	}
	bw := bufio.NewWriter(f)
	enc := json.NewEncoder(bw)
	for i := range r.recs {
		if err := enc.Encode(&r.recs[i]); err != nil {
			fmt.Fprintln(os.Stderr, err)
			return 1
		}
	}
	bw.Flush()
	f.Close()
	fmt.Printf("worker: blocks=%d gomaxprocs=%d\n", len(r.recs), runtime.GOMAXPROCS(0))
	return 0
}

func readRecs(path string) ([]BlockRec, error) {
	f, err := os.Open(path)
	if err != nil {
		return nil, err
	}
	defer f.Close()
	var out []BlockRec
	sc := bufio.NewScanner(f)
	sc.Buffer(make([]byte, 1<<20), 1<<28)
	for sc.Scan() {
		if len(sc.Bytes()) == 0 {
			continue
		}
		var r BlockRec
		if err := json.Unmarshal(sc.Bytes(), &r); err != nil {
			return nil, err
		}
		out = append(out, r)
	}
	return out, sc.Err()
}

// readSchedules extracts the interleavings printed by MC_Replica: sequences of replica names.
func readSchedules(path string) ([][]string, error) {
	f, err := os.Open(path)
	if err != nil {
		return nil, err
	}
	defer f.Close()
	var out [][]string
	sc := bufio.NewScanner(f)
	sc.Buffer(make([]byte, 1<<20), 1<<26)
	for sc.Scan() {
		js := sim.TLCJSON(sc.Text())
		if js == "" {
			continue
		}
		var v struct {
			Sched []string `json:"sched"`
		}
		if err := json.Unmarshal([]byte(js), &v); err != nil {
			return nil, err
		}
		out = append(out, v.Sched)
	}
	return out, sc.Err()
}

// replicasMain: `vh pairs replicas` - C16 driver.
func replicasMain(args []string) int {
	fs := flag.NewFlagSet("replicas", flag.ExitOnError)
	seed := fs.Int64("seed", 1, "")
	out := fs.String("out", "replica.ndjson", "tree log")
	tail := fs.Int("tail", 20, "random tail blocks")
	pad := fs.Int64("pad", 150, "pad with empty blocks up to this height (0 = none)")
	schedFile := fs.String("schedules", "", "T lines of MC_Replica (interleavings of two in-process replicas)")
	nsched := fs.Int("nsched", 2, "number of interleavings to execute")
	procs := fs.String("procs", "1,4,16", "GOMAXPROCS values of the OS-process replicas")
	work := fs.String("work", "", "scratch directory")
	reruns := fs.Int("reruns", 8, "executions of every block with steps from the same state (0 = none)")
	_ = fs.Parse(args)
	if *work == "" {
		*work = filepath.Dir(*out)
	}
	g := NewGen(*seed)
	// the generator's own run is the reference replica "gen": record it block by block
	genRecs := []BlockRec{}
	g.OnBlock = func(idx int, begin, end BlockRes, txs []TxRes) {
		rec := BlockRec{H: idx, Height: g.C.Height, WL: "", Begin: begin, End: end, Stores: sim.StoreDigests(g.C.App, g.C.ReadCtx()), Txs: []map[string]interface{}{}}
		for _, t := range txs {
			rec.Txs = append(rec.Txs, txView16(t))
		}
		rec.Evs = evView(begin, end, txs)
		genRecs = append(genRecs, rec)
	}
	g.Base()
	g.Tail(*tail)
	if *pad > 0 {
		g.PadTo(*pad)
	}
	g.Controls()
	g.Finish()
	for k := range genRecs {
		genRecs[k].WL = blockDigest(g.W.Blocks[k])
	}
	wfile := filepath.Join(*work, "workload.json")
	if err := sim.WriteJSON(wfile, g.W); err != nil {
		fmt.Fprintln(os.Stderr, err)
		return 1
	}
	lg := &sim.Log{}
	nsteps := 0
	for _, b := range g.W.Blocks {
		nsteps += len(b.Steps)
	}
	root := lg.Add(0, "replicas", "Init", map[string]interface{}{"seed": *seed, "blocks": len(g.W.Blocks), "steps": nsteps}, nil, map[string]interface{}{"height": 1})
	logReplica(lg, root, "gen", genRecs)

	// (i) two fresh in-process instances per interleaving generated by the model
	scheds := [][]string{}
	if *schedFile != "" {
		all, err := readSchedules(*schedFile)
		if err != nil {
			fmt.Fprintln(os.Stderr, err)
			return 1
		}
		rng := sim.NewRng(*seed)
		for len(scheds) < *nsched && len(all) > 0 {
			k := rng.Intn(len(all))
			scheds = append(scheds, all[k])
			all = append(all[:k], all[k+1:]...)
		}
	}
	if len(scheds) == 0 {
		scheds = [][]string{{"a", "b"}}
	}
	for sn, sched := range scheds {
		reps := map[string]*replica{"a": newReplica(), "b": newReplica()}
		cnt := map[string]int{}
		for _, r := range sched {
			cnt[r]++
		}
		done := map[string]int{}
		for _, r := range sched { // the k-th occurrence of r applies the k-th segment of the block sequence
			done[r]++
			upto := len(g.W.Blocks) * done[r] / cnt[r]
			for reps[r].next < upto && !reps[r].dead {
				reps[r].step(g.W)
			}
		}
		for _, r := range []string{"a", "b"} {
			logReplica(lg, root, fmt.Sprintf("ip%d%s", sn, r), reps[r].recs)
		}
	}
	// (ii) fresh OS processes (re-exec of this binary) with different GOMAXPROCS
	nproc := 0
	var pl []int
	for _, p := range splitInts(*procs) {
		pl = append(pl, p)
	}
	for _, p := range pl {
		rf := filepath.Join(*work, fmt.Sprintf("recs_p%d.ndjson", p))
		cmd := exec.Command(os.Args[0], "pairs", "worker", "--workload", wfile, "--out", rf)
		cmd.Env = append(os.Environ(), fmt.Sprintf("GOMAXPROCS=%d", p))
		cmd.Stderr = os.Stderr
		if err := cmd.Run(); err != nil {
			fmt.Fprintln(os.Stderr, "worker failed:", err)
			return 1
		}
		recs, err := readRecs(rf)
		if err != nil {
			fmt.Fprintln(os.Stderr, err)
			return 1
		}
		logReplica(lg, root, fmt.Sprintf("proc%d", p), recs)
		nproc++
	}
	// (iii) N executions of every non-empty block from the same state
	rerunBlocks, rerunExecs := runReruns(g.W, lg, root, *reruns)
	if err := lg.Write(*out); err != nil {
		fmt.Fprintln(os.Stderr, err)
		return 1
	}
	tags := map[string]int{}
	for _, rs := range g.Res {
		for _, r := range rs {
			if r.OK {
				tags[r.Tag]++
			}
		}
	}
	// coverage of the anchored code, measured on the reference run's final state (vacuity control in checks/C16.py)
	fctx := g.C.ReadCtx()
	cover := map[string]int{}
	for _, gg := range g.C.App.Rewardskeeper.GetAllGauges(fctx) {
		if gg.DistributedAmount.Amount.IsPositive() {
			cover["gaugesDistributed"]++
		}
		if gg.ForSwapFee && gg.TriggeredCount > 0 {
			cover["swapFeeGaugeTriggers"] += int(gg.TriggeredCount)
			// swap fees of a pair that does not contain the distribution denom reached its gauge: they were converted
			// (liquidity BeginBlocker at heights divisible by 150) and shared between the pair's pools by liquidity
			if pool, found := g.C.App.LiquidityKeeper.GetPool(fctx, AppSwap, gg.GetLiquidityMetaData().PoolId); found {
				pr, _ := g.C.App.LiquidityKeeper.GetPair(fctx, AppSwap, pool.PairId)
				if pr.BaseCoinDenom != "ucmdx" && pr.QuoteCoinDenom != "ucmdx" && gg.DepositAmount.Amount.Add(gg.DistributedAmount.Amount).IsPositive() {
					cover["feeConversions"]++
				}
			}
		}
	}
	for _, p := range g.C.App.LiquidityKeeper.GetAllPools(fctx, AppSwap) {
		if n := len(g.C.App.LiquidityKeeper.GetAllActiveFarmers(fctx, AppSwap, p.Id)); n > cover["maxActiveFarmersInAPool"] {
			cover["maxActiveFarmersInAPool"] = n
		}
	}
	for _, p := range g.C.App.LiquidityKeeper.GetAllPairs(fctx, AppSwap) {
		if p.LastPrice != nil {
			cover["pairsMatched"]++
		}
		cover["batches"] += int(p.CurrentBatchId)
		if bal := g.C.App.BankKeeper.GetAllBalances(fctx, p.GetSwapFeeCollectorAddress()); !bal.IsZero() {
			cover["pairsWithSwapFees"]++
		}
	}
	cover["lockedVaultsV2"] = int(g.C.App.NewliqKeeper.GetLockedVaultID(fctx))
	cover["auctionsV2"] = int(g.C.App.NewaucKeeper.GetAuctionID(fctx))
	cover["bidsV2"] = int(g.C.App.NewaucKeeper.GetUserBidID(fctx))
	cover["height"] = int(g.C.Height)
	cover["rerunBlocks"], cover["rerunExecs"] = rerunBlocks, rerunExecs
	for k, v := range g.Cover {
		cover[k] = v
	}
	_ = sim.WriteJSON(filepath.Join(*work, "workload_tags.json"), map[string]interface{}{"tags": tags, "cover": cover})
	fmt.Printf("replicas: nodes=%d blocks=%d steps=%d inproc=%d procs=%d height=%d\n", len(lg.Nodes), len(g.W.Blocks), nsteps, 2*len(scheds), nproc, g.C.Height)
	return 0
}

func splitInts(s string) []int {
	var out []int
	cur, has := 0, false
	for _, ch := range s + "," {
		if ch >= '0' && ch <= '9' {
			cur, has = cur*10+int(ch-'0'), true
		} else if has {
			out = append(out, cur)
			cur, has = 0, false
		}
	}
	return out
}
