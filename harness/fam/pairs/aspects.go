package pairs

import (
	"time"

	sdk "github.com/cosmos/cosmos-sdk/types"

	"github.com/comdex-official/comdex/app/wasm/bindings"
	assettypes "github.com/comdex-official/comdex/x/asset/types"
	auctionsv2types "github.com/comdex-official/comdex/x/auctionsV2/types"
	lendtypes "github.com/comdex-official/comdex/x/lend/types"
	liquiditytypes "github.com/comdex-official/comdex/x/liquidity/types"
	lockertypes "github.com/comdex-official/comdex/x/locker/types"
	rewardstypes "github.com/comdex-official/comdex/x/rewards/types"
	vaulttypes "github.com/comdex-official/comdex/x/vault/types"
)

// ContItem is one element of a continuation: begin a block (Dt > 0), end the block, or a step.
type ContItem struct {
	Begin int64 `json:"begin,omitempty"` // seconds; > 0 = BeginBlock dt after the previous block
	End   bool  `json:"end,omitempty"`
	Step  *Step `json:"step,omitempty"`
}

// Aspect is one continuation workload of Genesis.tla's Continue(o): a short, self-contained script that creates a
// NEW position of one kind (new ids!) and touches an existing one, or just lets blocks pass. Every aspect is applied
// to a fork of the original chain and to a fork of the re-imported chain, both taken at the round-trip state.
type Aspect struct {
	Name  string     `json:"name"`
	Items []ContItem `json:"items"`
}

func blk(dt int64, steps ...Step) []ContItem {
	out := []ContItem{{Begin: dt}}
	for i := range steps {
		out = append(out, ContItem{Step: &steps[i]})
	}
	return append(out, ContItem{End: true})
}

// BuildAspects chooses the continuation scripts from the ORIGINAL chain's state (ids, owners, free users).
func BuildAspects(o *Chain) []Aspect {
	ctx := o.ReadCtx()
	a := o.App
	ms := func(tag string, m sdk.Msg) Step { return msgStep(o, tag, m) }
	var out []Aspect

	hooks := append(append(append(blk(6), blk(6)...), blk(3700)...), blk(13*3600)...)
	out = append(out, Aspect{Name: "blocks", Items: hooks})

	// vault: a new vault by the first user without one on an active pair + deposit/draw on the lowest live vault
	var vs []Step
	done := false
	for _, ep := range []uint64{1, 2} {
		for _, u := range Users {
			if _, found := a.VaultKeeper.GetUserAppExtendedPairMappingData(ctx, U(u).String(), AppHarbor, ep); !found && !done {
				vs = append(vs, ms("vault.create", vaulttypes.NewMsgCreateRequest(U(u), AppHarbor, ep, i(40_000_000), i(5_000_000))))
				done = true
			}
		}
	}
	if all := a.VaultKeeper.GetVaults(ctx); len(all) > 0 {
		v := all[0]
		own, _ := sdk.AccAddressFromBech32(v.Owner)
		vs = append(vs, ms("vault.deposit", vaulttypes.NewMsgDepositRequest(own, v.AppId, v.ExtendedPairVaultID, v.Id, i(700_000))))
		vs = append(vs, ms("vault.draw", vaulttypes.NewMsgDrawRequest(own, v.AppId, v.ExtendedPairVaultID, v.Id, i(50_000))))
	}
	vs = append(vs, ms("vault.stabledeposit", vaulttypes.NewMsgDepositStableMintRequest(U("u3"), AppHarbor, 3, i(2_000_000), 1)))
	out = append(out, Aspect{Name: "vault", Items: blk(6, vs...)})

	// locker
	var ls []Step
	for _, u := range Users {
		if _, found := a.LockerKeeper.GetUserLockerAssetMapping(ctx, U(u).String(), AppHarbor, A3); !found {
			ls = append(ls, ms("locker.create", lockertypes.NewMsgCreateLockerRequest(U(u).String(), i(2_000_000), A3, AppHarbor)))
			break
		}
	}
	if all := a.LockerKeeper.GetLockers(ctx); len(all) > 0 {
		l := all[0]
		ls = append(ls, ms("locker.deposit", lockertypes.NewMsgDepositAssetRequest(l.Depositor, l.LockerId, i(123_456), l.AssetDepositId, l.AppId)))
	}
	out = append(out, Aspect{Name: "locker", Items: blk(6, ls...)})

	// lend: borrow-alternate creates a new lend AND a new borrow position
	var es []Step
	lenders := map[string]bool{}
	for _, l := range a.LendKeeper.GetAllLend(ctx) {
		lenders[l.Owner] = true
	}
	for _, u := range []string{"u6", "u5", "u4", "u3", "u2", "u1"} {
		if !lenders[U(u).String()] {
			es = append(es, ms("lend.borrowalt", lendtypes.NewMsgBorrowAlternate(U(u).String(), A1, 1, coin("uasset1", 400_000_000), 1, false, coin("uasset2", 50_000_000), AppLend)))
			break
		}
	}
	if all := a.LendKeeper.GetAllLend(ctx); len(all) > 0 {
		l := all[0]
		es = append(es, ms("lend.deposit", lendtypes.NewMsgDeposit(l.Owner, l.ID, sdk.NewCoin(l.AmountIn.Denom, i(1_000_000)))))
	}
	out = append(out, Aspect{Name: "lend", Items: blk(6, es...)})

	// liquidity: a new order that crosses the pool + end of batch
	if p, found := a.LiquidityKeeper.GetPair(ctx, AppSwap, 1); found {
		last := d("1.0")
		if p.LastPrice != nil {
			last = *p.LastPrice
		}
		price := priceTick(last.Mul(d("1.02")))
		amt := i(777_777)
		offer := sdk.NewCoin(p.QuoteCoinDenom, offerAmtBuy(price, amt))
		offer = offer.AddAmount(sdk.NewDecFromInt(offer.Amount).Mul(d("0.003")).Ceil().TruncateInt())
		os := []Step{ms("liquidity.limit", liquiditytypes.NewMsgLimitOrder(AppSwap, U("u6"), 1, liquiditytypes.OrderDirectionBuy, offer, p.BaseCoinDenom, price, amt, time.Hour)),
			ms("liquidity.deposit", liquiditytypes.NewMsgDeposit(AppSwap, U("u5"), 1, sdk.NewCoins(coin("uasset1", 9_000_001), coin("uasset2", 9_000_001))))}
		// second block: cancel everything one trader has resting (walks the orders-by-orderer index)
		second := []Step{ms("liquidity.cancelall", liquiditytypes.NewMsgCancelAllOrders(AppSwap, U("u1"), []uint64{})),
			ms("liquidity.cancelall", liquiditytypes.NewMsgCancelAllOrders(AppSwap, U("u2"), []uint64{}))}
		out = append(out, Aspect{Name: "order", Items: append(blk(6, os...), blk(6, second...)...)})
	}

	// auctionsV2: bid on the first Dutch auction, new limit bid
	var bs []Step
	for _, au := range a.NewaucKeeper.GetAuctions(ctx) {
		if au.AuctionType && au.DebtToken.Amount.GT(i(300_000)) {
			bs = append(bs, ms("aucv2.bid.dutch", auctionsv2types.NewMsgPlaceMarketBid(U("u6").String(), au.AuctionId, sdk.NewCoin(au.DebtToken.Denom, au.DebtToken.Amount.QuoRaw(4)))))
			break
		}
	}
	for _, au := range a.NewaucKeeper.GetAuctions(ctx) {
		if !au.AuctionType {
			bs = append(bs, ms("aucv2.bid.english", auctionsv2types.NewMsgPlaceMarketBid(U("u2").String(), au.AuctionId, sdk.NewCoin(au.DebtToken.Denom, au.DebtToken.Amount.MulRaw(2).AddRaw(10)))))
			break
		}
	}
	bs = append(bs, ms("aucv2.limitbid", auctionsv2types.NewMsgDepositLimitBid(U("u3").String(), A2, A3, i(7), coin("uasset3", 1_000_000))))
	out = append(out, Aspect{Name: "bid", Items: append(blk(6, bs...), blk(300)...)})

	// rewards: a new gauge (gauge id) if a pool exists
	if _, found := a.LiquidityKeeper.GetPool(ctx, AppSwap, 1); found {
		m := rewardstypes.NewMsgCreateGauge(AppSwap, U("u4"), o.Time.Add(time.Hour), rewardstypes.LiquidityGaugeTypeID, 12*time.Hour, coin("weth", 99_999), 3)
		m.Kind = &rewardstypes.MsgCreateGauge_LiquidityMetaData{LiquidityMetaData: &rewardstypes.LiquidtyGaugeMetaData{PoolId: 1, IsMasterPool: false, ChildPoolIds: []uint64{}}}
		out = append(out, Aspect{Name: "gauge", Items: blk(6, ms("rewards.gauge", m))})
	}
	// admin: governance-style requests that COLLIDE with existing records (name / denom / short name / pair / extended
	// pair / whitelisting / lookup uniqueness guards) must be rejected the same way, and the requests that are legal must
	// get the same new ids afterwards
	assets := a.AssetKeeper.GetAssets(ctx)
	if len(assets) >= 3 {
		first, last := assets[0], assets[len(assets)-1]
		adm := []Step{
			cfgStepT("admin.asset.dupname", "cfg.asset", assettypes.Asset{Name: first.Name, Denom: "ibc/dupname", Decimals: sdk.NewInt(1000000), IsOnChain: true}),
			cfgStepT("admin.asset.dupname", "cfg.asset", assettypes.Asset{Name: last.Name, Denom: "udupnameb", Decimals: sdk.NewInt(1000000), IsOnChain: true}),
			cfgStepT("admin.asset.dupdenom", "cfg.asset", assettypes.Asset{Name: "DUPDENOM", Denom: first.Denom, Decimals: sdk.NewInt(1000000), IsOnChain: true}),
			cfgStepT("admin.asset.rename", "cfg.asset.update", assettypes.Asset{Id: last.Id, Name: first.Name, Denom: last.Denom, Decimals: last.Decimals}),
			cfgStepT("admin.app.dup", "cfg.app", assettypes.AppData{Name: "harbor", ShortName: "hbrx", MinGovDeposit: sdk.NewInt(0)}),
			cfgStepT("admin.app.dup", "cfg.app", assettypes.AppData{Name: "omega", ShortName: "hbr", MinGovDeposit: sdk.NewInt(0)}),
			cfgStepT("admin.pair.dup", "cfg.pair", assettypes.Pair{AssetIn: A2, AssetOut: A3}),
			cfgStepT("admin.extpair.dup", "cfg.extpair", bindings.MsgAddExtendedPairsVault{AppID: AppHarbor, PairID: 1, StabilityFee: d("0.01"), ClosingFee: d("0"),
				LiquidationPenalty: d("0.12"), DrawDownFee: d("0.01"), IsVaultActive: true, DebtCeiling: sdk.NewInt(1000000000000), DebtFloor: sdk.NewInt(1000000),
				MinCr: d("1.5"), PairName: "CMDX-B", AssetOutOraclePrice: true, AssetOutPrice: 1000000, MinUsdValueLeft: 1000000}),
			cfgStepT("admin.locker.dup", "cfg.locker.whitelist", lockertypes.MsgAddWhiteListedAssetRequest{From: U("u6").String(), AppId: AppHarbor, AssetId: A3}),
			cfgStepT("admin.collector.dup", "cfg.collector", bindings.MsgSetCollectorLookupTable{AppID: AppHarbor, CollectorAssetID: A3, SecondaryAssetID: AHARBOR,
				SurplusThreshold: sdk.NewInt(1), DebtThreshold: sdk.NewInt(0), LockerSavingRate: d("0.1"), LotSize: sdk.NewInt(1), BidFactor: d("0.01"), DebtLotSize: sdk.NewInt(1)}),
			cfgStepT("admin.lendrates.dup", "cfg.lend.rates", lendtypes.AssetRatesParams{AssetID: A1, UOptimal: d("0.75"), Base: d("0.002"), Slope1: d("0.07"), Slope2: d("1.25"),
				StableBase: d("0.0"), StableSlope1: d("0.0"), StableSlope2: d("0.0"), Ltv: d("0.7"), LiquidationThreshold: d("0.75"), LiquidationPenalty: d("0.05"),
				LiquidationBonus: d("0.05"), ReserveFactor: d("0.2"), CAssetID: CA1}),
			// legal requests afterwards: the ids they get depend on what was (wrongly) accepted before
			cfgStepT("admin.asset.new", "cfg.asset", assettypes.Asset{Name: "FRESH", Denom: "ufresh", Decimals: sdk.NewInt(1000000), IsOnChain: true}),
			cfgStepT("admin.pair.new", "cfg.pair", assettypes.Pair{AssetIn: A4, AssetOut: A1}),
			cfgStepT("admin.app.new", "cfg.app", assettypes.AppData{Name: "omega", ShortName: "omg", MinGovDeposit: sdk.NewInt(0)}),
		}
		out = append(out, Aspect{Name: "admin", Items: blk(6, adm...)})
	}
	return out
}

func cfgStepT(tag, kind string, obj interface{}) Step {
	s := cfgStep(kind, obj)
	s.Tag = tag
	return s
}
