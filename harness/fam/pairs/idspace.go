package pairs

import (
	"fmt"

	sdk "github.com/cosmos/cosmos-sdk/types"

	chain "github.com/comdex-official/comdex/app"
)

// IdSpaces projects every id-numbered record family of the DeFi modules onto Genesis.tla's component record (live ids,
// counter). Several families share one counter across apps while their records are stored (and exported) in
// (app, id) key order; Genesis.tla's NoCollision (every live id <= counter) must survive the round trip.
func IdSpaces(app *chain.App, ctx sdk.Context) map[string]Abs {
	out := map[string]Abs{}
	put := func(name string, ids []int64, ctr uint64) {
		ooo := false
		for _, x := range ids {
			if x > ids[len(ids)-1] {
				ooo = true
			}
		}
		out[name] = Abs{Live: sorted(append([]int64{}, ids...)), Ctr: int64(ctr), OutOfKeyOrder: ooo}
	}
	var l []int64
	for _, v := range app.VaultKeeper.GetVaults(ctx) {
		l = append(l, int64(v.Id))
	}
	put("Vault", l, app.VaultKeeper.GetIDForVault(ctx))
	l = nil
	for _, v := range app.VaultKeeper.GetStableMintVaults(ctx) {
		l = append(l, int64(v.Id))
	}
	put("StableVault", l, app.VaultKeeper.GetIDForStableVault(ctx))
	l = nil
	for _, v := range app.LockerKeeper.GetLockers(ctx) {
		l = append(l, int64(v.LockerId))
	}
	put("Locker", l, app.LockerKeeper.GetIDForLocker(ctx))
	l = nil
	for _, v := range app.LendKeeper.GetAllLend(ctx) {
		l = append(l, int64(v.ID))
	}
	put("Lend", l, app.LendKeeper.GetUserLendIDCounter(ctx))
	l = nil
	for _, v := range app.LendKeeper.GetAllBorrow(ctx) {
		l = append(l, int64(v.ID))
	}
	put("Borrow", l, app.LendKeeper.GetUserBorrowIDCounter(ctx))
	l = nil
	for _, v := range app.LendKeeper.GetPools(ctx) {
		l = append(l, int64(v.PoolID))
	}
	put("LendPool", l, app.LendKeeper.GetPoolID(ctx))
	l = nil
	for _, v := range app.LendKeeper.GetLendPairs(ctx) {
		l = append(l, int64(v.Id))
	}
	put("LendPair", l, app.LendKeeper.GetLendPairID(ctx))
	l = nil
	for _, v := range app.NewliqKeeper.GetLockedVaults(ctx) {
		l = append(l, int64(v.LockedVaultId))
	}
	put("LockedVaultV2", l, app.NewliqKeeper.GetLockedVaultID(ctx))
	l = nil
	for _, v := range app.LiquidationKeeper.GetLockedVaults(ctx) {
		l = append(l, int64(v.LockedVaultId))
	}
	put("LockedVaultV1", l, app.LiquidationKeeper.GetLockedVaultID(ctx))
	l = nil
	for _, v := range app.NewaucKeeper.GetAuctions(ctx) {
		l = append(l, int64(v.AuctionId))
	}
	put("AuctionV2", l, app.NewaucKeeper.GetAuctionID(ctx))
	l = nil
	for _, v := range app.AuctionKeeper.GetAllDutchAuctions(ctx) {
		l = append(l, int64(v.AuctionId))
	}
	for _, v := range app.AuctionKeeper.GetAllSurplusAuctions(ctx) {
		l = append(l, int64(v.AuctionId))
	}
	for _, v := range app.AuctionKeeper.GetAllDebtAuctions(ctx) {
		l = append(l, int64(v.AuctionId))
	}
	put("AuctionV1", l, app.AuctionKeeper.GetAuctionID(ctx))
	l = nil
	for _, v := range app.Rewardskeeper.GetAllGauges(ctx) {
		l = append(l, int64(v.Id))
	}
	put("Gauge", l, app.Rewardskeeper.GetGaugeID(ctx))
	l = nil
	for _, v := range app.Rewardskeeper.GetExternalRewardsLockers(ctx) {
		l = append(l, int64(v.Id))
	}
	put("ExtRewardsLocker", l, app.Rewardskeeper.GetExternalRewardsLockersID(ctx))
	l = nil
	for _, v := range app.Rewardskeeper.GetExternalRewardVaults(ctx) {
		l = append(l, int64(v.Id))
	}
	put("ExtRewardsVault", l, app.Rewardskeeper.GetExternalRewardsVaultID(ctx))
	l = nil
	for _, v := range app.Rewardskeeper.GetExternalRewardLends(ctx) {
		l = append(l, int64(v.Id))
	}
	put("ExtRewardsLend", l, app.Rewardskeeper.GetExternalRewardsLendID(ctx))
	l = nil
	for _, v := range app.AssetKeeper.GetAssets(ctx) {
		l = append(l, int64(v.Id))
	}
	put("Asset", l, app.AssetKeeper.GetAssetID(ctx))
	l = nil
	for _, v := range app.AssetKeeper.GetPairs(ctx) {
		l = append(l, int64(v.Id))
	}
	put("AssetPair", l, app.AssetKeeper.GetPairID(ctx))
	apps, _ := app.AssetKeeper.GetApps(ctx)
	l = nil
	for _, v := range apps {
		l = append(l, int64(v.Id))
	}
	put("App", l, app.AssetKeeper.GetAppID(ctx))
	eps, _ := app.AssetKeeper.GetPairsVaults(ctx)
	l = nil
	for _, v := range eps {
		l = append(l, int64(v.Id))
	}
	put("ExtendedPair", l, app.AssetKeeper.GetPairsVaultID(ctx))
	for _, a := range apps {
		var lp, lq []int64
		for _, p := range app.LiquidityKeeper.GetAllPairs(ctx, a.Id) {
			lp = append(lp, int64(p.Id))
			var lo []int64
			for _, o := range app.LiquidityKeeper.GetOrdersByPair(ctx, a.Id, p.Id) {
				lo = append(lo, int64(o.Id))
			}
			put(fmt.Sprintf("Order/%d/%d", a.Id, p.Id), lo, p.LastOrderId)
		}
		for _, p := range app.LiquidityKeeper.GetAllPools(ctx, a.Id) {
			lq = append(lq, int64(p.Id))
		}
		put(fmt.Sprintf("LiquidityPair/%d", a.Id), lp, app.LiquidityKeeper.GetLastPairID(ctx, a.Id))
		put(fmt.Sprintf("LiquidityPool/%d", a.Id), lq, app.LiquidityKeeper.GetLastPoolID(ctx, a.Id))
	}
	return out
}

// indexParts reads the secondary indexes / uniqueness guards of the asset module and of the liquidity pair lookup for
// every existing record (they are state too: governance requests are accepted or rejected by them).
func indexParts(app *chain.App, ctx sdk.Context) []PartObs {
	names, denoms, appn := map[string]interface{}{}, map[string]interface{}{}, map[string]interface{}{}
	for _, a := range app.AssetKeeper.GetAssets(ctx) {
		names[a.Name] = app.AssetKeeper.HasAssetForName(ctx, a.Name)
		denoms[a.Denom] = app.AssetKeeper.HasAssetForDenom(ctx, a.Denom)
		if x, found := app.AssetKeeper.GetAssetForDenom(ctx, a.Denom); found {
			denoms["id:"+a.Denom] = x.Id
		}
	}
	apps, _ := app.AssetKeeper.GetApps(ctx)
	pl := map[string]interface{}{}
	for _, a := range apps {
		appn["name:"+a.Name] = app.AssetKeeper.HasAppForName(ctx, a.Name)
		appn["short:"+a.ShortName] = app.AssetKeeper.HasAppForShortName(ctx, a.ShortName)
		for _, p := range app.LiquidityKeeper.GetAllPairs(ctx, a.Id) {
			if x, found := app.LiquidityKeeper.GetPairByDenoms(ctx, a.Id, p.BaseCoinDenom, p.QuoteCoinDenom); found {
				pl[fmt.Sprintf("%d/%s/%s", a.Id, p.BaseCoinDenom, p.QuoteCoinDenom)] = x.Id
			}
		}
	}
	return []PartObs{manualPart("Asset", "HasAssetForName", names), manualPart("Asset", "HasAssetForDenom", denoms),
		manualPart("Asset", "HasAppForName", appn), manualPart("Liquidity", "GetPairByDenoms", pl)}
}
