package pairs

import (
	"time"

	sdk "github.com/cosmos/cosmos-sdk/types"

	auctionsv2types "github.com/comdex-official/comdex/x/auctionsV2/types"
	lendtypes "github.com/comdex-official/comdex/x/lend/types"
	liquiditytypes "github.com/comdex-official/comdex/x/liquidity/types"
	lockertypes "github.com/comdex-official/comdex/x/locker/types"
	rewardstypes "github.com/comdex-official/comdex/x/rewards/types"
	vaulttypes "github.com/comdex-official/comdex/x/vault/types"
)

func (g *Gen) user() string           { return Users[g.R.Intn(len(Users))] }
func (g *Gen) amt(lo, hi int64) int64 { return lo + g.R.Int63n(hi-lo+1) }

// Tail appends n seeded random blocks: every block carries a few operations drawn from all modules (state-aware
// choices of ids and owners, random amounts around the positions' sizes), with occasional price moves and time
// jumps (auction ends, epochs, farming queue). Failing messages are part of the workload.
func (g *Gen) Tail(n int) {
	for k := 0; k < n; k++ {
		ops := 2 + g.R.Intn(4)
		for j := 0; j < ops; j++ {
			g.randomOp()
		}
		dt := int64(6)
		switch g.R.Intn(12) {
		case 0:
			dt = 300
		case 1:
			dt = 3700
		case 2:
			dt = 13 * 3600
		case 3:
			if g.R.Intn(3) == 0 {
				dt = 3*86400 + g.R.Int63n(1000)
			}
		}
		g.next(dt)
	}
}

func (g *Gen) randomOp() {
	ctx := g.ctx()
	a := g.C.App
	switch g.R.Weighted([]int{6, 8, 5, 8, 6, 5, 3, 2, 2}) {
	case 0: // trading
		g.trade(uint64(1 + g.R.Intn(3)))
	case 1: // vaults
		vs := a.VaultKeeper.GetVaults(ctx)
		switch c := g.R.Intn(7); {
		case c == 0 || len(vs) == 0:
			ep := uint64(1 + g.R.Intn(2))
			g.msg("vault.create", vaulttypes.NewMsgCreateRequest(U(g.user()), AppHarbor, ep, i(g.amt(2_000_000, 30_000_000)), i(g.amt(1_000_000, 6_000_000))))
		default:
			v := vs[g.R.Intn(len(vs))]
			own, _ := sdk.AccAddressFromBech32(v.Owner)
			if g.R.Intn(10) == 0 {
				own = U(g.user()) // sometimes a foreign signer
			}
			switch c {
			case 1:
				g.msg("vault.deposit", vaulttypes.NewMsgDepositRequest(own, v.AppId, v.ExtendedPairVaultID, v.Id, i(g.amt(1, 2_000_000))))
			case 2:
				g.msg("vault.draw", vaulttypes.NewMsgDrawRequest(own, v.AppId, v.ExtendedPairVaultID, v.Id, i(g.amt(1, 900_000))))
			case 3:
				g.msg("vault.repay", vaulttypes.NewMsgRepayRequest(own, v.AppId, v.ExtendedPairVaultID, v.Id, i(g.amt(1, 500_000))))
			case 4:
				g.msg("vault.withdraw", vaulttypes.NewMsgWithdrawRequest(own, v.AppId, v.ExtendedPairVaultID, v.Id, i(g.amt(1, 800_000))))
			case 5:
				g.msg("vault.close", vaulttypes.NewMsgLiquidateRequest(own, v.AppId, v.ExtendedPairVaultID, v.Id))
			case 6:
				g.msg("vault.interest", vaulttypes.NewMsgVaultInterestCalcRequest(U(g.user()), v.AppId, v.Id))
			}
		}
	case 2: // stable mint + lockers
		ls := a.LockerKeeper.GetLockers(ctx)
		switch c := g.R.Intn(6); {
		case c == 0:
			g.msg("vault.stabledeposit", vaulttypes.NewMsgDepositStableMintRequest(U(g.user()), AppHarbor, 3, i(g.amt(1_000_000, 3_000_000)), 1))
		case c == 1:
			g.msg("vault.stablewithdraw", vaulttypes.NewMsgWithdrawStableMintRequest(U(g.user()), AppHarbor, 3, i(g.amt(1_000_000, 2_000_000)), 1))
		case c == 2 || len(ls) == 0:
			g.msg("locker.create", lockertypes.NewMsgCreateLockerRequest(U(g.user()).String(), i(g.amt(1_000_000, 4_000_000)), A3, AppHarbor))
		default:
			l := ls[g.R.Intn(len(ls))]
			switch c {
			case 3:
				g.msg("locker.deposit", lockertypes.NewMsgDepositAssetRequest(l.Depositor, l.LockerId, i(g.amt(1, 900_000)), l.AssetDepositId, l.AppId))
			case 4:
				g.msg("locker.withdraw", lockertypes.NewMsgWithdrawAssetRequest(l.Depositor, l.LockerId, i(g.amt(1, 600_000)), l.AssetDepositId, l.AppId))
			case 5:
				if g.R.Intn(3) == 0 {
					g.msg("locker.close", lockertypes.NewMsgCloseLockerRequest(l.Depositor, l.AppId, l.AssetDepositId, l.LockerId))
				} else {
					g.msg("locker.rewardcalc", lockertypes.NewMsgLockerRewardCalcRequest(U(g.user()).String(), l.AppId, l.LockerId))
				}
			}
		}
	case 3: // lend
		lends := a.LendKeeper.GetAllLend(ctx)
		bors := a.LendKeeper.GetAllBorrow(ctx)
		switch c := g.R.Intn(9); {
		case c == 0 || len(lends) == 0:
			as := []uint64{A1, A2, A3}
			as2 := as[g.R.Intn(3)]
			g.msg("lend.lend", lendtypes.NewMsgLend(U(g.user()).String(), as2, coin(assetDenom[as2], g.amt(50_000_000, 900_000_000)), 1, AppLend))
		case c == 1:
			g.msg("lend.borrowalt", lendtypes.NewMsgBorrowAlternate(U(g.user()).String(), A1, 1, coin("uasset1", g.amt(200_000_000, 600_000_000)), 1, false, coin("uasset2", g.amt(10_000_000, 90_000_000)), AppLend))
		case c == 2:
			l := lends[g.R.Intn(len(lends))]
			g.msg("lend.deposit", lendtypes.NewMsgDeposit(l.Owner, l.ID, sdk.NewCoin(l.AmountIn.Denom, i(g.amt(1, 5_000_000)))))
		case c == 3:
			l := lends[g.R.Intn(len(lends))]
			g.msg("lend.withdraw", lendtypes.NewMsgWithdraw(l.Owner, l.ID, sdk.NewCoin(l.AmountIn.Denom, i(g.amt(1, 5_000_000)))))
		case c == 4:
			l := lends[g.R.Intn(len(lends))]
			g.msg("lend.closelend", lendtypes.NewMsgCloseLend(l.Owner, l.ID))
		case len(bors) == 0:
			g.msg("lend.calc", lendtypes.NewMsgCalculateInterestAndRewards(U(g.user()).String()))
		default:
			b := bors[g.R.Intn(len(bors))]
			l, _ := a.LendKeeper.GetLend(ctx, b.LendingID)
			switch c {
			case 5:
				g.msg("lend.repay", lendtypes.NewMsgRepay(l.Owner, b.ID, sdk.NewCoin(b.AmountOut.Denom, i(g.amt(1, 3_000_000)))))
			case 6:
				g.msg("lend.draw", lendtypes.NewMsgDraw(l.Owner, b.ID, sdk.NewCoin(b.AmountOut.Denom, i(g.amt(1, 2_000_000)))))
			case 7:
				g.msg("lend.depositborrow", lendtypes.NewMsgDepositBorrow(l.Owner, b.ID, sdk.NewCoin(b.AmountIn.Denom, i(g.amt(1, 4_000_000)))))
			case 8:
				if g.R.Intn(3) == 0 {
					g.msg("lend.closeborrow", lendtypes.NewMsgCloseBorrow(l.Owner, b.ID))
				} else {
					g.msg("lend.calc", lendtypes.NewMsgCalculateInterestAndRewards(l.Owner))
				}
			}
		}
	case 4: // pools, farming
		pool := uint64(1 + g.R.Intn(3))
		u := g.user()
		pc := liquiditytypes.PoolCoinDenom(AppSwap, pool)
		bal := a.BankKeeper.GetBalance(ctx, U(u), pc).Amount
		switch g.R.Intn(5) {
		case 0:
			d1, d2 := "uasset1", "uasset2"
			if pool == 3 {
				d1, d2 = "ucmdx", "uasset3"
			}
			x := g.amt(1_000_000, 60_000_000)
			g.msg("liquidity.deposit", liquiditytypes.NewMsgDeposit(AppSwap, U(u), pool, sdk.NewCoins(coin(d1, x), coin(d2, x+g.amt(0, 1000)))))
		case 1:
			if bal.IsPositive() {
				g.msg("liquidity.withdraw", liquiditytypes.NewMsgWithdraw(AppSwap, U(u), pool, sdk.NewCoin(pc, bal.QuoRaw(int64(2+g.R.Intn(3))).AddRaw(1))))
			}
		case 2:
			if bal.IsPositive() {
				g.msg("liquidity.farm", liquiditytypes.NewMsgFarm(AppSwap, pool, U(u), sdk.NewCoin(pc, bal.QuoRaw(int64(1+g.R.Intn(3))))))
			}
		case 3:
			if f, found := a.LiquidityKeeper.GetActiveFarmer(ctx, AppSwap, pool, U(u)); found && f.FarmedPoolCoin.IsPositive() {
				g.msg("liquidity.unfarm", liquiditytypes.NewMsgUnfarm(AppSwap, pool, U(u), sdk.NewCoin(pc, f.FarmedPoolCoin.Amount.QuoRaw(int64(1+g.R.Intn(3))))))
			}
		case 4:
			g.msg("liquidity.cancelall", liquiditytypes.NewMsgCancelAllOrders(AppSwap, U(u), []uint64{}))
		}
	case 5: // auctions
		switch g.R.Intn(4) {
		case 0, 1:
			g.bidAll()
		case 2:
			g.msg("aucv2.limitbid", auctionsv2types.NewMsgDepositLimitBid(U(g.user()).String(), A2, A3, i(g.amt(1, 25)), coin("uasset3", g.amt(200_000, 3_000_000))))
		case 3:
			u := g.user()
			if lb, found := a.NewaucKeeper.GetUserLimitBidDataByAddress(ctx, U(u).String()); found && len(lb.LimitOrderBidKey) > 0 {
				key := lb.LimitOrderBidKey[g.R.Intn(len(lb.LimitOrderBidKey))]
				if g.R.Intn(2) == 0 {
					g.msg("aucv2.limitcancel", auctionsv2types.NewMsgCancelLimitBid(U(u).String(), key.CollateralTokenId, key.DebtTokenId, key.PremiumDiscount))
				} else {
					g.msg("aucv2.limitwithdraw", auctionsv2types.NewMsgWithdrawLimitBid(U(u).String(), key.CollateralTokenId, key.DebtTokenId, key.PremiumDiscount, coin("uasset3", g.amt(1, 150_000))))
				}
			}
		}
	case 6: // oracle moves
		as := []uint64{A1, A2, A4}
		id := as[g.R.Intn(3)]
		twa, _ := a.MarketKeeper.GetTwa(ctx, id)
		f := []int64{70, 85, 95, 105, 115, 130}[g.R.Intn(6)]
		np := int64(twa.Twa) * f / 100
		if np < 300000 {
			np = 300000
		}
		if np > 4000000 {
			np = 4000000
		}
		g.step(cfgStep("env.price", priceArg{Asset: id, Twa: uint64(np), Active: true}))
	case 7: // rewards
		m := rewardstypes.NewMsgCreateGauge(AppSwap, U(g.user()), g.C.Time.Add(time.Duration(g.amt(10, 4000))*time.Second), rewardstypes.LiquidityGaugeTypeID, 12*time.Hour, coin("weth", g.amt(1000, 900_000)), uint64(g.amt(1, 6)))
		m.Kind = &rewardstypes.MsgCreateGauge_LiquidityMetaData{LiquidityMetaData: &rewardstypes.LiquidtyGaugeMetaData{PoolId: uint64(1 + g.R.Intn(3)), IsMasterPool: g.R.Intn(3) == 0, ChildPoolIds: []uint64{}}}
		g.msg("rewards.gauge", m)
	case 8: // keeper liquidations
		if vs := a.VaultKeeper.GetVaults(ctx); len(vs) > 0 {
			g.msg("liqv2.internal", liqV2Internal(U(g.user()), vs[g.R.Intn(len(vs))].Id))
		}
	}
}
