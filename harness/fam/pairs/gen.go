package pairs

import (
	"strings"
	"time"

	sdk "github.com/cosmos/cosmos-sdk/types"

	"vh/sim"
)

// Gen builds a workload while executing it on its own instance (so that later steps can refer to ids and
// balances produced by earlier ones). The product is the JSON workload only; every judged execution is a
// replay of that JSON on fresh instances.
type Gen struct {
	C     *Chain
	R     *sim.Rng
	W     Workload
	Res   [][]TxRes
	cur   int
	Trace func(g *Gen)
	// OnBlock is called after the commit of every block (index, hook results, step results).
	OnBlock  func(idx int, begin, end BlockRes, txs []TxRes)
	curBegin BlockRes
	finished bool
	// Cover counts occurrences of event-emitting situations that C16_SameEvents needs (vacuity control).
	Cover map[string]int
	// CtlFrom is the index of the first block of the emergency-controls phase (0 = none).
	CtlFrom int
	nLists  int
}

func NewGen(seed int64) *Gen {
	g := &Gen{C: NewFresh(Funds()), R: sim.NewRng(seed)}
	g.W.Seed = seed
	g.W.Blocks = []Block{{Dt: 0}}
	g.Res = [][]TxRes{nil}
	return g
}

func (g *Gen) step(st Step) TxRes {
	r := g.C.Exec(st)
	g.W.Blocks[g.cur].Steps = append(g.W.Blocks[g.cur].Steps, st)
	g.Res[g.cur] = append(g.Res[g.cur], r)
	return r
}

func (g *Gen) msg(tag string, m sdk.Msg) TxRes { return g.step(msgStep(g.C, tag, m)) }

// next closes the open block and begins the next one dt seconds later.
func (g *Gen) next(dt int64) {
	if g.Trace != nil {
		g.Trace(g)
	}
	g.closeBlock()
	br := g.C.Begin(time.Duration(dt) * time.Second)
	if br.Panic {
		panic("generator: BeginBlock panicked: " + br.Err)
	}
	g.curBegin = br
	if g.Cover == nil {
		g.Cover = map[string]int{}
	}
	if dt > 2*86400 {
		g.Cover["longGaps"]++ // more than two (24h) epoch durations between consecutive blocks
	}
	g.W.Blocks = append(g.W.Blocks, Block{Dt: dt})
	g.Res = append(g.Res, nil)
	g.cur++
}

func (g *Gen) closeBlock() {
	br := g.C.EndCommit()
	if br.Panic {
		panic("generator: EndBlock/Commit panicked: " + br.Err)
	}
	if g.Cover == nil {
		g.Cover = map[string]int{}
	}
	perPair := map[string]int{}
	for _, e := range br.events {
		if e.Type == "pool_order_matched" {
			for _, a := range e.Attributes {
				if a.Key == "pair_id" {
					perPair[a.Value]++
				}
			}
		}
	}
	dust := 0
	for _, e := range br.events {
		if e.Type == "user_order_matched" {
			for _, a := range e.Attributes {
				if a.Key == "pair_id" && a.Value == "4" {
					dust++
				}
			}
		}
	}
	if dust >= 3 {
		g.Cover["dustBatches"]++ // a partially filled same-price group of >= 2 sell orders against one buy on the pool-less pair
	}
	for _, n := range perPair {
		if n >= 2 {
			g.Cover["multiPoolBatches"]++ // a batch in which two pools of one pair were matched
		}
	}
	for _, r := range g.Res[g.cur] {
		if r.Tag == "liquidity.cancelall.multi" && r.OK {
			g.Cover["cancelAllMultiPair"]++
		}
		if strings.HasSuffix(r.Tag, ".list") && r.OK {
			g.Cover["acceptedListMessages"]++
		}
		if strings.HasPrefix(r.Tag, "faulty.") && !r.OK {
			g.Cover["multiFaultRejections"]++
		}
		if strings.HasPrefix(r.Tag, "guarded.") && !r.OK {
			g.Cover["guardedRejections"]++
		}
		g.Cover["events"] += r.NEv
	}
	g.Cover["events"] += br.NEv + g.curBegin.NEv
	if g.OnBlock != nil {
		g.OnBlock(g.cur, g.curBegin, br, g.Res[g.cur])
	}
}

// Finish commits the last open block.
func (g *Gen) Finish() {
	if !g.finished {
		g.closeBlock()
		g.finished = true
	}
}

func (g *Gen) ctx() sdk.Context { return g.C.Ctx }

func coin(denom string, amt int64) sdk.Coin { return sdk.NewCoin(denom, sdk.NewInt(amt)) }
