package pairs

import (
	"time"
)

// BlockOut is what one replayed block produced.
type BlockOut struct {
	Index  int
	Height int64
	Begin  BlockRes
	End    BlockRes
	Txs    []TxRes
}

// Replay executes a workload on a fresh chain (block 2 open, see NewFresh) with real blocks. after is called once
// per block after Commit; returning false stops the replay. A panic escaping BeginBlock / EndBlock+Commit ends the
// replay (reported in the BlockOut).
func Replay(c *Chain, w Workload, after func(b BlockOut) bool) {
	for idx, blk := range w.Blocks {
		out := BlockOut{Index: idx}
		if idx > 0 {
			out.Begin = c.Begin(time.Duration(blk.Dt) * time.Second)
			if out.Begin.Panic {
				out.Height = c.Height + 1
				after(out)
				return
			}
		}
		out.Height = c.Height
		for _, st := range blk.Steps {
			out.Txs = append(out.Txs, c.Exec(st))
		}
		out.End = c.EndCommit()
		if !after(out) || out.End.Panic {
			return
		}
	}
}
