package pairs

import (
	"bufio"
	"encoding/json"
	"os"
	"sort"
	"time"

	sdk "github.com/cosmos/cosmos-sdk/types"

	chain "github.com/comdex-official/comdex/app"
	lendtypes "github.com/comdex-official/comdex/x/lend/types"
	liquiditytypes "github.com/comdex-official/comdex/x/liquidity/types"
	lockertypes "github.com/comdex-official/comdex/x/locker/types"
	vaulttypes "github.com/comdex-official/comdex/x/vault/types"

	"vh/sim"
)

// Abs is the projection of one real id-bearing component onto Genesis.tla's component record.
type Abs struct {
	Live []int64 `json:"live"`
	Ctr  int64   `json:"ctr"`
	// OutOfKeyOrder: the records come out of the store (= are exported) in an order whose last element is not the
	// highest id (families that share one counter across apps and are keyed by (app, id))
	OutOfKeyOrder bool `json:"outOfKeyOrder"`
}

// absComp binds one abstract component of Genesis.tla (live ids + counter; Open / Close) to a real module.
type absComp struct {
	Name  string
	Open  func(c *Chain, n int) Step // the n-th Open (a fresh actor each time)
	Close func(c *Chain, app *chain.App, ctx sdk.Context, id uint64) (Step, bool)
	Abs   func(app *chain.App, ctx sdk.Context) Abs
}

func sorted(xs []int64) []int64 {
	sort.Slice(xs, func(a, b int) bool { return xs[a] < xs[b] })
	if xs == nil {
		xs = []int64{}
	}
	return xs
}

var absComps = []absComp{
	{
		Name: "Vault",
		Open: func(c *Chain, n int) Step {
			return msgStep(c, "vault.create", vaulttypes.NewMsgCreateRequest(U(Users[n%len(Users)]), AppHarbor, 1, i(10_000_000), i(2_000_000)))
		},
		Close: func(c *Chain, app *chain.App, ctx sdk.Context, id uint64) (Step, bool) {
			v, found := app.VaultKeeper.GetVault(ctx, id)
			if !found {
				return Step{}, false
			}
			own, _ := sdk.AccAddressFromBech32(v.Owner)
			return msgStep(c, "vault.close", vaulttypes.NewMsgLiquidateRequest(own, v.AppId, v.ExtendedPairVaultID, v.Id)), true
		},
		Abs: func(app *chain.App, ctx sdk.Context) Abs {
			var l []int64
			for _, v := range app.VaultKeeper.GetVaults(ctx) {
				l = append(l, int64(v.Id))
			}
			return Abs{Live: sorted(l), Ctr: int64(app.VaultKeeper.GetIDForVault(ctx))}
		},
	},
	{
		Name: "Locker",
		Open: func(c *Chain, n int) Step {
			return msgStep(c, "locker.create", lockertypes.NewMsgCreateLockerRequest(U(Users[n%len(Users)]).String(), i(2_000_000), A3, AppHarbor))
		},
		Close: func(c *Chain, app *chain.App, ctx sdk.Context, id uint64) (Step, bool) {
			l, found := app.LockerKeeper.GetLocker(ctx, id)
			if !found {
				return Step{}, false
			}
			return msgStep(c, "locker.close", lockertypes.NewMsgCloseLockerRequest(l.Depositor, l.AppId, l.AssetDepositId, l.LockerId)), true
		},
		Abs: func(app *chain.App, ctx sdk.Context) Abs {
			var l []int64
			for _, v := range app.LockerKeeper.GetLockers(ctx) {
				l = append(l, int64(v.LockerId))
			}
			return Abs{Live: sorted(l), Ctr: int64(app.LockerKeeper.GetIDForLocker(ctx))}
		},
	},
	{
		Name: "Lend",
		Open: func(c *Chain, n int) Step {
			return msgStep(c, "lend.lend", lendtypes.NewMsgLend(U(Users[n%len(Users)]).String(), A1, coin("uasset1", 1_000_000_000), 1, AppLend))
		},
		Close: func(c *Chain, app *chain.App, ctx sdk.Context, id uint64) (Step, bool) {
			l, found := app.LendKeeper.GetLend(ctx, id)
			if !found {
				return Step{}, false
			}
			return msgStep(c, "lend.close", lendtypes.NewMsgCloseLend(l.Owner, l.ID)), true
		},
		Abs: func(app *chain.App, ctx sdk.Context) Abs {
			var l []int64
			for _, v := range app.LendKeeper.GetAllLend(ctx) {
				l = append(l, int64(v.ID))
			}
			return Abs{Live: sorted(l), Ctr: int64(app.LendKeeper.GetUserLendIDCounter(ctx))}
		},
	},
	{
		Name: "Liquidity", // orders of pair 1 (ids from pair.LastOrderId)
		Open: func(c *Chain, n int) Step {
			price := d("1.09")
			amt := i(1_000_000 + int64(n))
			offer := coin("uasset1", amt.Int64())
			offer = offer.AddAmount(sdk.NewDecFromInt(offer.Amount).Mul(d("0.003")).Ceil().TruncateInt())
			return msgStep(c, "liquidity.limit", liquiditytypes.NewMsgLimitOrder(AppSwap, U(Users[n%len(Users)]), 1, liquiditytypes.OrderDirectionSell, offer, "uasset2", price, amt, 12*time.Hour))
		},
		Close: func(c *Chain, app *chain.App, ctx sdk.Context, id uint64) (Step, bool) {
			o, found := app.LiquidityKeeper.GetOrder(ctx, AppSwap, 1, id)
			if !found {
				return Step{}, false
			}
			return msgStep(c, "liquidity.cancel", liquiditytypes.NewMsgCancelOrder(AppSwap, o.GetOrderer(), 1, id)), true
		},
		Abs: func(app *chain.App, ctx sdk.Context) Abs {
			var l []int64
			for _, o := range app.LiquidityKeeper.GetAllOrders(ctx, AppSwap) {
				if o.PairId == 1 {
					l = append(l, int64(o.Id))
				}
			}
			p, _ := app.LiquidityKeeper.GetPair(ctx, AppSwap, 1)
			return Abs{Live: sorted(l), Ctr: int64(p.LastOrderId)}
		},
	},
}

// ReadBehaviours extracts the histories printed by MC_Genesis (one per "T" line).
func ReadBehaviours(path string) ([][]string, error) {
	f, err := os.Open(path)
	if err != nil {
		return nil, err
	}
	defer f.Close()
	var out [][]string
	sc := bufio.NewScanner(f)
	sc.Buffer(make([]byte, 1<<20), 1<<26)
	for sc.Scan() {
		js := sim.TLCJSON(sc.Text())
		if js == "" {
			continue
		}
		var v struct {
			Hist []string `json:"hist"`
		}
		if err := json.Unmarshal([]byte(js), &v); err != nil {
			return nil, err
		}
		out = append(out, v.Hist)
	}
	return out, sc.Err()
}

func absSym(o, c Abs) string {
	lo, _ := digestJSON(o.Live)
	lc, _ := digestJSON(c.Live)
	switch {
	case lo != lc:
		return "live_differs"
	case c.Ctr < o.Ctr:
		return "ctr_lower"
	case c.Ctr > o.Ctr:
		return "ctr_higher"
	}
	return "same"
}

// pick the id an abstract close operation refers to
func pickID(a Abs, op string) (uint64, bool) {
	if len(a.Live) == 0 {
		return 0, false
	}
	if op == "closeMax" {
		return uint64(a.Live[len(a.Live)-1]), true
	}
	return uint64(a.Live[0]), true
}

// RunBehaviour executes one model history on a fresh chain for ALL bound components at once: each abstract
// operation is one real block carrying one message per component, followed by an empty block (so that hooks
// that delete finished records have run) and the projection. "RT" exports / re-imports; the operations after
// it are applied to forks of both chains.
func RunBehaviour(n int, hist []string, lg *sim.Log, stt *RTStats) {
	run := "beh"
	c := NewFresh(Funds())
	for _, s := range behaviourWorld(c) {
		if r := c.Exec(s); !r.OK {
			panic("behaviour world step failed: " + s.Tag + ": " + r.Err)
		}
	}
	c.EndCommit()
	root := lg.Add(0, run, "Init", map[string]interface{}{"n": n, "hist": hist}, nil, map[string]interface{}{"h": c.Height})
	parent := root
	opens := 0
	pre := map[string]Abs{}
	ctx := c.ReadCtx()
	for _, ac := range absComps {
		pre[ac.Name] = ac.Abs(c.App, ctx)
	}
	k := 0
	for ; k < len(hist) && hist[k] != "RT"; k++ {
		op := hist[k]
		c.Begin(6 * time.Second)
		res := map[string]TxRes{}
		for _, ac := range absComps {
			var st Step
			ok := true
			if op == "open" {
				st = ac.Open(c, opens)
			} else {
				id, has := pickID(pre[ac.Name], op)
				if has {
					st, ok = ac.Close(c, c.App, c.Ctx, id)
				} else {
					ok = false
				}
			}
			if ok {
				res[ac.Name] = c.Exec(st)
			} else {
				res[ac.Name] = TxRes{OK: false, Code: "noposition"}
			}
		}
		if op == "open" {
			opens++
		}
		c.EndCommit()
		c.Begin(6 * time.Second)
		c.EndCommit()
		ctx = c.ReadCtx()
		node := parent
		for _, ac := range absComps {
			a := ac.Abs(c.App, ctx)
			node = lg.Add(parent, run, "AbsOp", map[string]interface{}{"comp": ac.Name, "op": op}, map[string]interface{}{"ok": res[ac.Name].OK, "code": res[ac.Name].Code},
				map[string]interface{}{"pre": pre[ac.Name], "abs": a})
			pre[ac.Name] = a
		}
		parent = node
	}
	if k >= len(hist) {
		return
	}
	// round trip
	exp, err := c.Export()
	if err != nil {
		stt.ExportFail++
		lg.Add(parent, run, "RT", map[string]interface{}{"k": k, "h": c.Height}, map[string]interface{}{"ok": false, "stage": "export", "err": err.Error()}, map[string]interface{}{"exported": false, "imported": false, "h": c.Height})
		return
	}
	cp, err := Import(exp, c.Time)
	if err != nil {
		stt.ImportFail++
		lg.Add(parent, run, "RT", map[string]interface{}{"k": k, "h": c.Height}, map[string]interface{}{"ok": false, "stage": "import", "err": err.Error()}, map[string]interface{}{"exported": true, "imported": false, "h": c.Height})
		return
	}
	cp.App.BandoracleKeeper.SetOracleValidationResult(cp.Ctx, c.App.BandoracleKeeper.GetOracleValidationResult(c.ReadCtx()))
	stt.Points++
	rt := lg.Add(parent, run, "RT", map[string]interface{}{"k": k, "h": c.Height}, map[string]interface{}{"ok": true, "stage": "", "err": ""}, map[string]interface{}{"exported": true, "imported": true, "h": c.Height})
	octx, cctx := c.ReadCtx(), cp.ReadCtx()
	for _, ac := range absComps {
		ao, acp := ac.Abs(c.App, octx), ac.Abs(cp.App, cctx)
		lg.Add(rt, run, "AbsRT", map[string]interface{}{"comp": ac.Name}, nil, map[string]interface{}{"o": ao, "c": acp, "sym": absSym(ao, acp)})
	}
	// continuation operations on forks of both chains
	fo, fc := c.Fork(), cp.Fork()
	parent = rt
	for k++; k < len(hist); k++ {
		op := hist[k]
		fo.Begin(6 * time.Second)
		fc.Begin(6 * time.Second)
		ro, rc := map[string]TxRes{}, map[string]TxRes{}
		for _, ac := range absComps {
			var st Step
			ok := true
			if op == "open" {
				st = ac.Open(c, opens)
			} else {
				id, has := pickID(ac.Abs(fo.App, fo.Ctx), op)
				if has {
					st, ok = ac.Close(c, fo.App, fo.Ctx, id)
				} else {
					ok = false
				}
			}
			if ok {
				ro[ac.Name], rc[ac.Name] = fo.Exec(st), fc.Exec(st)
			} else {
				ro[ac.Name], rc[ac.Name] = TxRes{Code: "noposition"}, TxRes{Code: "noposition"}
			}
		}
		if op == "open" {
			opens++
		}
		fo.End()
		fc.End()
		fo.Begin(6 * time.Second)
		fc.Begin(6 * time.Second)
		fo.End()
		fc.End()
		node := parent
		for _, ac := range absComps {
			ao, acp := ac.Abs(fo.App, fo.Ctx), ac.Abs(fc.App, fc.Ctx)
			node = lg.Add(parent, run, "AbsCont", map[string]interface{}{"comp": ac.Name, "op": op}, nil,
				map[string]interface{}{"o": map[string]interface{}{"ok": ro[ac.Name].OK, "code": ro[ac.Name].Code, "abs": ao},
					"c": map[string]interface{}{"ok": rc[ac.Name].OK, "code": rc[ac.Name].Code, "abs": acp}, "sym": absSym(ao, acp), "rsym": txSym(ro[ac.Name], rc[ac.Name])})
			stt.ContNodes++
		}
		parent = node
	}
}

// behaviourWorld = configuration + the minimum needed by the Open operations (a pair and a pool for orders).
func behaviourWorld(c *Chain) []Step {
	s := WorldSteps()
	s = append(s, msgStep(c, "liquidity.createpair", liquiditytypes.NewMsgCreatePair(AppSwap, U("u1"), "uasset1", "uasset2")))
	s = append(s, msgStep(c, "liquidity.createpool", liquiditytypes.NewMsgCreatePool(AppSwap, U("u1"), 1, sdk.NewCoins(coin("uasset1", 1_000_000_000), coin("uasset2", 1_000_000_000)))))
	return s
}
