package pairs

import (
	"crypto/sha256"
	"encoding/hex"
	"encoding/json"
	"fmt"
	"reflect"
	"sort"
	"strings"

	sdk "github.com/cosmos/cosmos-sdk/types"
)

// Observation function of C20 (Genesis.tla: Obs). A component is one DeFi module; its observation is the family of
// answers of the module keeper's public read entry points ("queries"): every exported method Get*/Has* whose
// arguments are only the context and at most two uint64 ids is called (ids range over a small grid that covers all
// ids the workloads create), plus hand-written parts for getters keyed by app/pool/address. The harness only records
// the answers (canonical JSON -> digest); equality is judged by TLC (Trace_Genesis).

type PartObs struct {
	Comp   string            `json:"comp"`
	Name   string            `json:"name"`
	Digest string            `json:"digest"`
	Items  map[string]string `json:"-"` // argument tuple / element index -> digest of the answer (diagnostics)
	N      int               `json:"n"` // number of non-empty answers
	Scalar int64             `json:"-"` // value when the single answer is an integer (counters), else -1
	Raw    string            `json:"-"` // canonical JSON (dev diagnostics)
}

var ctxType = reflect.TypeOf((*sdk.Context)(nil)).Elem()
var u64Type = reflect.TypeOf(uint64(0))
var errType = reflect.TypeOf((*error)(nil)).Elem()

const idGrid1 = 12             // one-argument getters: ids 0..12
var idGrid2 = [2]uint64{8, 10} // (position id, app) and (app, asset) shaped getters

func digestJSON(v interface{}) (string, []byte) {
	b, err := json.Marshal(v)
	if err != nil {
		b = []byte(`"marshal error: ` + err.Error() + `"`)
	}
	h := sha256.Sum256(b)
	return hex.EncodeToString(h[:])[:16], b
}

// callGetter invokes m(ctx, args...) and returns (answer JSON value, non-empty).
func callGetter(m reflect.Value, ctx sdk.Context, args []uint64) (res interface{}, nonEmpty bool) {
	defer func() {
		if r := recover(); r != nil {
			res, nonEmpty = map[string]string{"panic": fmt.Sprint(r)}, true
		}
	}()
	in := []reflect.Value{reflect.ValueOf(ctx)}
	for _, a := range args {
		in = append(in, reflect.ValueOf(a))
	}
	out := m.Call(in)
	vals := make([]interface{}, 0, len(out))
	found := true
	for _, o := range out {
		if o.Type() == errType {
			if !o.IsNil() {
				return map[string]string{"err": o.Interface().(error).Error()}, false
			}
			continue
		}
		if o.Kind() == reflect.Bool && len(out) > 1 {
			found = o.Bool()
			continue
		}
		vals = append(vals, o.Interface())
	}
	if !found {
		return "notfound", false
	}
	if len(vals) == 1 {
		v := reflect.ValueOf(vals[0])
		switch v.Kind() {
		case reflect.Slice, reflect.Map:
			return vals[0], v.Len() > 0
		}
		return vals[0], !v.IsZero()
	}
	return vals, true
}

// getterMethods lists the method names of a keeper that qualify as read entry points.
func getterMethods(k interface{}) []string {
	t := reflect.TypeOf(k)
	var names []string
	for i := 0; i < t.NumMethod(); i++ {
		m := t.Method(i)
		if !(strings.HasPrefix(m.Name, "Get") || strings.HasPrefix(m.Name, "Has")) {
			continue
		}
		ft := m.Type // receiver is in[0]
		if ft.NumIn() < 2 || ft.NumIn() > 4 || ft.In(1) != ctxType || ft.NumOut() == 0 {
			continue
		}
		ok := true
		for j := 2; j < ft.NumIn(); j++ {
			if ft.In(j) != u64Type {
				ok = false
			}
		}
		if ok {
			names = append(names, m.Name)
		}
	}
	sort.Strings(names)
	return names
}

func observeKeeper(comp string, k interface{}, ctx sdk.Context, light bool) []PartObs {
	v := reflect.ValueOf(k)
	var parts []PartObs
	for _, name := range getterMethods(k) {
		m := v.MethodByName(name)
		nargs := m.Type().NumIn() - 1
		if light && nargs > 0 {
			continue
		}
		pctx, _ := ctx.CacheContext() // getters that lazily initialise state must not leak into other parts
		p := PartObs{Comp: comp, Name: name, Items: map[string]string{}, Scalar: -1}
		answers := map[string]interface{}{}
		rec := func(args []uint64) {
			res, ne := callGetter(m, pctx, args)
			if !ne {
				return
			}
			auditAnswer(res)
			key := fmt.Sprint(args)
			answers[key] = res
			d, _ := digestJSON(res)
			p.Items[key] = d
		}
		switch nargs {
		case 0:
			res, _ := callGetter(m, pctx, nil)
			auditAnswer(res)
			answers["[]"] = res
			rv := reflect.ValueOf(res)
			switch rv.Kind() {
			case reflect.Slice: // element-wise diagnostics
				for i := 0; i < rv.Len(); i++ {
					d, b := digestJSON(rv.Index(i).Interface())
					_ = b
					p.Items[fmt.Sprintf("#%s", d)] = d
				}
			case reflect.Uint64, reflect.Uint32, reflect.Uint:
				p.Scalar = int64(rv.Uint())
				p.Items["[]"] = fmt.Sprint(rv.Uint())
			case reflect.Int64, reflect.Int32, reflect.Int:
				p.Scalar = rv.Int()
				p.Items["[]"] = fmt.Sprint(rv.Int())
			default:
				d, _ := digestJSON(res)
				p.Items["[]"] = d
			}
		case 1:
			for a := uint64(0); a <= idGrid1; a++ {
				rec([]uint64{a})
			}
		case 2:
			for a := uint64(0); a <= idGrid2[0]; a++ {
				for b := uint64(0); b <= idGrid2[1]; b++ {
					rec([]uint64{a, b})
				}
			}
		}
		p.N = len(p.Items)
		var raw []byte
		p.Digest, raw = digestJSON(answers)
		p.Raw = string(raw)
		parts = append(parts, p)
	}
	return parts
}

// manualPart records a hand-written observation.
func manualPart(comp, name string, items map[string]interface{}) PartObs {
	p := PartObs{Comp: comp, Name: name, Items: map[string]string{}, Scalar: -1}
	for k, v := range items {
		d, _ := digestJSON(v)
		p.Items[k] = d
	}
	p.N = len(items)
	var raw []byte
	p.Digest, raw = digestJSON(items)
	p.Raw = string(raw)
	return p
}
