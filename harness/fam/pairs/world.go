package pairs

import (
	sdk "github.com/cosmos/cosmos-sdk/types"

	"github.com/comdex-official/comdex/app/wasm/bindings"
	assettypes "github.com/comdex-official/comdex/x/asset/types"
	auctionsv2types "github.com/comdex-official/comdex/x/auctionsV2/types"
	lendtypes "github.com/comdex-official/comdex/x/lend/types"
	liqv2types "github.com/comdex-official/comdex/x/liquidationsV2/types"
	lockertypes "github.com/comdex-official/comdex/x/locker/types"

	"vh/sim"
)

// Actors. All are funded in the genesis bank state (no minting needed by the drivers).
var Users = []string{"u1", "u2", "u3", "u4", "u5", "u6"}

var fundDenoms = []string{"ucmdx", "uasset1", "uasset2", "uasset3", "uasset4", "uharbor", "weth"}

func Funds() []sim.Fund {
	var fs []sim.Fund
	for _, u := range Users {
		var cs sdk.Coins
		for _, d := range fundDenoms {
			cs = cs.Add(sdk.NewCoin(d, sdk.NewInt(1_000_000_000_000_000)))
		}
		fs = append(fs, sim.Fund{Name: u, Coins: cs})
	}
	return fs
}

func U(name string) sdk.AccAddress { return sim.Addr(name) }

func d(s string) sdk.Dec { return sdk.MustNewDecFromStr(s) }

// Asset ids (assigned in this order by the asset module).
const (
	A1, A2, A3, A4     = 1, 2, 3, 4 // uasset1 (2.0), uasset2 (2.0), uasset3 (1.0, the minted debt asset), uasset4 (2.0)
	CA1, CA2, CA3, CA4 = 5, 6, 7, 8 // lend receipt assets ucasset1..4
	ACMDX, AHARBOR     = 9, 10      // ucmdx (1.0), uharbor (0.5, governance / secondary asset)
	AppSwap, AppHarbor = 1, 2
	AppLend            = 3
)

var assetDenom = map[uint64]string{A1: "uasset1", A2: "uasset2", A3: "uasset3", A4: "uasset4", CA1: "ucasset1", CA2: "ucasset2",
	CA3: "ucasset3", CA4: "ucasset4", ACMDX: "ucmdx", AHARBOR: "uharbor"}

var initialPrice = map[uint64]uint64{A1: 2000000, A2: 2000000, A3: 1000000, A4: 2000000, CA1: 1000000, CA2: 2000000, CA3: 2000000,
	CA4: 2000000, ACMDX: 1000000, AHARBOR: 500000}

// WorldSteps is the governance-style configuration of the three applications (cswap / harbor / commodo), modelled on
// the repository's own keeper-test fixtures (x/auctionsV2, x/locker, x/rewards, x/liquidity).
func WorldSteps() []Step {
	var s []Step
	asset := func(name, denom string, mintable bool) {
		s = append(s, cfgStep("cfg.asset", assettypes.Asset{Name: name, Denom: denom, Decimals: sdk.NewInt(1000000), IsOnChain: true,
			IsOraclePriceRequired: true, IsCdpMintable: mintable}))
	}
	asset("ASSETONE", "uasset1", true)
	asset("ASSETTWO", "uasset2", true)
	asset("ASSETTHREE", "uasset3", true)
	asset("ASSETFOUR", "uasset4", true)
	asset("CASSETONE", "ucasset1", true)
	asset("CASSETTWO", "ucasset2", true)
	asset("CASSETTHRE", "ucasset3", true)
	asset("CASSETFOUR", "ucasset4", true)
	asset("CMDX", "ucmdx", false)
	asset("HARBOR", "uharbor", false)
	s = append(s, cfgStep("env.band", bandArg{OK: true}))
	for id := uint64(1); id <= 10; id++ {
		s = append(s, cfgStep("env.price", priceArg{Asset: id, Twa: initialPrice[id], Active: true}))
	}
	app := func(name, short string, gen []assettypes.MintGenesisToken) {
		s = append(s, cfgStep("cfg.app", assettypes.AppData{Name: name, ShortName: short, MinGovDeposit: sdk.NewInt(0), GovTimeInSeconds: 0, GenesisToken: gen}))
	}
	s = append(s, cfgStep("cfg.app", assettypes.AppData{Name: "cswap", ShortName: "cswap", MinGovDeposit: sdk.NewInt(10000000), GovTimeInSeconds: 900, GenesisToken: []assettypes.MintGenesisToken{}}))
	app("harbor", "hbr", []assettypes.MintGenesisToken{{AssetId: AHARBOR, GenesisSupply: sdk.NewInt(5_000_000_000_000), IsGovToken: true, Recipient: U("u6").String()},
		{AssetId: A3, GenesisSupply: sdk.NewInt(1_000_000), IsGovToken: false, Recipient: U("u6").String()}})
	app("commodo", "cmdo", []assettypes.MintGenesisToken{})

	// ---- lend (commodo), as in x/auctionsV2/keeper/msg_server_test.go AddAppAssets
	p1a1 := &lendtypes.AssetDataPoolMapping{AssetID: A1, AssetTransitType: 3, SupplyCap: sdk.NewDec(5000000000000000000)}
	p1a2 := &lendtypes.AssetDataPoolMapping{AssetID: A2, AssetTransitType: 1, SupplyCap: sdk.NewDec(1000000000000000000)}
	p1a3 := &lendtypes.AssetDataPoolMapping{AssetID: A3, AssetTransitType: 2, SupplyCap: sdk.NewDec(5000000000000000000)}
	p2a4 := &lendtypes.AssetDataPoolMapping{AssetID: A4, AssetTransitType: 1, SupplyCap: sdk.NewDec(3000000000000000000)}
	s = append(s, cfgStep("cfg.lend.rates", lendtypes.AssetRatesParams{AssetID: A3, UOptimal: d("0.8"), Base: d("0.002"), Slope1: d("0.06"), Slope2: d("0.6"),
		EnableStableBorrow: true, StableBase: d("0.04"), StableSlope1: d("0.04"), StableSlope2: d("0.06"), Ltv: d("0.8"), LiquidationThreshold: d("0.85"),
		LiquidationPenalty: d("0.025"), LiquidationBonus: d("0.025"), ReserveFactor: d("0.1"), CAssetID: CA3}))
	s = append(s, cfgStep("cfg.lend.rates", lendtypes.AssetRatesParams{AssetID: A1, UOptimal: d("0.75"), Base: d("0.002"), Slope1: d("0.07"), Slope2: d("1.25"),
		EnableStableBorrow: false, StableBase: d("0.0"), StableSlope1: d("0.0"), StableSlope2: d("0.0"), Ltv: d("0.7"), LiquidationThreshold: d("0.75"),
		LiquidationPenalty: d("0.05"), LiquidationBonus: d("0.05"), ReserveFactor: d("0.2"), CAssetID: CA1}))
	s = append(s, cfgStep("cfg.lend.poolpairs", lendtypes.AssetRatesPoolPairs{AssetID: A2, UOptimal: d("0.5"), Base: d("0.002"), Slope1: d("0.08"), Slope2: d("2.0"),
		EnableStableBorrow: false, StableBase: d("0.0"), StableSlope1: d("0.0"), StableSlope2: d("0.0"), Ltv: d("0.5"), LiquidationThreshold: d("0.55"),
		LiquidationPenalty: d("0.05"), LiquidationBonus: d("0.05"), ReserveFactor: d("0.2"), CAssetID: CA2, ModuleName: "cmdx", CPoolName: "CMDX-ATOM-CMST",
		AssetData: []*lendtypes.AssetDataPoolMapping{p1a1, p1a2, p1a3}, MinUsdValueLeft: 1000000}))
	s = append(s, cfgStep("cfg.lend.poolpairs", lendtypes.AssetRatesPoolPairs{AssetID: A4, UOptimal: d("0.65"), Base: d("0.002"), Slope1: d("0.08"), Slope2: d("1.5"),
		EnableStableBorrow: false, StableBase: d("0.0"), StableSlope1: d("0.0"), StableSlope2: d("0.0"), Ltv: d("0.6"), LiquidationThreshold: d("0.65"),
		LiquidationPenalty: d("0.05"), LiquidationBonus: d("0.05"), ReserveFactor: d("0.2"), CAssetID: CA4, ModuleName: "osmo", CPoolName: "OSMO-ATOM-CMST",
		AssetData: []*lendtypes.AssetDataPoolMapping{p2a4, p1a1, p1a3}, MinUsdValueLeft: 1000000, IsIsolated: true}))
	// optional / later-added fields of exported records must be non-default somewhere: e-mode on two lend pairs (writes the
	// E* parameters into the collateral asset's rates record)
	s = append(s, cfgStep("cfg.lend.emode", lendtypes.EModePairsForProposal{EModePairs: []lendtypes.EModePairs{
		{PairID: 3, ELtv: d("0.82"), ELiquidationThreshold: d("0.87"), ELiquidationPenalty: d("0.03")},
		{PairID: 5, ELtv: d("0.66"), ELiquidationThreshold: d("0.7"), ELiquidationPenalty: d("0.04")}}}))

	// ---- harbor: vault pairs, collector, locker, auctions, liquidation
	s = append(s, cfgStep("cfg.pair", assettypes.Pair{AssetIn: A2, AssetOut: A3})) // pair 1
	s = append(s, cfgStep("cfg.pair", assettypes.Pair{AssetIn: A4, AssetOut: A3})) // pair 2
	s = append(s, cfgStep("cfg.pair", assettypes.Pair{AssetIn: A1, AssetOut: A3})) // pair 3 (stable mint)
	ext := func(pair uint64, name string, stable bool, minCr string) {
		closing := "0"
		if pair == 2 {
			closing = "0.005"
		}
		s = append(s, cfgStep("cfg.extpair", bindings.MsgAddExtendedPairsVault{AppID: AppHarbor, PairID: pair, StabilityFee: d("0.01"), ClosingFee: d(closing),
			LiquidationPenalty: d("0.12"), DrawDownFee: d("0.01"), IsVaultActive: true, DebtCeiling: sdk.NewInt(1000000000000), DebtFloor: sdk.NewInt(1000000),
			IsStableMintVault: stable, MinCr: d(minCr), PairName: name, AssetOutOraclePrice: true, AssetOutPrice: 1000000, MinUsdValueLeft: 1000000}))
	}
	ext(1, "CMDX-B", false, "1.5")
	ext(2, "ATOM-B", false, "1.7")
	ext(3, "STABLE-A", true, "1.0")
	s = append(s, cfgStep("cfg.collector", bindings.MsgSetCollectorLookupTable{AppID: AppHarbor, CollectorAssetID: A3, SecondaryAssetID: AHARBOR,
		SurplusThreshold: sdk.NewInt(10000000), DebtThreshold: sdk.NewInt(5000), LockerSavingRate: d("0.1"), LotSize: sdk.NewInt(200000),
		BidFactor: d("0.01"), DebtLotSize: sdk.NewInt(2000000)}))
	s = append(s, cfgStep("cfg.aucmap", bindings.MsgSetAuctionMappingForApp{AppID: AppHarbor, AssetIDs: A3, IsSurplusAuctions: true, IsDebtAuctions: false,
		IsDistributor: false, AssetOutOraclePrices: false, AssetOutPrices: 1000000}))
	// a second collector record of the same app whose collector asset is the first record's secondary asset and vice
	// versa (the shape of x/collector/keeper's own test fixture), with its own auction mapping entry: genesis import
	// walks the records in key order and maintains a per-app duplicate guard
	s = append(s, cfgStep("cfg.collector", bindings.MsgSetCollectorLookupTable{AppID: AppHarbor, CollectorAssetID: AHARBOR, SecondaryAssetID: A3,
		SurplusThreshold: sdk.NewInt(900000000000), DebtThreshold: sdk.NewInt(0), LockerSavingRate: d("0.0"), LotSize: sdk.NewInt(300000),
		BidFactor: d("0.02"), DebtLotSize: sdk.NewInt(3000000)}))
	s = append(s, cfgStep("cfg.aucmap", bindings.MsgSetAuctionMappingForApp{AppID: AppHarbor, AssetIDs: AHARBOR, IsSurplusAuctions: false, IsDebtAuctions: true,
		IsDistributor: false, AssetOutOraclePrices: true, AssetOutPrices: 0}))
	s = append(s, cfgStep("cfg.locker.whitelist", lockertypes.MsgAddWhiteListedAssetRequest{From: U("u6").String(), AppId: AppHarbor, AssetId: A3}))
	dutch := liqv2types.DutchAuctionParam{Premium: d("1.2"), Discount: d("0.7"), DecrementFactor: sdk.NewInt(1)}
	english := liqv2types.EnglishAuctionParam{DecrementFactor: sdk.NewInt(1)}
	s = append(s, cfgStep("cfg.liqv2.whitelist", liqv2types.LiquidationWhiteListing{AppId: AppHarbor, Initiator: true, IsDutchActivated: true,
		DutchAuctionParam: &dutch, IsEnglishActivated: true, EnglishAuctionParam: &english, KeeeperIncentive: d("0.1")}))
	s = append(s, cfgStep("cfg.liqv2.whitelist", liqv2types.LiquidationWhiteListing{AppId: AppLend, Initiator: true, IsDutchActivated: true,
		DutchAuctionParam: &dutch, IsEnglishActivated: false, KeeeperIncentive: d("0.1")}))
	s = append(s, cfgStep("cfg.aucv2.params", auctionsv2types.AuctionParams{AuctionDurationSeconds: 3600, Step: d("0.1"), WithdrawalFee: d("0.005"), ClosingFee: d("0.005"),
		MinUsdValueLeft: 100000, BidFactor: d("0.1"), LiquidationPenalty: d("0.1"), AuctionBonus: d("0.01")}))
	// fractional carry state: stability-fee trackers of vaults and saving-rate trackers of lockers (x/rewards)
	s = append(s, cfgStep("cfg.rewards.vaultinterest", uint64(AppHarbor)))
	s = append(s, cfgStep("cfg.rewards.lockerasset", [2]uint64{AppHarbor, A3}))
	// parameters at their legal extremes, set through the governance path (UpdateGenericParams): lowest values on the
	// lend app, highest fractions on the harbor app (neither has pairs, so the trading workload is unaffected)
	s = append(s, cfgStep("cfg.liquidity.params", liqParamsArg{App: AppLend,
		Keys: []string{"BatchSize", "MinInitialPoolCoinSupply", "PairCreationFee", "PoolCreationFee", "MinInitialDepositAmount", "MaxPriceLimitRatio", "MaxOrderLifespan",
			"SwapFeeRate", "WithdrawFeeRate", "DepositExtraGas", "WithdrawExtraGas", "OrderExtraGas", "SwapFeeBurnRate", "MaxNumMarketMakingOrderTicks", "MaxNumActivePoolsPerPair"},
		Values: []string{"1", "1", "", "", "0", "0", "0s", "0", "0", "0", "0", "0", "0", "1", "0"}}))
	s = append(s, cfgStep("cfg.liquidity.params", liqParamsArg{App: AppHarbor,
		Keys:   []string{"BatchSize", "MaxPriceLimitRatio", "SwapFeeRate", "WithdrawFeeRate", "SwapFeeBurnRate", "MaxNumMarketMakingOrderTicks", "MaxNumActivePoolsPerPair", "MaxOrderLifespan"},
		Values: []string{"18446744073709551615", "1000000", "0.999999999999999999", "0.999999999999999999", "0.999999999999999999", "18446744073709551615", "18446744073709551615", "2562047h"}}))
	s = append(s, cfgStep("cfg.liqv1.whitelist", uint64(AppHarbor))) // V1 liquidation stays reachable through its messages
	s = append(s, cfgStep("cfg.aucv1.params", bindings.MsgAddAuctionParams{AppID: AppHarbor, AuctionDurationSeconds: 3600, Buffer: d("1.2"), Cusp: d("0.6"), Step: 1,
		PriceFunctionType: 1, SurplusID: 1, DebtID: 2, DutchID: 3, BidDurationSeconds: 3600}))
	s = append(s, cfgStep("cfg.esm.params", bindings.MsgAddESMTriggerParams{AppID: AppHarbor, TargetValue: sdk.NewCoin("uharbor", sdk.NewInt(500_000_000_000)),
		CoolOffPeriod: 3600, AssetID: []uint64{A2, A4, A1}, Rates: []uint64{2000000, 2000000, 2000000}}))
	return s
}

// ProbeNonGenesisSecondary is a governance-accepted collector record (WasmSetCollectorLookupTable and its query do not
// look at genesis tokens) whose secondary asset is NOT a genesis token of its app. collector.InitGenesis rejects it
// (ErrorAssetNotAddedForGenesisMinting) and returns: the record, every later record, the whole auction-mapping table and
// the app-to-denoms mapping are silently missing after a re-import. Exercised in its own small run (see RunProbe).
func ProbeNonGenesisSecondary() Step {
	return cfgStep("cfg.collector", bindings.MsgSetCollectorLookupTable{AppID: AppLend, CollectorAssetID: A1, SecondaryAssetID: A2,
		SurplusThreshold: sdk.NewInt(1), DebtThreshold: sdk.NewInt(0), LockerSavingRate: d("0.0"), LotSize: sdk.NewInt(1), BidFactor: d("0.02"), DebtLotSize: sdk.NewInt(1)})
}
