// Package pairs binds spec/pairs/{Replica,Genesis}.tla to the real application (C16 determinism, C20 genesis
// round trip). Both properties talk about PAIRS of executions, so this package has its own real block loop
// (ABCI BeginBlock / routed messages on the deliver state / EndBlock / Commit) instead of sim's single open block.
package pairs

import (
	"encoding/json"
	"fmt"
	"time"

	dbm "github.com/cometbft/cometbft-db"
	abci "github.com/cometbft/cometbft/abci/types"
	"github.com/cometbft/cometbft/libs/log"
	tmproto "github.com/cometbft/cometbft/proto/tendermint/types"
	tmtypes "github.com/cometbft/cometbft/types"
	servertypes "github.com/cosmos/cosmos-sdk/server/types"
	simtestutil "github.com/cosmos/cosmos-sdk/testutil/sims"
	sdk "github.com/cosmos/cosmos-sdk/types"

	chain "github.com/comdex-official/comdex/app"

	"vh/sim"
)

// Chain is one instance of the application driven block by block through the real ABCI entry points.
type Chain struct {
	App    *chain.App
	ValSet *tmtypes.ValidatorSet
	Height int64 // height of the open block, or of the last committed block when closed
	Time   time.Time
	Ctx    sdk.Context // deliver-state context of the open block (valid while Open) or of InitChain (Imported)
	Open   bool
	fresh  bool // InitChain done, no block begun yet (imported chain): Ctx reads the InitChain deliver state
}

// BlockRes reports how the hooks of one ABCI call ended.
type BlockRes struct {
	Panic  bool   `json:"panic"`
	Err    string `json:"err"`
	Ev     string `json:"ev"` // order-sensitive digest of the events of the ABCI response (real blocks only)
	NEv    int    `json:"nev"`
	events []abci.Event
}

// NewFresh boots the deterministic default genesis of sim.New (one validator, funded actors). sim.New leaves
// block 2 open on the deliver state; from there on this package runs real blocks.
func NewFresh(funds []sim.Fund) *Chain {
	e := sim.New(funds)
	return &Chain{App: e.App, ValSet: e.ValSet, Height: e.Height, Time: e.Time, Ctx: e.Ctx, Open: true}
}

func (c *Chain) header(h int64, t time.Time) tmproto.Header {
	return tmproto.Header{Height: h, Time: t, ValidatorsHash: c.ValSet.Hash(), NextValidatorsHash: c.ValSet.Hash(),
		ProposerAddress: c.ValSet.Validators[0].Address, AppHash: c.App.LastCommitID().Hash}
}

// EndCommit = ABCI EndBlock + Commit of the open block.
func (c *Chain) EndCommit() (br BlockRes) {
	if !c.Open {
		panic("EndCommit on a closed chain")
	}
	defer func() {
		if r := recover(); r != nil {
			br = BlockRes{Panic: true, Err: fmt.Sprint(r)}
		}
	}()
	resp := c.App.EndBlock(abci.RequestEndBlock{Height: c.Height})
	c.App.Commit()
	c.Open = false
	br.Ev, br.NEv, br.events = EventDigest(resp.Events), len(resp.Events), resp.Events
	return
}

// Begin = ABCI BeginBlock of the next height, dt after the previous block time.
func (c *Chain) Begin(dt time.Duration) (br BlockRes) {
	if c.Open {
		panic("Begin on an open chain")
	}
	h := c.Height + 1
	if c.fresh {
		h = c.Height // the imported chain starts at its initial height
	}
	t := c.Time.Add(dt)
	hdr := c.header(h, t)
	defer func() {
		if r := recover(); r != nil {
			br = BlockRes{Panic: true, Err: fmt.Sprint(r)}
		}
	}()
	resp := c.App.BeginBlock(abci.RequestBeginBlock{Header: hdr})
	br.Ev, br.NEv, br.events = EventDigest(resp.Events), len(resp.Events), resp.Events
	c.Height, c.Time, c.Open, c.fresh = h, t, true, false
	c.Ctx = c.App.BaseApp.NewContext(false, hdr).WithGasMeter(sdk.NewInfiniteGasMeter()).WithBlockGasMeter(sdk.NewInfiniteGasMeter())
	return
}

// ReadCtx returns a context for observations: the open block's deliver state, the InitChain deliver state of an
// imported chain, or (after Commit) the check state = last committed state. Observations never write.
func (c *Chain) ReadCtx() sdk.Context {
	if c.Open || c.fresh {
		cc, _ := c.Ctx.CacheContext()
		return cc
	}
	hdr := c.header(c.Height, c.Time)
	cc, _ := c.App.BaseApp.NewContext(true, hdr).WithIsCheckTx(false).WithGasMeter(sdk.NewInfiniteGasMeter()).CacheContext()
	return cc
}

// Export = app.ExportAppStateAndValidators(false, nil, nil) on the committed state.
func (c *Chain) Export() (exp servertypes.ExportedApp, err error) {
	if c.Open {
		panic("Export needs a committed state")
	}
	defer func() {
		if r := recover(); r != nil {
			err = fmt.Errorf("export panic: %v", r)
		}
	}()
	return c.App.ExportAppStateAndValidators(false, nil, nil)
}

// Import initialises a FRESH application from an export (same consensus params, validators from the export).
// No block is begun: the next Begin starts height exp.Height exactly like CometBFT does after InitChain.
func Import(exp servertypes.ExportedApp, t time.Time) (c *Chain, err error) {
	db := dbm.NewMemDB()
	app := chain.New(log.NewNopLogger(), db, nil, true, map[int64]bool{}, chain.DefaultNodeHome, 5,
		chain.MakeEncodingConfig(), simtestutil.EmptyAppOptions{}, chain.GetWasmEnabledProposals(), chain.EmptyWasmOpts)
	vals := make([]*tmtypes.Validator, 0, len(exp.Validators))
	for _, v := range exp.Validators {
		vals = append(vals, tmtypes.NewValidator(v.PubKey, v.Power))
	}
	valSet := tmtypes.NewValidatorSet(vals)
	defer func() {
		if r := recover(); r != nil {
			err = fmt.Errorf("InitChain panic: %v", r)
		}
	}()
	cp := exp.ConsensusParams
	if cp == nil {
		cp = chain.DefaultConsensusParams
	}
	app.InitChain(abci.RequestInitChain{
		Validators: tmtypes.TM2PB.ValidatorUpdates(valSet), ConsensusParams: cp,
		AppStateBytes: exp.AppState, Time: t, InitialHeight: exp.Height,
	})
	c = &Chain{App: app, ValSet: valSet, Height: exp.Height, Time: t, fresh: true}
	hdr := c.header(exp.Height, t)
	c.Ctx = app.BaseApp.NewContext(false, hdr).WithGasMeter(sdk.NewInfiniteGasMeter()).WithBlockGasMeter(sdk.NewInfiniteGasMeter())
	return c, nil
}

// Deliver routes one message on the open block (baseapp.runMsgs atomicity, see sim.Deliver).
func (c *Chain) Deliver(msg sdk.Msg) sim.Result {
	if !c.Open {
		panic("Deliver on a closed chain")
	}
	return sim.Deliver(c.App, c.Ctx, msg)
}

func jsonOf(v interface{}) string {
	b, err := json.Marshal(v)
	if err != nil {
		panic(err)
	}
	return string(b)
}
