package pairs

import (
	utils "github.com/comdex-official/comdex/types"
	sdk "github.com/cosmos/cosmos-sdk/types"
	"flag"
	"fmt"
	"os"
)

// Main dispatches the sub-commands of `vh pairs`.
func Main(args []string) int {
	if len(args) == 0 {
		fmt.Fprintln(os.Stderr, "usage: vh pairs replicas|worker|roundtrip|dev ...")
		return 2
	}
	switch args[0] {
	case "dev":
		return devMain(args[1:])
	}
	fmt.Fprintln(os.Stderr, "unknown sub-command", args[0])
	return 2
}

func devMain(args []string) int {
	fs := flag.NewFlagSet("dev", flag.ExitOnError)
	seed := fs.Int64("seed", 1, "")
	rt := fs.Bool("rt", false, "round trip at the end")
	_ = fs.Parse(args)
	g := NewGen(*seed)
	g.Trace = func(g *Gen) {
		ctx := g.ctx()
		a := g.C.App
		fmt.Printf("h=%d vaults=%d lockedV2=%d aucV2=%d borrows=%d lends=%d lockers=%d\n", g.C.Height, len(a.VaultKeeper.GetVaults(ctx)), len(a.NewliqKeeper.GetLockedVaults(ctx)),
			len(a.NewaucKeeper.GetAuctions(ctx)), len(a.LendKeeper.GetAllBorrow(ctx)), len(a.LendKeeper.GetAllLend(ctx)), len(a.LockerKeeper.GetLockers(ctx)))
		if g.C.Height >= 14 {
			cc, _ := ctx.CacheContext()
			fmt.Printf("   sweep: %v len=%d\n", a.NewliqKeeper.LiquidateVaults(cc, 0), a.VaultKeeper.GetLengthOfVault(cc))
			for _, v := range a.VaultKeeper.GetVaults(cc) {
				v := v
				err := utils.ApplyFuncIfNoError(cc, func(c sdk.Context) error { return a.NewliqKeeper.LiquidateIndividualVault(c, v.Id, "", false) })
				fmt.Printf("   unit liquidate vault %d: %v\n", v.Id, err)
			}
			cc3, _ := ctx.CacheContext()
			h0, f0 := a.NewliqKeeper.GetLiquidationOffsetHolder(cc3, "vault-liquidations", 0)
			e3 := a.NewliqKeeper.LiquidateVaults(cc3, 0)
			h1, f1 := a.NewliqKeeper.GetLiquidationOffsetHolder(cc3, "vault-liquidations", 0)
			fmt.Println("   SWEEP3", h0, f0, e3, h1, f1, len(a.VaultKeeper.GetVaults(cc3)), len(a.NewliqKeeper.GetLockedVaults(cc3)))
			cc2, _ := ctx.CacheContext()
			fmt.Printf("   sweep again on fresh: %v len=%d\n", a.NewliqKeeper.LiquidateVaults(cc2, 0), a.VaultKeeper.GetLengthOfVault(cc2))
			h, f := a.NewliqKeeper.GetLiquidationOffsetHolder(cc2, "vault", 0)
			fmt.Println("   holder", h, f, "params", a.NewliqKeeper.GetParams(cc2), "lenctr", a.VaultKeeper.GetLengthOfVault(cc2))
		}
		for _, au := range a.NewaucKeeper.GetAuctions(ctx) {
			fmt.Printf("   auction %d dutch=%v coll=%s debt=%s lv=%d\n", au.AuctionId, au.AuctionType, au.CollateralToken, au.DebtToken, au.LockedVaultId)
		}
	}
	g.Base()
	if *rt {
		if br := g.C.EndCommit(); br.Panic {
			fmt.Println("endcommit panic", br.Err)
			return 1
		}
		exp, err := g.C.Export()
		if err != nil {
			fmt.Println("export:", err)
			return 1
		}
		cp, err := Import(exp, g.C.Time)
		if err != nil {
			fmt.Println("import:", err)
			return 1
		}
		for _, d := range DiffStores(g.C, cp) {
			fmt.Printf("%-16s same=%d lost=%d%v extra=%d%v changed=%d%v\n", d.Store, d.NSame, d.NLost, d.Lost, d.NExtra, d.Extra, d.NChg, d.Changed)
		}
		return 0
	}
	for b, rs := range g.Res {
		fmt.Printf("== block %d dt=%d\n", b, g.W.Blocks[b].Dt)
		for _, r := range rs {
			fmt.Printf("  %-24s ok=%v code=%s gas=%d %s\n", r.Tag, r.OK, r.Code, r.Gas, r.Err)
		}
	}
	return 0
}
