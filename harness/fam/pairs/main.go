package pairs

import (
	"flag"
	"fmt"
	"os"
	"reflect"
	"time"
	"vh/sim"
)

// Main dispatches the sub-commands of `vh pairs`.
func Main(args []string) int {
	if len(args) == 0 {
		fmt.Fprintln(os.Stderr, "usage: vh pairs replicas|worker|roundtrip|dev ...")
		return 2
	}
	switch args[0] {
	case "dev":
		return devMain(args[1:])
	case "replicas":
		return replicasMain(args[1:])
	case "worker":
		return workerMain(args[1:])
	case "roundtrip":
		return roundtripMain(args[1:])
	}
	fmt.Fprintln(os.Stderr, "unknown sub-command", args[0])
	return 2
}

func devMain(args []string) int {
	fs := flag.NewFlagSet("dev", flag.ExitOnError)
	seed := fs.Int64("seed", 1, "")
	rt := fs.Bool("rt", false, "round trip at the end")
	getters := fs.Bool("getters", false, "list discovered getters")
	show := fs.Bool("show", false, "show differing values")
	tailN := fs.Int("tail", 0, "random tail blocks")
	pad := fs.Int64("pad", 0, "pad with empty blocks to this height")
	stats := fs.Bool("stats", false, "print per-tag success counts")
	_ = fs.Parse(args)
	if *getters {
		c := NewFresh(Funds())
		for _, ck := range Components {
			k := ck.Keeper(c.App)
			fmt.Println("==", ck.Comp, len(getterMethods(k)))
			for _, n := range getterMethods(k) {
				m, _ := reflect.TypeOf(k).MethodByName(n)
				fmt.Println("   ", n, m.Type.NumIn()-2)
			}
		}
		return 0
	}
	g := NewGen(*seed)
	g.Trace = func(g *Gen) {
		ctx := g.ctx()
		a := g.C.App
		fmt.Printf("h=%d vaults=%d lockedV2=%d aucV2=%d borrows=%d lends=%d lockers=%d\n", g.C.Height, len(a.VaultKeeper.GetVaults(ctx)), len(a.NewliqKeeper.GetLockedVaults(ctx)),
			len(a.NewaucKeeper.GetAuctions(ctx)), len(a.LendKeeper.GetAllBorrow(ctx)), len(a.LendKeeper.GetAllLend(ctx)), len(a.LockerKeeper.GetLockers(ctx)))
		for _, au := range a.NewaucKeeper.GetAuctions(ctx) {
			fmt.Printf("   auction %d dutch=%v coll=%s debt=%s lv=%d\n", au.AuctionId, au.AuctionType, au.CollateralToken, au.DebtToken, au.LockedVaultId)
		}
	}
	g.Base()
	g.Tail(*tailN)
	if *pad > 0 {
		g.PadTo(*pad)
	}
	g.Controls()
	if *stats {
		cnt := map[string][2]int{}
		for _, rs := range g.Res {
			for _, r := range rs {
				c := cnt[r.Tag]
				if r.OK {
					c[0]++
				} else {
					c[1]++
				}
				cnt[r.Tag] = c
			}
		}
		for _, k := range sim.SortedKeys(cnt) {
			fmt.Printf("%-26s ok=%d fail=%d\n", k, cnt[k][0], cnt[k][1])
		}
		fmt.Println("blocks", len(g.W.Blocks), "height", g.C.Height)
		for _, gg := range g.C.App.Rewardskeeper.GetAllGauges(g.ctx()) {
			fmt.Printf("gauge %d swapfee=%v pool=%d trig=%d dep=%s dist=%s\n", gg.Id, gg.ForSwapFee, gg.GetLiquidityMetaData().PoolId, gg.TriggeredCount, gg.DepositAmount, gg.DistributedAmount)
		}
		return 0
	}
	if *rt {
		if br := g.C.EndCommit(); br.Panic {
			fmt.Println("endcommit panic", br.Err)
			return 1
		}
		exp, err := g.C.Export()
		if err != nil {
			fmt.Println("export:", err)
			return 1
		}
		cp, err := Import(exp, g.C.Time)
		if err != nil {
			fmt.Println("import:", err)
			return 1
		}
		for _, d := range DiffStores(g.C, cp) {
			fmt.Printf("%-16s same=%d lost=%d%v extra=%d%v changed=%d%v\n", d.Store, d.NSame, d.NLost, d.Lost, d.NExtra, d.Extra, d.NChg, d.Changed)
		}
		t0 := time.Now()
		for n := 0; n < 10; n++ {
			Observe(g.C)
		}
		fmt.Println("observe x10", time.Since(t0))
		po, pc := Observe(g.C), Observe(cp)
		for k := range po {
			d := diffParts(po[k], pc[k])
			if d.Sym != "same" {
				fmt.Printf("DIFF %s.%s %+v  o.n=%d c.n=%d o.s=%d c.s=%d\n", po[k].Comp, po[k].Name, d, po[k].N, pc[k].N, po[k].Scalar, pc[k].Scalar)
				if *show {
					fmt.Printf("   O: %.1500s\n   C: %.1500s\n", po[k].Raw, pc[k].Raw)
				}
			}
		}
		fmt.Println("parts", len(po))
		return 0
	}
	for b, rs := range g.Res {
		fmt.Printf("== block %d dt=%d\n", b, g.W.Blocks[b].Dt)
		for _, r := range rs {
			fmt.Printf("  %-24s ok=%v code=%s gas=%d %s\n", r.Tag, r.OK, r.Code, r.Gas, r.Err)
		}
	}
	return 0
}

func roundtripMain(args []string) int {
	fs := flag.NewFlagSet("roundtrip", flag.ExitOnError)
	seed := fs.Int64("seed", 1, "")
	out := fs.String("out", "genesis.ndjson", "tree log")
	every := fs.Int("every", 4, "round trip after every n-th block")
	tail := fs.Int("tail", 0, "random tail blocks")
	nwl := fs.Int("workloads", 1, "number of seeded workloads (seed, seed+1000, ...)")
	behs := fs.String("behaviours", "", "file with the T lines of MC_Genesis")
	maxBeh := fs.Int("maxbeh", 1000, "")
	_ = fs.Parse(args)
	lg := &sim.Log{}
	var stt RTStats
	nbeh := 0
	if *behs != "" {
		hs, err := ReadBehaviours(*behs)
		if err != nil {
			fmt.Fprintln(os.Stderr, err)
			return 1
		}
		for n, h := range hs {
			if n >= *maxBeh {
				break
			}
			RunBehaviour(n, h, lg, &stt)
			nbeh++
		}
	}
	cover := map[string]int{}
	auditOn = true
	RunProbe(lg, &stt)
	for wn := 0; wn < *nwl; wn++ {
		wseed := *seed + int64(1000*wn)
		run := fmt.Sprintf("wl:%d", wseed)
		g := NewGen(wseed)
		g.Base()
		g.Tail(*tail)
		g.Controls()
		g.Finish()
		for k, v := range g.Cover {
			cover[k] += v
		}
		fctx := g.C.ReadCtx()
		cover["killSwitchRecords"] += len(g.C.App.EsmKeeper.GetAllKillSwitchData(fctx))
		cover["esmStatusRecords"] += len(g.C.App.EsmKeeper.GetAllESMStatus(fctx))
		cover["esmUserDeposits"] += len(g.C.App.EsmKeeper.GetAllUserDepositByApp(fctx))
		cover["esmCoolOffData"] += len(g.C.App.EsmKeeper.GetAllDataAfterCoolOff(fctx))
		cover["lockerRewardTrackers"] += len(g.C.App.Rewardskeeper.GetAllLockerRewardTracker(fctx))
		for _, r := range g.Res {
			for _, t := range r {
				if t.OK && t.Tag == "vault.interest" {
					cover["vaultInterestCalcs"]++
				}
				if t.OK && t.Tag == "cfg.liquidity.params" {
					cover["extremeParamSets"]++
				}
			}
		}
		root := lg.Add(0, run, "Init", map[string]interface{}{"seed": wseed, "blocks": len(g.W.Blocks)}, nil, map[string]interface{}{"h": 1})
		o := NewFresh(Funds())
		parent := root
		Replay(o, g.W, func(b BlockOut) bool {
			if b.Begin.Panic || b.End.Panic {
				lg.Add(parent, run, "Halt", map[string]interface{}{"k": b.Index, "h": b.Height}, b, map[string]interface{}{"h": b.Height})
				return false
			}
			if (b.Index+1)%*every == 0 || b.Index == len(g.W.Blocks)-1 || (g.CtlFrom > 0 && b.Index >= g.CtlFrom) {
				parent = RoundTrip(o, lg, parent, run, map[string]interface{}{"k": b.Index, "h": b.Height}, true, &stt)
			}
			return true
		})
	}
	if err := lg.Write(*out); err != nil {
		fmt.Fprintln(os.Stderr, err)
		return 1
	}
	never, total := AuditNeverSet()
	cover["recordFieldsObserved"], cover["recordFieldsNeverSet"] = total, len(never)
	_ = sim.WriteJSON(*out+".cover.json", cover)
	_ = sim.WriteJSON(*out+".neverset.json", never)
	fmt.Printf("roundtrip: nodes=%d behaviours=%d %+v\n", len(lg.Nodes), nbeh, stt)
	return 0
}
