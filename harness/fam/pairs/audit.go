package pairs

import (
	"reflect"
	"sort"
	"time"

	sdk "github.com/cosmos/cosmos-sdk/types"
)

// Field audit of the observation function: for every field of every record type that a getter answers with, was the
// field ever non-default in some answer? A field that is default in every record of every observed state cannot
// show a lossy export / import of exactly that field. The list of never-set fields goes into the evidence
// (information) and drives which optional features the workload configures.
var auditSeen = map[string]bool{}
var auditOn = false

var (
	intType  = reflect.TypeOf(sdk.Int{})
	decType  = reflect.TypeOf(sdk.Dec{})
	timeType = reflect.TypeOf(time.Time{})
)

func auditNonZero(v reflect.Value) bool {
	switch v.Type() {
	case intType:
		x := v.Interface().(sdk.Int)
		return !x.IsNil() && !x.IsZero()
	case decType:
		x := v.Interface().(sdk.Dec)
		return !x.IsNil() && !x.IsZero()
	case timeType:
		return !v.Interface().(time.Time).IsZero()
	}
	switch v.Kind() {
	case reflect.Slice, reflect.Map:
		return v.Len() > 0
	case reflect.Ptr, reflect.Interface:
		return !v.IsNil()
	}
	return !v.IsZero()
}

func auditWalk(v reflect.Value, depth int) {
	if depth > 8 || !v.IsValid() {
		return
	}
	switch v.Type() {
	case intType, decType, timeType:
		return
	}
	switch v.Kind() {
	case reflect.Ptr, reflect.Interface:
		if !v.IsNil() {
			auditWalk(v.Elem(), depth+1)
		}
	case reflect.Slice, reflect.Array:
		for i := 0; i < v.Len(); i++ {
			auditWalk(v.Index(i), depth+1)
		}
	case reflect.Struct:
		t := v.Type()
		for i := 0; i < t.NumField(); i++ {
			f := t.Field(i)
			if f.PkgPath != "" { // unexported
				continue
			}
			key := t.Name() + "." + f.Name
			nz := auditNonZero(v.Field(i))
			auditSeen[key] = auditSeen[key] || nz
			auditWalk(v.Field(i), depth+1)
		}
	}
}

func auditAnswer(res interface{}) {
	if auditOn && res != nil {
		auditWalk(reflect.ValueOf(res), 0)
	}
}

// AuditNeverSet lists the record fields that were default in every observed answer.
func AuditNeverSet() (never []string, total int) {
	for k, v := range auditSeen {
		total++
		if !v {
			never = append(never, k)
		}
	}
	sort.Strings(never)
	return
}
