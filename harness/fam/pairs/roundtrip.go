package pairs

import (
	"fmt"
	"sort"
	"strings"
	"time"

	sdk "github.com/cosmos/cosmos-sdk/types"

	"vh/sim"
)

// kvPrefixOf names, for the parts known to sit on one key prefix, the store prefix they project (diagnostics that
// let a known finding name the place: store + prefix + lost|changed|extra). Unlisted parts report "".
var kvPrefixOf = map[string]string{
	"Vault.GetIDForVault": "15", "Vault.GetIDForStableVault": "16", "Vault.GetLengthOfVault": "17",
	"Locker.GetIDForLocker":            "17",
	"Collector.GetNetFeeCollectedData": "08", "Collector.GetAppNetFeeCollectedData": "08", "Collector.GetAllNetFeeCollectedData": "08",
	"Collector.GetCollectorLookupTable": "01", "Collector.GetCollectorLookupTableByApp": "01", "Collector.GetAllCollectorLookupTable": "01",
	"Collector.GetAuctionMappingForApp": "05", "Collector.GetAllAuctionMappingForApp": "05",
	"Collector.GetAppToDenomsMapping": "07", "Collector.GetAllAppToDenomsMapping": "07",
	"Esm.GetSnapshotOfPrices": "10", "Esm.GetAssetToAmount": "11", "Esm.GetAllAssetToAmount": "11",
	"Lend.GetFundModBalByAssetPool":          "51",
	"LiquidationV2.GetLockedVaultID":         "03",
	"LiquidationV2.GetAppReserveFundsTxData": "07",
	"AuctionV2.GetAuctionID":                 "01", "AuctionV2.GetLimitAuctionBidID": "03", "AuctionV2.GetUserBidID": "05",
	"AuctionV2.GetUserBid": "06", "AuctionV2.GetUserBids": "06",
	"AuctionV2.GetUserLimitBidDataByPremium": "08", "AuctionV2.GetUserLimitBidDataByAddress": "09",
	"AuctionV2.GetAllLimitBidProtocolData": "14", "AuctionV2.GetLimitBidProtocolDataByAssetID": "14",
	"AuctionV2.GetAuctionHistorical": "07", "AuctionV2.GetAuctionHistoricals": "07",
	"Rewards.GetEpochTime": "20", "Rewards.GetEpochTimeID": "17", "Rewards.GetExternalRewardsLockersID": "15", "Rewards.GetExternalRewardsVaultID": "16",
	"Rewards.GetExternalRewardsLendID": "28", "Rewards.GetGaugeID": "22",
	"AuctionV1.GetAllDutchUserBiddings": "12", "AuctionV1.GetAllDebtUserBidding": "12", "AuctionV1.GetAllSurplusUserBiddings": "12",
	"AuctionV1.GetDutchLendAuctions": "20", "AuctionV1.GetLendAuctionID": "19",
	"Lend.GetUserLendIDCounter": "16", "Lend.GetUserBorrowIDCounter": "25", "Lend.GetPoolID": "17", "Lend.GetLendPairID": "18",
}

var storeOfComp = func() map[string]string {
	m := map[string]string{"Bank": "bank"}
	for _, c := range Components {
		m[c.Comp] = c.Store
	}
	return m
}()

func kvStatus(diffs []KVDiff, store, prefix string) string {
	if prefix == "" {
		return "n/a"
	}
	for _, d := range diffs {
		if d.Store != store {
			continue
		}
		var s []string
		for _, p := range d.Lost {
			if p == prefix {
				s = append(s, "lost")
			}
		}
		for _, p := range d.Changed {
			if p == prefix {
				s = append(s, "changed")
			}
		}
		for _, p := range d.Extra {
			if p == prefix {
				s = append(s, "extra")
			}
		}
		if len(s) == 0 {
			return "same"
		}
		return strings.Join(s, "+")
	}
	return "n/a"
}

type oc struct {
	O interface{} `json:"o"`
	C interface{} `json:"c"`
}

type contObs struct {
	Bal   string
	Ids   map[string]int64
	Comps map[string]string
}

func contObserve(f *Fork) contObs {
	parts := ObserveOn(f.App, f.Ctx, true)
	co := contObs{Ids: map[string]int64{}, Comps: map[string]string{}}
	byComp := map[string][]string{}
	for _, p := range parts {
		if infoOnly[p.Comp+"."+p.Name] {
			continue
		}
		if p.Scalar >= 0 {
			co.Ids[p.Comp+"."+p.Name] = p.Scalar
		}
		byComp[p.Comp] = append(byComp[p.Comp], p.Name+"="+p.Digest)
	}
	for c, l := range byComp {
		co.Comps[c], _ = digestJSON(l)
	}
	co.Bal = co.Comps["Bank"]
	return co
}

func diffKeys[V comparable](a, b map[string]V) []string {
	var out []string
	for k, v := range a {
		if w, ok := b[k]; !ok || w != v {
			out = append(out, k)
		}
	}
	for k := range b {
		if _, ok := a[k]; !ok {
			out = append(out, k)
		}
	}
	sort.Strings(out)
	return out
}

func resView(r TxRes) map[string]interface{} {
	// gas is not part of the compared result here: it legitimately depends on the representation (e.g. parameters
	// that the import materialises); C16 compares gas, C20 compares ok / code / response data.
	return map[string]interface{}{"ok": r.OK, "code": r.Code, "data": r.Data}
}

// RTStats are harness-side counters for the driver's stdout summary (not judged).
type RTStats struct {
	Points, Parts, PartDiffs, ContNodes, ContDiffs, ExportFail, ImportFail int
}

// RoundTrip performs one export / re-import of the committed state of o and logs: the RT point node, one Part node
// per observation part (orig vs copy), one KV node per store with a representation difference, and the Cont nodes
// of every continuation aspect executed on forks of both chains.
func RoundTrip(o *Chain, lg *sim.Log, parent int, run string, pointArgs map[string]interface{}, withConts bool, stt *RTStats) int {
	stt.Points++
	exp, err := o.Export()
	if err != nil {
		stt.ExportFail++
		return lg.Add(parent, run, "RT", pointArgs, map[string]interface{}{"ok": false, "stage": "export", "err": err.Error()},
			map[string]interface{}{"exported": false, "imported": false, "h": o.Height})
	}
	cp, err := Import(exp, o.Time)
	if err != nil {
		stt.ImportFail++
		return lg.Add(parent, run, "RT", pointArgs, map[string]interface{}{"ok": false, "stage": "import", "err": err.Error()},
			map[string]interface{}{"exported": true, "imported": false, "h": o.Height})
	}
	// The band-oracle module is the chain's IBC environment (its export carries only port, params and the check
	// flag). The harness re-establishes the stubbed oracle verdict on the copy exactly as it stubbed it on the
	// original, so that prices stay alive on both chains (reported in the evidence as an assumption).
	envBand := o.App.BandoracleKeeper.GetOracleValidationResult(o.ReadCtx())
	cp.App.BandoracleKeeper.SetOracleValidationResult(cp.Ctx, envBand)
	rt := lg.Add(parent, run, "RT", pointArgs, map[string]interface{}{"ok": true, "stage": "", "err": ""},
		map[string]interface{}{"exported": true, "imported": true, "h": o.Height})
	kv := DiffStores(o, cp)
	for _, d := range kv {
		if len(d.Lost)+len(d.Extra)+len(d.Changed) > 0 {
			lg.Add(rt, run, "KV", map[string]interface{}{"store": d.Store}, nil, d)
		}
	}
	po, pc := Observe(o), Observe(cp)
	for k := range po {
		d := diffParts(po[k], pc[k])
		full := po[k].Comp + "." + po[k].Name
		store := storeOfComp[po[k].Comp]
		pre := kvPrefixOf[full]
		stt.Parts++
		if d.Sym != "same" {
			stt.PartDiffs++
		}
		lg.Add(rt, run, "Part", map[string]interface{}{"comp": po[k].Comp, "part": po[k].Name, "judged": !infoOnly[full]}, nil,
			map[string]interface{}{"o": po[k].Digest, "c": pc[k].Digest, "on": po[k].N, "cn": pc[k].N, "sym": d.Sym, "keys": d.Keys,
				"store": store, "prefix": pre, "kv": kvStatus(kv, store, pre)})
	}
	// id spaces: live ids and counter of every id-numbered record family, on both chains
	so, sc := IdSpaces(o.App, o.ReadCtx()), IdSpaces(cp.App, cp.ReadCtx())
	for _, name := range unionKeysAbs(so, sc) {
		lg.Add(rt, run, "IdSpace", map[string]interface{}{"comp": name}, nil, map[string]interface{}{"o": so[name], "c": sc[name], "sym": absSym(so[name], sc[name])})
	}
	if !withConts {
		return rt
	}
	labels := accountLabels(o)
	for _, asp := range BuildAspects(o) {
		runAspect(o, cp, asp, lg, rt, run, labels, stt)
	}
	return rt
}

// runAspect applies one continuation to forks of both chains and logs it.
//
// Aspect "blocks" (hooks only) is compared in absolute terms: hook results, every counter that moved, and the
// balance of every module account / of the actors (one ContBal node per account class).
// Message aspects are compared by the EFFECT of their messages: next to the treatment fork (blocks + messages)
// a control fork runs the same blocks without the messages on the same chain; the effect is what differs
// between treatment and control (balance deltas per account and denom, counters that moved differently). The
// effect on the original must equal the effect on the copy. This keeps the divergence of block hooks (judged by
// the "blocks" aspect) from being charged again to every message.
func runAspect(o, cp *Chain, asp Aspect, lg *sim.Log, rt int, run string, labels map[string]string, stt *RTStats) {
	absolute := asp.Name == "blocks"
	fo, fc := o.Fork(), cp.Fork()
	var ko, kc *Fork // control forks
	if !absolute {
		ko, kc = o.Fork(), cp.Fork()
	}
	parentNode := rt
	prevO, prevC := contObserve(fo).Ids, contObserve(fc).Ids
	var hookO, hookC map[string]interface{}
	type txpair struct {
		tag    string
		ro, rc TxRes
	}
	var txs []txpair
	for n, it := range asp.Items {
		switch {
		case it.Begin > 0:
			dt := time.Duration(it.Begin) * time.Second
			bo, bc := fo.Begin(dt), fc.Begin(dt)
			if !absolute {
				ko.Begin(dt)
				kc.Begin(dt)
			}
			hookO, hookC = map[string]interface{}{"beginPanic": bo.Panic}, map[string]interface{}{"beginPanic": bc.Panic}
			txs = nil
		case it.Step != nil:
			txs = append(txs, txpair{it.Step.Tag, fo.Exec(*it.Step), fc.Exec(*it.Step)})
		case it.End:
			eo, ec := fo.End(), fc.End()
			hookO["endPanic"], hookC["endPanic"] = eo.Panic, ec.Panic
			oo, occ := contObserve(fo), contObserve(fc)
			var newO, newC map[string]int64
			var balO, balC, who string
			if absolute {
				newO, newC = movedIds(prevO, oo.Ids), movedIds(prevC, occ.Ids)
				prevO, prevC = oo.Ids, occ.Ids
				balO, balC = oo.Bal, occ.Bal
				who = balanceDiffWho(fo, fc, labels)
			} else {
				ko.End()
				kc.End()
				newO, newC = movedIds(contObserve(ko).Ids, oo.Ids), movedIds(contObserve(kc).Ids, occ.Ids)
				effO, effC := balanceEffect(fo, ko, labels), balanceEffect(fc, kc, labels)
				balO, _ = digestJSON(effO)
				balC, _ = digestJSON(effC)
				whoSet := map[string]bool{}
				for _, k := range diffKeys(effO, effC) {
					l := strings.SplitN(k, "/", 2)[0]
					if !strings.HasPrefix(l, "mod:") && !strings.HasPrefix(l, "other:") {
						l = "users" // which actor happens to hold the position does not matter
					}
					whoSet[l] = true
				}
				who = strings.Join(setList(whoSet), ";")
			}
			stt.ContNodes++
			if balO != balC || len(diffKeys(newO, newC)) > 0 {
				stt.ContDiffs++
			}
			blkNode := lg.Add(parentNode, run, "Cont", map[string]interface{}{"aspect": asp.Name, "item": n, "h": fo.Height, "absolute": absolute}, nil,
				map[string]interface{}{"hooks": oc{hookO, hookC}, "bal": oc{balO, balC}, "who": who,
					"comps": strings.Join(diffKeys(oo.Comps, occ.Comps), ";")})
			if absolute {
				bo, bc := balancesByClass(fo, labels), balancesByClass(fc, labels)
				for _, cls := range unionKeysS(bo, bc) {
					lg.Add(blkNode, run, "ContBal", map[string]interface{}{"aspect": asp.Name, "acct": cls}, nil,
						map[string]interface{}{"o": bo[cls], "c": bc[cls]})
				}
			}
			for _, t := range txs {
				mod := t.tag
				if k := strings.Index(mod, "."); k > 0 {
					mod = mod[:k]
				}
				lg.Add(blkNode, run, "ContTx", map[string]interface{}{"aspect": asp.Name, "tag": t.tag, "mod": mod}, nil,
					map[string]interface{}{"o": resView(t.ro), "c": resView(t.rc), "sym": txSym(t.ro, t.rc), "codes": okCode(t.ro) + "|" + okCode(t.rc)})
				if txSym(t.ro, t.rc) != "same" {
					stt.ContDiffs++
				}
			}
			for _, name := range unionKeys(newO, newC) {
				vo, okO := newO[name]
				vc, okC := newC[name]
				if !okO {
					vo = -1
				}
				if !okC {
					vc = -1
				}
				lg.Add(blkNode, run, "ContId", map[string]interface{}{"aspect": asp.Name, "counter": name}, nil,
					map[string]interface{}{"o": vo, "c": vc, "sym": idSym(vo, vc)})
			}
			parentNode = blkNode
		}
	}
}

func allBalances(f *Fork) map[string]sdk.Coins {
	m := map[string]sdk.Coins{}
	for _, b := range f.App.BankKeeper.GetAccountsBalances(f.Ctx) {
		m[b.Address] = b.Coins
	}
	return m
}

func labelOf(addr string, labels map[string]string) string {
	if l, ok := labels[addr]; ok {
		return l
	}
	return "other:" + addr[len(addr)-6:]
}

// balanceEffect = balances(treatment) - balances(control), per account label and denom (non-zero entries only).
func balanceEffect(t, k *Fork, labels map[string]string) map[string]string {
	bt, bk := allBalances(t), allBalances(k)
	out := map[string]string{}
	seen := map[string]bool{}
	for a := range bt {
		seen[a] = true
	}
	for a := range bk {
		seen[a] = true
	}
	for a := range seen {
		denoms := map[string]bool{}
		for _, c := range bt[a] {
			denoms[c.Denom] = true
		}
		for _, c := range bk[a] {
			denoms[c.Denom] = true
		}
		for dn := range denoms {
			d := bt[a].AmountOf(dn).Sub(bk[a].AmountOf(dn))
			if !d.IsZero() {
				out[labelOf(a, labels)+"/"+dn] = d.String()
			}
		}
	}
	return out
}

// balancesByClass: one canonical string per module account, one digest for all actors, one for all other accounts.
func balancesByClass(f *Fork, labels map[string]string) map[string]string {
	users, others := map[string]string{}, map[string]string{}
	out := map[string]string{}
	for a, cs := range allBalances(f) {
		if cs.IsZero() {
			continue
		}
		l, ok := labels[a]
		switch {
		case ok && strings.HasPrefix(l, "mod:"):
			out[l] = cs.String()
		case ok:
			users[l] = cs.String()
		default:
			others[a] = cs.String()
		}
	}
	out["users"], _ = digestJSON(users)
	out["others"], _ = digestJSON(others)
	return out
}

func unionKeysAbs(a, b map[string]Abs) []string {
	m := map[string]bool{}
	for k := range a {
		m[k] = true
	}
	for k := range b {
		m[k] = true
	}
	return setList(m)
}

func unionKeysS(a, b map[string]string) []string {
	m := map[string]bool{}
	for k := range a {
		m[k] = true
	}
	for k := range b {
		m[k] = true
	}
	return setList(m)
}

func txSym(ro, rc TxRes) string {
	switch {
	case ro.OK && rc.OK && ro.Data == rc.Data:
		return "same"
	case ro.OK && rc.OK:
		return "data"
	case ro.OK && !rc.OK:
		return "ok|fail"
	case !ro.OK && rc.OK:
		return "fail|ok"
	case ro.Code == rc.Code:
		return "same"
	}
	return "fail|fail"
}

func idSym(o, c int64) string {
	switch {
	case o == c:
		return "same"
	case o < 0:
		return "onlyC"
	case c < 0:
		return "onlyO"
	case c < o:
		return "lower"
	}
	return "higher"
}

func unionKeys(a, b map[string]int64) []string {
	m := map[string]bool{}
	for k := range a {
		m[k] = true
	}
	for k := range b {
		m[k] = true
	}
	return setList(m)
}

// accountLabels names the actors and module accounts (diagnostics for balance differences).
func accountLabels(c *Chain) map[string]string {
	m := map[string]string{}
	for _, u := range Users {
		m[U(u).String()] = u
	}
	for _, n := range append([]string{"fee_collector", "distribution", "mint", "bonded_tokens_pool", "cmdx", "osmo"}, sim.StoreNames...) {
		m[sim.ModAddr(n).String()] = "mod:" + n
	}
	return m
}

func balanceDiffWho(fo, fc *Fork, labels map[string]string) string {
	bo, bc := map[string]string{}, map[string]string{}
	for _, b := range fo.App.BankKeeper.GetAccountsBalances(fo.Ctx) {
		bo[b.Address] = b.Coins.String()
	}
	for _, b := range fc.App.BankKeeper.GetAccountsBalances(fc.Ctx) {
		bc[b.Address] = b.Coins.String()
	}
	who := map[string]bool{}
	for _, a := range diffKeys(bo, bc) {
		l, ok := labels[a]
		if !ok {
			l = "other"
		}
		who[l] = true
	}
	return strings.Join(setList(who), ";")
}

func movedIds(prev, cur map[string]int64) map[string]int64 {
	out := map[string]int64{}
	for k, v := range cur {
		if p, ok := prev[k]; !ok || p != v {
			out[k] = v
		}
	}
	return out
}

func okCode(r TxRes) string {
	if r.OK {
		return "ok"
	}
	return r.Code
}

var _ = fmt.Sprint

// RunProbe: configuration + ProbeNonGenesisSecondary, two blocks, one round trip (observation only), as run
// "probe:nongenesis-secondary". Kept apart from the workloads so that its (known) loss of the auction-mapping table
// cannot mask anything there.
func RunProbe(lg *sim.Log, stt *RTStats) {
	run := "probe:nongenesis-secondary"
	c := NewFresh(Funds())
	for _, s := range append(WorldSteps(), ProbeNonGenesisSecondary()) {
		if r := c.Exec(s); !r.OK {
			panic("probe world step failed: " + s.Tag + ": " + r.Err)
		}
	}
	c.EndCommit()
	c.Begin(6 * time.Second)
	c.EndCommit()
	root := lg.Add(0, run, "Init", map[string]interface{}{"probe": "nongenesis-secondary"}, nil, map[string]interface{}{"h": 1})
	RoundTrip(c, lg, root, run, map[string]interface{}{"k": 1, "h": c.Height}, false, stt)
}
