package pairs

import (
	"crypto/sha256"
	"encoding/hex"
	"encoding/json"
	"fmt"
	"sort"

	sdk "github.com/cosmos/cosmos-sdk/types"

	"github.com/comdex-official/comdex/app/wasm/bindings"
	assettypes "github.com/comdex-official/comdex/x/asset/types"
	auctionsv2types "github.com/comdex-official/comdex/x/auctionsV2/types"
	lendtypes "github.com/comdex-official/comdex/x/lend/types"
	liqv2types "github.com/comdex-official/comdex/x/liquidationsV2/types"
	lockertypes "github.com/comdex-official/comdex/x/locker/types"
	markettypes "github.com/comdex-official/comdex/x/market/types"

	"vh/sim"
)

// Step is one element of a workload. Kind "msg" carries an sdk.Msg as proto-JSON Any and goes through the
// message router; the "cfg.*" / "env.*" kinds carry the JSON of the argument struct of a governance-style keeper
// entry point (the same ones the wasm bindings call). A workload is plain JSON: any process can replay it.
type Step struct {
	Kind string          `json:"kind"`
	Tag  string          `json:"tag,omitempty"` // classification for coverage counters, e.g. "vault.create"
	Obj  json.RawMessage `json:"obj,omitempty"`
}

// Block of a workload: dt seconds after the previous block, then the steps in order.
type Block struct {
	Dt    int64  `json:"dt"`
	Steps []Step `json:"steps"`
}

type Workload struct {
	Seed   int64   `json:"seed"`
	Blocks []Block `json:"blocks"`
}

// TxRes is the recorded result of one step (C16: same blocks => same results).
type TxRes struct {
	Kind string `json:"kind"`
	Tag  string `json:"tag"`
	OK   bool   `json:"ok"`
	Code string `json:"code"`
	Data string `json:"data"` // hash of the response bytes
	Gas  int64  `json:"gas"`
	Err  string `json:"err,omitempty"` // diagnostics only (never compared)
}

func hashBytes(b []byte) string {
	if len(b) == 0 {
		return ""
	}
	h := sha256.Sum256(b)
	return hex.EncodeToString(h[:])[:16]
}

func cfgStep(kind string, obj interface{}) Step {
	b, err := json.Marshal(obj)
	if err != nil {
		panic(err)
	}
	return Step{Kind: kind, Tag: kind, Obj: b}
}

func msgStep(c *Chain, tag string, m sdk.Msg) Step {
	b, err := c.App.AppCodec().MarshalInterfaceJSON(m)
	if err != nil {
		panic(err)
	}
	return Step{Kind: "msg", Tag: tag, Obj: b}
}

type priceArg struct {
	Asset  uint64 `json:"asset"`
	Twa    uint64 `json:"twa"`
	Active bool   `json:"active"`
}

type bandArg struct {
	OK bool `json:"ok"`
}

type netFeeArg struct {
	App   uint64  `json:"app"`
	Asset uint64  `json:"asset"`
	Fee   sdk.Int `json:"fee"`
}

type cfgFn func(c *Chain, raw json.RawMessage) error

func dec[T any](raw json.RawMessage) (T, error) {
	var v T
	err := json.Unmarshal(raw, &v)
	return v, err
}

var cfgKinds = map[string]cfgFn{
	"cfg.asset": func(c *Chain, raw json.RawMessage) error {
		v, err := dec[assettypes.Asset](raw)
		if err != nil {
			return err
		}
		return c.App.AssetKeeper.AddAssetRecords(c.Ctx, v)
	},
	"cfg.app": func(c *Chain, raw json.RawMessage) error {
		v, err := dec[assettypes.AppData](raw)
		if err != nil {
			return err
		}
		return c.App.AssetKeeper.AddAppRecords(c.Ctx, v)
	},
	"cfg.pair": func(c *Chain, raw json.RawMessage) error {
		v, err := dec[assettypes.Pair](raw)
		if err != nil {
			return err
		}
		return c.App.AssetKeeper.AddPairsRecords(c.Ctx, v)
	},
	"cfg.extpair": func(c *Chain, raw json.RawMessage) error {
		v, err := dec[bindings.MsgAddExtendedPairsVault](raw)
		if err != nil {
			return err
		}
		return c.App.AssetKeeper.WasmAddExtendedPairsVaultRecords(c.Ctx, &v)
	},
	"cfg.collector": func(c *Chain, raw json.RawMessage) error {
		v, err := dec[bindings.MsgSetCollectorLookupTable](raw)
		if err != nil {
			return err
		}
		return c.App.CollectorKeeper.WasmSetCollectorLookupTable(c.Ctx, &v)
	},
	"cfg.aucmap": func(c *Chain, raw json.RawMessage) error {
		v, err := dec[bindings.MsgSetAuctionMappingForApp](raw)
		if err != nil {
			return err
		}
		return c.App.CollectorKeeper.WasmSetAuctionMappingForApp(c.Ctx, &v)
	},
	"cfg.locker.whitelist": func(c *Chain, raw json.RawMessage) error {
		v, err := dec[lockertypes.MsgAddWhiteListedAssetRequest](raw)
		if err != nil {
			return err
		}
		_, err = c.App.LockerKeeper.AddWhiteListedAsset(c.Ctx, &v)
		return err
	},
	"cfg.lend.rates": func(c *Chain, raw json.RawMessage) error {
		v, err := dec[lendtypes.AssetRatesParams](raw)
		if err != nil {
			return err
		}
		return c.App.LendKeeper.AddAssetRatesParams(c.Ctx, v)
	},
	"cfg.lend.poolpairs": func(c *Chain, raw json.RawMessage) error {
		v, err := dec[lendtypes.AssetRatesPoolPairs](raw)
		if err != nil {
			return err
		}
		return c.App.LendKeeper.AddAssetRatesPoolPairs(c.Ctx, v)
	},
	"cfg.lend.aucparams": func(c *Chain, raw json.RawMessage) error {
		v, err := dec[lendtypes.AuctionParams](raw)
		if err != nil {
			return err
		}
		return c.App.LendKeeper.AddAuctionParamsData(c.Ctx, v)
	},
	"cfg.liqv2.whitelist": func(c *Chain, raw json.RawMessage) error {
		v, err := dec[liqv2types.LiquidationWhiteListing](raw)
		if err != nil {
			return err
		}
		c.App.NewliqKeeper.SetLiquidationWhiteListing(c.Ctx, v)
		return nil
	},
	"cfg.aucv2.params": func(c *Chain, raw json.RawMessage) error {
		v, err := dec[auctionsv2types.AuctionParams](raw)
		if err != nil {
			return err
		}
		c.App.NewaucKeeper.SetAuctionParams(c.Ctx, v)
		return nil
	},
	"cfg.aucv1.params": func(c *Chain, raw json.RawMessage) error {
		v, err := dec[bindings.MsgAddAuctionParams](raw)
		if err != nil {
			return err
		}
		return c.App.AuctionKeeper.AddAuctionParams(c.Ctx, &v)
	},
	"cfg.liqv1.whitelist": func(c *Chain, raw json.RawMessage) error {
		v, err := dec[uint64](raw)
		if err != nil {
			return err
		}
		return c.App.LiquidationKeeper.WasmWhitelistAppIDLiquidation(c.Ctx, v)
	},
	"cfg.esm.params": func(c *Chain, raw json.RawMessage) error {
		v, err := dec[bindings.MsgAddESMTriggerParams](raw)
		if err != nil {
			return err
		}
		return c.App.EsmKeeper.AddESMTriggerParamsForApp(c.Ctx, &v)
	},
	// environment: the oracle. Band IBC results are the environment of the chain; the harness stubs them with the
	// keepers' own setters (as the repository tests do).
	"env.price": func(c *Chain, raw json.RawMessage) error {
		v, err := dec[priceArg](raw)
		if err != nil {
			return err
		}
		c.App.MarketKeeper.SetTwa(c.Ctx, markettypes.TimeWeightedAverage{AssetID: v.Asset, ScriptID: 12, Twa: v.Twa,
			CurrentIndex: 0, IsPriceActive: v.Active, PriceValue: []uint64{v.Twa}})
		return nil
	},
	"env.band": func(c *Chain, raw json.RawMessage) error {
		v, err := dec[bandArg](raw)
		if err != nil {
			return err
		}
		c.App.BandoracleKeeper.SetOracleValidationResult(c.Ctx, v.OK)
		return nil
	},
	"env.netfee": func(c *Chain, raw json.RawMessage) error {
		v, err := dec[netFeeArg](raw)
		if err != nil {
			return err
		}
		return c.App.CollectorKeeper.SetNetFeeCollectedData(c.Ctx, v.App, v.Asset, v.Fee)
	},
}

func CfgKindNames() []string {
	ks := make([]string, 0, len(cfgKinds))
	for k := range cfgKinds {
		ks = append(ks, k)
	}
	sort.Strings(ks)
	return ks
}

// Exec executes one step on the open block and records its result. Config steps run on a cache-wrapped context
// written back only on success (same atomicity as a message).
func (c *Chain) Exec(st Step) (res TxRes) {
	res = TxRes{Kind: st.Kind, Tag: st.Tag}
	if st.Kind == "msg" {
		var m sdk.Msg
		if err := c.App.AppCodec().UnmarshalInterfaceJSON(st.Obj, &m); err != nil {
			res.Err = "decode: " + err.Error()
			res.Code = "decode"
			return
		}
		gm := sdk.NewInfiniteGasMeter()
		saved := c.Ctx
		c.Ctx = c.Ctx.WithGasMeter(gm)
		r := sim.Deliver(c.App, c.Ctx, m)
		c.Ctx = saved
		res.OK, res.Code, res.Err, res.Data = r.OK, r.Code, r.Err, hashBytes(r.Data)
		if r.Panic {
			res.Code = "panic"
		}
		res.Gas = int64(gm.GasConsumed())
		return
	}
	fn := cfgKinds[st.Kind]
	if fn == nil {
		res.Err, res.Code = "unknown step kind "+st.Kind, "unknown"
		return
	}
	saved := c.Ctx
	cctx, write := c.Ctx.CacheContext()
	gm := sdk.NewInfiniteGasMeter()
	c.Ctx = cctx.WithGasMeter(gm)
	defer func() {
		c.Ctx = saved
		if r := recover(); r != nil {
			res.OK, res.Code, res.Err = false, "panic", fmt.Sprint(r)
		}
		res.Gas = int64(gm.GasConsumed())
	}()
	if err := fn(c, st.Obj); err != nil {
		res.Err, res.Code = err.Error(), "cfgerr"
		return
	}
	write()
	res.OK = true
	return
}
