package pairs

import (
	"crypto/sha256"
	"encoding/hex"
	"encoding/json"
	"fmt"
	"sort"

	sdk "github.com/cosmos/cosmos-sdk/types"

	"github.com/comdex-official/comdex/app/wasm/bindings"
	assettypes "github.com/comdex-official/comdex/x/asset/types"
	auctionsv2types "github.com/comdex-official/comdex/x/auctionsV2/types"
	lendtypes "github.com/comdex-official/comdex/x/lend/types"
	liqv2types "github.com/comdex-official/comdex/x/liquidationsV2/types"
	lockertypes "github.com/comdex-official/comdex/x/locker/types"
	markettypes "github.com/comdex-official/comdex/x/market/types"

	abci "github.com/cometbft/cometbft/abci/types"

	chain "github.com/comdex-official/comdex/app"

	"vh/sim"
)

// Step is one element of a workload. Kind "msg" carries an sdk.Msg as proto-JSON Any and goes through the
// message router; the "cfg.*" / "env.*" kinds carry the JSON of the argument struct of a governance-style keeper
// entry point (the same ones the wasm bindings call). A workload is plain JSON: any process can replay it.
type Step struct {
	Kind string          `json:"kind"`
	Tag  string          `json:"tag,omitempty"` // classification for coverage counters, e.g. "vault.create"
	Obj  json.RawMessage `json:"obj,omitempty"`
}

// Block of a workload: dt seconds after the previous block, then the steps in order.
type Block struct {
	Dt    int64  `json:"dt"`
	Steps []Step `json:"steps"`
}

type Workload struct {
	Seed   int64   `json:"seed"`
	Blocks []Block `json:"blocks"`
}

// TxRes is the recorded result of one step (C16: same blocks => same results).
type TxRes struct {
	Kind   string `json:"kind"`
	Tag    string `json:"tag"`
	OK     bool   `json:"ok"`
	Code   string `json:"code"`
	Data   string `json:"data"` // hash of the response bytes
	Gas    int64  `json:"gas"`
	Ev     string `json:"ev"`            // order-sensitive digest of the events the message emitted (type + attributes)
	NEv    int    `json:"nev"`           // number of events
	Err    string `json:"err,omitempty"` // diagnostics only (never compared)
	events []abci.Event
}

// EventDigest is an order-sensitive hash over type and attributes (key, value, in order) of a list of events.
func EventDigest(evs []abci.Event) string {
	if len(evs) == 0 {
		return ""
	}
	h := sha256.New()
	for _, e := range evs {
		h.Write([]byte(e.Type))
		h.Write([]byte{0})
		for _, a := range e.Attributes {
			h.Write([]byte(a.Key))
			h.Write([]byte{1})
			h.Write([]byte(a.Value))
			h.Write([]byte{2})
		}
		h.Write([]byte{3})
	}
	return hex.EncodeToString(h.Sum(nil))[:16]
}

// deliverMsg = sim.Deliver (ValidateBasic + routed handler on a cache-wrapped context written back only on success),
// additionally returning the events of the handler's result (baseapp puts them into the tx result on success).
func deliverMsg(app *chain.App, ctx sdk.Context, msg sdk.Msg) (res sim.Result, events []abci.Event) {
	if err := msg.ValidateBasic(); err != nil {
		return sim.Result{OK: false, Code: errCodeOf(err), Err: "validate: " + err.Error()}, nil
	}
	h := app.MsgServiceRouter().Handler(msg)
	if h == nil {
		return sim.Result{OK: false, Err: "no handler"}, nil
	}
	cctx, write := ctx.CacheContext()
	defer func() {
		if r := recover(); r != nil {
			res, events = sim.Result{OK: false, Panic: true, Err: fmt.Sprint(r)}, nil
		}
	}()
	r, err := h(cctx, msg)
	if err != nil {
		return sim.Result{OK: false, Code: errCodeOf(err), Err: err.Error()}, nil
	}
	write()
	out := sim.Result{OK: true}
	if r != nil {
		out.Data = r.Data
		events = r.Events
	}
	return out, events
}

func errCodeOf(err error) string {
	type coder interface {
		Codespace() string
		ABCICode() uint32
	}
	for e := err; e != nil; {
		if c, ok := e.(coder); ok {
			return fmt.Sprintf("%s/%d", c.Codespace(), c.ABCICode())
		}
		u, ok := e.(interface{ Unwrap() error })
		if !ok {
			break
		}
		e = u.Unwrap()
	}
	return "unregistered"
}

func hashBytes(b []byte) string {
	if len(b) == 0 {
		return ""
	}
	h := sha256.Sum256(b)
	return hex.EncodeToString(h[:])[:16]
}

func cfgStep(kind string, obj interface{}) Step {
	b, err := json.Marshal(obj)
	if err != nil {
		panic(err)
	}
	return Step{Kind: kind, Tag: kind, Obj: b}
}

func msgStep(c *Chain, tag string, m sdk.Msg) Step {
	b, err := c.App.AppCodec().MarshalInterfaceJSON(m)
	if err != nil {
		panic(err)
	}
	return Step{Kind: "msg", Tag: tag, Obj: b}
}

type priceArg struct {
	Asset  uint64 `json:"asset"`
	Twa    uint64 `json:"twa"`
	Active bool   `json:"active"`
}

type bandArg struct {
	OK bool `json:"ok"`
}

type netFeeArg struct {
	App   uint64  `json:"app"`
	Asset uint64  `json:"asset"`
	Fee   sdk.Int `json:"fee"`
}

type liqParamsArg struct {
	App    uint64   `json:"app"`
	Keys   []string `json:"keys"`
	Values []string `json:"values"`
}

type cfgFn func(a *chain.App, ctx sdk.Context, raw json.RawMessage) error

func dec[T any](raw json.RawMessage) (T, error) {
	var v T
	err := json.Unmarshal(raw, &v)
	return v, err
}

var cfgKinds = map[string]cfgFn{
	"cfg.asset": func(a *chain.App, ctx sdk.Context, raw json.RawMessage) error {
		v, err := dec[assettypes.Asset](raw)
		if err != nil {
			return err
		}
		return a.AssetKeeper.AddAssetRecords(ctx, v)
	},
	"cfg.app": func(a *chain.App, ctx sdk.Context, raw json.RawMessage) error {
		v, err := dec[assettypes.AppData](raw)
		if err != nil {
			return err
		}
		return a.AssetKeeper.AddAppRecords(ctx, v)
	},
	"cfg.pair": func(a *chain.App, ctx sdk.Context, raw json.RawMessage) error {
		v, err := dec[assettypes.Pair](raw)
		if err != nil {
			return err
		}
		return a.AssetKeeper.AddPairsRecords(ctx, v)
	},
	"cfg.extpair": func(a *chain.App, ctx sdk.Context, raw json.RawMessage) error {
		v, err := dec[bindings.MsgAddExtendedPairsVault](raw)
		if err != nil {
			return err
		}
		return a.AssetKeeper.WasmAddExtendedPairsVaultRecords(ctx, &v)
	},
	"cfg.collector": func(a *chain.App, ctx sdk.Context, raw json.RawMessage) error {
		v, err := dec[bindings.MsgSetCollectorLookupTable](raw)
		if err != nil {
			return err
		}
		return a.CollectorKeeper.WasmSetCollectorLookupTable(ctx, &v)
	},
	"cfg.aucmap": func(a *chain.App, ctx sdk.Context, raw json.RawMessage) error {
		v, err := dec[bindings.MsgSetAuctionMappingForApp](raw)
		if err != nil {
			return err
		}
		return a.CollectorKeeper.WasmSetAuctionMappingForApp(ctx, &v)
	},
	"cfg.locker.whitelist": func(a *chain.App, ctx sdk.Context, raw json.RawMessage) error {
		v, err := dec[lockertypes.MsgAddWhiteListedAssetRequest](raw)
		if err != nil {
			return err
		}
		_, err = a.LockerKeeper.AddWhiteListedAsset(ctx, &v)
		return err
	},
	"cfg.lend.rates": func(a *chain.App, ctx sdk.Context, raw json.RawMessage) error {
		v, err := dec[lendtypes.AssetRatesParams](raw)
		if err != nil {
			return err
		}
		return a.LendKeeper.AddAssetRatesParams(ctx, v)
	},
	"cfg.lend.poolpairs": func(a *chain.App, ctx sdk.Context, raw json.RawMessage) error {
		v, err := dec[lendtypes.AssetRatesPoolPairs](raw)
		if err != nil {
			return err
		}
		return a.LendKeeper.AddAssetRatesPoolPairs(ctx, v)
	},
	"cfg.lend.aucparams": func(a *chain.App, ctx sdk.Context, raw json.RawMessage) error {
		v, err := dec[lendtypes.AuctionParams](raw)
		if err != nil {
			return err
		}
		return a.LendKeeper.AddAuctionParamsData(ctx, v)
	},
	"cfg.liqv2.whitelist": func(a *chain.App, ctx sdk.Context, raw json.RawMessage) error {
		v, err := dec[liqv2types.LiquidationWhiteListing](raw)
		if err != nil {
			return err
		}
		a.NewliqKeeper.SetLiquidationWhiteListing(ctx, v)
		return nil
	},
	"cfg.aucv2.params": func(a *chain.App, ctx sdk.Context, raw json.RawMessage) error {
		v, err := dec[auctionsv2types.AuctionParams](raw)
		if err != nil {
			return err
		}
		a.NewaucKeeper.SetAuctionParams(ctx, v)
		return nil
	},
	"cfg.aucv1.params": func(a *chain.App, ctx sdk.Context, raw json.RawMessage) error {
		v, err := dec[bindings.MsgAddAuctionParams](raw)
		if err != nil {
			return err
		}
		return a.AuctionKeeper.AddAuctionParams(ctx, &v)
	},
	"cfg.liqv1.whitelist": func(a *chain.App, ctx sdk.Context, raw json.RawMessage) error {
		v, err := dec[uint64](raw)
		if err != nil {
			return err
		}
		return a.LiquidationKeeper.WasmWhitelistAppIDLiquidation(ctx, v)
	},
	"cfg.esm.params": func(a *chain.App, ctx sdk.Context, raw json.RawMessage) error {
		v, err := dec[bindings.MsgAddESMTriggerParams](raw)
		if err != nil {
			return err
		}
		return a.EsmKeeper.AddESMTriggerParamsForApp(ctx, &v)
	},
	"cfg.lend.emode": func(a *chain.App, ctx sdk.Context, raw json.RawMessage) error {
		v, err := dec[lendtypes.EModePairsForProposal](raw)
		if err != nil {
			return err
		}
		return a.LendKeeper.AddEModePairs(ctx, v)
	},
	"cfg.asset.update": func(a *chain.App, ctx sdk.Context, raw json.RawMessage) error {
		v, err := dec[assettypes.Asset](raw)
		if err != nil {
			return err
		}
		return a.AssetKeeper.UpdateAssetRecords(ctx, v)
	},
	"cfg.rewards.vaultinterest": func(a *chain.App, ctx sdk.Context, raw json.RawMessage) error {
		v, err := dec[uint64](raw)
		if err != nil {
			return err
		}
		return a.Rewardskeeper.WhitelistAppIDVault(ctx, v)
	},
	"cfg.rewards.lockerasset": func(a *chain.App, ctx sdk.Context, raw json.RawMessage) error {
		v, err := dec[[2]uint64](raw)
		if err != nil {
			return err
		}
		return a.Rewardskeeper.WhitelistAssetForInternalRewards(ctx, v[0], v[1])
	},
	"cfg.liquidity.params": func(a *chain.App, ctx sdk.Context, raw json.RawMessage) error {
		v, err := dec[liqParamsArg](raw)
		if err != nil {
			return err
		}
		return a.LiquidityKeeper.UpdateGenericParams(ctx, v.App, v.Keys, v.Values)
	},
	// environment: the oracle. Band IBC results are the environment of the chain; the harness stubs them with the
	// keepers' own setters (as the repository tests do).
	"env.price": func(a *chain.App, ctx sdk.Context, raw json.RawMessage) error {
		v, err := dec[priceArg](raw)
		if err != nil {
			return err
		}
		a.MarketKeeper.SetTwa(ctx, markettypes.TimeWeightedAverage{AssetID: v.Asset, ScriptID: 12, Twa: v.Twa,
			CurrentIndex: 0, IsPriceActive: v.Active, PriceValue: []uint64{v.Twa}})
		return nil
	},
	"env.band": func(a *chain.App, ctx sdk.Context, raw json.RawMessage) error {
		v, err := dec[bandArg](raw)
		if err != nil {
			return err
		}
		a.BandoracleKeeper.SetOracleValidationResult(ctx, v.OK)
		return nil
	},
	"env.netfee": func(a *chain.App, ctx sdk.Context, raw json.RawMessage) error {
		v, err := dec[netFeeArg](raw)
		if err != nil {
			return err
		}
		return a.CollectorKeeper.SetNetFeeCollectedData(ctx, v.App, v.Asset, v.Fee)
	},
}

func CfgKindNames() []string {
	ks := make([]string, 0, len(cfgKinds))
	for k := range cfgKinds {
		ks = append(ks, k)
	}
	sort.Strings(ks)
	return ks
}

// Exec executes one step on the open block and records its result.
func (c *Chain) Exec(st Step) TxRes {
	if !c.Open {
		panic("Exec on a closed chain")
	}
	return ExecOn(c.App, c.Ctx, st)
}

// ExecOn executes one step on ctx: messages through the router with baseapp's atomicity (sim.Deliver), config /
// environment steps on a cache-wrapped context written back only on success.
func ExecOn(app *chain.App, ctx sdk.Context, st Step) (res TxRes) {
	res = TxRes{Kind: st.Kind, Tag: st.Tag}
	gm := sdk.NewInfiniteGasMeter()
	if st.Kind == "msg" {
		var m sdk.Msg
		if err := app.AppCodec().UnmarshalInterfaceJSON(st.Obj, &m); err != nil {
			res.Err = "decode: " + err.Error()
			res.Code = "decode"
			return
		}
		r, evs := deliverMsg(app, ctx.WithGasMeter(gm), m)
		res.OK, res.Code, res.Err, res.Data = r.OK, r.Code, r.Err, hashBytes(r.Data)
		res.Ev, res.NEv, res.events = EventDigest(evs), len(evs), evs
		if r.Panic {
			res.Code = "panic"
		}
		res.Gas = int64(gm.GasConsumed())
		return
	}
	fn := cfgKinds[st.Kind]
	if fn == nil {
		res.Err, res.Code = "unknown step kind "+st.Kind, "unknown"
		return
	}
	cctx, write := ctx.CacheContext()
	cctx = cctx.WithGasMeter(gm)
	defer func() {
		if r := recover(); r != nil {
			res.OK, res.Code, res.Err = false, "panic", fmt.Sprint(r)
		}
		res.Gas = int64(gm.GasConsumed())
	}()
	if err := fn(app, cctx, st.Obj); err != nil {
		res.Err, res.Code = err.Error(), "cfgerr"
		if c := errCodeOf(err); c != "unregistered" {
			res.Code = c // which guard rejected a governance-style request is part of its result
		}
		return
	}
	write()
	res.OK = true
	return
}
