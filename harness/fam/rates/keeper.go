package rates

import (
	"fmt"
	"math/big"
	"time"

	sdk "github.com/cosmos/cosmos-sdk/types"

	"github.com/comdex-official/comdex/app/wasm/bindings"
	assettypes "github.com/comdex-official/comdex/x/asset/types"
	lendtypes "github.com/comdex-official/comdex/x/lend/types"
	lockertypes "github.com/comdex-official/comdex/x/locker/types"
	markettypes "github.com/comdex-official/comdex/x/market/types"
	vaulttypes "github.com/comdex-official/comdex/x/vault/types"

	"vh/sim"
)

// Keeper-level accrual: real positions opened through the message servers, then interest-calculation messages
// after seeded time gaps (0 s ... years). Recorded per step: whole units booked on the position (debtL), the
// carried fraction (frac) and the message result. Nothing is judged here.

type fixture struct {
	e        *sim.Env
	user     sdk.AccAddress
	app      uint64
	coll     uint64   // collateral asset (vaults), also lend asset 1
	debt     uint64   // minted asset (vaults), locker asset
	extPairs []uint64 // extended vault pairs with different stability fees
	fees     []string
	lsrApp   []uint64 // apps whose collector lookup (asset debt) has a different locker saving rate
	lsr      []string
	lendApp  uint64
	lendPool uint64
	lendA    uint64 // asset lent / collateral of the borrow
	lendB    uint64 // asset borrowed
	pairAB   uint64
	pairBA   uint64
	lendC    uint64 // second transit asset
	lendD    uint64 // asset of the second pool, borrowed cross-pool against A
	pool2    uint64
	pairAD   uint64 // inter-pool pair: collateral A lent in pool 1, D borrowed from pool 2 (bridged through B or C)
}

func setPrice(e *sim.Env, id uint64, p uint64) {
	e.App.MarketKeeper.SetTwa(e.Ctx, markettypes.TimeWeightedAverage{AssetID: id, ScriptID: 12, Twa: p, CurrentIndex: 0, IsPriceActive: true, PriceValue: []uint64{p}})
}

func addApp(e *sim.Env, name string) uint64 {
	short := name
	if len(short) > 5 {
		short = short[:5]
	}
	if err := e.App.AssetKeeper.AddAppRecords(e.Ctx, assettypes.AppData{Name: name, ShortName: short, MinGovDeposit: sdk.NewInt(0), GovTimeInSeconds: 0,
		GenesisToken: []assettypes.MintGenesisToken{}}); err != nil {
		panic(err)
	}
	apps, _ := e.App.AssetKeeper.GetApps(e.Ctx)
	for _, a := range apps {
		if a.Name == name {
			return a.Id
		}
	}
	panic("app not found")
}

func mintTo(e *sim.Env, to sdk.AccAddress, c sdk.Coin) {
	if err := e.App.BankKeeper.MintCoins(e.Ctx, "vaultV1", sdk.NewCoins(c)); err != nil {
		panic(err)
	}
	if err := e.App.BankKeeper.SendCoinsFromModuleToAccount(e.Ctx, "vaultV1", to, sdk.NewCoins(c)); err != nil {
		panic(err)
	}
}

func mintToModule(e *sim.Env, mod string, c sdk.Coin) {
	if err := e.App.BankKeeper.MintCoins(e.Ctx, "vaultV1", sdk.NewCoins(c)); err != nil {
		panic(err)
	}
	if err := e.App.BankKeeper.SendCoinsFromModuleToModule(e.Ctx, "vaultV1", mod, sdk.NewCoins(c)); err != nil {
		panic(err)
	}
}

func must(err error) {
	if err != nil {
		panic(err)
	}
}

func newFixture() *fixture {
	e := sim.New([]sim.Fund{{Name: "alice"}})
	f := &fixture{e: e, user: sim.Addr("alice")}
	e.Ctx = e.Ctx.WithBlockHeight(10).WithBlockTime(T0)
	f.app = addApp(e, "harbor")
	f.coll = addAsset(e, "COLL", "ucoll", 1000000)
	f.debt = addAsset(e, "DEBT", "udebt", 1000000)
	third := addAsset(e, "GOV", "ugov", 1000000)
	setPrice(e, f.coll, 2000000)
	setPrice(e, f.debt, 1000000)
	setPrice(e, third, 1000000)
	must(e.App.AssetKeeper.AddPairsRecords(e.Ctx, assettypes.Pair{AssetIn: f.coll, AssetOut: f.debt}))
	pairID := uint64(0)
	for _, p := range e.App.AssetKeeper.GetPairs(e.Ctx) {
		if p.AssetIn == f.coll && p.AssetOut == f.debt {
			pairID = p.Id
		}
	}
	// ---- vaults: one extended pair per stability fee ----
	f.fees = []string{"0.0025", "0.01", "0.02", "0.1", "0.5"}
	for i, fee := range f.fees {
		name := "COLL-" + string(rune('A'+i))
		must(e.App.AssetKeeper.WasmAddExtendedPairsVaultRecords(e.Ctx, &bindings.MsgAddExtendedPairsVault{
			AppID: f.app, PairID: pairID, StabilityFee: sdk.MustNewDecFromStr(fee), ClosingFee: sdk.ZeroDec(),
			LiquidationPenalty: sdk.NewDecWithPrec(15, 2), DrawDownFee: sdk.NewDecWithPrec(1, 2), IsVaultActive: true,
			DebtCeiling: sdk.NewInt(1000000000000000000), DebtFloor: sdk.NewInt(1000000), IsStableMintVault: false,
			MinCr: sdk.NewDecWithPrec(15, 1), PairName: name, AssetOutOraclePrice: true, AssetOutPrice: 1000000, MinUsdValueLeft: 1000000}))
		pvs, _ := e.App.AssetKeeper.GetPairsVaults(e.Ctx)
		for _, pv := range pvs {
			if pv.PairName == name && pv.AppId == f.app {
				f.extPairs = append(f.extPairs, pv.Id)
			}
		}
	}
	must(e.App.Rewardskeeper.WhitelistAppIDVault(e.Ctx, f.app))
	// ---- lockers: one app per saving rate (the rate lives in the collector lookup of (app, asset)) ----
	f.lsr = []string{"0.001", "0.03", "0.1", "1"}
	for i, r := range f.lsr {
		app := f.app
		if i > 0 {
			app = addApp(e, "lock"+string(rune(97+i)))
		}
		f.lsrApp = append(f.lsrApp, app)
		must(e.App.CollectorKeeper.WasmSetCollectorLookupTable(e.Ctx, &bindings.MsgSetCollectorLookupTable{AppID: app, CollectorAssetID: f.debt, SecondaryAssetID: third,
			SurplusThreshold: sdk.NewInt(10000000), DebtThreshold: sdk.NewInt(5000000), LockerSavingRate: sdk.MustNewDecFromStr(r),
			LotSize: sdk.NewInt(2000000), BidFactor: sdk.MustNewDecFromStr("0.01"), DebtLotSize: sdk.NewInt(2000000)}))
		_, err := e.App.LockerKeeper.AddWhiteListedAsset(e.Ctx, &lockertypes.MsgAddWhiteListedAssetRequest{From: f.user.String(), AppId: app, AssetId: f.debt})
		must(err)
		must(e.App.CollectorKeeper.SetNetFeeCollectedData(e.Ctx, app, f.debt, sdk.NewInt(4000000000000000000)))
		must(e.App.Rewardskeeper.WhitelistAssetForInternalRewards(e.Ctx, app, f.debt))
	}
	mintToModule(e, "collectorV1", sdk.NewCoin("udebt", sdk.NewInt(4000000000000000000)))
	// ---- lend: one pool, asset A lent and used as collateral, asset B borrowed ----
	f.lendApp = addApp(e, lendtypes.AppName)
	f.lendA = addAsset(e, "LENDA", "ulenda", 1000000)
	f.lendB = addAsset(e, "LENDB", "ulendb", 1000000)
	f.lendC = addAsset(e, "LENDC", "ulendc", 1000000)
	lendC := f.lendC
	cA := addAsset(e, "CLENDA", "uclenda", 1000000)
	cB := addAsset(e, "CLENDB", "uclendb", 1000000)
	cC := addAsset(e, "CLENDC", "uclendc", 1000000)
	f.lendD = addAsset(e, "LENDD", "ulendd", 1000000)
	cD := addAsset(e, "CLENDD", "uclendd", 1000000)
	for _, a := range []uint64{f.lendA, f.lendB, lendC, f.lendD} {
		setPrice(e, a, 1000000)
	}
	must(e.App.LendKeeper.AddPoolRecords(e.Ctx, lendtypes.Pool{ModuleName: lendtypes.ModuleAcc1, CPoolName: "A-B-C", AssetData: []*lendtypes.AssetDataPoolMapping{
		{AssetID: f.lendA, AssetTransitType: 1, SupplyCap: sdk.NewDec(5000000000000000000)},
		{AssetID: f.lendB, AssetTransitType: 2, SupplyCap: sdk.NewDec(5000000000000000000)},
		{AssetID: lendC, AssetTransitType: 3, SupplyCap: sdk.NewDec(5000000000000000000)}}}))
	f.lendPool = 1
	must(e.App.LendKeeper.AddPoolRecords(e.Ctx, lendtypes.Pool{ModuleName: lendtypes.ModuleAcc2, CPoolName: "D-B-C", AssetData: []*lendtypes.AssetDataPoolMapping{
		{AssetID: f.lendD, AssetTransitType: 1, SupplyCap: sdk.NewDec(5000000000000000000)},
		{AssetID: f.lendB, AssetTransitType: 2, SupplyCap: sdk.NewDec(5000000000000000000)},
		{AssetID: lendC, AssetTransitType: 3, SupplyCap: sdk.NewDec(5000000000000000000)}}}))
	f.pool2 = 2
	rp := func(asset, c uint64, stable bool) lendtypes.AssetRatesParams {
		return lendtypes.AssetRatesParams{AssetID: asset, UOptimal: permille(800), Base: permille(2), Slope1: permille(70), Slope2: permille(1250),
			EnableStableBorrow: stable, StableBase: permille(40), StableSlope1: permille(40), StableSlope2: permille(60), Ltv: permille(700),
			LiquidationThreshold: permille(750), LiquidationPenalty: permille(50), LiquidationBonus: permille(50), ReserveFactor: permille(200), CAssetID: c}
	}
	must(e.App.LendKeeper.AddAssetRatesParams(e.Ctx, rp(f.lendA, cA, true), rp(f.lendB, cB, true), rp(lendC, cC, true), rp(f.lendD, cD, true)))
	must(e.App.LendKeeper.AddLendPairsRecords(e.Ctx, lendtypes.Extended_Pair{AssetIn: f.lendA, AssetOut: f.lendB, IsInterPool: false, AssetOutPoolID: f.lendPool, MinUsdValueLeft: 100000}))
	must(e.App.LendKeeper.AddLendPairsRecords(e.Ctx, lendtypes.Extended_Pair{AssetIn: f.lendB, AssetOut: f.lendA, IsInterPool: false, AssetOutPoolID: f.lendPool, MinUsdValueLeft: 100000}))
	must(e.App.LendKeeper.AddLendPairsRecords(e.Ctx, lendtypes.Extended_Pair{AssetIn: f.lendA, AssetOut: f.lendD, IsInterPool: true, AssetOutPoolID: f.pool2, MinUsdValueLeft: 100000}))
	for _, p := range e.App.LendKeeper.GetLendPairs(e.Ctx) {
		if p.AssetIn == f.lendA && p.AssetOut == f.lendB {
			f.pairAB = p.Id
		}
		if p.AssetIn == f.lendA && p.AssetOut == f.lendD {
			f.pairAD = p.Id
		}
		if p.AssetIn == f.lendB && p.AssetOut == f.lendA {
			f.pairBA = p.Id
		}
	}
	must(e.App.LendKeeper.AddAssetToPair(e.Ctx, lendtypes.AssetToPairMapping{AssetID: f.lendA, PoolID: f.lendPool, PairID: []uint64{f.pairAB, f.pairAD}}))
	must(e.App.LendKeeper.AddAssetToPair(e.Ctx, lendtypes.AssetToPairMapping{AssetID: f.lendB, PoolID: f.lendPool, PairID: []uint64{f.pairBA}}))
	mintToModule(e, lendtypes.ModuleName, sdk.NewCoin("ulenda", sdk.NewInt(1000000000000000000))) // reserve that tops up lender rewards
	for _, d := range []string{"ucoll", "udebt", "ulenda", "ulendb", "ulendc", "ulendd"} {
		mintTo(e, f.user, sdk.NewCoin(d, sdk.NewInt(2000000000000000000)))
	}
	return f
}

type posProj struct {
	DebtL []int64 `json:"debtL"`
	Frac  val     `json:"frac"`
	Found bool    `json:"found"`
}

func zeroVal() val { return decVal(sdk.ZeroDec()) }

func (f *fixture) project(e *sim.Env, kind string, app, id uint64) posProj {
	switch kind {
	case "vault":
		v, ok := e.App.VaultKeeper.GetVault(e.Ctx, id)
		if !ok {
			return posProj{DebtL: []int64{}, Frac: zeroVal()}
		}
		p := posProj{Found: true, DebtL: sim.Limbs(v.AmountOut.Add(v.InterestAccumulated).BigInt()), Frac: zeroVal()}
		if t, ok := e.App.Rewardskeeper.GetVaultInterestTracker(e.Ctx, id, app); ok {
			p.Frac = decVal(t.InterestAccumulated)
		}
		return p
	case "locker":
		l, ok := e.App.LockerKeeper.GetLocker(e.Ctx, id)
		if !ok {
			return posProj{DebtL: []int64{}, Frac: zeroVal()}
		}
		p := posProj{Found: true, DebtL: sim.Limbs(l.ReturnsAccumulated.BigInt()), Frac: zeroVal()} // savings booked so far
		if t, ok := e.App.Rewardskeeper.GetLockerRewardTracker(e.Ctx, id, app); ok {
			p.Frac = decVal(t.RewardsAccumulated)
		}
		return p
	case "lend":
		l, ok := e.App.LendKeeper.GetLend(e.Ctx, id)
		if !ok {
			return posProj{DebtL: []int64{}, Frac: zeroVal()}
		}
		p := posProj{Found: true, DebtL: sim.Limbs(l.TotalRewards.BigInt()), Frac: zeroVal()}
		if t, ok := e.App.LendKeeper.GetLendRewardTracker(e.Ctx, id); ok {
			p.Frac = decVal(t.RewardsAccumulated)
		}
		return p
	case "borrow":
		b, ok := e.App.LendKeeper.GetBorrow(e.Ctx, id)
		if !ok {
			return posProj{DebtL: []int64{}, Frac: zeroVal()}
		}
		whole := b.InterestAccumulated.TruncateInt()
		return posProj{Found: true, DebtL: sim.Limbs(b.AmountOut.Amount.Add(whole).BigInt()), Frac: decVal(b.InterestAccumulated.Sub(sdk.NewDecFromInt(whole)))}
	}
	panic(kind)
}

var gaps = []int64{0, 0, 1, 5, 6, 60, 3600, 86400, 604800, 2629800, 31557600, 94672800}
const epochMax = int64(1800000000) // an epoch is cut before its elapsed time leaves the 32-bit range of TLC

var burstGaps = []int64{0, 1, 1, 2, 2, 2, 5, 6, 6, 30}

// inForce reads, before a trigger, what the trigger will accrue on: the accrual function behind the entry point, the
// principal it is given and the yearly rate in force (all from the real state).
func (f *fixture) inForce(e *sim.Env, kind, via string, app, id uint64) (string, sdk.Int, sdk.Dec) {
	fn, p, r, _, _ := f.inForceX(e, kind, via, app, id)
	return fn, p, r
}

// inForceX additionally returns the stored global index the index path divides by (1 where there is none) and whether the
// position carries its own accrual timestamp that is older than the moment the product's rate was last switched on.
func (f *fixture) inForceX(e *sim.Env, kind, via string, app, id uint64) (string, sdk.Int, sdk.Dec, sdk.Dec, bool) {
	one := sdk.OneDec()
	switch kind {
	case "vault":
		v, _ := e.App.VaultKeeper.GetVault(e.Ctx, id)
		pv, _ := e.App.AssetKeeper.GetPairsVault(e.Ctx, v.ExtendedPairVaultID)
		stale := v.BlockHeight != 0 && v.BlockTime.Before(pv.BlockTime) && !pv.StabilityFee.IsZero()
		if via == "rate-update" {
			return FnRewards, v.AmountOut, pv.StabilityFee, one, stale
		}
		return FnRewards, v.AmountOut.Add(v.InterestAccumulated), pv.StabilityFee, one, stale
	case "locker":
		l, _ := e.App.LockerKeeper.GetLocker(e.Ctx, id)
		c, _ := e.App.CollectorKeeper.GetCollectorLookupTable(e.Ctx, app, f.debt)
		stale := l.BlockHeight != 0 && l.BlockTime.Before(c.BlockTime) && !c.LockerSavingRate.IsZero()
		return FnRewards, l.NetBalance, c.LockerSavingRate, one, stale
	case "lend":
		l, _ := e.App.LendKeeper.GetLend(e.Ctx, id)
		apr, _ := e.App.LendKeeper.GetLendAPRByAssetIDAndPoolID(e.Ctx, l.PoolID, l.AssetID)
		return FnLend, l.AmountIn.Amount, apr, l.GlobalIndex, false
	case "borrow":
		b, _ := e.App.LendKeeper.GetBorrow(e.Ctx, id)
		if b.IsStableBorrow {
			return FnStable, b.AmountOut.Amount, b.StableBorrowRate, one, false
		}
		pair, _ := e.App.LendKeeper.GetLendPair(e.Ctx, b.PairID)
		apr, _ := e.App.LendKeeper.GetBorrowAPRByAssetID(e.Ctx, pair.AssetOutPoolID, pair.AssetOut, false)
		return FnBorrow, b.AmountOut.Amount, apr, b.GlobalIndex, false
	}
	panic(kind)
}


func keeperRuns(lg *sim.Log, seed int64, runs, steps int) (int, error) {
	if runs == 0 {
		return 0, nil
	}
	f := newFixture()
	rng := sim.NewRng(seed ^ 0x5eed)
	kinds := []string{"vault", "locker", "lend", "borrow"}
	for r := 0; r < runs; r++ {
		kind := kinds[r%len(kinds)]
		// every second run of a kind is a burst: smallest principal, triggers seconds apart, so that consecutive
		// accruals stay below one base unit (only the tracker's fraction moves)
		burst := (r/len(kinds))%2 == 1
		e := f.e.Branch()
		run := fmt.Sprintf("keeper:%s:%d:%d", kind, seed, r)
		var id, app uint64
		variant := kind // how the position is created; borrow: same pool / cross-pool via transit 1 / via transit 2 / BorrowAlternate
		// the product / pool / owner state is OLDER than the position: the clock moves on before it is opened
		age := []int64{1, 6, 3600, 86400, 2629800}[rng.Intn(5)]
		older := func() {
			e.Ctx = e.Ctx.WithBlockHeight(e.Ctx.BlockHeight() + 1).WithBlockTime(e.Ctx.BlockTime().Add(time.Duration(age) * time.Second))
		}
		var rate, principal string
		var open sim.Result
		var calc func() sdk.Msg
		var reprice func(r string) error // governance-style change of the position's rate (accrues at the old rate first)
		var other func() sdk.Msg         // another message of the owner that runs the accrual on its way (vault: deposit 1 unit of collateral; locker: deposit 1 unit)
		app = f.app
		switch kind {
		case "vault":
			i := rng.Intn(len(f.extPairs))
			rate = f.fees[i]
			out := []int64{1000000, 1234567, 200000000, 999999999999}[rng.Intn(4)]
			if burst {
				out = []int64{1000000, 1234567, 200000000}[rng.Intn(3)]
			}
			principal = fmt.Sprint(out)
			older()
			open = e.Deliver(vaulttypes.NewMsgCreateRequest(f.user, f.app, f.extPairs[i], sdk.NewInt(out).MulRaw(2), sdk.NewInt(out)))
			for _, v := range e.App.VaultKeeper.GetVaults(e.Ctx) {
				id = v.Id
			}
			vid, xp := id, f.extPairs[i]
			calc = func() sdk.Msg { return vaulttypes.NewMsgVaultInterestCalcRequest(f.user, f.app, vid) }
			other = func() sdk.Msg { return vaulttypes.NewMsgDepositRequest(f.user, f.app, xp, vid, sdk.NewInt(1)) }
			reprice = func(r string) error {
				return e.App.AssetKeeper.WasmUpdatePairsVault(e.Ctx, &bindings.MsgUpdatePairsVault{AppID: f.app, ExtPairID: xp, StabilityFee: sdk.MustNewDecFromStr(r),
					ClosingFee: sdk.ZeroDec(), LiquidationPenalty: sdk.NewDecWithPrec(15, 2), DrawDownFee: sdk.NewDecWithPrec(1, 2), IsVaultActive: true,
					MinCr: sdk.NewDecWithPrec(15, 1), DebtCeiling: sdk.NewInt(1000000000000000000), DebtFloor: sdk.NewInt(1000000), MinUsdValueLeft: 1000000})
			}
		case "locker":
			i := rng.Intn(len(f.lsrApp))
			rate, app = f.lsr[i], f.lsrApp[i]
			amt := []int64{1000000, 7654321, 50000000000, 3000000000000000}[rng.Intn(4)]
			if burst {
				amt = []int64{1000000, 7654321}[rng.Intn(2)]
			}
			principal = fmt.Sprint(amt)
			older()
			open = e.Deliver(lockertypes.NewMsgCreateLockerRequest(f.user.String(), sdk.NewInt(amt), f.debt, app))
			for _, l := range e.App.LockerKeeper.GetLockers(e.Ctx) {
				id = l.LockerId
			}
			lid, lapp := id, app
			calc = func() sdk.Msg { return lockertypes.NewMsgLockerRewardCalcRequest(f.user.String(), lapp, lid) }
			other = func() sdk.Msg { return lockertypes.NewMsgDepositAssetRequest(f.user.String(), lid, sdk.NewInt(1), f.debt, lapp) }
			reprice = func(r string) error {
				return e.App.CollectorKeeper.WasmUpdateCollectorLookupTable(e.Ctx, &bindings.MsgUpdateCollectorLookupTable{AppID: lapp, AssetID: f.debt,
					DebtThreshold: sdk.NewInt(5000000), SurplusThreshold: sdk.NewInt(10000000), LotSize: sdk.NewInt(2000000), DebtLotSize: sdk.NewInt(2000000),
					BidFactor: sdk.MustNewDecFromStr("0.01"), LSR: sdk.MustNewDecFromStr(r)})
			}
		case "lend", "borrow":
			lendAmt := []int64{100000000, 123456789, 700000000000}[rng.Intn(3)]
			if burst {
				lendAmt = []int64{100000000, 123456789}[rng.Intn(2)]
			}
			stable := rng.Intn(2) == 0
			util := int64(1 + rng.Intn(9)) // borrow util/10 of what the collateral allows (ltv 0.7)
			bor := lendAmt * 7 / 10 * util / 10
			rate = fmt.Sprintf("util:%d/10,stable:%v", util, stable)
			if kind == "borrow" {
				variant = []string{"same", "x1", "x2", "alt"}[(r/len(kinds))/2%4]
			}
			fund := func(pool, asset uint64, denom string, amt int64) error {
				if res := e.Deliver(lendtypes.NewMsgFundModuleAccounts(pool, asset, f.user.String(), sdk.NewCoin(denom, sdk.NewInt(amt)))); !res.OK {
					return fmt.Errorf("fund pool %d %s: %s", pool, denom, res.Err)
				}
				return nil
			}
			id = 1
			principal = fmt.Sprint(lendAmt)
			switch variant {
			case "x1", "x2":
				// cross-pool: A is lent in pool 1, D is borrowed from pool 2; the collateral value is bridged through the first
				// transit asset (B) when pool 1 holds enough of it, otherwise through the second (C)
				bor = lendAmt * 49 / 100 * util / 10
				tr, td := f.lendB, "ulendb"
				if variant == "x2" {
					tr, td = f.lendC, "ulendc"
				}
				if err := fund(f.lendPool, tr, td, lendAmt); err != nil {
					return 0, err
				}
				if err := fund(f.pool2, f.lendD, "ulendd", lendAmt*2); err != nil {
					return 0, err
				}
				open = e.Deliver(lendtypes.NewMsgLend(f.user.String(), f.lendA, sdk.NewCoin("ulenda", sdk.NewInt(lendAmt)), f.lendPool, f.lendApp))
				if open.OK {
					older() // the lend position was last touched in an earlier block than the borrow
					open = e.Deliver(lendtypes.NewMsgBorrow(f.user.String(), 1, f.pairAD, stable, sdk.NewCoin("uclenda", sdk.NewInt(lendAmt)), sdk.NewCoin("ulendd", sdk.NewInt(bor))))
					principal = fmt.Sprint(bor)
				}
			case "alt":
				if err := fund(f.lendPool, f.lendB, "ulendb", lendAmt*2); err != nil {
					return 0, err
				}
				older()
				open = e.Deliver(lendtypes.NewMsgBorrowAlternate(f.user.String(), f.lendA, f.lendPool, sdk.NewCoin("ulenda", sdk.NewInt(lendAmt)), f.pairAB, stable,
					sdk.NewCoin("ulendb", sdk.NewInt(bor)), f.lendApp))
				principal = fmt.Sprint(bor)
			default:
				// liquidity of the borrowed asset + the user's own lend position
				if err := fund(f.lendPool, f.lendB, "ulendb", lendAmt*2); err != nil {
					return 0, err
				}
				if kind == "lend" {
					older()
				}
				open = e.Deliver(lendtypes.NewMsgLend(f.user.String(), f.lendA, sdk.NewCoin("ulenda", sdk.NewInt(lendAmt)), f.lendPool, f.lendApp))
				if open.OK && kind == "borrow" {
					older()
					open = e.Deliver(lendtypes.NewMsgBorrow(f.user.String(), 1, f.pairAB, stable, sdk.NewCoin("uclenda", sdk.NewInt(lendAmt)), sdk.NewCoin("ulendb", sdk.NewInt(bor))))
					principal = fmt.Sprint(bor)
				}
			}
			if open.OK && kind == "lend" {
				// somebody has to borrow the lent asset for the lend APR to be positive: a second position lends B and borrows A
				if res := e.Deliver(lendtypes.NewMsgLend(f.user.String(), f.lendB, sdk.NewCoin("ulendb", sdk.NewInt(lendAmt)), f.lendPool, f.lendApp)); !res.OK {
					open = res
				} else if res := e.Deliver(lendtypes.NewMsgBorrow(f.user.String(), 2, f.pairBA, stable, sdk.NewCoin("uclendb", sdk.NewInt(lendAmt)), sdk.NewCoin("ulenda", sdk.NewInt(bor)))); !res.OK {
					open = res
				}
			}
			calc = func() sdk.Msg { return lendtypes.NewMsgCalculateInterestAndRewards(f.user.String()) }
		}
		bridged := "" // cross-pool borrows: the transit asset the code actually bridged through (from the stored position)
		if kind == "borrow" {
			if b, ok := e.App.LendKeeper.GetBorrow(e.Ctx, id); ok && b.BridgedAssetAmount.Amount.IsPositive() {
				bridged = b.BridgedAssetAmount.Denom
			}
		}
		p := f.project(e, kind, app, id)
		par := lg.Add(0, run, "Open", map[string]interface{}{"kind": kind, "variant": variant, "bridged": bridged, "age": age, "rate": rate, "principal": principal, "dt": 0, "burst": burst},
			map[string]interface{}{"ok": open.OK, "err": open.Err}, p)
		if !open.OK || !p.Found {
			continue
		}
		// epoch = maximal sequence of consecutive triggers that accrue on the same principal at the same rate; T = time
		// elapsed in the epoch, k = triggers in it. The real accrual function is evaluated once for (principal, rate, T):
		// the single accrual that the triggers of the epoch together must not exceed (judged by TLC, not here).
		var epP, epR, epFn string
		var epT, epK int64
		for s := 0; s < steps; s++ {
			dt := gaps[rng.Intn(len(gaps))]
			if rng.Intn(4) == 0 {
				dt = int64(rng.Intn(100000))
			}
			if burst {
				dt = burstGaps[rng.Intn(len(burstGaps))]
			}
			if s == 0 && (burst || rng.Intn(3) == 0) {
				dt = 0 // a trigger at the creation time of the position: nothing can have accrued yet
			}
			e.Ctx = e.Ctx.WithBlockHeight(e.Ctx.BlockHeight() + 1).WithBlockTime(e.Ctx.BlockTime().Add(time.Duration(dt) * time.Second))
			var res sim.Result
			via := "msg"
			odds := 6
			if burst {
				odds = 12
			}
			switch x := rng.Intn(odds); {
			case x == 0 && reprice != nil:
				via = "rate-update"
			case x == 1 && other != nil:
				via = "deposit"
			}
			fn, fP, fR, fIdx, stale := f.inForceX(e, kind, via, app, id)
			if fn == epFn && fP.String() == epP && fR.String() == epR && epT <= epochMax-dt {
				epT, epK = epT+dt, epK+1
			} else {
				// first trigger on this (function, principal, rate): it settles whatever was pending; the state after it is
				// the base line of the epoch, T and k count what follows
				epFn, epP, epR, epT, epK = fn, fP.String(), fR.String(), 0, 0
			}
			// ceil(1 / stored index): a unit in the last stored place of the index weighs this much in the index factor
			iv := big.NewInt(1)
			if fIdx.IsPositive() {
				q, m := new(big.Int).QuoRem(sdk.OneDec().BigInt(), fIdx.BigInt(), new(big.Int))
				if m.Sign() != 0 {
					q.Add(q, big.NewInt(1))
				}
				if q.Sign() > 0 {
					iv = q
				}
			}
			switch via {
			case "rate-update":
				// the rate of the product is changed: every position first accrues at the old rate up to now
				nr := []string{"0", "0.001", "0.02", "0.1", "0.5"}[rng.Intn(5)]
				res = func() (r sim.Result) {
					old := e.Ctx
					defer func() {
						e.Ctx = old
						if x := recover(); x != nil {
							r = sim.Result{OK: false, Panic: true, Err: fmt.Sprint(x)}
						}
					}()
					c, write := e.Ctx.CacheContext()
					e.Ctx = c
					err := reprice(nr)
					if err != nil {
						return sim.Result{OK: false, Err: err.Error()}
					}
					write()
					return sim.Result{OK: true}
				}()
				if res.OK {
					rate = nr
				}
			case "deposit":
				res = e.Deliver(other())
			default:
				res = e.Deliver(calc())
			}
			single, _ := evalFn(e, fn, fP, fR, epT, sdk.OneDec())
			single0, _ := evalFn(e, fn, fP, fR, dt, sdk.OneDec()) // one accrual over the time since the previous trigger
			p = f.project(e, kind, app, id)
			par = lg.Add(par, run, "Accrue",
				map[string]interface{}{"kind": kind, "variant": variant, "via": via, "rate": rate, "principal": principal, "dt": dt, "burst": burst,
					"fn": fn, "P": epP, "PL": sim.Limbs(fP.BigInt()), "r": epR, "T": epT, "k": epK,
					"idxL": sim.Limbs(fIdx.BigInt()), "ivL": sim.Limbs(iv), "stale": stale},
				map[string]interface{}{"ok": res.OK, "err": res.Err, "panic": res.Panic},
				map[string]interface{}{"debtL": p.DebtL, "frac": p.Frac, "found": p.Found, "single": single, "single0": single0})
		}
	}
	return 0, nil
}
