package rates

import (
	"encoding/json"
	"fmt"
	"math/big"

	sdk "github.com/cosmos/cosmos-sdk/types"

	"vh/sim"
)

// one argument point of an accrual evaluation (spec/rates/Accrual.tla)
type apt struct {
	P  string `json:"P"`
	R  string `json:"r"`
	Rn int64  `json:"rn"` // r = rn/rd when the grid gives the rate as a small fraction; rd = 0: no fraction known
	Rd int64  `json:"rd"`
	T  int64  `json:"t"`
}

type accVec struct {
	A    string `json:"a"`
	Fn   string `json:"fn"`
	Kind string `json:"kind"`
	Lo   apt    `json:"lo"`
	Hi   apt    `json:"hi"`
	Pt   apt    `json:"pt"`
	T1   int64  `json:"t1"`
	T2   int64  `json:"t2"`
}

func (a apt) vals() (sdk.Int, sdk.Dec) {
	p, ok := sdk.NewIntFromString(a.P)
	if !ok {
		panic("bad principal " + a.P)
	}
	return p, sdk.MustNewDecFromStr(a.R)
}

func (a apt) rec() map[string]interface{} {
	p, r := a.vals()
	return map[string]interface{}{"P": a.P, "PL": sim.Limbs(p.BigInt()), "r": a.R, "rL": sim.Limbs(r.BigInt()), "rn": a.Rn, "rd": a.Rd, "t": a.T}
}

var indexes = []string{"1", "1", "1.000000000000000001", "1.234567890123456789", "2.5", "17.000000000000000003"}

func usesIndex(fn string) bool { return fn == FnLend || fn == FnBorrow || fn == FnReserve }

func pickIdx(rng *sim.Rng, fn string) sdk.Dec {
	if !usesIndex(fn) {
		return sdk.OneDec()
	}
	return sdk.MustNewDecFromStr(indexes[rng.Intn(len(indexes))])
}

func logMono(lg *sim.Log, e *sim.Env, run, fn, kind string, lo, hi apt, idx sdk.Dec) {
	pl, rl := lo.vals()
	ph, rh := hi.vals()
	vlo, _ := evalFn(e, fn, pl, rl, lo.T, idx)
	vhi, _ := evalFn(e, fn, ph, rh, hi.T, idx)
	lg.Add(0, run, "Mono", map[string]interface{}{"fn": fn, "kind": kind, "idx": idx.String(), "lo": lo.rec(), "hi": hi.rec()},
		nil, map[string]interface{}{"lo": vlo, "hi": vhi})
}

// two consecutive accruals on the same principal (the index stored after the first one feeds the second, as in
// the keepers) against one accrual over the combined interval
func logSplit(lg *sim.Log, e *sim.Env, run, fn string, pt apt, t1, t2 int64, idx sdk.Dec) {
	p, r := pt.vals()
	f1, i1 := evalFn(e, fn, p, r, t1, idx)
	f2, _ := evalFn(e, fn, p, r, t2, i1)
	f12, _ := evalFn(e, fn, p, r, t1+t2, idx)
	args := pt.rec()
	args["fn"], args["idx"], args["t1"], args["t2"] = fn, idx.String(), t1, t2
	delete(args, "t")
	lg.Add(0, run, "SubAdd", args, nil, map[string]interface{}{"f1": f1, "f2": f2, "f12": f12})
}

func randDecStr(rng *sim.Rng) string {
	// rates of the statement's range [0, 10]; the float path is exercised from 0.001 upwards (DESIGN section 5)
	switch rng.Intn(8) {
	case 0:
		return "0"
	case 1:
		return "10"
	case 2:
		return fmt.Sprintf("0.%03d", 1+rng.Intn(999))
	case 3:
		return fmt.Sprintf("%d.%018d", rng.Intn(10), rng.Int63n(1000000000000000000))
	default:
		return fmt.Sprintf("0.%018d", 1000000000000000+rng.Int63n(999000000000000000))
	}
}

func randP(rng *sim.Rng) string {
	switch rng.Intn(6) {
	case 0:
		return fmt.Sprint(rng.Intn(1000))
	case 1:
		return "9223372036854775807"
	case 2:
		return fmt.Sprint(9000000000000000000 + rng.Int63n(223372036854775807))
	default:
		d := 1 + rng.Intn(18)
		return new(big.Int).Rand(rng.Rand, new(big.Int).Exp(big.NewInt(10), big.NewInt(int64(d)), nil)).String()
	}
}

func randT(rng *sim.Rng) int64 {
	switch rng.Intn(6) {
	case 0:
		return int64(rng.Intn(10))
	case 1:
		return int64(rng.Intn(100000))
	case 2:
		return 31557600 * int64(1+rng.Intn(30))
	default:
		d := 1 + rng.Intn(9)
		m := int64(1)
		for i := 0; i < d; i++ {
			m *= 10
		}
		return rng.Int63n(m)
	}
}

func decLess(a, b string) bool { return sdk.MustNewDecFromStr(a).LT(sdk.MustNewDecFromStr(b)) }
func intLess(a, b string) bool {
	x, _ := sdk.NewIntFromString(a)
	y, _ := sdk.NewIntFromString(b)
	return x.LT(y)
}

func accrual(lg *sim.Log, vectors string, seed int64, runs int) (int, error) {
	e := sim.New(nil)
	rng := sim.NewRng(seed)
	n := 0
	if vectors != "" {
		err := readVectors(vectors, func(js string) error {
			var v accVec
			if err := json.Unmarshal([]byte(js), &v); err != nil {
				return fmt.Errorf("bad vector %q: %v", js, err)
			}
			switch v.A {
			case "Mono":
				logMono(lg, e, "grid", v.Fn, v.Kind, v.Lo, v.Hi, pickIdx(rng, v.Fn))
			case "SubAdd":
				logSplit(lg, e, "grid", v.Fn, v.Pt, v.T1, v.T2, pickIdx(rng, v.Fn))
			default:
				return nil
			}
			n++
			return nil
		})
		if err != nil {
			return 0, err
		}
	}
	// seeded off-grid chains: one argument raised per step, and random splits
	const tmax = int64(1893456000)
	for r := 0; r < runs; r++ {
		for _, fn := range Fns {
			run := fmt.Sprintf("seed:%d:%d", seed, r)
			idx := pickIdx(rng, fn)
			cur := apt{P: randP(rng), R: randDecStr(rng), T: randT(rng)}
			for k := 0; k < 12; k++ {
				nx := cur
				kind := []string{"t", "P", "r"}[rng.Intn(3)]
				switch kind {
				case "t":
					nx.T = randT(rng)
					if nx.T < cur.T {
						cur.T, nx.T = nx.T, cur.T
					}
				case "P":
					nx.P = randP(rng)
					if intLess(nx.P, cur.P) {
						cur.P, nx.P = nx.P, cur.P
					}
				case "r":
					nx.R = randDecStr(rng)
					if decLess(nx.R, cur.R) {
						cur.R, nx.R = nx.R, cur.R
					}
				}
				logMono(lg, e, run, fn, kind, cur, nx, idx)
				cur = nx
			}
			for k := 0; k < 12; k++ {
				pt := apt{P: randP(rng), R: randDecStr(rng)}
				t1, t2 := randT(rng), randT(rng)
				if rng.Intn(3) == 0 {
					t2 = int64(1 + rng.Intn(10)) // a short second interval: frequent triggering
				}
				if fn == FnRewards && pt.R != "0" {
					// measured domain of the float-path finding: elapsed times of at least one second
					if t1 == 0 {
						t1 = 1
					}
					if t2 == 0 {
						t2 = 1
					}
				}
				if t1+t2 > tmax {
					t1 /= 4
					t2 /= 4
				}
				logSplit(lg, e, run, fn, pt, t1, t2, idx)
			}
		}
	}
	return n, nil
}
