package rates

import (
	"bufio"
	"encoding/json"
	"fmt"
	"os"
	"sort"

	sdk "github.com/cosmos/cosmos-sdk/types"

	assettypes "github.com/comdex-official/comdex/x/asset/types"
	"github.com/comdex-official/comdex/x/lend"
	lendtypes "github.com/comdex-official/comdex/x/lend/types"

	"vh/sim"
)

// params of the rate model in permille (spec/rates/Rates.tla)
type ratep struct {
	Uopt  int64 `json:"uopt"`
	Base  int64 `json:"base"`
	S1    int64 `json:"s1"`
	S2    int64 `json:"s2"`
	Sbase int64 `json:"sbase"`
	Ss1   int64 `json:"ss1"`
	Ss2   int64 `json:"ss2"`
	Rf    int64 `json:"rf"`
}

type rateVec struct {
	A   string `json:"a"`
	P   ratep  `json:"p"`
	Un  int64  `json:"un"`
	Ud  int64  `json:"ud"`
	Adm bool   `json:"adm"`
}

func permille(x int64) sdk.Dec { return sdk.NewDecWithPrec(x, 3) }

func addAsset(e *sim.Env, name, denom string, dec int64) uint64 {
	err := e.App.AssetKeeper.AddAssetRecords(e.Ctx, assettypes.Asset{Name: name, Denom: denom, Decimals: sdk.NewInt(dec),
		IsOnChain: true, IsOraclePriceRequired: true, IsCdpMintable: true})
	if err != nil {
		panic(err)
	}
	for _, a := range e.App.AssetKeeper.GetAssets(e.Ctx) {
		if a.Denom == denom {
			return a.Id
		}
	}
	panic("asset not found")
}

// call records one keeper call: value (|v| * 10^18 limbs + sign), error and panic flags.
func call(f func() (sdk.Dec, error)) (v val) {
	defer func() {
		if x := recover(); x != nil {
			v = val{Panic: true, VL: []int64{}, S: fmt.Sprint(x)}
		}
	}()
	d, err := f()
	if err != nil {
		return val{Err: true, VL: []int64{}, S: err.Error()}
	}
	return decVal(d)
}

func readVectors(path string, each func(js string) error) error {
	f, err := os.Open(path)
	if err != nil {
		return err
	}
	defer f.Close()
	sc := bufio.NewScanner(f)
	sc.Buffer(make([]byte, 1<<20), 1<<26)
	for sc.Scan() {
		js := sim.TLCJSON(sc.Text())
		if js == "" {
			continue
		}
		if err := each(js); err != nil {
			return err
		}
	}
	return sc.Err()
}

// curve executes every transition of MC_Rates on the real keeper. One chain per parameter set, utilisation
// increasing along the chain; the parameter set goes through the real admission path (proposal ValidateBasic +
// the lend module's governance handler).
func curve(lg *sim.Log, vectors string, seed int64) (int, error) {
	chains := map[ratep][]rateVec{}
	var order []ratep
	n := 0
	err := readVectors(vectors, func(js string) error {
		var v rateVec
		if err := json.Unmarshal([]byte(js), &v); err != nil {
			return fmt.Errorf("bad vector %q: %v", js, err)
		}
		if v.A != "Rate" {
			return nil
		}
		if _, ok := chains[v.P]; !ok {
			order = append(order, v.P)
		}
		chains[v.P] = append(chains[v.P], v)
		n++
		return nil
	})
	if err != nil {
		return 0, err
	}
	rng := sim.NewRng(seed)
	e0 := sim.New(nil)
	asset := addAsset(e0, "AAA", "uaaa", 1000000)
	casset := addAsset(e0, "CAAA", "ucaaa", 1000000)
	if err := e0.App.LendKeeper.AddPoolRecords(e0.Ctx, lendtypes.Pool{ModuleName: lendtypes.ModuleAcc1, CPoolName: "AAA-POOL",
		AssetData: []*lendtypes.AssetDataPoolMapping{{AssetID: asset, AssetTransitType: 1, SupplyCap: sdk.NewDec(5000000000000000000)}}}); err != nil {
		return 0, err
	}
	const pool = uint64(1)
	scales := []int64{1, 7, 1000, 1000000, 999983, 1000000000000, 4611686018427387}
	gov := lend.NewLendHandler(e0.App.LendKeeper)
	for ci, p := range order {
		vs := chains[p]
		sort.Slice(vs, func(i, j int) bool { return vs[i].Un < vs[j].Un })
		e := e0.Branch()
		run := fmt.Sprintf("curve:%d", ci)
		prm := lendtypes.AssetRatesParams{AssetID: asset, UOptimal: permille(p.Uopt), Base: permille(p.Base), Slope1: permille(p.S1), Slope2: permille(p.S2),
			EnableStableBorrow: true, StableBase: permille(p.Sbase), StableSlope1: permille(p.Ss1), StableSlope2: permille(p.Ss2),
			Ltv: permille(700), LiquidationThreshold: permille(750), LiquidationPenalty: permille(50), LiquidationBonus: permille(50),
			ReserveFactor: permille(p.Rf), CAssetID: casset}
		content := lendtypes.NewAddassetRatesParams("rates", "rate model parameters", prm)
		admitted, reason := true, ""
		if err := content.ValidateBasic(); err != nil {
			admitted, reason = false, err.Error()
		} else if err := gov(e.Ctx, content); err != nil {
			admitted, reason = false, err.Error()
		}
		par := lg.Add(0, run, "Params", map[string]interface{}{"p": p, "ud": vs[0].Ud}, map[string]interface{}{"reason": reason},
			map[string]interface{}{"admitted": admitted})
		k := scales[rng.Intn(len(scales))]
		split := int64(rng.Intn(5)) // share of the borrowed amount booked as stable borrow: split/4
		for _, v := range vs {
			// realise U = un/ud: borrowed = un*k (variable + stable), idle pool balance = (ud-un)*k
			b := e.Branch()
			borrowed := sdk.NewInt(v.Un).MulRaw(k)
			idle := sdk.NewInt(v.Ud - v.Un).MulRaw(k)
			stable := borrowed.MulRaw(split).QuoRaw(4)
			st, _ := b.App.LendKeeper.GetAssetStatsByPoolIDAndAssetID(b.Ctx, pool, asset)
			st.TotalBorrowed = borrowed.Sub(stable)
			st.TotalStableBorrowed = stable
			b.App.LendKeeper.SetAssetStatsByPoolIDAndAssetID(b.Ctx, st)
			if idle.IsPositive() {
				c := sdk.NewCoins(sdk.NewCoin("uaaa", idle))
				if err := b.App.BankKeeper.MintCoins(b.Ctx, "vaultV1", c); err != nil {
					return 0, err
				}
				if err := b.App.BankKeeper.SendCoinsFromModuleToModule(b.Ctx, "vaultV1", lendtypes.ModuleAcc1, c); err != nil {
					return 0, err
				}
			}
			lk := b.App.LendKeeper
			u := call(func() (sdk.Dec, error) { return lk.GetUtilisationRatioByPoolIDAndAssetID(b.Ctx, pool, asset) })
			bor := call(func() (sdk.Dec, error) { return lk.GetBorrowAPRByAssetID(b.Ctx, pool, asset, false) })
			stb := call(func() (sdk.Dec, error) { return lk.GetBorrowAPRByAssetID(b.Ctx, pool, asset, true) })
			len_ := call(func() (sdk.Dec, error) { return lk.GetLendAPRByAssetIDAndPoolID(b.Ctx, pool, asset) })
			par = lg.Add(par, run, "Rate",
				map[string]interface{}{"p": p, "un": v.Un, "ud": v.Ud, "idle": v.Ud - v.Un, "k": fmt.Sprint(k), "split": split},
				nil,
				map[string]interface{}{"admitted": admitted, "util": u, "borrow": bor, "stable": stb, "lend": len_})
		}
	}
	return n, nil
}
