package rates

import (
	"fmt"
	"math/big"
	"time"

	sdk "github.com/cosmos/cosmos-sdk/types"

	lendtypes "github.com/comdex-official/comdex/x/lend/types"

	"vh/sim"
)

// T0 is the "last interaction" instant of every pure-function evaluation; the block time is T0 + t.
var T0 = time.Date(2024, 3, 1, 12, 0, 0, 0, time.UTC)

// The four accrual functions of the anchored code (plus the reserve share computed by CalculateBorrowInterest).
const (
	FnRewards = "CalculationOfRewards"       // x/rewards/keeper/iter.go   (float64 math.Pow; vault stability fee, locker savings)
	FnLend    = "CalculateLendReward"        // x/lend/keeper/iter.go      (sdk.Dec index path)
	FnBorrow  = "CalculateBorrowInterest"    // x/lend/keeper/iter.go      (sdk.Dec index path)
	FnReserve = "CalculateBorrowInterest.rp" // the reserve-pool share returned by the same call
	FnStable  = "CalculateStableInterest"    // x/lend/keeper/iter.go      (sdk.Dec, rate fixed in the position)
)

var Fns = []string{FnRewards, FnLend, FnBorrow, FnReserve, FnStable}

// val is one recorded return value: sign + |value| * 10^18 as limbs. Nothing is judged here.
type val struct {
	Neg   bool    `json:"neg"`
	VL    []int64 `json:"vL"`
	Err   bool    `json:"err"`
	Panic bool    `json:"panic"`
	S     string  `json:"s"` // decimal string (diagnostics only)
}

func decVal(d sdk.Dec) val {
	b := d.BigInt() // value * 10^18
	v := val{Neg: b.Sign() < 0, S: d.String()}
	v.VL = sim.Limbs(new(big.Int).Abs(b))
	return v
}

// evalFn calls the real function with principal P, yearly rate r, elapsed seconds t and (index path) stored
// global index idx. It returns the accrued amount and the index the code would store afterwards.
func evalFn(e *sim.Env, fn string, P sdk.Int, r sdk.Dec, t int64, idx sdk.Dec) (out val, next sdk.Dec) {
	ctx := e.Ctx.WithBlockTime(T0.Add(time.Duration(t) * time.Second))
	next = idx
	defer func() {
		if x := recover(); x != nil {
			out = val{Panic: true, VL: []int64{}, S: fmt.Sprint(x)}
		}
	}()
	switch fn {
	case FnRewards:
		d, err := e.App.Rewardskeeper.CalculationOfRewards(ctx, P, r, T0.Unix())
		if err != nil {
			return val{Err: true, VL: []int64{}, S: err.Error()}, next
		}
		return decVal(d), next
	case FnLend:
		d, ni, err := e.App.LendKeeper.CalculateLendReward(ctx, P.String(), r, lendtypes.LendAsset{LastInteractionTime: T0, GlobalIndex: idx})
		if err != nil {
			return val{Err: true, VL: []int64{}, S: err.Error()}, next
		}
		return decVal(d), ni
	case FnBorrow, FnReserve:
		b := lendtypes.BorrowAsset{LastInteractionTime: T0, GlobalIndex: idx, ReserveGlobalIndex: idx}
		var d, ni, rp, rni sdk.Dec
		var err error
		if fn == FnBorrow {
			d, ni, _, _, err = e.App.LendKeeper.CalculateBorrowInterest(ctx, P.String(), r, sdk.ZeroDec(), b)
		} else {
			_, _, rp, rni, err = e.App.LendKeeper.CalculateBorrowInterest(ctx, P.String(), sdk.ZeroDec(), r, b)
			d, ni = rp, rni
		}
		if err != nil {
			return val{Err: true, VL: []int64{}, S: err.Error()}, next
		}
		return decVal(d), ni
	case FnStable:
		d, err := e.App.LendKeeper.CalculateStableInterest(ctx, P.String(), lendtypes.BorrowAsset{LastInteractionTime: T0, StableBorrowRate: r})
		if err != nil {
			return val{Err: true, VL: []int64{}, S: err.Error()}, next
		}
		return decVal(d), next
	}
	panic("unknown fn " + fn)
}
