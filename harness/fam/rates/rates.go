// Package rates binds spec/rates/{Rates,Accrual}.tla to the real accrual and rate-model code (C18).
//
//	--mode curve   : every transition of MC_Rates (parameter set x utilisation point) is executed on the real
//	                 lend keeper (GetUtilisationRatio / GetBorrowAPR variable+stable / GetLendAPR), chained per
//	                 parameter set in increasing utilisation;
//	--mode accrual : every transition of MC_Accrual (neighbouring grid points: one argument increased; split
//	                 intervals) is evaluated on the real accrual functions, plus seeded off-grid pairs/splits;
//	--mode keeper  : real positions (vault, locker, lend, borrow) accrue through the message servers over
//	                 seeded time gaps including zero elapsed time.
//
// The harness only executes and records (values as sign + limbs of |v|*10^18); TLC judges (Trace_*.tla).
package rates

import (
	"flag"
	"fmt"
	"os"

	"vh/sim"
)

func Main(args []string) int {
	fs := flag.NewFlagSet("rates", flag.ExitOnError)
	mode := fs.String("mode", "curve", "curve | accrual | keeper")
	vectors := fs.String("vectors", "", "file with TLC transition lines")
	out := fs.String("out", "rates.ndjson", "output tree log")
	seed := fs.Int64("seed", 1, "seed")
	runs := fs.Int("runs", 20, "seeded runs / extra samples")
	kruns := fs.Int("kruns", 0, "accrual mode: additionally this many keeper-level position runs")
	steps := fs.Int("steps", 30, "steps per keeper run")
	fs.Parse(args)

	lg := &sim.Log{}
	var n int
	var err error
	switch *mode {
	case "curve":
		n, err = curve(lg, *vectors, *seed)
	case "accrual":
		n, err = accrual(lg, *vectors, *seed, *runs)
		if err == nil {
			_, err = keeperRuns(lg, *seed, *kruns, *steps)
		}
	case "keeper":
		n, err = keeperRuns(lg, *seed, *kruns, *steps)
	default:
		err = fmt.Errorf("unknown mode %q", *mode)
	}
	if err != nil {
		fmt.Fprintln(os.Stderr, err)
		return 2
	}
	if err := lg.Write(*out); err != nil {
		fmt.Fprintln(os.Stderr, err)
		return 2
	}
	fmt.Printf("rates %s: vectors=%d nodes=%d\n", *mode, n, len(lg.Nodes))
	return 0
}
