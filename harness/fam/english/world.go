// Package english binds spec/english/{English,LimitBid,Locker,Collector}.tla to the real keepers (C11, C13).
//
// One fixture ("world") is shared by the three sub-worlds:
//
//	A  english : surplus / debt / generic English auctions of both generations, started from the collector
//	B  limitbid: MsgDepositLimitBid / MsgCancelLimitBid / MsgWithdrawLimitBid + automatic fill by a Dutch auction
//	C  locker  : locker messages, savings rewards, fee inflows from real vault messages, liquidation penalty,
//	             surplus-fund distribution
//
// The harness only executes and records; every judgement is made by TLC on the recorded log.
package english

import (
	"fmt"
	"time"

	sdk "github.com/cosmos/cosmos-sdk/types"

	"github.com/comdex-official/comdex/app/wasm/bindings"
	assettypes "github.com/comdex-official/comdex/x/asset/types"
	auctiontypes "github.com/comdex-official/comdex/x/auction/types"
	auctionsV2types "github.com/comdex-official/comdex/x/auctionsV2/types"
	collectortypes "github.com/comdex-official/comdex/x/collector/types"
	liqV2types "github.com/comdex-official/comdex/x/liquidationsV2/types"
	lockertypes "github.com/comdex-official/comdex/x/locker/types"
	markettypes "github.com/comdex-official/comdex/x/market/types"
	tokenminttypes "github.com/comdex-official/comdex/x/tokenmint/types"
	vaulttypes "github.com/comdex-official/comdex/x/vault/types"

	"vh/sim"
)

// Asset ids of the fixture (creation order).
const (
	AssetAtom   = 1 // collateral
	AssetCmst   = 2 // stable asset, collector asset
	AssetHarbor = 3 // governance token, secondary asset
	AssetOther  = 4 // unrelated
	App1        = 2 // a decoy app is registered first: no app id equals an asset / locker / auction id by accident
	App2        = 3
)

var Denoms = map[uint64]string{AssetAtom: "uatom", AssetCmst: "ucmst", AssetHarbor: "uharbor", AssetOther: "uother"}
var DenomList = []string{"uatom", "ucmst", "uharbor", "uother"}

// Users (bidders / depositors / lockers), the external initiator and the gov-token genesis recipient.
var Users = []string{"u1", "u2", "u3"}

const (
	External = "ext"
	Treasury = "tre"
)

// Module accounts observed.
var Mods = map[string]string{
	"col":  collectortypes.ModuleName,
	"lock": lockertypes.ModuleName,
	"a1":   auctiontypes.ModuleName,
	"a2":   auctionsV2types.ModuleName,
}

// Cfg is the configuration of one behaviour family; it is logged in the Init node (args.c) and is what the
// TLA+ operators take as their configuration record.
type Cfg struct {
	L    int64  `json:"L"`    // collector LotSize (stable units)
	DL   int64  `json:"DL"`   // collector DebtLotSize (gov units)
	ST   int64  `json:"ST"`   // surplus threshold
	DT   int64  `json:"DT"`   // debt threshold
	Bf1N int64  `json:"bf1n"` // generation-1 bid factor (collector BidFactor) = bf1n/bf1d
	Bf1D int64  `json:"bf1d"`
	Bf2N int64  `json:"bf2n"` // generation-2 bid factor (auctionsV2 params) = bf2n/bf2d
	Bf2D int64  `json:"bf2d"`
	A1   int64  `json:"A1"` // generation-1 auction duration (s)
	B1   int64  `json:"B1"` // generation-1 bid duration (s)
	A2   int64  `json:"A2"` // generation-2 auction duration (s)
	Nf0  int64  `json:"nf0"`
	Sur  bool   `json:"sur"`
	Debt bool   `json:"debt"`
	Dist bool   `json:"dist"`
	Tm   bool   `json:"tm"`
	WfN  int64  `json:"wfn"` // limit-bid withdrawal fee = wfn/wfd
	WfD  int64  `json:"wfd"`
	CfN  int64  `json:"cfn"` // limit-bid closing (cancel) fee = cfn/cfd
	CfD  int64  `json:"cfd"`
	DdN  int64  `json:"ddn"` // vault draw-down fee = ddn/ddd
	DdD  int64  `json:"ddd"`
	VcN  int64  `json:"vcn"` // vault closing fee = vcn/vcd
	VcD  int64  `json:"vcd"`
	LpN  int64  `json:"lpn"` // vault liquidation penalty = lpn/lpd
	LpD  int64  `json:"lpd"`
	Lsr  string `json:"lsr"`  // locker saving rate (decimal string), "0" = none
	Sf   string `json:"sf"`   // vault stability fee (decimal string)
	Fund int64  `json:"fund"` // initial balance of every user in every denom
}

func DefaultCfg() Cfg {
	return Cfg{L: 10, DL: 20, ST: 20, DT: 30, Bf1N: 1, Bf1D: 10, Bf2N: 1, Bf2D: 5, A1: 100, B1: 30, A2: 200,
		Nf0: 45, Sur: true, Tm: true, WfN: 1, WfD: 10, CfN: 1, CfD: 5, DdN: 1, DdD: 10, VcN: 1, VcD: 20, LpN: 1, LpD: 10,
		Lsr: "0", Sf: "0", Fund: 1000}
}

func dec(n, d int64) sdk.Dec { return sdk.NewDec(n).QuoInt64(d) }

func must(err error) {
	if err != nil {
		panic(err)
	}
}

// World is a running application with the fixture installed.
type World struct {
	*sim.Env
	C Cfg
}

func (w *World) Branch() *World { return &World{Env: w.Env.Branch(), C: w.C} }

func coin(denom string, amt int64) sdk.Coin { return sdk.NewCoin(denom, sdk.NewInt(amt)) }

// mintTo mints fixture coins (module vaultV1 has the Minter permission) and moves them to a module or account.
func (w *World) mintTo(acc sdk.AccAddress, mod string, c sdk.Coin) {
	if !c.Amount.IsPositive() {
		return
	}
	must(w.App.BankKeeper.MintCoins(w.Ctx, vaulttypes.ModuleName, sdk.NewCoins(c)))
	if mod != "" {
		must(w.App.BankKeeper.SendCoinsFromModuleToModule(w.Ctx, vaulttypes.ModuleName, mod, sdk.NewCoins(c)))
	} else {
		must(w.App.BankKeeper.SendCoinsFromModuleToAccount(w.Ctx, vaulttypes.ModuleName, acc, sdk.NewCoins(c)))
	}
}

// NewWorld boots the application and installs assets, apps, pair, collector / auction / locker configuration.
func NewWorld(c Cfg) *World {
	funds := []sim.Fund{}
	for _, u := range append(append([]string{}, Users...), External, Treasury) {
		funds = append(funds, sim.Fund{Name: u})
	}
	e := sim.New(funds)
	w := &World{Env: e, C: c}
	ctx := e.Ctx
	ak := e.App.AssetKeeper

	// apps first: a decoy (id 1, never configured), then the two real apps (ids 2, 3); the gov token of each app is asset 3
	must(ak.AddAppRecords(ctx, assettypes.AppData{Name: "decoy", ShortName: "dcy", MinGovDeposit: sdk.NewInt(0), GovTimeInSeconds: 0}))
	must(ak.AddAppRecords(ctx, assettypes.AppData{Name: "harbor", ShortName: "hbr", MinGovDeposit: sdk.NewInt(0), GovTimeInSeconds: 0,
		GenesisToken: []assettypes.MintGenesisToken{{AssetId: AssetHarbor, GenesisSupply: sdk.NewInt(100000), IsGovToken: true, Recipient: sim.Addr(Treasury).String()}}}))
	must(ak.AddAppRecords(ctx, assettypes.AppData{Name: "second", ShortName: "snd", MinGovDeposit: sdk.NewInt(0), GovTimeInSeconds: 0,
		GenesisToken: []assettypes.MintGenesisToken{{AssetId: AssetHarbor, GenesisSupply: sdk.NewInt(100000), IsGovToken: true, Recipient: sim.Addr(Treasury).String()}}}))
	for _, a := range []struct {
		name, denom string
	}{{"ATOM", "uatom"}, {"CMST", "ucmst"}, {"HARBOR", "uharbor"}, {"OTHER", "uother"}} {
		must(ak.AddAssetRecords(ctx, assettypes.Asset{Name: a.name, Denom: a.denom, Decimals: sdk.NewInt(1), IsOnChain: true,
			IsOraclePriceRequired: a.denom == "uatom", IsCdpMintable: true}))
	}
	for _, u := range Users {
		for _, d := range DenomList {
			w.mintTo(sim.Addr(u), "", coin(d, c.Fund))
		}
	}
	w.mintTo(sim.Addr(External), "", coin("uatom", 10000))
	w.mintTo(sim.Addr(External), "", coin("ucmst", 10000))

	// prices: collateral 2, stable 1, gov 1 (units: the market module's 10^6 scale is irrelevant with Decimals = 1)
	e.App.BandoracleKeeper.SetOracleValidationResult(ctx, true) // otherwise market.BeginBlocker switches every price off
	w.SetPrice(AssetAtom, 2000000)
	w.SetPrice(AssetCmst, 1000000)
	w.SetPrice(AssetHarbor, 1000000)

	// pair atom -> cmst and one extended pair vault per app
	must(ak.AddPairsRecords(ctx, assettypes.Pair{AssetIn: AssetAtom, AssetOut: AssetCmst}))
	for _, app := range []uint64{App1, App2} {
		must(ak.WasmAddExtendedPairsVaultRecords(ctx, &bindings.MsgAddExtendedPairsVault{
			AppID: app, PairID: 1, StabilityFee: sdk.MustNewDecFromStr(c.Sf), ClosingFee: dec(c.VcN, c.VcD),
			LiquidationPenalty: dec(c.LpN, c.LpD), DrawDownFee: dec(c.DdN, c.DdD), IsVaultActive: true,
			DebtCeiling: sdk.NewInt(1000000), DebtFloor: sdk.NewInt(10), IsStableMintVault: false, MinCr: sdk.MustNewDecFromStr("1.5"),
			PairName: map[uint64]string{App1: "ATOM-A", App2: "ATOM-B"}[app], AssetOutOraclePrice: false, AssetOutPrice: 1000000, MinUsdValueLeft: 0}))
		must(e.App.Rewardskeeper.WhitelistAppIDVault(ctx, app))
	}

	// collector lookup + auction mapping for (app, cmst)
	ck := e.App.CollectorKeeper
	for _, app := range []uint64{App1, App2} {
		must(ck.WasmSetCollectorLookupTable(ctx, &bindings.MsgSetCollectorLookupTable{AppID: app, CollectorAssetID: AssetCmst, SecondaryAssetID: AssetHarbor,
			SurplusThreshold: sdk.NewInt(c.ST), DebtThreshold: sdk.NewInt(c.DT), LockerSavingRate: sdk.MustNewDecFromStr(c.Lsr),
			LotSize: sdk.NewInt(c.L), BidFactor: dec(c.Bf1N, c.Bf1D), DebtLotSize: sdk.NewInt(c.DL)}))
	}
	must(ck.WasmSetAuctionMappingForApp(ctx, &bindings.MsgSetAuctionMappingForApp{AppID: App1, AssetIDs: AssetCmst,
		IsSurplusAuctions: c.Sur, IsDebtAuctions: c.Debt, IsDistributor: c.Dist, AssetOutOraclePrices: false, AssetOutPrices: 1000000}))

	// generation-1 auction params (per app), generation-2 auction params (global) + liquidation whitelisting
	must(e.App.AuctionKeeper.AddAuctionParams(ctx, &bindings.MsgAddAuctionParams{AppID: App1, AuctionDurationSeconds: uint64(c.A1),
		Buffer: sdk.MustNewDecFromStr("1.2"), Cusp: sdk.MustNewDecFromStr("0.6"), Step: 1, PriceFunctionType: 1, SurplusID: 1, DebtID: 2, DutchID: 3,
		BidDurationSeconds: uint64(c.B1)}))
	e.App.NewaucKeeper.SetAuctionParams(ctx, auctionsV2types.AuctionParams{AuctionDurationSeconds: uint64(c.A2), Step: sdk.MustNewDecFromStr("0.1"),
		WithdrawalFee: dec(c.WfN, c.WfD), ClosingFee: dec(c.CfN, c.CfD), MinUsdValueLeft: 0, BidFactor: dec(c.Bf2N, c.Bf2D),
		LiquidationPenalty: sdk.MustNewDecFromStr("0.1"), AuctionBonus: sdk.ZeroDec()})
	for _, app := range []uint64{App1, App2} {
		e.App.NewliqKeeper.SetLiquidationWhiteListing(ctx, liqV2types.LiquidationWhiteListing{AppId: app, Initiator: true, IsDutchActivated: true,
			DutchAuctionParam:  &liqV2types.DutchAuctionParam{Premium: sdk.MustNewDecFromStr("1.2"), Discount: sdk.MustNewDecFromStr("0.7"), DecrementFactor: sdk.NewInt(1)},
			IsEnglishActivated: true, EnglishAuctionParam: &liqV2types.EnglishAuctionParam{DecrementFactor: sdk.NewInt(1)},
			KeeeperIncentive: sdk.ZeroDec()})
	}
	e.App.NewliqKeeper.SetParams(ctx, liqV2types.Params{LiquidationBatchSize: 200})

	// lockers: whitelist cmst for both apps, savings rewards enabled
	for _, app := range []uint64{App1, App2} {
		_, err := e.App.LockerKeeper.AddWhiteListedAsset(ctx, &lockertypes.MsgAddWhiteListedAssetRequest{From: sim.Addr(Treasury).String(), AppId: app, AssetId: AssetCmst})
		must(err)
		must(e.App.Rewardskeeper.WhitelistAssetForInternalRewards(ctx, app, AssetCmst))
	}

	// seeded net fees (root state only): coins and record enter together
	if c.Nf0 > 0 {
		w.mintTo(nil, collectortypes.ModuleName, coin("ucmst", c.Nf0))
		must(ck.SetNetFeeCollectedData(ctx, App1, AssetCmst, sdk.NewInt(c.Nf0)))
	} else if c.Nf0 == 0 {
		must(ck.SetNetFeeCollectedData(ctx, App1, AssetCmst, sdk.NewInt(0)))
	}
	if c.Tm {
		if r := w.MintGenesis(App1); !r.OK {
			panic("tokenmint: " + r.Err)
		}
	}
	return w
}

func (w *World) SetPrice(asset uint64, p uint64) {
	w.App.MarketKeeper.SetTwa(w.Ctx, markettypes.TimeWeightedAverage{AssetID: asset, ScriptID: 12, Twa: p, CurrentIndex: 0, IsPriceActive: true, PriceValue: []uint64{p}})
}

// MintGenesis = MsgMintNewTokens for the app's gov token: creates the tokenmint data the English close needs.
func (w *World) MintGenesis(app uint64) sim.Result {
	return w.Deliver(&tokenminttypes.MsgMintNewTokensRequest{From: sim.Addr(Treasury).String(), AppId: app, AssetId: AssetHarbor})
}

// T = seconds since genesis.
func (w *World) T() int64 { return int64(w.Ctx.BlockTime().Sub(sim.GenesisTime) / time.Second) }

// Block = EndBlock, advance dt seconds, full BeginBlocker (liquidationsV2 -> auctionsV2 in the real order).
func (w *World) Block(dt int64) sim.BlockResult { return w.NextBlock(time.Duration(dt) * time.Second) }

func (w *World) bal(acc sdk.AccAddress, d string) int64 { return sim.Bal(w.App, w.Ctx, acc, d) }

// Balances of users and observed module accounts in the given denoms.
func (w *World) Balances(actors []string, denoms []string) map[string]map[string]int64 {
	out := map[string]map[string]int64{}
	for _, a := range actors {
		m := map[string]int64{}
		var addr sdk.AccAddress
		if mod, ok := Mods[a]; ok {
			addr = sim.ModAddr(mod)
		} else {
			addr = sim.Addr(a)
		}
		for _, d := range denoms {
			m[d] = w.bal(addr, d)
		}
		out[a] = m
	}
	return out
}

func actorOf(addr string) string {
	for _, u := range append(append([]string{}, Users...), External, Treasury) {
		if sim.Addr(u).String() == addr {
			return u
		}
	}
	if addr == "" {
		return ""
	}
	return "?" + addr
}

func resMap(r sim.Result) map[string]interface{} {
	return map[string]interface{}{"ok": r.OK, "code": r.Code, "err": trunc(r.Err, 120), "panic": r.Panic}
}

func trunc(s string, n int) string {
	if len(s) > n {
		return s[:n]
	}
	return s
}

func sprintf(f string, a ...interface{}) string { return fmt.Sprintf(f, a...) }
