package english

import (
	"encoding/json"
	"fmt"
	"strings"

	"vh/sim"
)

// Ev: what happened to the auction list in this step (labels for known-finding keys and statistics; derived
// from the recorded pre/post states only).
type Ev struct {
	Started  string `json:"started"`  // "gen:kind" of auctions that appeared
	Closed   string `json:"closed"`   // "gen:kind" of auctions with a standing bid that disappeared
	Stuck    string `json:"stuck"`    // live auctions with a standing bid whose end time has passed
	CS2      bool   `json:"cs2"`      // a generation-2 surplus auction was closed in this step
	CD2      bool   `json:"cd2"`      // a generation-2 debt auction was closed in this step
	ColShort bool   `json:"colShort"` // a stuck generation-2 surplus auction whose lot the collector's custody no longer covers
}

type NodeA struct {
	StA
	Root int `json:"root"`
	Ev   Ev  `json:"ev"`
}

func aucKey(a Auc) string { return fmt.Sprintf("%d/%d", a.Gen, a.ID) }

func events(pre, post StA) Ev {
	var st, cl, sk []string
	cs2, cd2, colShort := false, false, false
	pm, qm := map[string]Auc{}, map[string]Auc{}
	for _, a := range pre.Auc {
		pm[aucKey(a)] = a
	}
	for _, a := range post.Auc {
		qm[aucKey(a)] = a
		if _, ok := pm[aucKey(a)]; !ok {
			st = append(st, fmt.Sprintf("%d:%s", a.Gen, a.Kind))
		}
		if a.NB > 0 && (post.T > a.EndT || post.T > a.BidEndT) {
			sk = append(sk, fmt.Sprintf("%d:%s", a.Gen, a.Kind))
			if a.Gen == 2 && a.Kind == "surplus" && post.Bal["col"][a.LotD] < a.Lot {
				colShort = true
			}
		}
	}
	for _, a := range pre.Auc {
		if _, ok := qm[aucKey(a)]; !ok {
			cl = append(cl, fmt.Sprintf("%d:%s", a.Gen, a.Kind))
			if a.Gen == 2 && a.Kind == "surplus" {
				cs2 = true
			}
			if a.Gen == 2 && a.Kind == "debt" {
				cd2 = true
			}
		}
	}
	return Ev{Started: strings.Join(st, ","), Closed: strings.Join(cl, ","), Stuck: strings.Join(sk, ","), CS2: cs2, CD2: cd2, ColShort: colShort}
}

type runnerA struct {
	lg  *sim.Log
	run string
}

func (r *runnerA) preOf(parent int) StA { return r.lg.Nodes[parent-1].St.(NodeA).StA }

func (r *runnerA) add(w *World, parent int, a string, args map[string]interface{}, res map[string]interface{}) int {
	st := w.ProjectA()
	n := NodeA{StA: st}
	if parent == 0 {
		n.Root = len(r.lg.Nodes) + 1
	} else {
		p := r.lg.Nodes[parent-1].St.(NodeA)
		n.Root = p.Root
		n.Ev = events(p.StA, st)
	}
	if res == nil {
		res = map[string]interface{}{"ok": true}
	}
	return r.lg.Add(parent, r.run, a, args, res, n)
}

// execA executes one action of English.tla on the real application and logs the node.
func (r *runnerA) execA(w *World, parent int, a string, args map[string]interface{}) int {
	var res map[string]interface{}
	switch a {
	case "BidV1Surplus":
		res = resMap(w.BidV1Surplus(argS(args, "u"), argI(args, "id"), argI(args, "amt"), argS(args, "denom")))
	case "BidV1Debt":
		res = resMap(w.BidV1Debt(argS(args, "u"), argI(args, "id"), argI(args, "amt"), argS(args, "denom"), argI(args, "exp"), argS(args, "expDenom")))
	case "BidV2":
		res = resMap(w.BidV2(argS(args, "u"), argI(args, "id"), argI(args, "amt"), argS(args, "denom")))
	case "HookV1":
		p, ps := w.HookV1()
		res = map[string]interface{}{"ok": !p, "panic": p, "err": trunc(ps, 120)}
	case "Block":
		br := w.Block(argI(args, "dt"))
		res = map[string]interface{}{"ok": !br.Panic, "panic": br.Panic, "err": trunc(br.Err, 120)}
	case "Advance":
		w.Time = w.Time.Add(secDur(argI(args, "dt")))
		w.Height++
		w.Ctx = w.Ctx.WithBlockTime(w.Time).WithBlockHeight(w.Height)
	case "StartGeneric":
		err := w.StartGeneric(argI(args, "lot"), argI(args, "minBid"))
		res = map[string]interface{}{"ok": err == nil, "err": errStr(err)}
	case "MintGenesis":
		res = resMap(w.MintGenesis(App1))
	case "EsmOn":
		w.EsmOn()
	case "SeedFees":
		w.SeedFees(argI(args, "x"))
	case "SurplusFund":
		ok, amt, e := w.SurplusFund()
		res = map[string]interface{}{"ok": ok, "amt": amt, "err": trunc(e, 120)}
	default:
		panic("unknown action " + a)
	}
	return r.add(w, parent, a, args, res)
}

func errStr(err error) string {
	if err == nil {
		return ""
	}
	return trunc(err.Error(), 120)
}

func cfgArgs(c Cfg) map[string]interface{} {
	var m map[string]interface{}
	b, _ := json.Marshal(c)
	_ = json.Unmarshal(b, &m)
	return map[string]interface{}{"c": m}
}

// cfgFromInit builds the fixture configuration from the Init line of an MC_English run.
func cfgFromInit(args map[string]interface{}) Cfg {
	c := DefaultCfg()
	if m, ok := args["c"].(map[string]interface{}); ok {
		b, _ := json.Marshal(m)
		_ = json.Unmarshal(b, &c)
	}
	c.Nf0, c.Fund = argI(args, "nf0"), argI(args, "fund")
	c.Sur, c.Debt, c.Dist, c.Tm = argB(args, "sur"), argB(args, "debt"), argB(args, "dist"), argB(args, "tm")
	return c
}

// WalkA executes the transition graphs of MC_English on the real application.
func WalkA(lg *sim.Log, graphs []*Graph) (edges int) {
	for gi, g := range graphs {
		c := cfgFromInit(g.Init.Args)
		w := NewWorld(c)
		r := &runnerA{lg: lg, run: fmt.Sprintf("walk:%d", gi)}
		root := r.add(w, 0, "Init", cfgArgs(c), nil)
		wk := &Walker{Lg: lg, Run: r.run, Exec: func(b *World, parent int, e Edge) int { return r.execA(b, parent, e.A, e.Args) }}
		wk.Walk(w, root, g)
		edges += wk.Edges
	}
	return
}

// DriveA: seeded behaviours with richer configurations than the exhaustive model: three bidders, both
// generations interleaved, fee income between auctions, token-mint data appearing late, every allowed
// combination of the mapping flags, boundary bid amounts computed from the live auction.
func DriveA(lg *sim.Log, seed int64, runs, steps int) {
	rng := sim.NewRng(seed*7919 + 11)
	flagSets := [][3]bool{{true, false, false}, {false, true, false}, {false, false, true}, {false, true, true}, {false, false, false}}
	for k := 0; k < runs; k++ {
		c := DefaultCfg()
		c.L = rng.PickI64([]int64{5, 10, 12})
		c.DL = rng.PickI64([]int64{8, 20, 33})
		c.ST = rng.PickI64([]int64{0, 15, 20})
		c.DT = c.L + rng.PickI64([]int64{5, 20, 30})
		f := [][2]int64{{1, 10}, {1, 5}, {1, 2}, {0, 1}, {3, 100}}
		x := f[rng.Pick(len(f))]
		c.Bf1N, c.Bf1D = x[0], x[1]
		x = f[rng.Pick(len(f))]
		c.Bf2N, c.Bf2D = x[0], x[1]
		c.A1, c.B1, c.A2 = rng.PickI64([]int64{60, 100}), rng.PickI64([]int64{10, 30, 100}), rng.PickI64([]int64{50, 200})
		fs := flagSets[rng.Pick(len(flagSets))]
		c.Sur, c.Debt, c.Dist = fs[0], fs[1], fs[2]
		if c.Sur || c.Dist {
			c.Nf0 = c.ST + c.L + rng.PickI64([]int64{0, 1, 5, 15, 25, 40})
		} else {
			c.Nf0 = rng.PickI64([]int64{0, 3, c.DT - c.L, c.DT - c.L + 1, c.DT + 7})
		}
		c.Tm = rng.Pick(4) != 0
		c.Fund = rng.PickI64([]int64{25, 60, 200})
		w := NewWorld(c)
		r := &runnerA{lg: lg, run: fmt.Sprintf("drive:%d:%d", seed, k)}
		cur := r.add(w, 0, "Init", cfgArgs(c), nil)
		useV1 := rng.Pick(3) != 0
		useV2 := rng.Pick(3) != 0 || !useV1
		esmRun := k%2 == 0 // in every second behaviour the app's emergency shutdown may be executed while auctions are live
		for i := 0; i < steps; i++ {
			st := r.preOf(cur)
			var a string
			args := map[string]interface{}{}
			wts := []int{0, 0, 0, 0, 0, 1, 1, 1, 0}
			// 0 bid, 1 hookV1, 2 block, 3 advance, 4 generic, 5 mint, 6 seed fees, 7 surplus fund, 8 emergency shutdown
			if useV1 && esmRun && !st.Esm && len(st.Auc) > 0 {
				wts[8] = 3
			}
			if len(st.Auc) > 0 {
				wts[0] = 12
			}
			if useV1 {
				wts[1] = 5
				wts[3] = 3
			}
			if useV2 {
				wts[2] = 5
			}
			if useV2 && st.N2 < 3 {
				wts[4] = 1
			}
			if st.Tm {
				wts[5] = 0
			}
			if !c.Dist {
				wts[7] = 0
			} else {
				wts[7] = 3
			}
			switch rng.Weighted(wts) {
			case 0:
				au := st.Auc[rng.Pick(len(st.Auc))]
				fn, fd := c.Bf1N, c.Bf1D
				if au.Gen == 2 {
					fn, fd = c.Bf2N, c.Bf2D
				}
				ch := (au.Bid*fn + fd - 1) / fd
				var cand []int64
				if au.Kind == "debt" {
					cand = []int64{au.Bid + 1, au.Bid, au.Bid - ch + 1, au.Bid - ch, au.Bid - ch - 1, au.Bid - ch - rng.Int63n(5), au.Bid / 2, 1, 0}
				} else {
					base := au.Bid
					if base == 0 {
						base = 1 + rng.Int63n(9)
					}
					cand = []int64{base - 1, base, base + ch - 1, base + ch, base + ch + 1, base + ch + rng.Int63n(9), base * 3, c.Fund + 1000}
				}
				amt := cand[rng.Pick(len(cand))]
				if amt < 0 {
					amt = 0
				}
				denom := au.BidD
				if rng.Pick(12) == 0 {
					denom = rng.PickS([]string{"uatom", "ucmst", "uharbor"})
				}
				id := au.ID
				if rng.Pick(25) == 0 {
					id += 1 + rng.Int63n(2)
				}
				args["u"], args["id"], args["amt"], args["denom"] = rng.PickS(Users), id, amt, denom
				switch {
				case au.Gen == 1 && au.Kind == "surplus":
					a = "BidV1Surplus"
				case au.Gen == 1:
					a = "BidV1Debt"
					args["exp"], args["expDenom"] = c.L, "ucmst"
					if rng.Pick(10) == 0 {
						args["exp"] = c.L + rng.PickI64([]int64{-1, 1, 100})
					}
					if rng.Pick(15) == 0 {
						args["expDenom"] = "uharbor"
					}
				default:
					a = "BidV2"
				}
			case 1:
				a, args["x"] = "HookV1", int64(0)
			case 2:
				a, args["dt"] = "Block", rng.PickI64([]int64{1, 6, c.B1 + 1, c.A2, c.A2 + 1, c.A1 + 1})
			case 3:
				a, args["dt"] = "Advance", rng.PickI64([]int64{1, c.B1, c.B1 + 1, c.A1, c.A1 + 1})
			case 4:
				a, args["lot"], args["minBid"] = "StartGeneric", 1+rng.Int63n(9), 1+rng.Int63n(15)
			case 5:
				a, args["x"] = "MintGenesis", int64(0)
			case 6:
				a, args["x"] = "SeedFees", 1+rng.Int63n(2*c.L)
			case 7:
				a, args["x"] = "SurplusFund", int64(0)
			case 8:
				a, args["x"] = "EsmOn", int64(0)
			}
			cur = r.execA(w, cur, a, args)
		}
	}
}
